#!/usr/bin/env python3
# Regenerates MANIFEST.json from the table below (kept in one place so that MANIFEST, DESIGN and the checker stay consistent).
import json, os
HERE = os.path.dirname(os.path.abspath(__file__))
ids = [json.loads(l)['id'] for l in open(os.path.join(HERE, 'properties.jsonl'))]

NA = {
}

# id -> (level, technique, text, note, design_ref)
CHECKS = {}
def check(i, level, technique, text, note, ref):
    CHECKS[i] = (level, technique, text, note, ref)

exec(open(os.path.join(HERE, 'manifest_checks.py')).read())

m = {
 "version": 1,
 "setup_cmd": "./setup.sh",
 "hooks": {"guard": "verif", "enable": "none needed: static analysis reads /repo's source as it is; there are no hook commits",
           "baseline_off_cmd": "cd /repo && GOFLAGS=-mod=mod GOPROXY=off GOSUMDB=off go test -vet=off -count=1 ./...",
           "source_commits": [], "add_only": True},
 "engines": [
  {"name": "smgocheck", "path": "checker/", "serves_properties": sorted(CHECKS), "kind_free_text": "one Go binary (x/tools v0.29.0): go/packages+go/ssa loader for GOARCH amd64/arm64/386, constant folder and polynomial/exponent abstract evaluation, SSA secret-taint / slice-length / guard / effect analyses, abstract interpreters for the Fiat primitives, the comparison loop and the scalar-multiplication schedules, and an assembler front end over `go tool asm -S` listings with taint, store-provenance and access-extent dataflow"}],
 "checks": [],
 "notes": "Static analysis only: every verdict is computed from /repo's current source (Go AST/types/SSA and the assembler's macro-expanded listing) without executing SMGo code. Genuine defects found on the pinned tree were repaired by separate 'fix:' commits in /repo and are listed as fixed in known_findings.json. See DESIGN.md.",
 "not_applicable": [],
}
for i in ids:
    if i in CHECKS:
        level, tech, text, note, ref = CHECKS[i]
        m["checks"].append({
            "property_id": i,
            "quick_cmd": "./bin/smgocheck %s --tier quick" % i,
            "thorough_cmd": "./bin/smgocheck %s --tier thorough" % i,
            "evidence_file": "evidence/%s.json" % i,
            "replay_cmd_template": "./bin/smgocheck %s --replay {path}" % i,
            "engine": "smgocheck",
            "level_claimed": {"category": level, "text": text, "design_ref": ref},
            "level_note": note,
            "technique": tech,
        })
    else:
        m["not_applicable"].append({"property_id": i, "reason": NA.get(i, "static check not yet implemented in this round; not claimed (see DESIGN.md section 9)")})
json.dump(m, open(os.path.join(HERE, 'MANIFEST.json'), 'w'), indent=1)
print("checks:", [c["property_id"] for c in m["checks"]], "n/a:", [n["property_id"] for n in m["not_applicable"]])
