#!/bin/sh
# usage: tryrevert.sh <fix commit> <check id>... : temporarily re-introduces a repaired defect (reverse-applies the fix commit) and runs the checks
C="$1"; shift
cd /repo || exit 2
[ -z "$(git status --porcelain)" ] || { echo "repo not clean"; exit 2; }
git show "$C" | git apply -R || { echo "cannot reverse-apply $C"; exit 2; }
for id in "$@"; do
  /verif/bin/smgocheck "$id" --evidence /tmp/tryrevert.$id.json > /tmp/tryrevert.$id.out 2>&1; rc=$?
  grep -v "^\[" /tmp/tryrevert.$id.out | head -${TRYMUT_LINES:-8} | cut -c1-${TRYMUT_COLS:-260}
  echo "exit($id)=$rc"
done
git checkout -- .
git status --porcelain
