#!/bin/sh
# Builds the checker from files on disk only (offline).
set -e
cd "$(dirname "$0")"
export GOFLAGS=-mod=mod GOPROXY=off GOSUMDB=off GOTOOLCHAIN=local GOWORK=off
mkdir -p bin evidence
if [ -d checker ]; then
  (cd checker && go build -o ../bin/smgocheck .)
fi
