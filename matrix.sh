#!/bin/bash
# Runs every registered check against every seeded change (applied to /repo, reverted afterwards) and prints the detection matrix.
# usage: matrix.sh [mutant...]   (default: all under /verif/seeded)
cd /verif
ids="C01 C02 C03 C04 C05 C07 C08 C09 C10 C11 C12 C13 C15 C16 C17 C18 C19"
muts="$@"
[ -n "$muts" ] || muts=$(ls seeded)
out=/verif/seeded/MATRIX.txt
: > $out.tmp
for m in $muts; do
  [ -f seeded/$m/patch.diff ] || continue
  cd /repo
  [ -z "$(git status --porcelain)" ] || { echo "repo not clean"; exit 2; }
  git apply /verif/seeded/$m/patch.diff || { echo "$m: patch does not apply" | tee -a $out.tmp; continue; }
  cd /verif
  caught=""; undec=""
  for id in $ids; do
    ./bin/smgocheck $id --evidence /tmp/matrix.$id.json > /tmp/matrix.$id.out 2>&1 &
  done
  wait
  for id in $ids; do
    if grep -q "^VIOLATION property=$id" /tmp/matrix.$id.out; then
      rules=$(grep "^  violated:" /tmp/matrix.$id.out | sed -E 's/^  violated: ([A-Z0-9-]+) .*/\1/' | sort -u | paste -sd, )
      caught="$caught $id[$rules]"
    elif grep -q "^UNDECIDED" /tmp/matrix.$id.out; then
      undec="$undec $id"
    fi
  done
  git -C /repo checkout -- . ; git -C /repo clean -fdq
  echo "$m: caught by:${caught:- NONE}${undec:+  (undecided:$undec)}" | tee -a $out.tmp
done
mv $out.tmp $out
