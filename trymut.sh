#!/bin/sh
# usage: trymut.sh <patch.diff> <check id>...   applies a seeded change to /repo, runs the checks, reverts.
set -u
P="$(realpath "$1")"; shift
cd /repo || exit 2
if [ -n "$(git status --porcelain)" ]; then echo "repo not clean"; exit 2; fi
git apply "$P" || { echo "patch does not apply"; exit 2; }
for id in "$@"; do
  /verif/bin/smgocheck "$id" --evidence /tmp/trymut.$id.json > /tmp/trymut.$id.out 2>&1
  rc=$?
  grep -v "^\[" /tmp/trymut.$id.out | head -${TRYMUT_LINES:-12}
  echo "exit($id)=$rc"
done
git -C /repo checkout -- . ; git -C /repo clean -fdq
git -C /repo status --porcelain
