package main

import (
	"fmt"
	"go/token"
	"go/types"
	"sort"
	"strings"
	"sync"

	"golang.org/x/tools/go/ssa"
)

type protoOutcome struct {
	st      *sState
	vals    []sVal
	terms   []string // printable results
	restart bool
}

// protoRun follows fn of package sm2 in the protocol domain. Package-level variables of sm2 get their values from the
// package initialiser, which is followed first.
func protoRun(p *Prog, fn *ssa.Function) (*sched, []protoOutcome) {
	return protoRunMode(p, fn, false)
}

func protoRunMode(p *Prog, fn *ssa.Function, structPoints bool) (*sched, []protoOutcome) {
	return protoRunFull(p, fn, structPoints, nil, nil)
}

// protoRunFull: contracts != nil selects the glue mode; pre are initial facts
var protoCurveOnce sync.Once

func protoRunFull(p *Prog, fn *ssa.Function, structPoints bool, contracts map[string]*xContract, pre []pFact, alias ...map[int]int) (*sched, []protoOutcome) {
	e := newSched(p, map[string]*tabSem{})
	// the numeric values of the curve constants, so that a literal spelling of p, n, n-1, ... is recognised as the symbol
	protoCurveOnce.Do(func() {
		f := NewFolder(p)
		P, e1 := f.CurveInt("P")
		N, e2 := f.CurveInt("N")
		if e1 == nil && e2 == nil {
			setProtoCurve(P, N)
		}
	})
	d := &protoDom{e: e, globals: map[string]func(st *sState) sVal{}, structPoints: structPoints, glue: contracts != nil, contracts: contracts, gOK: map[string]int{}, gBad: map[string][]string{}, stream: protoStreamMode, readHelpers: map[string]string{}}
	e.proto = d
	st := newSState()
	st.gcells = map[string]int{}
	cellOf := func(mk func(st *sState) sVal) func(st *sState) sVal {
		return func(st *sState) sVal {
			id := e.newID()
			st.heap[id] = &hArray{elems: []sVal{mk(st)}}
			return sPtr{id, 0}
		}
	}
	skipInit := false
	if strings.HasSuffix(fn.Pkg.Pkg.Path(), "/sm4") {
		// the initialiser of sm4 probes CPU features and fills tables; the only variable the glue uses is the error value
		skipInit = true
		d.globals["errOpen"] = cellOf(func(st *sState) sVal { return pErr{true} })
		d.globals["candoAsm"] = cellOf(func(st *sState) sVal { return pCond{raw: "candoAsm"} }) // CPU feature probe: either value
	}
	if strings.HasSuffix(fn.Pkg.Pkg.Path(), "/sm3") {
		skipInit = true // the initialiser only fills the round-constant table, which the summarised compression function uses
	}
	if strings.HasSuffix(fn.Pkg.Pkg.Path(), "/sm2/internal") {
		// the initialiser of sm2/internal builds the curve and the tables; the two element constants the decoders use are
		// supplied here (sm2B is checked against the curve literal by C15 FORMULA-CONSTANT)
		skipInit = true
		d.globals["sm2B"] = cellOf(func(st *sState) sVal { return d.newObj(st, "elem", pSym("B")) })
		d.globals["sm2ElementOne"] = cellOf(func(st *sState) sVal { return d.newObj(st, "elem", pC(1)) })
	}
	// package initialiser
	if initFn := fn.Pkg.Func("init"); initFn != nil && !skipInit {
		e.frames = []*ssa.Function{initFn}
		fr := &sFrame{fn: initFn}
		e.lenient = true
		e.execFrom(fr, []*sState{st}, initFn.Blocks[0], nil, nil, false)
		e.lenient = false
		if len(fr.rets) == 1 {
			st = fr.rets[0].st
			if e.softAt > 0 {
				// part of the initialiser was not followed: every package-level variable stored from then on (or not at
				// all) is unknown; the ones completed before keep their values (initialisers run in dependency order and
				// the functions they call do not write other package-level variables)
				why := "its initialiser cannot be followed (" + strings.Join(e.soft, "; ") + ")"
				for name, id := range st.gcells {
					if step, ok := e.cellStoreStep[id]; !ok || step >= e.softAt {
						if arr, ok := st.heap[id].(*hArray); ok {
							for i := range arr.elems {
								arr.elems[i] = sOpaque{"package-level variable " + name + ": " + why}
							}
						}
					}
				}
			}
		} else {
			e.fail("the initialiser of package %s has %d abstract outcomes%s", fn.Pkg.Pkg.Name(), len(fr.rets), ifs(len(e.soft) > 0, " ("+strings.Join(e.soft, "; ")+")"))
		}
		e.restarts = nil
	}
	var args []sVal
	canon := canonParams[p.FuncName(fn)]
	for pi, prm0 := range fn.Params {
		// the specifications name parameters by the names of the pinned tree; a renamed parameter keeps its role by position
		prm := namedParam{prm0, prm0.Name()}
		if pi < len(canon) {
			prm.name = canon[pi]
		}
		if len(alias) > 0 {
			if j, ok := alias[0][pi]; ok && j < len(args) {
				args = append(args, args[j]) // this parameter is the same object as an earlier one
				continue
			}
		}
		switch t := prm.Type().Underlying().(type) {
		case *types.Slice:
			if d.glue {
				esz := elemSize(t.Elem())
				nm := pParam(prm.Name())
				id := d.newGObj(st, prm.Name(), pMul(pC(int64(esz)), pOp("cap", nm)), false)
				args = append(args, gSlice{id, pC(0), pOp("len", nm), pOp("cap", nm), esz})
				continue
			}
			args = append(args, pBytes{pParam(prm.Name())})
		case *types.Interface:
			args = append(args, pReader{})
		case *types.Basic:
			args = append(args, pInt{pParam(prm.Name())})
		case *types.Pointer:
			if d.glue {
				if _, isStruct := t.Elem().Underlying().(*types.Struct); isStruct {
					args = append(args, gRecv{prm.Name()})
					continue
				}
			}
			switch k := allocKind(prm.Type()); {
			case k == "elem" || k == "scalar" || k == "big":
				args = append(args, d.newObj(st, k, pParam(prm.Name()+"0")))
			case k == "point" && structPoints:
				id := e.newID()
				obj := &hArray{elems: make([]sVal, 3)}
				for i, c := range []string{"x", "y", "z"} {
					obj.elems[i] = d.newObj(st, "elem", pParam(prm.Name()+"0."+c))
				}
				st.heap[id] = obj
				args = append(args, sPtr{id, -1})
			case k == "point":
				args = append(args, d.newObj(st, "point", pParam(prm.Name()+"0")))
			default:
				e.fail("parameter %s of %s has a type the protocol domain does not model", prm.Name(), fn.Name())
				args = append(args, sOpaque{"param"})
			}
		default:
			_ = t
			e.fail("parameter %s of %s has a type the protocol domain does not model", prm.Name(), fn.Name())
			args = append(args, sOpaque{"param"})
		}
	}
	st.draws, st.readErrs, st.drawLens = 0, 0, nil
	st.pfacts = append(st.pfacts, pre...)
	e.rootArgs = args
	rets := e.runFunc(fn, st, args)
	var out []protoOutcome
	for _, r := range rets {
		o := protoOutcome{st: r.st, vals: r.vals}
		for _, v := range r.vals {
			o.terms = append(o.terms, d.show(r.st, v))
		}
		out = append(out, o)
	}
	for _, s := range e.restarts {
		out = append(out, protoOutcome{st: s, restart: true})
	}
	return e, out
}

func (d *protoDom) show(st *sState, v sVal) string {
	switch x := v.(type) {
	case pErr:
		if x.nonnil {
			return "error"
		}
		return "nil"
	case sNil:
		return "nil"
	case sBool:
		return fmt.Sprint(x.b)
	case sInt:
		return x.v.String()
	case pInt:
		return d.normInt(st, x.t).String()
	case pCond:
		if x.a == nil {
			return ifs(x.neg, "!") + x.raw
		}
		op := x.op
		if x.neg {
			op = negOp[op]
		}
		return x.a.String() + " " + op.String() + " " + x.b.String() + ifs(x.raw != "", " ["+x.raw+"]")
	case gSlice:
		nm := "?"
		if h := d.gobj(st, x.obj); h != nil {
			nm = h.name
		}
		return fmt.Sprintf("slice(%s+%s, len %s, cap %s)", nm, x.off, x.ln, x.cp)
	case pObj:
		if h := d.obj(st, v); h != nil && h.t != nil {
			return h.kind + ":" + h.t.String()
		}
		return "object"
	}
	if t, ok := d.bytesOf(st, v); ok {
		return d.normInt(st, t).String()
	}
	return fmt.Sprintf("%v", v)
}

func debugProto(args []string) {
	repo := "/repo"
	if v := osGetenv("SMGO_REPO"); v != "" {
		repo = v
	}
	p, err := LoadRepo(repo, "amd64")
	if err != nil {
		fmt.Println(err)
		return
	}
	for _, name := range args {
		fn := p.Func(name)
		if fn == nil {
			fmt.Println("no such function", name)
			continue
		}
		e, outs := protoRunMode(p, fn, strings.Contains(name, "SM2Point") || strings.Contains(name, "internal.Sm2"))
		fmt.Printf("== %s: %d outcomes, %d steps\n", name, len(outs), e.steps)
		for _, x := range e.errs {
			fmt.Println("   ERR", x)
		}
		for _, x := range e.precond {
			fmt.Println("   PRECOND", x)
		}
		for _, x := range e.panics {
			fmt.Println("   PANIC", x)
		}
		for i, o := range outs {
			var fs []string
			for _, f := range o.st.pfacts {
				fs = append(fs, f.String())
			}
			fmt.Printf(" #%d restart=%v draws=%d readErrs=%d ret=[%s]\n     facts: %s\n", i, o.restart, o.st.draws, o.st.readErrs, strings.Join(o.terms, " | "), strings.Join(fs, " ; "))
		}
	}
	_ = token.ADD
}

func debugGlue(args []string) {
	repo := "/repo"
	if v := osGetenv("SMGO_REPO"); v != "" {
		repo = v
	}
	arch := "amd64"
	if v := osGetenv("SMGO_ARCH"); v != "" {
		arch = v
	}
	p, err := LoadRepo(repo, arch)
	if err != nil {
		fmt.Println(err)
		return
	}
	for _, name := range args {
		fn := p.Func(name)
		if fn == nil {
			fmt.Println("no such function", name)
			continue
		}
		e, outs := protoRunFull(p, fn, false, asmContracts(arch), nil)
		fmt.Printf("== %s [%s]: %d outcomes, %d steps\n", name, arch, len(outs), e.steps)
		for _, x := range e.errs {
			fmt.Println("   ERR", x)
		}
		for _, x := range e.panics {
			fmt.Println("   PANIC", x)
		}
		for rule, bad := range e.proto.gBad {
			for _, b := range bad {
				fmt.Println("   OBLIGATION", rule, b)
			}
		}
		fmt.Println("   obligations proved:", e.proto.gOK)
		for i, o := range outs {
			var fs []string
			for _, f := range o.st.pfacts {
				fs = append(fs, f.String())
			}
			var es []string
			for _, ef := range o.st.geff {
				es = append(es, ef.kind+":"+ef.what)
			}
			fmt.Printf(" #%d ret=[%s]\n     facts: %s\n     effects: %s\n", i, strings.Join(o.terms, " | "), strings.Join(fs, " ; "), strings.Join(es, ","))
		}
	}
}

// namedParam: a parameter with the canonical name the specifications use for its position
type namedParam struct {
	p    *ssa.Parameter
	name string
}

func (n namedParam) Name() string     { return n.name }
func (n namedParam) Type() types.Type { return n.p.Type() }

// canonParams: entry point -> parameter names by position (receiver first) as the specifications spell them
var canonParams = map[string][]string{
	"sm2.DerivePublic":         {"priv"},
	"sm2.GenerateKey":          {"rand"},
	"sm2.CheckOnCurve":         {"x", "y"},
	"sm2.TestPrivateKey":       {"priv"},
	"sm2.ZA":                   {"id", "pubx", "puby"},
	"sm2.Sign":                 {"id", "pubx", "puby", "rand", "priv", "msg"},
	"sm2.SignZa":               {"rand", "priv", "za", "msg"},
	"sm2.SignHashed":           {"rand", "priv", "e"},
	"sm2.Verify":               {"id", "pubx", "puby", "msg", "r", "s"},
	"sm2.VerifyZa":             {"pubx", "puby", "za", "msg", "r", "s"},
	"sm2.VerifyHashed":         {"pubx", "puby", "e", "r", "s"},
	"sm3.(*SM3).Write":         {"sm3", "data"},
	"sm3.(*SM3).Sum":           {"sm3", "in"},
	"sm3.(*SM3).Reset":         {"sm3"},
	"sm3.SumSM3":               {"data"},
	"sm4.NewCipher":            {"key"},
	"sm4.(*sm4GcmAsm).Seal":    {"g", "dst", "nonce", "plaintext", "additionalData"},
	"sm4.(*sm4GcmAsm).Open":    {"g", "dst", "nonce", "ciphertext", "additionalData"},
	"sm4.(*sm4Cipher).Encrypt": {"sm4", "dst", "src"}, "sm4.(*sm4Cipher).Decrypt": {"sm4", "dst", "src"},
	"sm4.(*sm4CipherAsm).Encrypt": {"sm4", "dst", "src"}, "sm4.(*sm4CipherAsm).Decrypt": {"sm4", "dst", "src"},
	"sm4.encryptX2": {"sm4", "dst", "src"}, "sm4.decryptX2": {"sm4", "dst", "src"},
	"sm2/internal/fiat.(*SM2Element).SetBytes":       {"e", "v"},
	"sm2/internal/fiat.(*SM2ScalarElement).SetBytes": {"e", "v"},
	"sm2/internal/fiat.(*SM2Element).IsZero":         {"e"},
	"sm2/internal/fiat.(*SM2ScalarElement).IsZero":   {"e"},
	"sm2/internal.(*SM2Point).SetBytes":              {"p", "b"},
	"sm2/internal.(*SM2Point).IsInfinity":            {"p"},
	"sm2/internal.Sm2CheckOnCurve":                   {"x", "y"},
}

var protoStreamMode bool

// protoRunStream: the stream domain (glue domain with mutable fields, struct copies and loop acceleration)
func protoRunStream(p *Prog, fn *ssa.Function, pre []pFact) (*sched, []protoOutcome) {
	protoStreamMode = true
	defer func() { protoStreamMode = false }()
	return protoRunFull(p, fn, false, map[string]*xContract{}, pre)
}

func debugStream(args []string) {
	repo := "/repo"
	if v := osGetenv("SMGO_REPO"); v != "" {
		repo = v
	}
	p, err := LoadRepo(repo, "amd64")
	if err != nil {
		fmt.Println(err)
		return
	}
	for _, name := range args {
		fn := p.Func(name)
		if fn == nil {
			fmt.Println("no such function", name)
			continue
		}
		e, outs := protoRunStream(p, fn, sm3Invariant("sm3"))
		fmt.Printf("== %s: %d outcomes, %d steps\n", name, len(outs), e.steps)
		for _, x := range e.errs {
			fmt.Println("   ERR", x)
		}
		for _, x := range e.panics {
			fmt.Println("   PANIC", x)
		}
		for rule, bad := range e.proto.gBad {
			for _, b := range bad {
				fmt.Println("   OBLIGATION", rule, b)
			}
		}
		fmt.Println("   obligations proved:", e.proto.gOK)
		for i, o := range outs {
			var fs []string
			for _, f := range o.st.pfacts {
				fs = append(fs, f.String())
			}
			var es []string
			for _, ef := range o.st.geff {
				es = append(es, e.proto.effString(o.st, ef))
			}
			var fl []string
			for k, v := range o.st.gfields {
				fl = append(fl, k+"="+e.proto.show(o.st, v))
			}
			sort.Strings(fl)
			fmt.Printf(" #%d ret=[%s]\n     facts: %s\n     fields: %s\n     effects: %s\n", i, strings.Join(o.terms, " | "), strings.Join(fs, " ; "), strings.Join(fl, " ; "), strings.Join(es, " , "))
		}
	}
}

func (d *protoDom) effString(st *sState, ef gEffect) string {
	nm := func(id int) string {
		if h := d.gobj(st, id); h != nil {
			return h.name
		}
		return fmt.Sprint(id)
	}
	switch ef.kind {
	case "rep":
		var b []string
		for i, x := range ef.rep.body {
			b = append(b, fmt.Sprintf("%s +%d/+%d", d.effString(st, x), ef.rep.dOff[i], ef.rep.dSrc[i]))
		}
		return fmt.Sprintf("rep %s x {%s}", ef.rep.k, strings.Join(b, ", "))
	case "copy":
		return fmt.Sprintf("copy %s+%s <- %s+%s (%s)", nm(ef.obj), ef.off, nm(ef.srcObj), ef.srcOff, ef.n)
	case "cf":
		return fmt.Sprintf("cf[%s] %s+%s", ef.what, nm(ef.obj), ef.off)
	case "put", "write":
		v := "?"
		if ef.val != nil {
			v = ef.val.String()
		}
		return fmt.Sprintf("%s %s+%s (%s) = %s", ef.kind, nm(ef.obj), ef.off, ef.n, v)
	}
	return ef.kind + ":" + ef.what
}

// sm3Invariant: the representation invariant of an SM3 value named recv: 0 <= nx <= 63
func sm3Invariant(recv string) []pFact {
	nx := pParam(recv + ".nx")
	return []pFact{{a: nx, op: token.GEQ, b: pC(0)}, {a: nx, op: token.LEQ, b: pC(63)}, {a: pParam(recv + ".len"), op: token.GEQ, b: pC(0)}}
}
