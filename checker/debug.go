package main

import (
	"fmt"
	"os"

	"golang.org/x/tools/go/ssa"
)

// debugGuards prints the canonical guard texts of every return of a function (developer aid: smgocheck guards <func> [arch]).
func debugGuards(args []string) {
	repo := "/repo"
	arch := "amd64"
	if len(args) > 1 {
		arch = args[1]
	}
	if v := os.Getenv("SMGO_REPO"); v != "" {
		repo = v
	}
	p, err := LoadRepo(repo, arch)
	if err != nil {
		fmt.Println(err)
		os.Exit(2)
	}
	fn := p.Func(args[0])
	if fn == nil {
		fmt.Println("no such function")
		os.Exit(2)
	}
	f := NewFolder(p)
	for _, b := range fn.Blocks {
		ret, ok := b.Instrs[len(b.Instrs)-1].(*ssa.Return)
		if !ok {
			continue
		}
		ps := newPathSym(p, fn, f)
		ps.WalkTo(b)
		fmt.Printf("== return at %s:", p.InstrPos(ret))
		for _, r := range ret.Results {
			fmt.Printf(" [%s]", ps.S(r))
		}
		fmt.Println()
		for _, g := range ps.Guards {
			fmt.Printf("     %s\n", g.Text)
		}
	}
}
