package main

import (
	"fmt"
	"os"

	"golang.org/x/tools/go/ssa"
)

// debugGuards prints the canonical guard texts of every return of a function (developer aid: smgocheck guards <func> [arch]).
func debugGuards(args []string) {
	repo := "/repo"
	arch := "amd64"
	if len(args) > 1 {
		arch = args[1]
	}
	if v := os.Getenv("SMGO_REPO"); v != "" {
		repo = v
	}
	p, err := LoadRepo(repo, arch)
	if err != nil {
		fmt.Println(err)
		os.Exit(2)
	}
	fn := p.Func(args[0])
	if fn == nil {
		fmt.Println("no such function")
		os.Exit(2)
	}
	f := NewFolder(p)
	for _, b := range fn.Blocks {
		ret, ok := b.Instrs[len(b.Instrs)-1].(*ssa.Return)
		if !ok {
			continue
		}
		ps := newPathSym(p, fn, f)
		ps.WalkTo(b)
		fmt.Printf("== return at %s:", p.InstrPos(ret))
		for _, r := range retVals(ret) {
			fmt.Printf(" [%s]", ps.S(r))
		}
		fmt.Println()
		for _, g := range ps.Guards {
			fmt.Printf("     %s\n", g.Text)
		}
	}
}

func debugExtents(args []string) {
	arch, name := args[0], args[1]
	c := &Ctx{Repo: "/repo", Verif: "/verif", Tier: "quick"}
	if v := osGetenv("SMGO_REPO"); v != "" {
		c.Repo = v
	}
	r := NewReport("dbg", "quick", "other")
	u, _ := loadAsmBound(c, r, arch)
	if u == nil {
		fmt.Println(r.Fatal)
		return
	}
	rt := u.Routine(name)
	flow := AnalyzeFlow(rt)
	dataSize := map[string]int{}
	for _, d := range u.DataSyms() {
		dataSize[d.Name] = d.Size
	}
	xDebug = true
	res := AnalyzeExtents(rt, flow, asmContracts(arch)[name], dataSize)
	n := map[int]int{}
	for _, a := range res.accesses {
		n[a.status]++
		if a.status != 1 {
			fmt.Printf("  %s %s: status %d %s\n", a.instr.Pos, a.instr.Raw, a.status, a.detail)
		}
	}
	fmt.Println("accesses by status:", n, "max states:", res.maxStates, "problems:", res.problems)
	for _, o := range res.consumption {
		fmt.Println("  ", o.Status, o.Key, o.Detail)
	}
	for _, b := range VecDefBeforeUse(rt, flow) {
		fmt.Println("   UNDEF", b)
	}
	fmt.Println("scratch loads:", res.scratchLoads)
	for _, o := range res.scratchObl {
		fmt.Println("  ", o.Status, o.Key, o.Detail)
	}
}

var xDebug bool

func debugEffects(args []string) {
	repo := "/repo"
	if v := os.Getenv("SMGO_REPO"); v != "" {
		repo = v
	}
	p, err := LoadRepo(repo, "386")
	if err != nil {
		fmt.Println(err)
		os.Exit(2)
	}
	e := NewEffects(p, map[string]map[int]bool{})
	e.Run()
	for _, n := range args {
		fn := p.Func(n)
		if fn == nil {
			fmt.Println("no such function", n)
			continue
		}
		s := e.sum[fn]
		fmt.Printf("%s writesParam=%v retains=%v retAlias=%v\n", n, s.writesParam, s.retains, s.retAlias)
		for i, sites := range s.paramSites {
			for _, st := range sites {
				fmt.Printf("   param %d: %s\n", i, siteChain(p, st))
			}
		}
	}
}

func debugRetGlobals(args []string) {
	repo := "/repo"
	if v := os.Getenv("SMGO_REPO"); v != "" {
		repo = v
	}
	p, err := LoadRepo(repo, "amd64")
	if err != nil {
		fmt.Println(err)
		os.Exit(2)
	}
	e := NewEffects(p, map[string]map[int]bool{})
	e.Run()
	for _, fn := range p.RepoFuncs() {
		s := e.sum[fn]
		if s == nil {
			continue
		}
		for k, g := range s.retGlobal {
			if g != nil {
				fmt.Printf("%s result#%d aliases %s\n", p.FuncName(fn), k, g.Name())
			}
		}
	}
}

func osGetenv(k string) string { return os.Getenv(k) }
