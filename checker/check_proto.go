package main

// Specifications of the SM2 entry points, checked on the outcomes of the protocol-domain interpretation (proto*.go).
// An outcome is one path: its return values as terms and its path condition as facts. Every rule below is a statement
// about all outcomes of a function, so it does not depend on how the source spells a guard or splits the work into helpers.

import (
	"fmt"
	"go/token"
	"math/big"
	"sort"
	"strings"

	"golang.org/x/tools/go/ssa"
)

type protoSpec struct {
	r    *Report
	p    *Prog
	fn   *ssa.Function
	name string
	e    *sched
	outs []protoOutcome
	d    *protoDom
	bad  map[string][]string
	seen map[string]int
	only map[string]bool // when set: the rules this property owns (others are decided under their own property)
}

func newProtoSpec(r *Report, p *Prog, name string) *protoSpec {
	fn := p.MustFunc(r, name)
	if fn == nil {
		return nil
	}
	e, outs := protoRun(p, fn)
	ps := &protoSpec{r: r, p: p, fn: fn, name: name, e: e, outs: outs, d: e.proto, bad: map[string][]string{}, seen: map[string]int{}}
	pos := p.Pos(fn.Pos())
	r.Count("protocol_paths", len(outs))
	if len(e.errs) > 0 || len(e.panics) > 0 {
		r.Viol("FOLLOWED", name, pos, "the function cannot be followed in the protocol domain: "+strings.Join(append(append([]string{}, e.errs...), e.panics...), "; "))
		return nil
	}
	for h, why := range e.proto.readHelpers {
		r.Ok("READ-HELPER", h+" (used by "+name+")", pos, "hand-written full read of the random source, used through the contract of io.ReadFull because its shape establishes it: "+why)
	}
	sort.Strings(e.precond)
	r.Check(len(e.precond) == 0, "PRECONDITIONS", name, pos, fmt.Sprintf("%d paths followed; every summarised operation (fixed-width scalars, finite points, values that fit their encoding) has its precondition established by the guards of its path", len(outs))+ifs(len(e.precond) > 0, ": "+strings.Join(firstN(e.precond, 3), "; ")))
	return ps
}

func (ps *protoSpec) fail(rule, format string, a ...interface{}) {
	msg := fmt.Sprintf(format, a...)
	if len(ps.bad[rule]) < 3 {
		ps.bad[rule] = append(ps.bad[rule], msg)
	}
}

func (ps *protoSpec) need(rule string, cond bool, format string, a ...interface{}) bool {
	ps.seen[rule]++
	if !cond {
		ps.fail(rule, format, a...)
	}
	return cond
}

func (ps *protoSpec) flush(rules map[string]string) {
	pos := ps.p.Pos(ps.fn.Pos())
	var names []string
	for k := range rules {
		names = append(names, k)
	}
	sort.Strings(names)
	for _, rule := range names {
		if ps.only != nil && !ps.only[rule] {
			continue
		}
		n := ps.seen[rule]
		if n == 0 {
			ps.r.Viol(rule, ps.name, pos, "no outcome of the function exercises this rule (no accepting path was found): "+rules[rule])
			continue
		}
		ps.r.Check(len(ps.bad[rule]) == 0, rule, ps.name, pos, fmt.Sprintf("%s (%d outcome checks)", rules[rule], n)+ifs(len(ps.bad[rule]) > 0, ": "+strings.Join(ps.bad[rule], "; ")))
	}
}

func (ps *protoSpec) prove(o protoOutcome, a *pt, op token.Token, b *pt) bool {
	return proveP(o.st.pfacts, a, op, b)
}

func (ps *protoSpec) hasPred(o protoOutcome, raw string, val bool) bool {
	for _, f := range o.st.pfacts {
		if f.a == nil && f.raw == raw && f.val == val {
			return true
		}
	}
	return false
}

func isNilVal(v sVal) bool {
	switch x := v.(type) {
	case sNil:
		return true
	case pErr:
		return !x.nonnil
	}
	return false
}

func isErrVal(v sVal) bool {
	x, ok := v.(pErr)
	return ok && x.nonnil
}

// residueOf: T is the canonical residue modulo N of the integer whose polynomial is want
func (ps *protoSpec) residueOf(o protoOutcome, T *pt, want spoly) bool {
	T = ps.d.normInt(o.st, T)
	if T.op == "mod" {
		return len(polyOf(T.args[0]).add(want, -1)) == 0
	}
	if len(polyOf(T).add(want, -1)) != 0 {
		return false
	}
	return ps.prove(o, T, token.GEQ, pC(0)) && ps.prove(o, T, token.LSS, pSym("N"))
}

func findSub(t *pt, op string) *pt {
	if t == nil {
		return nil
	}
	if t.op == op {
		return t
	}
	for _, a := range t.args {
		if r := findSub(a, op); r != nil {
			return r
		}
	}
	return nil
}

// be32: the value is a 32-byte big-endian encoding; returns the encoded integer term
func (ps *protoSpec) be32(o protoOutcome, v sVal) (*pt, bool) {
	t, ok := ps.d.bytesOf(o.st, v)
	if !ok {
		return nil, false
	}
	t = ps.d.normInt(o.st, t)
	if t.op == "be" && t.k == 32 {
		return t.args[0], true
	}
	return nil, false
}

// ---------- verification ----------

// specVerify: eWant is the digest term (parameter e for VerifyHashed)
func (ps *protoSpec) specVerify(eWant0 *pt, pubx, puby, r, s *pt) {
	for _, o := range ps.outs {
		eWant := ps.dropEmpty(o, eWant0)
		if o.restart || len(o.vals) != 2 {
			continue
		}
		if b, ok := o.vals[0].(sBool); ok && !b.b {
			continue // a rejecting outcome
		}
		// an outcome that can accept
		ps.need("VERIFY-ERROR-NIL", isNilVal(o.vals[1]), "an outcome that can return true carries a non-nil error")
		for _, x := range []*pt{pubx, puby, eWant, r, s} {
			if x.op == "param" {
				ps.need("VERIFY-LENGTHS", ps.d.lenOf(o.st, x) == 32 || ps.prove(o, pOp("len", x), token.EQL, pC(32)), "len(%s) == 32 does not follow from the guards of an accepting path", x)
			}
		}
		for _, x := range []*pt{r, s} {
			ps.need("VERIFY-RANGE", ps.prove(o, pVal(x), token.GEQ, pC(1)) && ps.prove(o, pVal(x), token.LSS, pSym("N")), "1 <= %s <= n-1 does not follow from the guards of an accepting path", x)
		}
		c, isC := o.vals[0].(pCond)
		if isC && c.raw == "bytes" && c.a != nil && c.b != nil && c.a.op == "be" && c.b.op == "be" && c.a.k == c.b.k {
			// equality of two fixed-width encodings of the same width is equality of the encoded values
			c = pCond{a: c.a.args[0], b: c.b.args[0], op: c.op, neg: c.neg}
		}
		if isC && c.raw == "bytes" && c.a != nil && c.b != nil {
			// ... and so is equality of a fixed-width encoding with a byte string of that length (bytes.Equal(fixed32(R), r))
			if c.a.op == "be" && c.b.op != "be" && ps.d.lenOf(o.st, c.b) == c.a.k {
				c = pCond{a: c.a.args[0], b: pVal(c.b), op: c.op, neg: c.neg}
			} else if c.b.op == "be" && c.a.op != "be" && ps.d.lenOf(o.st, c.a) == c.b.k {
				c = pCond{a: pVal(c.a), b: c.b.args[0], op: c.op, neg: c.neg}
			}
		}
		if !isC || c.a == nil || c.raw != "" {
			ps.need("VERIFY-VERDICT", false, "the verdict of an accepting path is not an integer comparison (%s)", ps.d.show(o.st, o.vals[0]))
			continue
		}
		op := c.op
		if c.neg {
			op = negOp[op]
		}
		if op != token.EQL {
			ps.need("VERIFY-VERDICT", false, "the verdict is %s; required: ((e + x1) mod n) == r", ps.d.show(o.st, o.vals[0]))
			continue
		}
		ax := findSub(c.a, "affx")
		if ax == nil {
			ax = findSub(c.b, "affx")
		}
		if ax == nil {
			ps.need("VERIFY-VERDICT", false, "the verdict %s does not involve the affine x coordinate of [s]G+[t]P", ps.d.show(o.st, o.vals[0]))
			continue
		}
		// A == B decides (e + x1) = r modulo n when both sides are canonical residues (a mod(.) term, or a value the path
		// bounds by 0 <= v < n) whose difference is congruent to +-(e + x1 - r)
		side := func(t *pt) (*pt, bool) {
			t = ps.d.normInt(o.st, t)
			if t.op == "mod" {
				return t.args[0], true
			}
			return t, ps.prove(o, t, token.GEQ, pC(0)) && ps.prove(o, t, token.LSS, pSym("N"))
		}
		ia, ca := side(c.a)
		ib, cb := side(c.b)
		diff := polyOf(pAdd(ia, pNeg(ib)))
		want := polyOf(pAdd(pAdd(pVal(eWant), ax), pNeg(pVal(r))))
		okV := ca && cb && (len(diff.add(want, -1)) == 0 || len(diff.add(want, 1)) == 0)
		ps.need("VERIFY-VERDICT", okV, "the verdict %s is not equivalent to ((e + x1) mod n) == r: both compared values must be canonical residues whose difference is congruent to e + x1 - r", ps.d.show(o.st, o.vals[0]))
		// the point
		PT := ax.args[0]
		okPt := PT.op == "mixed" && PT.args[0].String() == pVal(s).String()
		ps.need("VERIFY-POINT", okPt, "x1 is taken from %s; required: [s]G + [t]P with the base-point scalar s", PT)
		if !okPt {
			continue
		}
		wantPub := pOp("cat", pLit([]byte{4}), pubx, puby)
		viaDecoder := PT.args[1].op == "decode" && PT.args[1].args[0].String() == wantPub.String() && ps.hasPred(o, "decodes("+wantPub.String()+")", true)
		// or built from the two coordinates after each was decoded canonically and the curve equation was checked
		direct := PT.args[1].op == "xy" && PT.args[1].args[0].String() == pVal(pubx).String() && PT.args[1].args[1].String() == pVal(puby).String() &&
			ps.hasPred(o, "canonicalelem("+pubx.String()+")", true) && ps.hasPred(o, "canonicalelem("+puby.String()+")", true) &&
			ps.hasPred(o, "onCurve("+pVal(pubx).String()+","+pVal(puby).String()+")", true)
		ps.need("VERIFY-PUBKEY", viaDecoder || direct, "the point P is %s; required: the canonical on-curve decoding of 04 || pubx || puby, checked for success (or the point built from both coordinates after their canonical decoding and a successful curve-equation check)", PT.args[1])
		tT := PT.args[2]
		ps.need("VERIFY-T", ps.residueOf(o, tT, polyOf(pAdd(pVal(r), pVal(s)))) && ps.prove(o, ps.d.normInt(o.st, tT), token.GEQ, pC(1)), "the point scalar %s is not the non-zero canonical residue of r + s modulo n on an accepting path", tT)
		ps.need("VERIFY-FINITE", ps.hasPred(o, "isInf("+PT.String()+")", false), "the accepting path does not exclude [s]G + [t]P being the point at infinity")
	}
	ps.flush(map[string]string{
		"VERIFY-ERROR-NIL": "an outcome that can return true has a nil error",
		"VERIFY-LENGTHS":   "on every outcome that can return true all five inputs are known to be 32 bytes long",
		"VERIFY-RANGE":     "on every outcome that can return true 1 <= r, s <= n-1 follows from the path condition",
		"VERIFY-VERDICT":   "the returned verdict is ((e + x1) mod n) == r with the left side a canonical residue",
		"VERIFY-POINT":     "x1 is the affine x of [s]G + [t]P computed with base-point scalar s",
		"VERIFY-PUBKEY":    "P is the successfully decoded 04 || pubx || puby",
		"VERIFY-T":         "t is the canonical residue of r + s and is non-zero",
		"VERIFY-FINITE":    "the point at infinity is excluded before its x coordinate is used",
	})
}

// ---------- signing ----------

func lastDraw(o protoOutcome) *pt {
	if o.st.draws == 0 {
		return nil
	}
	return &pt{op: "draw", s: fmt.Sprintf("draw#%d", o.st.draws), k: o.st.drawLens[len(o.st.drawLens)-1]}
}

func (ps *protoSpec) specSign(eWant0, priv *pt) {
	d := pVal(priv)
	for _, o := range ps.outs {
		eWant := ps.dropEmpty(o, eWant0)
		if o.restart {
			ok := o.st.draws >= 1
			for _, l := range o.st.drawLens {
				if l != 32 {
					ok = false
				}
			}
			ps.need("SIGN-REDRAW", ok, "a rejected candidate does not lead to a new full 32-byte draw")
			ps.need("SIGN-ROUNDS-INDEPENDENT", len(o.st.iterDirty) == 0, "a rejected round changes a value that was computed before the retry loop and is used again by the next round: %s", strings.Join(firstN(o.st.iterDirty, 2), "; "))
			// a candidate is rejected only for one of the standard's reasons: k outside [1, n-1], r = 0, r + k = n, s = 0
			if kd := lastDraw(o); kd != nil && kd.k == 32 {
				k := pVal(kd)
				x1 := pOp("affx", pOp("base", k))
				rPoly := polyOf(pAdd(pVal(eWant), x1))
				rkPoly := polyOf(pAdd(pAdd(pVal(eWant), x1), k))
				Rt := pOp("mod", pAdd(pVal(eWant), x1))
				why := ps.prove(o, k, token.LEQ, pC(0)) || ps.prove(o, k, token.GEQ, pSym("N")) || ps.prove(o, pAdd(Rt, k), token.EQL, pSym("N"))
				// the scalar decoder refused the 32-byte candidate: k >= n (its contract, DECODE-EXACT)
				if ps.hasPred(o, "canonicalscalar("+kd.String()+")", false) {
					why = true
				}
				for _, f := range o.st.pfacts {
					if why {
						break
					}
					if f.a == nil {
						continue
					}
					for _, pr := range [][2]*pt{{f.a, f.b}, {f.b, f.a}} {
						m, z := ps.d.normInt(o.st, pr[0]), pr[1]
						isZero := z.op == "c" && z.n.Sign() == 0 && (f.op == token.EQL || (f.op == token.LEQ && pr[0] == f.a) || (f.op == token.GEQ && pr[0] == f.b))
						if !isZero || m.op != "mod" {
							continue
						}
						u := polyOf(m.args[0])
						if len(u.add(rPoly, -1)) == 0 || len(u.add(rkPoly, -1)) == 0 || sCongruent(m.args[0], k, Rt, d) {
							why = true
						}
					}
				}
				ps.need("SIGN-REDRAW-ONLY", why, "a candidate is rejected on a path that establishes none of k = 0, k >= n, r = 0, r + k = n, s = 0: a nonce the standard accepts is skipped")
			}
			continue
		}
		if len(o.vals) != 3 {
			continue
		}
		if isErrVal(o.vals[2]) {
			ps.need("SIGN-ERROR-RESULTS", isNilVal(o.vals[0]) && isNilVal(o.vals[1]), "an error outcome returns non-nil signature parts (%s, %s)", ps.d.show(o.st, o.vals[0]), ps.d.show(o.st, o.vals[1]))
			continue
		}
		// success
		ps.need("SIGN-KEY-RANGE", ps.prove(o, d, token.GEQ, pC(1)) && ps.prove(o, d, token.LEQ, pAdd(pSym("N"), pC(-2))), "a signature is returned although 1 <= d <= n-2 does not follow from the guards of the path")
		kd := lastDraw(o)
		if !ps.need("SIGN-NONCE", kd != nil && kd.k == 32, "a signature is returned without a 32-byte draw from the random source") {
			continue
		}
		k := pVal(kd)
		ps.need("SIGN-NONCE", ps.prove(o, k, token.GEQ, pC(1)) && ps.prove(o, k, token.LSS, pSym("N")), "the nonce of a returned signature is not known to satisfy 1 <= k <= n-1")
		R, okR := ps.be32(o, o.vals[0])
		S, okS := ps.be32(o, o.vals[1])
		if !ps.need("SIGN-WIDTH", okR && okS, "r or s is not a 32-byte big-endian encoding (%s, %s)", ps.d.show(o.st, o.vals[0]), ps.d.show(o.st, o.vals[1])) {
			continue
		}
		x1 := pOp("affx", pOp("base", k))
		ps.need("SIGN-R", ps.residueOf(o, R, polyOf(pAdd(pVal(eWant), x1))), "r = %s is not the canonical residue of e + x([k]G) modulo n for the last drawn k", R)
		ps.need("SIGN-R-NONZERO", ps.prove(o, ps.d.normInt(o.st, R), token.GEQ, pC(1)), "r != 0 does not follow from the guards of a returning path")
		rk := pAdd(R, k)
		okRK := ps.prove(o, rk, token.NEQ, pSym("N"))
		if !okRK {
			// r + k shorter or longer than 32 bytes cannot equal n
			for _, f := range o.st.pfacts {
				if f.a != nil && f.op == token.NEQ && f.b.op == "c" && f.b.n.IsInt64() && f.b.n.Int64() == 32 && f.a.op == "len" && f.a.args[0].op == "minbe" && len(polyOfPlain(f.a.args[0].args[0]).add(polyOfPlain(rk), -1)) == 0 {
					okRK = true
				}
			}
		}
		if !okRK {
			// (r + k) mod n != 0 on the path: r + k is not a multiple of n, in particular not n
			want := polyOf(rk)
			for _, f := range o.st.pfacts {
				if f.a == nil {
					continue
				}
				for _, pr := range [][2]*pt{{f.a, f.b}, {f.b, f.a}} {
					m, z := pr[0], pr[1]
					nonzero := (f.op == token.NEQ && z.op == "c" && z.n.Sign() == 0) || (f.op == token.GEQ && pr[0] == f.a && z.op == "c" && z.n.IsInt64() && z.n.Int64() == 1) || (f.op == token.GTR && pr[0] == f.a && z.op == "c" && z.n.Sign() == 0)
					if nonzero && m.op == "mod" && len(polyOf(m.args[0]).add(want, -1)) == 0 {
						okRK = true
					}
				}
			}
		}
		ps.need("SIGN-RK", okRK, "r + k != n does not follow from the guards of a returning path")
		// s = (1+d)^-1 (k - r d): with I = inv(1+d): s ≡ I*k - I*r*d ; E = poly(S) - target = A*I + B ; need A + B*(1+d) == 0
		I := pOp("inv", pAdd(d, pC(1)))
		Sn := ps.d.normInt(o.st, S)
		inner := Sn
		okS2 := true
		if Sn.op == "mod" {
			inner = Sn.args[0]
		} else {
			okS2 = ps.prove(o, Sn, token.GEQ, pC(0)) && ps.prove(o, Sn, token.LSS, pSym("N"))
		}
		_ = I
		ps.need("SIGN-S", okS2 && sCongruent(inner, k, R, d), "s = %s is not the canonical residue of (1+d)^-1 (k - r d) modulo n", S)
		ps.need("SIGN-S-NONZERO", ps.prove(o, Sn, token.GEQ, pC(1)), "s != 0 does not follow from the guards of a returning path")
	}
	ps.flush(map[string]string{
		"SIGN-REDRAW":             "every rejected candidate restarts the loop after a full 32-byte draw",
		"SIGN-ROUNDS-INDEPENDENT": "a rejected round leaves every value that was computed before the retry loop unchanged (the next round signs the same digest with the same key)",
		"SIGN-REDRAW-ONLY":        "a candidate is rejected only when k = 0, k >= n, r = 0, r + k = n or s = 0",
		"SIGN-ERROR-RESULTS":      "every error outcome returns nil for r and s",
		"SIGN-KEY-RANGE":          "a signature is returned only for 1 <= d <= n-2",
		"SIGN-NONCE":              "k is the last 32-byte draw and 1 <= k <= n-1",
		"SIGN-WIDTH":              "r and s are 32-byte big-endian encodings",
		"SIGN-R":                  "r = (e + x([k]G)) mod n",
		"SIGN-R-NONZERO":          "r != 0",
		"SIGN-RK":                 "r + k != n",
		"SIGN-S":                  "s = ((1+d)^-1 (k - r d)) mod n",
		"SIGN-S-NONZERO":          "s != 0",
	})
}

// polyOfPlain: polynomial without reducing N to zero (for syntactic equality of integer terms)
func polyOfPlain(t *pt) spoly {
	switch t.op {
	case "c":
		return spoly{"": t.n}.add(spoly{}, 1)
	case "add":
		return polyOfPlain(t.args[0]).add(polyOfPlain(t.args[1]), 1)
	case "mul":
		return polyOfPlain(t.args[0]).mul(polyOfPlain(t.args[1]))
	}
	return spAtom(strings.ReplaceAll(t.String(), "*", "x"))
}

func protoVerifyHashed(r *Report, p *Prog) {
	if ps := newProtoSpec(r, p, "sm2.VerifyHashed"); ps != nil {
		ps.specVerify(pParam("e"), pParam("pubx"), pParam("puby"), pParam("r"), pParam("s"))
	}
}

func protoSignHashed(r *Report, p *Prog) {
	if ps := newProtoSpec(r, p, "sm2.SignHashed"); ps != nil {
		ps.specSign(pParam("e"), pParam("priv"))
	}
}

func debugProtoSpec(args []string) {
	repo := "/repo"
	if v := osGetenv("SMGO_REPO"); v != "" {
		repo = v
	}
	p, err := LoadRepo(repo, "amd64")
	if err != nil {
		fmt.Println(err)
		return
	}
	r := NewReport("Cxx", "quick", "other")
	protoVerifyHashed(r, p)
	protoSignHashed(r, p)
	protoKeys(r, p)
	protoZA(r, p)
	protoWrappers(r, p)
	for _, o := range r.Obls {
		fmt.Printf("%-10s %s | %s : %s\n", o.Status, o.Rule, o.Key, trunc(o.Detail, 300))
	}
}

func trunc(s string, n int) string {
	if len(s) > n {
		return s[:n] + "..."
	}
	return s
}

// ---------- keys ----------

func (ps *protoSpec) coordsOf(o protoOutcome, xv, yv sVal, k *pt) bool {
	X, okx := ps.be32(o, xv)
	Y, oky := ps.be32(o, yv)
	pt0 := pOp("base", k)
	return okx && oky && X.String() == pOp("affx", pt0).String() && Y.String() == pOp("affy", pt0).String()
}

func (ps *protoSpec) validKey(o protoOutcome, d *pt) bool {
	return ps.prove(o, d, token.GEQ, pC(1)) && ps.prove(o, d, token.LEQ, pAdd(pSym("N"), pC(-2)))
}

func (ps *protoSpec) specGenerateKey() {
	for _, o := range ps.outs {
		if o.restart {
			ok := o.st.draws >= 1
			for _, l := range o.st.drawLens {
				if l != 32 {
					ok = false
				}
			}
			ps.need("KEYGEN-REDRAW", ok, "a rejected candidate does not lead to a new full 32-byte draw")
			ps.need("KEYGEN-ROUNDS-INDEPENDENT", len(o.st.iterDirty) == 0, "a rejected round changes a value that was computed before the retry loop: %s", strings.Join(firstN(o.st.iterDirty, 2), "; "))
			if kd := lastDraw(o); kd != nil && kd.k == 32 {
				dd := pVal(kd)
				ps.need("KEYGEN-REDRAW-ONLY", ps.prove(o, dd, token.LEQ, pC(0)) || ps.prove(o, dd, token.GEQ, pAdd(pSym("N"), pC(-1))), "a candidate is redrawn on a path that establishes neither d = 0 nor d >= n-1: a valid key is skipped")
			}
			continue
		}
		if len(o.vals) != 4 {
			continue
		}
		if isErrVal(o.vals[3]) {
			ps.need("KEYGEN-ERROR-RESULTS", isNilVal(o.vals[1]) && isNilVal(o.vals[2]), "an error outcome returns public-key coordinates")
			continue
		}
		ps.need("KEYGEN-SOURCE", !ps.hasPred(o, "rand==nil", true), "a key is returned although the random source is nil")
		kd := lastDraw(o)
		pv, okp := ps.d.bytesOf(o.st, o.vals[0])
		if !ps.need("KEYGEN-DRAW", kd != nil && kd.k == 32 && okp && pv.String() == kd.String(), "the returned private key is not the last full 32-byte draw (%s)", ps.d.show(o.st, o.vals[0])) {
			continue
		}
		ps.need("KEYGEN-RANGE", ps.validKey(o, pVal(kd)), "a key is returned although 1 <= d <= n-2 does not follow from the guards of the path")
		ps.need("KEYGEN-PUBLIC", ps.coordsOf(o, o.vals[1], o.vals[2], pVal(kd)), "the returned coordinates are not the 32-byte encodings of the affine coordinates of [d]G (%s, %s)", ps.d.show(o.st, o.vals[1]), ps.d.show(o.st, o.vals[2]))
	}
	ps.flush(map[string]string{
		"KEYGEN-REDRAW":             "every rejected candidate restarts the loop after a full 32-byte draw",
		"KEYGEN-ROUNDS-INDEPENDENT": "a rejected round leaves every value that was computed before the retry loop unchanged",
		"KEYGEN-REDRAW-ONLY":        "a candidate is redrawn only when it is 0 or at least n-1",
		"KEYGEN-ERROR-RESULTS":      "every error outcome returns nil coordinates",
		"KEYGEN-SOURCE":             "no key is produced from a nil source",
		"KEYGEN-DRAW":               "the private key is the last full 32-byte draw",
		"KEYGEN-RANGE":              "the private key satisfies 1 <= d <= n-2",
		"KEYGEN-PUBLIC":             "the public key is the affine ([d]G) in 32-byte big-endian coordinates",
	})
}

func (ps *protoSpec) specDerivePublic(priv *pt) {
	for _, o := range ps.outs {
		if o.restart || len(o.vals) != 3 {
			continue
		}
		if isErrVal(o.vals[2]) {
			ps.need("DERIVE-ERROR-RESULTS", isNilVal(o.vals[0]) && isNilVal(o.vals[1]), "an error outcome returns coordinates")
			continue // the statement allows derivation to answer with an error (it does so for valid keys shorter than 32 bytes)
		}
		ps.need("DERIVE-RANGE", ps.validKey(o, pVal(priv)), "a public key is returned although 1 <= d <= n-2 does not follow from the guards of the path")
		ps.need("DERIVE-PUBLIC", ps.coordsOf(o, o.vals[0], o.vals[1], pVal(priv)), "the returned coordinates are not the 32-byte encodings of the affine coordinates of [d]G")
	}
	ps.flush(map[string]string{
		"DERIVE-ERROR-RESULTS": "every error outcome returns nil coordinates",
		"DERIVE-RANGE":         "a public key is derived only for 1 <= d <= n-2",
		"DERIVE-PUBLIC":        "the public key is the affine ([d]G) in 32-byte big-endian coordinates",
	})
}

func (ps *protoSpec) specTestPrivateKey(priv *pt) {
	d := pVal(priv)
	for _, o := range ps.outs {
		if o.restart || len(o.vals) != 1 {
			continue
		}
		if c, ok := constOf(o.vals[0]); ok && c.Sign() == 0 {
			var fs []string
			for _, f := range o.st.pfacts {
				fs = append(fs, f.String())
			}
			ps.need("KEYTEST-ACCEPT", ps.validKey(o, d) && ps.prove(o, pOp("len", priv), token.LEQ, pC(32)), "0 is returned although 1 <= d <= n-2 (at most 32 bytes) does not follow from the path {%s}", trunc(strings.Join(fs[maxInt(0, len(fs)-4):], "; "), 200))
			continue
		}
		nonzero := false
		if c, ok := constOf(o.vals[0]); ok {
			nonzero = c.Sign() != 0
		} else if t, ok := isProtoInt(o.vals[0]); ok {
			nonzero = ps.prove(o, t, token.NEQ, pC(0))
		}
		ps.need("KEYTEST-REJECT", nonzero && (ps.prove(o, pOp("len", priv), token.GEQ, pC(33)) || ps.prove(o, d, token.EQL, pC(0)) || ps.prove(o, d, token.GEQ, pAdd(pSym("N"), pC(-1)))), "a non-zero code is returned on a path where the key is not known to be out of range (%s)", ps.d.show(o.st, o.vals[0]))
	}
	ps.flush(map[string]string{
		"KEYTEST-ACCEPT": "0 is returned only for keys of at most 32 bytes with 1 <= d <= n-2",
		"KEYTEST-REJECT": "a non-zero code is returned only for keys that are too long, zero, or >= n-1",
	})
}

func (ps *protoSpec) specCheckOnCurve(x, y *pt) {
	for _, o := range ps.outs {
		if o.restart || len(o.vals) != 1 {
			continue
		}
		b, ok := o.vals[0].(sBool)
		if !ok {
			ps.need("ONCURVE-ACCEPT", false, "the result is not a definite verdict on some path (%s)", ps.d.show(o.st, o.vals[0]))
			continue
		}
		if !b.b {
			ps.seen["ONCURVE-REJECT"]++
			continue
		}
		direct := ps.hasPred(o, "canonicalelem("+x.String()+")", true) && ps.hasPred(o, "canonicalelem("+y.String()+")", true) && ps.hasPred(o, "onCurve("+pVal(x).String()+","+pVal(y).String()+")", true)
		// or through the point decoder: 04 || x || y with 32-byte x and y decodes only for canonical on-curve coordinates
		// (the decoder's own contract: DECODE-STRICT / DECODE-CANONICAL / CURVE-EQUATION)
		viaPoint := ps.hasPred(o, "decodes("+pOp("cat", pLit([]byte{4}), x, y).String()+")", true) && (ps.d.lenOf(o.st, x) == 32 || ps.prove(o, pOp("len", x), token.EQL, pC(32))) && (ps.d.lenOf(o.st, y) == 32 || ps.prove(o, pOp("len", y), token.EQL, pC(32)))
		ps.need("ONCURVE-ACCEPT", direct || viaPoint, "true is returned without canonical decoding of both coordinates and a successful curve-equation check")
	}
	ps.flush(map[string]string{
		"ONCURVE-ACCEPT": "true is returned only after both coordinates decoded canonically (< p, 32 bytes) and the curve equation held",
	})
}

// ---------- ZA and the wrappers ----------

func zaTerm(id, pubx, puby *pt) *pt {
	return pOp("sm3", pOp("cat", pBe(pMul(pC(8), pOp("len", id)), 2), id, pParam("zBytes"), pubx, puby))
}

// sameBytes: two byte-string terms are equal up to the spelling of integer sub-terms (8*len vs len*8)
func sameBytes(a, b *pt) bool {
	if a.op != b.op || len(a.args) != len(b.args) || a.k != b.k || a.s != b.s {
		return false
	}
	switch a.op {
	case "be":
		return len(polyOfPlain(a.args[0]).add(polyOfPlain(b.args[0]), -1)) == 0
	case "c":
		return a.n.Cmp(b.n) == 0
	}
	for i := range a.args {
		if !sameBytes(a.args[i], b.args[i]) {
			return false
		}
	}
	return true
}

func (ps *protoSpec) specZA(id, pubx, puby *pt) {
	entl := pMul(pC(8), pOp("len", id))
	for _, o := range ps.outs {
		if o.restart || len(o.vals) != 2 {
			continue
		}
		if isErrVal(o.vals[1]) {
			ps.need("ZA-REFUSAL", isNilVal(o.vals[0]) && ps.prove(o, entl, token.GEQ, pC(65536)), "an error is returned on a path where the identifier's bit length is not known to exceed 16 bits")
			continue
		}
		t, ok := ps.d.bytesOf(o.st, o.vals[0])
		if ok {
			t = ps.d.normInt(o.st, t)
		}
		want := zaTerm(id, pubx, puby)
		if ps.d.lenOf(o.st, id) == 0 {
			// on a path that has fixed the identifier to the empty string the concatenation has no term for it
			want = pOp("sm3", pOp("cat", pBe(pMul(pC(8), pOp("len", id)), 2), pParam("zBytes"), pubx, puby))
		}
		ps.need("ZA-HASH-INPUT", ok && (sameBytes(t, want) || sameBytes(t, ps.d.normInt(o.st, want))), "ZA is %s; required: SM3(ENTL(2 bytes, 8*len(id)) || id || a || b || Gx || Gy || xA || yA)", ps.d.show(o.st, o.vals[0]))
	}
	ps.flush(map[string]string{
		"ZA-REFUSAL":    "an error (with a nil result) is returned exactly when 8*len(id) does not fit 16 bits",
		"ZA-HASH-INPUT": "ZA = SM3(ENTL || ID || curve parameter block || xA || yA) with ENTL the untruncated 16-bit bit length",
	})
}

func protoKeys(r *Report, p *Prog) {
	if ps := newProtoSpec(r, p, "sm2.GenerateKey"); ps != nil {
		ps.specGenerateKey()
	}
	if ps := newProtoSpec(r, p, "sm2.DerivePublic"); ps != nil {
		ps.specDerivePublic(pParam("priv"))
	}
	if ps := newProtoSpec(r, p, "sm2.TestPrivateKey"); ps != nil {
		ps.specTestPrivateKey(pParam("priv"))
	}
	if ps := newProtoSpec(r, p, "sm2.CheckOnCurve"); ps != nil {
		ps.specCheckOnCurve(pParam("x"), pParam("y"))
	}
}

func protoZA(r *Report, p *Prog) {
	if ps := newProtoSpec(r, p, "sm2.ZA"); ps != nil {
		ps.specZA(pParam("id"), pParam("pubx"), pParam("puby"))
	}
}

// the wrappers must be the digest-level functions applied to e = SM3(ZA || M)
func protoWrappers(r *Report, p *Prog) {
	za := zaTerm(pParam("id"), pParam("pubx"), pParam("puby"))
	// the rules that depend on the digest e (everything else is decided on the digest-level functions under C02 / C03)
	own := map[string]bool{"SIGN-R": true, "SIGN-ERROR-RESULTS": true, "SIGN-WIDTH": true, "VERIFY-VERDICT": true, "VERIFY-ERROR-NIL": true, "VERIFY-POINT": true, "VERIFY-PUBKEY": true}
	if ps := newProtoSpec(r, p, "sm2.Sign"); ps != nil {
		ps.only = own
		ps.specSign(pOp("sm3", pOp("cat", za, pParam("msg"))), pParam("priv"))
	}
	if ps := newProtoSpec(r, p, "sm2.SignZa"); ps != nil {
		ps.only = own
		ps.specSign(pOp("sm3", pOp("cat", pParam("za"), pParam("msg"))), pParam("priv"))
	}
	if ps := newProtoSpec(r, p, "sm2.Verify"); ps != nil {
		ps.only = own
		ps.specVerify(pOp("sm3", pOp("cat", za, pParam("msg"))), pParam("pubx"), pParam("puby"), pParam("r"), pParam("s"))
	}
	if ps := newProtoSpec(r, p, "sm2.VerifyZa"); ps != nil {
		ps.only = own
		ps.specVerify(pOp("sm3", pOp("cat", pParam("za"), pParam("msg"))), pParam("pubx"), pParam("puby"), pParam("r"), pParam("s"))
	}
}

// ---------- decoders (shared by C03, C12, C15, C16) ----------

func polyOfP(t *pt) spoly {
	switch t.op {
	case "c":
		return spoly{"": t.n}.add(spoly{}, 1)
	case "P":
		return spoly{}
	case "add":
		return polyOfP(t.args[0]).add(polyOfP(t.args[1]), 1)
	case "mul":
		return polyOfP(t.args[0]).mul(polyOfP(t.args[1]))
	case "modP":
		return polyOfP(t.args[0])
	}
	return spAtom(strings.ReplaceAll(t.String(), "*", "x"))
}

func newProtoSpecMode(r *Report, p *Prog, name string, structPoints bool) *protoSpec {
	fn := p.MustFunc(r, name)
	if fn == nil {
		return nil
	}
	e, outs := protoRunMode(p, fn, structPoints)
	ps := &protoSpec{r: r, p: p, fn: fn, name: name, e: e, outs: outs, d: e.proto, bad: map[string][]string{}, seen: map[string]int{}}
	r.Count("protocol_paths", len(outs))
	if len(e.errs) > 0 || len(e.panics) > 0 || len(e.precond) > 0 {
		r.Viol("FOLLOWED", name, p.Pos(fn.Pos()), "the function cannot be followed in the protocol domain: "+strings.Join(append(append(append([]string{}, e.errs...), e.panics...), e.precond...), "; "))
		return nil
	}
	return ps
}

func (ps *protoSpec) elemTerm(o protoOutcome, v sVal) *pt {
	if h := ps.d.obj(o.st, v); h != nil {
		return h.t
	}
	return nil
}

// specElemDecode: SetBytes of a field / scalar element accepts exactly the 32-byte strings with value <= m-1
func (ps *protoSpec) specElemDecode(modulus string) {
	v := pParam("v")
	for _, o := range ps.outs {
		if len(o.vals) != 2 {
			continue
		}
		if isErrVal(o.vals[1]) {
			ps.need("DECODE-REJECT", isNilVal(o.vals[0]), "an error is returned together with an element")
			ps.need("DECODE-EXACT", ps.prove(o, pOp("len", v), token.NEQ, pC(32)) || ps.prove(o, pVal(v), token.GEQ, pSym(modulus)), "an input is rejected although it is not known to be non-canonical (wrong length or value >= %s)", modulus)
			continue
		}
		ps.need("DECODE-CANONICAL", ps.prove(o, pOp("len", v), token.EQL, pC(32)) && ps.prove(o, pVal(v), token.LSS, pSym(modulus)), "an input is accepted although len == 32 and value < %s do not follow from the path", modulus)
		t := ps.elemTerm(o, o.vals[0])
		ps.need("DECODE-VALUE", t != nil && t.String() == pVal(v).String(), "the decoded element is %v, not the big-endian value of the input", t)
	}
	ps.flush(map[string]string{
		"DECODE-REJECT":    "an error comes with a nil element",
		"DECODE-EXACT":     "every rejected input is non-canonical",
		"DECODE-CANONICAL": "every accepted input has 32 bytes and a value below the modulus",
		"DECODE-VALUE":     "the element holds the big-endian value of the input",
	})
}

func (ps *protoSpec) specPointDecode() {
	b := pParam("b")
	coords := func(o protoOutcome) [3]*pt {
		var out [3]*pt
		for _, prm := range ps.fn.Params[:1] {
			if sp, ok := o.st.vals[prm].(sPtr); ok {
				if obj, ok := o.st.heap[sp.id].(*hArray); ok && len(obj.elems) == 3 {
					for i := range out {
						out[i] = ps.elemTerm(o, obj.elems[i])
					}
				}
			}
		}
		return out
	}
	for _, o := range ps.outs {
		if len(o.vals) != 2 {
			continue
		}
		c := coords(o)
		cs := fmt.Sprintf("(%v, %v, %v)", c[0], c[1], c[2])
		if isErrVal(o.vals[1]) {
			ps.need("DECODE-REJECT", isNilVal(o.vals[0]), "an error is returned together with a point")
			ps.need("RECEIVER-UNCHANGED-ON-ERROR", c[0] != nil && c[0].String() == "p0.x" && c[1].String() == "p0.y" && c[2].String() == "p0.z", "the receiver is modified on an error path: %s", cs)
			continue
		}
		x, y := pSub(b, 1, 33), pSub(b, 33, 65)
		isInf := ps.prove(o, pOp("len", b), token.EQL, pC(1)) && ps.prove(o, byteTerm(b, 0), token.EQL, pC(0))
		isUnc := ps.prove(o, pOp("len", b), token.EQL, pC(65)) && ps.prove(o, byteTerm(b, 0), token.EQL, pC(4)) &&
			ps.hasPred(o, "canonicalelem("+x.String()+")", true) && ps.hasPred(o, "canonicalelem("+y.String()+")", true) &&
			ps.hasPred(o, "onCurve("+pVal(x).String()+","+pVal(y).String()+")", true)
		ps.need("DECODE-STRICT", isInf || isUnc, "an encoding is accepted that is neither the one-byte infinity encoding nor a 65-byte 04 || X || Y with canonical on-curve coordinates")
		if isInf {
			ps.need("DECODE-COMPLETE", c[2] != nil && c[2].String() == "0" && c[0] != nil && !strings.Contains(c[0].String(), "p0.") && !strings.Contains(c[1].String(), "p0."), "after decoding infinity the receiver is %s (Z must be 0 and X, Y must not keep their old values)", cs)
		}
		if isUnc {
			ps.need("DECODE-COMPLETE", c[0] != nil && c[0].String() == pVal(x).String() && c[1].String() == pVal(y).String() && c[2].String() == "1", "after decoding 04 || X || Y the receiver is %s; required (X, Y, 1)", cs)
		}
	}
	ps.flush(map[string]string{
		"DECODE-REJECT":               "an error comes with a nil point",
		"RECEIVER-UNCHANGED-ON-ERROR": "the receiver keeps its value on every error path",
		"DECODE-STRICT":               "only the infinity encoding and canonical on-curve uncompressed encodings are accepted",
		"DECODE-COMPLETE":             "an accepted encoding sets all three coordinates",
	})
}

func (ps *protoSpec) specCurveEquation() {
	x, y := pParam("x0"), pParam("y0")
	want := polyOfP(pAdd(pAdd(pMul(pMul(x, x), x), pMul(pC(-3), x)), pSym("B")))
	wantY := polyOfP(pMul(y, y))
	for _, o := range ps.outs {
		if len(o.vals) != 1 {
			continue
		}
		okEq, okNe := false, false
		for _, f := range o.st.pfacts {
			if f.a == nil {
				continue
			}
			l, rr := polyOfP(f.a), polyOfP(f.b)
			match := (len(l.add(want, -1)) == 0 && len(rr.add(wantY, -1)) == 0) || (len(rr.add(want, -1)) == 0 && len(l.add(wantY, -1)) == 0)
			if match && f.op == token.EQL {
				okEq = true
			}
			if match && f.op == token.NEQ {
				okNe = true
			}
		}
		if isErrVal(o.vals[0]) {
			ps.need("CURVE-EQUATION", okNe, "an error is returned on a path that does not establish y^2 != x^3 - 3x + b (mod p)")
		} else {
			ps.need("CURVE-EQUATION", okEq, "nil is returned on a path that does not establish y^2 == x^3 - 3x + b (mod p)")
		}
	}
	ps.flush(map[string]string{"CURVE-EQUATION": "Sm2CheckOnCurve returns nil exactly when y^2 = x^3 - 3x + b modulo p (polynomial identity of the compared field expressions)"})
}

func (ps *protoSpec) specZeroPredicate(rule, want string, zterm *pt) {
	for _, o := range ps.outs {
		if len(o.vals) != 1 {
			continue
		}
		ok := false
		switch c := o.vals[0].(type) {
		case pCond:
			// be(z,32) == be(0,32)
			ok = c.a != nil && c.raw == "bytes" && !c.neg && c.op == token.EQL && ((pVal(c.a).String() == zterm.String() && pVal(c.b).String() == "0") || (pVal(c.b).String() == zterm.String() && pVal(c.a).String() == "0"))
		case pInt:
			t := c.t
			ok = t.op == "eqb" && ((pVal(t.args[0]).String() == zterm.String() && pVal(t.args[1]).String() == "0") || (pVal(t.args[1]).String() == zterm.String() && pVal(t.args[0]).String() == "0"))
		case sInt:
			// a path that has already decided the predicate: 1 only where the value is zero, 0 only where it is not
			switch {
			case c.v.Cmp(big.NewInt(1)) == 0:
				ok = ps.prove(o, zterm, token.EQL, pC(0))
			case c.v.Sign() == 0:
				ok = ps.prove(o, zterm, token.NEQ, pC(0))
			}
		}
		ps.need(rule, ok, "the predicate returns %s; required meaning: %s", ps.d.show(o.st, o.vals[0]), want)
	}
	ps.flush(map[string]string{rule: want})
}

// protoDecoders: decoding strictness and the predicates the entry points rely on
func protoDecoders(r *Report, p *Prog) {
	if ps := newProtoSpecMode(r, p, "sm2/internal/fiat.(*SM2Element).SetBytes", false); ps != nil {
		ps.specElemDecode("P")
	}
	if ps := newProtoSpecMode(r, p, "sm2/internal/fiat.(*SM2ScalarElement).SetBytes", false); ps != nil {
		ps.specElemDecode("N")
	}
	if ps := newProtoSpecMode(r, p, "sm2/internal.(*SM2Point).SetBytes", true); ps != nil {
		ps.specPointDecode()
	}
	if ps := newProtoSpecMode(r, p, "sm2/internal.Sm2CheckOnCurve", true); ps != nil {
		ps.specCurveEquation()
	}
	if ps := newProtoSpecMode(r, p, "sm2/internal.(*SM2Point).IsInfinity", true); ps != nil {
		ps.specZeroPredicate("PREDICATE-DEF", "IsInfinity is Z == 0 (every projective representative (X:Y:0))", pParam("p0.z"))
	}
	if ps := newProtoSpecMode(r, p, "sm2/internal/fiat.(*SM2Element).IsZero", false); ps != nil {
		ps.specZeroPredicate("PREDICATE-DEF", "IsZero compares the canonical encoding with 32 zero bytes", pParam("e0"))
	}
}

// sCongruent: inner ≡ (1+d)^-1 (k - r d) modulo n. With I = inv(1+d): E = poly(inner) - I (k - r d) = A*I + B must satisfy
// A + B*(1+d) = 0 (multiply by 1+d and use I (1+d) = 1).
func sCongruent(inner, k, R, d *pt) bool {
	I := pOp("inv", pAdd(d, pC(1)))
	target := pMul(I, pAdd(k, pNeg(pMul(R, d))))
	E := polyOf(inner).add(polyOf(target), -1)
	iAtom := strings.ReplaceAll(I.String(), "*", "x")
	A, B := spoly{}, spoly{}
	for m, c := range E {
		parts := []string{}
		if m != "" {
			parts = strings.Split(m, "*")
		}
		cnt := 0
		var rest []string
		for _, a := range parts {
			if a == iAtom {
				cnt++
			} else {
				rest = append(rest, a)
			}
		}
		switch cnt {
		case 0:
			B[strings.Join(rest, "*")] = c
		case 1:
			A[strings.Join(rest, "*")] = c
		default:
			return false
		}
	}
	return len(A.add(B.mul(polyOf(pAdd(d, pC(1)))), 1)) == 0
}

func maxInt(a, b int) int {
	if a > b {
		return a
	}
	return b
}

// dropEmpty: the required term as the outcome sees it - a parameter string that the path has fixed to length 0 (the
// identifier, after a per-length split) contributes nothing to a concatenation
func (ps *protoSpec) dropEmpty(o protoOutcome, t *pt) *pt {
	if t == nil || len(t.args) == 0 {
		return t
	}
	changed := false
	var args []*pt
	for _, a := range t.args {
		if t.op == "cat" && a.op == "param" && ps.d.lenOf(o.st, a) == 0 {
			changed = true
			continue
		}
		b := ps.dropEmpty(o, a)
		if b != a {
			changed = true
		}
		args = append(args, b)
	}
	if !changed {
		return t
	}
	c := *t
	c.args = args
	return &c
}
