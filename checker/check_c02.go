package main

import (
	"fmt"
	"strings"

	"golang.org/x/tools/go/ssa"
)

func init() { register("C02", "other", checkC02) }

// signExprs returns the canonical expressions of the GM/T 0003.2 signature for nonce K, digest e, key priv.
func signExprs() (K, RV, RK, SV string) {
	K = "draw(rand)"
	KG := xf("ScalarBaseMult", K)
	X1 := xf("SM2Point.GetAffineX", KG)
	RV = xf("Int.Mod", xc("Int.Add", X1, xE), "N")
	RK = xc("Int.Add", RV, xf("Int.SetBytes", K))
	D1 := xc("Int.Add", "1", xf("Int.SetBytes", "priv"))
	INV := xf("SM2ScalarElement.ToBigInt", xf("SM2ScalarElement.Invert", xf("SM2ScalarElement.SetBytes", "pad32("+xf("Int.Bytes", D1)+")")))
	SV = xf("Int.Mod", xf("Int.Sub", xc("Int.Mul", RK, INV), RV), "N")
	return
}

// findDraw finds the draw of fn: io.ReadFull(rand, buf) or a call of a sound draw helper; returns the call and its buffer argument.
func findDraw(p *Prog, fn *ssa.Function) (*ssa.Call, ssa.Value) {
	for _, b := range fn.Blocks {
		for _, in := range b.Instrs {
			call, ok := in.(*ssa.Call)
			if !ok {
				continue
			}
			cal := call.Call.StaticCallee()
			if cal == nil {
				continue
			}
			if cal.String() == "io.ReadFull" && len(call.Call.Args) == 2 {
				return call, call.Call.Args[1]
			}
			if isRepoFunc(cal) && len(cal.Blocks) > 0 {
				for i, prm := range cal.Params {
					if isNamed(prm.Type(), "io", "Reader") {
						if bi, probs := drawHelperInfo(p, cal, i); len(probs) == 0 && bi >= 0 && bi < len(call.Call.Args) {
							return call, call.Call.Args[bi]
						}
					}
				}
			}
		}
	}
	return nil, nil
}

func findDrawBlock(p *Prog, fn *ssa.Function) *ssa.BasicBlock {
	if c, _ := findDraw(p, fn); c != nil {
		return c.Block()
	}
	return nil
}

func checkC02(c *Ctx, r *Report) {
	r.Explanation = "Decided (control skeleton and value wiring, by shape): on the only signature-returning path of SignHashed the nonce is one 32-byte io.ReadFull draw; the complete set of rejection rules — k >= n, k = 0, r = 0, r + k = n, s = 0 — are guards that dominate the return and whose failing arm restarts the draw; keys outside [1, n-2] are refused with an error and nil results (inventory of TestPrivateKey's accepting returns: non-zero and < n-1); the returned values are, as canonical expressions over the dominator path, r = (x1 + e) mod n with x1 the affine x of [k]G and s = ((r + k)(1 + d)^-1 - r) mod n with the inverse taken by the fixed Fermat chain on the 32-byte padding of d+1, each left-padded to 32 bytes. NOT decided: the numeric values of the group and field operations those expressions name (C14-C16), i.e. that the named operations compute what their names say."
	r.Trusted = []string{"go/ssa", "math/big method semantics", "io.ReadFull contract"}
	p, err := LoadRepo(c.Repo, "amd64")
	if err != nil {
		r.Fatalf("%v", err)
		return
	}
	f := NewFolder(p)
	fn := p.MustFunc(r, "sm2.SignHashed")
	if fn == nil {
		return
	}
	var accept []*ssa.Return
	for _, b := range fn.Blocks {
		if ret, ok := b.Instrs[len(b.Instrs)-1].(*ssa.Return); ok && isNilConst(retVals(ret)[2]) {
			accept = append(accept, ret)
		}
	}
	if len(accept) != 1 {
		r.Viol("SINGLE-ACCEPT", "sm2.SignHashed", p.Pos(fn.Pos()), fmt.Sprintf("%d returns carry a nil error; exactly one is expected", len(accept)))
		return
	}
	ret := accept[0]
	draw := findDrawBlock(p, fn)
	if draw == nil {
		r.Viol("DRAW-UNIT", "sm2.SignHashed", p.Pos(fn.Pos()), "no io.ReadFull draw found")
		return
	}
	ps := newPathSym(p, fn, f)
	ps.WalkTo(ret.Block())
	K, RV, RK, SV := signExprs()
	cmpKN := xf("ConstantTimeCmp", K, "bytes32(N)", "32")
	cmpK0 := xf("ConstantTimeCompare", K, "zeros(32)")
	rkB := xf("Int.Bytes", RK)
	reqs := []guardReq{
		{"(priv, TestPrivateKey = 0, error)", []string{"TestPrivateKey(priv) == 0"}, "error"},
		{"(draw, error)", []string{"err(ReadFull(rand)) == nil"}, "error"},
		{"(k, <, n, restart)", []string{cmpKN + " < 0", cmpKN + " == -1", cmpKN + " <= -1"}, "restart"},
		{"(k, !=, 0, restart)", []string{cmpK0 + " != 1", cmpK0 + " == 0", "!" + xf("SM2Point.IsInfinity", xf("ScalarBaseMult", K))}, "restart"},
		{"(r, !=, 0, restart)", bigNZ(RV), "restart"},
		{"(r + k, !=, n, restart)", []string{
			"!(len(" + rkB + ") == 32 && " + xf("ConstantTimeCmp", rkB, "bytes32(N)", "32") + " == 0)",
			xf("Int.Cmp", RK, "N") + " != 0",
			xf("ConstantTimeCmp", xf("ensure32Bytes", RK), "bytes32(N)", "32") + " != 0",
		}, "restart"},
		{"(s, !=, 0, restart)", bigNZ(SV), "restart"},
	}
	checkInventory(r, p, ps, "sm2.SignHashed", p.InstrPos(ret), reqs, draw)
	// values
	gotR, gotS := normText(ps.S(retVals(ret)[0])), normText(ps.S(retVals(ret)[1]))
	wantR := []string{xf("ensure32Bytes", RV)}
	wantS := []string{xf("ensure32Bytes", SV)}
	r.Check(inList(gotR, wantR), "SIGNATURE-EXPRESSION", "sm2.SignHashed r", p.InstrPos(ret), "returned r is "+gotR+"; standard: pad32((x1 + e) mod n)")
	r.Check(inList(gotS, wantS), "SIGNATURE-EXPRESSION", "sm2.SignHashed s", p.InstrPos(ret), "returned s is "+gotS+"; standard: pad32(((r + k)(1 + d)^-1 - r) mod n)")
	// the nonce that enters the formulas is the drawn one, drawn once per candidate
	r.Check(ps.draws == 1, "DRAW-UNIT", "sm2.SignHashed one draw per candidate", p.InstrPos(ret), fmt.Sprintf("%d io.ReadFull calls on the accepting path", ps.draws))
	// output width
	env := NewLinEnv(p, fn)
	env.lenSum = func(c2 *ssa.Function, call2 *ssa.Call, en *LinEnv) ([]*Lin, bool) {
		return retLenSummary(p, c2, 0, call2, en, 0)
	}
	for i, nm := range []string{"r", "s"} {
		ls, ok := env.Len(retVals(ret)[i])
		r.Check(ok && len(ls) == 1 && ls[0].IsConst() && ls[0].C == 32, "L-RET", "sm2.SignHashed "+nm+" is 32 bytes", p.InstrPos(ret), fmt.Sprintf("length set %v", linStrs(ls)))
	}
	// draw width
	if dc, buf := findDraw(p, fn); dc != nil {
		ls, ok := env.Len(buf)
		r.Check(ok && len(ls) == 1 && ls[0].IsConst() && ls[0].C == 32, "DRAW-UNIT", "sm2.SignHashed draws 32 bytes", p.InstrPos(dc), fmt.Sprintf("buffer length %v", linStrs(ls)))
	}
	c12TestPrivateKey(r, p, f)
	// decoding of d+1: canonical-range guard of the scalar decoder (n-1 must be accepted: d = n-2 is a valid key)
	c03ScalarDecoderOnly(r, p, f)
	r.Floor("required_guards", 7)
}

func inList(s string, l []string) bool {
	for _, x := range l {
		if s == x {
			return true
		}
	}
	return false
}

// c12TestPrivateKey: every `return 0` of TestPrivateKey is dominated by the zero test and, for 32-byte keys, by < n-1.
func c12TestPrivateKey(r *Report, p *Prog, f *Folder) {
	fn := p.MustFunc(r, "sm2.TestPrivateKey")
	if fn == nil {
		return
	}
	nAcc := 0
	for _, b := range fn.Blocks {
		ret, ok := b.Instrs[len(b.Instrs)-1].(*ssa.Return)
		if !ok {
			continue
		}
		r.Count("testprivatekey_returns", 1)
		c, isC := retVals(ret)[0].(*ssa.Const)
		if !isC || c.Value == nil || c.Value.ExactString() != "0" {
			continue
		}
		nAcc++
		ps := newPathSym(p, fn, f)
		ps.WalkTo(b)
		site := fmt.Sprintf("sm2.TestPrivateKey accept#%d", nAcc)
		nz := xf("ConstantTimeCompare", "priv", "zeros(32)[:len(priv)]")
		nz32 := xf("ConstantTimeCompare", "priv", "zeros(32)")
		reqs := []guardReq{
			{"(len(priv), <=, 32)", []string{"(len(priv) - 32) <= 0", "len(priv) <= 32"}, "reject"},
			{"(priv, !=, 0)", []string{nz + " != 1", nz + " == 0", nz32 + " != 1", nz32 + " == 0"}, "reject"},
		}
		short := ps.FindGuard("(len(priv) - 32) < 0", "len(priv) < 32") != nil
		if !short {
			cmp := xf("ConstantTimeCmp", "priv", "bytes32(N-1)", "32")
			reqs = append(reqs, guardReq{"(priv, <, n-1)", []string{cmp + " == -1", cmp + " < 0"}, "reject"})
		} else {
			r.Ok("GUARD", site+": (priv, <, n-1)", p.InstrPos(ret), "path is guarded by len(priv) < 32: the value is below 2^248 < n-1")
		}
		checkInventory(r, p, ps, site, p.InstrPos(ret), reqs, nil)
	}
	r.Check(nAcc >= 1, "GUARD", "sm2.TestPrivateKey has an accepting return", p.Pos(fn.Pos()), fmt.Sprintf("%d returns of 0", nAcc))
}

func c03ScalarDecoderOnly(r *Report, p *Prog, f *Folder) {
	fn := p.MustFunc(r, "sm2/internal/fiat.(*SM2ScalarElement).SetBytes")
	if fn == nil {
		return
	}
	for _, b := range fn.Blocks {
		ret, ok := b.Instrs[len(b.Instrs)-1].(*ssa.Return)
		if !ok || !isNilConst(retVals(ret)[1]) {
			continue
		}
		ps := newPathSym(p, fn, f)
		ps.WalkTo(b)
		cmp := xf("ConstantTimeCmp", "v", "bytes32(N-1)", "32")
		checkInventory(r, p, ps, "sm2/internal/fiat.(*SM2ScalarElement).SetBytes", p.InstrPos(ret), []guardReq{
			{"(len(v), =, 32)", []string{"len(v) == 32"}, "error"},
			{"(v, <=, n-1)", []string{cmp + " <= 0", cmp + " < 1", cmp + " != 1"}, "error"},
		}, nil)
	}
	_ = strings.Join
}
