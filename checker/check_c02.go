package main

import (
	"fmt"
	"strings"

	"golang.org/x/tools/go/ssa"
)

func init() { register("C02", "other", checkC02) }

// signExprs returns the canonical expressions of the GM/T 0003.2 signature for nonce K, digest e, key priv.
func signExprs() (K, RV, RK, SV string) {
	K = "draw(rand)"
	KG := xf("ScalarBaseMult", K)
	X1 := xf("SM2Point.GetAffineX", KG)
	RV = xf("Int.Mod", xc("Int.Add", X1, xE), "N")
	RK = xc("Int.Add", RV, xf("Int.SetBytes", K))
	D1 := xc("Int.Add", "1", xf("Int.SetBytes", "priv"))
	INV := xf("SM2ScalarElement.ToBigInt", xf("SM2ScalarElement.Invert", xf("SM2ScalarElement.SetBytes", "pad32("+xf("Int.Bytes", D1)+")")))
	SV = xf("Int.Mod", xf("Int.Sub", xc("Int.Mul", RK, INV), RV), "N")
	return
}

// findDraw finds the draw of fn: io.ReadFull(rand, buf) or a call of a sound draw helper; returns the call and its buffer argument.
func findDraw(p *Prog, fn *ssa.Function) (*ssa.Call, ssa.Value) {
	for _, b := range fn.Blocks {
		for _, in := range b.Instrs {
			call, ok := in.(*ssa.Call)
			if !ok {
				continue
			}
			cal := call.Call.StaticCallee()
			if cal == nil {
				continue
			}
			if cal.String() == "io.ReadFull" && len(call.Call.Args) == 2 {
				return call, call.Call.Args[1]
			}
			if isRepoFunc(cal) && len(cal.Blocks) > 0 {
				for i, prm := range cal.Params {
					if isNamed(prm.Type(), "io", "Reader") {
						if bi, probs := drawHelperInfo(p, cal, i); len(probs) == 0 && bi >= 0 && bi < len(call.Call.Args) {
							return call, call.Call.Args[bi]
						}
					}
				}
			}
		}
	}
	return nil, nil
}

func findDrawBlock(p *Prog, fn *ssa.Function) *ssa.BasicBlock {
	if c, _ := findDraw(p, fn); c != nil {
		return c.Block()
	}
	return nil
}

func checkC02(c *Ctx, r *Report) {
	r.Explanation = "Decided on the outcomes of a path-by-path interpretation of sm2.SignHashed in the protocol domain (checker/proto*.go: byte strings, integers and points are symbolic terms; math/big, crypto/subtle, io.ReadFull, SM3 and the sm2/internal layer are summarised by their contracts; the path condition is a set of linear facts decided by an exact LP): FOLLOWED (every statement is understood), PRECONDITIONS (fixed-width scalars, finite points, values fit their encodings), SIGN-KEY-RANGE (a signature only for 1 <= d <= n-2), SIGN-NONCE (k is the last full 32-byte draw and 1 <= k <= n-1), SIGN-R, SIGN-R-NONZERO, SIGN-RK (r + k != n), SIGN-S (s is the canonical residue of (1+d)^-1 (k - r d): polynomial identity modulo n with the relation inv*(1+d) = 1), SIGN-S-NONZERO, SIGN-WIDTH (32-byte big-endian r and s), SIGN-REDRAW (a rejected candidate leads to a new draw at the same site), SIGN-ERROR-RESULTS. The statements are about values and path conditions, not about the spelling of guards or the split into helpers. NOT decided: the values of [k]G (C14, C15, C16) and of SM3 (C04)."
	r.Trusted = []string{"go/ssa", "contracts of math/big, crypto/subtle.ConstantTimeCompare, io.ReadFull as summarised in checker/proto2.go", "utils.ConstantTimeCmp is an exact three-way comparison (C20)", "internal.ScalarBaseMult returns [k]G for a 32-byte k (C14); scalar decoding accepts exactly the canonical 32-byte values below n (C16)"}
	p, err := LoadRepo(c.Repo, "amd64")
	if err != nil {
		r.Fatalf("%v", err)
		return
	}
	protoSignHashed(r, p)
	if ps := newProtoSpec(r, p, "sm2.TestPrivateKey"); ps != nil {
		ps.specTestPrivateKey(pParam("priv"))
	}
	// decoding of d+1: canonical-range guard of the scalar decoder (n-1 must be accepted: d = n-2 is a valid key)
	if ps := newProtoSpecMode(r, p, "sm2/internal/fiat.(*SM2ScalarElement).SetBytes", false); ps != nil {
		ps.specElemDecode("N")
	}
	r.Floor("protocol_paths", 8)
}

func inList(s string, l []string) bool {
	for _, x := range l {
		if s == x {
			return true
		}
	}
	return false
}

// c12TestPrivateKey: every `return 0` of TestPrivateKey is dominated by the zero test and, for 32-byte keys, by < n-1.
func c12TestPrivateKey(r *Report, p *Prog, f *Folder) {
	fn := p.MustFunc(r, "sm2.TestPrivateKey")
	if fn == nil {
		return
	}
	nAcc := 0
	for _, b := range fn.Blocks {
		ret, ok := b.Instrs[len(b.Instrs)-1].(*ssa.Return)
		if !ok {
			continue
		}
		r.Count("testprivatekey_returns", 1)
		c, isC := retVals(ret)[0].(*ssa.Const)
		if !isC || c.Value == nil || c.Value.ExactString() != "0" {
			continue
		}
		nAcc++
		ps := newPathSym(p, fn, f)
		ps.WalkTo(b)
		site := fmt.Sprintf("sm2.TestPrivateKey accept#%d", nAcc)
		nz := xf("ConstantTimeCompare", "priv", "zeros(32)[:len(priv)]")
		nz32 := xf("ConstantTimeCompare", "priv", "zeros(32)")
		reqs := []guardReq{
			{"(len(priv), <=, 32)", []string{"(len(priv) - 32) <= 0", "len(priv) <= 32"}, "reject"},
			{"(priv, !=, 0)", []string{nz + " != 1", nz + " == 0", nz32 + " != 1", nz32 + " == 0"}, "reject"},
		}
		short := ps.FindGuard("(len(priv) - 32) < 0", "len(priv) < 32") != nil
		if !short {
			cmp := xf("ConstantTimeCmp", "priv", "bytes32(N-1)", "32")
			reqs = append(reqs, guardReq{"(priv, <, n-1)", []string{cmp + " == -1", cmp + " < 0"}, "reject"})
		} else {
			r.Ok("GUARD", site+": (priv, <, n-1)", p.InstrPos(ret), "path is guarded by len(priv) < 32: the value is below 2^248 < n-1")
		}
		checkInventory(r, p, ps, site, p.InstrPos(ret), reqs, nil)
	}
	r.Check(nAcc >= 1, "GUARD", "sm2.TestPrivateKey has an accepting return", p.Pos(fn.Pos()), fmt.Sprintf("%d returns of 0", nAcc))
}

func c03ScalarDecoderOnly(r *Report, p *Prog, f *Folder) {
	fn := p.MustFunc(r, "sm2/internal/fiat.(*SM2ScalarElement).SetBytes")
	if fn == nil {
		return
	}
	for _, b := range fn.Blocks {
		ret, ok := b.Instrs[len(b.Instrs)-1].(*ssa.Return)
		if !ok || !isNilConst(retVals(ret)[1]) {
			continue
		}
		ps := newPathSym(p, fn, f)
		ps.WalkTo(b)
		cmp := xf("ConstantTimeCmp", "v", "bytes32(N-1)", "32")
		checkInventory(r, p, ps, "sm2/internal/fiat.(*SM2ScalarElement).SetBytes", p.InstrPos(ret), []guardReq{
			{"(len(v), =, 32)", []string{"len(v) == 32"}, "error"},
			{"(v, <=, n-1)", []string{cmp + " <= 0", cmp + " < 1", cmp + " != 1"}, "error"},
		}, nil)
	}
	_ = strings.Join
}
