package main

import (
	"fmt"
	"go/token"
	"strings"

	"golang.org/x/tools/go/ssa"
)

func init() { register("C10", "other", checkC10) }

func checkC10(c *Ctx, r *Report) {
	r.Explanation = "Decided: (1) APPEND-CONTRACT (glue domain: Seal and Open interpreted path by path over symbolic lengths and capacities, ensureCapacity and its callees followed, assembler routines by contract): on every successful outcome the result has length len(dst)+len(plaintext)+tagSize (Seal) / len(dst)+len(ciphertext)-tagSize (Open) and is either dst's own array from offset 0 (spare capacity) or a fresh array into which the len(dst) prefix bytes of dst were copied; Sum's result has length len(in)+32; CONSUMPTION: copyAsm, gHashBlocks and the fused Seal/Open routines advance every streamed parameter to its end on every path (every input byte is consumed, every destination byte of the contract is produced); (2) INPUT-WRITE [proof-strength effect analysis]: for every API entry point no parameter other than the destination, and no receiver-owned or package-level storage, is in a may-write position of any callee, Go or assembler (may-write sets computed from the assembler listing) — on amd64 and arm64; (3) exact overlap: in every kernel and in the fused Seal/Open routines no load from the input happens after a store to the destination that covers the same bytes (LOAD-BEFORE-STORE per path, with absolute symbolic extents), so dst == src works. NOT decided: the bytes of the output (C05/C06)."
	r.Trusted = []string{"go/ssa", "assembler listing, opcode table", "Go append/copy semantics"}
	for _, arch := range []string{"amd64", "arm64"} {
		p, e, u := loadEffects(c, r, arch)
		if p == nil {
			return
		}
		inputWriteObligations(r, p, e, arch)
		c10Append(r, p, arch)
		glueGCM(r, p, arch, map[string]bool{"C10": true})
		// (3) exact overlap + copy consumption
		contracts := asmContracts(arch)
		dataSize := map[string]int{}
		for _, d := range u.DataSyms() {
			dataSize[d.Name] = d.Size
		}
		for _, rt := range u.Routines {
			con := contracts[rt.Name]
			if !rt.HasDecl || con == nil || (con.overlap == nil && con.consumeSet == nil) {
				continue
			}
			if c.Tier == "quick" && (rt.Name == "sealAsm") {
				// the fused Seal routine shares its crypt phase macro with openAsm (analysed in both tiers); Seal itself in the thorough tier
				r.Note("[%s] %s: exact-overlap analysis runs in the thorough tier (same cryptoBlocksAsm expansion as openAsm)", arch, rt.Name)
				continue
			}
			flow := AnalyzeFlow(rt)
			if len(flow.Errors) > 0 {
				r.Fatalf("%s/%s: %s", arch, rt.Name, flow.Errors[0])
				continue
			}
			res := AnalyzeExtents(rt, flow, con, dataSize)
			for _, pr := range res.problems {
				r.Undecided("LOAD-BEFORE-STORE", arch+"/"+rt.Name, "sm4/"+rt.File, pr)
			}
			r.Count("overlap_routines_"+arch, 1)
			r.Count("overlap_pairs_checked_"+arch, res.overlapChecked)
			if con.overlap != nil {
				if len(res.overlaps) == 0 {
					r.Ok("LOAD-BEFORE-STORE", arch+"/"+rt.Name, "sm4/"+rt.File, fmt.Sprintf("%d (load, earlier store) pairs on all paths: no load of the input reads bytes the path has already stored to the destination", res.overlapChecked))
				}
				r.Obls = append(r.Obls, res.overlaps...)
			}
			if con.consumeSet != nil {
				// every byte of the streamed inputs is consumed and every byte of the destination is produced, on every path
				r.Obls = append(r.Obls, res.consumption...)
				r.Count("consumption_obligations_"+arch, len(res.consumption))
				for pn := range con.consumeSet {
					found := false
					for _, o := range res.consumption {
						if strings.HasSuffix(o.Key, ": "+pn) {
							found = true
						}
					}
					if !found {
						r.Viol("CONSUMPTION", fmt.Sprintf("%s/%s: %s", arch, rt.Name, pn), "sm4/"+rt.File, "streamed parameter is never advanced on any path: its bytes are not all processed")
					}
				}
			}
		}
	}
	if p386, err := LoadRepo(c.Repo, "386"); err == nil {
		e := NewEffects(p386, map[string]map[int]bool{})
		e.Run()
		inputWriteObligations(r, p386, e, "386")
		c10PortableOverlap(r, p386)
	} else {
		r.Fatalf("%v", err)
	}
	effectsPositiveControls(c, r)
	r.Floor("positive_controls", 5)
	r.Floor("api_entry_points_amd64", 15)
	r.Floor("param_obligations_amd64", 30)
	r.Floor("append_contracts_amd64", 1)
	r.Floor("append_contracts_arm64", 1)
	r.Floor("append_outcomes_amd64", 2)
	r.Floor("append_outcomes_arm64", 2)
	r.Floor("overlap_routines_amd64", 3)
	r.Floor("overlap_routines_arm64", 5)
}

func c10Append(r *Report, p *Prog, arch string) {
	type spec struct {
		fn     string
		want   func(env *LinEnv, fn *ssa.Function) *Lin
		accept func(ret *ssa.Return) bool
		what   string
	}
	specs := []spec{
		{"sm3.(*SM3).Sum", func(env *LinEnv, fn *ssa.Function) *Lin {
			return linTerm("len(in)", true).Add(linConst(32))
		}, func(ret *ssa.Return) bool { return true }, "len(in)+32"},
	}
	for _, sp := range specs {
		fn := p.MustFunc(r, sp.fn)
		if fn == nil {
			continue
		}
		env := NewLinEnv(p, fn)
		env.lenSum = func(c2 *ssa.Function, call2 *ssa.Call, en *LinEnv) ([]*Lin, bool) {
			return retLenSummary(p, c2, 0, call2, en, 0)
		}
		for _, b := range fn.Blocks {
			ret, ok := b.Instrs[len(b.Instrs)-1].(*ssa.Return)
			if !ok || b == fn.Recover || !sp.accept(ret) {
				continue
			}
			r.Count("append_contracts_"+arch, 1)
			want := sp.want(env, fn)
			ls, ok := env.Len(retVals(ret)[0])
			good := ok && len(ls) > 0
			for _, l := range ls {
				if !l.Equal(want) {
					good = false
				}
			}
			r.Check(good, "L-RET", fmt.Sprintf("[%s] %s result length", arch, sp.fn), p.InstrPos(ret), fmt.Sprintf("length set %v on all capacity paths; the append contract requires %s", linStrs(ls), sp.what))
		}
	}
}

// c10EnsureCapacity: result shares dst's backing array when capacity suffices, otherwise the whole prefix is copied.
func c10EnsureCapacity(r *Report, p *Prog, arch string) {
	fn := p.MustFunc(r, "sm4.ensureCapacity")
	if fn == nil {
		return
	}
	array := fn.Params[0]
	env := NewLinEnv(p, fn)
	name := "[" + arch + "] sm4.ensureCapacity"
	var head ssa.Value
	for _, b := range fn.Blocks {
		if ret, ok := b.Instrs[len(b.Instrs)-1].(*ssa.Return); ok {
			head = retVals(ret)[0]
		}
	}
	phi, ok := head.(*ssa.Phi)
	if !ok {
		r.Viol("APPEND-PREFIX", name, p.Pos(fn.Pos()), "result is not the merge of an in-capacity reslice and a reallocation")
		return
	}
	var reslice *ssa.Slice
	var fresh *ssa.MakeSlice
	other := 0
	for _, e := range phi.Edges {
		switch x := e.(type) {
		case *ssa.Slice:
			if reslice != nil && reslice != x {
				other++
			}
			reslice = x
		case *ssa.MakeSlice:
			if fresh != nil && fresh != x {
				other++
			}
			fresh = x
		default:
			other++
		}
	}
	if other > 0 || reslice == nil || fresh == nil {
		r.Viol("APPEND-PREFIX", name, p.Pos(fn.Pos()), "result is not the merge of one in-capacity reslice and one reallocation")
		return
	}
	okShare := reslice != nil && reslice.X == ssa.Value(array) && reslice.Low == nil
	r.Check(okShare, "APPEND-PREFIX", name+" in-capacity path", p.Pos(fn.Pos()), "the result is a reslice array[:len+asked] of the argument: dst's bytes are the prefix of the result (same backing array)")
	// which condition selects the in-capacity path: capacity must suffice
	if reslice != nil {
		facts := env.FactsAt(reslice.Block())
		capOK := false
		want := linTerm("cap(array)", true).Sub(linTerm("len(array)", true)).Sub(linTerm("asked", false))
		if ProveNonNeg(want, facts) {
			capOK = true
		}
		if !capOK {
			// amd64: the decision is taken by needExpand(array, asked) == 0 (assembler helper: cap-len >= asked, checked by its own A2/A4 run)
			for _, ec := range edgeConds(reslice.Block()) {
				if bo, ok := ec.If.Cond.(*ssa.BinOp); ok {
					if call, ok := bo.X.(*ssa.Call); ok && call.Call.StaticCallee() != nil && call.Call.StaticCallee().Name() == "needExpand" {
						if call.Call.Args[0] == ssa.Value(array) && ec.Truth == (bo.Op.String() == "==") {
							capOK = true
						}
					}
				}
			}
		}
		r.Check(capOK, "APPEND-PREFIX", name+" in-capacity path is taken only when cap(array)-len(array) >= asked", p.InstrPos(reslice), "otherwise the reslice would panic / exceed capacity")
	}
	okCopy := false
	detail := "no copy of the prefix into the new slice"
	if fresh != nil {
		for _, b := range fn.Blocks {
			for _, in := range b.Instrs {
				call, ok := in.(*ssa.Call)
				if !ok {
					continue
				}
				if bi, ok := call.Call.Value.(*ssa.Builtin); ok && bi.Name() == "copy" {
					if call.Call.Args[0] == ssa.Value(fresh) && call.Call.Args[1] == ssa.Value(array) {
						okCopy, detail = true, "copy(head, array)"
					}
				}
				if cal := call.Call.StaticCallee(); cal != nil && cal.Name() == "copyAsm" {
					d, ok1 := call.Call.Args[0].(*ssa.IndexAddr)
					s, ok2 := call.Call.Args[1].(*ssa.IndexAddr)
					if ok1 && ok2 && d.X == ssa.Value(fresh) && s.X == ssa.Value(array) && env.Int(d.Index).IsConst() && env.Int(d.Index).C == 0 && env.Int(s.Index).IsConst() && env.Int(s.Index).C == 0 {
						n := env.Int(call.Call.Args[2])
						if n.Equal(linTerm("len(array)", true)) {
							// skipped only when the prefix is empty
							// the copy may be skipped only when the prefix is empty: the fresh slice must otherwise not reach the return without it
							skipOK := true
							for _, pb := range fresh.Block().Succs {
								if pb != b {
									// the bypass edge must be the len(array) == 0 side of a test of len(array)
									iff, isIf := fresh.Block().Instrs[len(fresh.Block().Instrs)-1].(*ssa.If)
									if !isIf {
										skipOK = false
										continue
									}
									fs := env.condFacts(iff.Cond, fresh.Block().Succs[0] == pb)
									zero := false
									for _, f := range fs {
										if f.Eq && f.E.Equal(linTerm("len(array)", true)) {
											zero = true
										}
									}
									if !zero {
										skipOK = false
									}
								}
							}
							okCopy, detail = skipOK, "copyAsm(&head[0], &array[0], len(array)) (skipped only for an empty prefix)"
						} else {
							detail = "copyAsm copies " + n.String() + " bytes instead of len(array)"
						}
					}
				}
			}
		}
		ls, ok := env.Len(fresh)
		okLen := ok && len(ls) == 1 && ls[0].Equal(linTerm("len(array)", true).Add(linTerm("asked", false)))
		r.Check(okLen, "APPEND-PREFIX", name+" reallocation length", p.InstrPos(fresh), fmt.Sprintf("new slice has length %v", linStrs(ls)))
	}
	r.Check(okCopy && fresh != nil, "APPEND-PREFIX", name+" reallocation path copies the prefix", p.Pos(fn.Pos()), detail)
	_ = strings.Join
}

// c10PortableOverlap: in the portable kernels no read of the source block x can follow a write to the destination block y
// on any path (so dst == src is safe). A forward may-analysis over the control-flow graph: the state is "some byte of y may
// have been written"; reads of x are encoding/binary loads, direct loads and copies whose operand is rooted at x, writes of y
// likewise; helpers that receive (a slice of) x or y are analysed in the same way with their parameters in those roles.
func c10PortableOverlap(r *Report, p *Prog) {
	for _, n := range []string{"sm4.cryptoBlock", "sm4.cryptoBlockX2"} {
		fn := p.MustFunc(r, n)
		if fn == nil {
			continue
		}
		rd, wr, late := overlapOrder(p, fn, map[*ssa.Parameter]bool{fn.Params[0]: true}, map[*ssa.Parameter]bool{fn.Params[1]: true}, 0)
		r.Check(rd && wr && late == "", "LOAD-BEFORE-STORE", "[portable] "+n, p.Pos(fn.Pos()), "no load from the source block can follow a store to the destination block"+ifs(late != "", ": "+late)+ifs(!rd || !wr, ": the function does not both read x and write y"))
	}
}

// sliceRoot: the parameter a slice or element address is derived from
func sliceRoot(v ssa.Value) *ssa.Parameter {
	for i := 0; i < 12; i++ {
		switch x := v.(type) {
		case *ssa.Parameter:
			return x
		case *ssa.Slice:
			v = x.X
		case *ssa.ChangeType:
			v = x.X
		case *ssa.IndexAddr:
			v = x.X
		case *ssa.SliceToArrayPointer:
			v = x.X
		default:
			return nil
		}
	}
	return nil
}

// overlapOrder: does fn read xs, write ys, and can a read of xs follow a write of ys (late != "")?
func overlapOrder(p *Prog, fn *ssa.Function, xs, ys map[*ssa.Parameter]bool, depth int) (reads, writes bool, late string) {
	if depth > 6 || len(fn.Blocks) == 0 {
		return true, true, "helper " + fn.Name() + " cannot be analysed"
	}
	type eff struct {
		rd, wr bool
		late   string
	}
	effect := func(in ssa.Instruction) eff {
		var e eff
		isX := func(v ssa.Value) bool { rt := sliceRoot(v); return rt != nil && xs[rt] }
		isY := func(v ssa.Value) bool { rt := sliceRoot(v); return rt != nil && ys[rt] }
		switch x := in.(type) {
		case *ssa.UnOp:
			if x.Op == token.MUL && isX(x.X) {
				e.rd = true
			}
		case *ssa.Store:
			if isY(x.Addr) {
				e.wr = true
			}
		case *ssa.Call:
			args := x.Call.Args
			cal := x.Call.StaticCallee()
			if cal == nil {
				if bi, ok := x.Call.Value.(*ssa.Builtin); ok {
					if bi.Name() == "copy" && len(args) == 2 {
						e.rd, e.wr = isX(args[1]), isY(args[0])
					}
					return e
				}
				for _, a := range args {
					e.rd = e.rd || isX(a)
					e.wr = e.wr || isY(a)
				}
				return e
			}
			switch {
			case strings.Contains(cal.String(), "bigEndian).PutUint32") || strings.Contains(cal.String(), "littleEndian).PutUint32") || strings.Contains(cal.String(), "Endian).PutUint64"):
				e.wr = isY(args[len(args)-2])
			case strings.Contains(cal.String(), "Endian).Uint32") || strings.Contains(cal.String(), "Endian).Uint64"):
				e.rd = isX(args[len(args)-1])
			case isRepoFunc(cal) && len(cal.Blocks) > 0:
				cx, cy := map[*ssa.Parameter]bool{}, map[*ssa.Parameter]bool{}
				for i, a := range args {
					if i < len(cal.Params) {
						if isX(a) {
							cx[cal.Params[i]] = true
						}
						if isY(a) {
							cy[cal.Params[i]] = true
						}
					}
				}
				if len(cx) > 0 || len(cy) > 0 {
					e.rd, e.wr, e.late = overlapOrder(p, cal, cx, cy, depth+1)
				}
			default:
				for _, a := range args {
					e.rd = e.rd || isX(a)
					e.wr = e.wr || isY(a)
				}
			}
		}
		return e
	}
	written := map[*ssa.BasicBlock]bool{} // state at block entry
	for changed := true; changed; {
		changed = false
		for _, b := range fn.Blocks {
			st := written[b]
			for _, in := range b.Instrs {
				e := effect(in)
				reads = reads || e.rd
				writes = writes || e.wr
				if e.late != "" && late == "" {
					late = e.late
				}
				if st && e.rd && late == "" {
					late = "load from the source at " + p.InstrPos(in) + " can follow a store to the destination"
				}
				st = st || e.wr
			}
			for _, s := range b.Succs {
				if st && !written[s] {
					written[s] = true
					changed = true
				}
			}
		}
	}
	return
}

func rootedAtSliceParam(v ssa.Value, prm *ssa.Parameter) bool {
	for i := 0; i < 10; i++ {
		switch x := v.(type) {
		case *ssa.Parameter:
			return x == prm
		case *ssa.Slice:
			v = x.X
		case *ssa.ChangeType:
			v = x.X
		default:
			return false
		}
	}
	return false
}
