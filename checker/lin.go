package main

// Symbolic linear integer expressions over SSA values, slice-length evaluation and dominating branch facts
// (shared by engines G3 and G4).

import (
	"fmt"
	"go/constant"
	"go/token"
	"go/types"
	"sort"
	"strings"

	"golang.org/x/tools/go/ssa"
)

type Lin struct {
	C      int64
	T      map[string]int64 // term key -> coefficient
	NonNeg map[string]bool  // term is known to be >= 0 (lengths, unsigned values)
}

func linConst(c int64) *Lin { return &Lin{C: c, T: map[string]int64{}, NonNeg: map[string]bool{}} }
func linTerm(key string, nonneg bool) *Lin {
	l := linConst(0)
	l.T[key] = 1
	if nonneg {
		l.NonNeg[key] = true
	}
	return l
}
func (a *Lin) clone() *Lin {
	b := linConst(a.C)
	for k, v := range a.T {
		b.T[k] = v
	}
	for k := range a.NonNeg {
		b.NonNeg[k] = true
	}
	return b
}
func (a *Lin) addScaled(b *Lin, s int64) *Lin {
	r := a.clone()
	r.C += s * b.C
	for k, v := range b.T {
		r.T[k] += s * v
		if r.T[k] == 0 {
			delete(r.T, k)
		}
	}
	for k := range b.NonNeg {
		r.NonNeg[k] = true
	}
	return r
}
func (a *Lin) Add(b *Lin) *Lin    { return a.addScaled(b, 1) }
func (a *Lin) Sub(b *Lin) *Lin    { return a.addScaled(b, -1) }
func (a *Lin) Scale(s int64) *Lin { return linConst(0).addScaled(a, s) }
func (a *Lin) IsConst() bool      { return len(a.T) == 0 }
func (a *Lin) Equal(b *Lin) bool {
	d := a.Sub(b)
	return d.C == 0 && len(d.T) == 0
}
func (a *Lin) String() string {
	var ks []string
	for k := range a.T {
		ks = append(ks, k)
	}
	sort.Strings(ks)
	var parts []string
	for _, k := range ks {
		c := a.T[k]
		switch c {
		case 1:
			parts = append(parts, k)
		case -1:
			parts = append(parts, "-"+k)
		default:
			parts = append(parts, fmt.Sprintf("%d*%s", c, k))
		}
	}
	if a.C != 0 || len(parts) == 0 {
		parts = append(parts, fmt.Sprint(a.C))
	}
	return strings.Join(parts, " + ")
}

// triviallyNonNeg: constant >= 0 and every term has a positive coefficient on a non-negative quantity.
func (a *Lin) triviallyNonNeg() bool {
	if a.C < 0 {
		return false
	}
	for k, c := range a.T {
		if c < 0 || !a.NonNeg[k] {
			return false
		}
	}
	return true
}

// ---------------------------------------------------------------------------

type LinEnv struct {
	p      *Prog
	fn     *ssa.Function
	lenSum func(callee *ssa.Function, call *ssa.Call, env *LinEnv) ([]*Lin, bool) // length summaries of repo functions
	names  map[ssa.Value]string
	depth  int
	Extra  []Fact // definitional facts of quotient/remainder terms
}

func NewLinEnv(p *Prog, fn *ssa.Function) *LinEnv {
	return &LinEnv{p: p, fn: fn, names: map[ssa.Value]string{}}
}

func (e *LinEnv) keyOf(v ssa.Value) string {
	if k, ok := e.names[v]; ok {
		return k
	}
	var k string
	switch x := v.(type) {
	case *ssa.Parameter:
		k = x.Name()
	case *ssa.Global:
		k = shortPkg(x.Pkg.Pkg.Path()) + "." + x.Name()
	case *ssa.UnOp:
		if x.Op == token.MUL {
			k = "*" + e.addrKey(x.X)
		}
	case *ssa.Extract:
		k = e.keyOf(x.Tuple) + "#" + fmt.Sprint(x.Index)
	case *ssa.Call:
		if c := x.Call.StaticCallee(); c != nil {
			k = fmt.Sprintf("%s()@%s", c.Name(), e.p.InstrPos(x))
		}
	}
	if k == "" {
		k = fmt.Sprintf("%s@%s", v.Name(), e.p.Pos(v.Pos()))
		if v.Name() == "" {
			k = fmt.Sprintf("%T@%p", v, v)
		}
	}
	e.names[v] = k
	return k
}

func (e *LinEnv) addrKey(v ssa.Value) string {
	switch x := v.(type) {
	case *ssa.FieldAddr:
		st := x.X.Type().Underlying().(*types.Pointer).Elem().Underlying().(*types.Struct)
		return e.addrKey(x.X) + "." + st.Field(x.Field).Name()
	case *ssa.IndexAddr:
		if c, ok := x.Index.(*ssa.Const); ok {
			return e.addrKey(x.X) + "[" + c.Value.String() + "]"
		}
		return e.addrKey(x.X) + "[?]"
	case *ssa.Parameter:
		return x.Name()
	case *ssa.Global:
		return shortPkg(x.Pkg.Pkg.Path()) + "." + x.Name()
	case *ssa.Alloc:
		if x.Comment != "" {
			return x.Comment
		}
	}
	return e.keyOf(v)
}

func isUnsigned(t types.Type) bool {
	b, ok := t.Underlying().(*types.Basic)
	return ok && b.Info()&types.IsUnsigned != 0
}

// Int evaluates an integer SSA value to a linear expression (opaque terms for anything else).
func (e *LinEnv) Int(v ssa.Value) *Lin {
	e.depth++
	defer func() { e.depth-- }()
	if e.depth > 40 {
		return linTerm(e.keyOf(v), isUnsigned(v.Type()))
	}
	switch x := v.(type) {
	case *ssa.Const:
		if x.Value != nil && x.Value.Kind() == constant.Int {
			if i, ok := constant.Int64Val(x.Value); ok {
				return linConst(i)
			}
			if u, ok := constant.Uint64Val(x.Value); ok {
				_ = u
				return linTerm("const:"+x.Value.ExactString(), true)
			}
		}
	case *ssa.BinOp:
		switch x.Op {
		case token.ADD:
			return e.Int(x.X).Add(e.Int(x.Y))
		case token.SUB:
			return e.Int(x.X).Sub(e.Int(x.Y))
		case token.MUL:
			a, b := e.Int(x.X), e.Int(x.Y)
			if a.IsConst() {
				return b.Scale(a.C)
			}
			if b.IsConst() {
				return a.Scale(b.C)
			}
		case token.SHL:
			b := e.Int(x.Y)
			if b.IsConst() && b.C >= 0 && b.C < 31 {
				return e.Int(x.X).Scale(1 << uint(b.C))
			}
		case token.SHR, token.AND, token.AND_NOT, token.QUO, token.REM:
			b := e.Int(x.Y)
			v := e.Int(x.X)
			if b.IsConst() && b.C > 0 && v.knownNonNeg() {
				d := int64(0)
				pow2 := func(c int64) bool { return c > 0 && c&(c-1) == 0 }
				switch {
				case x.Op == token.SHR && b.C < 31:
					d = int64(1) << uint(b.C)
				case (x.Op == token.AND || x.Op == token.AND_NOT) && (b.C&(b.C+1)) == 0:
					d = b.C + 1
				case (x.Op == token.QUO || x.Op == token.REM) && pow2(b.C):
					d = b.C
				}
				if d > 0 && (x.Op == token.SHR || x.Op == token.QUO || x.Op == token.AND_NOT || x.Op == token.REM || x.Op == token.AND) {
					// exact division: every coefficient is a multiple of d
					exact := v.C%d == 0
					for _, c := range v.T {
						if c%d != 0 {
							exact = false
						}
					}
					if exact {
						switch x.Op {
						case token.SHR, token.QUO:
							out := linConst(v.C / d)
							for k, c := range v.T {
								out.T[k] = c / d
								if v.NonNeg[k] {
									out.NonNeg[k] = true
								}
							}
							return out
						case token.AND_NOT:
							return v
						case token.REM, token.AND:
							return linConst(0)
						}
					}
				}
				if d > 0 {
					name := v.String()
					q := linTerm(fmt.Sprintf("(%s)/%d", name, d), true)
					r := linTerm(fmt.Sprintf("(%s)%%%d", name, d), true)
					e.addExtra(Fact{E: v.Sub(q.Scale(d)).Sub(r), Eq: true})
					e.addExtra(Fact{E: linConst(d - 1).Sub(r)})
					switch x.Op {
					case token.SHR, token.QUO:
						return q
					case token.AND_NOT:
						return q.Scale(d) // x &^ (d-1) = d * (x / d)
					}
					return r
				}
			}
		}
	case *ssa.Convert:
		if _, ok := x.X.Type().Underlying().(*types.Basic); ok {
			if _, ok2 := x.Type().Underlying().(*types.Basic); ok2 {
				xb := x.X.Type().Underlying().(*types.Basic)
				tb := x.Type().Underlying().(*types.Basic)
				if xb.Info()&types.IsInteger != 0 && tb.Info()&types.IsInteger != 0 && intBits(tb) >= intBits(xb) {
					return e.Int(x.X) // widening keeps the value (for the non-negative quantities used here)
				}
			}
		}
	case *ssa.ChangeType:
		return e.Int(x.X)
	case *ssa.Phi:
		if base, step, k, ok := e.inductionInt(x); ok {
			return e.Int(base).Add(k.Scale(step))
		}
	case *ssa.Call:
		if b, ok := x.Call.Value.(*ssa.Builtin); ok && b.Name() == "len" {
			ls, ok := e.Len(x.Call.Args[0])
			if ok && len(ls) == 1 {
				return ls[0]
			}
			return linTerm("len("+e.sliceKey(x.Call.Args[0])+")", true)
		}
		if b, ok := x.Call.Value.(*ssa.Builtin); ok && b.Name() == "cap" {
			return linTerm("cap("+e.sliceKey(x.Call.Args[0])+")", true)
		}
		if b, ok := x.Call.Value.(*ssa.Builtin); ok && b.Name() == "copy" {
			return linTerm(e.keyOf(x), true)
		}
	}
	return linTerm(e.keyOf(v), isUnsigned(v.Type()))
}

func intBits(b *types.Basic) int {
	switch b.Kind() {
	case types.Int8, types.Uint8:
		return 8
	case types.Int16, types.Uint16:
		return 16
	case types.Int32, types.Uint32:
		return 32
	}
	return 64
}

// sliceKey names a slice value for opaque len() terms: slices of the same parameter without reslicing share the name.
func (e *LinEnv) sliceKey(v ssa.Value) string {
	switch x := v.(type) {
	case *ssa.Parameter:
		return x.Name()
	case *ssa.ChangeType:
		return e.sliceKey(x.X)
	}
	return e.keyOf(v)
}

// Len evaluates the possible lengths of a slice/array/string value.
func (e *LinEnv) Len(v ssa.Value) ([]*Lin, bool) {
	e.depth++
	defer func() { e.depth-- }()
	if e.depth > 40 {
		return nil, false
	}
	switch t := v.Type().Underlying().(type) {
	case *types.Array:
		return []*Lin{linConst(t.Len())}, true
	case *types.Pointer:
		if a, ok := t.Elem().Underlying().(*types.Array); ok {
			return []*Lin{linConst(a.Len())}, true
		}
	}
	switch x := v.(type) {
	case *ssa.Const:
		if x.IsNil() {
			return []*Lin{linConst(0)}, true
		}
		if x.Value != nil && x.Value.Kind() == constant.String {
			return []*Lin{linConst(int64(len(constant.StringVal(x.Value))))}, true
		}
	case *ssa.Parameter:
		return []*Lin{linTerm("len("+x.Name()+")", true)}, true
	case *ssa.UnOp:
		// slice loaded from a struct field: use the field's length invariant (every store to that field in the program has this length)
		if fa, ok := x.X.(*ssa.FieldAddr); ok && x.Op == token.MUL {
			if n, ok := fieldLenInvariant(e.p, fa); ok {
				return []*Lin{linConst(n)}, true
			}
		}
	case *ssa.MakeSlice:
		return []*Lin{e.Int(x.Len)}, true
	case *ssa.ChangeType:
		return e.Len(x.X)
	case *ssa.Convert:
		return e.Len(x.X)
	case *ssa.Slice:
		var base []*Lin
		ok := true
		if x.High == nil {
			base, ok = e.Len(x.X)
			if !ok {
				return nil, false
			}
		} else {
			base = []*Lin{e.Int(x.High)}
		}
		lo := linConst(0)
		if x.Low != nil {
			lo = e.Int(x.Low)
		}
		var out []*Lin
		for _, b := range base {
			out = append(out, b.Sub(lo))
		}
		return out, true
	case *ssa.Phi:
		if base, step, k, ok := e.inductionSlice(x); ok {
			bl, ok2 := e.Len(base)
			if ok2 && len(bl) == 1 {
				return []*Lin{bl[0].Sub(k.Scale(step))}, true
			}
		}
		var out []*Lin
		for _, ed := range x.Edges {
			ls, ok := e.Len(ed)
			if !ok {
				return nil, false
			}
			for _, l := range ls {
				dup := false
				for _, o := range out {
					if o.Equal(l) {
						dup = true
					}
				}
				if !dup {
					out = append(out, l)
				}
			}
		}
		if len(out) > 6 {
			return nil, false
		}
		return out, true
	case *ssa.Call:
		if b, ok := x.Call.Value.(*ssa.Builtin); ok && b.Name() == "append" {
			a, ok1 := e.Len(x.Call.Args[0])
			bb, ok2 := e.Len(x.Call.Args[1])
			if ok1 && ok2 && len(a)*len(bb) <= 6 {
				var out []*Lin
				for _, l1 := range a {
					for _, l2 := range bb {
						out = append(out, l1.Add(l2))
					}
				}
				return out, true
			}
			return nil, false
		}
		if cal := x.Call.StaticCallee(); cal != nil && cal.String() == "(*math/big.Int).FillBytes" && len(x.Call.Args) == 2 {
			return e.Len(x.Call.Args[1])
		}
		if cal := x.Call.StaticCallee(); cal != nil && e.lenSum != nil {
			if ls, ok := e.lenSum(cal, x, e); ok {
				return ls, true
			}
		}
	case *ssa.Extract:
		if call, ok := x.Tuple.(*ssa.Call); ok && e.lenSum != nil {
			if cal := call.Call.StaticCallee(); cal != nil {
				if ls, ok := e.lenSumTuple(cal, call, x.Index); ok {
					return ls, true
				}
			}
		}
	}
	return nil, false
}

func (e *LinEnv) lenSumTuple(cal *ssa.Function, call *ssa.Call, idx int) ([]*Lin, bool) {
	return retLenSummary(e.p, cal, idx, call, e, 0)
}

// retLenSummary: possible lengths of result idx of a repository function, expressed in the caller's terms.
func retLenSummary(p *Prog, cal *ssa.Function, idx int, call *ssa.Call, caller *LinEnv, depth int) ([]*Lin, bool) {
	if len(cal.Blocks) == 0 || depth > 4 {
		return nil, false
	}
	ce := NewLinEnv(p, cal)
	ce.lenSum = func(c2 *ssa.Function, call2 *ssa.Call, env *LinEnv) ([]*Lin, bool) {
		return retLenSummary(p, c2, 0, call2, env, depth+1)
	}
	var out []*Lin
	for _, b := range cal.Blocks {
		if b == cal.Recover {
			continue
		}
		for _, in := range b.Instrs {
			ret, ok := in.(*ssa.Return)
			if !ok || idx >= len(retVals(ret)) {
				continue
			}
			ls, ok := ce.Len(retVals(ret)[idx])
			if !ok {
				return nil, false
			}
			out = append(out, ls...)
		}
	}
	if len(out) == 0 {
		return nil, false
	}
	// substitute callee parameter terms by caller argument expressions
	args := call.Call.Args
	var res []*Lin
	for _, l := range out {
		r := linConst(l.C)
		for k, c := range l.T {
			sub := (*Lin)(nil)
			for i, prm := range cal.Params {
				if i >= len(args) {
					break
				}
				if k == "len("+prm.Name()+")" {
					als, ok := caller.Len(args[i])
					if !ok || len(als) != 1 {
						return nil, false
					}
					sub = als[0]
				} else if k == prm.Name() {
					sub = caller.Int(args[i])
				}
			}
			if sub == nil {
				return nil, false // depends on callee-internal quantities
			}
			r = r.addScaled(sub, c)
		}
		dup := false
		for _, o := range res {
			if o.Equal(r) {
				dup = true
			}
		}
		if !dup {
			res = append(res, r)
		}
	}
	return res, true
}

// ---------------------------------------------------------------------------
// dominating facts

type Fact struct {
	E     *Lin // E >= 0  (Eq: E == 0)
	Eq    bool
	Ne    bool // E != 0 (weak fact)
	Cond  ssa.Value
	Truth bool
	Raw   string
}

// condFacts converts "cond is truth" into linear facts.
func (e *LinEnv) condFacts(cond ssa.Value, truth bool) []Fact {
	switch x := cond.(type) {
	case *ssa.UnOp:
		if x.Op == token.NOT {
			return e.condFacts(x.X, !truth)
		}
	case *ssa.Phi:
		// `a && b` as a value (the case expression of a tagless switch): phi [A: false, B: b] where block A ends in `if a` and
		// reaches the phi directly when a is false; the phi being true means a and b. Dually `a || b` being false.
		if len(x.Edges) == 2 && len(x.Block().Preds) == 2 {
			for i := 0; i < 2; i++ {
				k, ok := x.Edges[i].(*ssa.Const)
				if !ok || k.Value == nil || k.Value.Kind() != constant.Bool {
					continue
				}
				short := constant.BoolVal(k.Value) // the value when the first operand decides
				if short == truth {
					continue // the phi has the short-circuit value: either operand may have produced it
				}
				first := x.Block().Preds[i]
				iff, ok := first.Instrs[len(first.Instrs)-1].(*ssa.If)
				if !ok || len(first.Succs) != 2 {
					continue
				}
				// the first operand took the edge that does not lead straight to the phi
				firstTruth := first.Succs[0] != x.Block()
				if first.Succs[0] == x.Block() && first.Succs[1] == x.Block() {
					continue
				}
				out := e.condFacts(iff.Cond, firstTruth)
				out = append(out, e.condFacts(x.Edges[1-i], truth)...)
				return out
			}
		}
	case *ssa.BinOp:
		if _, ok := x.X.Type().Underlying().(*types.Basic); !ok {
			return nil
		}
		if b := x.X.Type().Underlying().(*types.Basic); b.Info()&types.IsInteger == 0 {
			return nil
		}
		a, b := e.Int(x.X), e.Int(x.Y)
		op := x.Op
		if !truth {
			switch op {
			case token.EQL:
				op = token.NEQ
			case token.NEQ:
				op = token.EQL
			case token.LSS:
				op = token.GEQ
			case token.GEQ:
				op = token.LSS
			case token.GTR:
				op = token.LEQ
			case token.LEQ:
				op = token.GTR
			default:
				return nil
			}
		}
		raw := a.String() + " " + op.String() + " " + b.String()
		switch op {
		case token.EQL:
			return []Fact{{E: a.Sub(b), Eq: true, Cond: cond, Truth: truth, Raw: raw}}
		case token.NEQ:
			return []Fact{{E: a.Sub(b), Ne: true, Cond: cond, Truth: truth, Raw: raw}}
		case token.LSS: // a < b  => b - a - 1 >= 0
			return []Fact{{E: b.Sub(a).Add(linConst(-1)), Cond: cond, Truth: truth, Raw: raw}}
		case token.LEQ:
			return []Fact{{E: b.Sub(a), Cond: cond, Truth: truth, Raw: raw}}
		case token.GTR:
			return []Fact{{E: a.Sub(b).Add(linConst(-1)), Cond: cond, Truth: truth, Raw: raw}}
		case token.GEQ:
			return []Fact{{E: a.Sub(b), Cond: cond, Truth: truth, Raw: raw}}
		}
	}
	return nil
}

// edgeConds returns the (condition, truth) pairs of If edges that dominate block b.
func edgeConds(b *ssa.BasicBlock) []struct {
	If    *ssa.If
	Truth bool
} {
	var out []struct {
		If    *ssa.If
		Truth bool
	}
	for d := b; d != nil; d = d.Idom() {
		id := d.Idom()
		if id == nil {
			break
		}
		// d is immediately dominated by id; find whether d is (dominated by) exactly one successor edge of id's If
		iff, ok := id.Instrs[len(id.Instrs)-1].(*ssa.If)
		if !ok {
			continue
		}
		for k, s := range id.Succs {
			other := id.Succs[1-k]
			if s == other {
				continue
			}
			if s == d && onlyForwardPred(s, id) {
				out = append(out, struct {
					If    *ssa.If
					Truth bool
				}{iff, k == 0})
			}
		}
	}
	return out
}

func (e *LinEnv) FactsAt(b *ssa.BasicBlock) []Fact {
	var out []Fact
	for _, ec := range edgeConds(b) {
		out = append(out, e.condFacts(ec.If.Cond, ec.Truth)...)
	}
	return out
}

// FactAlternatives: the facts at b as a disjunction. When b (or the nearest block above it on its single-predecessor
// chain) is a join of several forward edges - the shape a guard written with || or a switch leaves behind - each incoming
// edge contributes its own facts; something that follows from every alternative holds at b.
func (e *LinEnv) FactAlternatives(b *ssa.BasicBlock, depth int) [][]Fact {
	base := e.FactsAt(b)
	d := b
	for hops := 0; hops < 6; hops++ {
		var fw []*ssa.BasicBlock
		for _, p := range d.Preds {
			if !d.Dominates(p) {
				fw = append(fw, p)
			}
		}
		if len(fw) == 1 {
			d = fw[0]
			continue
		}
		if len(fw) < 2 || depth >= 3 {
			break
		}
		var out [][]Fact
		for _, p := range fw {
			var edge []Fact
			if iff, ok := p.Instrs[len(p.Instrs)-1].(*ssa.If); ok && p.Succs[0] != p.Succs[1] {
				edge = e.condFacts(iff.Cond, p.Succs[0] == d)
			}
			for _, alt := range e.FactAlternatives(p, depth+1) {
				f := append(append(append([]Fact{}, base...), alt...), edge...)
				out = append(out, f)
			}
		}
		if len(out) == 0 || len(out) > 16 {
			break
		}
		return out
	}
	return [][]Fact{base}
}

// ProveNonNeg tries to show E >= 0 from the facts: E = sum of non-negative multiples of facts and non-negative terms.
func ProveNonNeg(E *Lin, facts []Fact) bool {
	if E.triviallyNonNeg() {
		return true
	}
	if lpProveNonNeg(E, facts) {
		return true
	}
	// disequalities: D != 0 together with D >= 0 gives D >= 1 (all terms are integers; a common factor is divided out)
	var extra []Fact
	for _, f := range facts {
		if !f.Ne {
			continue
		}
		if f.E.triviallyNonNeg() || lpProveNonNeg(f.E, facts) {
			extra = append(extra, Fact{E: intTighten(f.E.Sub(linConst(1)))})
		} else if neg := f.E.Scale(-1); lpProveNonNeg(neg, facts) {
			extra = append(extra, Fact{E: intTighten(neg.Sub(linConst(1)))})
		}
	}
	if len(extra) == 0 {
		return false
	}
	return lpProveNonNeg(E, append(append([]Fact(nil), facts...), extra...))
}

// Decide returns +1 if E >= 0 is proved, -1 if E < 0 is proved, 0 otherwise.
func Decide(E *Lin, facts []Fact) int {
	if ProveNonNeg(E, facts) {
		return 1
	}
	neg := E.Scale(-1).Add(linConst(-1))
	if ProveNonNeg(neg, facts) {
		return -1
	}
	return 0
}

func (a *Lin) knownNonNeg() bool { return a.triviallyNonNeg() }

func (e *LinEnv) addExtra(f Fact) {
	for _, o := range e.Extra {
		if o.Eq == f.Eq && o.E.Equal(f.E) {
			return
		}
	}
	e.Extra = append(e.Extra, f)
}

// loopIter names the iteration count of the loop headed by block b.
func (e *LinEnv) loopIter(b *ssa.BasicBlock) *Lin {
	return linTerm(fmt.Sprintf("iter@%s.b%d", e.fn.Name(), b.Index), true)
}

// inductionInt: x = phi(x0, x + c) in a loop header  =>  x = x0 + c*K.
func (e *LinEnv) inductionInt(x *ssa.Phi) (base ssa.Value, step int64, k *Lin, ok bool) {
	if len(x.Edges) != 2 {
		return
	}
	blk := x.Block()
	for i := 0; i < 2; i++ {
		back, init := x.Edges[i], x.Edges[1-i]
		if !blk.Dominates(blk.Preds[i]) {
			continue // not a back edge
		}
		bo, isB := back.(*ssa.BinOp)
		if !isB || (bo.Op != token.ADD && bo.Op != token.SUB) {
			continue
		}
		c, isC := bo.Y.(*ssa.Const)
		if bo.X != ssa.Value(x) || !isC || c.Value == nil || c.Value.Kind() != constant.Int {
			continue
		}
		v, exact := constant.Int64Val(c.Value)
		if !exact {
			continue
		}
		if bo.Op == token.SUB {
			v = -v
		}
		return init, v, e.loopIter(blk), true
	}
	return
}

// inductionSlice: s = phi(s0, s[c:]) in a loop header  =>  len(s) = len(s0) - c*K.
func (e *LinEnv) inductionSlice(x *ssa.Phi) (base ssa.Value, step int64, k *Lin, ok bool) {
	if len(x.Edges) != 2 {
		return
	}
	blk := x.Block()
	for i := 0; i < 2; i++ {
		back, init := x.Edges[i], x.Edges[1-i]
		if !blk.Dominates(blk.Preds[i]) {
			continue
		}
		sl, isS := back.(*ssa.Slice)
		if !isS || sl.X != ssa.Value(x) || sl.High != nil || sl.Low == nil {
			continue
		}
		c, isC := sl.Low.(*ssa.Const)
		if !isC || c.Value == nil {
			continue
		}
		v, exact := constant.Int64Val(c.Value)
		if !exact {
			continue
		}
		return init, v, e.loopIter(blk), true
	}
	return
}

var fieldLenCache = map[string]int64{}

// fieldLenInvariant: every store to the struct field addressed by fa, anywhere in the repository, stores a slice of one constant length.
func fieldLenInvariant(p *Prog, fa *ssa.FieldAddr) (int64, bool) {
	st, ok := fa.X.Type().Underlying().(*types.Pointer).Elem().Underlying().(*types.Struct)
	if !ok {
		return 0, false
	}
	if _, isSlice := st.Field(fa.Field).Type().Underlying().(*types.Slice); !isSlice {
		return 0, false
	}
	key := p.Arch + "|" + fa.X.Type().String() + "." + st.Field(fa.Field).Name()
	if v, ok := fieldLenCache[key]; ok {
		return v, v >= 0
	}
	fieldLenCache[key] = -1
	var val int64 = -1
	n := 0
	for _, fn := range p.RepoFuncs() {
		var env *LinEnv
		for _, b := range fn.Blocks {
			for _, in := range b.Instrs {
				store, ok := in.(*ssa.Store)
				if !ok {
					continue
				}
				fa2, ok := store.Addr.(*ssa.FieldAddr)
				if !ok || fa2.Field != fa.Field || !types.Identical(fa2.X.Type(), fa.X.Type()) {
					continue
				}
				if env == nil {
					env = NewLinEnv(p, fn)
				}
				ls, ok := env.Len(store.Val)
				if !ok || len(ls) != 1 || !ls[0].IsConst() {
					return 0, false
				}
				if n > 0 && val != ls[0].C {
					return 0, false
				}
				val = ls[0].C
				n++
			}
		}
	}
	if n == 0 {
		return 0, false
	}
	fieldLenCache[key] = val
	return val, true
}
