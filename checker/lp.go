package main

// Exact decision of linear implications by phase-1 simplex over the rationals (Farkas): the facts
// {F_i >= 0, G_j = 0, x_k >= 0 for non-negative terms} imply E >= 0 iff {facts, E <= -1} is infeasible
// (all quantities are integers, so E < 0 is E <= -1). Used by ProveNonNeg.

import (
	"math/big"
	"sort"
)

type lpRow struct {
	a []*big.Rat
	b *big.Rat
}

func ratZero() *big.Rat { return new(big.Rat) }

// lpInfeasible decides whether {rows: a·y = b, y >= 0} has no solution.
func lpInfeasible(rows []lpRow, nvars int) bool {
	if r, ok := lpInfeasible64(rows, nvars); ok {
		return r
	}
	return lpInfeasibleBig(rows, nvars)
}

func lpInfeasibleBig(rows []lpRow, nvars int) bool {
	m := len(rows)
	if m == 0 {
		return false
	}
	// tableau with artificial variables: columns nvars + m, rhs
	total := nvars + m
	T := make([][]*big.Rat, m+1)
	for i := range T {
		T[i] = make([]*big.Rat, total+1)
		for j := range T[i] {
			T[i][j] = ratZero()
		}
	}
	basis := make([]int, m)
	for i, r := range rows {
		neg := r.b.Sign() < 0
		for j := 0; j < nvars; j++ {
			if r.a[j] != nil {
				T[i][j].Set(r.a[j])
				if neg {
					T[i][j].Neg(T[i][j])
				}
			}
		}
		T[i][total].Set(r.b)
		if neg {
			T[i][total].Neg(T[i][total])
		}
		T[i][nvars+i].SetInt64(1)
		basis[i] = nvars + i
	}
	// objective: minimise sum of artificials -> row m holds reduced costs (negated sum of constraint rows for non-artificial columns)
	for j := 0; j <= total; j++ {
		if j >= nvars && j < total {
			continue
		}
		s := ratZero()
		for i := 0; i < m; i++ {
			s.Add(s, T[i][j])
		}
		T[m][j].Neg(s)
	}
	for iter := 0; iter < 5000; iter++ {
		// entering column: smallest index with negative reduced cost (Bland)
		col := -1
		for j := 0; j < total; j++ {
			if T[m][j].Sign() < 0 {
				col = j
				break
			}
		}
		if col < 0 {
			break
		}
		row := -1
		var best *big.Rat
		for i := 0; i < m; i++ {
			if T[i][col].Sign() <= 0 {
				continue
			}
			ratio := new(big.Rat).Quo(T[i][total], T[i][col])
			if row < 0 || ratio.Cmp(best) < 0 || (ratio.Cmp(best) == 0 && basis[i] < basis[row]) {
				row, best = i, ratio
			}
		}
		if row < 0 {
			break // unbounded direction cannot happen for phase 1 (objective bounded below by 0)
		}
		// pivot
		p := new(big.Rat).Set(T[row][col])
		for j := 0; j <= total; j++ {
			T[row][j].Quo(T[row][j], p)
		}
		for i := 0; i <= m; i++ {
			if i == row || T[i][col].Sign() == 0 {
				continue
			}
			f := new(big.Rat).Set(T[i][col])
			for j := 0; j <= total; j++ {
				if T[row][j].Sign() != 0 {
					T[i][j].Sub(T[i][j], new(big.Rat).Mul(f, T[row][j]))
				}
			}
		}
		basis[row] = col
	}
	// optimal value = -T[m][total]; infeasible iff sum of artificials > 0
	return T[m][total].Sign() < 0
}

// lpProveNonNeg: do the facts imply E >= 0?
func lpProveNonNeg(E *Lin, facts []Fact) bool {
	// collect terms
	termSet := map[string]bool{}
	nonneg := map[string]bool{}
	add := func(l *Lin) {
		for k := range l.T {
			termSet[k] = true
		}
		for k := range l.NonNeg {
			if _, ok := l.T[k]; ok {
				nonneg[k] = true
			}
		}
	}
	add(E)
	var use []Fact
	for _, f := range facts {
		if f.Ne {
			continue
		}
		use = append(use, f)
		add(f.E)
	}
	var terms []string
	for k := range termSet {
		terms = append(terms, k)
	}
	sort.Strings(terms)
	// variable layout: for non-negative term one column, for free term two (x+ , x-), then slacks
	col := map[string][2]int{}
	n := 0
	for _, k := range terms {
		if nonneg[k] {
			col[k] = [2]int{n, -1}
			n++
		} else {
			col[k] = [2]int{n, n + 1}
			n += 2
		}
	}
	nIneq := 0
	for _, f := range use {
		if !f.Eq {
			nIneq++
		}
	}
	nvars := n + nIneq + 1
	mk := func(l *Lin, slackCol int, slackSign int64, rhsExtra int64) lpRow {
		r := lpRow{a: make([]*big.Rat, nvars), b: new(big.Rat).SetInt64(-l.C + rhsExtra)}
		for k, c := range l.T {
			cc := col[k]
			r.a[cc[0]] = new(big.Rat).SetInt64(c)
			if cc[1] >= 0 {
				r.a[cc[1]] = new(big.Rat).SetInt64(-c)
			}
		}
		if slackCol >= 0 {
			r.a[slackCol] = new(big.Rat).SetInt64(slackSign)
		}
		return r
	}
	var rows []lpRow
	sc := n
	for _, f := range use {
		if f.Eq {
			rows = append(rows, mk(f.E, -1, 0, 0))
		} else {
			rows = append(rows, mk(f.E, sc, -1, 0)) // F - s = 0
			sc++
		}
	}
	// E + t = -1
	rows = append(rows, mk(E, sc, 1, -1))
	return lpInfeasible(rows, nvars)
}
