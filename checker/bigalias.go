package main

import "math/big"

type bigInt = big.Int

var bigOne = big.NewInt(1)
