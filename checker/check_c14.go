package main

import (
	"fmt"
	"math/big"
	"regexp"
	"sort"
	"strconv"
	"strings"
	"sync"

	"golang.org/x/tools/go/ssa"
)

func init() { register("C14", "other", checkC14) }

var combName = regexp.MustCompile(`^sm2Precomputed_(\d+)_(\d+)_(\d+)(_Remainder)?$`)

// c14Tables: semantics of every package-level comb table, derived from its name and verified entry by entry with the
// checker's own curve arithmetic (independent of the call sites that C18 uses).
func c14Tables(r *Report, p *Prog, f *Folder, cv *curveT) map[string]*tabSem {
	out := map[string]*tabSem{}
	pk := p.Pkgs["sm2/internal"]
	if pk == nil {
		r.Fatalf("unresolved anchor: package sm2/internal")
		return nil
	}
	pow2g := cv.pow2G()
	for _, name := range pk.Types.Scope().Names() {
		m := combName.FindStringSubmatch(name)
		if m == nil {
			continue
		}
		w, _ := strconv.Atoi(m[1])
		s, _ := strconv.Atoi(m[2])
		it, _ := strconv.Atoi(m[3])
		rem := 256 - w*s*it
		tree, err := f.TableByName("sm2/internal", name)
		if err != nil {
			r.Undecided("TABLE-SEMANTICS", name, "sm2/internal/sm2_tables.go", "initialiser is not a literal: "+err.Error())
			continue
		}
		sem := &tabSem{rows: 2}
		ok := true
		if m[4] == "" {
			sem.comb = true
			if len(tree.kids) != s {
				ok = false
			}
			for j, sub := range tree.kids {
				if len(sub.kids) != 2 || len(sub.kids[0].kids) != len(sub.kids[1].kids) {
					ok = false
					break
				}
				var ex []*big.Int
				for i := range sub.kids[0].kids {
					e := new(big.Int)
					acc := affPoint{inf: true}
					for beta := 0; beta < w; beta++ {
						if (i+1)>>uint(beta)&1 == 1 {
							pos := rem + j*it + beta*s*it
							if pos >= len(pow2g) {
								ok = false
								break
							}
							e.Add(e, pow2(uint(pos)))
							acc = cv.add(acc, pow2g[pos])
						}
					}
					gx, okx := limbsOf(sub.kids[0].kids[i])
					gy, oky := limbsOf(sub.kids[1].kids[i])
					if !(okx && oky && !acc.inf && gx == montLimbs(acc.x, cv.p) && gy == montLimbs(acc.y, cv.p)) {
						ok = false
					}
					ex = append(ex, e)
					r.Count("table_points", 1)
				}
				sem.exps = append(sem.exps, ex)
			}
		} else {
			if len(tree.kids) != 2 || len(tree.kids[0].kids) != len(tree.kids[1].kids) {
				ok = false
			} else {
				var ex []*big.Int
				acc := affPoint{inf: true}
				for i := range tree.kids[0].kids {
					acc = cv.add(acc, pow2g[0])
					gx, okx := limbsOf(tree.kids[0].kids[i])
					gy, oky := limbsOf(tree.kids[1].kids[i])
					if !(okx && oky && gx == montLimbs(acc.x, cv.p) && gy == montLimbs(acc.y, cv.p)) {
						ok = false
					}
					ex = append(ex, big.NewInt(int64(i+1)))
					r.Count("table_points", 1)
				}
				sem.exps = [][]*big.Int{ex}
			}
		}
		r.Check(ok, "TABLE-SEMANTICS", name, "sm2/internal/sm2_tables.go", ifs(sem.comb, fmt.Sprintf("entry (j, v) is the sum over the set bits beta of v of 2^(%d + j*%d + beta*%d) G in Montgomery affine form", rem, it, s*it))+ifs(!sem.comb, "entry v is [v]G in Montgomery affine form"))
		if ok {
			out[name] = sem
		}
	}
	return out
}

func newSched(p *Prog, tables map[string]*tabSem) *sched {
	return &sched{p: p, tables: tables, pdom: map[*ssa.Function]map[*ssa.BasicBlock]*ssa.BasicBlock{}, assume: map[string]bool{}}
}

func newSState() *sState {
	return &sState{vals: map[ssa.Value]sVal{}, heap: map[int]interface{}{}, zeros: map[string]bool{}, sign: map[string]uint8{}, ones: map[string]bool{}}
}

func (e *sched) runFunc(fn *ssa.Function, st *sState, args []sVal) []schedRet {
	for i, prm := range fn.Params {
		st.vals[prm] = args[i]
	}
	fr := &sFrame{fn: fn}
	e.frames = append(e.frames, fn)
	e.execFrom(fr, []*sState{st}, fn.Blocks[0], nil, nil, false)
	e.frames = e.frames[:len(e.frames)-1]
	return fr.rets
}

func bitsForm(name string, n int, base string) pform {
	f := pform{}
	for pos := 0; pos < n; pos++ {
		f[pfKey(fmt.Sprintf("%s:%d", name, pos), base)] = pow2(uint(pos))
	}
	return f
}

func describeDiff(want, got pform) string {
	d := pfAdd(got, pfScale(want, big.NewInt(-1)))
	var ks []string
	for k := range d {
		ks = append(ks, k)
	}
	sort.Strings(ks)
	var parts []string
	for i, k := range ks {
		if i >= 5 {
			parts = append(parts, fmt.Sprintf("... (%d terms)", len(ks)))
			break
		}
		w, g := want[k], got[k]
		if w == nil {
			w = big.NewInt(0)
		}
		if g == nil {
			g = big.NewInt(0)
		}
		parts = append(parts, fmt.Sprintf("%s: coefficient %s, required %s", strings.Replace(k, "|", " x ", 1), hexOrDec(g), hexOrDec(w)))
	}
	return strings.Join(parts, "; ")
}

func hexOrDec(v *big.Int) string {
	if v.BitLen() > 16 && v.Sign() > 0 && new(big.Int).And(v, new(big.Int).Sub(v, big.NewInt(1))).Sign() == 0 {
		return fmt.Sprintf("2^%d", v.BitLen()-1)
	}
	return v.String()
}

func (e *sched) report(r *Report, key, pos string) bool {
	if len(e.errs) > 0 {
		r.Viol("SCHEDULE", key, pos, "the schedule cannot be shown to compute the stated multiple: "+strings.Join(e.errs, "; "))
		return false
	}
	if len(e.panics) > 0 {
		r.Viol("SCHEDULE", key, pos, strings.Join(e.panics, "; "))
		return false
	}
	return true
}

func checkC14(c *Ctx, r *Report) {
	r.Explanation = "Decided, for every scalar: the three scalar-multiplication routines compute the stated integer multiple as a linear form. The routines are evaluated abstractly in the exponent domain (checker/sched.go): scalar bytes are vectors of bit symbols, recoded digits are integer symbols, points are integer-linear forms over {symbol x base point} (Double = times 2, Add = sum, Negate = minus, constant-time table selection = linear combination of the table entries at the index bits after checking that the table is linear in them, package-level tables carry the exponents verified entry by entry against the curve); loops with concrete bounds are followed, the byte loop of ScalarMult over a scalar of any length is settled by an inductive Horner step, the data-dependent branches of the verification routine are forked and joined at the post-dominator where forms that differ by symbols known to be zero agree. Obligations: SCHEDULE (result form = sum 2^i k_i G, resp. 256-ary Horner step, resp. sum 2^i g_i G + sum 2^i d_i P), TABLE-SEMANTICS. Relies on (decided elsewhere): Add/Double/Negate compute the group law (C15), field arithmetic (C16). SELECT-SEMANTICS: the constant-time selection that the evaluation summarises (multiSelectConditioned / MultiSelect / Select / Cmovznz) is itself evaluated for every index value 0..width of every table width in use with arbitrary table words: result = entry index-1, receiver kept for index 0, Z = one for affine tables. DecomposeNAF's recoding contract (digits zero or odd, weighted sum = scalar) is decided by C20. Special points (P = G, -G, small multiples) need no case split because the addition law is complete (C15)."
	r.Trusted = []string{"go/ssa", "own curve arithmetic (math/big) for the table exponents", "completeness of the addition law (C15)", "DecomposeNAF recoding contract: digits zero or odd, sum d_i 2^i = scalar (decided by C20)"}
	p, err := LoadRepo(c.Repo, "amd64")
	if err != nil {
		r.Fatalf("%v", err)
		return
	}
	f := NewFolder(p)
	cv := &curveT{}
	for n, dst := range map[string]**big.Int{"P": &cv.p, "N": &cv.n, "B": &cv.b, "Gx": &cv.gx, "Gy": &cv.gy} {
		v, e := f.CurveInt(n)
		if e != nil {
			r.Fatalf("unresolved anchor: curve parameter %s: %v", n, e)
			return
		}
		*dst = v
	}
	tables := c14Tables(r, p, f, cv)
	if tables == nil {
		return
	}
	r.Floor("table_points", 300)
	// T1: fixed-base routines
	for _, name := range []string{"ScalarBaseMult", "scalarBaseMult_SkipBitExtraction_6_3_14", "scalarBaseMult_SkipBitExtraction_5_3_17", "scalarBaseMult_SkipBitExtraction_4_2_32", "scalarBaseMult_SkipBitExtraction_7_3_12"} {
		fn := p.Func("sm2/internal." + name)
		if fn == nil {
			if name == "ScalarBaseMult" {
				p.MustFunc(r, "sm2/internal."+name)
			}
			continue // an unused alternative comb scheme may be removed or renamed
		}
		key, pos := "sm2/internal."+name, p.Pos(fn.Pos())
		e := newSched(p, tables)
		rets := e.runFunc(fn, newSState(), []sVal{sBytes{name: "k", n: 32}})
		if !e.report(r, key, pos) {
			r.Count("schedules", 1)
			continue
		}
		r.Count("schedules", 1)
		want := bitsForm("k", 256, "G")
		ok := len(rets) >= 1
		detail := fmt.Sprintf("%d abstract result states", len(rets))
		for _, rt := range rets {
			got, isP := rt.st.form(rt.vals[0])
			_, nilErr := rt.vals[1].(sNil)
			if !isP || !nilErr {
				ok, detail = false, "the 32-byte path does not return (point, nil)"
				break
			}
			if !pfEqual(got, want) && !rt.st.allZero(pfDiffAtoms(want, got)) && !rt.st.nullDiff(want, got) {
				ok, detail = false, describeDiff(want, got)
				break
			}
		}
		if ok {
			detail += fmt.Sprintf("; result form is sum 2^i * k_i * G, i = 0..255 (%d abstract steps)", e.steps)
		}
		r.Check(ok, "SCHEDULE", key, pos, "for every 32-byte k the result is [k]G: "+detail)
	}
	// T3: [g]G + [s]P
	if fn := p.MustFunc(r, "sm2/internal.ScalarMixedMult_Unsafe"); fn != nil {
		key, pos := "sm2/internal.ScalarMixedMult_Unsafe", p.Pos(fn.Pos())
		e := newSched(p, tables)
		st := newSState()
		pid := e.newID()
		st.heap[pid] = &hPoint{form: pform{pfKey("", "P"): big.NewInt(1)}}
		rets := e.runFunc(fn, st, []sVal{sBytes{name: "g", n: 32}, sPoint{pid}, sBytes{name: "t", n: 32}})
		r.Count("schedules", 1)
		if e.report(r, key, pos) {
			want := bitsForm("g", 256, "G")
			nd := 0
			for a := range e.assume {
				if strings.Contains(a, "DecomposeNAF(") {
					nd++
				}
			}
			for i := 0; i < 257; i++ {
				want[pfKey(fmt.Sprintf("d:t:%d", i), "P")] = pow2(uint(i))
			}
			ok := len(rets) >= 1 && nd == 1
			detail := fmt.Sprintf("%d abstract result states", len(rets))
			for _, rt := range rets {
				got, isP := rt.st.form(rt.vals[0])
				_, nilErr := rt.vals[1].(sNil)
				if !isP || !nilErr {
					ok, detail = false, "a path does not return (point, nil)"
					break
				}
				if at := pfDiffAtoms(want, got); !rt.st.allZero(at) && len(at) > 0 && !rt.st.nullDiff(want, got) {
					ok, detail = false, describeDiff(want, got)
					break
				}
			}
			if ok {
				detail += fmt.Sprintf("; each equals sum 2^i g_i G + sum 2^i d_i P up to symbols known to be zero on that path (%d abstract steps)", e.steps)
			}
			r.Check(ok, "SCHEDULE", key, pos, "for all 32-byte g and recoded digits d of s the result is [g]G + [sum d_i 2^i]P: "+detail)
		}
		for a := range e.assume {
			r.Note("assumption used by C14: %s", a)
		}
	}
	// T2: [k]P for a scalar of any length
	c14ScalarMult(r, p, tables)
	r.Floor("schedules", 4)
	// the selection primitive the evaluation above summarises
	c14Select(r, p)
}

func c14ScalarMult(r *Report, p *Prog, tables map[string]*tabSem) {
	fn := p.MustFunc(r, "sm2/internal.ScalarMult")
	if fn == nil {
		return
	}
	key, pos := "sm2/internal.ScalarMult", p.Pos(fn.Pos())
	r.Count("schedules", 1)
	// the loop header whose condition depends on len(scalar)
	var header *ssa.BasicBlock
	for _, b := range fn.Blocks {
		back := false
		for _, pr := range b.Preds {
			if b.Dominates(pr) {
				back = true
			}
		}
		if !back {
			continue
		}
		if iff, ok := b.Instrs[len(b.Instrs)-1].(*ssa.If); ok {
			if bo, ok := iff.Cond.(*ssa.BinOp); ok {
				for _, op := range []ssa.Value{bo.X, bo.Y} {
					if call, ok := op.(*ssa.Call); ok {
						if bi, ok := call.Call.Value.(*ssa.Builtin); ok && bi.Name() == "len" && call.Call.Args[0] == ssa.Value(fn.Params[1]) {
							header = b
						}
					}
				}
			}
		}
	}
	var retVal ssa.Value
	for _, b := range fn.Blocks {
		if ret, ok := b.Instrs[len(b.Instrs)-1].(*ssa.Return); ok && len(retVals(ret)) == 2 {
			if c, isC := retVals(ret)[1].(*ssa.Const); isC && c.IsNil() {
				retVal = retVals(ret)[0]
			}
		}
	}
	if header == nil || retVal == nil {
		// the loop is not a loop over the bytes of the scalar (digits, merged counters, ...): no induction; the schedule is
		// evaluated instead for every scalar length a caller can reasonably pass, each for all byte values
		c14ScalarMultUnrolled(r, p, tables, fn)
		return
	}
	mk := func() (*sched, *sState) {
		e := newSched(p, tables)
		e.frames = []*ssa.Function{fn}
		st := newSState()
		pid := e.newID()
		st.heap[pid] = &hPoint{form: pform{pfKey("", "P"): big.NewInt(1)}}
		for i, prm := range fn.Params {
			st.vals[prm] = []sVal{sPoint{pid}, sBytes{name: "scalar", n: -1}}[i]
		}
		return e, st
	}
	byteForm := func(i int) pform {
		f := pform{}
		for t := 0; t < 8; t++ {
			f[pfKey(fmt.Sprintf("scalar[%d].%d", i, t), "P")] = pow2(uint(t))
		}
		return f
	}
	// run 0: empty scalar
	e0, st0 := mk()
	e0.forced = []bool{false}
	fr0 := &sFrame{fn: fn}
	e0.execFrom(fr0, []*sState{st0}, fn.Blocks[0], nil, nil, false)
	if !e0.report(r, key+" (empty scalar)", pos) {
		return
	}
	ok0 := len(fr0.rets) == 1
	if ok0 {
		got, isP := fr0.rets[0].st.form(fr0.rets[0].vals[0])
		ok0 = isP && len(got) == 0
	}
	r.Check(ok0, "SCHEDULE", key+" base case", pos, "with no bytes the result is the point at infinity = [0]P")
	// run A: first iteration
	eA, stA := mk()
	eA.forced = []bool{true}
	eA.stopAt = header
	frA := &sFrame{fn: fn}
	eA.execFrom(frA, []*sState{stA}, fn.Blocks[0], nil, nil, false)
	if !eA.report(r, key+" (first byte)", pos) {
		return
	}
	if len(eA.stopped) != 1 {
		r.Viol("SCHEDULE", key+" first iteration", pos, fmt.Sprintf("%d abstract states after the first iteration (1 expected)", len(eA.stopped)))
		return
	}
	sA := eA.stopped[0]
	gotA, isP := sA.form(eA.get(sA, retVal))
	r.Check(isP && pfEqual(gotA, byteForm(0)), "SCHEDULE", key+" first iteration", pos, "after the first byte b the accumulator is [b]P"+ifs(isP && !pfEqual(gotA, byteForm(0)), ": "+describeDiff(byteForm(0), gotA)))
	if !isP {
		return
	}
	// run B: generic later iteration: accumulator = R
	retPt := eA.get(sA, retVal).(sPoint)
	sB := sA.clone()
	sB.heap[retPt.id] = &hPoint{form: pform{pfKey("", "R"): big.NewInt(1)}}
	before := map[int]pform{}
	for id, h := range sB.heap {
		if hp, ok := h.(*hPoint); ok && id != retPt.id {
			before[id] = hp.form
		}
	}
	eB := newSched(p, tables)
	eB.frames = []*ssa.Function{fn}
	eB.nextID = eA.nextID
	eB.forced = []bool{true}
	eB.stopAt = header
	frB := &sFrame{fn: fn}
	eB.execFrom(frB, []*sState{sB}, header, nil, nil, true)
	if !eB.report(r, key+" (later byte)", pos) {
		return
	}
	if len(eB.stopped) != 1 {
		r.Viol("SCHEDULE", key+" later iteration", pos, fmt.Sprintf("%d abstract states after a later iteration (1 expected)", len(eB.stopped)))
		return
	}
	sB2 := eB.stopped[0]
	gotB, _ := sB2.form(eB.get(sB2, retVal))
	wantB := pfAdd(pform{pfKey("", "R"): big.NewInt(256)}, byteForm(1))
	r.Check(pfEqual(gotB, wantB), "SCHEDULE", key+" later iteration", pos, "one iteration maps the accumulator R to [256]R + [b]P (Horner step for big-endian bytes)"+ifs(!pfEqual(gotB, wantB), ": "+describeDiff(wantB, gotB)))
	inv := true
	for id, f0 := range before {
		if hp, ok := sB2.heap[id].(*hPoint); !ok || !pfEqual(hp.form, f0) {
			inv = false
		}
	}
	r.Check(inv, "SCHEDULE", key+" loop-invariant table", pos, fmt.Sprintf("%d precomputed points are not modified by an iteration", len(before)))
	// run C: exit returns the accumulator
	sC := sB2.clone()
	eC := newSched(p, tables)
	eC.frames = []*ssa.Function{fn}
	eC.nextID = eB.nextID
	eC.forced = []bool{false}
	frC := &sFrame{fn: fn}
	eC.execFrom(frC, []*sState{sC}, header, nil, nil, true)
	okC := len(eC.errs) == 0 && len(frC.rets) == 1
	if okC {
		got, isP := frC.rets[0].st.form(frC.rets[0].vals[0])
		_, nilErr := frC.rets[0].vals[1].(sNil)
		okC = isP && nilErr && pfEqual(got, gotB)
	}
	r.Check(okC, "SCHEDULE", key+" result", pos, "after the last byte the accumulator is returned unchanged with a nil error; by induction the result is [sum 256^(n-1-i) scalar[i]]P for every length n")
}

// c14Select: SELECT-SEMANTICS. The constant-time table selection that the schedule evaluation summarises is itself
// evaluated for every index value: the table limbs are arbitrary words, the index is concrete, so every mask is a concrete
// all-ones / zero word and the result limbs must be exactly the limbs of entry index-1 (index 0: the receiver is kept);
// for the affine variant Z becomes the constant one.
func c14Select(r *Report, p *Prog) {
	// the exported entry points are evaluated (whatever helper they share is followed from there)
	fnXY := p.MustFunc(r, "sm2/internal.(*SM2Point).MultiSelectXY")
	fnXYZ := p.MustFunc(r, "sm2/internal.(*SM2Point).MultiSelectXYZ")
	if fnXY == nil || fnXYZ == nil {
		return
	}
	pos := p.Pos(fnXY.Pos())
	type cfg struct {
		hasZ  bool
		width int
	}
	cfgs := []cfg{{false, 1}, {false, 15}, {false, 31}, {false, 63}, {false, 127}, {true, 15}}
	type outc struct {
		bad  []string
		runs int
	}
	results := make([]outc, len(cfgs))
	var wg sync.WaitGroup
	for ci, c := range cfgs {
		wg.Add(1)
		go func(ci int, c cfg) {
			defer wg.Done()
			defer func() {
				if x := recover(); x != nil {
					results[ci].bad = append(results[ci].bad, fmt.Sprintf("analysis panic: %v", x))
				}
			}()
			rows := 2
			if c.hasZ {
				rows = 3
			}
			coord := []string{"x", "y", "z"}
			for bits := 0; bits <= c.width; bits++ {
				e := newSched(p, map[string]*tabSem{})
				e.globals = map[string]sVal{}
				st := newSState()
				word := func(name string) sVal { return sWord{name} }
				newLimbs := func(prefix string) int {
					id := e.newID()
					a := &hArray{elems: make([]sVal, 4)}
					for l := range a.elems {
						a.elems[l] = word(fmt.Sprintf("%s[%d]", prefix, l))
					}
					st.heap[id] = a
					return id
				}
				newElem := func(prefix string) int { // SM2Element{x [4]uint64}
					limbs := newLimbs(prefix)
					id := e.newID()
					st.heap[id] = &hArray{elems: []sVal{sPtr{limbs, -1}}}
					return id
				}
				// the receiver point q = {x, y, z *SM2Element}
				qid := e.newID()
				q := &hArray{elems: make([]sVal, 3)}
				elemOf := map[string]int{}
				for f, cn := range coord {
					eid := newElem("q." + cn)
					elemOf[cn] = eid
					q.elems[f] = sPtr{eid, -1}
				}
				st.heap[qid] = q
				// sm2ElementOne
				oneElem := newElem("one")
				oneCell := e.newID()
				st.heap[oneCell] = &hArray{elems: []sVal{sPtr{oneElem, -1}}}
				e.globals["sm2ElementOne"] = sPtr{oneCell, 0}
				// the table: rows x width pointers to limb arrays
				rowsID := e.newID()
				rowsArr := &hArray{elems: make([]sVal, rows)}
				for cIdx := 0; cIdx < rows; cIdx++ {
					rid := e.newID()
					row := &hArray{elems: make([]sVal, c.width)}
					for i := 0; i < c.width; i++ {
						row.elems[i] = sPtr{newLimbs(fmt.Sprintf("T.%s[%d]", coord[cIdx], i)), -1}
					}
					st.heap[rid] = row
					rowsArr.elems[cIdx] = sSlice{rid, 0, c.width}
				}
				st.heap[rowsID] = rowsArr
				cell := e.newID()
				st.heap[cell] = &hArray{elems: []sVal{sSlice{rowsID, 0, rows}}}
				fn := fnXY
				if c.hasZ {
					fn = fnXYZ
				}
				rets := e.runFunc(fn, st, []sVal{sPtr{qid, -1}, sPtr{cell, 0}, sInt{big.NewInt(int64(c.width))}, sInt{big.NewInt(int64(bits))}})
				results[ci].runs++
				if len(e.errs) > 0 || len(e.panics) > 0 || len(rets) != 1 {
					results[ci].bad = append(results[ci].bad, fmt.Sprintf("index %d: %s", bits, strings.Join(append(append([]string{}, e.errs...), e.panics...), "; ")+ifs(len(rets) != 1, fmt.Sprintf(" (%d return paths)", len(rets)))))
					if len(results[ci].bad) > 3 {
						return
					}
					continue
				}
				fin := rets[0].st
				for _, cn := range coord {
					el := fin.heap[elemOf[cn]].(*hArray)
					limbs := fin.heap[el.elems[0].(sPtr).id].(*hArray)
					for l := 0; l < 4; l++ {
						want := fmt.Sprintf("q.%s[%d]", cn, l)
						if bits >= 1 {
							if cn == "z" && !c.hasZ {
								want = fmt.Sprintf("one[%d]", l)
							} else {
								want = fmt.Sprintf("T.%s[%d][%d]", cn, bits-1, l)
							}
						}
						got := fmt.Sprint(limbs.elems[l])
						if w, ok := limbs.elems[l].(sWord); ok {
							got = w.name
						}
						if got != want && len(results[ci].bad) < 4 {
							results[ci].bad = append(results[ci].bad, fmt.Sprintf("index %d: %s limb %d is %s, required %s", bits, cn, l, got, want))
						}
					}
				}
			}
		}(ci, c)
	}
	wg.Wait()
	for ci, c := range cfgs {
		name := "MultiSelectXY"
		if c.hasZ {
			name = "MultiSelectXYZ"
		}
		key := fmt.Sprintf("sm2/internal.(*SM2Point).%s width %d", name, c.width)
		res := results[ci]
		r.Count("select_evaluations", res.runs)
		r.Check(len(res.bad) == 0, "SELECT-SEMANTICS", key, pos, fmt.Sprintf("for each of the %d index values the result is the receiver (index 0) or exactly the limbs of entry index-1 with %s, for arbitrary table words", c.width+1, ifs(c.hasZ, "Z from the table")+ifs(!c.hasZ, "Z = one"))+ifs(len(res.bad) > 0, ": "+strings.Join(res.bad, "; ")))
	}
	r.Floor("select_evaluations", 100)
}

// c14ScalarMultUnrolled: ScalarMult for scalar lengths 0..34, 48 and 64, each for all byte values (the scalar bytes are
// vectors of bit symbols): the result must be [sum 2^i scalar_i] P.
func c14ScalarMultUnrolled(r *Report, p *Prog, tables map[string]*tabSem, fn *ssa.Function) {
	key, pos := "sm2/internal.ScalarMult", p.Pos(fn.Pos())
	var lens []int
	for n := 0; n <= 34; n++ {
		lens = append(lens, n)
	}
	lens = append(lens, 48, 64)
	bad := ""
	steps := 0
	for _, n := range lens {
		e := newSched(p, tables)
		st := newSState()
		pid := e.newID()
		st.heap[pid] = &hPoint{form: pform{pfKey("", "P"): big.NewInt(1)}}
		rets := e.runFunc(fn, st, []sVal{sPoint{pid}, sBytes{name: "scalar", n: n}})
		steps += e.steps
		if !e.report(r, fmt.Sprintf("%s (%d-byte scalar)", key, n), pos) {
			return
		}
		want := bitsForm("scalar", 8*n, "P")
		if len(rets) == 0 {
			bad = fmt.Sprintf("no result for a %d-byte scalar", n)
			break
		}
		for _, rt := range rets {
			got, isP := rt.st.form(rt.vals[0])
			_, nilErr := rt.vals[1].(sNil)
			if !isP || !nilErr {
				bad = fmt.Sprintf("the %d-byte path does not return (point, nil)", n)
				break
			}
			if !pfEqual(got, want) && !rt.st.allZero(pfDiffAtoms(want, got)) && !rt.st.nullDiff(want, got) {
				bad = fmt.Sprintf("%d-byte scalar: %s", n, describeDiff(want, got))
				break
			}
		}
		if bad != "" {
			break
		}
	}
	r.Check(bad == "", "SCHEDULE", key+" (lengths 0..34, 48, 64)", pos, fmt.Sprintf("the loop is not a byte loop, so no induction over the length: for each of %d scalar lengths and all byte values the result is [sum 2^i scalar_i]P (%d abstract steps)", len(lens), steps)+ifs(bad != "", ": "+bad))
	r.Note("C14 ScalarMult: decided per scalar length (0..34, 48, 64 bytes), not by induction over the length: the loop of this tree is not a loop over the bytes of the scalar")
}
