package main

import (
	"fmt"
	"go/token"
	"go/types"
	"strings"

	"golang.org/x/tools/go/ssa"
)

// checkC09Glue: G2 on the Go glue of the accelerated path ("the whole of GCM sealing and opening"): the contents of every
// []byte parameter and of the round-key arrays are secret; lengths, tagSize, nonceSize are public. Assembler routines
// contribute their A3 may-write sets and A2 result summaries (public result / verdict result).
func checkC09Glue(c *Ctx, r *Report) {
	for _, arch := range []string{"amd64", "arm64"} {
		u, p := loadAsmBound(c, r, arch)
		if u == nil {
			return
		}
		asmW, probs := AsmMayWrite(u, p)
		for _, pr := range probs {
			r.Fatalf("[%s] %s", arch, pr)
		}
		asmRes := map[string]string{}
		for _, rt := range u.Routines {
			if !rt.HasDecl {
				continue
			}
			hasRes := false
			for _, s := range rt.Slots {
				if s.Part == "ret" {
					hasRes = true
				}
			}
			if !hasRes {
				continue
			}
			f := AnalyzeFlow(rt)
			verdict := false
			for _, br := range f.TaintedBranch {
				if ok, _ := f.VerdictCheck(br); ok && len(f.TaintedBranch) == 1 {
					verdict = true
				}
			}
			switch {
			case verdict:
				asmRes[rt.Name] = "verdict"
			case len(f.ResultTainted) == 0 && len(f.TaintedBranch) == 0:
				asmRes[rt.Name] = "public"
			}
		}
		t := NewTaint(p)
		t.asmWrite, t.asmResult = asmW, asmRes
		// the AEAD / cipher objects hold the round keys (secret) next to their configuration: integer fields of the receiver
		// (tagSize, nonceSize) are public
		t.publicLoad = func(ld *ssa.UnOp) bool {
			fa, ok := ld.X.(*ssa.FieldAddr)
			if !ok {
				return false
			}
			b, isB := ld.Type().Underlying().(*types.Basic)
			if !isB || b.Info()&types.IsInteger == 0 {
				return false
			}
			prm, isP := fa.X.(*ssa.Parameter)
			return isP && prm.Parent() != nil && prm.Parent().Signature.Recv() != nil && len(prm.Parent().Params) > 0 && prm.Parent().Params[0] == prm
		}
		seeds := map[*ssa.Function]lbl{}
		inScope := func(fn *ssa.Function) bool {
			if fn.Pkg == nil || shortPkg(fn.Pkg.Pkg.Path()) != "sm4" || len(fn.Blocks) == 0 {
				return false
			}
			file := p.Fset.Position(fn.Pos()).Filename
			return strings.HasSuffix(file, "sm4_gcm_amd64.go") || strings.HasSuffix(file, "sm4_gcm_arm64.go") || strings.HasSuffix(file, "sm4_asm.go") || strings.HasSuffix(file, "sm4_asm_arm64.go") || strings.HasSuffix(file, "sm4_asm_amd64.go") || strings.HasSuffix(file, "sm4_gcm.go")
		}
		nf := 0
		for _, fn := range p.RepoFuncs() {
			if !inScope(fn) {
				continue
			}
			nf++
			for i, prm := range fn.Params {
				if isByteSlice(prm.Type()) {
					seeds[fn] |= paramBit(i)
				}
				// the cipher object carries the round keys
				if i == 0 && fn.Signature.Recv() != nil {
					seeds[fn] |= paramBit(0)
				}
				if sl, ok := prm.Type().Underlying().(*types.Slice); ok {
					if b, ok := sl.Elem().Underlying().(*types.Basic); ok && b.Kind() == types.Uint32 {
						seeds[fn] |= paramBit(i)
					}
				}
			}
		}
		act := t.Solve(seeds)
		r.Count("glue_functions_"+arch, nf)
		ord := map[string]int{}
		for _, fn := range p.RepoFuncs() {
			if !inScope(fn) {
				continue
			}
			name := p.FuncName(fn)
			clean := true
			for _, s := range act.ActiveSinks(fn) {
				// configuration fields of the AEAD object (tagSize, nonceSize) are public although the object also holds the round keys:
				// a sink whose value is a load of such a field is not a secret-dependent sink
				if sinkOnPublicField(s) {
					continue
				}
				if s.kind == skBranch && s.verdictValue {
					r.Ok("VERDICT-SITE", fmt.Sprintf("[%s] %s", arch, name), p.InstrPos(s.instr), "branch on the tag-match verdict")
					continue
				}
				if s.kind == skExternal && strings.Contains(s.detail, "crypto/subtle") {
					continue
				}
				k := name + string(s.kind) + shortInstr(s.instr)
				ord[k]++
				r.Viol(string(s.kind), fmt.Sprintf("[%s glue] %s %s#%d", arch, name, shortInstr(s.instr), ord[k]), p.InstrPos(s.instr), s.detail+" (Go glue of the accelerated path; via "+t.describeLabels(fn, s.labels)+")")
				clean = false
			}
			// the accelerated path must not hand secret data to code outside it that branches or indexes on it (the portable
			// table-driven cipher): a static call from the glue to such a function is a sink at the call site, unless the
			// call is the documented fallback behind "no assembler support" (dominated by the false side of candoAsm)
			for _, b := range fn.Blocks {
				for _, in := range b.Instrs {
					call, ok := in.(ssa.CallInstruction)
					if !ok {
						continue
					}
					g := call.Common().StaticCallee()
					if g == nil || !isRepoFunc(g) || inScope(g) || len(g.Blocks) == 0 {
						continue
					}
					sink, where := firstSinkBelow(act, g, inScope, map[*ssa.Function]bool{})
					if sink == nil || fallbackOnly(b) {
						continue
					}
					k := name + "call" + g.Name()
					ord[k]++
					r.Viol("TAINTED-TO-TABLE-CODE", fmt.Sprintf("[%s glue] %s calls %s#%d", arch, name, p.FuncName(g), ord[k]), p.InstrPos(in), fmt.Sprintf("the accelerated path hands secret data to %s, where %s: %s", p.FuncName(where), string(sink.kind), sink.detail))
					clean = false
				}
			}
			if clean {
				r.Ok("GLUE-NO-SECRET-DEPENDENT-CONTROL-OR-ADDRESS", fmt.Sprintf("[%s] %s", arch, name), p.Pos(fn.Pos()), "no branch, index or allocation size depends on key/plaintext/ciphertext/nonce/aad bytes")
			}
		}
	}
	r.Floor("glue_functions_amd64", 3)
	r.Floor("glue_functions_arm64", 6)
}

// sinkOnPublicField: the sink's operand is (derived only from) loads of int-typed configuration fields / lengths.
func sinkOnPublicField(s tSink) bool {
	var v ssa.Value
	switch x := s.instr.(type) {
	case *ssa.If:
		v = x.Cond
	case *ssa.IndexAddr:
		v = x.Index
	case *ssa.Slice:
		ok := true
		for _, b := range []ssa.Value{x.Low, x.High, x.Max} {
			if b != nil && !publicIntExpr(b, 0) {
				ok = false
			}
		}
		return ok
	case *ssa.MakeSlice:
		return publicIntExpr(x.Len, 0) && publicIntExpr(x.Cap, 0)
	case *ssa.BinOp:
		return publicIntExpr(x.X, 0) && publicIntExpr(x.Y, 0)
	default:
		return false
	}
	return publicIntExpr(v, 0)
}

func publicIntExpr(v ssa.Value, d int) bool {
	if d > 12 {
		return false
	}
	switch x := v.(type) {
	case *ssa.Const:
		return true
	case *ssa.Parameter:
		_, isInt := x.Type().Underlying().(*types.Basic)
		return isInt
	case *ssa.BinOp:
		return publicIntExpr(x.X, d+1) && publicIntExpr(x.Y, d+1)
	case *ssa.UnOp:
		if fa, ok := x.X.(*ssa.FieldAddr); ok {
			n := fieldName(fa)
			if b, isB := x.Type().Underlying().(*types.Basic); isB && b.Info()&types.IsInteger != 0 && (n == "tagSize" || n == "nonceSize") {
				return true
			}
			return false
		}
		if x.Op.String() == "!" || x.Op.String() == "-" {
			return publicIntExpr(x.X, d+1)
		}
		return false
	case *ssa.Convert:
		return publicIntExpr(x.X, d+1)
	case *ssa.Phi:
		for _, e := range x.Edges {
			if !publicIntExpr(e, d+1) {
				return false
			}
		}
		return true
	case *ssa.Call:
		if b, ok := x.Call.Value.(*ssa.Builtin); ok && (b.Name() == "len" || b.Name() == "cap") {
			return true
		}
		return false
	}
	return false
}

// firstSinkBelow: a secret-dependent sink in g or in a repository function g calls (outside the glue), as activated by the
// taint solution
func firstSinkBelow(act *Activation, g *ssa.Function, inScope func(*ssa.Function) bool, seen map[*ssa.Function]bool) (*tSink, *ssa.Function) {
	if seen[g] || len(seen) > 200 {
		return nil, nil
	}
	seen[g] = true
	for _, s := range act.ActiveSinks(g) {
		if s.kind == skBranch && s.verdictValue {
			continue
		}
		sk := s
		return &sk, g
	}
	for _, b := range g.Blocks {
		for _, in := range b.Instrs {
			if c, ok := in.(ssa.CallInstruction); ok {
				if h := c.Common().StaticCallee(); h != nil && isRepoFunc(h) && !inScope(h) && len(h.Blocks) > 0 {
					if s, w := firstSinkBelow(act, h, inScope, seen); s != nil {
						return s, w
					}
				}
			}
		}
	}
	return nil, nil
}

// fallbackOnly: the block is reached only where the package-level switch candoAsm is false
func fallbackOnly(b *ssa.BasicBlock) bool {
	for _, ec := range edgeConds(b) {
		v := ec.If.Cond
		neg := false
		if u, ok := v.(*ssa.UnOp); ok && u.Op == token.NOT {
			v, neg = u.X, true
		}
		ld, ok := v.(*ssa.UnOp)
		if !ok || ld.Op != token.MUL {
			continue
		}
		if g, ok := ld.X.(*ssa.Global); ok && g.Name() == "candoAsm" {
			if ec.Truth == neg {
				return true
			}
		}
	}
	return false
}
