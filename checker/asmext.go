package main

// Engine A4: access extents of assembler routines.
// Forward abstract interpretation of the general-purpose registers over affine forms (lin.go) with branch facts,
// loop induction variables (constant per-iteration deltas, an iteration symbol per loop, first/later iteration split),
// quotient/remainder symbols for SHR/AND, and a set of path states per block (no lossy joins).
// Every memory access yields an extent relative to a parameter base which must lie inside the routine's contract;
// slice parameters that are streamed must be consumed exactly (pointer ends at base+len on every path).

import (
	"fmt"
	"os"
	"sort"
	"strings"
)

type xBlock struct {
	id         int
	start, end int // instruction index range [start, end)
	succ, pred []int
}

type xLoop struct {
	header int
	blocks map[int]bool
	back   []int // back-edge source blocks
	id     int
}

type xState struct {
	regs       map[string]*Lin // nil entry = unknown
	facts      []Fact
	cmpA, cmpB *Lin            // last compare operands (flags), nil if flags unknown
	moved      map[string]bool // pointer registers (by base param) that were advanced on this path
	trail      string
	stored     []xStore           // extents stored so far on this path (for the exact-overlap rule)
	scr        map[string][]uint8 // scratch parameter -> per-byte status (scrZ..scrS), see scratchAccess
	testV      *Lin               // operand of the last single-bit TEST (flags), nil otherwise
	testBit    int                // the tested bit
	cov        map[string]*Lin    // streamed parameter accessed through base+index: length of the prefix accessed so far without a gap
}

type xStore struct {
	param string
	off   *Lin
	w     int64
	at    *Instr
}

func (s *xState) clone() *xState {
	t := &xState{regs: map[string]*Lin{}, facts: append([]Fact(nil), s.facts...), cmpA: s.cmpA, cmpB: s.cmpB, moved: map[string]bool{}, trail: s.trail, stored: append([]xStore(nil), s.stored...), testV: s.testV, testBit: s.testBit}
	if s.cov != nil {
		t.cov = map[string]*Lin{}
		for k, v := range s.cov {
			t.cov[k] = v
		}
	}
	if s.scr != nil {
		t.scr = map[string][]uint8{}
		for k, v := range s.scr {
			t.scr[k] = append([]uint8(nil), v...)
		}
	}
	for k, v := range s.regs {
		t.regs[k] = v
	}
	for k := range s.moved {
		t.moved[k] = true
	}
	return t
}

func (s *xState) regKey() string {
	var ks []string
	for k, v := range s.regs {
		if v != nil {
			ks = append(ks, k+"="+v.String())
		}
	}
	sort.Strings(ks)
	c := ""
	if s.cmpA != nil && s.cmpB != nil {
		c = s.cmpA.String() + "?" + s.cmpB.String()
	}
	var ms []string
	for k := range s.moved {
		ms = append(ms, k)
	}
	sort.Strings(ms)
	if s.testV != nil {
		c += fmt.Sprintf("|test %s bit %d", s.testV.String(), s.testBit)
	}
	var cs []string
	for k, v := range s.cov {
		cs = append(cs, k+"="+v.String())
	}
	sort.Strings(cs)
	return strings.Join(ks, ";") + "|" + c + "|" + strings.Join(ms, ",") + "|" + strings.Join(cs, ",")
}

func (s *xState) key() string {
	var ks []string
	for k, v := range s.regs {
		if v != nil {
			ks = append(ks, k+"="+v.String())
		}
	}
	sort.Strings(ks)
	var fs []string
	for _, f := range s.facts {
		fs = append(fs, factStr(f))
	}
	sort.Strings(fs)
	c := ""
	if s.cmpA != nil && s.cmpB != nil {
		c = s.cmpA.String() + "?" + s.cmpB.String()
	}
	return strings.Join(ks, ";") + "|" + strings.Join(fs, ";") + "|" + c
}

func factStr(f Fact) string {
	switch {
	case f.Eq:
		return f.E.String() + " == 0"
	case f.Ne:
		return f.E.String() + " != 0"
	}
	return f.E.String() + " >= 0"
}

type xAccess struct {
	instr  *Instr
	mem    MemAcc
	width  int
	param  string // base parameter ("" = symbol / frame)
	off    *Lin
	status int // 1 proved, -1 refuted, 0 unproved
	detail string
}

type xContract struct {
	size       map[string]*Lin   // pointer parameter -> guaranteed bytes (over the routine's scalar symbols); slices: "<p>.len" implicitly
	pre        []Fact            // preconditions on scalar parameters
	consumeSet map[string][]*Lin // streamed parameter -> allowed total advances at the end of a phase
	mayBeNil   map[string]bool
	overlap    map[string][]string // source parameter -> destination parameters that may alias it exactly (in-place operation)
	scratch    map[string]int      // scratch parameter -> size: zero on entry (a fresh local of the Go caller), staged and re-used
}

type xResult struct {
	overlaps       []Obligation
	scratchObl     []Obligation
	scratchLoads   int
	overlapChecked int
	r              *Routine
	accesses       map[int]*xAccess // by instruction index (worst status over states)
	consumption    []Obligation
	states         int
	problems       []string
	maxStates      int
}

type xAnalysis struct {
	r         *Routine
	flow      *FlowResult
	blocks    []*xBlock
	blockOf   []int
	idom      []int
	loops     map[int]*xLoop // by header block
	contract  *xContract
	res       *xResult
	symN      int
	rpo       []int
	dataSize  map[string]int
	recording bool
	trackExit bool
	liveIn    []map[string]bool
	exitFrom  map[*xState]exitInfo
}

func (a *xAnalysis) fresh(prefix string) string {
	a.symN++
	return fmt.Sprintf("%s%d", prefix, a.symN)
}

// ---------------- CFG ----------------

func (a *xAnalysis) buildBlocks() {
	r := a.r
	n := len(r.Instrs)
	leader := make([]bool, n)
	leader[0] = true
	for i, in := range r.Instrs {
		k := branchKind(r.Arch, in.Op)
		if k != brNone {
			for _, s := range in.Succ {
				leader[s] = true
			}
			if i+1 < n {
				leader[i+1] = true
			}
		}
	}
	a.blockOf = make([]int, n)
	for i := 0; i < n; {
		j := i + 1
		for j < n && !leader[j] {
			j++
		}
		b := &xBlock{id: len(a.blocks), start: i, end: j}
		for k := i; k < j; k++ {
			a.blockOf[k] = b.id
		}
		a.blocks = append(a.blocks, b)
		i = j
	}
	for _, b := range a.blocks {
		last := r.Instrs[b.end-1]
		for _, s := range last.Succ {
			sb := a.blockOf[s]
			b.succ = append(b.succ, sb)
			a.blocks[sb].pred = append(a.blocks[sb].pred, b.id)
		}
	}
}

func (a *xAnalysis) computeDominators() {
	n := len(a.blocks)
	// reverse postorder
	seen := make([]bool, n)
	var post []int
	var dfs func(int)
	dfs = func(b int) {
		seen[b] = true
		for _, s := range a.blocks[b].succ {
			if !seen[s] {
				dfs(s)
			}
		}
		post = append(post, b)
	}
	dfs(0)
	a.rpo = nil
	for i := len(post) - 1; i >= 0; i-- {
		a.rpo = append(a.rpo, post[i])
	}
	order := make([]int, n)
	for i := range order {
		order[i] = -1
	}
	for i, b := range a.rpo {
		order[b] = i
	}
	idom := make([]int, n)
	for i := range idom {
		idom[i] = -1
	}
	idom[0] = 0
	changed := true
	for changed {
		changed = false
		for _, b := range a.rpo[1:] {
			newI := -1
			for _, p := range a.blocks[b].pred {
				if idom[p] == -1 {
					continue
				}
				if newI == -1 {
					newI = p
					continue
				}
				x, y := p, newI
				for x != y {
					for order[x] > order[y] {
						x = idom[x]
					}
					for order[y] > order[x] {
						y = idom[y]
					}
				}
				newI = x
			}
			if newI != idom[b] {
				idom[b] = newI
				changed = true
			}
		}
	}
	a.idom = idom
}

func (a *xAnalysis) dominates(d, b int) bool {
	for {
		if b == d {
			return true
		}
		if b == 0 || a.idom[b] == b || a.idom[b] < 0 {
			return false
		}
		b = a.idom[b]
	}
}

func (a *xAnalysis) findLoops() {
	a.loops = map[int]*xLoop{}
	for _, b := range a.blocks {
		if a.idom[b.id] < 0 && b.id != 0 {
			continue
		}
		for _, s := range b.succ {
			if a.dominates(s, b.id) {
				l := a.loops[s]
				if l == nil {
					l = &xLoop{header: s, blocks: map[int]bool{s: true}, id: len(a.loops) + 1}
					a.loops[s] = l
				}
				l.back = append(l.back, b.id)
				// natural loop body
				stack := []int{b.id}
				for len(stack) > 0 {
					x := stack[len(stack)-1]
					stack = stack[:len(stack)-1]
					if l.blocks[x] {
						continue
					}
					l.blocks[x] = true
					stack = append(stack, a.blocks[x].pred...)
				}
			}
		}
	}
}

// ---------------- transfer ----------------

func baseTerm(p string) string { return "&" + p }

func (a *xAnalysis) paramSym(sl ParamSlot) *Lin {
	switch sl.Part {
	case "ptr":
		return linTerm(baseTerm(sl.Param), true)
	case "len":
		return linTerm(sl.Param+".len", true)
	case "cap":
		return linTerm(sl.Param+".cap", true)
	}
	return linTerm(sl.Param, false)
}

func tighten(f Fact) Fact {
	// integer tightening: all term coefficients divisible by g > 1  =>  divide and floor the constant
	if f.Eq || f.Ne || len(f.E.T) == 0 {
		return f
	}
	g := int64(0)
	for _, c := range f.E.T {
		if c < 0 {
			c = -c
		}
		g = gcd64(g, c)
	}
	if g <= 1 {
		return f
	}
	e := linConst(floorDiv(f.E.C, g))
	for k, c := range f.E.T {
		e.T[k] = c / g
	}
	for k := range f.E.NonNeg {
		e.NonNeg[k] = true
	}
	f.E = e
	return f
}

func gcd64(a, b int64) int64 {
	for b != 0 {
		a, b = b, a%b
	}
	return a
}
func floorDiv(a, b int64) int64 {
	q := a / b
	if (a%b != 0) && ((a < 0) != (b < 0)) {
		q--
	}
	return q
}

func (s *xState) addFact(e *Lin, eq bool) {
	f := tighten(Fact{E: e, Eq: eq})
	if !eq && f.E.triviallyNonNeg() {
		return
	}
	for _, o := range s.facts {
		if o.Eq == f.Eq && o.Ne == f.Ne && o.E.Equal(f.E) {
			return
		}
	}
	s.facts = append(s.facts, f)
	if !eq {
		s.roundQuotients()
	}
	if !eq {
		// E >= 0 together with an earlier E != 0 (or -E != 0) gives E >= 1
		for _, o := range s.facts {
			if !o.Ne {
				continue
			}
			if o.E.Equal(f.E) || o.E.Scale(-1).Equal(f.E) {
				s.facts = append(s.facts, Fact{E: f.E.Add(linConst(-1))})
				break
			}
		}
	}
}

func (a *xAnalysis) operandVal(s *xState, o Operand) *Lin {
	switch o.Kind {
	case OImm:
		return linConst(o.Imm)
	case OReg:
		if isGPR(o.Reg) {
			return s.regs[o.Reg]
		}
	case OFP:
		if sl, ok := a.r.Slot(o); ok {
			return a.paramSym(sl)
		}
	case OSymAddr, OSym:
		return linTerm("&sym:"+o.Sym, true)
	}
	return nil
}

func (a *xAnalysis) setReg(s *xState, reg string, v *Lin) {
	if !isGPR(reg) {
		return
	}
	// a pointer into the scratch block that was advanced by a copy and rewound by the copied length: when the facts of the
	// path fix its offset to the start of a block, the pointer is that constant (keeps the states of the stages that follow
	// apart from nothing but their facts, and lets the scratch discipline see which block a store clears)
	if v != nil && a.contract != nil && a.contract.scratch != nil && len(v.T) > 1 {
		for p, size := range a.contract.scratch {
			bt := baseTerm(p)
			if v.T[bt] != 1 {
				continue
			}
			off := v.Sub(linTerm(bt, true))
			gen := false
			for k := range off.T {
				if isGeneratedSym(k) {
					gen = true
				}
			}
			if !gen {
				break
			}
			for cand := 0; cand+16 <= size; cand += 16 {
				d := off.Sub(linConst(int64(cand)))
				if ProveNonNeg(d, s.facts) && ProveNonNeg(d.Scale(-1), s.facts) {
					v = linTerm(bt, true).Add(linConst(int64(cand)))
					break
				}
			}
			break
		}
	}
	s.regs[reg] = v
}

// step interprets one instruction on the state.
func (a *xAnalysis) step(s *xState, idx int) {
	in := a.r.Instrs[idx]
	e := a.flow.Effects[idx]
	args := in.Args
	op := in.Op
	// memory accesses are checked before the instruction's own register updates
	a.checkAccesses(s, idx)
	// phase end: when the last register holding an advanced pointer into a streamed parameter is overwritten
	if a.contract != nil && len(a.contract.consumeSet) > 0 {
		for _, w := range e.Writes {
			if !isGPR(w) {
				continue
			}
			old := s.regs[w]
			if old == nil {
				continue
			}
			for p, wants := range a.contract.consumeSet {
				if old.T[baseTerm(p)] != 1 || !s.moved[p] {
					continue
				}
				// will the register keep a p-based value? (ADD/SUB/post-increment keep it)
				keeps := in.Op == "ADDQ" || in.Op == "SUBQ" || in.Op == "ADD" || in.Op == "SUB"
				if (in.Op == "LEAQ" || in.Op == "LEAL") && len(args) == 2 && args[0].Kind == OMem && args[0].Reg == w {
					keeps = true // LEAQ off(p)(idx), p: the same pointer, moved
				}
				for _, m := range e.Mem {
					if m.Base == w && m.PostInc != 0 {
						keeps = true
					}
				}
				if keeps {
					continue
				}
				other := false
				for _, r2 := range gprNames(a.r.Arch) {
					if r2 != w && s.regs[r2] != nil && s.regs[r2].T[baseTerm(p)] == 1 {
						other = true
					}
				}
				if !other && a.res != nil && a.recording {
					a.recordConsumption(p, old.Sub(linTerm(baseTerm(p), true)), wants, s, in)
					delete(s.moved, p)
					delete(s.cov, p) // a new pass over the parameter starts from nothing
				}
			}
		}
	}
	kill := func() {
		for _, w := range e.Writes {
			if isGPR(w) {
				post := false
				for _, m := range e.Mem {
					if m.Base == w && m.PostInc != 0 {
						post = true
					}
				}
				if !post {
					s.regs[w] = nil
				}
			}
		}
	}
	if e.SetsFlags {
		s.cmpA, s.cmpB = nil, nil
		s.testV = nil
	}
	if a.r.Arch == "amd64" {
		if e.ZeroIdiom && len(args) == 2 && args[1].Kind == OReg && isGPR(args[1].Reg) {
			a.setReg(s, args[1].Reg, linConst(0)) // XORQ r, r and friends
			return
		}
		switch op {
		case "TESTQ", "TESTL":
			// TESTQ r, r: the flags of comparing r with zero
			if len(args) == 2 && args[0].Kind == OReg && args[1].Kind == OReg && args[0].Reg == args[1].Reg && isGPR(args[0].Reg) {
				if v := s.regs[args[0].Reg]; v != nil {
					s.cmpA, s.cmpB = v, linConst(0)
				}
				return
			}
			// TESTQ $2^b, r: the branch that follows learns bit b of r
			if len(args) == 2 && args[0].Kind == OImm && args[1].Kind == OReg && isGPR(args[1].Reg) && args[0].Imm > 0 && args[0].Imm&(args[0].Imm-1) == 0 && args[0].Imm < 1<<16 {
				if v := s.regs[args[1].Reg]; v != nil && ProveNonNeg(v, s.facts) {
					b := 0
					for int64(1)<<uint(b) != args[0].Imm {
						b++
					}
					s.testV, s.testBit = v, b
				}
			}
			return
		case "DECQ", "INCQ":
			if len(args) == 1 && args[0].Kind == OReg && isGPR(args[0].Reg) {
				if d := s.regs[args[0].Reg]; d != nil {
					delta := int64(1)
					if op == "DECQ" {
						delta = -1
					}
					nv := d.Add(linConst(delta))
					a.setReg(s, args[0].Reg, nv)
					s.cmpA, s.cmpB = nv, linConst(0) // ZF and (without overflow) the sign of the result
				} else {
					a.setReg(s, args[0].Reg, nil)
				}
				return
			}
		case "MOVQ", "MOVD":
			if len(args) == 2 && args[1].Kind == OReg && isGPR(args[1].Reg) {
				switch args[0].Kind {
				case OImm, OFP, OSymAddr:
					a.setReg(s, args[1].Reg, a.operandVal(s, args[0]))
				case OReg:
					if isGPR(args[0].Reg) {
						a.setReg(s, args[1].Reg, s.regs[args[0].Reg])
					} else {
						a.setReg(s, args[1].Reg, nil)
					}
				default:
					a.setReg(s, args[1].Reg, nil)
				}
				return
			}
		case "MOVL", "MOVW", "MOVB":
			if len(args) == 2 && args[1].Kind == OReg && isGPR(args[1].Reg) {
				if args[0].Kind == OImm && op == "MOVL" && args[0].Imm >= 0 {
					a.setReg(s, args[1].Reg, linConst(args[0].Imm))
				} else {
					a.setReg(s, args[1].Reg, nil)
				}
				return
			}
		case "LEAQ":
			if args[0].Kind == OSym {
				a.setReg(s, args[1].Reg, linTerm("&sym:"+args[0].Sym, true))
			} else if args[0].Kind == OMem && s.regs[args[0].Reg] != nil && args[0].Index == "" {
				a.setReg(s, args[1].Reg, s.regs[args[0].Reg].Add(linConst(args[0].Off)))
			} else if args[0].Kind == OMem && s.regs[args[0].Reg] != nil && args[0].Index != "" && s.regs[args[0].Index] != nil {
				nv := s.regs[args[0].Reg].Add(linConst(args[0].Off)).Add(s.regs[args[0].Index].Scale(args[0].Scale))
				a.setReg(s, args[1].Reg, nv)
				for k := range nv.T {
					if strings.HasPrefix(k, "&") && !strings.HasPrefix(k, "&sym:") {
						s.moved[k[1:]] = true
					}
				}
			} else {
				a.setReg(s, args[1].Reg, nil)
			}
			return
		case "ADDQ", "SUBQ":
			if len(args) == 2 && args[1].Kind == OReg {
				d := s.regs[args[1].Reg]
				v := a.operandVal(s, args[0])
				if e.ZeroIdiom {
					a.setReg(s, args[1].Reg, linConst(0))
					return
				}
				if d != nil && v != nil {
					if op == "ADDQ" {
						a.setReg(s, args[1].Reg, d.Add(v))
						if !isMemOp(args[0]) {
							s.cmpA, s.cmpB = d.Add(v), linConst(0) // flags of the result against zero (no overflow on lengths)
						}
					} else {
						a.setReg(s, args[1].Reg, d.Sub(v))
						if !isMemOp(args[0]) {
							s.cmpA, s.cmpB = d, v // SUBQ b, a sets the flags of CMPQ a, b
						}
					}
					for k := range d.T {
						if strings.HasPrefix(k, "&") && !strings.HasPrefix(k, "&sym:") {
							s.moved[k[1:]] = true
						}
					}
				} else {
					a.setReg(s, args[1].Reg, nil)
				}
				return
			}
		case "SHRQ", "ANDQ", "SHLQ":
			if len(args) == 2 && args[1].Kind == OReg && args[0].Kind == OImm {
				d := s.regs[args[1].Reg]
				if d == nil {
					a.setReg(s, args[1].Reg, nil)
					return
				}
				switch op {
				case "SHLQ":
					if args[0].Imm >= 0 && args[0].Imm < 16 {
						a.setReg(s, args[1].Reg, d.Scale(1<<uint(args[0].Imm)))
					} else {
						a.setReg(s, args[1].Reg, nil)
					}
				case "SHRQ":
					k := uint(args[0].Imm)
					if k == 0 || k > 16 || !ProveNonNeg(d, s.facts) {
						a.setReg(s, args[1].Reg, nil)
						return
					}
					q, rem := a.divSyms(s, d, int64(1)<<k)
					_ = rem
					a.setReg(s, args[1].Reg, q)
				case "ANDQ":
					m := args[0].Imm
					if m > 0 && (m&(m+1)) == 0 && m < 1<<16 && ProveNonNeg(d, s.facts) {
						_, rem := a.divSyms(s, d, m+1)
						a.setReg(s, args[1].Reg, rem)
					} else {
						a.setReg(s, args[1].Reg, nil)
					}
				}
				return
			}
		case "CMPQ":
			if len(args) == 2 {
				s.cmpA, s.cmpB = a.operandVal(s, args[0]), a.operandVal(s, args[1])
				if isMemOp(args[0]) || isMemOp(args[1]) {
					s.cmpA, s.cmpB = nil, nil
				}
				return
			}
		}
		kill()
		return
	}
	// arm64
	switch op {
	case "MOVD":
		if len(args) == 2 && args[1].Kind == OReg && isGPR(args[1].Reg) {
			switch args[0].Kind {
			case OImm, OFP, OSymAddr:
				a.setReg(s, args[1].Reg, a.operandVal(s, args[0]))
			case OReg:
				a.setReg(s, args[1].Reg, s.regs[args[0].Reg])
			default:
				a.setReg(s, args[1].Reg, nil)
			}
			return
		}
	case "ADD", "SUB":
		dst := args[len(args)-1]
		var x, y *Lin
		if len(args) == 3 {
			y, x = a.operandVal(s, args[0]), a.operandVal(s, args[1])
		} else {
			y, x = a.operandVal(s, args[0]), s.regs[dst.Reg]
		}
		if x != nil && y != nil {
			if op == "ADD" {
				a.setReg(s, dst.Reg, x.Add(y))
			} else {
				a.setReg(s, dst.Reg, x.Sub(y))
			}
			for k := range x.T {
				if strings.HasPrefix(k, "&") && !strings.HasPrefix(k, "&sym:") {
					s.moved[k[1:]] = true
				}
			}
		} else {
			a.setReg(s, dst.Reg, nil)
		}
		return
	case "CMP":
		// CMP $imm, Rn compares Rn with imm
		if len(args) == 2 {
			s.cmpA, s.cmpB = a.operandVal(s, args[1]), a.operandVal(s, args[0])
			return
		}
	}
	// post-increment addressing advances the base register
	for _, m := range e.Mem {
		if m.PostInc != 0 && m.Base != "" {
			if v := s.regs[m.Base]; v != nil {
				s.regs[m.Base] = v.Add(linConst(m.PostInc))
				for k := range v.T {
					if strings.HasPrefix(k, "&") && !strings.HasPrefix(k, "&sym:") {
						s.moved[k[1:]] = true
					}
				}
			}
		}
	}
	kill()
}

// divSyms introduces quotient/remainder symbols for v / d (v >= 0): v = d*q + r, 0 <= r <= d-1, q >= 0.
func (a *xAnalysis) divSyms(s *xState, v *Lin, d int64) (q, r *Lin) {
	name := v.String()
	qk := fmt.Sprintf("(%s)/%d", name, d)
	rk := fmt.Sprintf("(%s)%%%d", name, d)
	q, r = linTerm(qk, true), linTerm(rk, true)
	s.addFact(v.Sub(q.Scale(d)).Sub(r), true)
	s.addFact(linConst(d-1).Sub(r), false)
	return
}

// branchFacts adds the fact of taking (taken=true) or not taking a conditional branch.
func (a *xAnalysis) branchFacts(s *xState, in *Instr, taken bool) {
	if s.testV != nil && (in.Op == "JEQ" || in.Op == "JNE") {
		// v = 2^(b+1) q + r', r' = 2^b bit + r, 0 <= bit <= 1: the branch fixes bit
		v, b := s.testV, s.testBit
		_, rHi := a.divSyms(s, v, int64(1)<<uint(b+1))
		rLo := linConst(0)
		if b > 0 {
			_, rLo = a.divSyms(s, v, int64(1)<<uint(b))
		}
		bit := linTerm(fmt.Sprintf("(%s)bit%d", v.String(), b), true)
		s.addFact(rHi.Sub(bit.Scale(int64(1)<<uint(b))).Sub(rLo), true)
		zero := (in.Op == "JEQ") == taken // ZF = 1: the tested bit is 0
		if zero {
			s.addFact(bit.Scale(-1), false)
		} else {
			s.addFact(bit.Add(linConst(-1)), false)
			s.addFact(linConst(1).Sub(bit), false)
		}
		return
	}
	if s.cmpA == nil || s.cmpB == nil {
		return
	}
	x, y := s.cmpA, s.cmpB
	op := in.Op
	var rel string
	switch op {
	case "JLT", "BLT":
		rel = "<"
	case "JLE", "BLE":
		rel = "<="
	case "JGT", "BGT":
		rel = ">"
	case "JGE", "BGE":
		rel = ">="
	case "JEQ", "BEQ":
		rel = "=="
	case "JNE", "BNE":
		rel = "!="
	default:
		return
	}
	if !taken {
		rel = map[string]string{"<": ">=", "<=": ">", ">": "<=", ">=": "<", "==": "!=", "!=": "=="}[rel]
	}
	switch rel {
	case "<":
		s.addFact(y.Sub(x).Add(linConst(-1)), false)
	case "<=":
		s.addFact(y.Sub(x), false)
	case ">":
		s.addFact(x.Sub(y).Add(linConst(-1)), false)
	case ">=":
		s.addFact(x.Sub(y), false)
	case "==":
		s.addFact(x.Sub(y), true)
	case "!=":
		d := x.Sub(y)
		switch {
		case ProveNonNeg(d, s.facts):
			s.addFact(d.Add(linConst(-1)), false) // d >= 0 and d != 0  =>  d >= 1
		case ProveNonNeg(d.Scale(-1), s.facts):
			s.addFact(d.Scale(-1).Add(linConst(-1)), false)
		default:
			s.facts = append(s.facts, Fact{E: d, Ne: true})
		}
	}
}

// ---------------- accesses ----------------

func (a *xAnalysis) checkAccesses(s *xState, idx int) {
	in := a.r.Instrs[idx]
	for _, acc := range a.flow.Accesses {
		if acc.Instr != in {
			continue
		}
		m := acc.Mem
		if m.FPSlot {
			continue
		}
		rec := a.res.accesses[idx]
		if rec == nil {
			rec = &xAccess{instr: in, mem: m, width: acc.Width, status: 1}
			a.res.accesses[idx] = rec
		}
		width := int64(acc.Width)
		var val *Lin
		if m.Sym != "" {
			val = linTerm("&sym:"+m.Sym, true).Add(linConst(m.Off))
		} else if v := s.regs[m.Base]; v != nil && m.Index == "" {
			val = v.Add(linConst(m.Off))
		} else if v != nil && s.regs[m.Index] != nil {
			val = v.Add(linConst(m.Off)).Add(s.regs[m.Index].Scale(acc.Instr.Args[m.Arg].Scale))
		}
		if val == nil {
			rec.status = minStatus(rec.status, 0)
			rec.detail = "address register " + m.Base + " has no affine value on some path"
			continue
		}
		// split base
		base := ""
		off := val.clone()
		for k, c := range val.T {
			if strings.HasPrefix(k, "&") {
				if base != "" || c != 1 {
					base = "?"
				} else {
					base = k
				}
				delete(off.T, k)
			}
		}
		if base == "" || base == "?" {
			rec.status = minStatus(rec.status, 0)
			rec.detail = "address " + val.String() + " is not base+offset"
			continue
		}
		var size *Lin
		if strings.HasPrefix(base, "&sym:") {
			d := a.symSize(base[5:])
			if d < 0 {
				rec.status = minStatus(rec.status, 0)
				rec.detail = "unknown data symbol " + base
				continue
			}
			size = linConst(int64(d))
			rec.param = base
		} else {
			p := base[1:]
			rec.param = p
			size = a.contract.size[p]
			if size == nil {
				rec.status = minStatus(rec.status, 0)
				rec.detail = "no contract for parameter " + p
				continue
			}
		}
		rec.off = off
		if a.contract != nil && !strings.HasPrefix(base, "&sym:") && a.contract.consumeSet[base[1:]] != nil {
			// a streamed parameter addressed as base+index: the pointer never moves; what is consumed is the prefix accessed
			// without a gap
			pn := base[1:]
			if s.cov == nil {
				s.cov = map[string]*Lin{}
			}
			cv := s.cov[pn]
			if cv == nil {
				cv = linConst(0)
			}
			if ProveNonNeg(cv.Sub(off), s.facts) && ProveNonNeg(off.Add(linConst(width)).Sub(cv), s.facts) {
				cv = off.Add(linConst(width))
			}
			s.cov[pn] = cv
		}
		if a.recording && a.contract != nil && a.contract.scratch != nil && !strings.HasPrefix(base, "&sym:") {
			if n, ok := a.contract.scratch[base[1:]]; ok {
				a.scratchAccess(s, in, base[1:], n, off, int(width), m.Load, m.Store)
			}
		}
		if a.recording && a.contract != nil && a.contract.overlap != nil && !strings.HasPrefix(base, "&sym:") {
			pname := base[1:]
			if m.Load {
				for _, dstP := range a.contract.overlap[pname] {
					for _, st := range s.stored {
						if st.param != dstP {
							continue
						}
						a.res.overlapChecked++
						// with dst == src exactly: the load must not read bytes this path has already overwritten
						d1 := off.Sub(st.off).Sub(linConst(st.w))  // load starts at or after the end of the stored range
						d2 := st.off.Sub(off).Sub(linConst(width)) // load ends at or before the start of the stored range
						if !ProveNonNeg(d1, s.facts) && !ProveNonNeg(d2, s.facts) {
							key := fmt.Sprintf("%s/%s: load of %s after store to %s", a.r.Arch, a.r.Name, pname, dstP)
							dup := false
							for _, o := range a.res.overlaps {
								if o.Key == key {
									dup = true
								}
							}
							if !dup {
								a.res.overlaps = append(a.res.overlaps, Obligation{Rule: "LOAD-BEFORE-STORE", Key: key, Pos: in.Pos, Status: VIOLATED,
									Detail: fmt.Sprintf("%s reads bytes [%s,+%d) of %s after %s (%s) stored bytes [%s,+%d) of %s: with dst aliasing the input exactly the input is clobbered before it is read", in.Raw, off.String(), width, pname, st.at.Raw, st.at.Pos, st.off.String(), st.w, dstP)})
							}
						}
					}
				}
			}
			if m.Store {
				isDst := false
				for _, ds := range a.contract.overlap {
					for _, d := range ds {
						if d == pname {
							isDst = true
						}
					}
				}
				if isDst {
					s.stored = append(s.stored, xStore{param: pname, off: off, w: width, at: in})
					if len(s.stored) > 96 {
						s.stored = s.stored[len(s.stored)-96:]
					}
				}
			}
		}
		lo := Decide(off, s.facts)
		hi := Decide(size.Sub(off).Sub(linConst(width)), s.facts)
		st := 1
		if lo == -1 || hi == -1 {
			st = -1
		} else if lo != 1 || hi != 1 {
			st = 0
		}
		if st < rec.status || (st == rec.status && st < 1 && rec.detail == "") {
			rec.status = st
			var fs []string
			for _, f := range s.facts {
				fs = append(fs, factStr(f))
			}
			rec.detail = fmt.Sprintf("bytes [%s, +%d) of %s (size %s); path facts {%s}", off.String(), width, rec.param, size.String(), strings.Join(fs, "; "))
		}
	}
}

func minStatus(a, b int) int {
	if b < a {
		return b
	}
	return a
}

func (a *xAnalysis) symSize(name string) int {
	if a.dataSize == nil {
		return -1
	}
	if d, ok := a.dataSize[name]; ok {
		return d
	}
	return -1
}

// ---------------- driver ----------------

type xEdge struct{ from, to int }

const xMaxStates = 400

func (a *xAnalysis) addState(m map[int][]*xState, b int, s *xState) {
	rk := s.regKey()
	for _, o := range m[b] {
		if o.regKey() != rk {
			continue
		}
		// same register file: join by keeping the facts both paths agree on (sound over-approximation)
		have := map[string]bool{}
		for _, f := range s.facts {
			have[factStr(f)] = true
		}
		var keep []Fact
		for _, f := range o.facts {
			if have[factStr(f)] {
				keep = append(keep, f)
			}
		}
		o.facts = keep
		o.stored = append(o.stored, s.stored...)
		if len(o.stored) > 96 {
			o.stored = o.stored[len(o.stored)-96:]
		}
		for k, v := range s.scr {
			if o.scr == nil {
				o.scr = map[string][]uint8{}
			}
			if ov, ok := o.scr[k]; ok {
				for i := range ov {
					if i < len(v) && v[i] > ov[i] {
						ov[i] = v[i]
					}
				}
			} else {
				o.scr[k] = append([]uint8(nil), v...)
			}
		}
		return
	}
	if len(m[b]) >= xSoftStates {
		// many states at one block (forward conditionals that each take away a fixed amount): join with a state that differs
		// by constants only, through a fresh parameter t in [0, g] (relational join; sound over-approximation)
		for _, o := range m[b] {
			if a.paramJoin(o, s) {
				return
			}
		}
	}
	m[b] = append(m[b], s)
	if len(m[b]) > a.res.maxStates {
		a.res.maxStates = len(m[b])
	}
}

const xSoftStates = 200

// paramJoin merges s into o when every register (and the compare operands) of s equals the one of o plus a constant:
// o.reg + (c/g) t with a fresh 0 <= t <= g, g = gcd of the constants. The facts kept are those of either state that, shifted
// by a multiple of t, hold at both ends (t = 0: o, t = g: s); facts are affine, so they hold in between.
func (a *xAnalysis) paramJoin(o, s *xState) bool {
	if len(o.moved) != len(s.moved) {
		return false
	}
	for k := range o.moved {
		if !s.moved[k] {
			return false
		}
	}
	// the gap-free prefixes recorded for streamed parameters belong to the path: states with different ones stay apart
	if len(o.cov) != len(s.cov) {
		return false
	}
	for k, v := range o.cov {
		if w := s.cov[k]; w == nil || !w.Equal(v) {
			return false
		}
	}
	diff := map[string]int64{}
	var g int64
	cdiff := func(x, y *Lin) (int64, bool) { // y - x is a constant
		d := y.Sub(x)
		if !d.IsConst() {
			return 0, false
		}
		return d.C, true
	}
	for k, v := range o.regs {
		w := s.regs[k]
		if (v == nil) != (w == nil) {
			return false
		}
		if v == nil {
			continue
		}
		c, ok := cdiff(v, w)
		if !ok {
			return false
		}
		if c != 0 {
			diff[k] = c
			g = gcd64(g, abs64(c))
		}
	}
	for k, w := range s.regs {
		if w != nil && o.regs[k] == nil {
			return false
		}
	}
	if g == 0 {
		return false // identical registers: the ordinary join applies
	}
	var ca, cb int64
	if (o.cmpA == nil) != (s.cmpA == nil) || (o.cmpB == nil) != (s.cmpB == nil) {
		return false
	}
	if o.cmpA != nil && o.cmpB != nil {
		var ok1, ok2 bool
		ca, ok1 = cdiff(o.cmpA, s.cmpA)
		cb, ok2 = cdiff(o.cmpB, s.cmpB)
		if !ok1 || !ok2 || ca%g != 0 || cb%g != 0 {
			return false
		}
	}
	t := linTerm(a.fresh("j"), true)
	// facts
	var keep []Fact
	seen := map[string]bool{}
	add := func(f Fact) {
		k := factStr(f)
		if !seen[k] {
			seen[k] = true
			keep = append(keep, f)
		}
	}
	// an equality is two inequalities (each may survive on its own, possibly shifted); a disequality survives only when
	// both states have it
	split := func(fs []Fact) []Fact {
		var out []Fact
		for _, f := range fs {
			switch {
			case f.Eq:
				out = append(out, Fact{E: f.E}, Fact{E: f.E.Scale(-1)})
			case f.Ne:
			default:
				out = append(out, f)
			}
		}
		return out
	}
	for _, f := range o.facts {
		if !f.Ne {
			continue
		}
		for _, f2 := range s.facts {
			if f2.Ne && (f2.E.Equal(f.E) || f2.E.Scale(-1).Equal(f.E)) {
				add(f)
				break
			}
		}
	}
	ofacts, sfacts := split(o.facts), split(s.facts)
	for _, f := range ofacts { // holds at t = 0; E + kappa*t must hold at t = g under s
		for _, kappa := range []int64{0, 1, -1} {
			if ProveNonNeg(f.E.Add(linConst(kappa*g)), s.facts) {
				add(Fact{E: f.E.Add(t.Scale(kappa))})
				break
			}
		}
	}
	for _, f := range sfacts { // holds at t = g; E + kappa*(t - g) must hold at t = 0 under o
		for _, kappa := range []int64{0, 1, -1} {
			if ProveNonNeg(f.E.Add(linConst(-kappa*g)), o.facts) {
				add(Fact{E: f.E.Add(t.Scale(kappa)).Add(linConst(-kappa * g))})
				break
			}
		}
	}
	add(Fact{E: t})
	add(Fact{E: linConst(g).Sub(t)})
	// two opposite inequalities that both survived are the equality again (the spelling the ordinary join compares)
	{
		var merged []Fact
		used := map[int]bool{}
		for i, f := range keep {
			if used[i] {
				continue
			}
			if !f.Eq && !f.Ne {
				neg := f.E.Scale(-1)
				for j := i + 1; j < len(keep); j++ {
					if !used[j] && !keep[j].Eq && !keep[j].Ne && keep[j].E.Equal(neg) {
						used[j] = true
						f = tighten(Fact{E: f.E, Eq: true})
						// keep the spelling of whichever state had the equality
						for _, of := range o.facts {
							if of.Eq && (of.E.Equal(f.E) || of.E.Equal(neg)) {
								f = of
							}
						}
						break
					}
				}
			}
			merged = append(merged, f)
		}
		keep = merged
	}
	for k, c := range diff {
		o.regs[k] = o.regs[k].Add(t.Scale(c / g))
	}
	if o.cmpA != nil && o.cmpB != nil {
		o.cmpA = o.cmpA.Add(t.Scale(ca / g))
		o.cmpB = o.cmpB.Add(t.Scale(cb / g))
	}
	o.facts = keep
	o.stored = append(o.stored, s.stored...)
	if len(o.stored) > 96 {
		o.stored = o.stored[len(o.stored)-96:]
	}
	for k, v := range s.scr {
		if o.scr == nil {
			o.scr = map[string][]uint8{}
		}
		if ov, ok := o.scr[k]; ok {
			for i := range ov {
				if i < len(v) && v[i] > ov[i] {
					ov[i] = v[i]
				}
			}
		} else {
			o.scr[k] = append([]uint8(nil), v...)
		}
	}
	return true
}

func abs64(a int64) int64 {
	if a < 0 {
		return -a
	}
	return a
}

// normalize drops registers that are dead at the entry of block `to`; a dying pointer into a streamed parameter ends a phase.
func (a *xAnalysis) normalize(s *xState, to int) {
	live := a.liveIn[a.blocks[to].start]
	at := a.r.Instrs[a.blocks[to].start]
	for _, r := range gprNames(a.r.Arch) {
		v := s.regs[r]
		if v == nil || live[r] {
			continue
		}
		if a.contract != nil {
			for p, wants := range a.contract.consumeSet {
				if v.T[baseTerm(p)] != 1 || !s.moved[p] {
					continue
				}
				other := false
				for _, r2 := range gprNames(a.r.Arch) {
					if r2 != r && live[r2] && s.regs[r2] != nil && s.regs[r2].T[baseTerm(p)] == 1 {
						other = true
					}
				}
				if !other {
					a.recordConsumption(p, v.Sub(linTerm(baseTerm(p), true)), wants, s, at)
					delete(s.moved, p)
					delete(s.cov, p)
				}
			}
		}
		delete(s.regs, r)
	}
	// a counter that a copy ladder has run down: when the facts of the path fix a live register that still carries
	// iteration symbols to zero, it is zero (states that differ only in the names of those symbols can then be joined)
	for _, r := range gprNames(a.r.Arch) {
		v := s.regs[r]
		if v == nil || !live[r] || v.IsConst() {
			continue
		}
		gen, ptr := false, false
		for k := range v.T {
			if isGeneratedSym(k) {
				gen = true
			}
			if strings.HasPrefix(k, "&") {
				ptr = true
			}
		}
		if gen && !ptr && ProveNonNeg(v, s.facts) && ProveNonNeg(v.Scale(-1), s.facts) {
			s.regs[r] = linConst(0)
		}
	}
	if s.cmpA != nil && !live[flagsReg] {
		s.cmpA, s.cmpB = nil, nil
	}
	// facts that only talk about symbols no live register (and no parameter) mentions any more are useless
	liveSyms := map[string]bool{}
	for _, v := range s.regs {
		if v != nil {
			for k := range v.T {
				liveSyms[k] = true
			}
		}
	}
	for _, l := range []*Lin{s.cmpA, s.cmpB, s.testV} {
		if l != nil {
			for k := range l.T {
				liveSyms[k] = true
			}
		}
	}
	for _, l := range s.cov {
		for k := range l.T {
			liveSyms[k] = true
		}
	}
	var keep []Fact
	for _, f := range s.facts {
		ok := true
		for k := range f.E.T {
			if isGeneratedSym(k) && !liveSyms[k] {
				ok = false
			}
		}
		if ok {
			keep = append(keep, f)
		}
	}
	s.facts = keep
}

func isGeneratedSym(k string) bool {
	if len(k) < 2 || (k[0] != 'n' && k[0] != 'j') {
		return false
	}
	for _, c := range k[1:] {
		if c < '0' || c > '9' {
			return false
		}
	}
	return true
}

func (a *xAnalysis) computeLiveness() {
	n := len(a.r.Instrs)
	a.liveIn = make([]map[string]bool, n)
	for i := range a.liveIn {
		a.liveIn[i] = map[string]bool{}
	}
	changed := true
	for changed {
		changed = false
		for i := n - 1; i >= 0; i-- {
			in := a.r.Instrs[i]
			e := a.flow.Effects[i]
			out := map[string]bool{}
			for _, sidx := range in.Succ {
				for k := range a.liveIn[sidx] {
					out[k] = true
				}
			}
			for _, w := range e.Writes {
				// a register that is also read (ADDQ, post-increment) stays live through its reads below
				delete(out, w)
			}
			if e.SetsFlags {
				delete(out, flagsReg)
			}
			for _, rd := range e.Reads {
				out[rd] = true
			}
			for _, m := range e.Mem {
				if m.Base != "" {
					out[m.Base] = true
				}
				if m.Index != "" {
					out[m.Index] = true
				}
			}
			if e.UsesFlags {
				out[flagsReg] = true
			}
			if len(out) != len(a.liveIn[i]) {
				a.liveIn[i] = out
				changed = true
				continue
			}
			for k := range out {
				if !a.liveIn[i][k] {
					a.liveIn[i] = out
					changed = true
					break
				}
			}
		}
	}
}

// runRegion propagates states through the blocks of region (a loop body or the whole routine), entry first.
// Back edges to `header` are collected; edges leaving the region are returned as exits.
func (a *xAnalysis) runRegion(region map[int]bool, entry int, entryStates []*xState, header int, record bool) (exits map[xEdge][]*xState, backs []*xState) {
	exits = map[xEdge][]*xState{}
	in := map[int][]*xState{}
	for _, s := range entryStates {
		a.addState(in, entry, s)
	}
	for _, b := range a.rpo {
		if !region[b] || len(in[b]) == 0 {
			continue
		}
		if xDebug && record {
			fmt.Printf("block %d (%s) states=%d region=%d header=%d\n", b, a.r.Instrs[a.blocks[b].start].Pos, len(in[b]), len(region), header)
		}
		if xDebug && record && os.Getenv("SMGO_DUMP") == fmt.Sprint(b) {
			for i, st := range in[b] {
				if i < 6 {
					fmt.Printf("  STATE %d: %s\n     scr=%v\n", i, st.regKey(), st.scr)
				}
			}
		}
		if len(in[b]) > xMaxStates {
			a.res.problems = append(a.res.problems, fmt.Sprintf("state explosion at block %d (%s)", b, a.r.Instrs[a.blocks[b].start].Pos))
			in[b] = in[b][:xMaxStates]
		}
		deliver := func(to int, s *xState, from int) {
			if record && !(to == header && header >= 0) {
				a.normalize(s, to)
			}
			switch {
			case to == header && header >= 0 && a.dominates(to, from):
				backs = append(backs, s)
			case region[to]:
				a.addState(in, to, s)
			default:
				exits[xEdge{from, to}] = append(exits[xEdge{from, to}], s)
			}
		}
		if l := a.loops[b]; l != nil && b != entry {
			// inner loop: summarise
			lex := a.handleLoop(l, in[b], record)
			for e, ss := range lex {
				for _, s := range ss {
					deliver(e.to, s, e.from)
				}
			}
			continue
		}
		if l := a.loops[b]; l != nil && b == entry && header != b {
			// the region's entry is itself a loop header (whole-routine region starting with a loop)
			lex := a.handleLoop(l, in[b], record)
			for e, ss := range lex {
				for _, s := range ss {
					deliver(e.to, s, e.from)
				}
			}
			continue
		}
		for _, s0 := range in[b] {
			s := s0.clone()
			blk := a.blocks[b]
			for i := blk.start; i < blk.end; i++ {
				if record {
					a.recording = true
					a.step(s, i)
				} else {
					a.stepDry(s, i)
				}
			}
			last := a.r.Instrs[blk.end-1]
			k := branchKind(a.r.Arch, last.Op)
			switch k {
			case brRet:
				if record {
					a.atReturn(s, last)
				}
			case brCond:
				for si, succIdx := range last.Succ {
					t := s.clone()
					a.branchFacts(t, last, si == 0)
					if a.contradictory(t) {
						continue
					}
					if a.trackExit && !region[a.blockOf[succIdx]] {
						o := s.clone()
						nf := len(o.facts)
						a.branchFacts(o, last, si != 0)
						a.exitFrom[t] = exitInfo{cont: append([]Fact(nil), o.facts[nf:]...)}
					}
					deliver(a.blockOf[succIdx], t, b)
				}
			default:
				for _, succIdx := range last.Succ {
					deliver(a.blockOf[succIdx], s.clone(), b)
				}
			}
		}
	}
	return
}

// contradictory: the facts of the state are infeasible (a fact E >= 0 whose negation is provable from the others).
func (a *xAnalysis) contradictory(s *xState) bool {
	if len(s.facts) == 0 {
		return false
	}
	return lpProveNonNeg(linConst(-1), s.facts)
}

func (a *xAnalysis) stepDry(s *xState, idx int) {
	save, rec := a.res, a.recording
	a.res = &xResult{r: a.r, accesses: map[int]*xAccess{}}
	a.recording = false
	a.step(s, idx)
	a.res, a.recording = save, rec
}

func gprNames(arch string) []string {
	if arch == "amd64" {
		return []string{"AX", "BX", "CX", "DX", "SI", "DI", "BP", "R8", "R9", "R10", "R11", "R12", "R13", "R14", "R15"}
	}
	var out []string
	for i := 0; i <= 30; i++ {
		out = append(out, fmt.Sprintf("R%d", i))
	}
	return out
}

type loopDelta struct {
	delta  map[string]int64 // register -> constant per-iteration change
	varies map[string]bool
}

func (a *xAnalysis) loopDeltas(l *xLoop) *loopDelta {
	ld := &loopDelta{delta: map[string]int64{}, varies: map[string]bool{}}
	entry := &xState{regs: map[string]*Lin{}, moved: map[string]bool{}}
	for _, r := range gprNames(a.r.Arch) {
		entry.regs[r] = linTerm(r+"@in", true) // treated as non-negative for the dry run only (SHR/AND need it); deltas do not depend on it
	}
	_, backs := a.runRegion(l.blocks, l.header, []*xState{entry}, l.header, false)
	if len(backs) == 0 {
		for _, r := range gprNames(a.r.Arch) {
			ld.varies[r] = true
		}
		return ld
	}
	for _, r := range gprNames(a.r.Arch) {
		first := true
		var d int64
		ok := true
		for _, b := range backs {
			v := b.regs[r]
			if v == nil {
				ok = false
				break
			}
			diff := v.Sub(entry.regs[r])
			if !diff.IsConst() {
				ok = false
				break
			}
			if first {
				d, first = diff.C, false
			} else if d != diff.C {
				ok = false
				break
			}
		}
		if ok {
			ld.delta[r] = d
		} else {
			ld.varies[r] = true
		}
	}
	return ld
}

// shift returns state s with every constant-delta register advanced by n iterations (n a Lin: symbol or constant).
func (a *xAnalysis) shift(s *xState, ld *loopDelta, n *Lin) *xState {
	t := s.clone()
	t.cmpA, t.cmpB = nil, nil
	for _, r := range gprNames(a.r.Arch) {
		if ld.varies[r] {
			t.regs[r] = nil
			continue
		}
		if d := ld.delta[r]; d != 0 && t.regs[r] != nil {
			t.regs[r] = t.regs[r].Add(n.Scale(d))
			for k := range t.regs[r].T {
				if strings.HasPrefix(k, "&") && !strings.HasPrefix(k, "&sym:") {
					t.moved[k[1:]] = true
				}
			}
		}
	}
	return t
}

// handleLoop analyses a loop for each incoming state and returns the states on its exit edges.
// Accesses are checked in a first-iteration run and in a later-iteration run (j+1 completed iterations, with the
// back-edge facts of iteration j); the exit states are taken from a generic iteration n >= 0 with the exit branch's
// fact and the derived lower bound of its continue condition (g(n) >= -D when g decreases by D per iteration).
func (a *xAnalysis) handleLoop(l *xLoop, ins []*xState, record bool) map[xEdge][]*xState {
	out := map[xEdge][]*xState{}
	ld := a.loopDeltas(l)
	for _, s := range ins {
		// coverage of index-addressed streamed parameters advances by a constant per iteration (measured on the first iteration)
		covDelta := map[string]int64{}
		if a.contract != nil && len(a.contract.consumeSet) > 0 {
			_, fb := a.runRegion(l.blocks, l.header, []*xState{s.clone()}, l.header, false)
			for pn := range a.contract.consumeSet {
				first := true
				var d int64
				ok := len(fb) > 0
				for _, b := range fb {
					cv := b.cov[pn]
					if cv == nil {
						ok = false
						break
					}
					c0 := s.cov[pn]
					if c0 == nil {
						c0 = linConst(0)
					}
					df := cv.Sub(c0)
					if !df.IsConst() || (!first && df.C != d) {
						ok = false
						break
					}
					d, first = df.C, false
				}
				if ok && d != 0 {
					covDelta[pn] = d
				}
			}
		}
		shiftCov := func(t *xState, n *Lin) {
			for pn, d := range covDelta {
				if t.cov == nil {
					t.cov = map[string]*Lin{}
				}
				c0 := t.cov[pn]
				if c0 == nil {
					c0 = linConst(0)
				}
				t.cov[pn] = c0.Add(n.Scale(d))
			}
		}
		// generic iteration j: facts that hold on every path from the header to the back edge
		j := linTerm(a.fresh("j"), true)
		g := a.shift(s, ld, j)
		shiftCov(g, j)
		nBase := len(g.facts)
		_, gBacks := a.runRegion(l.blocks, l.header, []*xState{g}, l.header, false)
		var F []Fact
		if len(gBacks) > 0 {
			for _, f := range gBacks[0].facts[minInt(nBase, len(gBacks[0].facts)):] {
				common := true
				for _, o := range gBacks[1:] {
					found := false
					for _, of := range o.facts {
						if factStr(of) == factStr(f) {
							found = true
						}
					}
					if !found {
						common = false
					}
				}
				if common {
					F = append(F, f)
				}
			}
		}
		// a continue condition E(j) != 0 on a value that moves by one per iteration and is non-negative on entry holds
		// as E(j) >= 1 in every iteration that continues (induction: E >= 0 and E != 0 give E >= 1, and E - 1 >= 0 next time)
		jk := nameOf(j)
		for i, f := range F {
			if !f.Ne {
				continue
			}
			E := f.E
			switch E.T[jk] {
			case -1:
			case 1:
				E = E.Scale(-1)
			default:
				continue
			}
			E0 := E.clone()
			delete(E0.T, jk)
			if ProveNonNeg(E0, s.facts) {
				F[i] = Fact{E: E.Add(linConst(-1))}
			}
		}
		// the scratch statuses the body leaves behind (tracked in the recording runs only): joined into every exit state
		bodyScr := map[string][]uint8{}
		noteScr := func(ex map[xEdge][]*xState, bk []*xState) {
			note := func(t *xState) {
				for k, v := range t.scr {
					if cur, ok := bodyScr[k]; ok {
						for i := range cur {
							if i < len(v) && v[i] > cur[i] {
								cur[i] = v[i]
							}
						}
					} else {
						bodyScr[k] = append([]uint8(nil), v...)
					}
				}
			}
			for _, ss := range ex {
				for _, t := range ss {
					note(t)
				}
			}
			for _, t := range bk {
				note(t)
			}
		}
		if record {
			// first iteration
			ex1, bk1 := a.runRegion(l.blocks, l.header, []*xState{s.clone()}, l.header, true)
			noteScr(ex1, bk1)
			// a later iteration: j+1 completed iterations before it, and the back-edge facts of iteration j hold
			s1 := a.shift(s, ld, j.Add(linConst(1)))
			shiftCov(s1, j.Add(linConst(1)))
			s1.facts = append(s1.facts, F...)
			if len(gBacks) > 0 && !a.contradictory(s1) {
				// the later iteration starts from what the first one left
				for k, v := range bodyScr {
					if s1.scr == nil {
						s1.scr = map[string][]uint8{}
					}
					s1.scr[k] = append([]uint8(nil), v...)
				}
				ex2, bk2 := a.runRegion(l.blocks, l.header, []*xState{s1}, l.header, true)
				noteScr(ex2, bk2)
			}
		}
		// exits from a generic iteration n
		n := linTerm(a.fresh("n"), true)
		m := a.shift(s, ld, n)
		shiftCov(m, n)
		if len(gBacks) == 0 {
			m = s.clone() // the back edge is infeasible: the body runs once
		}
		a.exitFrom = map[*xState]exitInfo{}
		a.trackExit = true
		exN, _ := a.runRegion(l.blocks, l.header, []*xState{m}, l.header, false)
		a.trackExit = false
		nk := nameOf(n)
		for e, ss := range exN {
			for _, t := range ss {
				// derived invariant from the continue condition of the exit branch
				if info, ok := a.exitFrom[t]; ok && len(gBacks) > 0 {
					for _, f := range info.cont {
						if f.Eq || f.Ne {
							continue
						}
						coef := f.E.T[nk]
						if coef >= 0 {
							continue
						}
						D := -coef
						g0 := f.E.clone()
						delete(g0.T, nk)
						if ProveNonNeg(g0.Add(linConst(D)), s.facts) {
							t.addFact(f.E.Add(linConst(D)), false)
						}
					}
				}
				if xDebug {
					var fs []string
					for _, f := range t.facts {
						fs = append(fs, factStr(f))
					}
					fmt.Printf("  loop exit %v: facts {%s} contradictory=%v\n", e, strings.Join(fs, "; "), a.contradictory(t))
				}
				if !a.contradictory(t) {
					for k, v := range bodyScr {
						if t.scr == nil {
							t.scr = map[string][]uint8{}
						}
						if cur, ok := t.scr[k]; ok {
							for i := range cur {
								if i < len(v) && v[i] > cur[i] {
									cur[i] = v[i]
								}
							}
						} else {
							t.scr[k] = append([]uint8(nil), v...)
						}
					}
					out[e] = append(out[e], t)
				}
			}
		}
	}
	return out
}

type exitInfo struct {
	cont []Fact // facts of the *other* direction of the branch that produced this state (the continue condition)
}

func nameOf(l *Lin) string {
	for k := range l.T {
		return k
	}
	return ""
}

func minInt(a, b int) int {
	if a < b {
		return a
	}
	return b
}

// atReturn checks the consumption obligations of streamed parameters.
func (a *xAnalysis) atReturn(s *xState, ret *Instr) {
	for p, wants := range a.contract.consumeSet {
		if !s.moved[p] {
			if cv := s.cov[p]; cv != nil {
				a.recordConsumption(p, cv, wants, s, ret)
			}
			continue
		}
		// the most advanced register still holding a p-based pointer
		var vals []*Lin
		for _, r := range gprNames(a.r.Arch) {
			v := s.regs[r]
			if v == nil || v.T[baseTerm(p)] != 1 {
				continue
			}
			vals = append(vals, v.Sub(linTerm(baseTerm(p), true)))
		}
		if len(vals) == 0 {
			continue // the pointer register was reused; phase ends are checked when that happens
		}
		for _, v := range vals {
			a.recordConsumption(p, v, wants, s, ret)
		}
	}
}

func (a *xAnalysis) recordConsumption(p string, adv *Lin, wants []*Lin, s *xState, at *Instr) {
	// the stream must have been consumed at least up to one of the allowed ends (the upper side is the EXTENT rule:
	// no access beyond the contract); a pointer that ends inside the trailing tag region has consumed the data region
	ok := false
	for _, w := range wants {
		if ProveNonNeg(adv.Sub(w), s.facts) {
			ok = true
		}
		// or: the prefix accessed without a gap reaches that end (the last step need not advance the pointer, and a final
		// block may overlap bytes already processed)
		if cv := s.cov[p]; cv != nil && ProveNonNeg(cv.Sub(w), s.facts) {
			ok = true
		}
	}
	var ws []string
	for _, w := range wants {
		ws = append(ws, w.String())
	}
	key := fmt.Sprintf("%s/%s: %s", a.r.Arch, a.r.Name, p)
	st := OK
	detail := fmt.Sprintf("pointer into %s ends at base + %s (allowed: %s)", p, adv.String(), strings.Join(ws, " | "))
	if !ok {
		st = VIOLATED
		var fs []string
		for _, f := range s.facts {
			fs = append(fs, factStr(f))
		}
		detail += "; cannot prove that the stream was consumed to its end; path facts {" + strings.Join(fs, "; ") + "}"
	}
	for i, o := range a.res.consumption {
		if o.Key == key {
			if st == VIOLATED && o.Status != VIOLATED {
				a.res.consumption[i] = Obligation{Rule: "CONSUMPTION", Key: key, Pos: at.Pos, Status: st, Detail: detail}
			}
			return
		}
	}
	a.res.consumption = append(a.res.consumption, Obligation{Rule: "CONSUMPTION", Key: key, Pos: at.Pos, Status: st, Detail: detail})
}

// AnalyzeExtents runs A4 on one routine under a contract.
func AnalyzeExtents(r *Routine, flow *FlowResult, c *xContract, dataSize map[string]int) *xResult {
	a := &xAnalysis{r: r, flow: flow, contract: c, dataSize: dataSize}
	a.res = &xResult{r: r, accesses: map[int]*xAccess{}}
	a.buildBlocks()
	a.computeDominators()
	a.findLoops()
	a.computeLiveness()
	init := &xState{regs: map[string]*Lin{}, moved: map[string]bool{}}
	init.facts = append(init.facts, c.pre...)
	all := map[int]bool{}
	for _, b := range a.blocks {
		all[b.id] = true
	}
	a.runRegion(all, 0, []*xState{init}, -1, true)
	return a.res
}

// roundQuotients: integer rounding for quotient symbols "(v)/d": d*q <= d-1 gives q <= 0, d*q >= 1 gives q >= 1.
func (s *xState) roundQuotients() {
	seen := map[string]bool{}
	for _, f := range s.facts {
		for k := range f.E.T {
			i := strings.LastIndex(k, ")/")
			if i < 0 || !strings.HasPrefix(k, "(") || seen[k] {
				continue
			}
			seen[k] = true
			var d int64
			fmt.Sscanf(k[i+2:], "%d", &d)
			if d <= 1 {
				continue
			}
			q := linTerm(k, true)
			has := func(e *Lin) bool {
				for _, o := range s.facts {
					if !o.Eq && !o.Ne && o.E.Equal(e) {
						return true
					}
				}
				return false
			}
			le0 := q.Scale(-1)
			if !has(le0) && lpProveNonNeg(linConst(d-1).Sub(q.Scale(d)), s.facts) {
				s.facts = append(s.facts, Fact{E: le0})
			}
			ge1 := q.Add(linConst(-1))
			if !has(ge1) && lpProveNonNeg(q.Scale(d).Add(linConst(-1)), s.facts) {
				s.facts = append(s.facts, Fact{E: ge1})
			}
			// a quotient known to be at least 1 whose multiple is bounded: d*q <= d*(k+1) - 1 gives q <= k (k = 1, 2, 3);
			// this is `len &= n-1` after `n <= len < 2n` (the quotient is exactly 1)
			if has(ge1) || lpProveNonNeg(ge1, s.facts) {
				for k := int64(1); k <= 3; k++ {
					lek := linConst(k).Sub(q)
					if has(lek) {
						break
					}
					if lpProveNonNeg(linConst(d*(k+1)-1).Sub(q.Scale(d)), s.facts) {
						s.facts = append(s.facts, Fact{E: lek})
						break
					}
				}
			}
		}
	}
}

// Scratch discipline (SCRATCH-REINIT). The fused GCM routines stage partial blocks in a small scratch block that the Go
// caller hands in zeroed. Per byte of the scratch the status is
//
//	Z  known zero (entry, or an explicit store of the constant 0)
//	F  fresh: written (or left zero) since the last full-vector load consumed the block
//	X  consumed: data of a previous staging that a vector load has already used
//	S  possibly stale: a variable-length copy went over consumed bytes without the block being cleared first
//
// A variable-length store (offset not constant on the path) turns the 16-byte block it starts in from Z/F into F and from
// X into S; a vector load (>= 16 bytes) must find no X or S byte and turns F into X. Joins take the maximum.
const (
	scrZ = iota
	scrF
	scrX
	scrS
)

func (a *xAnalysis) scratchAccess(s *xState, in *Instr, param string, size int, off *Lin, width int, load, store bool) {
	if s.scr == nil {
		s.scr = map[string][]uint8{}
	}
	st, ok := s.scr[param]
	if !ok {
		st = make([]uint8, size)
		s.scr[param] = st
	}
	constOff := off.IsConst()
	c := int(off.C)
	if xDebug && os.Getenv("SMGO_SCR") != "" {
		fmt.Printf("SCR %s %s off=%s w=%d load=%v store=%v st=%v\n", in.Pos, in.Raw, off.String(), width, load, store, st)
	}
	if !constOff && (load || store) && width >= 16 {
		// the pointer was advanced by a copy loop and rewound: ask the facts of the path whether the offset is a block start
		for cand := 0; cand+16 <= size; cand += 16 {
			d := off.Sub(linConst(int64(cand)))
			if ProveNonNeg(d, s.facts) && ProveNonNeg(d.Scale(-1), s.facts) {
				constOff, c = true, cand
				break
			}
		}
	}
	if load && width >= 16 {
		a.res.scratchLoads++
		if !constOff {
			a.res.scratchObl = append(a.res.scratchObl, Obligation{Rule: "SCRATCH-REINIT", Key: fmt.Sprintf("%s/%s: %s", a.r.Arch, a.r.Name, in.Raw), Pos: in.Pos, Status: UNDECIDED, Detail: "vector load from the scratch block at a non-constant offset " + off.String()})
			return
		}
		bad := -1
		for i := c; i < c+width && i < len(st); i++ {
			if i >= 0 && st[i] >= scrX && bad < 0 {
				bad = i
			}
		}
		key := fmt.Sprintf("%s/%s: scratch %s consumed by %s", a.r.Arch, a.r.Name, param, in.Raw)
		if bad >= 0 {
			dup := false
			for _, o := range a.res.scratchObl {
				if o.Key == key && o.Status == VIOLATED {
					dup = true
				}
			}
			if !dup {
				a.res.scratchObl = append(a.res.scratchObl, Obligation{Rule: "SCRATCH-REINIT", Key: key, Pos: in.Pos, Status: VIOLATED,
					Detail: fmt.Sprintf("on a path (%s) byte %d of %s still holds data of an earlier staging when the block is loaded: the partial copy that precedes the load is not preceded by clearing the block", s.trail, bad, param)})
			}
		}
		for i := c; i < c+width && i < len(st); i++ {
			if i >= 0 && st[i] == scrF {
				st[i] = scrX
			}
		}
		return
	}
	if !store {
		return
	}
	if constOff {
		zero := len(in.Args) > 0 && in.Args[0].Kind == OImm && in.Args[0].Imm == 0
		for i := c; i < c+width && i < len(st); i++ {
			if i < 0 {
				continue
			}
			if zero {
				st[i] = scrZ
			} else {
				st[i] = scrF
			}
		}
		return
	}
	// variable-length staging into the block that contains the constant part of the offset
	b := (c / 16) * 16
	for i := b; i < b+16 && i < len(st); i++ {
		if i < 0 {
			continue
		}
		switch st[i] {
		case scrZ:
			st[i] = scrF
		case scrX:
			st[i] = scrS
		}
	}
}
