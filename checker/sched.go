package main

// Schedule evaluation in the exponent domain (C14).
//
// An abstract interpreter for the scalar-multiplication routines of sm2/internal. Integers that do not depend on the scalar
// (loop counters, window parameters, table indices) are concrete; bytes of the scalar are vectors of bit symbols; recoded
// digits are integer symbols; curve points are integer-linear forms over {symbol x base point}: Double multiplies the form
// by 2, Add adds forms, Negate negates, a constant-time table selection with a symbolic index is the linear combination of
// the table entries at the powers of two (after checking that the table is linear in the index bits). Loops with concrete
// bounds are followed iteration by iteration; a loop over a scalar of unknown length is settled by an inductive Horner step.
// Branches on symbolic values (the variable-time verification routine) fork the state; the branches are joined at the
// immediate post-dominator, where two forms that differ only by symbols known to be zero on one side are the same form.
// No repository code is executed and no solver is involved.

import (
	"fmt"
	"go/constant"
	"go/token"
	"go/types"
	"math/big"
	"sort"
	"strings"

	"golang.org/x/tools/go/ssa"
)

// ---------- abstract values ----------

type sInt struct{ v *big.Int }
type sBool struct{ b bool }
type sFloat struct{ f float64 }
type sNil struct{}
type sWord struct{ name string } // an arbitrary machine word (table limb), only selected or masked, never computed with
type sOpaque struct{ why string }

// symbolic integer: bits (LSB first; "" = 0, "1" = 1, otherwise an atom that is 0 or 1) and/or a rational-linear form
type sSym struct {
	bits []string
	lin  map[string]*big.Rat // atom -> coefficient, "" -> constant
	pred *sSym               // this value is pred-1 (table index idiom)
}

type sCond struct { // symbolic boolean: sym OP c
	sym *sSym
	op  token.Token
	c   *big.Int
	len bool // condition on an unknown length (decided by the driver)
}

type sCondInf struct { // symbolic boolean: "the point with this form is the point at infinity" (negated if neg)
	form pform
	neg  bool
}

type sPoint struct{ id int }         // *SM2Point
type sPtr struct{ id, idx int }      // pointer into a heap array (idx -1: the array itself)
type sSlice struct{ id, lo, hi int } // slice of a heap array
type sSymElem struct {               // array element selected by a symbolic index
	id  int
	idx *sSym
}
type sBytes struct { // []byte parameter holding a scalar
	name string
	n    int // -1: unknown length
	off  int // the slice starts at this byte of the parameter (scalar[1:])
}
type sTab struct { // reference into a package-level table
	name string
	path []int
	sym  *sSym // symbolic last index (value = sym; the entry selected is sym, i.e. index value sym.pred-1)
	ptr  bool  // pointer to the node rather than the node value
	lim  int   // > 0: the value is table[:lim] (a shorter window on the same table)
}
type sPTable struct{ forms []pform } // result of TransformPrecomputed
type sStruct struct{ f []sVal }      // struct value (copied on load/store)

type pform map[string]*big.Int // "atom|base" -> coefficient

type hPoint struct{ form pform }
type hArray struct{ elems []sVal }

type sVal interface{}

type sState struct {
	vals      map[ssa.Value]sVal
	heap      map[int]interface{}
	zeros     map[string]bool
	sign      map[string]uint8       // digit atom -> subset of {neg 1, zero 2, pos 4}
	nulls     []pform                // forms known to denote the point at infinity on this path
	ones      map[string]bool        // bit atoms known to be 1 on this path
	ghost     pform                  // weighted sum of the digits stored into the observed output array (sum val * 2^index)
	ghostNext int                    // smallest index at which the next non-zero digit may be stored (spacing rule)
	bnd       map[string][2]*big.Rat // bounds learned from branches on a linear form (keyed by its non-constant part)
	exps      map[int]pform          // exponent forms of field-element limb arrays (addition-chain evaluation)
	// protocol domain
	pfacts    []pFact
	draws     int
	readErrs  int
	drawLens  []int
	hdrDraws  map[*ssa.BasicBlock]int
	pbyteSrc  *pt
	drawSites []ssa.Instruction
	drawSnap  map[ssa.Instruction]map[int]string // protocol objects as they were when a draw site was first reached
	iterDirty []string                           // objects a rejected round left changed for the next round
	dead      bool
	limbTerm  map[int]*pt // value of limb arrays (element decoding)
	geff      []gEffect   // glue domain: effect log
	gfields   map[string]sVal
	loops     map[loopKey]*loopHist // stream domain: per loop header history
	gcells    map[string]int        // package-level variables of the analysed package (heap cells)
}

func (s *sState) clone() *sState {
	n := &sState{nulls: append([]pform(nil), s.nulls...), ones: make(map[string]bool, len(s.ones)), ghost: s.ghost, ghostNext: s.ghostNext, vals: make(map[ssa.Value]sVal, len(s.vals)), heap: make(map[int]interface{}, len(s.heap)), zeros: make(map[string]bool, len(s.zeros)), sign: make(map[string]uint8, len(s.sign))}
	for k, v := range s.vals {
		n.vals[k] = v
	}
	for k, v := range s.heap {
		if a, ok := v.(*hArray); ok {
			n.heap[k] = &hArray{elems: append([]sVal(nil), a.elems...)}
		} else {
			n.heap[k] = v
		}
	}
	for k := range s.zeros {
		n.zeros[k] = true
	}
	for k, v := range s.sign {
		n.sign[k] = v
	}
	for k := range s.ones {
		n.ones[k] = true
	}
	n.pfacts = append([]pFact(nil), s.pfacts...)
	n.pbyteSrc = s.pbyteSrc
	n.drawSites = append([]ssa.Instruction(nil), s.drawSites...)
	n.drawSnap = s.drawSnap // snapshots are never modified after creation
	n.iterDirty = append([]string(nil), s.iterDirty...)
	n.geff = append([]gEffect(nil), s.geff...)
	if s.gfields != nil {
		n.gfields = make(map[string]sVal, len(s.gfields))
		for k, v := range s.gfields {
			n.gfields[k] = v
		}
	}
	if s.loops != nil {
		n.loops = make(map[loopKey]*loopHist, len(s.loops))
		for k, v := range s.loops {
			n.loops[k] = v
		}
	}
	if s.limbTerm != nil {
		n.limbTerm = make(map[int]*pt, len(s.limbTerm))
		for k, v := range s.limbTerm {
			n.limbTerm[k] = v
		}
	}
	if s.gcells != nil {
		n.gcells = make(map[string]int, len(s.gcells))
		for k, v := range s.gcells {
			n.gcells[k] = v
		}
	}
	n.draws, n.readErrs = s.draws, s.readErrs
	n.drawLens = append([]int(nil), s.drawLens...)
	if s.hdrDraws != nil {
		n.hdrDraws = make(map[*ssa.BasicBlock]int, len(s.hdrDraws))
		for k, v := range s.hdrDraws {
			n.hdrDraws[k] = v
		}
	}
	if s.exps != nil {
		n.exps = make(map[int]pform, len(s.exps))
		for k, v := range s.exps {
			n.exps[k] = v
		}
	}
	if s.bnd != nil {
		n.bnd = make(map[string][2]*big.Rat, len(s.bnd))
		for k, v := range s.bnd {
			n.bnd[k] = v
		}
	}
	return n
}

// linKey: canonical text of the non-constant part of a linear form, and its constant
func linKey(x *sSym) (string, *big.Rat) {
	var ks []string
	for a := range x.lin {
		if a != "" {
			ks = append(ks, a)
		}
	}
	sort.Strings(ks)
	var sb strings.Builder
	for _, a := range ks {
		sb.WriteString(a)
		sb.WriteString("*")
		sb.WriteString(x.lin[a].RatString())
		sb.WriteString(";")
	}
	c := x.lin[""]
	if c == nil {
		c = new(big.Rat)
	}
	return sb.String(), c
}

// vanishes: the form is identically zero once the bit values known on this path are substituted
func (s *sState) vanishes(d pform) bool {
	consts := map[string]*big.Int{}
	for k, c := range d {
		i := strings.Index(k, "|")
		atom, base := k[:i], k[i+1:]
		switch {
		case atom == "":
		case s.zeros[atom]:
			continue
		case s.ones[atom]:
		default:
			return false
		}
		if consts[base] == nil {
			consts[base] = new(big.Int)
		}
		consts[base].Add(consts[base], c)
	}
	for _, c := range consts {
		if c.Sign() != 0 {
			return false
		}
	}
	return true
}

// reconcile finds a form that both states can use: f1 is valid under the facts of s1, f2 under those of s2. The common form
// is f1 + X where X = sum over the atoms a of (f2-f1) whose value v(a) is known in s1 of (f2-f1)_a * (a - v(a)) (so X is
// zero in s1); it is accepted when X - (f2-f1) is zero under the facts of s2.
func reconcile(s1 *sState, f1 pform, s2 *sState, f2 pform) (pform, bool) {
	d := pfAdd(f2, pfScale(f1, big.NewInt(-1)))
	if len(d) == 0 {
		return f1, true
	}
	x := pform{}
	for k, c := range d {
		i := strings.Index(k, "|")
		atom, base := k[:i], k[i+1:]
		if atom == "" {
			continue
		}
		switch {
		case s1.zeros[atom]:
			x[k] = c
		case s1.ones[atom]:
			x[k] = c
			ck := pfKey("", base)
			prev := x[ck]
			if prev == nil {
				prev = new(big.Int)
			}
			x[ck] = new(big.Int).Sub(prev, c)
		}
	}
	for k, c := range x {
		if c.Sign() == 0 {
			delete(x, k)
		}
	}
	r := pfAdd(x, pfScale(d, big.NewInt(-1)))
	if !s2.vanishes(r) {
		return nil, false
	}
	return pfAdd(f1, x), true
}

// rangeOf a symbolic integer whose atoms are bits: interval under the bit values known on this path
func (s *sState) rangeOf(x *sSym) (*big.Rat, *big.Rat, bool) {
	lo, hi := new(big.Rat), new(big.Rat)
	for a, c := range x.lin {
		switch {
		case a == "":
			lo.Add(lo, c)
			hi.Add(hi, c)
		case isDigitAtom(a) || strings.HasPrefix(a, "len("):
			return nil, nil, false
		case s.zeros[a]:
		case s.ones[a]:
			lo.Add(lo, c)
			hi.Add(hi, c)
		case c.Sign() > 0:
			hi.Add(hi, c)
		default:
			lo.Add(lo, c)
		}
	}
	if s.bnd != nil {
		key, c := linKey(x)
		if b, ok := s.bnd[key]; ok && key != "" {
			if b[0] != nil {
				if v := new(big.Rat).Add(b[0], c); v.Cmp(lo) > 0 {
					lo = v
				}
			}
			if b[1] != nil {
				if v := new(big.Rat).Add(b[1], c); v.Cmp(hi) < 0 {
					hi = v
				}
			}
		}
	}
	return lo, hi, true
}

// learnBound records (non-constant part of x) >= lo resp. <= hi
func (s *sState) learnBound(x *sSym, lo, hi *big.Rat) {
	key, c := linKey(x)
	if key == "" {
		return
	}
	if s.bnd == nil {
		s.bnd = map[string][2]*big.Rat{}
	}
	b := s.bnd[key]
	if lo != nil {
		v := new(big.Rat).Sub(lo, c)
		if b[0] == nil || v.Cmp(b[0]) > 0 {
			b[0] = v
		}
	}
	if hi != nil {
		v := new(big.Rat).Sub(hi, c)
		if b[1] == nil || v.Cmp(b[1]) < 0 {
			b[1] = v
		}
	}
	s.bnd[key] = b
}

type tabSem struct {
	comb bool
	exps [][]*big.Int // comb: [subtable][entry]; remainder: [0][entry]
	rows int          // coordinate rows per subtable
}

type schedRet struct {
	st   *sState
	vals []sVal
}

type sched struct {
	rootArgs      []sVal                 // arguments of the interpreted entry point
	followed      map[*ssa.Function]bool // functions whose bodies were interpreted (calls followed)
	p             *Prog
	tables        map[string]*tabSem
	nextID        int
	errs          []string
	steps         int
	panics        []string
	forced        []bool          // decisions for conditions on an unknown length, consumed in order
	stopAt        *ssa.BasicBlock // with forced exhausted: stop when this block is reached again
	stopped       []*sState
	pdom          map[*ssa.Function]map[*ssa.BasicBlock]*ssa.BasicBlock
	assume        map[string]bool
	live          map[*ssa.Function]map[*ssa.BasicBlock]map[ssa.Value]bool
	frames        []*ssa.Function // functions being interpreted (innermost last)
	ghostArr      int             // heap id of the observed output array (0: none)
	ghostW        int             // window width for the digit rules
	expOps        int             // field multiplications and squarings followed (addition-chain evaluation)
	expMode       bool            // summarise the Fiat Mul/Square primitives in the exponent domain
	proto         *protoDom       // protocol domain (SM2 entry points)
	precond       []string        // preconditions of summarised operations that the path does not establish
	restarts      []*sState       // states that went back to a retry loop's header after drawing
	digitProblems []string
	digitStores   int
	dbgN          int
	globals       map[string]sVal // driver-supplied values of package-level variables (pointer to their cell)
	dbgLabel      string
	// package initialiser: an operation that cannot be followed does not end the run; the variables that are stored from
	// then on are unknown (reading one of them fails in the function that does)
	lenient       bool
	soft          []string
	softAt        int         // step of the first operation that was not followed (0: none)
	cellStoreStep map[int]int // heap cell -> step of its last store during the initialiser
}

func (e *sched) fail(format string, a ...interface{}) {
	msg := fmt.Sprintf(format, a...)
	if e.lenient {
		if e.softAt == 0 {
			e.softAt = e.steps
			if e.softAt == 0 {
				e.softAt = 1
			}
		}
		if len(e.soft) < 4 {
			e.soft = append(e.soft, msg)
		}
		return
	}
	for _, x := range e.errs {
		if x == msg {
			return
		}
	}
	if len(e.errs) < 8 {
		e.errs = append(e.errs, msg)
	}
}

func (e *sched) newID() int { e.nextID++; return e.nextID }

// ---------- forms ----------

func pfKey(atom, base string) string { return atom + "|" + base }

func pfScale(f pform, k *big.Int) pform {
	out := pform{}
	for a, c := range f {
		v := new(big.Int).Mul(c, k)
		if v.Sign() != 0 {
			out[a] = v
		}
	}
	return out
}

func pfAdd(a, b pform) pform {
	out := pform{}
	for k, c := range a {
		out[k] = c
	}
	for k, c := range b {
		if o, ok := out[k]; ok {
			v := new(big.Int).Add(o, c)
			if v.Sign() == 0 {
				delete(out, k)
			} else {
				out[k] = v
			}
		} else {
			out[k] = c
		}
	}
	return out
}

func pfEqual(a, b pform) bool {
	if len(a) != len(b) {
		return false
	}
	for k, c := range a {
		if o, ok := b[k]; !ok || o.Cmp(c) != 0 {
			return false
		}
	}
	return true
}

// pfDiffAtoms: atoms of a-b
func pfDiffAtoms(a, b pform) []string {
	d := pfAdd(a, pfScale(b, big.NewInt(-1)))
	var out []string
	for k := range d {
		out = append(out, k[:strings.Index(k, "|")])
	}
	sort.Strings(out)
	return out
}

// pfMultiple: d = k*n for an integer k
func pfMultiple(d, n pform) bool {
	if len(d) != len(n) || len(n) == 0 {
		return false
	}
	var k *big.Rat
	for key, c := range n {
		dc, ok := d[key]
		if !ok {
			return false
		}
		r := new(big.Rat).SetFrac(dc, c)
		if !r.IsInt() {
			return false
		}
		if k == nil {
			k = r
		} else if k.Cmp(r) != 0 {
			return false
		}
	}
	return true
}

// nullDiff: on this path a-b denotes the point at infinity: it is an integer combination of forms known to be null
// (decided when the null forms have pairwise disjoint supports: the restriction of the difference to each support must be
// an integer multiple of that form, and nothing may remain).
func (s *sState) nullDiff(a, b pform) bool {
	d := pfAdd(a, pfScale(b, big.NewInt(-1)))
	if len(d) == 0 {
		return true
	}
	used := map[string]bool{}
	rest := len(d)
	for _, n := range s.nulls {
		part := pform{}
		overlap := false
		for k := range n {
			if used[k] {
				overlap = true
			}
			if c, ok := d[k]; ok {
				part[k] = c
			}
		}
		if overlap || len(part) == 0 {
			continue
		}
		if !pfMultiple(part, n) {
			continue
		}
		for k := range n {
			used[k] = true
		}
		rest -= len(part)
	}
	return rest == 0
}

func (s *sState) allZero(atoms []string) bool {
	for _, a := range atoms {
		if a == "" || !s.zeros[a] {
			return false
		}
	}
	return true
}

func (s *sState) form(v sVal) (pform, bool) {
	if p, ok := v.(sPoint); ok {
		if h, ok := s.heap[p.id].(*hPoint); ok {
			return h.form, true
		}
	}
	return nil, false
}

// ---------- symbolic integers ----------

func symFromBits(bits []string) *sSym {
	s := &sSym{bits: bits, lin: map[string]*big.Rat{}}
	for i, b := range bits {
		switch b {
		case "":
		case "1":
			c := s.lin[""]
			if c == nil {
				c = new(big.Rat)
			}
			s.lin[""] = new(big.Rat).Add(c, new(big.Rat).SetInt(pow2(uint(i))))
		default:
			c := s.lin[b]
			if c == nil {
				c = new(big.Rat)
			}
			s.lin[b] = new(big.Rat).Add(c, new(big.Rat).SetInt(pow2(uint(i))))
		}
	}
	return s
}

func symLin(l map[string]*big.Rat) *sSym {
	for k, v := range l {
		if v.Sign() == 0 {
			delete(l, k)
		}
	}
	return &sSym{lin: l}
}

func linAddScaled(a map[string]*big.Rat, b map[string]*big.Rat, k *big.Rat) map[string]*big.Rat {
	out := map[string]*big.Rat{}
	for x, c := range a {
		out[x] = c
	}
	for x, c := range b {
		t := new(big.Rat).Mul(c, k)
		if o, ok := out[x]; ok {
			t.Add(t, o)
		}
		out[x] = t
	}
	return out
}

func constOf(v sVal) (*big.Int, bool) {
	switch x := v.(type) {
	case sInt:
		return x.v, true
	case *sSym:
		if len(x.lin) == 0 {
			return big.NewInt(0), true
		}
		if len(x.lin) == 1 {
			if c, ok := x.lin[""]; ok && c.IsInt() {
				return new(big.Int).Set(c.Num()), true
			}
		}
	}
	return nil, false
}

func toSym(v sVal, width int) *sSym {
	switch x := v.(type) {
	case *sSym:
		return x
	case sInt:
		if x.v.Sign() >= 0 && width > 0 {
			bits := make([]string, width)
			for i := 0; i < width; i++ {
				if x.v.Bit(i) == 1 {
					bits[i] = "1"
				}
			}
			return symFromBits(bits)
		}
		return symLin(map[string]*big.Rat{"": new(big.Rat).SetInt(x.v)})
	}
	return nil
}

func (x *sSym) atoms() []string {
	var out []string
	for k := range x.lin {
		if k != "" {
			out = append(out, k)
		}
	}
	sort.Strings(out)
	return out
}

func isDigitAtom(a string) bool { return strings.HasPrefix(a, "d:") }

// ---------- post-dominators ----------

func (e *sched) ipdom(fn *ssa.Function) map[*ssa.BasicBlock]*ssa.BasicBlock {
	if m, ok := e.pdom[fn]; ok {
		return m
	}
	n := len(fn.Blocks)
	// pd[b] = set of post-dominators of b (bitset over block indices, plus virtual exit n)
	full := make([]bool, n+1)
	for i := range full {
		full[i] = true
	}
	pd := make([][]bool, n)
	for i := range pd {
		pd[i] = append([]bool(nil), full...)
	}
	changed := true
	for changed {
		changed = false
		for i := n - 1; i >= 0; i-- {
			b := fn.Blocks[i]
			nw := make([]bool, n+1)
			if len(b.Succs) == 0 {
				nw[n] = true
			} else {
				for k := range nw {
					nw[k] = true
				}
				for _, s := range b.Succs {
					for k := range nw {
						nw[k] = nw[k] && pd[s.Index][k]
					}
				}
			}
			nw[i] = true
			for k := range nw {
				if nw[k] != pd[i][k] {
					changed = true
				}
			}
			pd[i] = nw
		}
	}
	m := map[*ssa.BasicBlock]*ssa.BasicBlock{}
	for i, b := range fn.Blocks {
		// immediate: the strict post-dominator that is post-dominated by all other strict post-dominators
		var best *ssa.BasicBlock
		for k := 0; k < n; k++ {
			if k == i || !pd[i][k] {
				continue
			}
			ok := true
			for k2 := 0; k2 < n; k2++ {
				if k2 == i || k2 == k || !pd[i][k2] {
					continue
				}
				if !pd[k][k2] {
					ok = false
					break
				}
			}
			if ok {
				best = fn.Blocks[k]
				break
			}
		}
		m[b] = best
	}
	e.pdom[fn] = m
	return m
}

// ---------- evaluation of values ----------

func (e *sched) constVal(c *ssa.Const) sVal {
	if c.Value == nil {
		return sNil{}
	}
	switch c.Value.Kind() {
	case constant.Int:
		v, _ := new(big.Int).SetString(c.Value.ExactString(), 10)
		if b, ok := c.Type().Underlying().(*types.Basic); ok && b.Info()&types.IsFloat != 0 {
			f, _ := new(big.Float).SetInt(v).Float64()
			return sFloat{f}
		}
		return sInt{v}
	case constant.Bool:
		return sBool{constant.BoolVal(c.Value)}
	case constant.Float:
		f, _ := constant.Float64Val(c.Value)
		if b, ok := c.Type().Underlying().(*types.Basic); ok && b.Info()&types.IsInteger != 0 {
			return sInt{big.NewInt(int64(f))}
		}
		return sFloat{f}
	}
	return sOpaque{"constant"}
}

func (e *sched) get(st *sState, v ssa.Value) sVal {
	switch x := v.(type) {
	case *ssa.Const:
		return e.constVal(x)
	case *ssa.Global:
		name := x.Name()
		if _, ok := e.tables[name]; ok {
			return sTab{name: name, ptr: true}
		}
		if g, ok := e.globals[name]; ok {
			return g
		}
		if e.proto != nil {
			if mk, ok := e.proto.globals[name]; ok {
				return mk(st)
			}
			if st.gcells != nil && x.Pkg != nil && len(e.frames) > 0 && x.Pkg == e.frames[0].Pkg {
				id, ok := st.gcells[name]
				elemT := x.Type().Underlying().(*types.Pointer).Elem()
				at, isArr := elemT.Underlying().(*types.Array)
				if isArr && (at.Len() > 4096 || allocKind(at.Elem()) != "") {
					isArr = false
				}
				if !ok {
					id = e.newID()
					if isArr {
						// an array variable is the array object itself
						arr := &hArray{elems: make([]sVal, at.Len())}
						for i := range arr.elems {
							arr.elems[i] = e.zeroOf(at.Elem())
						}
						st.heap[id] = arr
					} else {
						st.heap[id] = &hArray{elems: []sVal{e.zeroOf(elemT)}}
					}
					st.gcells[name] = id
				}
				if isArr {
					return sPtr{id, -1}
				}
				return sPtr{id, 0}
			}
		}
		return sOpaque{"global " + name}
	case *ssa.Function:
		return sOpaque{"func"}
	}
	if r, ok := st.vals[v]; ok {
		return r
	}
	return sOpaque{"undefined " + v.Name()}
}

func intWidth(t types.Type) (int, bool) { return typeBits(t) }

// wrapInt brings a concrete integer into the range of t
func wrapInt(v *big.Int, t types.Type) *big.Int {
	w, signed := typeBits(t)
	if w == 0 {
		return v
	}
	m := pow2(uint(w))
	r := new(big.Int).Mod(v, m)
	if signed && r.Cmp(pow2(uint(w-1))) >= 0 {
		r.Sub(r, m)
	}
	return r
}

func (e *sched) binop(st *sState, x *ssa.BinOp) sVal {
	a, b := e.get(st, x.X), e.get(st, x.Y)
	if e.proto != nil {
		if r, ok := e.proto.binop(st, x, a, b); ok {
			return r
		}
		if r, ok := e.proto.nilCompare(x, a, b); ok {
			return r
		}
	}
	// pointers to modelled objects compare by identity (aliasing of receiver and operands is a concrete fact of a run)
	if x.Op == token.EQL || x.Op == token.NEQ {
		if pa, ok := a.(sPtr); ok {
			if pb, ok := b.(sPtr); ok {
				return sBool{(pa == pb) == (x.Op == token.EQL)}
			}
		}
		if pa, ok := a.(pObj); ok {
			if pb, ok := b.(pObj); ok {
				return sBool{(pa == pb) == (x.Op == token.EQL)}
			}
		}
	}
	// concrete
	if ai, ok := a.(sInt); ok {
		if bi2, ok := b.(sInt); ok {
			return e.concreteBin(x, ai.v, bi2.v)
		}
	}
	if af, ok := a.(sFloat); ok {
		if bf, ok := b.(sFloat); ok {
			switch x.Op {
			case token.ADD:
				return sFloat{af.f + bf.f}
			case token.SUB:
				return sFloat{af.f - bf.f}
			case token.MUL:
				return sFloat{af.f * bf.f}
			case token.QUO:
				return sFloat{af.f / bf.f}
			}
		}
	}
	if ab, ok := a.(sBool); ok {
		if bb, ok := b.(sBool); ok {
			switch x.Op {
			case token.EQL:
				return sBool{ab.b == bb.b}
			case token.NEQ:
				return sBool{ab.b != bb.b}
			}
		}
	}
	// machine words are only masked with all-ones / zero and OR-ed with zero
	if wa, ok := a.(sWord); ok {
		if bi2, ok := b.(sInt); ok {
			return wordOp(x.Op, wa, bi2.v, x.Type())
		}
		return sOpaque{"operation on two table words"}
	}
	if wb, ok := b.(sWord); ok {
		if ai2, ok := a.(sInt); ok && (x.Op == token.AND || x.Op == token.OR || x.Op == token.XOR) {
			return wordOp(x.Op, wb, ai2.v, x.Type())
		}
		return sOpaque{"operation on two table words"}
	}
	// nil comparisons of pointers
	if _, ok := b.(sNil); ok {
		switch a.(type) {
		case sNil:
			return sBool{x.Op == token.EQL}
		case sTab, sPoint, sPtr, sSlice, sBytes, sPTable:
			return sBool{x.Op == token.NEQ}
		}
	}
	if _, ok := a.(sNil); ok {
		switch b.(type) {
		case sTab, sPoint, sPtr, sSlice, sBytes, sPTable:
			return sBool{x.Op == token.NEQ}
		}
	}
	// symbolic
	w, _ := typeBits(x.X.Type())
	as, bs := toSym(a, w), toSym(b, w)
	if as == nil || bs == nil {
		return sOpaque{"binop on " + fmt.Sprintf("%T,%T", a, b)}
	}
	// x & (2^k-1) and x >> k on a linear form over input bits: the part of the form that is a multiple of 2^k and the rest
	// separate when the rest stays inside [0, 2^k)
	if as.bits == nil && len(as.lin) > 0 {
		if c, ok := constOf(b); ok {
			if r := e.linSplit(st, x.Op, as, c); r != nil {
				return r
			}
		}
	}
	// a bit operation on a linear form that depends on a single unknown bit: evaluate both cases and interpolate
	switch x.Op {
	case token.AND, token.OR, token.XOR, token.AND_NOT, token.SHL, token.SHR, token.REM, token.QUO:
		if (as.bits == nil && len(as.lin) > 0) || (bs.bits == nil && len(bs.lin) > 0) {
			if r := e.interpolate1(st, x, as, bs); r != nil {
				return r
			}
		}
	}
	bc, bconst := constOf(b)
	ac, aconst := constOf(a)
	switch x.Op {
	case token.EQL, token.NEQ, token.LSS, token.LEQ, token.GTR, token.GEQ:
		for _, sy := range []*sSym{as, bs} {
			for _, at := range sy.atoms() {
				if strings.HasPrefix(at, "len(") {
					return sCond{sym: sy, op: x.Op, c: big.NewInt(0), len: true}
				}
			}
		}
		if bconst {
			return sCond{sym: as, op: x.Op, c: bc}
		}
		if aconst {
			// c OP sym  ->  sym OP' c
			rev := map[token.Token]token.Token{token.EQL: token.EQL, token.NEQ: token.NEQ, token.LSS: token.GTR, token.LEQ: token.GEQ, token.GTR: token.LSS, token.GEQ: token.LEQ}
			return sCond{sym: bs, op: rev[x.Op], c: ac}
		}
		return sOpaque{"comparison of two symbolic values"}
	case token.SHR:
		if !bconst {
			return sOpaque{"symbolic shift count"}
		}
		k := int(bc.Int64())
		if as.bits != nil {
			nb := make([]string, len(as.bits))
			for i := range nb {
				if i+k < len(as.bits) {
					nb[i] = as.bits[i+k]
				}
			}
			return symFromBits(nb)
		}
		// exact division by 2^k of a form known to be a multiple (digits are odd)
		if k == 1 && e.evenForm(as) {
			return symLin(linAddScaled(map[string]*big.Rat{}, as.lin, big.NewRat(1, 2)))
		}
		return sOpaque{"shift of a value without bit structure"}
	case token.SHL:
		if !bconst {
			return sOpaque{"symbolic shift count"}
		}
		k := int(bc.Int64())
		if as.bits != nil {
			nb := make([]string, len(as.bits))
			for i := range nb {
				if i-k >= 0 {
					nb[i] = as.bits[i-k]
				}
			}
			return symFromBits(nb)
		}
		// a linear form over input bits that stays far from the width of the type: a multiplication
		if lo, hi, ok := st.rangeOf(as); ok && k < 32 {
			lim := new(big.Rat).SetInt(pow2(30))
			if hi.Cmp(lim) < 0 && lo.Cmp(new(big.Rat).Neg(lim)) > 0 {
				return symLin(linAddScaled(map[string]*big.Rat{}, as.lin, new(big.Rat).SetInt(pow2(uint(k)))))
			}
		}
		return sOpaque{"shift of a value without bit structure"}
	case token.AND, token.OR, token.XOR, token.AND_NOT:
		if as.bits == nil || bs.bits == nil {
			return sOpaque{"bit operation on a value without bit structure"}
		}
		n := len(as.bits)
		if len(bs.bits) > n {
			n = len(bs.bits)
		}
		nb := make([]string, n)
		for i := 0; i < n; i++ {
			var p, q string
			if i < len(as.bits) {
				p = as.bits[i]
			}
			if i < len(bs.bits) {
				q = bs.bits[i]
			}
			switch x.Op {
			case token.AND:
				switch {
				case p == "" || q == "":
					nb[i] = ""
				case p == "1":
					nb[i] = q
				case q == "1":
					nb[i] = p
				case p == q:
					nb[i] = p
				default:
					return sOpaque{"AND of two different symbolic bits"}
				}
			case token.OR:
				switch {
				case p == "":
					nb[i] = q
				case q == "":
					nb[i] = p
				case p == "1" || q == "1":
					nb[i] = "1"
				case p == q:
					nb[i] = p
				default:
					return sOpaque{"OR of two different symbolic bits"}
				}
			case token.XOR:
				switch {
				case p == "":
					nb[i] = q
				case q == "":
					nb[i] = p
				case p == q:
					nb[i] = ""
				case (p == "1" || q == "1") && i == 0 && singleBit(as) && singleBit(bs):
					// bit ^ 1 on one-bit values: 1 - bit (a linear form; there is no bit symbol for a negated bit)
					a := p
					if a == "1" {
						a = q
					}
					return symLin(map[string]*big.Rat{"": big.NewRat(1, 1), a: big.NewRat(-1, 1)})
				default:
					return sOpaque{"XOR of symbolic bits"}
				}
			case token.AND_NOT:
				switch {
				case p == "" || q == "1" || p == q:
					nb[i] = ""
				case q == "":
					nb[i] = p
				default:
					return sOpaque{"AND NOT of symbolic bits"}
				}
			}
		}
		return symFromBits(nb)
	case token.ADD, token.SUB:
		k := big.NewRat(1, 1)
		if x.Op == token.SUB {
			k = big.NewRat(-1, 1)
		}
		out := symLin(linAddScaled(as.lin, bs.lin, k))
		if x.Op == token.SUB && bconst && bc.Cmp(big.NewInt(1)) == 0 && as.bits != nil {
			out.pred = as
		}
		return out
	case token.MUL:
		if bconst {
			return symLin(linAddScaled(map[string]*big.Rat{}, as.lin, new(big.Rat).SetInt(bc)))
		}
		if aconst {
			return symLin(linAddScaled(map[string]*big.Rat{}, bs.lin, new(big.Rat).SetInt(ac)))
		}
	}
	return sOpaque{"unsupported symbolic operation " + x.Op.String()}
}

func wordOp(op token.Token, w sWord, c *big.Int, t types.Type) sVal {
	_, max := typeRange(t)
	switch op {
	case token.AND:
		if c.Sign() == 0 {
			return sInt{big.NewInt(0)}
		}
		if c.Cmp(max) == 0 {
			return w
		}
	case token.OR, token.XOR:
		if c.Sign() == 0 {
			return w
		}
	}
	return sOpaque{"table word combined with a partial mask"}
}

// interpolate1: both operands are affine in at most one common free bit atom (all other atoms have known values):
// compute the operation for atom = 0 and atom = 1 and return c0 + (c1-c0)*atom.
func (e *sched) interpolate1(st *sState, x *ssa.BinOp, as, bs *sSym) sVal {
	free := ""
	for _, sy := range []*sSym{as, bs} {
		for a := range sy.lin {
			if a == "" || st.zeros[a] || st.ones[a] {
				continue
			}
			if isDigitAtom(a) || strings.HasPrefix(a, "len(") {
				return nil
			}
			if free != "" && free != a {
				return nil
			}
			free = a
		}
	}
	evalAt := func(sy *sSym, v int64) (*big.Int, bool) {
		sum := new(big.Rat)
		for a, c := range sy.lin {
			switch {
			case a == "":
				sum.Add(sum, c)
			case st.zeros[a]:
			case st.ones[a]:
				sum.Add(sum, c)
			case a == free:
				sum.Add(sum, new(big.Rat).Mul(c, big.NewRat(v, 1)))
			}
		}
		if !sum.IsInt() {
			return nil, false
		}
		return new(big.Int).Set(sum.Num()), true
	}
	var res [2]*big.Int
	for v := int64(0); v < 2; v++ {
		av, ok1 := evalAt(as, v)
		bv, ok2 := evalAt(bs, v)
		if !ok1 || !ok2 {
			return nil
		}
		r, ok := e.concreteBin(x, av, bv).(sInt)
		if !ok {
			return nil
		}
		res[v] = r.v
		if free == "" {
			return sInt{r.v}
		}
	}
	d := new(big.Int).Sub(res[1], res[0])
	l := map[string]*big.Rat{}
	if res[0].Sign() != 0 {
		l[""] = new(big.Rat).SetInt(res[0])
	}
	if d.Sign() != 0 {
		l[free] = new(big.Rat).SetInt(d)
	}
	out := symLin(l)
	// keep a bit representation when the result is the bit itself
	if res[0].Sign() == 0 && d.Cmp(big.NewInt(1)) == 0 {
		w, _ := typeBits(x.Type())
		if w > 0 {
			bits := make([]string, w)
			bits[0] = free
			return symFromBits(bits)
		}
	}
	return out
}

// evenForm: a form a*d + c over digit atoms (odd or zero...) - only used after d != 0 is known; digits are odd by the
// recoding contract, so a*d+c is even iff a+c is even (a, c integers).
func (e *sched) evenForm(s *sSym) bool {
	sum := new(big.Rat)
	for a, c := range s.lin {
		if !c.IsInt() {
			return false
		}
		if a != "" && !isDigitAtom(a) {
			return false
		}
		sum.Add(sum, c)
	}
	e.assume["recoded digits are zero or odd (DecomposeNAF contract)"] = true
	return new(big.Int).Mod(sum.Num(), big.NewInt(2)).Sign() == 0
}

func (e *sched) concreteBin(x *ssa.BinOp, a, b *big.Int) sVal {
	t := x.Type()
	switch x.Op {
	case token.ADD:
		return sInt{wrapInt(new(big.Int).Add(a, b), t)}
	case token.SUB:
		return sInt{wrapInt(new(big.Int).Sub(a, b), t)}
	case token.MUL:
		return sInt{wrapInt(new(big.Int).Mul(a, b), t)}
	case token.QUO:
		if b.Sign() == 0 {
			return sOpaque{"division by zero"}
		}
		return sInt{new(big.Int).Quo(a, b)}
	case token.REM:
		if b.Sign() == 0 {
			return sOpaque{"division by zero"}
		}
		return sInt{new(big.Int).Rem(a, b)}
	case token.AND:
		return sInt{wrapInt(new(big.Int).And(a, b), t)}
	case token.OR:
		return sInt{wrapInt(new(big.Int).Or(a, b), t)}
	case token.XOR:
		return sInt{wrapInt(new(big.Int).Xor(a, b), t)}
	case token.AND_NOT:
		return sInt{wrapInt(new(big.Int).AndNot(a, b), t)}
	case token.SHL:
		if b.IsUint64() && b.Uint64() < 512 {
			return sInt{wrapInt(new(big.Int).Lsh(a, uint(b.Uint64())), t)}
		}
	case token.SHR:
		if b.IsUint64() && b.Uint64() < 512 {
			return sInt{new(big.Int).Rsh(a, uint(b.Uint64()))}
		}
	case token.EQL:
		return sBool{a.Cmp(b) == 0}
	case token.NEQ:
		return sBool{a.Cmp(b) != 0}
	case token.LSS:
		return sBool{a.Cmp(b) < 0}
	case token.LEQ:
		return sBool{a.Cmp(b) <= 0}
	case token.GTR:
		return sBool{a.Cmp(b) > 0}
	case token.GEQ:
		return sBool{a.Cmp(b) >= 0}
	}
	return sOpaque{"unsupported concrete operation " + x.Op.String()}
}

// ---------- tables ----------

func (e *sched) tabLen(t sTab) (int, bool) {
	sem := e.tables[t.name]
	if sem == nil {
		return 0, false
	}
	if sem.comb {
		switch len(t.path) {
		case 0:
			return len(sem.exps), true
		case 1:
			return sem.rows, true
		case 2:
			return len(sem.exps[t.path[0]]), true
		}
	} else {
		switch len(t.path) {
		case 0:
			return sem.rows, true
		case 1:
			return len(sem.exps[0]), true
		}
	}
	return 0, false
}

// entryForms of a table row set: forms of entries 1..width (index value v selects entry v)
func (e *sched) tabEntries(t sTab) ([]pform, bool) {
	sem := e.tables[t.name]
	if sem == nil {
		return nil, false
	}
	var ex []*big.Int
	if sem.comb {
		if len(t.path) != 1 || t.path[0] >= len(sem.exps) {
			return nil, false
		}
		ex = sem.exps[t.path[0]]
	} else {
		if len(t.path) != 0 {
			return nil, false
		}
		ex = sem.exps[0]
	}
	var out []pform
	for _, x := range ex {
		out = append(out, pform{pfKey("", "G"): x})
	}
	return out, true
}

// lookup: entries E[1..m] (E[0] is the point at infinity), index a symbolic value with bits
func (e *sched) lookup(entries []pform, idx sVal, what string) (pform, bool) {
	if c, ok := constOf(idx); ok {
		if c.Sign() == 0 {
			return pform{}, true
		}
		if c.IsInt64() && int(c.Int64()) <= len(entries) && c.Sign() > 0 {
			return entries[c.Int64()-1], true
		}
		e.fail("%s: constant index %s outside the table", what, c)
		return nil, false
	}
	s, ok := idx.(*sSym)
	if !ok || s.bits == nil {
		e.fail("%s: index has no bit structure", what)
		return nil, false
	}
	// number of possibly non-zero bits
	wbits := 0
	for i, b := range s.bits {
		if b != "" {
			wbits = i + 1
		}
	}
	if (1<<uint(wbits))-1 > len(entries) {
		e.fail("%s: index can reach %d but the table has %d entries", what, (1<<uint(wbits))-1, len(entries))
		return nil, false
	}
	// linearity of the table in the index bits
	for v := 1; v < 1<<uint(wbits); v++ {
		sum := pform{}
		for t := 0; t < wbits; t++ {
			if v>>uint(t)&1 == 1 {
				sum = pfAdd(sum, entries[(1<<uint(t))-1])
			}
		}
		if !pfEqual(sum, entries[v-1]) {
			e.fail("%s: table entry %d is not the sum of the entries at its index bits", what, v)
			return nil, false
		}
	}
	out := pform{}
	for t := 0; t < wbits; t++ {
		switch s.bits[t] {
		case "":
		case "1":
			out = pfAdd(out, entries[(1<<uint(t))-1])
		default:
			for k, c := range entries[(1<<uint(t))-1] {
				atom, base := k[:strings.Index(k, "|")], k[strings.Index(k, "|")+1:]
				if atom != "" {
					e.fail("%s: table entries are not constants", what)
					return nil, false
				}
				out = pfAdd(out, pform{pfKey(s.bits[t], base): c})
			}
		}
	}
	return out, true
}

// affine lookup: entries E[0..m-1] with E[j] = (alpha*j + beta) * B ; index a rational-linear form
func (e *sched) affineLookup(st *sState, arr *hArray, idx *sSym, what string) (pform, bool) {
	var coef []*big.Int
	base := ""
	for j, el := range arr.elems {
		f, ok := st.form(el)
		if !ok || len(f) != 1 {
			e.fail("%s: element %d is not a constant multiple of one base point", what, j)
			return nil, false
		}
		for k, c := range f {
			atom, b := k[:strings.Index(k, "|")], k[strings.Index(k, "|")+1:]
			if atom != "" || (base != "" && b != base) {
				e.fail("%s: element %d is not a constant multiple of one base point", what, j)
				return nil, false
			}
			base = b
			coef = append(coef, c)
		}
	}
	if len(coef) < 2 {
		e.fail("%s: table too small", what)
		return nil, false
	}
	alpha := new(big.Int).Sub(coef[1], coef[0])
	beta := coef[0]
	for j := range coef {
		want := new(big.Int).Add(new(big.Int).Mul(alpha, big.NewInt(int64(j))), beta)
		if want.Cmp(coef[j]) != 0 {
			e.fail("%s: elements are not an arithmetic progression of multiples", what)
			return nil, false
		}
	}
	out := pform{}
	for a, c := range idx.lin {
		v := new(big.Rat).Mul(c, new(big.Rat).SetInt(alpha))
		if a == "" {
			v.Add(v, new(big.Rat).SetInt(beta))
		}
		if !v.IsInt() {
			e.fail("%s: index form has a non-integral coefficient", what)
			return nil, false
		}
		if v.Sign() != 0 {
			out[pfKey(a, base)] = new(big.Int).Set(v.Num())
		}
	}
	if _, ok := idx.lin[""]; !ok && beta.Sign() != 0 {
		out[pfKey("", base)] = beta
	}
	return out, true
}

// linParts splits a linear form over input bits (integer coefficients, known bits substituted) at 2^k: hi collects the terms
// that are multiples of 2^k, lo the rest; the constant is split as well. free lists the unknown atoms of lo.
func (e *sched) linParts(st *sState, as *sSym, k uint) (hi, lo map[string]*big.Rat, free []string, ok bool) {
	m := pow2(k)
	hi, lo = map[string]*big.Rat{}, map[string]*big.Rat{}
	konst := new(big.Int)
	for a, c := range as.lin {
		if !c.IsInt() {
			return nil, nil, nil, false
		}
		switch {
		case a == "" || st.ones[a]:
			konst.Add(konst, c.Num())
		case st.zeros[a]:
		case isDigitAtom(a) || strings.HasPrefix(a, "len("):
			return nil, nil, nil, false
		case new(big.Int).Mod(c.Num(), m).Sign() == 0:
			hi[a] = c
		default:
			lo[a] = c
			free = append(free, a)
		}
	}
	cl := new(big.Int).Mod(konst, m) // Euclidean: 0 <= cl < 2^k
	ch := new(big.Int).Sub(konst, cl)
	if cl.Sign() != 0 {
		lo[""] = new(big.Rat).SetInt(cl)
	}
	if ch.Sign() != 0 {
		hi[""] = new(big.Rat).SetInt(ch)
	}
	sort.Strings(free)
	return hi, lo, free, true
}

// linFits: the low part stays inside [0, 2^k)
func (e *sched) linFits(st *sState, lo map[string]*big.Rat, k uint) bool {
	l, h, ok := st.rangeOf(&sSym{lin: lo})
	return ok && l.Sign() >= 0 && h.Cmp(new(big.Rat).SetInt(pow2(k))) < 0
}

// linSplit: as & (2^k-1) (c = 2^k-1) or as >> k (c = k) for a linear form without bit structure; nil when the rule does not apply
func (e *sched) linSplit(st *sState, op token.Token, as *sSym, c *big.Int) sVal {
	var k uint
	switch op {
	case token.AND:
		c1 := new(big.Int).Add(c, big.NewInt(1))
		if c.Sign() <= 0 || c1.BitLen() > 32 || new(big.Int).And(c, c1).Sign() != 0 {
			return nil
		}
		k = uint(c1.BitLen() - 1)
	case token.SHR:
		if c.Sign() <= 0 || c.Cmp(big.NewInt(32)) >= 0 {
			return nil
		}
		k = uint(c.Int64())
	default:
		return nil
	}
	hi, lo, free, ok := e.linParts(st, as, k)
	if !ok {
		return nil
	}
	scaleDown := func(l map[string]*big.Rat) map[string]*big.Rat {
		return linAddScaled(map[string]*big.Rat{}, l, new(big.Rat).SetFrac(big.NewInt(1), pow2(k)))
	}
	asBit := func(l map[string]*big.Rat) sVal {
		// the bit itself keeps a bit representation
		if len(l) == 1 {
			for a, co := range l {
				if a != "" && co.Cmp(big.NewRat(1, 1)) == 0 {
					bits := make([]string, 64)
					bits[0] = a
					return symFromBits(bits)
				}
			}
		}
		if len(l) == 0 {
			return sInt{big.NewInt(0)}
		}
		if len(l) == 1 && l[""] != nil && l[""].IsInt() {
			return sInt{new(big.Int).Set(l[""].Num())}
		}
		return symLin(l)
	}
	if e.linFits(st, lo, k) {
		if op == token.AND {
			return asBit(linAddScaled(map[string]*big.Rat{}, lo, big.NewRat(1, 1)))
		}
		return asBit(scaleDown(hi))
	}
	if len(free) == 1 {
		// one unknown bit in the low part: both cases
		a := free[0]
		c0 := new(big.Int)
		if lo[""] != nil {
			c0.Set(lo[""].Num())
		}
		c1 := new(big.Int).Add(c0, lo[a].Num())
		m := pow2(k)
		var r0, r1 *big.Int
		out := map[string]*big.Rat{}
		if op == token.AND {
			r0, r1 = new(big.Int).Mod(c0, m), new(big.Int).Mod(c1, m)
		} else {
			// floor division of the low part; the high part is added below
			r0, r1 = new(big.Int).Div(new(big.Int).Sub(c0, new(big.Int).Mod(c0, m)), m), new(big.Int).Div(new(big.Int).Sub(c1, new(big.Int).Mod(c1, m)), m)
			out = scaleDown(hi)
		}
		res := map[string]*big.Rat{"": new(big.Rat).SetInt(r0), a: new(big.Rat).SetInt(new(big.Int).Sub(r1, r0))}
		return asBit(symLin(linAddScaled(out, res, big.NewRat(1, 1))).lin)
	}
	return nil
}

// splitBits: x & (2^k-1) or x >> k on a linear form whose low part depends on several unknown input bits and can leave
// [0, 2^k) (a window plus a carry bit): the state is split on those bits, one at a time, until linSplit applies
func (e *sched) splitBits(st *sState, in ssa.Instruction) []*sState {
	x, ok := in.(*ssa.BinOp)
	if !ok || (x.Op != token.AND && x.Op != token.SHR) {
		return nil
	}
	as, ok := e.get(st, x.X).(*sSym)
	if !ok || as.bits != nil || len(as.lin) == 0 {
		return nil
	}
	c, ok := constOf(e.get(st, x.Y))
	if !ok {
		return nil
	}
	var k uint
	if x.Op == token.AND {
		c1 := new(big.Int).Add(c, big.NewInt(1))
		if c.Sign() <= 0 || c1.BitLen() > 32 || new(big.Int).And(c, c1).Sign() != 0 {
			return nil
		}
		k = uint(c1.BitLen() - 1)
	} else {
		if c.Sign() <= 0 || c.Cmp(big.NewInt(32)) >= 0 {
			return nil
		}
		k = uint(c.Int64())
	}
	var out []*sState
	work := []*sState{st}
	for len(work) > 0 {
		cur := work[len(work)-1]
		work = work[:len(work)-1]
		_, lo, free, ok := e.linParts(cur, as, k)
		if !ok || len(free) <= 1 || e.linFits(cur, lo, k) || len(out) > 256 {
			if cur != st {
				out = append(out, cur)
			}
			continue
		}
		other := cur.clone()
		cur.zeros[free[0]] = true
		other.ones[free[0]] = true
		work = append(work, cur, other)
	}
	return out
}

// concretise: a symbolic integer all of whose bits are known on the path is its value (it keeps states apart like any
// concrete value)
func (e *sched) concretise(st *sState) {
	for k, v := range st.vals {
		sy, ok := v.(*sSym)
		if !ok || sy.pred != nil || len(sy.lin) == 0 {
			continue
		}
		sum := new(big.Rat)
		known := true
		for a, c := range sy.lin {
			switch {
			case a == "" || st.ones[a]:
				sum.Add(sum, c)
			case st.zeros[a]:
			default:
				known = false
			}
		}
		if known && sum.IsInt() {
			st.vals[k] = sInt{new(big.Int).Set(sum.Num())}
		}
	}
}

// singleBit: only bit 0 of the vector can be set
func singleBit(s *sSym) bool {
	if s.bits == nil {
		return false
	}
	for i, b := range s.bits {
		if i > 0 && b != "" {
			return false
		}
	}
	return true
}
