package main

import (
	"bytes"
	"encoding/binary"
	"fmt"
	"go/ast"
	"go/types"
	"golang.org/x/tools/go/packages"
	"math/big"
	"strings"
)

func init() { register("C18", "proof", checkC18) }

type scheme struct {
	w, s, it, rem int
	table, remTbl string
	site          string
}

func checkC18(c *Ctx, r *Report) {
	r.Explanation = "G6(a)+A5: every table literal is read from the AST (go/constant) or from the assembler's data-symbol dump and compared with the value the checker derives independently from the published definition (own math/big curve arithmetic, own GF(2^8), own rotations, own model of VGF2P8AFFINE(INV)QB). Complete enumeration of a finite space; no repository code runs."
	r.Trusted = []string{"go/parser, go/types, go/constant", "go tool asm -S data symbol dumps", "math/big", "GB/T 32907 S-box algebraic definition (circulant 0xA7 affine map, constant 0xD3, field x^8+x^7+x^6+x^5+x^4+x^2+1)", "Intel SDM definition of VGF2P8AFFINEQB / VGF2P8AFFINEINVQB"}
	p, err := LoadRepo(c.Repo, "amd64")
	if err != nil {
		r.Fatalf("%v", err)
		return
	}
	f := NewFolder(p)
	cv := c18Curve(r, f)
	if cv == nil {
		return
	}
	c18Tables(c, r, p, f, cv)
	c18FoldedConstants(r, p, f, cv)
	sbox := c18SM4(r, p, f)
	c18SM3(r, p, f)
	c18Asm(c, r, p, f, sbox)
	r.Floor("sm2_table_points", 300)
	r.Floor("sm2_schemes", 2)
	r.Floor("sbox_entries", 256)
	r.Floor("ttable_entries", 1024)
	r.Floor("ck_entries", 32)
	r.Floor("fk_entries", 4)
	r.Floor("sm3_tj_entries", 64)
	r.Floor("sm3_iv_entries", 8)
	r.Floor("asm_data_symbols", 8)
	r.Floor("gfni_affine_pairs", 1)
}

func c18Curve(r *Report, f *Folder) *curveT {
	cv := &curveT{}
	var err error
	get := func(n string) *big.Int {
		v, e := f.CurveInt(n)
		if e != nil {
			err = e
		}
		return v
	}
	cv.p, cv.n, cv.b, cv.gx, cv.gy = get("P"), get("N"), get("B"), get("Gx"), get("Gy")
	if err != nil {
		r.Fatalf("unresolved anchor: curve parameters: %v", err)
		return nil
	}
	// The curve literal itself is checked against GM/T 0003.5-2012 (the published recommended parameters).
	std := map[string]string{
		"P":  "FFFFFFFEFFFFFFFFFFFFFFFFFFFFFFFFFFFFFFFF00000000FFFFFFFFFFFFFFFF",
		"N":  "FFFFFFFEFFFFFFFFFFFFFFFFFFFFFFFF7203DF6B21C6052B53BBF40939D54123",
		"B":  "28E9FA9E9D9F5E344D5A9E4BCF6509A7F39789F515AB8F92DDBCBD414D940E93",
		"Gx": "32C4AE2C1F1981195F9904466A39C9948FE30BBFF2660BE1715A4589334C74C7",
		"Gy": "BC3736A2F4F6779C59BDCEE36B692153D0A9877CC62A474002DF32E52139F0A0",
	}
	vals := map[string]*big.Int{"P": cv.p, "N": cv.n, "B": cv.b, "Gx": cv.gx, "Gy": cv.gy}
	for k, h := range std {
		want, _ := new(big.Int).SetString(h, 16)
		r.Check(vals[k].Cmp(want) == 0, "CURVE-PARAM", "sm2/internal.CurveParams."+k, "sm2/internal/sm2_curve.go", fmt.Sprintf("literal %x vs GM/T 0003.5 %x", vals[k], want))
	}
	r.Check(cv.onCurve(affPoint{x: cv.gx, y: cv.gy}), "CURVE-PARAM", "G on curve", "sm2/internal/sm2_curve.go", "Gy^2 = Gx^3 - 3Gx + b mod p")
	r.Check(cv.p.ProbablyPrime(32) && cv.n.ProbablyPrime(32), "CURVE-PARAM", "p, n prime", "sm2/internal/sm2_curve.go", "Miller-Rabin")
	return cv
}

// limbsOf reads &([4]uint64{a,b,c,d}).
func limbsOf(n *litNode) ([4]uint64, bool) {
	var out [4]uint64
	if n == nil || len(n.kids) != 4 {
		return out, false
	}
	for i, k := range n.kids {
		if k.leaf == nil || !k.leaf.IsUint64() {
			return out, false
		}
		out[i] = k.leaf.Uint64()
	}
	return out, true
}

func c18Tables(c *Ctx, r *Report, p *Prog, f *Folder, cv *curveT) {
	// 1. schemes from the call sites of the generic comb routine (table <-> parameters pairing as USED)
	pk := p.Pkgs["sm2/internal"]
	var schemes []scheme
	generic := pk.Types.Scope().Lookup("scalarBaseMult_SkipBitExtration")
	if generic == nil {
		// the generic routine is gone: the schemes may be values of a struct type that pairs the four parameters (its first
		// four integer fields, in declaration order: window, sub-tables, iterations, remainder) with the tables
		schemes = c18SchemeLiterals(r, p, pk)
		if len(schemes) == 0 {
			r.Fatalf("unresolved anchor: sm2/internal.scalarBaseMult_SkipBitExtration")
			return
		}
	}
	for _, file := range pk.Syntax {
		if generic == nil {
			break
		}
		ast.Inspect(file, func(n ast.Node) bool {
			call, ok := n.(*ast.CallExpr)
			if !ok {
				return true
			}
			id, ok := call.Fun.(*ast.Ident)
			if !ok || pk.TypesInfo.Uses[id] != generic {
				return true
			}
			if len(call.Args) != 7 {
				r.Fatalf("call of scalarBaseMult_SkipBitExtration with %d args at %s", len(call.Args), p.Pos(call.Pos()))
				return true
			}
			sc := scheme{site: p.Pos(call.Pos())}
			nameOf := func(e ast.Expr) string {
				if u, ok := e.(*ast.UnaryExpr); ok {
					if id, ok := u.X.(*ast.Ident); ok {
						if v, ok := pk.TypesInfo.Uses[id].(*types.Var); ok && v.Parent() == pk.Types.Scope() {
							return id.Name
						}
					}
				}
				if id, ok := e.(*ast.Ident); ok && id.Name == "nil" {
					return ""
				}
				// the table handed over by value (a slice header) instead of by pointer
				if id, ok := e.(*ast.Ident); ok {
					if v, ok := pk.TypesInfo.Uses[id].(*types.Var); ok && v.Parent() == pk.Types.Scope() {
						return id.Name
					}
				}
				return "?"
			}
			sc.table, sc.remTbl = nameOf(call.Args[1]), nameOf(call.Args[2])
			ints := make([]int, 4)
			for i := 0; i < 4; i++ {
				tv := pk.TypesInfo.Types[call.Args[3+i]]
				if tv.Value == nil {
					r.Fatalf("non-constant scheme parameter at %s", p.Pos(call.Args[3+i].Pos()))
					return true
				}
				v, _ := constVal(tv.Value)
				ints[i] = int(v.big.Int64())
			}
			sc.w, sc.s, sc.it, sc.rem = ints[0], ints[1], ints[2], ints[3]
			if sc.table == "?" || sc.remTbl == "?" {
				r.Fatalf("table argument not a package-level table at %s", sc.site)
				return true
			}
			schemes = append(schemes, sc)
			return true
		})
	}
	r.Count("sm2_schemes", len(schemes))
	pow2 := cv.pow2G()
	verified := map[string]scheme{}
	for _, sc := range schemes {
		key := fmt.Sprintf("%d_%d_%d+%d", sc.w, sc.s, sc.it, sc.rem)
		r.Check(sc.w*sc.s*sc.it+sc.rem == 256 && sc.w <= 8 && sc.rem >= 0 && sc.rem <= 4, "TABLE-SCHEME", "scheme "+key+" covers 256 bits", sc.site, fmt.Sprintf("%d*%d*%d+%d", sc.w, sc.s, sc.it, sc.rem))
		tree, err := f.TableByName("sm2/internal", sc.table)
		if err != nil {
			r.Fatalf("unresolved anchor: %v", err)
			continue
		}
		width := 1<<uint(sc.w) - 1
		shapeOK := len(tree.kids) == sc.s
		for _, sub := range tree.kids {
			if len(sub.kids) != 2 || len(sub.kids[0].kids) != width || len(sub.kids[1].kids) != width {
				shapeOK = false
			}
		}
		r.Check(shapeOK, "TABLE-SHAPE", sc.table+" is ["+fmt.Sprint(sc.s)+"][2]["+fmt.Sprint(width)+"] as used at its call site", sc.site, "subTableCount x {x,y} x (2^window-1)")
		if !shapeOK {
			continue
		}
		bad := 0
		for j := 0; j < sc.s; j++ {
			for i := 0; i < width; i++ {
				// entry (j,i) = sum over set bits beta of i+1 of 2^(rem + j*it + beta*s*it) G
				acc := affPoint{inf: true}
				for beta := 0; beta < sc.w; beta++ {
					if (i+1)>>uint(beta)&1 == 1 {
						acc = cv.add(acc, pow2[sc.rem+j*sc.it+beta*sc.s*sc.it])
					}
				}
				gx, okx := limbsOf(tree.kids[j].kids[0].kids[i])
				gy, oky := limbsOf(tree.kids[j].kids[1].kids[i])
				ok := okx && oky && !acc.inf && gx == montLimbs(acc.x, cv.p) && gy == montLimbs(acc.y, cv.p)
				r.Count("sm2_table_points", 1)
				if !ok {
					bad++
					r.Viol("TABLE-ENTRY", fmt.Sprintf("%s[%d][x,y][%d]", sc.table, j, i), p.Pos(tree.kids[j].kids[0].kids[i].pos), fmt.Sprintf("entry is not the Montgomery-form affine point of the stated multiple of G (window bits %b, sub-table %d)", i+1, j))
				}
			}
		}
		if bad == 0 {
			r.Ok("TABLE-ENTRY", sc.table+" (all entries)", sc.site, fmt.Sprintf("%d points equal sum_{bits} 2^(rem+j*iter+beta*sub*iter) G in Montgomery affine form, canonical (<p) and on the curve by construction", sc.s*width))
		}
		if sc.rem >= 1 {
			if sc.remTbl == "" {
				r.Viol("TABLE-SHAPE", sc.table+" remainder table", sc.site, "remainder > 0 but no remainder table passed")
				continue
			}
			rt, err := f.TableByName("sm2/internal", sc.remTbl)
			if err != nil {
				r.Fatalf("unresolved anchor: %v", err)
				continue
			}
			cnt := 1<<uint(sc.rem) - 1
			okShape := len(rt.kids) == 2 && len(rt.kids[0].kids) == cnt && len(rt.kids[1].kids) == cnt
			r.Check(okShape, "TABLE-SHAPE", sc.remTbl+" is [2]["+fmt.Sprint(cnt)+"]", sc.site, "{x,y} x (2^remainder-1)")
			if !okShape {
				continue
			}
			bad := 0
			acc := affPoint{inf: true}
			for i := 0; i < cnt; i++ {
				acc = cv.add(acc, pow2[0])
				gx, okx := limbsOf(rt.kids[0].kids[i])
				gy, oky := limbsOf(rt.kids[1].kids[i])
				r.Count("sm2_table_points", 1)
				if !(okx && oky && gx == montLimbs(acc.x, cv.p) && gy == montLimbs(acc.y, cv.p)) {
					bad++
					r.Viol("TABLE-ENTRY", fmt.Sprintf("%s[x,y][%d]", sc.remTbl, i), p.Pos(rt.kids[0].kids[i].pos), fmt.Sprintf("entry is not [%d]G in Montgomery affine form", i+1))
				}
			}
			if bad == 0 {
				r.Ok("TABLE-ENTRY", sc.remTbl+" (all entries)", sc.site, fmt.Sprintf("%d points equal [i+1]G", cnt))
			}
			verified[sc.remTbl] = sc
		} else if sc.remTbl != "" {
			r.Viol("TABLE-SHAPE", sc.table+" remainder table", sc.site, "remainder = 0 but a remainder table is passed")
		}
		verified[sc.table] = sc
	}
	// 2. every package-level table must have been verified under some scheme (no table without a use)
	for _, name := range pk.Types.Scope().Names() {
		if strings.HasPrefix(name, "sm2Precomputed") {
			if _, ok := verified[name]; !ok {
				r.Viol("TABLE-USE", name, "sm2/internal/sm2_tables.go", "table is not paired with scheme parameters at any call site, so its derivation cannot be stated")
			}
		}
	}
	// 3. the mixed routine indexes tables directly: its local scheme constants must be those of the tables it uses
	// (the direct table indexing of the mixed routine used to be paired with its local scheme constants here; that
	// pairing is now decided semantically by C14 SCHEDULE, which does not depend on where the constants are declared)
}

func c18MixedUse(r *Report, p *Prog, info *types.Info, verified map[string]scheme) {
	pk := p.Pkgs["sm2/internal"]
	for _, file := range pk.Syntax {
		for _, d := range file.Decls {
			fd, ok := d.(*ast.FuncDecl)
			if !ok || fd.Body == nil {
				continue
			}
			used := map[string]bool{}
			consts := map[string]int64{}
			ast.Inspect(fd.Body, func(n ast.Node) bool {
				switch n := n.(type) {
				case *ast.Ident:
					if v, ok := info.Uses[n].(*types.Var); ok && v.Parent() == pk.Types.Scope() && strings.HasPrefix(n.Name, "sm2Precomputed") {
						used[n.Name] = true
					}
					if cst, ok := info.Defs[n].(*types.Const); ok {
						if v, err := constVal(cst.Val()); err == nil && v.big != nil {
							consts[n.Name] = v.big.Int64()
						}
					}
				}
				return true
			})
			if len(used) == 0 {
				continue
			}
			// functions that only pass &table to the generic routine were handled through the call site
			direct := false
			ast.Inspect(fd.Body, func(n ast.Node) bool {
				if ix, ok := n.(*ast.IndexExpr); ok {
					if id, ok := rootIdent(ix.X); ok && used[id] {
						direct = true
					}
				}
				return true
			})
			if !direct {
				continue
			}
			fname := "sm2/internal." + fd.Name.Name
			for t := range used {
				sc, ok := verified[t]
				if !ok {
					continue
				}
				want := map[string]int64{"window": int64(sc.w), "subTableCount": int64(sc.s), "iterations": int64(sc.it), "remainder": int64(sc.rem)}
				for k, v := range want {
					got, has := consts[k]
					if !has {
						r.Fatalf("%s indexes %s but declares no local constant %q to compare with the table's scheme", fname, t, k)
						continue
					}
					r.Check(got == v, "TABLE-USE", fmt.Sprintf("%s: const %s matches scheme of %s", fname, k, t), p.Pos(fd.Pos()), fmt.Sprintf("%s = %d, table scheme has %d", k, got, v))
				}
				r.Count("direct_table_users", 1)
			}
		}
	}
}

func rootIdent(e ast.Expr) (string, bool) {
	for {
		switch x := e.(type) {
		case *ast.Ident:
			return x.Name, true
		case *ast.IndexExpr:
			e = x.X
		case *ast.ParenExpr:
			e = x.X
		case *ast.StarExpr:
			e = x.X
		case *ast.UnaryExpr:
			e = x.X
		default:
			return "", false
		}
	}
}

func c18FoldedConstants(r *Report, p *Prog, f *Folder, cv *curveT) {
	pm1 := new(big.Int).Sub(cv.p, big.NewInt(1))
	nm1 := new(big.Int).Sub(cv.n, big.NewInt(1))
	pad := func(v *big.Int) []byte { b := make([]byte, 32); v.FillBytes(b); return b }
	type want struct {
		pkg, name string
		kind      fkind
		bytes     []byte
		big       *big.Int
	}
	ws := []want{
		{"sm2/internal/fiat", "sm2MinusOneEncoding", fBytes, pad(pm1), nil},
		{"sm2/internal/fiat", "sm2ScalarMinusOneEncoding", fBytes, pad(nm1), nil},
		{"sm2", "nMinus1Bytes", fBytes, pad(nm1), nil},
		{"sm2", "nBytes", fBytes, pad(cv.n), nil},
		{"sm2", "n", fBig, nil, cv.n},
		{"sm2", "one", fBig, nil, big.NewInt(1)},
		{"sm2/internal", "sm2B", fElem, nil, cv.b},
	}
	for _, w := range ws {
		v, err := f.GlobalByName(w.pkg, w.name)
		if err != nil {
			if pk := p.Pkgs[w.pkg]; pk != nil && pk.Types.Scope().Lookup(w.name) == nil {
				// the variable is gone (the bound is spelled differently now): whatever constant the decoder or the range
				// test compares with is decided where it is used (DECODE-EXACT, KEYTEST-*, SIGN-* in the protocol domain,
				// which read the initialiser's value); there is no precomputed copy of this name left to compare
				r.Note("%s.%s does not exist any more; the bound it held is decided at its use (decoder and range-test outcome rules)", w.pkg, w.name)
				continue
			}
			r.Fatalf("unresolved anchor: %s.%s: %v", w.pkg, w.name, err)
			continue
		}
		ok := v.k == w.kind
		if ok && w.bytes != nil {
			ok = bytes.Equal(v.bytes, w.bytes)
		}
		if ok && w.big != nil {
			ok = v.big.Cmp(w.big) == 0
		}
		r.Check(ok, "FOLDED-CONST", w.pkg+"."+w.name, w.pkg, "folded initialiser = "+v.String())
		r.Count("folded_constants", 1)
	}
	// the parameter block a||b||Gx||Gy of GetZBytes (second spelling of the curve constants)
	zb, err := f.GlobalByName("sm2", "zBytes")
	if err != nil {
		// no second spelling of the constants: the block is computed from the curve literal at run time, which is C13's
		// PARAMETER-BLOCK (interpreted there); nothing precomputed is left to compare
		r.Note("sm2.zBytes is not a literal (%v): the parameter block is derived from the curve literal at run time and decided under C13 PARAMETER-BLOCK", err)
		return
	}
	a := new(big.Int).Sub(cv.p, big.NewInt(3))
	wantZ := append(append(append(pad(a), pad(cv.b)...), pad(cv.gx)...), pad(cv.gy)...)
	r.Check(zb.k == fBytes && bytes.Equal(zb.bytes, wantZ), "FOLDED-CONST", "sm2.zBytes = a||b||Gx||Gy", "sm2/internal/sm2_curve.go", fmt.Sprintf("%d bytes from GetZBytes' hex literal vs (p-3)||b||Gx||Gy from the curve literal", len(zb.bytes)))
	r.Count("folded_constants", 1)
}

// ---- SM4

const sm4Poly = 0x1f5

func gf8mul(a, b byte, poly int) byte {
	r := 0
	x := int(a)
	for y := int(b); y != 0; y >>= 1 {
		if y&1 == 1 {
			r ^= x
		}
		x <<= 1
		if x&0x100 != 0 {
			x ^= poly
		}
	}
	return byte(r)
}

func gf8inv(a byte, poly int) byte {
	if a == 0 {
		return 0
	}
	// a^254
	r := byte(1)
	b := a
	for e := 254; e > 0; e >>= 1 {
		if e&1 == 1 {
			r = gf8mul(r, b, poly)
		}
		b = gf8mul(b, b, poly)
	}
	return r
}

func parity8(v byte) byte {
	v ^= v >> 4
	v ^= v >> 2
	v ^= v >> 1
	return v & 1
}

func rotl8(v byte, k uint) byte { k %= 8; return v<<k | v>>(8-k) }

// sm4AffineA is the circulant matrix of the SM4 S-box: row i = 0xA7 rotated left by i, output bit i = parity(row_i & x).
func sm4AffineA(x byte) byte {
	var out byte
	for i := uint(0); i < 8; i++ {
		out |= parity8(rotl8(0xA7, i)&x) << i
	}
	return out
}

// sm4SboxDerived: S(x) = A * inv(A*x + 0xD3) + 0xD3 over GF(2)[x]/(x^8+x^7+x^6+x^5+x^4+x^2+1).
func sm4SboxDerived() [256]byte {
	var s [256]byte
	for x := 0; x < 256; x++ {
		s[x] = sm4AffineA(gf8inv(sm4AffineA(byte(x))^0xD3, sm4Poly)) ^ 0xD3
	}
	return s
}

func rotl32(v uint32, k uint) uint32 { return v<<k | v>>(32-k) }
func sm4L(b uint32) uint32 {
	return b ^ rotl32(b, 2) ^ rotl32(b, 10) ^ rotl32(b, 18) ^ rotl32(b, 24)
}

func flatInts(n *litNode) []*big.Int {
	var out []*big.Int
	for _, k := range n.kids {
		out = append(out, k.leaf)
	}
	return out
}

func c18SM4(r *Report, p *Prog, f *Folder) [256]byte {
	var none [256]byte
	derived := sm4SboxDerived()
	t, err := f.TableByName("sm4", "sbox")
	if err != nil {
		r.Fatalf("unresolved anchor: sm4.sbox: %v", err)
		return none
	}
	vals := flatInts(t)
	if len(vals) != 256 {
		r.Viol("SBOX", "sm4.sbox length", "sm4/sm4_const.go", fmt.Sprintf("%d entries", len(vals)))
		return none
	}
	var sbox [256]byte
	bad := 0
	for i, v := range vals {
		r.Count("sbox_entries", 1)
		if v == nil || !v.IsUint64() || v.Uint64() > 255 || byte(v.Uint64()) != derived[i] {
			bad++
			r.Viol("SBOX", fmt.Sprintf("sm4.sbox[0x%02x]", i), p.Pos(t.kids[i].pos), fmt.Sprintf("literal %v, algebraic S-box gives 0x%02x", v, derived[i]))
		} else {
			sbox[i] = byte(v.Uint64())
		}
	}
	if bad == 0 {
		r.Ok("SBOX", "sm4.sbox (256 entries)", "sm4/sm4_const.go", "equals A*inv(A*x+0xD3)+0xD3")
	}
	for k, name := range []string{"s0", "s1", "s2", "s3"} {
		t, err := f.TableByName("sm4", name)
		if err != nil {
			r.Fatalf("unresolved anchor: sm4.%s: %v", name, err)
			continue
		}
		vals := flatInts(t)
		if len(vals) != 256 {
			r.Viol("TTABLE", "sm4."+name+" length", "sm4/sm4_const.go", fmt.Sprintf("%d entries", len(vals)))
			continue
		}
		bad := 0
		for i, v := range vals {
			r.Count("ttable_entries", 1)
			want := sm4L(uint32(derived[i]) << uint(24-8*k))
			if v == nil || !v.IsUint64() || v.Uint64() != uint64(want) {
				bad++
				r.Viol("TTABLE", fmt.Sprintf("sm4.%s[0x%02x]", name, i), p.Pos(t.kids[i].pos), fmt.Sprintf("literal %v, L(S(x)<<%d) = 0x%08x", v, 24-8*k, want))
			}
		}
		if bad == 0 {
			r.Ok("TTABLE", "sm4."+name+" (256 entries)", "sm4/sm4_const.go", fmt.Sprintf("equals L(S(x) << %d)", 24-8*k))
		}
	}
	// CK: byte j of ck[i] is (4i+j)*7 mod 256
	ckT, err := f.TableByName("sm4", "ck")
	if err != nil {
		r.Fatalf("unresolved anchor: sm4.ck: %v", err)
	} else {
		vals := flatInts(ckT)
		if len(vals) != 32 {
			r.Viol("CK", "sm4.ck length", "sm4/sm4_const.go", fmt.Sprintf("%d entries", len(vals)))
		}
		for i, v := range vals {
			r.Count("ck_entries", 1)
			r.Check(v != nil && v.IsUint64() && i < 32 && v.Uint64() == uint64(sm4CK(i)), "CK", fmt.Sprintf("sm4.ck[%d]", i), p.Pos(ckT.kids[i].pos), fmt.Sprintf("literal %v, formula 0x%08x", v, sm4CK(i%32)))
		}
	}
	for i, name := range []string{"fk0", "fk1", "fk2", "fk3"} {
		v, err := f.ConstInt("sm4", name)
		if err != nil {
			r.Fatalf("unresolved anchor: %v", err)
			continue
		}
		r.Count("fk_entries", 1)
		r.Check(v.IsUint64() && v.Uint64() == uint64(sm4FK[i]), "FK", "sm4."+name, "sm4/sm4_const.go", fmt.Sprintf("0x%x vs GB/T 32907 0x%08x", v, sm4FK[i]))
	}
	return sbox
}

var sm4FK = [4]uint32{0xa3b1bac6, 0x56aa3350, 0x677d9197, 0xb27022dc}

func sm4CK(i int) uint32 {
	var v uint32
	for j := 0; j < 4; j++ {
		v = v<<8 | uint32((4*i+j)*7%256)
	}
	return v
}

// ---- SM3

var sm3IV = [8]uint32{0x7380166f, 0x4914b2b9, 0x172442d7, 0xda8a0600, 0xa96f30bc, 0x163138aa, 0xe38dee4d, 0xb0fb0e4e}

func c18SM3(r *Report, p *Prog, f *Folder) {
	t, err := f.TableByName("sm3", "tt")
	if err != nil {
		r.Fatalf("unresolved anchor: sm3.tt: %v", err)
		return
	}
	vals := flatInts(t)
	if len(vals) != 64 {
		r.Viol("SM3-TJ", "sm3.tt length", "sm3/sm3.go", fmt.Sprintf("%d entries", len(vals)))
	}
	for j, v := range vals {
		T := uint32(0x79cc4519)
		if j >= 16 {
			T = 0x7a879d8a
		}
		want := rotl32(T, uint(j%32))
		r.Count("sm3_tj_entries", 1)
		r.Check(v != nil && v.IsUint64() && v.Uint64() == uint64(want), "SM3-TJ", fmt.Sprintf("sm3.tt[%d]", j), p.Pos(t.kids[j].pos), fmt.Sprintf("literal %v, T_j <<< (j mod 32) = 0x%08x", v, want))
	}
	for i := 0; i < 8; i++ {
		v, err := f.ConstInt("sm3", fmt.Sprintf("iv%d", i))
		if err != nil {
			r.Fatalf("unresolved anchor: %v", err)
			continue
		}
		r.Count("sm3_iv_entries", 1)
		r.Check(v.IsUint64() && v.Uint64() == uint64(sm3IV[i]), "SM3-IV", fmt.Sprintf("sm3.iv%d", i), "sm3/sm3.go", fmt.Sprintf("0x%x vs GB/T 32905 0x%08x", v, sm3IV[i]))
	}
	for i, want := range []uint32{0x79cc4519, 0x7a879d8a} {
		v, err := f.ConstInt("sm3", fmt.Sprintf("t%d", i))
		if err != nil {
			r.Fatalf("unresolved anchor: %v", err)
			continue
		}
		r.Check(v.IsUint64() && v.Uint64() == uint64(want), "SM3-T", fmt.Sprintf("sm3.t%d", i), "sm3/sm3.go", fmt.Sprintf("0x%x", v))
	}
	for name, want := range map[string]uint64{"BlockSize": 64, "Size": 32, "maxTail": 56} {
		v, err := f.ConstInt("sm3", name)
		if err != nil {
			r.Fatalf("unresolved anchor: %v", err)
			continue
		}
		r.Check(v.IsUint64() && v.Uint64() == want, "SM3-PARAM", "sm3."+name, "sm3/sm3.go", fmt.Sprintf("%v", v))
	}
}

// ---- assembler data

// gfniAffine models VGF2P8AFFINEQB for one byte: result bit i = parity(matrix.byte[7-i] & x) ^ imm.bit[i].
func gfniAffine(matrix [8]byte, imm byte, x byte) byte {
	var out byte
	for i := uint(0); i < 8; i++ {
		out |= (parity8(matrix[7-i]&x) ^ (imm >> i & 1)) << i
	}
	return out
}

func c18Asm(c *Ctx, r *Report, p *Prog, f *Folder, sbox [256]byte) {
	le32 := func(vals []uint32) []byte {
		var b []byte
		for _, v := range vals {
			b = binary.LittleEndian.AppendUint32(b, v)
		}
		return b
	}
	ck := make([]uint32, 32)
	for i := range ck {
		ck[i] = sm4CK(i)
	}
	rev := func(n, group int) []byte { // byte-reversal permutation within groups
		b := make([]byte, n)
		for i := range b {
			g := i / group * group
			b[i] = byte(g + group - 1 - (i - g))
		}
		return b
	}
	q := func(vals ...uint64) []byte {
		var b []byte
		for _, v := range vals {
			b = binary.LittleEndian.AppendUint64(b, v)
		}
		return b
	}
	lanes := func(incs ...uint32) []byte { // per 128-bit lane: dwords (0,0,0,inc)
		var b []byte
		for _, inc := range incs {
			b = append(b, le32([]uint32{0, 0, 0, inc})...)
		}
		return b
	}
	// nibble bit-reversal table
	nib := make([]byte, 16)
	for i := range nib {
		v := byte(i)
		nib[i] = (v&1)<<3 | (v&2)<<1 | (v&4)>>1 | (v&8)>>3
	}
	for _, arch := range []string{"amd64", "arm64"} {
		u, err := LoadAsm(c.Repo, arch)
		if err != nil {
			r.Fatalf("%v", err)
			continue
		}
		if err := u.CheckDataConsistent(); err != nil {
			r.Viol("ASM-DATA", arch+" duplicate symbol definitions agree", "sm4/", err.Error())
		}
		want := map[string][]byte{}
		why := map[string]string{}
		want["FK"], why["FK"] = le32(sm4FK[:]), "FK of GB/T 32907 in memory order"
		want["CK"], why["CK"] = le32(ck), "CK_i bytes (4i+j)*7 mod 256, 32-bit little-endian words"
		if arch == "amd64" {
			want["Shuffle"], why["Shuffle"] = rev(16, 4), "byte reversal within 32-bit words"
			want["Shuffle1"], why["Shuffle1"] = rev(16, 8), "byte reversal within 64-bit words"
			want["Shuffle2"], why["Shuffle2"] = rev(16, 16), "byte reversal of the 128-bit block"
			want["AND_MASK"], why["AND_MASK"] = bytes.Repeat([]byte{0x0f}, 16), "low-nibble mask"
			want["LOWER_MASK"], why["LOWER_MASK"] = nib, "nibble bit-reversal table"
			want["Counter_Add1"], why["Counter_Add1"] = lanes(1, 2, 3, 4), "lane increments (1,2,3,4) in dword 3"
			want["Counter_Add2"], why["Counter_Add2"] = lanes(4, 4, 4, 4), "lane increments (4,4,4,4)"
			want["Counter_Add3"], why["Counter_Add3"] = lanes(2, 2, 2, 2), "lane increments (2,2,2,2)"
			want["GCM_POLY"], why["GCM_POLY"] = q(0x87, 0), "x^7+x^2+x+1"
			want["SHUFFLE_X_LANES"], why["SHUFFLE_X_LANES"] = q(6, 7, 0, 1, 4, 5, 6, 7), "VPERMQ indices: lane 3 to lane 0 (2^3 : 0^1 : 2^3 : 2^3)"
			want["MERGE_H01"], why["MERGE_H01"] = q(0, 0, 0, 1), "VPERMQ indices placing a 128-bit value in lane 1"
			want["MERGE_H23"], why["MERGE_H23"] = q(0, 0, 0, 0, 0, 1, 2, 3), "VPERMQ indices placing a 256-bit value in lanes 2,3"
		} else {
			// arm64 S-box: byte image in TBL order = sbox[0..255]
			want["SBox"], why["SBox"] = sbox[:], "S-box bytes in table order (little-endian quadwords)"
		}
		seen := 0
		for _, d := range u.DataSyms() {
			seen++
			r.Count("asm_data_symbols", 1)
			if d.Name == "PreAffineMatrix" || d.Name == "PostAffineMatrix" {
				continue // decided with the instruction immediates below
			}
			w, ok := want[d.Name]
			if !ok {
				r.Undecided("ASM-DATA", arch+" "+d.Name, "sm4/"+d.File, "data symbol without a derivation in the checker")
				continue
			}
			r.Check(bytes.Equal(d.Bytes, w), "ASM-DATA", arch+" "+d.Name+"<>", "sm4/"+d.File, why[d.Name])
			delete(want, d.Name)
		}
		for name := range want {
			// a table that no longer exists cannot be referenced (the file would not assemble): whatever replaced it is code,
			// and every table that does exist has been compared above (unknown ones are undecided)
			r.Ok("ASM-DATA", arch+" "+name+"<> present", "sm4/", "data symbol no longer in the listing: nothing refers to it ("+why[name]+")")
		}
		// every symbol must be referenced by an instruction
		refs := map[string]int{}
		for _, rt := range u.Routines {
			for _, in := range rt.Instrs {
				for _, a := range in.Args {
					if a.Kind == OSym || a.Kind == OSymAddr {
						refs[a.Sym]++
					}
				}
			}
		}
		for _, d := range u.DataSyms() {
			if refs[d.Name] == 0 {
				r.Viol("ASM-DATA-USED", arch+" "+d.Name+"<>", "sm4/"+d.File, "data symbol is never referenced by an instruction")
			}
		}
		if arch == "amd64" {
			c18GFNI(r, u, sbox)
		} else {
			c18ArmImm(r, u)
		}
	}
}

// c18GFNI: for every VGF2P8AFFINEQB / VGF2P8AFFINEINVQB pair the matrices come from PreAffineMatrix<>/PostAffineMatrix<>
// and, with the immediates, realise exactly the S-box.
func c18GFNI(r *Report, u *AsmUnit, sbox [256]byte) {
	pre, post := u.Data["PreAffineMatrix"], u.Data["PostAffineMatrix"]
	if pre == nil || post == nil || len(pre.Bytes) != 8 || len(post.Bytes) != 8 {
		r.Fatalf("unresolved anchor: PreAffineMatrix<>/PostAffineMatrix<> data symbols")
		return
	}
	var pm, qm [8]byte
	copy(pm[:], pre.Bytes)
	copy(qm[:], post.Bytes)
	type pair struct{ preImm, postImm int64 }
	pairs := map[pair]int{}
	for _, rt := range u.Routines {
		// matrix register provenance: which symbol was broadcast into each vector register (flow-insensitive per routine:
		// a vector register that is the destination of VBROADCASTI32X2 (sym) and of nothing else holds that symbol's bytes)
		f := AnalyzeFlow(rt)
		if len(f.Errors) > 0 {
			r.Fatalf("%s: %s", rt.Name, f.Errors[0])
			continue
		}
		holds := map[string]string{}
		multi := map[string]bool{}
		for i, in := range rt.Instrs {
			e := f.Effects[i]
			for _, w := range e.Writes {
				if !strings.HasPrefix(w, "V") {
					continue
				}
				src := "?"
				if strings.HasPrefix(in.Op, "VBROADCASTI32X2") {
					for _, a := range f.Accesses {
						if a.Instr == in && strings.HasPrefix(a.Object, "s:") {
							src = a.Object[2:]
						}
					}
				}
				if old, ok := holds[w]; ok && old != src {
					multi[w] = true
				}
				holds[w] = src
			}
		}
		var lastAff *Instr
		for _, in := range rt.Instrs {
			switch in.Op {
			case "VGF2P8AFFINEQB", "VGF2P8AFFINEINVQB":
				if len(in.Args) != 4 || in.Args[0].Kind != OImm {
					r.Fatalf("%s: unexpected operand shape %s", rt.Name, in.Raw)
					continue
				}
				m := in.Args[1].Reg
				wantSym := "PreAffineMatrix"
				if in.Op == "VGF2P8AFFINEINVQB" {
					wantSym = "PostAffineMatrix"
				}
				if multi[m] || holds[m] != wantSym {
					r.Viol("GFNI-MATRIX", fmt.Sprintf("amd64/%s %s matrix register", rt.Name, in.Op), in.Pos, fmt.Sprintf("matrix operand %s is not (only) the broadcast of %s<> (holds %q)", in.Args[1].Raw, wantSym, holds[m]))
				}
				if in.Op == "VGF2P8AFFINEQB" {
					lastAff = in
				} else {
					if lastAff == nil || lastAff.Args[3].Reg != in.Args[2].Reg {
						r.Viol("GFNI-PAIR", fmt.Sprintf("amd64/%s", rt.Name), in.Pos, "VGF2P8AFFINEINVQB does not consume the result of the preceding VGF2P8AFFINEQB: "+in.Raw)
					} else {
						pairs[pair{lastAff.Args[0].Imm, in.Args[0].Imm}]++
					}
					lastAff = nil
				}
			}
		}
	}
	if len(pairs) == 0 {
		r.Fatalf("no VGF2P8AFFINEQB/VGF2P8AFFINEINVQB pair found in the amd64 listing")
	}
	for pr, n := range pairs {
		r.Count("gfni_affine_pairs", n)
		bad := -1
		for x := 0; x < 256; x++ {
			y := gfniAffine(pm, byte(pr.preImm), byte(x))
			z := gfniAffine(qm, byte(pr.postImm), gf8inv(y, 0x11b))
			if z != sbox[x] {
				bad = x
				break
			}
		}
		r.Check(bad < 0, "GFNI-SBOX", fmt.Sprintf("affineinv(Post,%d, affine(Pre,%d, x)) = sbox[x] for all x", pr.postImm, pr.preImm), "sm4/com_amd64.s", fmt.Sprintf("%d instruction pairs use these immediates; first mismatch at x=%d", n, bad))
	}
}

// c18ArmImm: arm64 immediates read from instruction operands: GHASH reduction constant 0x87 and VMOVI shift counts.
func c18ArmImm(r *Report, u *AsmUnit) {
	rt := u.Routine("gHashBlocks")
	if rt == nil {
		r.Fatalf("unresolved anchor: arm64 gHashBlocks")
		return
	}
	found87 := false
	for _, in := range rt.Instrs {
		if in.Op == "MOVD" && len(in.Args) == 2 && in.Args[0].Kind == OImm {
			r.Check(in.Args[0].Imm == 0x87, "ASM-IMM", "arm64/gHashBlocks reduction constant", in.Pos, fmt.Sprintf("MOVD $%#x: x^7+x^2+x+1 = 0x87", in.Args[0].Imm))
			found87 = true
		}
	}
	if !found87 {
		r.Fatalf("unresolved anchor: arm64 gHashBlocks loads no immediate reduction constant")
	}
}

// c18SchemeLiterals: composite literals of a struct type whose first four integer fields are constants and whose slice fields
// name package-level comb tables: one scheme per literal
func c18SchemeLiterals(r *Report, p *Prog, pk *packages.Package) []scheme {
	var out []scheme
	for _, file := range pk.Syntax {
		ast.Inspect(file, func(n ast.Node) bool {
			cl, ok := n.(*ast.CompositeLit)
			if !ok {
				return true
			}
			tv, ok := pk.TypesInfo.Types[cl]
			if !ok {
				return true
			}
			st, ok := tv.Type.Underlying().(*types.Struct)
			if !ok {
				return true
			}
			// the integer fields in declaration order
			var intFields []string
			for i := 0; i < st.NumFields(); i++ {
				if b, ok := st.Field(i).Type().Underlying().(*types.Basic); ok && b.Info()&types.IsInteger != 0 {
					intFields = append(intFields, st.Field(i).Name())
				}
			}
			if len(intFields) < 4 {
				return true
			}
			vals := map[string]int{}
			var tables []string
			for i, el := range cl.Elts {
				name := ""
				var val ast.Expr = el
				if kv, ok := el.(*ast.KeyValueExpr); ok {
					if id, ok := kv.Key.(*ast.Ident); ok {
						name = id.Name
					}
					val = kv.Value
				} else if i < st.NumFields() {
					name = st.Field(i).Name()
				}
				if v, ok := pk.TypesInfo.Types[val]; ok && v.Value != nil {
					if cv, err := constVal(v.Value); err == nil && cv.big != nil && cv.big.IsInt64() {
						vals[name] = int(cv.big.Int64())
					}
					continue
				}
				e := val
				if u, ok := e.(*ast.UnaryExpr); ok {
					e = u.X
				}
				if id, ok := e.(*ast.Ident); ok {
					if v, ok := pk.TypesInfo.Uses[id].(*types.Var); ok && v.Parent() == pk.Types.Scope() && strings.HasPrefix(id.Name, "sm2Precomputed") {
						tables = append(tables, id.Name)
					}
				}
			}
			if len(tables) == 0 {
				return true
			}
			sc := scheme{site: p.Pos(cl.Pos())}
			ints := make([]int, 4)
			for i := 0; i < 4; i++ {
				ints[i] = vals[intFields[i]] // an omitted field is zero
			}
			sc.w, sc.s, sc.it, sc.rem = ints[0], ints[1], ints[2], ints[3]
			for _, t := range tables {
				if strings.HasSuffix(t, "_Remainder") {
					sc.remTbl = t
				} else {
					sc.table = t
				}
			}
			if sc.table == "" {
				return true
			}
			out = append(out, sc)
			return true
		})
	}
	return out
}
