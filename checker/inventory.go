package main

// Guard inventory (engine G4): required rejecting guards on the path to an accepting return, with the canonical
// value names produced by pathsym. The accepted spellings are the idioms this repository uses (closed list, DESIGN 2.2).

import (
	"fmt"
	"sort"
	"strings"

	"golang.org/x/tools/go/ssa"
)

type guardReq struct {
	ID     string   // e.g. "(r, >=, 1)"
	Accept []string // accepted canonical spellings of the condition that holds on the accepting path
	Reject string   // "restart" | "error" | "false" | "reject" (error or false) | "any"
}

func normText(s string) string {
	s = strings.ReplaceAll(s, "GetAffineX_Unsafe", "GetAffineX")
	s = strings.ReplaceAll(s, "Bytes_Unsafe", "Bytes")
	return s
}

func xf(name string, args ...string) string { return name + "(" + strings.Join(args, ",") + ")" }
func xc(name string, a, b string) string { // commutative
	as := []string{a, b}
	sort.Strings(as)
	return name + "(" + as[0] + "," + as[1] + ")"
}

// rejectKind classifies what happens on the arm not taken by the accepting path.
func rejectKind(g *Guard, drawBlock *ssa.BasicBlock) (kind string, detail string) {
	b := g.Reject
	if b == nil {
		return "none", ""
	}
	var tested ssa.Value
	if e, _, ok := errNilTest(g.If.Cond); ok {
		tested = e
	}
	// follow straight-line jumps
	for i := 0; i < 8; i++ {
		if drawBlock != nil && b == drawBlock {
			return "restart", ""
		}
		last := b.Instrs[len(b.Instrs)-1]
		switch x := last.(type) {
		case *ssa.Return:
			res := retVals(x)
			if len(res) == 0 {
				return "return", ""
			}
			errv := res[len(res)-1]
			if isErrorType(errv.Type()) {
				if provablyNonNilError(errv, tested) || isErrExtract(errv) {
					for _, o := range res[:len(res)-1] {
						if !isNilConst(o) && !isFalseConst(o) {
							return "error-with-results", "reject arm returns a non-nil result next to the error"
						}
					}
					return "error", ""
				}
				if isNilConst(errv) && len(res) >= 1 && isFalseConst(res[0]) {
					return "false", ""
				}
				return "return", "reject arm returns without a provably non-nil error"
			}
			if isFalseConst(res[0]) {
				return "false", ""
			}
			if c, ok := res[0].(*ssa.Const); ok && c.Value != nil && c.Value.ExactString() != "0" {
				return "code", ""
			}
			if bo, ok := g.If.Cond.(*ssa.BinOp); ok && !isConst(res[0]) && (bo.X == res[0] || bo.Y == res[0]) {
				return "code", "" // returns the very value the guard just found to be out of range (non-zero reason code)
			}
			return "return", ""
		case *ssa.Panic:
			return "panic", ""
		case *ssa.Jump:
			b = b.Succs[0]
			continue
		}
		break
	}
	reach := reachableBlocks(g.Reject)
	if drawBlock != nil && reach[drawBlock] {
		return "restart", ""
	}
	// the reject arm does some work (a wipe loop, a release) before leaving: every way out of it must be an error return
	nret, allErr := 0, true
	for rb := range reach {
		switch x := rb.Instrs[len(rb.Instrs)-1].(type) {
		case *ssa.Return:
			nret++
			res := retVals(x)
			if len(res) == 0 {
				allErr = false
				continue
			}
			errv := res[len(res)-1]
			if !isErrorType(errv.Type()) || !(provablyNonNilError(errv, tested) || isErrExtract(errv)) {
				allErr = false
				continue
			}
			for _, o := range res[:len(res)-1] {
				if !isNilConst(o) && !isFalseConst(o) {
					allErr = false
				}
			}
		case *ssa.Panic:
		}
	}
	if nret > 0 && allErr {
		return "error", ""
	}
	return "continues", "reject arm neither returns nor restarts the draw"
}

func isFalseConst(v ssa.Value) bool {
	c, ok := v.(*ssa.Const)
	return ok && c.Value != nil && c.Value.ExactString() == "false"
}

func isErrExtract(v ssa.Value) bool {
	// the tested error of a call, returned on its own failing arm
	_, ok := v.(*ssa.Extract)
	return ok && isErrorType(v.Type())
}

// checkInventory matches the required guards against the guards of the path.
func checkInventory(r *Report, p *Prog, ps *pathSym, site string, pos string, reqs []guardReq, drawBlock *ssa.BasicBlock) {
	have := map[string]*Guard{}
	for i := range ps.Guards {
		have[normText(ps.Guards[i].Text)] = &ps.Guards[i]
	}
	for _, q := range reqs {
		r.Count("required_guards", 1)
		var g *Guard
		for _, a := range q.Accept {
			if x, ok := have[normText(a)]; ok {
				g = x
				break
			}
		}
		key := site + ": " + q.ID
		if g == nil {
			r.Viol("GUARD-MISSING", key, pos, fmt.Sprintf("no rejecting guard of this kind dominates the accepting return; accepted spellings: %s; guards on the path: %s", strings.Join(q.Accept, " | "), strings.Join(ps.GuardTexts(), " ; ")))
			continue
		}
		kind, detail := rejectKind(g, drawBlock)
		if g.Kind != "" {
			kind, detail = g.Kind, "guard inside the draw helper"
		}
		ok := false
		switch q.Reject {
		case "any":
			ok = true
		case "restart":
			ok = kind == "restart"
		case "error":
			ok = kind == "error"
		case "error-loose": // the error arm may also carry other results (decided elsewhere, e.g. C19)
			ok = kind == "error" || kind == "error-with-results"
		case "false":
			ok = kind == "false" || kind == "error"
		case "reject":
			ok = kind == "error" || kind == "false" || kind == "code" || kind == "panic"
		case "panic":
			ok = kind == "panic"
		}
		r.Check(ok, "GUARD", key, p.InstrPos(g.If), fmt.Sprintf("guard `%s` dominates the accepting return; its failing arm: %s (required: %s)%s", g.Text, kind, q.Reject, ifs(detail != "", " — "+detail)))
	}
}
