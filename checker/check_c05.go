package main

import (
	"fmt"
	"go/token"
	"go/types"
	"sort"
	"strings"

	"golang.org/x/tools/go/ssa"
)

func init() { register("C05", "other", checkC05) }

func checkC05(c *Ctx, r *Report) {
	r.Explanation = "Decided: (a) key-size refusal: newCipher is reachable only behind len(key) == 16 in NewCipher, whose other arm returns (nil, KeySizeError); (b) the cipher does not retain the key slice (effect analysis: no store of a key-derived pointer, the assembler key schedule does not write or keep it); (c) sibling agreement of the two cipher.Block implementations: Encrypt hands field enc and Decrypt field dec to the kernel, with (rk, dst, src) resp. (src, dst, rk) in the callee's parameter roles; both key schedules fill enc[i] and dec[31-i] from the same value (portable: by SSA; assembler: both masked stores take the same source register, enc ascending from +0 and dec descending from +124, 32 pairs); (d) every kernel is overlap-safe for dst == src (LOAD-BEFORE-STORE, shared with C10); (d') lane dependency: in every amd64 kernel each stored output block depends on exactly the input block at the same position and on no other (block-dependency sets per 32-bit lane through loads, transposes, lane-wise rounds and stores); (d'') the same for the portable two-block routine cryptoBlockX2, whose two blocks share 64-bit words: bit-level dependency sets through shifts, masks, rotations, table lookups and the inlined helpers; (e) the constants the kernels embed equal the portable ones (C18); (f) the dispatch variable candoAsm is written only by package initialisation. NOT decided: that any kernel computes the SM4 permutation."
	r.Trusted = []string{"go/ssa", "assembler listing, opcode table", "lane semantics of the permute/unpack instructions used (checker/lanes.go)"}
	for _, arch := range []string{"amd64", "arm64", "386"} {
		p, err := LoadRepo(c.Repo, arch)
		if err != nil {
			r.Fatalf("%v", err)
			return
		}
		// (a)
		if fn := p.MustFunc(r, "sm4.NewCipher"); fn != nil {
			// every outcome of NewCipher that returns a cipher has len(key) == 16 on its path; the others return (nil, error)
			if g := newGlueRun(r, p, arch, "sm4.NewCipher", nil); g != nil {
				g.keySizeGuard()
			}
			glueBlocks(r, p, arch, map[string]bool{"C05block": true})
			// newCipher* are not reachable from anywhere else in non-test code
			for _, g := range p.RepoFuncs() {
				if g == fn || len(g.Blocks) == 0 {
					continue
				}
				for _, b := range g.Blocks {
					for _, in := range b.Instrs {
						if call, ok := in.(*ssa.Call); ok && call.Call.StaticCallee() != nil {
							cn := call.Call.StaticCallee().Name()
							if (cn == "newCipher" && g.Name() != "NewCipher") || (cn == "newCipherGeneric" && g.Name() != "newCipher" && g.Name() != "NewCipher") {
								r.Viol("KEY-SIZE-GUARD", fmt.Sprintf("[%s] %s -> %s", arch, p.FuncName(g), cn), p.InstrPos(call), "a constructor is reachable without the key-size guard")
							}
						}
					}
				}
			}
		}
		// (b) retention
		var asmW map[string]map[int]bool
		if arch != "386" {
			u, _ := loadAsmBound(c, r, arch)
			if u == nil {
				return
			}
			var probs []string
			asmW, probs = AsmMayWrite(u, p)
			for _, pr := range probs {
				r.Fatalf("[%s] %s", arch, pr)
			}
			c05AsmKeySchedule(r, u, arch)
		} else {
			asmW = map[string]map[int]bool{}
		}
		e := NewEffects(p, asmW)
		e.Run()
		// the summary of NewCipher is interprocedural: it includes what every callee (constructors, key schedules) does with the key
		for _, n := range []string{"sm4.NewCipher"} {
			fn := p.Func(n)
			if fn == nil || len(fn.Blocks) == 0 {
				continue
			}
			sum := e.sum[fn]
			for i, prm := range fn.Params {
				if _, isSlice := prm.Type().Underlying().(*types.Slice); !isSlice {
					continue
				}
				var sites []string
				for _, s := range sum.retainSites[i] {
					sites = append(sites, siteChain(p, s))
				}
				r.Check(!sum.retains[i] && !sum.writesParam[i], "KEY-NOT-RETAINED", fmt.Sprintf("[%s] %s: %s", arch, n, prm.Name()), p.Pos(fn.Pos()), "the key slice is neither stored into another object nor written"+ifs(sum.retains[i], ": retained at "+strings.Join(sites, "; ")))
			}
		}
		if arch != "386" {
			if w, ok := asmW["expandKeyAsm"]; ok {
				r.Check(!w[0], "KEY-NOT-RETAINED", "["+arch+"] expandKeyAsm does not write the key", "sm4/", fmt.Sprintf("may-write set of expandKeyAsm: %v", keysInt(w)))
			}
		}
		// (c) sibling wiring
		if arch == "386" || arch == "amd64" {
			c05PortableSchedule(r, p, arch)
		}
	}
	// (d) overlap for the block kernels (both architectures) + portable
	for _, arch := range []string{"amd64", "arm64"} {
		u, _ := loadAsmBound(c, r, arch)
		if u == nil {
			return
		}
		contracts := asmContracts(arch)
		dataSize := map[string]int{}
		for _, d := range u.DataSyms() {
			dataSize[d.Name] = d.Size
		}
		for _, rt := range u.Routines {
			if !rt.HasDecl || !strings.HasPrefix(rt.Name, "cryptoBlockAsm") {
				continue
			}
			flow := AnalyzeFlow(rt)
			res := AnalyzeExtents(rt, flow, contracts[rt.Name], dataSize)
			r.Count("kernels_"+arch, 1)
			if len(res.overlaps) == 0 && len(res.problems) == 0 {
				r.Ok("LOAD-BEFORE-STORE", arch+"/"+rt.Name, "sm4/"+rt.File, "no load of src reads bytes already stored to dst (or tmp): safe for dst == src")
			}
			r.Obls = append(r.Obls, res.overlaps...)
			for _, pr := range res.problems {
				r.Undecided("LOAD-BEFORE-STORE", arch+"/"+rt.Name, "sm4/"+rt.File, pr)
			}
		}
		if arch == "amd64" {
			c05Lanes(r, u)
		}
	}
	if p386, err := LoadRepo(c.Repo, "386"); err == nil {
		c10PortableOverlap(r, p386)
		c05GoLanes(r, p386)
	}
	// (f) dispatch variable
	if pa, ea, _ := loadEffects(c, r, "amd64"); pa != nil {
		g := pa.Global("sm4", "candoAsm")
		if g == nil {
			r.Fatalf("unresolved anchor: sm4.candoAsm")
		} else {
			reach := reachableFromAPI(pa)
			bad := ""
			for fn, sum := range ea.sum {
				if reach[fn] && len(sum.globals[g]) > 0 {
					bad = siteChain(pa, sum.globals[g][0])
				}
			}
			r.Check(bad == "", "DISPATCH-WRITTEN-ONCE", "sm4.candoAsm", pa.Pos(g.Pos()), "the dispatch variable is written only by package initialisation"+ifs(bad != "", ": written at "+bad))
		}
	}
	r.Floor("kernels_amd64", 3)
	r.Floor("kernels_arm64", 3)
	r.Floor("kernel_output_blocks", 15)
	r.Floor("wiring_sites", 4)
}

func keysInt(m map[int]bool) []int {
	var out []int
	for k, v := range m {
		if v {
			out = append(out, k)
		}
	}
	sort.Ints(out)
	return out
}

// c05Wiring: Encrypt uses enc, Decrypt uses dec, arguments in the callee's parameter roles.
func c05Wiring(r *Report, p *Prog, arch string) {
	type site struct {
		fn, field string
	}
	var sites []site
	for _, t := range []string{"sm4Cipher", "sm4CipherAsm"} {
		sites = append(sites, site{"sm4.(*" + t + ").Encrypt", "enc"}, site{"sm4.(*" + t + ").Decrypt", "dec"})
	}
	sites = append(sites, site{"sm4.encryptX2", "enc"}, site{"sm4.decryptX2", "dec"})
	for _, s := range sites {
		fn := p.Func(s.fn)
		if fn == nil || len(fn.Blocks) == 0 {
			continue // sm4CipherAsm does not exist in the portable build
		}
		r.Count("wiring_sites", 1)
		var dstP, srcP *ssa.Parameter
		for _, prm := range fn.Params {
			switch prm.Name() {
			case "dst":
				dstP = prm
			case "src":
				srcP = prm
			}
		}
		found := false
		for _, b := range fn.Blocks {
			for _, in := range b.Instrs {
				call, ok := in.(*ssa.Call)
				if !ok || call.Call.StaticCallee() == nil {
					continue
				}
				cal := call.Call.StaticCallee()
				if !strings.HasPrefix(cal.Name(), "cryptoBlock") {
					continue
				}
				found = true
				okAll := true
				var detail []string
				for i, prm := range cal.Params {
					a := call.Call.Args[i]
					role := prm.Name()
					switch role {
					case "rk":
						fld := fieldOfAddr(a)
						detail = append(detail, "rk="+fld)
						if fld != s.field {
							okAll = false
						}
					case "dst", "y":
						if !rootedAtSliceParam(stripIndexAddr(a), dstP) {
							okAll = false
						}
						detail = append(detail, role+"=dst")
					case "src", "x":
						if !rootedAtSliceParam(stripIndexAddr(a), srcP) {
							okAll = false
						}
						detail = append(detail, role+"=src")
					}
				}
				r.Check(okAll, "CIPHER-WIRING", fmt.Sprintf("[%s] %s -> %s", arch, s.fn, cal.Name()), p.InstrPos(call), fmt.Sprintf("round keys from field %q expected; call passes %s", s.field, strings.Join(detail, ", ")))
			}
		}
		if !found {
			r.Viol("CIPHER-WIRING", fmt.Sprintf("[%s] %s", arch, s.fn), p.Pos(fn.Pos()), "no kernel call found")
		}
	}
}

func stripIndexAddr(v ssa.Value) ssa.Value {
	if ia, ok := v.(*ssa.IndexAddr); ok {
		return ia.X
	}
	return v
}

// fieldOfAddr: &recv.<field>[0] or &recv.<embedded>.<field>[..]  -> field name
func fieldOfAddr(v ssa.Value) string {
	for i := 0; i < 6; i++ {
		switch x := v.(type) {
		case *ssa.IndexAddr:
			v = x.X
		case *ssa.FieldAddr:
			st := x.X.Type().Underlying().(*types.Pointer).Elem().Underlying().(*types.Struct)
			n := st.Field(x.Field).Name()
			if n == "enc" || n == "dec" {
				return n
			}
			v = x.X
		default:
			return ""
		}
	}
	return ""
}

// c05PortableSchedule: expandKey stores every round key to enc[i] and dec[31-i] from the same value.
func c05PortableSchedule(r *Report, p *Prog, arch string) {
	fn := p.MustFunc(r, "sm4.expandKey")
	if fn == nil {
		return
	}
	env := NewLinEnv(p, fn)
	type st struct {
		idx *Lin
		val ssa.Value
	}
	stores := map[string][]st{}
	for _, b := range fn.Blocks {
		for _, in := range b.Instrs {
			s, ok := in.(*ssa.Store)
			if !ok {
				continue
			}
			ia, ok := s.Addr.(*ssa.IndexAddr)
			if !ok {
				continue
			}
			if prm, ok := ia.X.(*ssa.Parameter); ok && (prm.Name() == "enc" || prm.Name() == "dec") {
				stores[prm.Name()] = append(stores[prm.Name()], st{env.Int(ia.Index), s.Val})
			}
		}
	}
	ok := len(stores["enc"]) == len(stores["dec"]) && len(stores["enc"]) > 0
	detail := fmt.Sprintf("%d stores to enc, %d to dec", len(stores["enc"]), len(stores["dec"]))
	if ok {
		for i := range stores["enc"] {
			e, d := stores["enc"][i], stores["dec"][i]
			if !(e.val == d.val || sameLocalLoad(e.val, d.val)) || !e.idx.Add(d.idx).Equal(linConst(31)) {
				ok = false
				detail = fmt.Sprintf("pair %d: enc[%s] and dec[%s] (indices must add up to 31, same value)", i, e.idx.String(), d.idx.String())
			}
		}
	}
	r.Check(ok, "SCHEDULE-PAIRING", "["+arch+"] sm4.expandKey enc[i] / dec[31-i]", p.Pos(fn.Pos()), detail)
}

// c05AsmKeySchedule: in expandKeyAsm the stores through enc and dec come in pairs with the same source register.
func c05AsmKeySchedule(r *Report, u *AsmUnit, arch string) {
	rt := u.Routine("expandKeyAsm")
	if rt == nil {
		r.Fatalf("unresolved anchor: %s expandKeyAsm", arch)
		return
	}
	rt = rt.UnrollConstLoops()
	flow := AnalyzeFlow(rt)
	if arch == "amd64" {
		// the round keys must be a function of the key alone (REGISTER-DEFINED, see lanes.go / DESIGN 10.15)
		if undef := VecDefBeforeUse(rt, flow); len(undef) > 0 {
			r.Viol("REGISTER-DEFINED", "amd64/expandKeyAsm", "sm4/"+rt.File, undef[0])
		} else {
			r.Ok("REGISTER-DEFINED", "amd64/expandKeyAsm", "sm4/"+rt.File, "every vector register is written before it is read on every path")
		}
	}
	con := asmContracts(arch)["expandKeyAsm"]
	dataSize := map[string]int{}
	for _, d := range u.DataSyms() {
		dataSize[d.Name] = d.Size
	}
	res := AnalyzeExtents(rt, flow, con, dataSize)
	type st struct {
		off int64
		src string
	}
	var enc, dec []st
	var idxs []int
	for i := range res.accesses {
		idxs = append(idxs, i)
	}
	sort.Ints(idxs)
	for _, i := range idxs {
		a := res.accesses[i]
		if !a.mem.Store || a.off == nil || !a.off.IsConst() {
			continue
		}
		src := ""
		for _, o := range a.instr.Args {
			if o.Kind == OReg && strings.HasPrefix(o.Reg, "V") {
				src = o.Reg + lanePart(o)
				break
			}
			if o.Kind == ORegList && len(o.Regs) > 0 {
				src = o.Regs[0]
				break
			}
		}
		switch a.param {
		case "enc":
			enc = append(enc, st{a.off.C, src})
		case "dec":
			dec = append(dec, st{a.off.C, src})
		}
	}
	ok := len(enc) == 32 && len(dec) == 32
	detail := fmt.Sprintf("%d stores through enc, %d through dec", len(enc), len(dec))
	if ok {
		for i := 0; i < 32; i++ {
			if enc[i].off != int64(4*i) || dec[i].off != int64(4*(31-i)) || enc[i].src != dec[i].src {
				ok = false
				detail = fmt.Sprintf("pair %d: enc+%d from %s, dec+%d from %s (expected enc+%d and dec+%d from one register)", i, enc[i].off, enc[i].src, dec[i].off, dec[i].src, 4*i, 4*(31-i))
				break
			}
		}
	}
	r.Check(ok, "SCHEDULE-PAIRING", "["+arch+"] expandKeyAsm enc[i] / dec[31-i]", "sm4/"+rt.File, detail)
}

func lanePart(o Operand) string {
	if strings.Contains(o.Arr, "[") {
		return "." + o.Arr
	}
	return ""
}

// sameLocalLoad: two loads of the same element of a local array (k[j] read twice) with nothing in between that can write
// it: same block, same address expression, and every instruction between them is neither a call nor a store into that
// local allocation (a store through a parameter cannot alias a fresh local).
func sameLocalLoad(a, b ssa.Value) bool {
	la, ok1 := a.(*ssa.UnOp)
	lb, ok2 := b.(*ssa.UnOp)
	if !ok1 || !ok2 || la.Op != token.MUL || lb.Op != token.MUL || la.Block() != lb.Block() {
		return false
	}
	rootOf := func(v ssa.Value) (*ssa.Alloc, ssa.Value, bool) {
		ia, ok := v.(*ssa.IndexAddr)
		if !ok {
			return nil, nil, false
		}
		al, ok := ia.X.(*ssa.Alloc)
		return al, ia.Index, ok
	}
	ra, ia, ok1 := rootOf(la.X)
	rb, ib, ok2 := rootOf(lb.X)
	if !ok1 || !ok2 || ra != rb || !samePureExpr(ia, ib, 0) {
		return false
	}
	between := false
	for _, in := range la.Block().Instrs {
		switch {
		case in == ssa.Instruction(la) || in == ssa.Instruction(lb):
			if between {
				return true
			}
			between = true
		case between:
			switch x := in.(type) {
			case ssa.CallInstruction:
				return false
			case *ssa.Store:
				addr := x.Addr
				for {
					if i2, ok := addr.(*ssa.IndexAddr); ok {
						addr = i2.X
						continue
					}
					if f2, ok := addr.(*ssa.FieldAddr); ok {
						addr = f2.X
						continue
					}
					break
				}
				if _, isParam := addr.(*ssa.Parameter); !isParam {
					return false
				}
			}
		}
	}
	return false
}

// samePureExpr: two SSA values are the same pure expression (i&3 spelled twice): identical, equal constants, or the same
// operator applied to operands that are the same pure expressions
func samePureExpr(a, b ssa.Value, depth int) bool {
	if a == b {
		return true
	}
	if depth > 6 {
		return false
	}
	switch x := a.(type) {
	case *ssa.Const:
		y, ok := b.(*ssa.Const)
		return ok && x.Value != nil && y.Value != nil && x.Value.ExactString() == y.Value.ExactString() && types.Identical(x.Type(), y.Type())
	case *ssa.BinOp:
		y, ok := b.(*ssa.BinOp)
		return ok && x.Op == y.Op && samePureExpr(x.X, y.X, depth+1) && samePureExpr(x.Y, y.Y, depth+1)
	case *ssa.Convert:
		y, ok := b.(*ssa.Convert)
		return ok && types.Identical(x.Type(), y.Type()) && samePureExpr(x.X, y.X, depth+1)
	case *ssa.UnOp:
		y, ok := b.(*ssa.UnOp)
		return ok && x.Op == y.Op && x.Op != token.MUL && x.Op != token.ARROW && samePureExpr(x.X, y.X, depth+1)
	}
	return false
}
