package main

// Multivariate polynomials over Z (engine G6b, polynomial domain).

import (
	"math/big"
	"sort"
	"strings"
)

const polyVars = 7 // X1 Y1 Z1 X2 Y2 Z2 b

var polyVarNames = [polyVars]string{"X1", "Y1", "Z1", "X2", "Y2", "Z2", "b"}

type mono [polyVars]uint8

type Poly struct{ t map[mono]*big.Int }

func polyZero() *Poly { return &Poly{t: map[mono]*big.Int{}} }
func polyConst(c int64) *Poly {
	p := polyZero()
	if c != 0 {
		p.t[mono{}] = big.NewInt(c)
	}
	return p
}
func polyVar(i int) *Poly {
	var m mono
	m[i] = 1
	return &Poly{t: map[mono]*big.Int{m: big.NewInt(1)}}
}
func (p *Poly) Add(q *Poly) *Poly {
	r := polyZero()
	for m, c := range p.t {
		r.t[m] = new(big.Int).Set(c)
	}
	for m, c := range q.t {
		if o, ok := r.t[m]; ok {
			o.Add(o, c)
			if o.Sign() == 0 {
				delete(r.t, m)
			}
		} else {
			r.t[m] = new(big.Int).Set(c)
		}
	}
	return r
}
func (p *Poly) Neg() *Poly {
	r := polyZero()
	for m, c := range p.t {
		r.t[m] = new(big.Int).Neg(c)
	}
	return r
}
func (p *Poly) Sub(q *Poly) *Poly { return p.Add(q.Neg()) }
func (p *Poly) Mul(q *Poly) *Poly {
	r := polyZero()
	for m1, c1 := range p.t {
		for m2, c2 := range q.t {
			var m mono
			for i := range m {
				m[i] = m1[i] + m2[i]
			}
			c := new(big.Int).Mul(c1, c2)
			if o, ok := r.t[m]; ok {
				o.Add(o, c)
				if o.Sign() == 0 {
					delete(r.t, m)
				}
			} else if c.Sign() != 0 {
				r.t[m] = c
			}
		}
	}
	return r
}
func (p *Poly) Scale(c int64) *Poly { return p.Mul(polyConst(c)) }
func (p *Poly) Equal(q *Poly) bool  { return len(p.Sub(q).t) == 0 }

// Subst substitutes variable i by polynomial s.
func (p *Poly) Subst(i int, s *Poly) *Poly {
	r := polyZero()
	for m, c := range p.t {
		term := &Poly{t: map[mono]*big.Int{}}
		m2 := m
		e := m2[i]
		m2[i] = 0
		term.t[m2] = new(big.Int).Set(c)
		for k := uint8(0); k < e; k++ {
			term = term.Mul(s)
		}
		r = r.Add(term)
	}
	return r
}

func (p *Poly) String() string {
	if len(p.t) == 0 {
		return "0"
	}
	var parts []string
	for m, c := range p.t {
		s := c.String()
		for i, e := range m {
			for k := uint8(0); k < e; k++ {
				s += "*" + polyVarNames[i]
			}
		}
		parts = append(parts, s)
	}
	sort.Strings(parts)
	if len(parts) > 6 {
		parts = append(parts[:6], "...")
	}
	return strings.Join(parts, " + ")
}
