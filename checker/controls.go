package main

// Positive controls: tiny packages under checker/testdata/controls that contain exactly the constructs the zero-expected
// rules look for. Every run analyses them with the same engines and fails (undecided) if a control is not reported.

import (
	"fmt"
	"path/filepath"
	"strings"

	"golang.org/x/tools/go/ssa"
)

func controlsDir(c *Ctx) string { return filepath.Join(c.Verif, "checker", "testdata", "controls") }

func taintPositiveControls(c *Ctx, r *Report) {
	p, err := LoadControls(controlsDir(c), "amd64")
	if err != nil {
		r.Fatalf("positive controls: %v", err)
		return
	}
	t := NewTaint(p)
	seeds := map[*ssa.Function]lbl{}
	want := map[string]sinkKind{
		"zzctl/taintctl.LookupBySecret":   skIndex,
		"zzctl/taintctl.EarlyExitCompare": skBranch,
		"zzctl/taintctl.DivBySecret":      skVarTime,
		"zzctl/taintctl.ToBig":            skExternal,
		"zzctl/taintctl.Clean":            "",
	}
	for name := range want {
		fn := p.Func(name)
		if fn == nil {
			r.Fatalf("positive control %s not found", name)
			return
		}
		for i := range fn.Params {
			seeds[fn] |= paramBit(i)
		}
	}
	act := t.Solve(seeds)
	for name, kind := range want {
		fn := p.Func(name)
		got := map[sinkKind]bool{}
		for _, s := range act.ActiveSinks(fn) {
			got[s.kind] = true
		}
		ok := (kind == "" && len(got) == 0) || (kind != "" && got[kind])
		r.Count("positive_controls", 1)
		if !ok {
			r.Fatalf("positive control %s: expected sink %q, engine reported %v — the engine no longer sees this construct", name, kind, got)
		} else {
			r.Ok("POSITIVE-CONTROL", name, "checker/testdata/controls/taintctl", fmt.Sprintf("engine reports %q as expected", kind))
		}
	}
}

func loadAsmControls(c *Ctx, r *Report) (*AsmUnit, *Prog) {
	p, err := LoadControls(controlsDir(c), "amd64")
	if err != nil {
		r.Fatalf("positive controls: %v", err)
		return nil, nil
	}
	u, err := LoadAsmDir(filepath.Join(controlsDir(c), "asmctl"), "asmctl", "amd64")
	if err != nil {
		r.Fatalf("positive controls (asm): %v", err)
		return nil, nil
	}
	u.Rel = "zzctl/asmctl"
	if err := u.BindDecls(p); err != nil {
		r.Fatalf("positive controls (asm): %v", err)
		return nil, nil
	}
	return u, p
}

func asmPositiveControls(c *Ctx, r *Report) {
	u, _ := loadAsmControls(c, r)
	if u == nil {
		return
	}
	expect := map[string]string{"lookupBySecret": "addr", "earlyExitCompare": "branch", "cleanCopy16": "clean"}
	for name, what := range expect {
		rt := u.Routine(name)
		if rt == nil {
			r.Fatalf("positive control %s not found", name)
			continue
		}
		f := AnalyzeFlow(rt)
		if len(f.Errors) > 0 {
			r.Fatalf("positive control %s: %s", name, f.Errors[0])
			continue
		}
		ok := false
		switch what {
		case "addr":
			ok = len(f.TaintedAddr) > 0
		case "branch":
			ok = false
			for _, br := range f.TaintedBranch {
				if v, _ := f.VerdictCheck(br); !v {
					ok = true
				}
			}
		case "clean":
			ok = len(f.TaintedAddr) == 0 && len(f.TaintedBranch) == 0
		}
		r.Count("positive_controls", 1)
		if !ok {
			r.Fatalf("positive control asmctl.%s (%s) is not reported as expected by the assembler taint engine", name, what)
		} else {
			r.Ok("POSITIVE-CONTROL", "asmctl."+name, "checker/testdata/controls/asmctl", "assembler taint engine: "+what)
		}
	}
}

func effectsPositiveControls(c *Ctx, r *Report) {
	u, p := loadAsmControls(c, r)
	if u == nil {
		return
	}
	asmW, probs := AsmMayWrite(u, p)
	for _, pr := range probs {
		r.Fatalf("positive controls: %s", pr)
	}
	okAsm := asmW["storesThroughInput"][1] && asmW["storesThroughInput"][0] && !asmW["cleanCopy16"][1] && asmW["cleanCopy16"][0]
	r.Count("positive_controls", 1)
	if !okAsm {
		r.Fatalf("positive control asmctl.storesThroughInput: store provenance engine reports may-write sets %v", asmW)
	} else {
		r.Ok("POSITIVE-CONTROL", "asmctl.storesThroughInput", "checker/testdata/controls/asmctl", "A3 reports the read-modify-write through the input pointer; cleanCopy16 writes only dst")
	}
	e := NewEffects(p, asmW)
	e.Run()
	chk := func(name string, cond func(s *effSummary) bool, what string) {
		fn := p.Func(name)
		r.Count("positive_controls", 1)
		if fn == nil || !cond(e.sum[fn]) {
			r.Fatalf("positive control %s (%s) is not reported by the effect engine", name, what)
			return
		}
		r.Ok("POSITIVE-CONTROL", name, "checker/testdata/controls/effctl", "effect engine: "+what)
	}
	chk("zzctl/effctl.UsesGlobalScratch", func(s *effSummary) bool { return len(s.globals) == 2 }, "two package-level variables written")
	chk("zzctl/effctl.AppendsToInput", func(s *effSummary) bool { return s.writesParam[0] && !s.writesParam[1] }, "first parameter written through append")
	chk("zzctl/effctl.(*Obj).Caches", func(s *effSummary) bool { return s.writesParam[0] && s.retains[1] }, "receiver written, parameter retained")
	chk("zzctl/effctl.Pure", func(s *effSummary) bool { return s.writesParam[0] && !s.writesParam[1] && len(s.globals) == 0 }, "only the destination written")
}

func extentPositiveControls(c *Ctx, r *Report) {
	u, _ := loadAsmControls(c, r)
	if u == nil {
		return
	}
	for name, wantViol := range map[string]bool{"wideLoadAfterShortCheck": true, "cleanCopy16": false} {
		rt := u.Routine(name)
		if rt == nil {
			r.Fatalf("positive control %s not found", name)
			continue
		}
		con := &xContract{size: map[string]*Lin{"dst": linConst(16), "src": L("n")}, pre: []Fact{{E: L("n")}}}
		if name == "cleanCopy16" {
			con = &xContract{size: map[string]*Lin{"dst": linConst(16), "src": linConst(16)}}
		}
		flow := AnalyzeFlow(rt)
		res := AnalyzeExtents(rt, flow, con, map[string]int{})
		bad := 0
		for _, a := range res.accesses {
			if a.status != 1 {
				bad++
			}
		}
		r.Count("positive_controls", 1)
		if (bad > 0) != wantViol {
			r.Fatalf("positive control asmctl.%s: extent engine reports %d unproved accesses (expected violation: %v)", name, bad, wantViol)
		} else {
			r.Ok("POSITIVE-CONTROL", "asmctl."+name, "checker/testdata/controls/asmctl", fmt.Sprintf("extent engine: %d accesses outside the contract (expected violation: %v)", bad, wantViol))
		}
	}
	_ = strings.Join
}

// registerPositiveControls: the definite-assignment rule must report the control that reads vector registers nobody has
// written, and must be silent on the clean copy.
func registerPositiveControls(c *Ctx, r *Report) {
	u, _ := loadAsmControls(c, r)
	if u == nil {
		return
	}
	for name, want := range map[string]bool{"staleRegisterRead": true, "cleanCopy16": false} {
		rt := u.Routine(name)
		if rt == nil {
			r.Fatalf("positive control %s not found", name)
			continue
		}
		f := AnalyzeFlow(rt)
		if len(f.Errors) > 0 {
			r.Fatalf("positive control %s: %s", name, f.Errors[0])
			continue
		}
		undef := VecDefBeforeUse(rt, f)
		r.Count("positive_controls", 1)
		if (len(undef) > 0) != want {
			r.Fatalf("positive control asmctl.%s: REGISTER-DEFINED reports %d reads of unwritten registers (expected a report: %v)", name, len(undef), want)
		} else {
			r.Ok("POSITIVE-CONTROL", "asmctl."+name, "checker/testdata/controls/asmctl", fmt.Sprintf("definite assignment of vector registers: %d reads of unwritten registers (expected a report: %v)", len(undef), want))
		}
	}
}
