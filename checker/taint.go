package main

// Engine G2: interprocedural secret-taint analysis over SSA.
// Bottom-up function summaries with symbolic labels (one bit per parameter + SRC), then a top-down
// activation pass from the sources; sinks are reported where an active label reaches them.

import (
	"fmt"
	"go/constant"
	"go/token"
	"go/types"
	"sort"
	"strings"

	"golang.org/x/tools/go/ssa"
)

type lbl uint64

const lblSRC lbl = 1 << 63

type sinkKind string

const (
	skBranch   sinkKind = "TAINTED-BRANCH"
	skIndex    sinkKind = "TAINTED-INDEX"
	skCallee   sinkKind = "TAINTED-CALLEE"
	skVarTime  sinkKind = "VARIABLE-TIME-OP"
	skExternal sinkKind = "TAINTED-TO-EXTERNAL"
	skUnsafe   sinkKind = "SECRET-TO-UNSAFE"
)

type tSink struct {
	kind   sinkKind
	instr  ssa.Instruction
	labels lbl
	detail string
	// for branches
	verdictValue bool // condition is a comparison of a declassifying-comparison result
	verdictShape bool // verdict-encoding branch (loop-free, dominated blocks only return constants)
}

type fnSummary struct {
	fn         *ssa.Function
	paramOut   []lbl // content taint added to parameter j (pointer-like)
	ret        []lbl
	retAlias   []int // result k aliases parameter retAlias[k] (or -1)
	retVerdict bool  // every returned value is a verdict value
	sinks      []tSink
	calls      []tCall
}

type tCall struct {
	instr      ssa.CallInstruction
	callee     *ssa.Function
	args       []lbl // label of each argument (value | content)
	argContent []lbl
}

type Taint struct {
	p            *Prog
	sum          map[*ssa.Function]*fnSummary
	asmWrite     map[string]map[int]bool // body-less function name -> param indices it may write
	asmResult    map[string]string       // body-less function name -> "public" | "verdict" (from A2)
	srcReadFull  map[string]bool         // functions in which io.ReadFull's buffer is a source
	globalMem    map[*ssa.Global]lbl
	declass      map[string]bool // functions whose results are public by declaration
	globalStores map[*ssa.Global]map[*ssa.Function]lbl
	changed      bool
	publicLoad   func(ld *ssa.UnOp) bool // loads whose value is public although the object they read from is secret
}

func isPtrLike(t types.Type) bool {
	switch t.Underlying().(type) {
	case *types.Pointer, *types.Slice, *types.Map, *types.Chan, *types.Interface, *types.Signature:
		return true
	}
	return false
}

func hasContent(t types.Type) bool {
	if isPtrLike(t) {
		return true
	}
	switch tt := t.Underlying().(type) {
	case *types.Array:
		return true
	case *types.Struct:
		_ = tt
		return true
	}
	return false
}

// per-function analysis state
type fnState struct {
	t                *Taint
	fn               *ssa.Function
	val              map[ssa.Value]lbl
	mem              map[ssa.Value]lbl // by root representative
	uf               map[ssa.Value]ssa.Value
	tuple            map[ssa.Value][]lbl
	tupleContentRoot map[ssa.Value][]ssa.Value
	dirty            bool
}

func (s *fnState) find(v ssa.Value) ssa.Value {
	for {
		p, ok := s.uf[v]
		if !ok || p == v {
			return v
		}
		v = p
	}
}

func (s *fnState) union(a, b ssa.Value) {
	ra, rb := s.find(a), s.find(b)
	if ra == rb {
		return
	}
	s.uf[ra] = rb
	m := s.mem[ra] | s.mem[rb]
	if s.mem[rb] != m {
		s.mem[rb] = m
		s.dirty = true
	}
	s.dirty = true
}

// root finds the memory root object of an address / pointer-like value.
func (s *fnState) root(v ssa.Value) ssa.Value {
	for i := 0; i < 100; i++ {
		switch x := v.(type) {
		case *ssa.FieldAddr:
			v = x.X
		case *ssa.IndexAddr:
			v = x.X
		case *ssa.Slice:
			v = x.X
		case *ssa.ChangeType:
			v = x.X
		case *ssa.Convert:
			v = x.X
		case *ssa.SliceToArrayPointer:
			v = x.X
		case *ssa.MakeInterface:
			v = x.X
		case *ssa.ChangeInterface:
			v = x.X
		case *ssa.TypeAssert:
			v = x.X
		case *ssa.UnOp:
			if x.Op == token.MUL && hasContent(x.Type()) {
				v = x.X // pointer (or aggregate) loaded from a container: same object as the container
				continue
			}
			return s.find(v)
		case *ssa.Field:
			v = x.X
		case *ssa.Index:
			v = x.X
		case *ssa.Extract:
			if rs, ok := s.tupleContentRoot[x.Tuple]; ok && x.Index < len(rs) && rs[x.Index] != nil {
				v = rs[x.Index]
				continue
			}
			return s.find(v)
		default:
			return s.find(v)
		}
	}
	return s.find(v)
}

func (s *fnState) setVal(v ssa.Value, l lbl) {
	if s.val[v]|l != s.val[v] {
		s.val[v] |= l
		s.dirty = true
	}
}
func (s *fnState) addMem(root ssa.Value, l lbl) {
	root = s.find(root)
	if s.mem[root]|l != s.mem[root] {
		s.mem[root] |= l
		s.dirty = true
	}
	if g, ok := root.(*ssa.Global); ok && l != 0 {
		if s.t.globalStores == nil {
			s.t.globalStores = map[*ssa.Global]map[*ssa.Function]lbl{}
		}
		if s.t.globalStores[g] == nil {
			s.t.globalStores[g] = map[*ssa.Function]lbl{}
		}
		if s.t.globalStores[g][s.fn]|l != s.t.globalStores[g][s.fn] {
			s.t.globalStores[g][s.fn] |= l // resolved at activation time: secret iff the storing function's labels are active
			s.t.changed = true
		}
		if l&lblSRC != 0 && s.t.globalMem[g]&lblSRC == 0 {
			s.t.globalMem[g] |= lblSRC
			s.t.changed = true
		}
	}
}
func (s *fnState) memOf(root ssa.Value) lbl {
	root = s.find(root)
	l := s.mem[root]
	if g, ok := root.(*ssa.Global); ok {
		l |= s.t.globalMem[g]
	}
	return l
}

// lab returns the label of a value as seen by a consumer: scalars by value, pointer-likes by content.
func (s *fnState) lab(v ssa.Value) lbl {
	l := s.val[v]
	if hasContent(v.Type()) {
		l |= s.memOf(s.root(v))
	}
	return l
}

func paramBit(i int) lbl {
	if i >= 62 {
		return 1 << 62
	}
	return 1 << uint(i)
}

func NewTaint(p *Prog) *Taint {
	return &Taint{p: p, sum: map[*ssa.Function]*fnSummary{}, asmWrite: map[string]map[int]bool{}, srcReadFull: map[string]bool{}, globalMem: map[*ssa.Global]lbl{}}
}

// allParams returns receiver+params as SSA parameters.
func allParams(fn *ssa.Function) []*ssa.Parameter { return fn.Params }

// Run computes all summaries to a fixpoint.
func (t *Taint) Run() {
	fns := t.p.RepoFuncs()
	// include anonymous functions
	for _, f := range fns {
		t.sum[f] = &fnSummary{fn: f, paramOut: make([]lbl, len(f.Params)+len(f.FreeVars)), ret: make([]lbl, f.Signature.Results().Len()), retAlias: fillInts(f.Signature.Results().Len(), -1)}
	}
	for iter := 0; iter < 50; iter++ {
		t.changed = false
		for _, f := range fns {
			if len(f.Blocks) == 0 {
				continue
			}
			t.analyze(f)
		}
		if !t.changed {
			break
		}
	}
}

func fillInts(n, v int) []int {
	out := make([]int, n)
	for i := range out {
		out[i] = v
	}
	return out
}

var ctLeaf = map[string]bool{
	"math/bits.Add64": true, "math/bits.Sub64": true, "math/bits.Mul64": true, "math/bits.Add32": true, "math/bits.Sub32": true, "math/bits.Mul32": true,
	"math/bits.RotateLeft32": true, "math/bits.RotateLeft64": true, "math/bits.ReverseBytes32": true, "math/bits.ReverseBytes64": true,
	"crypto/subtle.ConstantTimeCompare": true, "crypto/subtle.ConstantTimeByteEq": true, "crypto/subtle.ConstantTimeEq": true, "crypto/subtle.ConstantTimeSelect": true,
	"crypto/subtle.ConstantTimeLessOrEq": true, "crypto/subtle.ConstantTimeCopy": true, "crypto/subtle.XORBytes": true,
	"(encoding/binary.bigEndian).PutUint16": true, "(encoding/binary.bigEndian).PutUint32": true, "(encoding/binary.bigEndian).PutUint64": true,
	"(encoding/binary.bigEndian).Uint16": true, "(encoding/binary.bigEndian).Uint32": true, "(encoding/binary.bigEndian).Uint64": true,
	"(encoding/binary.littleEndian).PutUint16": true, "(encoding/binary.littleEndian).PutUint32": true, "(encoding/binary.littleEndian).PutUint64": true,
	"(encoding/binary.littleEndian).Uint16": true, "(encoding/binary.littleEndian).Uint32": true, "(encoding/binary.littleEndian).Uint64": true,
	// containers and locks that move or guard a pointer without looking at what it points to
	"(*sync.Pool).Put": true, "(*sync.Pool).Get": true, "(*sync/atomic.Value).Store": true, "(*sync/atomic.Value).Load": true,
	"(*sync.Mutex).Lock": true, "(*sync.Mutex).Unlock": true, "(*sync.RWMutex).Lock": true, "(*sync.RWMutex).Unlock": true, "(*sync.RWMutex).RLock": true, "(*sync.RWMutex).RUnlock": true,
}

var declassFns = map[string]bool{"crypto/subtle.ConstantTimeCompare": true, modPath + "/utils.ConstantTimeCmp": true}

// isVerdictValue: the value is (a comparison of) the result of a declassifying comparison routine.
func (t *Taint) isVerdictValue(v ssa.Value, depth int) bool {
	if depth > 8 {
		return false
	}
	switch x := v.(type) {
	case *ssa.Const:
		return true
	case *ssa.Call:
		cal := x.Call.StaticCallee()
		if cal == nil {
			return false
		}
		if declassFns[cal.String()] {
			return true
		}
		// ConstantTimeByteEq / ConstantTimeEq of the OR of *all* bytes of a slice with zero is the same verdict as
		// ConstantTimeCompare of the slice with a zero string
		if cs := cal.String(); (cs == "crypto/subtle.ConstantTimeByteEq" || cs == "crypto/subtle.ConstantTimeEq") && len(x.Call.Args) == 2 {
			for i := 0; i < 2; i++ {
				if c, ok := x.Call.Args[1-i].(*ssa.Const); ok && c.Value != nil && c.Value.ExactString() == "0" && isOrFoldOfWholeSlice(x.Call.Args[i]) {
					return true
				}
			}
		}
		// a zero test of the word the Nonzero primitive hands out (the OR of all limbs of an element), possibly through a
		// helper that folds the word first: the same verdict as comparing the element's encoding with zero
		if i := zeroTestOfParam(cal); i >= 0 && i < len(x.Call.Args) && isLimbOrWord(x.Call.Args[i]) {
			return true
		}
		if len(cal.Blocks) == 0 && t.asmResult[cal.Name()] == "verdict" && isRepoFunc(cal) {
			return true
		}
		if s, ok := t.sum[cal]; ok && s.retVerdict {
			return true
		}
		return false
	case *ssa.BinOp:
		switch x.Op {
		case token.EQL, token.NEQ, token.LSS, token.GTR, token.LEQ, token.GEQ:
			_, cx := x.X.(*ssa.Const)
			_, cy := x.Y.(*ssa.Const)
			if cx && cy {
				return true
			}
			if cy {
				return t.isVerdictValue(x.X, depth+1) && !isConst(x.X)
			}
			if cx {
				return t.isVerdictValue(x.Y, depth+1) && !isConst(x.Y)
			}
		}
		return false
	case *ssa.UnOp:
		if x.Op == token.NOT {
			return t.isVerdictValue(x.X, depth+1)
		}
		return false
	case *ssa.Phi:
		for _, e := range x.Edges {
			if !t.isVerdictValue(e, depth+1) {
				return false
			}
		}
		return true
	case *ssa.Convert:
		return t.isVerdictValue(x.X, depth+1)
	case *ssa.ChangeType:
		return t.isVerdictValue(x.X, depth+1)
	}
	return false
}

func isConst(v ssa.Value) bool { _, ok := v.(*ssa.Const); return ok }

func (t *Taint) analyze(fn *ssa.Function) {
	s := &fnState{t: t, fn: fn, val: map[ssa.Value]lbl{}, mem: map[ssa.Value]lbl{}, uf: map[ssa.Value]ssa.Value{}, tuple: map[ssa.Value][]lbl{}, tupleContentRoot: map[ssa.Value][]ssa.Value{}}
	sum := t.sum[fn]
	for i, p := range fn.Params {
		if hasContent(p.Type()) {
			s.mem[p] = paramBit(i)
		}
		if !isPtrLike(p.Type()) {
			s.val[p] = paramBit(i)
		}
	}
	// a captured variable is a pointer to the parent's cell. When every use of the closure value is a direct call in the
	// parent, the cell is one more (pointer) argument of that call: pseudo-parameter len(Params)+j, bound at the call to the
	// MakeClosure's binding. Any other use (stored, passed on, deferred, go) keeps the conservative answer "secret".
	direct := closureCalledDirectlyOnly(fn)
	for j, fv := range fn.FreeVars {
		if direct {
			s.mem[fv] = paramBit(len(fn.Params) + j)
		} else {
			s.mem[fv] = lblSRC
		}
	}
	var sinks []tSink
	var calls []tCall
	for iter := 0; iter < 30; iter++ {
		s.dirty = false
		sinks = sinks[:0]
		calls = calls[:0]
		for _, b := range fn.Blocks {
			for _, in := range b.Instrs {
				t.transfer(s, in, &sinks, &calls)
			}
		}
		if !s.dirty {
			break
		}
	}
	// summary
	for i, p := range fn.Params {
		if hasContent(p.Type()) {
			out := s.memOf(s.root(p)) &^ paramBit(i)
			if sum.paramOut[i]|out != sum.paramOut[i] {
				sum.paramOut[i] |= out
				t.changed = true
			}
		}
	}
	for j, fv := range fn.FreeVars {
		i := len(fn.Params) + j
		if i < len(sum.paramOut) {
			out := s.memOf(s.root(fv)) &^ paramBit(i)
			if sum.paramOut[i]|out != sum.paramOut[i] {
				sum.paramOut[i] |= out
				t.changed = true
			}
		}
	}
	nres := fn.Signature.Results().Len()
	retVerdict := nres >= 1
	nret := 0
	for _, b := range fn.Blocks {
		for _, in := range b.Instrs {
			ret, ok := in.(*ssa.Return)
			if !ok {
				continue
			}
			nret++
			for k, rv := range retVals(ret) {
				l := s.lab(rv)
				if sum.ret[k]|l != sum.ret[k] {
					sum.ret[k] |= l
					t.changed = true
				}
				if hasContent(rv.Type()) {
					rr := s.root(rv)
					for i, p := range fn.Params {
						if s.find(p) == rr || s.root(p) == rr {
							if sum.retAlias[k] != i {
								sum.retAlias[k] = i
								t.changed = true
							}
						}
					}
				}
				if k == 0 && !t.isVerdictValue(rv, 0) {
					retVerdict = false
				}
				if k == 0 && isConst(rv) && nres == 1 {
					// constants alone do not make a function a verdict function
				}
			}
		}
	}
	if nret == 0 || nres != 1 {
		retVerdict = false
	}
	if retVerdict {
		// at least one return must be a real declassified value, not only constants
		real := false
		for _, b := range fn.Blocks {
			for _, in := range b.Instrs {
				if ret, ok := in.(*ssa.Return); ok && len(retVals(ret)) == 1 && !isConst(retVals(ret)[0]) {
					real = true
				}
			}
		}
		retVerdict = real
	}
	if sum.retVerdict != retVerdict {
		sum.retVerdict = retVerdict
		t.changed = true
	}
	sum.sinks = append([]tSink(nil), sinks...)
	sum.calls = append([]tCall(nil), calls...)
}

func (t *Taint) transfer(s *fnState, in ssa.Instruction, sinks *[]tSink, calls *[]tCall) {
	addSink := func(k sinkKind, l lbl, detail string) {
		if l != 0 {
			*sinks = append(*sinks, tSink{kind: k, instr: in, labels: l, detail: detail})
		}
	}
	switch x := in.(type) {
	case *ssa.Alloc, *ssa.MakeMap, *ssa.MakeChan:
	case *ssa.MakeSlice:
		addSink(skIndex, s.val[x.Len]|s.val[x.Cap], "make([]T, n) with a secret-dependent size")
	case *ssa.FieldAddr:
	case *ssa.IndexAddr:
		addSink(skIndex, s.val[x.Index], "memory address computed from a secret-dependent index")
	case *ssa.Index:
		addSink(skIndex, s.val[x.Index], "array element selected by a secret-dependent index")
		s.setVal(x, s.lab(x.X)|s.val[x.Index])
	case *ssa.Lookup:
		addSink(skIndex, s.lab(x.Index), "map/string lookup with a secret-dependent key")
		s.setVal(x, s.lab(x.X)|s.lab(x.Index))
	case *ssa.Slice:
		var l lbl
		for _, b := range []ssa.Value{x.Low, x.High, x.Max} {
			if b != nil {
				l |= s.val[b]
			}
		}
		addSink(skIndex, l, "slice bounds depend on a secret")
	case *ssa.Field:
		s.setVal(x, s.lab(x.X))
	case *ssa.UnOp:
		switch x.Op {
		case token.MUL:
			if !hasContent(x.Type()) {
				if t.publicLoad != nil && t.publicLoad(x) {
					// a configuration field of an object that also holds secrets (declared public by the check that runs the engine)
					s.setVal(x, 0)
					break
				}
				s.setVal(x, s.memOf(s.root(x.X)))
			} else if !isPtrLike(x.Type()) {
				// aggregate loaded by value (struct/array copy): its content is the container's content
				s.setVal(x, 0)
			}
		case token.ARROW:
			s.setVal(x, s.lab(x.X))
		default:
			s.setVal(x, s.val[x.X])
		}
	case *ssa.BinOp:
		l := s.val[x.X] | s.val[x.Y]
		if hasContent(x.X.Type()) || hasContent(x.Y.Type()) {
			// pointer / interface comparison (x == nil): identity, not content
			l = s.val[x.X] | s.val[x.Y]
		}
		if _, isStr := x.X.Type().Underlying().(*types.Basic); isStr && x.X.Type().Underlying().(*types.Basic).Info()&types.IsString != 0 {
			l = s.lab(x.X) | s.lab(x.Y)
		}
		s.setVal(x, l)
		switch x.Op {
		case token.QUO, token.REM:
			addSink(skVarTime, l, "division/remainder with a secret operand")
		case token.SHL, token.SHR:
			addSink(skVarTime, s.val[x.Y], "shift by a secret-dependent amount")
		}
	case *ssa.Convert:
		if !hasContent(x.Type()) {
			s.setVal(x, s.lab(x.X))
		} else if !hasContent(x.X.Type()) {
			s.setVal(x, s.val[x.X])
		}
		if isStringType(x.Type()) || isStringType(x.X.Type()) {
			s.setVal(x, s.lab(x.X))
		}
	case *ssa.ChangeType, *ssa.ChangeInterface, *ssa.MakeInterface, *ssa.SliceToArrayPointer:
		ops := in.Operands(nil)
		if len(ops) > 0 && *ops[0] != nil {
			s.setVal(in.(ssa.Value), s.val[*ops[0]])
		}
	case *ssa.TypeAssert:
		s.setVal(x, s.val[x.X])
	case *ssa.Phi:
		var l lbl
		for _, e := range x.Edges {
			l |= s.val[e]
		}
		s.setVal(x, l)
		if hasContent(x.Type()) {
			for _, e := range x.Edges {
				if !isConst(e) {
					s.union(s.root(e), x)
				}
			}
		}
	case *ssa.Select:
		s.setVal(x, lblSRC)
	case *ssa.Extract:
		if ls, ok := s.tuple[x.Tuple]; ok && x.Index < len(ls) {
			s.setVal(x, ls[x.Index])
		}
	case *ssa.Range, *ssa.Next:
		ops := in.Operands(nil)
		var l lbl
		for _, o := range ops {
			if *o != nil {
				l |= s.lab(*o)
			}
		}
		if v, ok := in.(ssa.Value); ok {
			s.setVal(v, l)
		}
	case *ssa.Store:
		r := s.root(x.Addr)
		if hasContent(x.Val.Type()) && !isConst(x.Val) {
			if isPtrLike(x.Val.Type()) {
				s.union(s.root(x.Val), r)
			} else {
				s.addMem(r, s.lab(x.Val))
			}
		}
		s.addMem(r, s.val[x.Val])
		if ia, ok := x.Addr.(*ssa.IndexAddr); ok {
			s.addMem(r, s.val[ia.Index])
		}
	case *ssa.MapUpdate:
		s.addMem(s.root(x.Map), s.lab(x.Key)|s.lab(x.Value))
	case *ssa.Send:
		s.addMem(s.root(x.Chan), s.lab(x.X))
	case *ssa.If:
		l := s.val[x.Cond]
		if l != 0 {
			sk := tSink{kind: skBranch, instr: in, labels: l, detail: "branch condition depends on a secret"}
			sk.verdictValue = t.isVerdictValue(x.Cond, 0) && !isConst(x.Cond)
			sk.verdictShape = verdictEncoding(x)
			*sinks = append(*sinks, sk)
		}
	case *ssa.Return, *ssa.Jump, *ssa.Panic, *ssa.RunDefers, *ssa.DebugRef:
	case *ssa.MakeClosure:
		for _, b := range x.Bindings {
			s.setVal(x, s.lab(b))
		}
	case *ssa.Call:
		t.call(s, x, x.Common(), sinks, calls)
	case *ssa.Go:
		t.call(s, x, x.Common(), sinks, calls)
	case *ssa.Defer:
		t.call(s, x, x.Common(), sinks, calls)
	default:
		// unknown instruction kinds: conservative
		if v, ok := in.(ssa.Value); ok {
			var l lbl
			for _, o := range in.Operands(nil) {
				if *o != nil {
					l |= s.lab(*o)
				}
			}
			s.setVal(v, l)
		}
	}
}

func isStringType(t types.Type) bool {
	b, ok := t.Underlying().(*types.Basic)
	return ok && b.Info()&types.IsString != 0
}

// verdictEncoding: the If is outside every cycle and everything it dominates only returns constants.
func verdictEncoding(x *ssa.If) bool {
	b := x.Block()
	fn := b.Parent()
	// cycle test: can b reach itself?
	seen := map[*ssa.BasicBlock]bool{}
	var stack []*ssa.BasicBlock
	stack = append(stack, b.Succs...)
	for len(stack) > 0 {
		c := stack[len(stack)-1]
		stack = stack[:len(stack)-1]
		if c == b {
			return false
		}
		if seen[c] {
			continue
		}
		seen[c] = true
		stack = append(stack, c.Succs...)
	}
	_ = fn
	// every reachable block from the successors contains only Phi, Jump, If (of the same kind), Return of constants
	for c := range seen {
		for _, in := range c.Instrs {
			switch y := in.(type) {
			case *ssa.Phi, *ssa.Jump, *ssa.DebugRef:
			case *ssa.If:
			case *ssa.BinOp:
				// comparisons feeding nested verdict branches
				switch y.Op {
				case token.EQL, token.NEQ, token.LSS, token.GTR, token.LEQ, token.GEQ:
				default:
					return false
				}
			case *ssa.Return:
				for _, r := range retVals(y) {
					if !isConst(r) {
						if ph, ok := r.(*ssa.Phi); ok {
							okc := true
							for _, e := range ph.Edges {
								if !isConst(e) {
									okc = false
								}
							}
							if okc {
								continue
							}
						}
						return false
					}
				}
			default:
				return false
			}
		}
	}
	return true
}

func (t *Taint) call(s *fnState, in ssa.Instruction, c *ssa.CallCommon, sinks *[]tSink, calls *[]tCall) {
	val, isVal := in.(ssa.Value)
	args := c.Args
	if c.IsInvoke() {
		args = append([]ssa.Value{c.Value}, c.Args...)
	}
	joinAll := func() lbl {
		var l lbl
		for _, a := range args {
			l |= s.lab(a)
		}
		return l
	}
	setResult := func(l lbl, alias ssa.Value) {
		if !isVal {
			return
		}
		n := c.Signature().Results().Len()
		if n == 1 {
			if hasContent(val.Type()) {
				if alias != nil {
					s.union(val, s.root(alias))
				}
				s.addMem(s.find(val), l)
			}
			if !isPtrLike(val.Type()) {
				s.setVal(val, l)
			}
		} else if n > 1 {
			ls := make([]lbl, n)
			for i := range ls {
				ls[i] = l
			}
			s.tuple[val] = ls
		}
	}
	if b, ok := c.Value.(*ssa.Builtin); ok {
		switch b.Name() {
		case "len", "cap":
			if isVal {
				if isStringType(args[0].Type()) {
					s.setVal(val, 0)
				}
				s.setVal(val, 0)
			}
		case "copy":
			s.addMem(s.root(args[0]), s.lab(args[1]))
			if isVal {
				s.setVal(val, 0)
			}
		case "append":
			l := s.lab(args[0])
			for _, a := range args[1:] {
				l |= s.lab(a)
			}
			if isVal {
				s.union(val, s.root(args[0]))
				s.addMem(s.find(val), l)
			}
		case "panic", "print", "println", "recover", "delete", "close", "min", "max", "clear":
			if isVal {
				s.setVal(val, joinAll())
			}
		default:
			setResult(joinAll(), nil)
		}
		return
	}
	callee := c.StaticCallee()
	if mc, ok := c.Value.(*ssa.MakeClosure); ok && callee != nil && mc.Fn == ssa.Value(callee) && closureCalledDirectlyOnly(callee) {
		args = append(append([]ssa.Value(nil), args...), mc.Bindings...)
	}
	if callee == nil && c.IsInvoke() {
		if impls := t.implementations(c); len(impls) > 0 {
			for _, im := range impls {
				t.applyRepoSummary(s, in, im, args, calls, isVal, val, setResult)
			}
			return
		}
	}
	if callee == nil {
		// dynamic call: callee value tainted?
		if l := s.val[c.Value]; l != 0 && !c.IsInvoke() {
			*sinks = append(*sinks, tSink{kind: skCallee, instr: in, labels: l, detail: "indirect call through a secret-dependent function value"})
		}
		l := joinAll()
		// interface methods of hash.Hash / io.Reader / cipher.Block: contents of pointer-like args may be written
		for _, a := range args {
			if hasContent(a.Type()) {
				s.addMem(s.root(a), l)
			}
		}
		setResult(l, nil)
		tc := tCall{instr: in.(ssa.CallInstruction)}
		for _, a := range args {
			tc.args = append(tc.args, s.lab(a))
		}
		*calls = append(*calls, tc)
		return
	}
	name := callee.String()
	if t.declass[t.p.FuncName(callee)] {
		tc := tCall{instr: in.(ssa.CallInstruction), callee: callee}
		for _, a := range args {
			tc.args = append(tc.args, s.lab(a))
		}
		*calls = append(*calls, tc)
		setResult(0, nil)
		return
	}
	tc := tCall{instr: in.(ssa.CallInstruction), callee: callee}
	for _, a := range args {
		tc.args = append(tc.args, s.lab(a))
	}
	*calls = append(*calls, tc)
	if _, ok := t.sum[callee]; ok && len(callee.Blocks) > 0 {
		t.applyRepoSummary(s, in, callee, args, nil, isVal, val, setResult)
		return
	}
	// body-less repository function (assembler): summary from A3
	if callee.Pkg != nil && strings.HasPrefix(callee.Pkg.Pkg.Path(), modPath) && len(callee.Blocks) == 0 {
		l := joinAll()
		w := t.asmWrite[callee.Name()]
		for j, a := range args {
			if hasContent(a.Type()) && (w == nil || w[j]) {
				s.addMem(s.root(a), l)
			}
		}
		if t.asmResult[callee.Name()] == "public" {
			setResult(0, nil) // A2: the stored result does not depend on any loaded byte
		} else {
			setResult(l, nil)
		}
		return
	}
	// external functions
	if name == "io.ReadFull" && t.srcReadFull[t.p.FuncName(s.fn)] && len(args) == 2 {
		s.addMem(s.root(args[1]), lblSRC)
		setResult(0, nil)
		if isVal {
			s.tuple[val] = []lbl{0, 0}
		}
		return
	}
	l := joinAll()
	if name == "(*math/big.Int).FillBytes" && len(args) == 2 {
		// writes the big-endian value of the receiver into buf and returns buf: the old content of buf does not flow anywhere
		rl := s.lab(args[0])
		if rl != 0 {
			*sinks = append(*sinks, tSink{kind: skExternal, instr: in, labels: rl, detail: "secret-dependent data passed to " + name + ", which is not on the constant-time allow-list"})
		}
		s.addMem(s.root(args[1]), rl)
		setResult(rl, args[1])
		return
	}
	switch {
	case ctLeaf[name]:
		// data-independent leaf: results depend on all operands, pointer-like destinations receive them
		if strings.Contains(name, ".Put") || name == "crypto/subtle.ConstantTimeCopy" || name == "crypto/subtle.XORBytes" {
			for _, a := range args {
				if hasContent(a.Type()) {
					if _, isSlice := a.Type().Underlying().(*types.Slice); isSlice {
						s.addMem(s.root(a), l)
						break
					}
				}
			}
		}
		setResult(l, nil)
	default:
		if l != 0 {
			*sinks = append(*sinks, tSink{kind: skExternal, instr: in, labels: l, detail: "secret-dependent data passed to " + name + ", which is not on the constant-time allow-list"})
		}
		if callee.Signature.Recv() != nil && len(args) > 0 {
			// external methods (math/big, ...): only the receiver is written
			if hasContent(args[0].Type()) {
				s.addMem(s.root(args[0]), l)
			}
		} else {
			for _, a := range args {
				if hasContent(a.Type()) {
					s.addMem(s.root(a), l)
				}
			}
		}
		// methods that return their receiver
		var alias ssa.Value
		if callee.Signature.Recv() != nil && len(args) > 0 && c.Signature().Results().Len() == 1 && types.Identical(c.Signature().Results().At(0).Type(), args[0].Type()) {
			alias = args[0]
		}
		setResult(l, alias)
	}
}

// applyRepoSummary instantiates the summary of a repository function at a call site.
func (t *Taint) applyRepoSummary(s *fnState, in ssa.Instruction, callee *ssa.Function, args []ssa.Value, calls *[]tCall, isVal bool, val ssa.Value, setResult func(lbl, ssa.Value)) {
	sum := t.sum[callee]
	if sum == nil {
		return
	}
	if calls != nil {
		tc := tCall{instr: in.(ssa.CallInstruction), callee: callee}
		for _, a := range args {
			tc.args = append(tc.args, s.lab(a))
		}
		*calls = append(*calls, tc)
	}
	subst := func(m lbl) lbl {
		var out lbl
		if m&lblSRC != 0 {
			out |= lblSRC
		}
		for i := range args {
			if i < len(callee.Params)+len(callee.FreeVars) && m&paramBit(i) != 0 {
				out |= s.lab(args[i])
			}
		}
		return out
	}
	for j := range args {
		if j < len(sum.paramOut) && sum.paramOut[j] != 0 && hasContent(args[j].Type()) {
			s.addMem(s.root(args[j]), subst(sum.paramOut[j]))
		}
	}
	if !isVal {
		return
	}
	n := len(sum.ret)
	if n == 1 {
		var alias ssa.Value
		l := subst(sum.ret[0])
		if sum.retAlias[0] >= 0 && sum.retAlias[0] < len(args) {
			alias = args[sum.retAlias[0]]
			l = subst(sum.ret[0] &^ paramBit(sum.retAlias[0]))
		}
		setResult(l, alias)
	} else if n > 1 {
		ls := make([]lbl, n)
		roots := make([]ssa.Value, n)
		for k := range ls {
			ls[k] = subst(sum.ret[k])
			if sum.retAlias[k] >= 0 && sum.retAlias[k] < len(args) {
				roots[k] = args[sum.retAlias[k]]
				ls[k] = subst(sum.ret[k] &^ paramBit(sum.retAlias[k]))
			}
		}
		old := s.tuple[val]
		for k := range ls {
			if k < len(old) {
				ls[k] |= old[k]
			}
		}
		s.tuple[val] = ls
		s.tupleContentRoot[val] = roots
	}
}

// implementations resolves an interface method call to the repository's implementations (CHA restricted to repo types).
func (t *Taint) implementations(c *ssa.CallCommon) []*ssa.Function {
	iface, ok := c.Value.Type().Underlying().(*types.Interface)
	if !ok {
		return nil
	}
	var out []*ssa.Function
	for _, pk := range t.p.SSAPkgs {
		for _, m := range pk.Members {
			tp, ok := m.(*ssa.Type)
			if !ok {
				continue
			}
			for _, T := range []types.Type{tp.Type(), types.NewPointer(tp.Type())} {
				if types.Implements(T, iface) {
					sel := t.p.SSA.MethodSets.MethodSet(T).Lookup(c.Method.Pkg(), c.Method.Name())
					if sel == nil {
						continue
					}
					if f := t.p.SSA.MethodValue(sel); f != nil && len(f.Blocks) > 0 {
						dup := false
						for _, o := range out {
							if o == f {
								dup = true
							}
						}
						if !dup {
							out = append(out, f)
						}
					}
				}
			}
		}
	}
	sort.Slice(out, func(i, j int) bool { return out[i].String() < out[j].String() })
	return out
}

// ---------------------------------------------------------------------------
// activation

type Activation struct {
	t      *Taint
	active map[*ssa.Function]lbl
}

// Activate propagates taint from seeds (function -> parameter mask) down the call graph.
func (t *Taint) Activate(seeds map[*ssa.Function]lbl) *Activation {
	a := &Activation{t: t, active: map[*ssa.Function]lbl{}}
	for f, m := range seeds {
		a.active[f] |= m
	}
	for iter := 0; iter < 100; iter++ {
		changed := false
		for f, sum := range t.sum {
			act := a.active[f] | lblSRC
			for _, c := range sum.calls {
				if c.callee == nil {
					continue
				}
				if _, ok := t.sum[c.callee]; !ok {
					continue
				}
				var m lbl
				for i, l := range c.args {
					if l&act != 0 {
						m |= paramBit(i)
					}
				}
				if a.active[c.callee]|m != a.active[c.callee] {
					a.active[c.callee] |= m
					changed = true
				}
			}
		}
		if !changed {
			break
		}
	}
	return a
}

// Solve runs summaries and activation until secret stores into package-level variables are stable.
func (t *Taint) Solve(seeds map[*ssa.Function]lbl) *Activation {
	var a *Activation
	for iter := 0; iter < 10; iter++ {
		t.Run()
		a = t.Activate(seeds)
		changed := false
		for g, byFn := range t.globalStores {
			for f, l := range byFn {
				if l&(a.active[f]|lblSRC) != 0 && t.globalMem[g]&lblSRC == 0 {
					t.globalMem[g] |= lblSRC
					changed = true
				}
			}
		}
		if !changed {
			break
		}
	}
	return a
}

// ActiveSinks returns the sinks of fn that are reached by an active label.
func (a *Activation) ActiveSinks(fn *ssa.Function) []tSink {
	sum := a.t.sum[fn]
	if sum == nil {
		return nil
	}
	act := a.active[fn] | lblSRC
	var out []tSink
	for _, s := range sum.sinks {
		if s.labels&act != 0 {
			out = append(out, s)
		}
	}
	return out
}

// Reached lists the functions that receive tainted inputs (or contain a source).
func (a *Activation) Reached() []*ssa.Function {
	var out []*ssa.Function
	for f, m := range a.active {
		if m != 0 {
			out = append(out, f)
		}
	}
	for f, sum := range a.t.sum {
		if a.active[f] != 0 {
			continue
		}
		for _, s := range sum.sinks {
			if s.labels&lblSRC != 0 {
				out = append(out, f)
				break
			}
		}
	}
	sort.Slice(out, func(i, j int) bool { return a.t.p.FuncName(out[i]) < a.t.p.FuncName(out[j]) })
	return out
}

func (t *Taint) describeLabels(fn *ssa.Function, l lbl) string {
	var parts []string
	if l&lblSRC != 0 {
		parts = append(parts, "randomness source")
	}
	for i, p := range fn.Params {
		if l&paramBit(i) != 0 {
			parts = append(parts, p.Name())
		}
	}
	return strings.Join(parts, ",")
}

func sinkKey(p *Prog, fn *ssa.Function, s tSink, ordinal int) string {
	return fmt.Sprintf("%s %s#%d", p.FuncName(fn), shortInstr(s.instr), ordinal)
}

func shortInstr(in ssa.Instruction) string {
	switch x := in.(type) {
	case *ssa.If:
		return "if " + condString(x.Cond)
	case *ssa.IndexAddr:
		return "index"
	case *ssa.Index:
		return "index"
	case *ssa.BinOp:
		return x.Op.String()
	case ssa.CallInstruction:
		if c := x.Common().StaticCallee(); c != nil {
			return "call " + c.Name()
		}
		return "call"
	}
	return fmt.Sprintf("%T", in)
}

func condString(v ssa.Value) string {
	if b, ok := v.(*ssa.BinOp); ok {
		return valName(b.X) + " " + b.Op.String() + " " + valName(b.Y)
	}
	return valName(v)
}

func valName(v ssa.Value) string {
	switch x := v.(type) {
	case *ssa.Const:
		if x.Value == nil {
			return "nil"
		}
		return x.Value.String()
	case *ssa.Call:
		if c := x.Call.StaticCallee(); c != nil {
			return c.Name() + "()"
		}
		return "call()"
	case *ssa.UnOp:
		if x.Op == token.MUL {
			return "*" + valName(x.X)
		}
		return x.Op.String() + valName(x.X)
	case *ssa.IndexAddr:
		return valName(x.X) + "[…]"
	case *ssa.FieldAddr:
		return valName(x.X) + ".f" + fmt.Sprint(x.Field)
	case *ssa.Parameter:
		return x.Name()
	case *ssa.Phi:
		if x.Comment != "" {
			return x.Comment
		}
		return "phi"
	case *ssa.Convert:
		return valName(x.X)
	case *ssa.Global:
		return x.Name()
	case *ssa.Extract:
		return valName(x.Tuple) + "#" + fmt.Sprint(x.Index)
	case *ssa.BinOp:
		return "(" + valName(x.X) + x.Op.String() + valName(x.Y) + ")"
	}
	if v.Name() != "" {
		return v.Name()
	}
	return "?"
}

// isOrFoldOfWholeSlice: v is acc after "acc := 0; for i := 0; i < len(s); i++ { acc |= s[i] }" (or the range form): a
// loop-carried accumulator that starts at zero, is OR-ed with s[I] in every iteration, where the index I starts at 0,
// advances by one and the loop runs while I < len(s).
func isOrFoldOfWholeSlice(v ssa.Value) bool {
	strip := func(v ssa.Value) ssa.Value {
		for {
			switch x := v.(type) {
			case *ssa.Convert:
				v = x.X
			case *ssa.ChangeType:
				v = x.X
			default:
				return v
			}
		}
	}
	acc, ok := strip(v).(*ssa.Phi)
	if !ok || len(acc.Edges) != 2 {
		return false
	}
	var step *ssa.BinOp
	zero := false
	for _, e := range acc.Edges {
		if c, ok := e.(*ssa.Const); ok && c.Value != nil && c.Value.ExactString() == "0" {
			zero = true
		} else if b, ok := strip(e).(*ssa.BinOp); ok && b.Op == token.OR {
			step = b
		}
	}
	if !zero || step == nil {
		return false
	}
	var elem ssa.Value
	switch {
	case strip(step.X) == ssa.Value(acc):
		elem = step.Y
	case strip(step.Y) == ssa.Value(acc):
		elem = step.X
	default:
		return false
	}
	load, ok := strip(elem).(*ssa.UnOp)
	if !ok || load.Op != token.MUL {
		return false
	}
	ia, ok := load.X.(*ssa.IndexAddr)
	if !ok {
		return false
	}
	if _, isSlice := ia.X.Type().Underlying().(*types.Slice); !isSlice {
		return false
	}
	// the index: phi(0, I+1), or phi(-1, I) + 1
	idx := ia.Index
	startsAtZero := false
	if ph, ok := idx.(*ssa.Phi); ok && len(ph.Edges) == 2 && ph.Block() == acc.Block() {
		for i, e := range ph.Edges {
			c, isC := e.(*ssa.Const)
			inc, isInc := ph.Edges[1-i].(*ssa.BinOp)
			if isC && c.Value != nil && c.Value.ExactString() == "0" && isInc && inc.Op == token.ADD && inc.X == ssa.Value(ph) {
				if k, ok := inc.Y.(*ssa.Const); ok && k.Value != nil && k.Value.ExactString() == "1" {
					startsAtZero = true
				}
			}
		}
	} else if inc, ok := idx.(*ssa.BinOp); ok && inc.Op == token.ADD {
		if ph, ok := inc.X.(*ssa.Phi); ok && len(ph.Edges) == 2 && ph.Block() == acc.Block() {
			if k, ok := inc.Y.(*ssa.Const); ok && k.Value != nil && k.Value.ExactString() == "1" {
				for i, e := range ph.Edges {
					if c, isC := e.(*ssa.Const); isC && c.Value != nil && c.Value.ExactString() == "-1" && ph.Edges[1-i] == ssa.Value(inc) {
						startsAtZero = true
					}
				}
			}
		}
	}
	if !startsAtZero {
		return false
	}
	// the loop runs while I < len(s): the header ends in that test and the accumulation is on its true side
	hdr := acc.Block()
	iff, ok := hdr.Instrs[len(hdr.Instrs)-1].(*ssa.If)
	if !ok {
		return false
	}
	cond, ok := iff.Cond.(*ssa.BinOp)
	if !ok || cond.Op != token.LSS || cond.X != idx {
		return false
	}
	ln, ok := cond.Y.(*ssa.Call)
	if !ok {
		return false
	}
	if b, ok := ln.Call.Value.(*ssa.Builtin); !ok || b.Name() != "len" || len(ln.Call.Args) != 1 || ln.Call.Args[0] != ia.X {
		return false
	}
	// the accumulation and the load happen in the loop body (dominated by the true edge), in every iteration
	body := hdr.Succs[0]
	return step.Block() == body && load.Block() == body && len(body.Succs) == 1 && body.Succs[0] == hdr
}

// zeroTestOfParam: fn returns subtle.ConstantTimeEq/ByteEq(F(p), 0) where F is an OR of pieces (conversions, constant
// right shifts) of one integer parameter p that together contain every bit of p; returns the index of p, or -1
func zeroTestOfParam(fn *ssa.Function) int {
	if fn == nil || len(fn.Blocks) != 1 || fn.Signature.Results().Len() != 1 {
		return -1
	}
	var ret *ssa.Return
	for _, in := range fn.Blocks[0].Instrs {
		if r, ok := in.(*ssa.Return); ok {
			ret = r
		}
	}
	if ret == nil || len(ret.Results) != 1 {
		return -1
	}
	call, ok := ret.Results[0].(*ssa.Call)
	if !ok {
		return -1
	}
	cal := call.Call.StaticCallee()
	if cal == nil || (cal.String() != "crypto/subtle.ConstantTimeEq" && cal.String() != "crypto/subtle.ConstantTimeByteEq") || len(call.Call.Args) != 2 {
		return -1
	}
	var folded ssa.Value
	for i := 0; i < 2; i++ {
		if c, ok := call.Call.Args[1-i].(*ssa.Const); ok && c.Value != nil && c.Value.ExactString() == "0" {
			folded = call.Call.Args[i]
		}
	}
	if folded == nil {
		return -1
	}
	for pi, prm := range fn.Params {
		w, _ := typeBits(prm.Type())
		if w == 0 {
			continue
		}
		// per result bit: which bits of the parameter it is the OR of
		var cover func(v ssa.Value, depth int) ([]uint64, bool)
		cover = func(v ssa.Value, depth int) ([]uint64, bool) {
			if depth > 12 {
				return nil, false
			}
			if v == ssa.Value(prm) {
				m := make([]uint64, w)
				for i := range m {
					m[i] = 1 << uint(i)
				}
				return m, true
			}
			switch x := v.(type) {
			case *ssa.Convert:
				in, ok := cover(x.X, depth+1)
				nw, _ := typeBits(x.Type())
				if !ok || nw == 0 {
					return nil, false
				}
				out := make([]uint64, nw)
				copy(out, in) // truncation drops the high positions; widening of an unsigned value adds zeros
				if _, signed := typeBits(x.X.Type()); signed && nw > len(in) && len(in) > 0 {
					for i := len(in); i < nw; i++ {
						out[i] = in[len(in)-1] // sign extension repeats the top bit
					}
				}
				return out, true
			case *ssa.BinOp:
				switch x.Op {
				case token.OR:
					a, ok1 := cover(x.X, depth+1)
					b, ok2 := cover(x.Y, depth+1)
					if !ok1 || !ok2 {
						return nil, false
					}
					if len(b) > len(a) {
						a, b = b, a
					}
					out := append([]uint64(nil), a...)
					for i := range b {
						out[i] |= b[i]
					}
					return out, true
				case token.SHR:
					k, ok := x.Y.(*ssa.Const)
					in, ok2 := cover(x.X, depth+1)
					if !ok || !ok2 || k.Value == nil {
						return nil, false
					}
					if _, signed := typeBits(x.X.Type()); signed {
						return nil, false
					}
					sh, exact := constant.Uint64Val(constant.ToInt(k.Value))
					if !exact {
						return nil, false
					}
					out := make([]uint64, len(in))
					for i := range out {
						if uint64(i)+sh < uint64(len(in)) {
							out[i] = in[uint64(i)+sh]
						}
					}
					return out, true
				}
			}
			return nil, false
		}
		m, ok := cover(folded, 0)
		if !ok {
			continue
		}
		var all uint64
		for _, x := range m {
			all |= x
		}
		full := ^uint64(0)
		if w < 64 {
			full = uint64(1)<<uint(w) - 1
		}
		if all == full {
			return pi
		}
	}
	return -1
}

// isLimbOrWord: v is loaded from a local word that is written only by a primitive whose body stores the OR of the four limbs
// of its second argument into its first (fiat's Nonzero)
func isLimbOrWord(v ssa.Value) bool {
	ld, ok := v.(*ssa.UnOp)
	if !ok || ld.Op != token.MUL {
		return false
	}
	al, ok := ld.X.(*ssa.Alloc)
	if !ok || al.Referrers() == nil {
		return false
	}
	writers := 0
	for _, ref := range *al.Referrers() {
		switch x := ref.(type) {
		case *ssa.DebugRef:
		case *ssa.UnOp:
			if x.Op != token.MUL {
				return false
			}
		case *ssa.Call:
			cal := x.Call.StaticCallee()
			if cal == nil || len(x.Call.Args) != 2 || x.Call.Args[0] != ssa.Value(al) || !storesLimbOr(cal) {
				return false
			}
			writers++
		default:
			return false // a store or anything else that could put another value there
		}
	}
	return writers == 1
}

// storesLimbOr: fn(out *uint64, in *[4]uint64) { *out = in[0] | in[1] | in[2] | in[3] }
func storesLimbOr(fn *ssa.Function) bool {
	if fn == nil || len(fn.Blocks) != 1 || len(fn.Params) != 2 {
		return false
	}
	var st *ssa.Store
	for _, in := range fn.Blocks[0].Instrs {
		switch x := in.(type) {
		case *ssa.Store:
			if st != nil {
				return false
			}
			st = x
		case ssa.CallInstruction:
			return false
		}
	}
	if st == nil || st.Addr != ssa.Value(fn.Params[0]) {
		return false
	}
	seen := map[int64]bool{}
	var walk func(v ssa.Value, depth int) bool
	walk = func(v ssa.Value, depth int) bool {
		if depth > 8 {
			return false
		}
		switch x := v.(type) {
		case *ssa.BinOp:
			return x.Op == token.OR && walk(x.X, depth+1) && walk(x.Y, depth+1)
		case *ssa.ChangeType:
			return walk(x.X, depth+1)
		case *ssa.Convert:
			wi, _ := typeBits(x.X.Type())
			wo, _ := typeBits(x.Type())
			return wi == wo && walk(x.X, depth+1)
		case *ssa.UnOp:
			if x.Op != token.MUL {
				return false
			}
			ia, ok := x.X.(*ssa.IndexAddr)
			if !ok || ia.X != ssa.Value(fn.Params[1]) {
				return false
			}
			c, ok := ia.Index.(*ssa.Const)
			if !ok || c.Value == nil {
				return false
			}
			seen[c.Int64()] = true
			return true
		}
		return false
	}
	if !walk(st.Val, 0) {
		return false
	}
	at, ok := fn.Params[1].Type().Underlying().(*types.Pointer)
	if !ok {
		return false
	}
	arr, ok := at.Elem().Underlying().(*types.Array)
	if !ok || int64(len(seen)) != arr.Len() {
		return false
	}
	return true
}

// closureCalledDirectlyOnly: fn is an anonymous function whose closure values are used for nothing but direct calls
// (`f := func(...){...}; f(x)`) in the function that creates them.
func closureCalledDirectlyOnly(fn *ssa.Function) bool {
	par := fn.Parent()
	if par == nil || len(fn.FreeVars) == 0 {
		return false
	}
	found := false
	for _, b := range par.Blocks {
		for _, in := range b.Instrs {
			mc, ok := in.(*ssa.MakeClosure)
			if !ok || mc.Fn != ssa.Value(fn) {
				continue
			}
			found = true
			if mc.Referrers() == nil {
				return false
			}
			for _, u := range *mc.Referrers() {
				switch x := u.(type) {
				case *ssa.DebugRef:
				case *ssa.Call:
					if x.Call.Value != ssa.Value(mc) {
						return false
					}
					for _, a := range x.Call.Args {
						if a == ssa.Value(mc) {
							return false
						}
					}
				default:
					return false
				}
			}
		}
	}
	return found
}
