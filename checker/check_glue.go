package main

// Rules on the outcomes of the glue-domain interpretation (checker/glue.go) of the SM4 / SM4-GCM Go code around the
// assembler routines. Shared by C05 (key-size and block guards), C07 (Open guards, verdict, release after match),
// C10 (append contract), C11 (bounds and call-site contracts).

import (
	"fmt"
	"go/token"
	"sort"
	"strings"

	"golang.org/x/tools/go/ssa"
)

type glueRun struct {
	r    *Report
	p    *Prog
	arch string
	fn   *ssa.Function
	name string
	e    *sched
	d    *protoDom
	outs []protoOutcome
}

const gcmMaxBytes = 68719476704 // ((1<<32)-2)*16

func newGlueRun(r *Report, p *Prog, arch, name string, pre []pFact) *glueRun {
	fn := p.MustFunc(r, name)
	if fn == nil {
		return nil
	}
	e, outs := protoRunFull(p, fn, false, asmContracts(arch), pre)
	g := &glueRun{r: r, p: p, arch: arch, fn: fn, name: name, e: e, d: e.proto, outs: outs}
	if glueFollowedFns[arch] == nil {
		glueFollowedFns[arch] = map[string]bool{}
	}
	glueFollowedFns[arch][name] = true
	for f := range e.followed {
		glueFollowedFns[arch][p.FuncName(f)] = true
	}
	r.Count("glue_paths_"+arch, len(outs))
	if len(e.errs) > 0 {
		r.Viol("FOLLOWED", g.key(), p.Pos(fn.Pos()), "the function cannot be followed in the glue domain: "+strings.Join(e.errs, "; "))
		return nil
	}
	return g
}

// glueFollowedFns: per architecture, the functions interpreted by some glue run (entry points and followed callees)
var glueFollowedFns = map[string]map[string]bool{}

func (g *glueRun) key() string { return "[" + g.arch + "] " + g.name }

func tagSizePreFacts(lower bool) []pFact {
	ts := pParam("g.tagSize")
	f := []pFact{{a: ts, op: token.LEQ, b: pC(16)}}
	if lower {
		f = append(f, pFact{a: ts, op: token.GEQ, b: pC(12)})
	}
	return f
}

// obligations: the bounds the runtime checks and the contracts of the assembler routines follow from the path
func (g *glueRun) obligations(rules ...string) {
	pos := g.p.Pos(g.fn.Pos())
	for _, rule := range rules {
		bad := g.d.gBad[rule]
		sort.Strings(bad)
		what := map[string]string{
			"CALLSITE":     "every call of an assembler routine (and of a summarised block helper) passes arguments that guarantee its contract",
			"SLICE-BOUNDS": "every slice expression stays within the capacity of its operand",
			"INDEX-BOUNDS": "every index expression stays within the length of its operand",
		}[rule]
		g.r.Count("glue_obligations", g.d.gOK[rule]+len(bad))
		g.r.Check(len(bad) == 0, rule, g.key(), pos, fmt.Sprintf("%s under the guards of its path (%d obligations on %d paths)", what, g.d.gOK[rule]+len(bad), len(g.outs))+ifs(len(bad) > 0, ": "+strings.Join(firstN(bad, 3), "; ")))
	}
}

func (g *glueRun) prove(o protoOutcome, a *pt, op token.Token, b *pt) bool {
	return proveP(o.st.pfacts, a, op, b)
}

func samePoly(a, b *pt) bool { return len(polyOfPlain(a).add(polyOfPlain(b), -1)) == 0 }

func (g *glueRun) paramObj(o protoOutcome, name string) int {
	for id, h := range o.st.heap {
		if gh, ok := h.(*hGObj); ok && gh.name == name && !gh.fresh {
			return id
		}
	}
	return 0
}

// appendContract: every outcome that returns a result slice returns dst followed by `added` bytes
func (g *glueRun) appendContract(resIdx int, added *pt, okOutcome func(o protoOutcome) bool) {
	pos := g.p.Pos(g.fn.Pos())
	dstLen := pOp("len", pParam("dst"))
	var bad []string
	n := 0
	for _, o := range g.outs {
		if o.restart || len(o.vals) <= resIdx || !okOutcome(o) {
			continue
		}
		res, ok := o.vals[resIdx].(gSlice)
		if !ok {
			bad = append(bad, fmt.Sprintf("a successful outcome returns %s, not a slice", g.d.show(o.st, o.vals[resIdx])))
			continue
		}
		n++
		if !samePoly(res.ln, pAdd(dstLen, added)) {
			bad = append(bad, fmt.Sprintf("result length %s; required len(dst) + %s", res.ln, added))
		}
		dstObj := g.paramObj(o, "dst")
		switch {
		case res.obj == dstObj:
			if !samePoly(res.off, pC(0)) {
				bad = append(bad, fmt.Sprintf("the result starts at offset %s of dst's array", res.off))
			}
		default:
			h := g.d.gobj(o.st, res.obj)
			copied := g.prove(o, dstLen, token.EQL, pC(0))
			for _, ef := range o.st.geff {
				if ef.kind == "copy" && ef.obj == res.obj && samePoly(ef.off, res.off) && ef.srcObj == dstObj && samePoly(ef.srcOff, pC(0)) && samePoly(ef.n, dstLen) {
					copied = true
				}
			}
			if h == nil || !h.fresh || !samePoly(res.off, pC(0)) {
				bad = append(bad, "the result is neither dst's array nor a fresh array")
			} else if !copied {
				bad = append(bad, "the result is a fresh array into which the len(dst) prefix bytes of dst are not copied")
			}
		}
	}
	if n == 0 {
		bad = append(bad, "no successful outcome found")
	}
	sort.Strings(bad)
	g.r.Count("append_outcomes_"+g.arch, n)
	g.r.Check(len(bad) == 0, "APPEND-CONTRACT", g.key(), pos, fmt.Sprintf("on each of the %d successful outcomes the result is dst (its own array when the spare capacity suffices, otherwise a fresh array holding a copy of dst) followed by exactly %s bytes", n, added)+ifs(len(bad) > 0, ": "+strings.Join(firstN(bad, 3), "; ")))
}

func acceptsOpen(o protoOutcome) bool { return len(o.vals) == 2 && isNilVal(o.vals[1]) }

// openRules: guards, verdict wiring, reject results, release after match
func (g *glueRun) openRules() {
	pos := g.p.Pos(g.fn.Pos())
	ct, nonce := pParam("ciphertext"), pParam("nonce")
	ts := pParam("g.tagSize")
	var badG, badV, badR, badW []string
	nAcc, nRej := 0, 0
	for _, o := range g.outs {
		if len(o.vals) != 2 {
			continue
		}
		dstObj := g.paramObj(o, "dst")
		if !acceptsOpen(o) {
			nRej++
			if !isNilVal(o.vals[0]) || !isErrVal(o.vals[1]) {
				badR = append(badR, fmt.Sprintf("a rejecting outcome returns (%s, %s)", g.d.show(o.st, o.vals[0]), g.d.show(o.st, o.vals[1])))
			}
			for _, ef := range o.st.geff {
				if ef.obj == dstObj && dstObj != 0 && (ef.kind == "write" || ef.kind == "copy") {
					badW = append(badW, fmt.Sprintf("a rejecting outcome writes into dst's array (%s at %s)", ef.what, ef.pos))
				}
			}
			continue
		}
		nAcc++
		for _, q := range []struct {
			a  *pt
			op token.Token
			b  *pt
			s  string
		}{
			{pOp("len", nonce), token.EQL, pParam("g.nonceSize"), "len(nonce) == nonceSize"},
			{ts, token.GEQ, pC(12), "tagSize >= 12"},
			{pOp("len", ct), token.GEQ, ts, "len(ciphertext) >= tagSize"},
			{pAdd(pOp("len", ct), pNeg(ts)), token.LEQ, pC(gcmMaxBytes), "len(ciphertext) - tagSize <= (2^32-2)*16"},
		} {
			if !g.prove(o, q.a, q.op, q.b) {
				badG = append(badG, "an accepting outcome does not establish "+q.s)
			}
		}
		// the verdict: some comparison result == 1 on the path, produced by openAsm (fused) or ConstantTimeCompare over the tags
		okV := false
		for i, ef := range o.st.geff {
			if ef.kind != "call" || (ef.what != "openAsm" && ef.what != "ConstantTimeCompare") {
				continue
			}
			res := &pt{op: "asmret", s: fmt.Sprintf("%s#%d", ef.what, i+1)}
			if !g.prove(o, res, token.EQL, pC(1)) {
				continue // this comparison's result does not decide the outcome
			}
			switch ef.what {
			case "openAsm":
				okV = g.openAsmArgs(o, ef.args, &badV) || okV
			case "ConstantTimeCompare":
				okV = g.tagCompareArgs(o, ef.args, &badV) || okV
				// nothing may be written into the result before the comparison
				for _, w := range o.st.geff[:i] {
					if (w.kind == "write" || w.kind == "copy") && (w.obj == dstObj && dstObj != 0) {
						badW = append(badW, fmt.Sprintf("dst's array is written (%s at %s) before the tags are compared", w.what, w.pos))
					}
				}
			}
		}
		if !okV && len(badV) == 0 {
			badV = append(badV, "an accepting outcome is not conditioned on a tag comparison that returned 1")
		}
	}
	if nAcc == 0 {
		badG = append(badG, "no accepting outcome found")
	}
	for _, b := range []*[]string{&badG, &badV, &badR, &badW} {
		sort.Strings(*b)
	}
	g.r.Count("open_accepting_outcomes_"+g.arch, nAcc)
	g.r.Count("open_rejecting_outcomes_"+g.arch, nRej)
	g.r.Check(len(badG) == 0, "OPEN-GUARDS", g.key(), pos, fmt.Sprintf("each of the %d accepting outcomes establishes the nonce length, tagSize >= 12, len(ciphertext) >= tagSize and the GCM length limit", nAcc)+ifs(len(badG) > 0, ": "+strings.Join(firstN(uniq(badG), 4), "; ")))
	g.r.Check(len(badV) == 0, "OPEN-VERDICT", g.key(), pos, "every accepting outcome is conditioned on the tag comparison (fused openAsm over the whole inputs, or a constant-time comparison of tagSize bytes of the expected tag with the last tagSize bytes of the ciphertext) having returned 1"+ifs(len(badV) > 0, ": "+strings.Join(firstN(uniq(badV), 3), "; ")))
	g.r.Check(len(badR) == 0 && nRej > 0, "OPEN-REJECT-RESULT", g.key(), pos, fmt.Sprintf("each of the %d rejecting outcomes returns (nil, error)", nRej)+ifs(len(badR) > 0, ": "+strings.Join(firstN(uniq(badR), 3), "; ")))
	g.r.Check(len(badW) == 0, "RELEASE-AFTER-MATCH", g.key(), pos, "the Go code writes nothing into dst's array on a rejecting outcome, and nothing before the tag comparison on an accepting one (the fused routine's own stores are ordered by the assembler rule)"+ifs(len(badW) > 0, ": "+strings.Join(firstN(uniq(badW), 3), "; ")))
}

func uniq(s []string) []string {
	var out []string
	for i, x := range s {
		if i == 0 || x != s[i-1] {
			out = append(out, x)
		}
	}
	return out
}

// openAsmArgs: (roundKeys, tagSize, dst, nonce, ciphertext, additionalData, temp)
func (g *glueRun) openAsmArgs(o protoOutcome, args []sVal, bad *[]string) bool {
	ok := true
	whole := func(v sVal, name string) {
		s, isS := v.(gSlice)
		if !isS || s.obj != g.paramObj(o, name) || !samePoly(s.off, pC(0)) || !samePoly(s.ln, pOp("len", pParam(name))) {
			*bad = append(*bad, "openAsm does not receive the whole "+name)
			ok = false
		}
	}
	if len(args) != 7 {
		*bad = append(*bad, "openAsm is called with an unexpected number of arguments")
		return false
	}
	if t, isT := termOf(args[1]); !isT || t.String() != "g.tagSize" {
		*bad = append(*bad, "openAsm does not receive g.tagSize")
		ok = false
	}
	whole(args[3], "nonce")
	whole(args[4], "ciphertext")
	whole(args[5], "additionalData")
	return ok
}

// tagCompareArgs: expected[:tagSize] against ciphertext[len-tagSize:]
func (g *glueRun) tagCompareArgs(o protoOutcome, args []sVal, bad *[]string) bool {
	if len(args) != 2 {
		return false
	}
	ts := pParam("g.tagSize")
	ctObj := g.paramObj(o, "ciphertext")
	var recv, exp *gSlice
	for i := range args {
		if s, ok := args[i].(gSlice); ok {
			if s.obj == ctObj {
				recv = &s
			} else {
				exp = &s
			}
		}
	}
	ok := true
	if recv == nil || !samePoly(recv.ln, ts) || !samePoly(recv.off, pAdd(pOp("len", pParam("ciphertext")), pNeg(ts))) {
		*bad = append(*bad, "the received tag is not the last tagSize bytes of the ciphertext")
		ok = false
	}
	if exp == nil || !samePoly(exp.ln, ts) {
		*bad = append(*bad, "the expected tag is not compared over exactly tagSize bytes")
		ok = false
	} else if h := g.d.gobj(o.st, exp.obj); h == nil || !h.fresh {
		*bad = append(*bad, "the expected tag is not a local buffer")
		ok = false
	}
	return ok
}

// blockGuards: Encrypt/Decrypt of a cipher.Block panic unless both arguments hold one block
func (g *glueRun) blockGuards(width int64) {
	pos := g.p.Pos(g.fn.Pos())
	var bad []string
	n := 0
	for _, o := range g.outs {
		n++
		for _, nm := range []string{"dst", "src"} {
			if !g.prove(o, pOp("len", pParam(nm)), token.GEQ, pC(width)) {
				bad = append(bad, fmt.Sprintf("a returning outcome does not establish len(%s) >= %d", nm, width))
			}
		}
	}
	sort.Strings(bad)
	g.r.Check(len(bad) == 0 && n > 0, "BLOCK-GUARDS", g.key(), pos, fmt.Sprintf("each of the %d returning outcomes has len(dst) >= %d and len(src) >= %d (shorter arguments panic)", n, width, width)+ifs(len(bad) > 0, ": "+strings.Join(firstN(uniq(bad), 3), "; ")))
}

// keySizeGuard: NewCipher returns a cipher only for 16-byte keys
func (g *glueRun) keySizeGuard() {
	pos := g.p.Pos(g.fn.Pos())
	var bad []string
	nOK, nErr := 0, 0
	for _, o := range g.outs {
		if len(o.vals) != 2 {
			continue
		}
		if isErrVal(o.vals[1]) {
			nErr++
			if !isNilVal(o.vals[0]) {
				bad = append(bad, "an error is returned together with a cipher")
			}
			continue
		}
		nOK++
		if !g.prove(o, pOp("len", pParam("key")), token.EQL, pC(16)) {
			bad = append(bad, "a cipher is returned on a path that does not establish len(key) == 16")
		}
	}
	sort.Strings(bad)
	g.r.Check(len(bad) == 0 && nOK > 0 && nErr > 0, "KEY-SIZE-GUARD", g.key(), pos, fmt.Sprintf("%d outcomes return a cipher, all with len(key) == 16; %d return (nil, error)", nOK, nErr)+ifs(len(bad) > 0, ": "+strings.Join(firstN(uniq(bad), 3), "; ")))
}

func glueArchs() []string { return []string{"amd64", "arm64"} }

// glueGCM runs the rule families selected in fam ("C07", "C10", "C11") on Seal and Open of one architecture
func glueGCM(r *Report, p *Prog, arch string, fam map[string]bool) {
	pt0 := pParam("plaintext")
	ct := pParam("ciphertext")
	ts := pParam("g.tagSize")
	if g := newGlueRun(r, p, arch, "sm4.(*sm4GcmAsm).Seal", tagSizePreFacts(true)); g != nil {
		if fam["C11"] {
			g.obligations("CALLSITE", "SLICE-BOUNDS", "INDEX-BOUNDS")
		}
		if fam["C10"] {
			g.appendContract(0, pAdd(pOp("len", pt0), ts), func(o protoOutcome) bool { return len(o.vals) == 1 })
		}
	}
	if g := newGlueRun(r, p, arch, "sm4.(*sm4GcmAsm).Open", tagSizePreFacts(false)); g != nil {
		if fam["C11"] {
			g.obligations("CALLSITE", "SLICE-BOUNDS", "INDEX-BOUNDS")
		}
		if fam["C10"] {
			g.appendContract(0, pAdd(pOp("len", ct), pNeg(ts)), acceptsOpen)
		}
		if fam["C07"] {
			g.openRules()
		}
	}
}

// glueBlocks: the cipher.Block methods and the constructor
func glueBlocks(r *Report, p *Prog, arch string, fam map[string]bool) {
	for _, name := range []string{"sm4.(*sm4CipherAsm).Encrypt", "sm4.(*sm4CipherAsm).Decrypt", "sm4.(*sm4Cipher).Encrypt", "sm4.(*sm4Cipher).Decrypt", "sm4.encryptX2", "sm4.decryptX2"} {
		if p.Func(name) == nil {
			continue // sm4CipherAsm does not exist in the portable build
		}
		if g := newGlueRun(r, p, arch, name, nil); g != nil {
			if fam["C11"] {
				g.obligations("CALLSITE", "SLICE-BOUNDS", "INDEX-BOUNDS")
			}
			if fam["C05"] || fam["C05block"] {
				g.blockGuards(map[bool]int64{true: 32, false: 16}[strings.HasSuffix(name, "X2")])
				g.wiring(map[bool]string{true: "enc", false: "dec"}[strings.Contains(strings.ToLower(name), "encrypt")])
			}
		}
	}
	if fam["C05"] {
		for _, name := range []string{"sm4.NewCipher"} {
			if g := newGlueRun(r, p, arch, name, nil); g != nil {
				g.keySizeGuard()
				g.obligations("CALLSITE", "SLICE-BOUNDS", "INDEX-BOUNDS")
			}
		}
	}
}

func debugGlueRules(args []string) {
	repo := "/repo"
	if v := osGetenv("SMGO_REPO"); v != "" {
		repo = v
	}
	r := NewReport("Cxx", "quick", "other")
	all := map[string]bool{"C05": true, "C07": true, "C10": true, "C11": true}
	for _, arch := range glueArchs() {
		p, err := LoadRepo(repo, arch)
		if err != nil {
			fmt.Println(err)
			return
		}
		glueGCM(r, p, arch, all)
		glueBlocks(r, p, arch, all)
	}
	for _, o := range r.Obls {
		if len(args) > 0 && o.Status == "discharged" {
			continue
		}
		fmt.Printf("%-10s %s | %s : %s\n", o.Status, o.Rule, o.Key, trunc(o.Detail, 400))
	}
}

// glueGCMOpen: the C07 rules on Open
func glueGCMOpen(r *Report, p *Prog, arch string) {
	if g := newGlueRun(r, p, arch, "sm4.(*sm4GcmAsm).Open", tagSizePreFacts(false)); g != nil {
		g.openRules()
		g.obligations("SLICE-BOUNDS", "INDEX-BOUNDS")
	}
}

// wiring: the block kernel is called exactly once per outcome, with the round keys of the named field of the receiver and
// with the start of dst as output and the start of src as input
func (g *glueRun) wiring(field string) {
	pos := g.p.Pos(g.fn.Pos())
	var bad []string
	n := 0
	for _, o := range g.outs {
		calls := 0
		for _, ef := range o.st.geff {
			if ef.kind != "call" || !strings.HasPrefix(ef.what, "cryptoBlock") {
				continue
			}
			calls++
			n++
			// argument roles by the callee's shape: (rk, dst, src) for the assembler kernels, (x, y, rk) for the portable one
			var rk, out, in sVal
			if len(ef.args) == 3 {
				if strings.HasPrefix(ef.what, "cryptoBlockAsm") {
					rk, out, in = ef.args[0], ef.args[1], ef.args[2]
				} else {
					in, out, rk = ef.args[0], ef.args[1], ef.args[2]
				}
			}
			nameOf := func(v sVal) (string, *pt) {
				if f, ok := v.(gField); ok {
					return f.recv + "." + f.field, pC(0)
				}
				if _, obj, off, ok := g.d.bytesBehind(o.st, v); ok {
					if h := g.d.gobj(o.st, obj); h != nil {
						return h.name, off
					}
				}
				return "?", pC(0)
			}
			rn, roff := nameOf(rk)
			if !(strings.HasSuffix(rn, "."+field) && samePoly(roff, pC(0))) {
				bad = append(bad, fmt.Sprintf("%s receives round keys from %s; the %s schedule is required", ef.what, rn, field))
			}
			if on, ooff := nameOf(out); on != "dst" || !samePoly(ooff, pC(0)) {
				bad = append(bad, fmt.Sprintf("%s writes to %s+%s; the start of dst is required", ef.what, on, ooff))
			}
			if in0, ioff := nameOf(in); in0 != "src" || !samePoly(ioff, pC(0)) {
				bad = append(bad, fmt.Sprintf("%s reads from %s+%s; the start of src is required", ef.what, in0, ioff))
			}
		}
		if calls != 1 {
			bad = append(bad, fmt.Sprintf("a returning outcome calls the block kernel %d times", calls))
		}
	}
	sort.Strings(bad)
	g.r.Count("wiring_sites", n)
	g.r.Check(len(bad) == 0 && n > 0, "CIPHER-WIRING", g.key(), pos, fmt.Sprintf("each returning outcome calls one block kernel with the %q round keys, output at the start of dst and input at the start of src", field)+ifs(len(bad) > 0, ": "+strings.Join(firstN(uniq(bad), 3), "; ")))
}
