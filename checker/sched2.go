package main

import (
	"fmt"
	"go/token"
	"go/types"
	"math"
	"math/big"
	"os"
	"sort"
	"strings"

	"golang.org/x/tools/go/ssa"
)

// ---------- instruction semantics ----------

func (e *sched) zeroOf(t types.Type) sVal {
	switch u := t.Underlying().(type) {
	case *types.Basic:
		switch {
		case u.Info()&types.IsBoolean != 0:
			return sBool{false}
		case u.Info()&types.IsInteger != 0:
			return sInt{big.NewInt(0)}
		case u.Info()&types.IsFloat != 0:
			return sFloat{0}
		}
		return sOpaque{"zero " + t.String()}
	case *types.Pointer, *types.Slice, *types.Interface, *types.Map, *types.Signature:
		return sNil{}
	case *types.Struct:
		sv := sStruct{make([]sVal, u.NumFields())}
		for i := range sv.f {
			sv.f[i] = e.zeroOf(u.Field(i).Type())
		}
		return sv
	}
	return sOpaque{"zero " + t.String()}
}

func (e *sched) step(st *sState, in ssa.Instruction) {
	e.steps++
	if e.proto != nil && e.proto.step(st, in) {
		return
	}
	switch x := in.(type) {
	case *ssa.Alloc:
		id := e.newID()
		elemT := x.Type().Underlying().(*types.Pointer).Elem()
		if at, ok := elemT.Underlying().(*types.Array); ok {
			arr := &hArray{elems: make([]sVal, at.Len())}
			inner, nested := at.Elem().Underlying().(*types.Array)
			for i := range arr.elems {
				if nested && e.proto == nil && inner.Len() <= 64 && at.Len() <= 64 {
					// an array of arrays: every row is an array object of its own, the cell holds the row
					rid := e.newID()
					row := &hArray{elems: make([]sVal, inner.Len())}
					for j := range row.elems {
						row.elems[j] = e.zeroOf(inner.Elem())
					}
					st.heap[rid] = row
					arr.elems[i] = sPtr{rid, -1}
					continue
				}
				arr.elems[i] = e.zeroOf(at.Elem())
			}
			st.heap[id] = arr
			st.vals[x] = sPtr{id, -1}
		} else if stt, ok := elemT.Underlying().(*types.Struct); ok {
			obj := &hArray{elems: make([]sVal, stt.NumFields())}
			for i := range obj.elems {
				obj.elems[i] = e.zeroOf(stt.Field(i).Type())
				if e.proto != nil {
					// a field that holds a field element / scalar / big integer by value: an object of its own, initially zero
					if k := allocKind(stt.Field(i).Type()); (k == "elem" || k == "scalar" || k == "big") && !isPointerType(stt.Field(i).Type()) {
						obj.elems[i] = e.proto.newObj(st, k, pC(0))
					}
				}
			}
			st.heap[id] = obj
			st.vals[x] = sPtr{id, -1}
		} else {
			st.heap[id] = &hArray{elems: []sVal{e.zeroOf(elemT)}}
			st.vals[x] = sPtr{id, 0}
		}
	case *ssa.Store:
		addr := e.get(st, x.Addr)
		v := e.get(st, x.Val)
		if e.proto != nil {
			// one byte of a symbolic string stored into a local buffer stays that byte
			if pi, ok := v.(pInt); ok && pi.t.op == "byte" {
				v = byteCell{src: pi.t.args[0], idx: pi.t.k}
			}
		}
		if p, ok := addr.(sPtr); ok {
			if arr, ok := st.heap[p.id].(*hArray); ok && p.idx >= 0 && p.idx < len(arr.elems) {
				arr.elems[p.idx] = v
				if e.lenient {
					if e.cellStoreStep == nil {
						e.cellStoreStep = map[int]int{}
					}
					e.cellStoreStep[p.id] = e.steps
				}
				if e.ghostArr != 0 && p.id == e.ghostArr {
					e.ghostStore(st, p.idx, v, e.p.InstrPos(x))
				}
				return
			}
		}
		if p, ok := addr.(sPtr); ok && p.idx == -1 {
			if sv, ok := v.(sStruct); ok {
				if obj, ok := st.heap[p.id].(*hArray); ok && len(obj.elems) == len(sv.f) {
					copy(obj.elems, sv.f)
					return
				}
			}
		}
		// whole-array assignment of the zero value: buf = [N]T{}
		if p, ok := addr.(sPtr); ok && p.idx == -1 {
			if c, isC := x.Val.(*ssa.Const); isC && c.Value == nil {
				if at, isArr := c.Type().Underlying().(*types.Array); isArr {
					if dst, ok := st.heap[p.id].(*hArray); ok && int64(len(dst.elems)) == at.Len() {
						for i := range dst.elems {
							dst.elems[i] = e.zeroOf(at.Elem())
						}
						return
					}
				}
			}
		}
		// whole-array assignment: *dst = *src
		if p, ok := addr.(sPtr); ok && p.idx == -1 {
			if q, ok := v.(sPtr); ok && q.idx == -1 {
				dst, ok1 := st.heap[p.id].(*hArray)
				src, ok2 := st.heap[q.id].(*hArray)
				if ok1 && ok2 && len(dst.elems) == len(src.elems) {
					copy(dst.elems, src.elems)
					if e.lenient {
						if e.cellStoreStep == nil {
							e.cellStoreStep = map[int]int{}
						}
						e.cellStoreStep[p.id] = e.steps
					}
					return
				}
			}
		}
		e.fail("store through %T at %s", addr, e.p.InstrPos(x))
	case *ssa.UnOp:
		a := e.get(st, x.X)
		switch x.Op {
		case token.MUL:
			switch p := a.(type) {
			case sPtr:
				if arr, ok := st.heap[p.id].(*hArray); ok {
					if p.idx >= 0 && p.idx < len(arr.elems) {
						st.vals[x] = arr.elems[p.idx]
						return
					}
					if p.idx == -1 {
						if stt, isStruct := x.Type().Underlying().(*types.Struct); isStruct {
							f := append([]sVal(nil), arr.elems...)
							if e.proto != nil {
								// value fields that are protocol objects are copied, not shared
								for i := range f {
									if po, isObj := f[i].(pObj); isObj && i < stt.NumFields() && allocKind(stt.Field(i).Type()) != "" && !isPointerType(stt.Field(i).Type()) {
										if h := e.proto.obj(st, po); h != nil {
											f[i] = e.proto.newObj(st, h.kind, h.t)
										}
									}
								}
							}
							st.vals[x] = sStruct{f}
							return
						}
						st.vals[x] = p // array value: keep as reference
						return
					}
				}
			case sTab:
				if p.ptr && strings.HasPrefix(p.name, "\x00bytes:") {
					st.vals[x] = e.loadByte(p)
					return
				}
				if p.ptr {
					q := p
					q.ptr = false
					st.vals[x] = q
					return
				}
			case sSymElem:
				st.vals[x] = p
				return
			case sNil:
				e.fail("nil dereference at %s", e.p.InstrPos(x))
				st.vals[x] = sOpaque{"nil deref"}
				return
			case sOpaque:
				st.vals[x] = sOpaque{"load of " + p.why}
				return
			}
			st.vals[x] = sOpaque{fmt.Sprintf("load through %T", a)}
		case token.NOT:
			switch b := a.(type) {
			case sBool:
				st.vals[x] = sBool{!b.b}
			case sCondInf:
				b.neg = !b.neg
				st.vals[x] = b
			case sCond:
				neg := map[token.Token]token.Token{token.EQL: token.NEQ, token.NEQ: token.EQL, token.LSS: token.GEQ, token.GEQ: token.LSS, token.GTR: token.LEQ, token.LEQ: token.GTR}
				b.op = neg[b.op]
				st.vals[x] = b
			default:
				st.vals[x] = sOpaque{"not"}
			}
		case token.SUB:
			switch b := a.(type) {
			case sInt:
				st.vals[x] = sInt{wrapInt(new(big.Int).Neg(b.v), x.Type())}
			case sFloat:
				st.vals[x] = sFloat{-b.f}
			case *sSym:
				st.vals[x] = symLin(linAddScaled(map[string]*big.Rat{}, b.lin, big.NewRat(-1, 1)))
			default:
				st.vals[x] = sOpaque{"neg"}
			}
		case token.XOR:
			if b, ok := a.(sInt); ok {
				st.vals[x] = sInt{wrapInt(new(big.Int).Not(b.v), x.Type())}
			} else {
				st.vals[x] = sOpaque{"complement of a symbolic value"}
			}
		default:
			st.vals[x] = sOpaque{"unop"}
		}
	case *ssa.BinOp:
		st.vals[x] = e.binop(st, x)
	case *ssa.Convert:
		a := e.get(st, x.X)
		dst := x.Type().Underlying()
		db, _ := dst.(*types.Basic)
		switch v := a.(type) {
		case sInt:
			if db != nil && db.Info()&types.IsFloat != 0 {
				f, _ := new(big.Float).SetInt(v.v).Float64()
				st.vals[x] = sFloat{f}
			} else {
				st.vals[x] = sInt{wrapInt(v.v, x.Type())}
			}
		case sFloat:
			if db != nil && db.Info()&types.IsInteger != 0 {
				st.vals[x] = sInt{big.NewInt(int64(v.f))}
			} else {
				st.vals[x] = v
			}
		case *sSym:
			w, _ := typeBits(x.Type())
			if v.bits != nil && w > 0 {
				nb := make([]string, w)
				copy(nb, v.bits)
				n := symFromBits(nb)
				st.vals[x] = n
			} else {
				st.vals[x] = v // value-preserving on the ranges that occur (digits, indices)
			}
		default:
			st.vals[x] = a
		}
	case *ssa.ChangeType:
		st.vals[x] = e.get(st, x.X)
	case *ssa.MakeInterface:
		st.vals[x] = sOpaque{"interface"}
	case *ssa.ChangeInterface:
		st.vals[x] = sOpaque{"interface"}
	case *ssa.Slice:
		a := e.get(st, x.X)
		lo, hi := -1, -1
		if x.Low != nil {
			if c, ok := constOf(e.get(st, x.Low)); ok {
				lo = int(c.Int64())
			} else {
				e.fail("symbolic slice bound at %s", e.p.InstrPos(x))
			}
		}
		if x.High != nil {
			if c, ok := constOf(e.get(st, x.High)); ok {
				hi = int(c.Int64())
			} else {
				e.fail("symbolic slice bound at %s", e.p.InstrPos(x))
			}
		}
		switch v := a.(type) {
		case sPtr:
			if arr, ok := st.heap[v.id].(*hArray); ok && v.idx == -1 {
				if lo < 0 {
					lo = 0
				}
				if hi < 0 {
					hi = len(arr.elems)
				}
				st.vals[x] = sSlice{v.id, lo, hi}
				return
			}
		case sSlice:
			if lo < 0 {
				lo = 0
			}
			if hi < 0 {
				hi = v.hi - v.lo
			}
			st.vals[x] = sSlice{v.id, v.lo + lo, v.lo + hi}
			return
		case sBytes:
			if lo <= 0 && hi < 0 {
				st.vals[x] = v
				return
			}
			// scalar[k:] of a scalar of known length: the same bytes seen from byte k on
			if hi < 0 && v.n >= 0 && lo > 0 && v.off+lo <= v.n {
				st.vals[x] = sBytes{name: v.name, n: v.n, off: v.off + lo}
				return
			}
		case sTab:
			// table[:k]: the first k sub-tables / rows (the same table seen through a shorter window)
			if n, ok := e.tabLen(v); ok && !v.ptr && lo <= 0 && (hi < 0 || hi <= n) {
				if hi >= 0 && hi < n {
					v.lim = hi
				}
				st.vals[x] = v
				return
			}
		}
		st.vals[x] = sOpaque{fmt.Sprintf("slice of %T", a)}
	case *ssa.IndexAddr:
		a := e.get(st, x.X)
		iv := e.get(st, x.Index)
		ic, iconst := constOf(iv)
		switch v := a.(type) {
		case sPtr: // pointer to array
			if iconst {
				// a row of an array of arrays is the row object
				if arr, ok := st.heap[v.id].(*hArray); ok && v.idx == -1 && ic.IsInt64() && ic.Int64() >= 0 && int(ic.Int64()) < len(arr.elems) {
					if rp, isRow := arr.elems[ic.Int64()].(sPtr); isRow && rp.idx == -1 {
						if pt, ok := x.Type().Underlying().(*types.Pointer); ok {
							if _, isArr := pt.Elem().Underlying().(*types.Array); isArr {
								st.vals[x] = rp
								return
							}
						}
					}
				}
				st.vals[x] = sPtr{v.id, int(ic.Int64())}
			} else if s, ok := iv.(*sSym); ok {
				st.vals[x] = sSymElem{v.id, s}
			} else {
				st.vals[x] = sOpaque{"index"}
			}
		case sSlice:
			if iconst {
				st.vals[x] = sPtr{v.id, v.lo + int(ic.Int64())}
			} else if s, ok := iv.(*sSym); ok && v.lo == 0 {
				st.vals[x] = sSymElem{v.id, s}
			} else {
				st.vals[x] = sOpaque{"index"}
			}
		case sBytes:
			if !iconst {
				e.fail("scalar byte read at a symbolic index at %s", e.p.InstrPos(x))
				st.vals[x] = sOpaque{"index"}
				return
			}
			st.vals[x] = sTab{name: "\x00bytes:" + v.name, path: []int{int(ic.Int64()) + v.off, v.n}, ptr: true}
		case sTab:
			if v.ptr {
				e.fail("index of a table pointer at %s", e.p.InstrPos(x))
				return
			}
			q := sTab{name: v.name, path: append(append([]int(nil), v.path...), 0), ptr: true}
			if iconst {
				q.path[len(q.path)-1] = int(ic.Int64())
				if n, ok := e.tabLen(v); !ok || q.path[len(q.path)-1] >= n || ic.Sign() < 0 {
					e.fail("table index %s out of range at %s", ic, e.p.InstrPos(x))
				}
			} else if s, ok := iv.(*sSym); ok && s.pred != nil {
				q.path[len(q.path)-1] = -1
				q.sym = s.pred
			} else {
				e.fail("table indexed by a symbolic value that is not of the form v-1 at %s", e.p.InstrPos(x))
			}
			st.vals[x] = q
		case sPTable:
			st.vals[x] = sOpaque{"ptable index"}
		default:
			st.vals[x] = sOpaque{fmt.Sprintf("index of %T", a)}
		}
	case *ssa.Index:
		// element of an array value (kept as a reference to the array object)
		if ap, ok := e.get(st, x.X).(sPtr); ok && ap.idx == -1 {
			if arr, ok := st.heap[ap.id].(*hArray); ok {
				if c, ok := constOf(e.get(st, x.Index)); ok && c.IsInt64() && c.Int64() >= 0 && int(c.Int64()) < len(arr.elems) {
					st.vals[x] = arr.elems[c.Int64()]
					return
				}
			}
		}
		st.vals[x] = sOpaque{"index value"}
	case *ssa.FieldAddr:
		// struct objects are heap arrays with one cell per field; an array-typed field cell holds the pointer to the
		// embedded array object, which is what its address denotes
		if pp, ok := e.get(st, x.X).(sPtr); ok {
			if obj, ok := st.heap[pp.id].(*hArray); ok && x.Field < len(obj.elems) && (pp.idx == -1 || pp.idx == 0) {
				ft := x.Type().Underlying().(*types.Pointer).Elem()
				if _, isArr := ft.Underlying().(*types.Array); isArr {
					if ap, ok := obj.elems[x.Field].(sPtr); ok {
						st.vals[x] = ap
						return
					}
				} else {
					if po, isObj := obj.elems[x.Field].(pObj); isObj && e.proto != nil && allocKind(ft) != "" && !isPointerType(ft) {
						st.vals[x] = po // the address of a value field that is a protocol object denotes that object
						return
					}
					st.vals[x] = sPtr{pp.id, x.Field}
					return
				}
			}
		}
		st.vals[x] = sOpaque{"field"}
	case *ssa.Field:
		if sv, ok := e.get(st, x.X).(sStruct); ok && x.Field < len(sv.f) {
			st.vals[x] = sv.f[x.Field]
		} else {
			st.vals[x] = sOpaque{"field"}
		}
	case *ssa.MakeSlice:
		// a slice of concrete length: a fresh array object
		if n, ok := constOf(e.get(st, x.Len)); ok && n.IsInt64() && n.Int64() >= 0 && n.Int64() <= 4096 {
			if sl, isSl := x.Type().Underlying().(*types.Slice); isSl {
				// the backing array has the capacity; the slice its length
				capN := n.Int64()
				if x.Cap != nil {
					if c, ok := constOf(e.get(st, x.Cap)); ok && c.IsInt64() && c.Int64() >= capN && c.Int64() <= 4096 {
						capN = c.Int64()
					}
				}
				id := e.newID()
				arr := &hArray{elems: make([]sVal, capN)}
				for i := range arr.elems {
					arr.elems[i] = e.zeroOf(sl.Elem())
				}
				st.heap[id] = arr
				st.vals[x] = sSlice{id, 0, int(n.Int64())}
				return
			}
		}
		st.vals[x] = sOpaque{"make"}
	case *ssa.Extract:
		t := e.get(st, x.Tuple)
		if tv, ok := t.([]sVal); ok && x.Index < len(tv) {
			st.vals[x] = tv[x.Index]
		} else {
			st.vals[x] = sOpaque{"extract"}
		}
	case *ssa.DebugRef:
	default:
		if v, ok := in.(ssa.Value); ok {
			st.vals[v] = sOpaque{fmt.Sprintf("%T", in)}
		}
	}
}

// byte load: special table name for scalar bytes
func (e *sched) loadByte(t sTab) sVal {
	name := strings.TrimPrefix(t.name, "\x00bytes:")
	i, n := t.path[0], t.path[1]
	bits := make([]string, 8)
	for b := 0; b < 8; b++ {
		if n >= 0 {
			if i >= n || i < 0 {
				e.fail("byte %d of %s read but its length is %d", i, name, n)
			}
			bits[b] = fmt.Sprintf("%s:%d", name, (n-1-i)*8+b)
		} else {
			bits[b] = fmt.Sprintf("%s[%d].%d", name, i, b)
		}
	}
	return symFromBits(bits)
}

// ---------- calls ----------

func (e *sched) setForm(st *sState, recv sVal, f pform) bool {
	p, ok := recv.(sPoint)
	if !ok {
		return false
	}
	st.heap[p.id] = &hPoint{form: f}
	return true
}

func (e *sched) pointArg(st *sState, v sVal, what string) (pform, bool) {
	switch x := v.(type) {
	case sPoint:
		return st.form(x)
	case sSymElem:
		arr, ok := st.heap[x.id].(*hArray)
		if !ok {
			return nil, false
		}
		return e.affineLookup(st, arr, x.idx, what)
	}
	return nil, false
}

// summary returns (result, handled)
func (e *sched) summary(st *sState, call *ssa.Call, cal *ssa.Function, args []sVal) (sVal, bool) {
	name := e.p.FuncName(cal)
	pos := e.p.InstrPos(call)
	if e.expMode {
		// addition chains: x^a * x^b = x^(a+b), (x^a)^2 = x^(2a)
		short := strings.TrimPrefix(name, "sm2/internal/fiat.")
		if short == "sm2Mul" || short == "sm2ScalarMul" || short == "sm2Square" || short == "sm2ScalarSquare" {
			expOf := func(v sVal) (pform, bool) {
				if p, ok := v.(sPtr); ok && p.idx == -1 && st.exps != nil {
					f, ok := st.exps[p.id]
					return f, ok
				}
				return nil, false
			}
			out, okO := args[0].(sPtr)
			a, okA := expOf(args[1])
			var res pform
			if strings.HasSuffix(short, "Square") {
				if okA {
					res = pfScale(a, big.NewInt(2))
				}
			} else if b, okB := expOf(args[2]); okA && okB {
				res = pfAdd(a, b)
			}
			if !okO || out.idx != -1 || res == nil {
				e.fail("%s at %s: an operand has no value yet (read before it was assigned)", short, pos)
				return sNil{}, true
			}
			if st.exps == nil {
				st.exps = map[int]pform{}
			}
			st.exps[out.id] = res
			e.expOps++
			return sNil{}, true
		}
	}
	switch name {
	case "sm2/internal.NewSM2Point":
		id := e.newID()
		st.heap[id] = &hPoint{form: pform{}}
		return sPoint{id}, true
	case "sm2/internal.(*SM2Point).Double":
		f, ok := e.pointArg(st, args[1], "Double at "+pos)
		if !ok || !e.setForm(st, args[0], pfScale(f, big.NewInt(2))) {
			e.fail("Double on a non-point at %s", pos)
		}
		return args[0], true
	case "sm2/internal.(*SM2Point).Add":
		f1, ok1 := e.pointArg(st, args[1], "Add at "+pos)
		f2, ok2 := e.pointArg(st, args[2], "Add at "+pos)
		if !ok1 || !ok2 || !e.setForm(st, args[0], pfAdd(f1, f2)) {
			e.fail("Add on a non-point at %s (%T %v, %v %v)", pos, args[1], ok1, args[2], ok2)
		}
		return args[0], true
	case "sm2/internal.(*SM2Point).Set":
		f, ok := e.pointArg(st, args[1], "Set at "+pos)
		if !ok || !e.setForm(st, args[0], f) {
			e.fail("Set on a non-point at %s", pos)
		}
		return args[0], true
	case "math/bits.RotateLeft32", "math/bits.RotateLeft64", "math/bits.RotateLeft16", "math/bits.RotateLeft8":
		// concrete operands only (constant propagation through table generators)
		if len(args) == 2 {
			if v, ok := args[0].(sInt); ok {
				if k, ok := args[1].(sInt); ok && k.v.IsInt64() {
					w := map[string]int{"math/bits.RotateLeft32": 32, "math/bits.RotateLeft64": 64, "math/bits.RotateLeft16": 16, "math/bits.RotateLeft8": 8}[name]
					sh := int(((k.v.Int64() % int64(w)) + int64(w)) % int64(w))
					m := new(big.Int).Sub(pow2(uint(w)), big.NewInt(1))
					x := new(big.Int).And(v.v, m)
					r := new(big.Int).Or(new(big.Int).And(new(big.Int).Lsh(x, uint(sh)), m), new(big.Int).Rsh(x, uint(w-sh)))
					return sInt{r}, true
				}
			}
		}
		return sOpaque{"rotation of a non-constant"}, true
	case "sm2/internal.(*SM2Point).Negate":
		f, ok := e.pointArg(st, args[1], "Negate at "+pos)
		if !ok || !e.setForm(st, args[0], pfScale(f, big.NewInt(-1))) {
			e.fail("Negate on a non-point at %s", pos)
		}
		return args[0], true
	case "sm2/internal.(*SM2Point).MultiSelectXY", "sm2/internal.(*SM2Point).MultiSelectXYZ":
		old, ok := st.form(args[0])
		if !ok {
			e.fail("table selection into a non-point at %s", pos)
			return args[0], true
		}
		if len(old) != 0 {
			e.fail("table selection at %s into a point that is not the fresh point at infinity (index 0 keeps the old value)", pos)
			return args[0], true
		}
		var entries []pform
		switch t := args[1].(type) {
		case sTab:
			q := t
			q.ptr = false
			es, ok := e.tabEntries(q)
			if !ok {
				e.fail("table selection at %s from %s%v: not a row set of a known table", pos, t.name, t.path)
				return args[0], true
			}
			entries = es
			if strings.HasSuffix(name, "XYZ") {
				e.fail("MultiSelectXYZ at %s on an affine package-level table", pos)
			}
		case sPtr:
			if arr, ok := st.heap[t.id].(*hArray); ok && t.idx >= 0 {
				switch pt := arr.elems[t.idx].(type) {
				case sPTable:
					entries = pt.forms
				case sTab:
					if es, ok := e.tabEntries(pt); ok && !pt.ptr {
						entries = es
					}
				}
			}
		}
		if entries == nil {
			e.fail("table selection at %s from an unknown table (%T)", pos, args[1])
			return args[0], true
		}
		w, ok := constOf(args[2])
		if !ok || int(w.Int64()) != len(entries) {
			e.panics = append(e.panics, fmt.Sprintf("table selection at %s: width argument %v does not match the table's %d entries (the routine panics)", pos, args[2], len(entries)))
			return args[0], true
		}
		f, ok := e.lookup(entries, args[3], "table selection at "+pos)
		if ok {
			e.setForm(st, args[0], f)
		}
		return args[0], true
	case "sm2/internal.(*SM2Point).IsInfinity":
		f, ok := e.pointArg(st, args[0], "IsInfinity at "+pos)
		if !ok {
			return sOpaque{"IsInfinity of a non-point"}, true
		}
		return sCondInf{form: f}, true
	case "sm2/internal.NewFromXY":
		x, okx := args[0].(sTab)
		y, oky := args[1].(sTab)
		if !okx || !oky || x.name != y.name || x.sym == nil || x.sym != y.sym {
			e.fail("NewFromXY at %s: coordinates are not the x and y of one table entry", pos)
			return sOpaque{"point"}, true
		}
		sem := e.tables[x.name]
		var row sTab
		okc := false
		if sem != nil && sem.comb && len(x.path) == 3 && len(y.path) == 3 && x.path[0] == y.path[0] && x.path[1] == 0 && y.path[1] == 1 {
			row, okc = sTab{name: x.name, path: []int{x.path[0]}}, true
		}
		if sem != nil && !sem.comb && len(x.path) == 2 && len(y.path) == 2 && x.path[0] == 0 && y.path[0] == 1 {
			row, okc = sTab{name: x.name}, true
		}
		if !okc {
			e.fail("NewFromXY at %s: coordinates are not the x and y rows of one sub-table", pos)
			return sOpaque{"point"}, true
		}
		entries, _ := e.tabEntries(row)
		f, ok := e.lookup(entries, x.sym, "direct table access at "+pos)
		id := e.newID()
		if !ok {
			f = pform{}
		}
		st.heap[id] = &hPoint{form: f}
		return sPoint{id}, true
	case "sm2/internal.TransformPrecomputed":
		var forms []pform
		w, okw := constOf(args[1])
		if p, ok := args[0].(sPtr); ok && okw {
			if cell, ok := st.heap[p.id].(*hArray); ok && p.idx >= 0 {
				if sl, ok := cell.elems[p.idx].(sSlice); ok {
					if arr, ok := st.heap[sl.id].(*hArray); ok {
						for i := 0; i < int(w.Int64()); i++ {
							if sl.lo+i >= sl.hi || sl.lo+i >= len(arr.elems) {
								e.fail("TransformPrecomputed at %s reads past the slice", pos)
								break
							}
							f, ok := st.form(arr.elems[sl.lo+i])
							if !ok {
								e.fail("TransformPrecomputed at %s: element %d is not a point", pos, i)
								break
							}
							forms = append(forms, f)
						}
					}
				}
			}
		}
		if forms == nil {
			e.fail("TransformPrecomputed at %s: argument not understood", pos)
		}
		return sPTable{forms}, true
	case "utils.DecomposeNAF":
		sl, ok := args[0].(sSlice)
		n, okn := constOf(args[2])
		w, okw := constOf(args[3])
		sb, oks := args[1].(sBytes)
		if !ok || !okn || !okw || !oks || int(n.Int64()) != sl.hi-sl.lo {
			e.fail("DecomposeNAF at %s: arguments not understood (out must be a local array of n digits)", pos)
			return sNil{}, true
		}
		arr := st.heap[sl.id].(*hArray)
		for i := 0; i < int(n.Int64()); i++ {
			a := fmt.Sprintf("d:%s:%d", sb.name, i)
			arr.elems[sl.lo+i] = symLin(map[string]*big.Rat{a: big.NewRat(1, 1)})
		}
		e.assume[fmt.Sprintf("utils.DecomposeNAF(out, %s, %d, %d) writes digits d_i, zero or odd, with sum d_i 2^i = the integer %s (decided by C20 NAF-SUM / NAF-DIGIT)", sb.name, n.Int64(), w.Int64(), sb.name)] = true
		return sNil{}, true
	case "math.Pow":
		a, ok1 := args[0].(sFloat)
		b, ok2 := args[1].(sFloat)
		if ok1 && ok2 {
			return sFloat{math.Pow(a.f, b.f)}, true
		}
		return sOpaque{"pow"}, true
	}
	if cal.Pkg != nil {
		switch cal.Pkg.Pkg.Path() {
		case "fmt", "errors":
			return sOpaque{"error value"}, true
		case "crypto/subtle":
			switch cal.Name() {
			case "ConstantTimeByteEq", "ConstantTimeEq":
				a, ok1 := constOf(args[0])
				b, ok2 := constOf(args[1])
				if ok1 && ok2 {
					if a.Cmp(b) == 0 {
						return sInt{big.NewInt(1)}, true
					}
					return sInt{big.NewInt(0)}, true
				}
				return sOpaque{"comparison of symbolic values"}, true
			}
		}
	}
	return nil, false
}

// ---------- execution of state sets ----------

type sFrame struct {
	fn   *ssa.Function
	rets []schedRet
}

func (e *sched) evalPhis(st *sState, b, pred *ssa.BasicBlock) {
	pi := -1
	for i, p := range b.Preds {
		if p == pred {
			pi = i
		}
	}
	if pi < 0 {
		return
	}
	nv := map[ssa.Value]sVal{}
	for _, in := range b.Instrs {
		ph, ok := in.(*ssa.Phi)
		if !ok {
			break
		}
		nv[ph] = e.get(st, ph.Edges[pi])
	}
	for k, v := range nv {
		st.vals[k] = v
	}
}

// decide evaluates a branch condition in a state: (value, concrete)
func (e *sched) decide(st *sState, c sVal) (bool, bool, *sCond) {
	switch x := c.(type) {
	case sBool:
		return x.b, true, nil
	case sCond:
		if v, ok := e.condKnown(st, x); ok {
			return v, true, nil
		}
		return false, false, &x
	case sCondInf:
		var at []string
		for k := range x.form {
			at = append(at, k[:strings.Index(k, "|")])
		}
		if len(x.form) == 0 || st.allZero(at) {
			return !x.neg, true, nil
		}
	}
	return false, false, nil
}

func cmpHolds(sign int, op token.Token) bool { // sign of (value - c)
	switch op {
	case token.EQL:
		return sign == 0
	case token.NEQ:
		return sign != 0
	case token.LSS:
		return sign < 0
	case token.LEQ:
		return sign <= 0
	case token.GTR:
		return sign > 0
	case token.GEQ:
		return sign >= 0
	}
	return false
}

// possible signs of the symbolic value relative to 0: subset of {neg 1, zero 2, pos 4}
func (e *sched) signSet(st *sState, s *sSym) (uint8, bool) {
	if s.bits != nil {
		one := false
		free := false
		for _, b := range s.bits {
			switch {
			case b == "":
			case b == "1" || st.ones[b]:
				one = true
			case !st.zeros[b]:
				free = true
			}
		}
		switch {
		case one:
			return 4, true
		case free:
			return 2 | 4, true
		default:
			return 2, true
		}
	}
	at := s.atoms()
	if len(at) == 1 && isDigitAtom(at[0]) && len(s.lin) == 1 && s.lin[at[0]].Cmp(big.NewRat(1, 1)) == 0 {
		if st.zeros[at[0]] {
			return 2, true
		}
		if m, ok := st.sign[at[0]]; ok {
			return m, true
		}
		return 7, true
	}
	return 0, false
}

// oneBit: the value is a single bit (bit 0 symbolic or constant, all other bits zero)
func oneBit(s *sSym) bool {
	if s.bits == nil {
		return false
	}
	for i, b := range s.bits {
		if i > 0 && b != "" {
			return false
		}
	}
	return true
}

// normCond rewrites comparisons of a one-bit value with 1 into comparisons with 0
func normCond(c sCond) sCond {
	if c.c.Cmp(big.NewInt(1)) == 0 && oneBit(c.sym) {
		switch c.op {
		case token.EQL:
			c.op, c.c = token.NEQ, big.NewInt(0)
		case token.NEQ:
			c.op, c.c = token.EQL, big.NewInt(0)
		}
	}
	return c
}

// intervalDecision: decide a comparison of a bit-derived linear form with a constant by its range on this path
func (e *sched) intervalDecision(st *sState, c sCond) (value, known, applicable bool) {
	lo, hi, ok := st.rangeOf(c.sym)
	if !ok {
		return false, false, false
	}
	k := new(big.Rat).SetInt(c.c)
	allT, allF := false, false
	switch c.op {
	case token.GEQ:
		allT, allF = lo.Cmp(k) >= 0, hi.Cmp(k) < 0
	case token.GTR:
		allT, allF = lo.Cmp(k) > 0, hi.Cmp(k) <= 0
	case token.LEQ:
		allT, allF = hi.Cmp(k) <= 0, lo.Cmp(k) > 0
	case token.LSS:
		allT, allF = hi.Cmp(k) < 0, lo.Cmp(k) >= 0
	case token.EQL:
		allT, allF = lo.Cmp(k) == 0 && hi.Cmp(k) == 0, k.Cmp(lo) < 0 || k.Cmp(hi) > 0
	case token.NEQ:
		allF, allT = lo.Cmp(k) == 0 && hi.Cmp(k) == 0, k.Cmp(lo) < 0 || k.Cmp(hi) > 0
	default:
		return false, false, false
	}
	if allT {
		return true, true, true
	}
	if allF {
		return false, true, true
	}
	return false, false, true
}

// affine1: the condition's value depends on exactly one free bit atom; returns which values of the atom satisfy it
func (e *sched) affine1(st *sState, c sCond) (atom string, sat [2]bool, ok bool) {
	if c.sym.bits != nil || c.len {
		return "", sat, false
	}
	for a := range c.sym.lin {
		if a == "" || st.zeros[a] || st.ones[a] {
			continue
		}
		if isDigitAtom(a) || strings.HasPrefix(a, "len(") || atom != "" {
			return "", sat, false
		}
		atom = a
	}
	if atom == "" {
		return "", sat, false
	}
	k := new(big.Rat).SetInt(c.c)
	for v := int64(0); v < 2; v++ {
		sum := new(big.Rat)
		for a, co := range c.sym.lin {
			switch {
			case a == "" || st.ones[a]:
				sum.Add(sum, co)
			case a == atom:
				sum.Add(sum, new(big.Rat).Mul(co, big.NewRat(v, 1)))
			}
		}
		sat[v] = cmpHolds(sum.Cmp(k), c.op)
	}
	return atom, sat, true
}

func (e *sched) condKnown(st *sState, c sCond) (bool, bool) {
	c = normCond(c)
	if c.len {
		return false, false
	}
	if _, sat, ok := e.affine1(st, c); ok && sat[0] == sat[1] {
		return sat[0], true
	}
	if c.c.Sign() != 0 && !(c.c.Cmp(big.NewInt(1)) == 0 && (c.op == token.LSS || c.op == token.GEQ)) {
		v, known, _ := e.intervalDecision(st, c)
		return v, known
	}
	if _, ok := e.signSet(st, c.sym); !ok {
		v, known, _ := e.intervalDecision(st, c)
		return v, known
	}
	op := c.op
	if c.c.Sign() != 0 { // v < 1  <=> v <= 0 ; v >= 1 <=> v > 0 (integers)
		if op == token.LSS {
			op = token.LEQ
		} else {
			op = token.GTR
		}
	}
	m, ok := e.signSet(st, c.sym)
	if !ok {
		return false, false
	}
	canT, canF := false, false
	for _, sg := range []struct {
		bit  uint8
		sign int
	}{{1, -1}, {2, 0}, {4, 1}} {
		if m&sg.bit != 0 {
			if cmpHolds(sg.sign, op) {
				canT = true
			} else {
				canF = true
			}
		}
	}
	if canT && !canF {
		return true, true
	}
	if canF && !canT {
		return false, true
	}
	return false, false
}

// assume refines the state with the outcome of a symbolic condition; false = infeasible
func (e *sched) assumeCond(st *sState, c0 *sCond, outcome bool) bool {
	if c0.len {
		return true
	}
	cn := normCond(*c0)
	c := &cn
	if atom, sat, ok := e.affine1(st, cn); ok {
		// the outcome pins the bit when exactly one of its values produces it
		v0, v1 := sat[0] == outcome, sat[1] == outcome
		switch {
		case v0 && !v1:
			st.zeros[atom] = true
		case v1 && !v0:
			st.ones[atom] = true
		case !v0 && !v1:
			return false
		}
		return true
	}
	op := c.op
	if _, okSign := e.signSet(st, c.sym); !okSign || (c.c.Sign() != 0 && !(c.c.Cmp(big.NewInt(1)) == 0 && (op == token.LSS || op == token.GEQ))) {
		// a comparison the sign domain cannot refine: both outcomes stay possible when the range straddles the constant
		if _, _, applicable := e.intervalDecision(st, *c); applicable {
			// remember the bound the branch establishes (integers: x < k is x <= k-1)
			k := new(big.Rat).SetInt(c.c)
			one := big.NewRat(1, 1)
			opT := op
			if !outcome {
				opT = map[token.Token]token.Token{token.GEQ: token.LSS, token.LSS: token.GEQ, token.GTR: token.LEQ, token.LEQ: token.GTR, token.EQL: token.NEQ, token.NEQ: token.EQL}[op]
			}
			switch opT {
			case token.GEQ:
				st.learnBound(c.sym, k, nil)
			case token.GTR:
				st.learnBound(c.sym, new(big.Rat).Add(k, one), nil)
			case token.LEQ:
				st.learnBound(c.sym, nil, k)
			case token.LSS:
				st.learnBound(c.sym, nil, new(big.Rat).Sub(k, one))
			case token.EQL:
				st.learnBound(c.sym, k, k)
			}
			return true
		}
		e.fail("branch on a symbolic comparison the domain cannot interpret (%s %s)", op, c.c)
		return true
	}
	if c.c.Sign() != 0 {
		if c.c.Cmp(big.NewInt(1)) != 0 || (op != token.LSS && op != token.GEQ) {
			e.fail("branch on a symbolic comparison with %s", c.c)
			return true
		}
		if op == token.LSS {
			op = token.LEQ
		} else {
			op = token.GTR
		}
	}
	m, ok := e.signSet(st, c.sym)
	if !ok {
		e.fail("branch on a symbolic value that is neither a bit vector nor a recoded digit")
		return true
	}
	var keep uint8
	for _, sg := range []struct {
		bit  uint8
		sign int
	}{{1, -1}, {2, 0}, {4, 1}} {
		if m&sg.bit != 0 && cmpHolds(sg.sign, op) == outcome {
			keep |= sg.bit
		}
	}
	if keep == 0 {
		return false
	}
	if c.sym.bits != nil {
		if keep == 2 {
			for _, b := range c.sym.bits {
				if b != "" && b != "1" {
					st.zeros[b] = true
				}
			}
		}
		if keep == 4 && oneBit(c.sym) && c.sym.bits[0] != "" && c.sym.bits[0] != "1" {
			st.ones[c.sym.bits[0]] = true
		}
		return true
	}
	a := c.sym.atoms()[0]
	st.sign[a] = keep
	if keep == 2 {
		st.zeros[a] = true
	}
	return true
}

func (e *sched) execFrom(fr *sFrame, states []*sState, b, pred, stop *ssa.BasicBlock, phisDone bool) []*sState {
	for {
		if len(states) == 0 || len(e.errs) > 0 {
			return nil
		}
		if e.steps > 40_000_000 {
			e.fail("step budget exhausted")
			return nil
		}
		if !phisDone && pred != nil {
			for _, st := range states {
				e.evalPhis(st, b, pred)
			}
		}
		phisDone = false
		if e.proto != nil && e.proto.stream && isLoopHeader(b) && b != stop {
			var keep []*sState
			for _, st := range states {
				if e.proto.loopArrive(fr, st, b, pred) {
					keep = append(keep, st)
				}
			}
			states = keep
			if len(states) == 0 || len(e.errs) > 0 {
				return nil
			}
		}
		if b == stop {
			return states
		}
		if b == e.stopAt && len(e.forced) == 0 && pred != nil && b.Dominates(pred) {
			e.stopped = append(e.stopped, states...)
			return nil
		}
		var term ssa.Instruction
		for _, in := range b.Instrs {
			switch x := in.(type) {
			case *ssa.Phi:
				continue
			case *ssa.If, *ssa.Jump, *ssa.Return, *ssa.Panic:
				term = in
			case *ssa.Call:
				states = e.execCall(states, x)
				if len(states) == 0 {
					return nil
				}
			default:
				if e.proto != nil {
					var more []*sState
					for _, st := range states {
						more = append(more, e.proto.split(e, st, in)...)
					}
					states = append(states, more...)
				} else if e.ghostArr != 0 {
					var more []*sState
					for _, st := range states {
						more = append(more, e.splitBits(st, in)...)
					}
					states = append(states, more...)
				}
				// states run in lockstep: the same instruction allocates the same object identity in each of them
				base, maxID := e.nextID, e.nextID
				for _, st := range states {
					e.nextID = base
					e.step(st, in)
					if e.nextID > maxID {
						maxID = e.nextID
					}
				}
				e.nextID = maxID
			}
			if term != nil {
				break
			}
		}
		switch x := term.(type) {
		case *ssa.Jump:
			pred, b = b, b.Succs[0]
			continue
		case *ssa.Return:
			for _, st := range states {
				var vs []sVal
				for _, rv := range retVals(x) {
					vs = append(vs, e.get(st, rv))
				}
				fr.rets = append(fr.rets, schedRet{st, vs})
			}
			return nil
		case *ssa.Panic:
			e.panics = append(e.panics, "panic reached at "+e.p.InstrPos(x))
			return nil
		case *ssa.If:
			var tS, fS []*sState
			for _, st := range states {
				cv := e.get(st, x.Cond)
				v, known, sc := e.decide(st, cv)
				switch {
				case known:
					if v {
						tS = append(tS, st)
					} else {
						fS = append(fS, st)
					}
				case sc != nil && sc.len:
					if len(e.forced) == 0 {
						e.fail("loop over an unknown length at %s needs an inductive argument", e.p.InstrPos(x))
						return nil
					}
					if e.forced[0] {
						tS = append(tS, st)
					} else {
						fS = append(fS, st)
					}
				case isPCond(cv):
					pc := cv.(pCond)
					if v, known := e.proto.decideCond(st, pc); known {
						if v {
							tS = append(tS, st)
						} else {
							fS = append(fS, st)
						}
						break
					}
					e.proto.markLoopFork(fr, st, b)
					c2 := st.clone()
					e.proto.assumeCond(st, pc, true)
					e.proto.assumeCond(c2, pc, false)
					if !e.proto.infeasible(st) {
						tS = append(tS, st)
					}
					if !e.proto.infeasible(c2) {
						fS = append(fS, c2)
					}
				case isCondInf(cv):
					ci := cv.(sCondInf)
					c2 := st.clone()
					// the branch where the point IS infinity learns that its form is null
					if ci.neg {
						c2.nulls = append(c2.nulls, ci.form)
					} else {
						st.nulls = append(st.nulls, ci.form)
					}
					// the condition is decided on each side: every copy of it becomes concrete there
					for _, pr := range []struct {
						s   *sState
						out bool
					}{{st, true}, {c2, false}} {
						for k, v := range pr.s.vals {
							if o, ok := v.(sCondInf); ok && pfEqual(o.form, ci.form) {
								pr.s.vals[k] = sBool{pr.out == (o.neg == ci.neg)}
							}
						}
					}
					tS = append(tS, st)
					fS = append(fS, c2)
				case sc != nil:
					c2 := st.clone()
					if e.assumeCond(st, sc, true) {
						tS = append(tS, st)
					}
					if e.assumeCond(c2, sc, false) {
						fS = append(fS, c2)
					}
				default:
					e.fail("branch in block %d (%s) on a value the domain does not model (%v; operands %v)", b.Index, b.Comment, cv, e.dbgOperands(st, x.Cond))
					return nil
				}
			}
			if cvl, ok := e.get(states[0], x.Cond).(sCond); ok && cvl.len && len(e.forced) > 0 {
				e.forced = e.forced[1:]
			}
			if len(fS) == 0 {
				pred, b, states = b, b.Succs[0], tS
				continue
			}
			if len(tS) == 0 {
				pred, b, states = b, b.Succs[1], fS
				continue
			}
			ipd := e.ipdom(fr.fn)[b]
			rt := e.execFrom(fr, tS, b.Succs[0], b, ipd, false)
			rf := e.execFrom(fr, fS, b.Succs[1], b, ipd, false)
			all := e.mergeAt(append(rt, rf...), fr.fn, ipd)
			if ipd == nil || len(all) == 0 {
				return nil
			}
			states, b, pred, phisDone = all, ipd, nil, true
			if b == stop {
				return states
			}
			continue
		default:
			e.fail("block without terminator in %s", fr.fn.Name())
			return nil
		}
	}
}

func isCondInf(v sVal) bool { _, ok := v.(sCondInf); return ok }
func isPCond(v sVal) bool   { _, ok := v.(pCond); return ok }

func (e *sched) execCall(states []*sState, call *ssa.Call) []*sState {
	cal := call.Call.StaticCallee()
	if e.proto != nil {
		if out, handled := e.protoCall(states, call); handled {
			return out
		}
	}
	if cal == nil {
		if b, ok := call.Call.Value.(*ssa.Builtin); ok {
			for _, st := range states {
				st.vals[call] = e.builtin(st, b, call)
			}
			return states
		}
		for _, st := range states {
			st.vals[call] = sOpaque{"dynamic call"}
		}
		return states
	}
	handledAll := true
	base, maxID := e.nextID, e.nextID
	defer func() {
		if maxID > e.nextID {
			e.nextID = maxID
		}
	}()
	for _, st := range states {
		e.nextID = base
		var args []sVal
		for _, a := range call.Call.Args {
			v := e.get(st, a)
			if t, ok := v.(sTab); ok && t.ptr && strings.HasPrefix(t.name, "\x00bytes:") {
				v = sOpaque{"byte pointer"}
			}
			args = append(args, v)
		}
		var res sVal
		ok := false
		if e.proto == nil {
			res, ok = e.summary(st, call, cal, args)
		}
		if e.nextID > maxID {
			maxID = e.nextID
		}
		if !ok {
			handledAll = false
			break
		}
		st.vals[call] = res
	}
	e.nextID = maxID
	if handledAll {
		return states
	}
	if !isRepoFunc(cal) || len(cal.Blocks) == 0 {
		for _, st := range states {
			st.vals[call] = sOpaque{"call of " + cal.Name()}
		}
		return states
	}
	// inline
	for _, st := range states {
		for i, prm := range cal.Params {
			st.vals[prm] = e.get(st, call.Call.Args[i])
		}
		// a function literal called directly: its free variables are the bindings of the closure
		if mc, ok := call.Call.Value.(*ssa.MakeClosure); ok {
			for i, fv := range cal.FreeVars {
				if i < len(mc.Bindings) {
					st.vals[fv] = e.get(st, mc.Bindings[i])
				}
			}
		}
	}
	fr := &sFrame{fn: cal}
	if e.followed == nil {
		e.followed = map[*ssa.Function]bool{}
	}
	e.followed[cal] = true
	e.frames = append(e.frames, cal)
	e.execFrom(fr, states, cal.Blocks[0], nil, nil, false)
	e.frames = e.frames[:len(e.frames)-1]
	var out []*sState
	for _, r := range fr.rets {
		switch len(r.vals) {
		case 0:
			r.st.vals[call] = sNil{}
		case 1:
			r.st.vals[call] = r.vals[0]
		default:
			r.st.vals[call] = r.vals
		}
		out = append(out, r.st)
	}
	return e.mergeAt(out, nil, nil)
}

func (e *sched) builtin(st *sState, b *ssa.Builtin, call *ssa.Call) sVal {
	switch b.Name() {
	case "len":
		a := e.get(st, call.Call.Args[0])
		switch v := a.(type) {
		case sSlice:
			return sInt{big.NewInt(int64(v.hi - v.lo))}
		case sBytes:
			if v.n >= 0 {
				return sInt{big.NewInt(int64(v.n - v.off))}
			}
			return symLin(map[string]*big.Rat{"len(" + v.name + ")": big.NewRat(1, 1)})
		case sTab:
			if n, ok := e.tabLen(v); ok && !v.ptr {
				if v.lim > 0 && v.lim < n {
					n = v.lim
				}
				return sInt{big.NewInt(int64(n))}
			}
		case sPtr:
			if arr, ok := st.heap[v.id].(*hArray); ok && v.idx == -1 {
				return sInt{big.NewInt(int64(len(arr.elems)))}
			}
		}
		return sOpaque{"len"}
	case "cap":
		if v, ok := e.get(st, call.Call.Args[0]).(sSlice); ok {
			if arr, ok := st.heap[v.id].(*hArray); ok {
				return sInt{big.NewInt(int64(len(arr.elems) - v.lo))}
			}
		}
		return sOpaque{"cap"}
	case "append":
		// within the capacity of the backing array: the elements are stored behind the slice
		if len(call.Call.Args) == 2 {
			dst, ok1 := e.get(st, call.Call.Args[0]).(sSlice)
			src, ok2 := e.get(st, call.Call.Args[1]).(sSlice)
			if ok1 && ok2 {
				da, okd := st.heap[dst.id].(*hArray)
				sa, oks := st.heap[src.id].(*hArray)
				n := src.hi - src.lo
				if okd && oks && dst.hi+n <= len(da.elems) {
					copy(da.elems[dst.hi:dst.hi+n], sa.elems[src.lo:src.hi])
					return sSlice{dst.id, dst.lo, dst.hi + n}
				}
			}
		}
		return sOpaque{"append"}
	}
	return sOpaque{"builtin " + b.Name()}
}

// ---------- merging ----------

func sameConcrete(a, b sVal) (differ bool) {
	if sa, ok := a.(sStruct); ok {
		sb, ok := b.(sStruct)
		if !ok {
			return true
		}
		return sameConcrete(sa.f, sb.f)
	}
	if ta, ok := a.([]sVal); ok {
		tb, ok := b.([]sVal)
		if !ok || len(ta) != len(tb) {
			return true
		}
		for i := range ta {
			if sameConcrete(ta[i], tb[i]) || symbolicDiffer(ta[i], tb[i]) {
				return true
			}
		}
		return false
	}
	switch x := a.(type) {
	case sPoint:
		// a pointer variable that leads to different objects (or to none) on the two paths
		switch y := b.(type) {
		case sPoint:
			return x.id != y.id
		case sNil:
			return true
		}
	case sNil:
		if _, ok := b.(sPoint); ok {
			return true
		}
	case sBool:
		if y, ok := b.(sBool); ok {
			return x.b != y.b
		}
	case sInt:
		if y, ok := b.(sInt); ok {
			return x.v.Cmp(y.v) != 0
		}
	case sCondInf:
		switch y := b.(type) {
		case sBool:
			return true
		case sCondInf:
			return x.neg != y.neg || !pfEqual(x.form, y.form)
		}
	}
	if _, ok := b.(sCondInf); ok {
		if _, ok := a.(sBool); ok {
			return true
		}
	}
	return false
}

func (e *sched) mergeVal(s1, s2 *sState, a, b sVal) sVal {
	switch x := a.(type) {
	case *sSym:
		if y, ok := b.(*sSym); ok && symEqual(x, y) {
			return a
		}
		return sOpaque{"joined symbolic value"}
	case sCond:
		if y, ok := b.(sCond); ok && symEqual(x.sym, y.sym) && x.op == y.op && x.c.Cmp(y.c) == 0 && x.len == y.len {
			return a
		}
		return sOpaque{"joined condition"}
	case sTab:
		if y, ok := b.(sTab); ok && x.name == y.name && symEqual(x.sym, y.sym) && fmt.Sprint(x.path) == fmt.Sprint(y.path) && x.ptr == y.ptr {
			return a
		}
		return sOpaque{"joined table reference"}
	case sCondInf:
		if y, ok := b.(sCondInf); ok && x.neg == y.neg && pfEqual(x.form, y.form) {
			return a
		}
		return sOpaque{"joined condition"}
	case sSymElem:
		if y, ok := b.(sSymElem); ok && x.id == y.id && symEqual(x.idx, y.idx) {
			return a
		}
		return sOpaque{"joined element"}
	case sOpaque:
		return a
	case []sVal:
		return a
	case sPTable:
		return a
	case sStruct:
		return a
	case sInt:
		if y, ok := b.(sInt); ok && x.v.Cmp(y.v) == 0 {
			return a
		}
		return sOpaque{"joined integers"}
	}
	if _, ok := b.([]sVal); ok {
		return sOpaque{"joined value"}
	}
	if _, ok := b.(sPTable); ok {
		return sOpaque{"joined value"}
	}
	if _, ok := b.(sStruct); ok {
		return sOpaque{"joined value"}
	}
	if a == b {
		return a
	}
	return sOpaque{"joined value"}
}

func (e *sched) merge(states []*sState) []*sState { return e.mergeAt(states, nil, nil) }

// mergeAt joins states at block b of function fn: only values that are live there (and the values of the enclosing
// frames) keep states apart; values of functions that are not being interpreted any more are ignored.
func (e *sched) mergeAt(states []*sState, fn *ssa.Function, b *ssa.BasicBlock) []*sState {
	if e.proto != nil {
		if len(states) > 4000 {
			e.fail("more than 4000 paths")
		}
		return states // the protocol functions are followed path by path
	}
	var liveSet map[ssa.Value]bool
	if fn != nil && b != nil {
		liveSet = e.liveness(fn)[b]
	}
	active := map[*ssa.Function]bool{}
	for _, f := range e.frames {
		active[f] = true
	}
	relevant := func(v ssa.Value) bool {
		var vf *ssa.Function
		switch x := v.(type) {
		case ssa.Instruction:
			vf = x.Parent()
		case *ssa.Parameter:
			vf = x.Parent()
		default:
			return true
		}
		if fn != nil && vf == fn {
			if liveSet == nil {
				return true
			}
			if liveSet[v] {
				return true
			}
			// phis of the join block were just evaluated: they are live by construction
			if ph, ok := v.(*ssa.Phi); ok && ph.Block() == b {
				return true
			}
			return false
		}
		if fn == nil {
			// at a call return: the values of the function that has just returned are dead
			return vf == nil || active[vf]
		}
		return active[vf]
	}
	if e.ghostArr != 0 {
		for _, s := range states {
			e.concretise(s)
		}
	}
	e.dbgLabel = "call-return"
	if b != nil {
		e.dbgLabel = fmt.Sprintf("%s.%d", fn.Name(), b.Index)
	}
	// bucket by the live concrete values so that only candidates are compared pairwise
	var keyVals []ssa.Value
	if liveSet != nil {
		for v := range liveSet {
			keyVals = append(keyVals, v)
		}
		for _, in := range b.Instrs {
			if ph, ok := in.(*ssa.Phi); ok {
				keyVals = append(keyVals, ph)
			} else {
				break
			}
		}
		sort.Slice(keyVals, func(i, j int) bool { return keyVals[i].Name() < keyVals[j].Name() })
	}
	bucketOf := func(s *sState) string {
		if keyVals == nil {
			return ""
		}
		var sb strings.Builder
		for _, v := range keyVals {
			switch x := s.vals[v].(type) {
			case sInt:
				sb.WriteString(x.v.String())
			case sBool:
				if x.b {
					sb.WriteString("T")
				} else {
					sb.WriteString("F")
				}
			default:
				sb.WriteString("?")
			}
			sb.WriteString(",")
		}
		return sb.String()
	}
	buckets := map[string][]*sState{}
	var out []*sState
	for _, s := range states {
		merged := false
		bk := bucketOf(s)
		for _, t := range buckets[bk] {
			if e.tryMerge(t, s, relevant) {
				merged = true
				break
			}
		}
		if !merged {
			out = append(out, s)
			buckets[bk] = append(buckets[bk], s)
		}
	}
	if os.Getenv("SCHED_DEBUG") == "2" && len(states) > 8 {
		bi := -1
		fnm := "call-return"
		if b != nil {
			bi, fnm = b.Index, fn.Name()
		}
		fmt.Fprintf(os.Stderr, "merge at %s block %d: %d -> %d\n", fnm, bi, len(states), len(out))
	}
	if len(out) > 1200 {
		e.fail("more than 1200 abstract states after a join")
	}
	return out
}

// tryMerge merges s into t when no live concrete value separates them
func (e *sched) tryMerge(t, s *sState, relevant func(ssa.Value) bool) bool {
	for k, a := range t.vals {
		if b, ok := s.vals[k]; ok && relevant(k) && (sameConcrete(a, b) || symbolicDiffer(a, b)) {
			if os.Getenv("SCHED_DEBUG") != "" && e.dbgN < 4000 {
				e.dbgN++
				fmt.Fprintf(os.Stderr, "no-merge[%s]: %s (%s) %v vs %v\n", e.dbgLabel, k.Name(), k.String(), a, b)
			}
			return false
		}
	}
	// the observed digit sum
	if e.ghostArr != 0 && !pfEqual(t.ghost, s.ghost) {
		f, ok := reconcile(t, t.ghost, s, s.ghost)
		if !ok {
			f, ok = reconcile(s, s.ghost, t, t.ghost)
		}
		if !ok {
			if os.Getenv("SCHED_DEBUG") != "" && e.dbgN < 4000 {
				e.dbgN++
				fmt.Fprintf(os.Stderr, "no-merge[%s] ghost: %s\n", e.dbgLabel, describeDiff(t.ghost, s.ghost))
			}
			return false // two histories with different digit sums stay apart (reported at the end if they are wrong)
		}
		t.ghost = f
	}
	if s.ghostNext > t.ghostNext {
		t.ghostNext = s.ghostNext
	}
	// a flag kept in a struct (an accumulator object with a "nothing added yet" field) separates states like a local flag
	reach := e.reachable(t, relevant)
	for id := range reach {
		a1, ok := t.heap[id].(*hArray)
		if !ok || len(a1.elems) > 8 {
			continue
		}
		a2, ok := s.heap[id].(*hArray)
		if !ok || len(a2.elems) != len(a1.elems) {
			continue
		}
		for i := range a1.elems {
			b1, ok1 := a1.elems[i].(sBool)
			b2, ok2 := a2.elems[i].(sBool)
			if ok1 && ok2 && b1.b != b2.b {
				return false
			}
		}
	}
	// heap forms (objects that no live value leads to are garbage: their forms need not agree)
	newForms := map[int]pform{}
	for id, h := range t.heap {
		hp, ok := h.(*hPoint)
		if !ok {
			continue
		}
		if !reach[id] {
			continue
		}
		h2, ok := s.heap[id].(*hPoint)
		if !ok || pfEqual(hp.form, h2.form) {
			continue
		}
		if f, ok := reconcile(t, hp.form, s, h2.form); ok {
			newForms[id] = f
			continue
		}
		if f, ok := reconcile(s, h2.form, t, hp.form); ok {
			newForms[id] = f
			continue
		}
		switch {
		case t.nullDiff(hp.form, h2.form):
			newForms[id] = h2.form
		case s.nullDiff(hp.form, h2.form):
			newForms[id] = hp.form
		default:
			e.fail("cannot join two point values that differ in %v (neither side knows these symbols to be zero)", firstN(pfDiffAtoms(hp.form, h2.form), 4))
			return false
		}
	}
	for id, f := range newForms {
		t.heap[id] = &hPoint{form: f}
	}
	for id, h := range s.heap {
		if _, ok := t.heap[id]; !ok {
			t.heap[id] = h
		}
	}
	for id, h := range t.heap {
		a1, ok := h.(*hArray)
		if !ok {
			continue
		}
		a2, ok := s.heap[id].(*hArray)
		if !ok {
			continue
		}
		for i := range a1.elems {
			if i < len(a2.elems) {
				a1.elems[i] = e.mergeVal(t, s, a1.elems[i], a2.elems[i])
			}
		}
	}
	for k, a := range t.vals {
		if b, ok := s.vals[k]; ok {
			t.vals[k] = e.mergeVal(t, s, a, b)
		}
	}
	for k, b := range s.vals {
		if _, ok := t.vals[k]; !ok {
			t.vals[k] = b
		}
	}
	for k := range t.zeros {
		if !s.zeros[k] {
			delete(t.zeros, k)
		}
	}
	for k := range t.ones {
		if !s.ones[k] {
			delete(t.ones, k)
		}
	}
	for k, b := range t.bnd {
		b2, ok := s.bnd[k]
		if !ok {
			delete(t.bnd, k)
			continue
		}
		if b[0] == nil || b2[0] == nil {
			b[0] = nil
		} else if b2[0].Cmp(b[0]) < 0 {
			b[0] = b2[0]
		}
		if b[1] == nil || b2[1] == nil {
			b[1] = nil
		} else if b2[1].Cmp(b[1]) > 0 {
			b[1] = b2[1]
		}
		t.bnd[k] = b
	}
	var nn []pform
	for _, a := range t.nulls {
		for _, b := range s.nulls {
			if pfEqual(a, b) {
				nn = append(nn, a)
				break
			}
		}
	}
	t.nulls = nn
	for k, m := range t.sign {
		if m2, ok := s.sign[k]; ok {
			t.sign[k] = m | m2
		} else {
			delete(t.sign, k)
		}
	}
	return true
}

func firstN(s []string, n int) []string {
	if len(s) > n {
		return s[:n]
	}
	return s
}

func (e *sched) dbgOperands(st *sState, v ssa.Value) string {
	if bo, ok := v.(*ssa.BinOp); ok {
		return fmt.Sprintf("%s=%v %s %s=%v", bo.X.Name(), e.get(st, bo.X), bo.Op, bo.Y.Name(), e.get(st, bo.Y))
	}
	return v.Name()
}

func symEqual(a, b *sSym) bool {
	if a == b {
		return true
	}
	if a == nil || b == nil {
		return false
	}
	if (a.bits == nil) != (b.bits == nil) || len(a.bits) != len(b.bits) || len(a.lin) != len(b.lin) {
		return false
	}
	for i := range a.bits {
		if a.bits[i] != b.bits[i] {
			return false
		}
	}
	for k, v := range a.lin {
		if w, ok := b.lin[k]; !ok || w.Cmp(v) != 0 {
			return false
		}
	}
	return symEqual(a.pred, b.pred)
}

// ---------- liveness (SSA values live at block entry) ----------

func (e *sched) liveness(fn *ssa.Function) map[*ssa.BasicBlock]map[ssa.Value]bool {
	if e.live == nil {
		e.live = map[*ssa.Function]map[*ssa.BasicBlock]map[ssa.Value]bool{}
	}
	if m, ok := e.live[fn]; ok {
		return m
	}
	liveIn := map[*ssa.BasicBlock]map[ssa.Value]bool{}
	liveOut := map[*ssa.BasicBlock]map[ssa.Value]bool{}
	for _, b := range fn.Blocks {
		liveIn[b] = map[ssa.Value]bool{}
		liveOut[b] = map[ssa.Value]bool{}
	}
	isTracked := func(v ssa.Value) bool {
		switch v.(type) {
		case *ssa.Const, *ssa.Global, *ssa.Function, *ssa.Builtin:
			return false
		}
		return v != nil
	}
	changed := true
	for changed {
		changed = false
		for i := len(fn.Blocks) - 1; i >= 0; i-- {
			b := fn.Blocks[i]
			out := liveOut[b]
			for _, s := range b.Succs {
				for v := range liveIn[s] {
					if ph, ok := v.(*ssa.Phi); ok && ph.Block() == s {
						continue
					}
					if !out[v] {
						out[v] = true
						changed = true
					}
				}
				// phi operands are live out of the corresponding predecessor
				pi := -1
				for k, p := range s.Preds {
					if p == b {
						pi = k
					}
				}
				for _, in := range s.Instrs {
					ph, ok := in.(*ssa.Phi)
					if !ok {
						break
					}
					if pi >= 0 && isTracked(ph.Edges[pi]) && !out[ph.Edges[pi]] {
						out[ph.Edges[pi]] = true
						changed = true
					}
				}
			}
			in := map[ssa.Value]bool{}
			for v := range out {
				in[v] = true
			}
			for k := len(b.Instrs) - 1; k >= 0; k-- {
				ins := b.Instrs[k]
				if v, ok := ins.(ssa.Value); ok {
					delete(in, v)
				}
				if _, isPhi := ins.(*ssa.Phi); isPhi {
					continue
				}
				for _, op := range ins.Operands(nil) {
					if *op != nil && isTracked(*op) {
						in[*op] = true
					}
				}
			}
			for v := range in {
				if !liveIn[b][v] {
					liveIn[b][v] = true
					changed = true
				}
			}
		}
	}
	e.live[fn] = liveIn
	return liveIn
}

// ---------- observed digit array (signed-window recoding) ----------

func (e *sched) ghostStore(st *sState, idx int, v sVal, pos string) {
	e.digitStores++
	var lin map[string]*big.Rat
	switch x := v.(type) {
	case sInt:
		lin = map[string]*big.Rat{"": new(big.Rat).SetInt(x.v)}
	case *sSym:
		lin = x.lin
	default:
		e.fail("digit stored at %s is not an integer expression of the input bits", pos)
		return
	}
	add := pform{}
	for a, c := range lin {
		if !c.IsInt() {
			e.fail("digit stored at %s has a non-integral coefficient", pos)
			return
		}
		add[pfKey(a, "")] = new(big.Int).Lsh(c.Num(), uint(idx))
	}
	if st.ghost == nil {
		st.ghost = pform{}
	}
	st.ghost = pfAdd(st.ghost, add)
	// digit rules: zero or odd, |d| < 2^w, at least w zeros after a non-zero digit
	sym := symLin(lin)
	lo, hi, ok := st.rangeOf(sym)
	prob := func(format string, a ...interface{}) {
		msg := fmt.Sprintf(format, a...)
		for _, p := range e.digitProblems {
			if p == msg {
				return
			}
		}
		if len(e.digitProblems) < 6 {
			e.digitProblems = append(e.digitProblems, msg)
		}
	}
	if !ok {
		prob("digit at index %d (%s) is not a function of the input bits", idx, pos)
		return
	}
	// parity: every atom with an odd coefficient must have a known value
	par := new(big.Int)
	known := true
	for a, c := range lin {
		if new(big.Int).Mod(c.Num(), big.NewInt(2)).Sign() == 0 {
			continue
		}
		switch {
		case a == "" || st.ones[a]:
			par.Add(par, big.NewInt(1))
		case st.zeros[a]:
		default:
			known = false
		}
	}
	odd := known && new(big.Int).Mod(par, big.NewInt(2)).Sign() != 0
	if odd && lo.IsInt() && hi.IsInt() {
		// an odd value cannot sit on an even end of its interval
		if new(big.Int).Mod(lo.Num(), big.NewInt(2)).Sign() == 0 {
			lo = new(big.Rat).Add(lo, big.NewRat(1, 1))
		}
		if new(big.Int).Mod(hi.Num(), big.NewInt(2)).Sign() == 0 {
			hi = new(big.Rat).Sub(hi, big.NewRat(1, 1))
		}
	}
	lim := new(big.Rat).SetInt(pow2(uint(e.ghostW)))
	if hi.Cmp(lim) >= 0 || lo.Cmp(new(big.Rat).Neg(lim)) <= 0 {
		prob("digit stored at %s can lie in [%s,%s]; the window width %d allows only |d| < %d", pos, lo.RatString(), hi.RatString(), e.ghostW, 1<<uint(e.ghostW))
	}
	isZero := lo.Sign() == 0 && hi.Sign() == 0
	if !isZero {
		if !odd {
			prob("digit stored at %s is not provably odd", pos)
		}
		if idx < st.ghostNext {
			prob("non-zero digit stored at index %d (%s) although a non-zero digit may have been stored fewer than %d positions below", idx, pos, e.ghostW+1)
		}
		st.ghostNext = idx + e.ghostW + 1
	}
}

// symbolicDiffer: two live symbolic values that are not the same expression keep their states apart
func symbolicDiffer(a, b sVal) bool {
	switch x := a.(type) {
	case *sSym:
		if y, ok := b.(*sSym); ok {
			return !symEqual(x, y)
		}
		_, isInt := b.(sInt)
		return isInt
	case sInt:
		_, isSym := b.(*sSym)
		return isSym
	case sCond:
		if y, ok := b.(sCond); ok {
			return !(symEqual(x.sym, y.sym) && x.op == y.op && x.c.Cmp(y.c) == 0 && x.len == y.len)
		}
		_, isB := b.(sBool)
		return isB
	case sBool:
		_, isC := b.(sCond)
		return isC
	}
	return false
}

// protoCall: calls in protocol mode (summaries of the layers below sm2, builtins on protocol values)
func (e *sched) protoCall(states []*sState, call *ssa.Call) ([]*sState, bool) {
	d := e.proto
	if b, ok := call.Call.Value.(*ssa.Builtin); ok {
		handledAll := true
		if !d.stream && !d.glue && b.Name() == "copy" {
			var more []*sState
			for _, st := range states {
				more = append(more, d.splitCopy(e, st, call)...)
			}
			states = append(states, more...)
		}
		if d.stream && b.Name() == "copy" {
			// copy moves min(len(dst), len(src)) elements: when the path does not order the two lengths, both cases are followed
			var more []*sState
			for _, st := range states {
				ds, ok1 := gShape(e.get(st, call.Call.Args[0]))
				ss, ok2 := gShape(e.get(st, call.Call.Args[1]))
				if ok1 && ok2 && !proveP(st.pfacts, ds.ln, token.GEQ, ss.ln) && !proveP(st.pfacts, ss.ln, token.GEQ, ds.ln) {
					c2 := st.clone()
					st.addFact(pFact{a: ds.ln, op: token.GEQ, b: ss.ln})
					c2.addFact(pFact{a: ds.ln, op: token.LSS, b: ss.ln})
					more = append(more, c2)
				}
			}
			states = append(states, more...)
		}
		for _, st := range states {
			var args []sVal
			for _, a := range call.Call.Args {
				args = append(args, e.get(st, a))
			}
			if r, ok := d.builtin(st, b.Name(), call, args); ok {
				st.vals[call] = r
			} else {
				st.vals[call] = e.builtin(st, b, call)
				_ = handledAll
			}
		}
		return states, true
	}
	name, argVals := protoCallName(e.p, call)
	if name == "" {
		return nil, false
	}
	cal := call.Call.StaticCallee()
	// a hand-written full read of the random source is used through the contract of io.ReadFull (readhelper.go)
	if h := fullReadHelper(cal); h != nil && len(call.Call.Args) == len(cal.Params) {
		d.readHelpers[e.p.FuncName(cal)] = h.why
		var out2 []*sState
		for _, st := range states {
			var args []sVal
			for _, a := range call.Call.Args {
				args = append(args, e.get(st, a))
			}
			d.readHelperShape = true
			handled, extra := d.call(st, call, "io.ReadFull", []sVal{args[h.rd], args[h.buf]})
			d.readHelperShape = false
			if !handled {
				e.fail("full-read helper %s at %s could not be applied", cal.Name(), e.p.InstrPos(call))
			}
			for _, s2 := range append([]*sState{st}, extra...) {
				// the helper returns the error alone
				if tup, ok := s2.vals[call].([]sVal); ok && len(tup) == 2 {
					s2.vals[call] = tup[1]
				}
				if !s2.dead {
					out2 = append(out2, s2)
				}
			}
		}
		return out2, true
	}
	var out []*sState
	anyHandled := false
	for _, st := range states {
		var args []sVal
		for _, a := range argVals {
			args = append(args, e.get(st, a))
		}
		handled := false
		var extra []*sState
		if d.glue {
			handled = d.glueCall(st, call, name, args)
		}
		if !handled && !(d.stream && strings.HasPrefix(name, "sm3.")) {
			handled, extra = d.call(st, call, name, args)
		}
		if !handled {
			if cal != nil && isRepoFunc(cal) && len(cal.Blocks) > 0 && len(e.frames) > 0 && cal.Pkg == e.frames[0].Pkg {
				return nil, false // a function of the package under analysis: follow it
			}
			e.fail("call of %s at %s is not modelled in the protocol domain", name, e.p.InstrPos(call))
			st.vals[call] = sOpaque{"unmodelled call"}
		}
		anyHandled = true
		if !st.dead {
			out = append(out, st)
		}
		out = append(out, extra...)
	}
	return out, anyHandled
}

func isPointerType(t types.Type) bool {
	_, ok := t.Underlying().(*types.Pointer)
	return ok
}

// reachable: heap objects that the relevant values of the state lead to (through pointers, slices, struct cells)
func (e *sched) reachable(st *sState, relevant func(ssa.Value) bool) map[int]bool {
	seen := map[int]bool{}
	var visit func(v sVal, depth int)
	visit = func(v sVal, depth int) {
		if depth > 12 {
			return
		}
		id := -1
		switch x := v.(type) {
		case sPoint:
			id = x.id
		case sPtr:
			id = x.id
		case sSlice:
			id = x.id
		case sSymElem:
			id = x.id
		case sStruct:
			for _, f := range x.f {
				visit(f, depth+1)
			}
			return
		case []sVal:
			for _, f := range x {
				visit(f, depth+1)
			}
			return
		}
		if id < 0 || seen[id] {
			return
		}
		seen[id] = true
		if arr, ok := st.heap[id].(*hArray); ok {
			for _, el := range arr.elems {
				visit(el, depth+1)
			}
		}
	}
	for k, v := range st.vals {
		if relevant(k) {
			visit(v, 0)
		}
	}
	for _, g := range e.globals {
		visit(g, 0)
	}
	for _, a := range e.rootArgs {
		visit(a, 0)
	}
	return seen
}
