package main

import (
	"fmt"
	"go/token"
	"go/types"
	"math"
	"math/big"
	"strings"

	"golang.org/x/tools/go/ssa"
)

// ---------- instruction semantics ----------

func (e *sched) zeroOf(t types.Type) sVal {
	switch u := t.Underlying().(type) {
	case *types.Basic:
		switch {
		case u.Info()&types.IsBoolean != 0:
			return sBool{false}
		case u.Info()&types.IsInteger != 0:
			return sInt{big.NewInt(0)}
		case u.Info()&types.IsFloat != 0:
			return sFloat{0}
		}
		return sOpaque{"zero " + t.String()}
	case *types.Pointer, *types.Slice, *types.Interface, *types.Map, *types.Signature:
		return sNil{}
	}
	return sOpaque{"zero " + t.String()}
}

func (e *sched) step(st *sState, in ssa.Instruction) {
	e.steps++
	switch x := in.(type) {
	case *ssa.Alloc:
		id := e.newID()
		elemT := x.Type().Underlying().(*types.Pointer).Elem()
		if at, ok := elemT.Underlying().(*types.Array); ok {
			arr := &hArray{elems: make([]sVal, at.Len())}
			for i := range arr.elems {
				arr.elems[i] = e.zeroOf(at.Elem())
			}
			st.heap[id] = arr
			st.vals[x] = sPtr{id, -1}
		} else {
			st.heap[id] = &hArray{elems: []sVal{e.zeroOf(elemT)}}
			st.vals[x] = sPtr{id, 0}
		}
	case *ssa.Store:
		addr := e.get(st, x.Addr)
		v := e.get(st, x.Val)
		if p, ok := addr.(sPtr); ok {
			if arr, ok := st.heap[p.id].(*hArray); ok && p.idx >= 0 && p.idx < len(arr.elems) {
				arr.elems[p.idx] = v
				return
			}
		}
		e.fail("store through %T at %s", addr, e.p.InstrPos(x))
	case *ssa.UnOp:
		a := e.get(st, x.X)
		switch x.Op {
		case token.MUL:
			switch p := a.(type) {
			case sPtr:
				if arr, ok := st.heap[p.id].(*hArray); ok {
					if p.idx >= 0 && p.idx < len(arr.elems) {
						st.vals[x] = arr.elems[p.idx]
						return
					}
					if p.idx == -1 {
						st.vals[x] = p // array value: keep as reference
						return
					}
				}
			case sTab:
				if p.ptr && strings.HasPrefix(p.name, "\x00bytes:") {
					st.vals[x] = e.loadByte(p)
					return
				}
				if p.ptr {
					q := p
					q.ptr = false
					st.vals[x] = q
					return
				}
			case sSymElem:
				st.vals[x] = p
				return
			case sNil:
				e.fail("nil dereference at %s", e.p.InstrPos(x))
				st.vals[x] = sOpaque{"nil deref"}
				return
			case sOpaque:
				st.vals[x] = sOpaque{"load of " + p.why}
				return
			}
			st.vals[x] = sOpaque{fmt.Sprintf("load through %T", a)}
		case token.NOT:
			switch b := a.(type) {
			case sBool:
				st.vals[x] = sBool{!b.b}
			case sCondInf:
				b.neg = !b.neg
				st.vals[x] = b
			case sCond:
				neg := map[token.Token]token.Token{token.EQL: token.NEQ, token.NEQ: token.EQL, token.LSS: token.GEQ, token.GEQ: token.LSS, token.GTR: token.LEQ, token.LEQ: token.GTR}
				b.op = neg[b.op]
				st.vals[x] = b
			default:
				st.vals[x] = sOpaque{"not"}
			}
		case token.SUB:
			switch b := a.(type) {
			case sInt:
				st.vals[x] = sInt{wrapInt(new(big.Int).Neg(b.v), x.Type())}
			case sFloat:
				st.vals[x] = sFloat{-b.f}
			case *sSym:
				st.vals[x] = symLin(linAddScaled(map[string]*big.Rat{}, b.lin, big.NewRat(-1, 1)))
			default:
				st.vals[x] = sOpaque{"neg"}
			}
		case token.XOR:
			if b, ok := a.(sInt); ok {
				st.vals[x] = sInt{wrapInt(new(big.Int).Not(b.v), x.Type())}
			} else {
				st.vals[x] = sOpaque{"complement of a symbolic value"}
			}
		default:
			st.vals[x] = sOpaque{"unop"}
		}
	case *ssa.BinOp:
		st.vals[x] = e.binop(st, x)
	case *ssa.Convert:
		a := e.get(st, x.X)
		dst := x.Type().Underlying()
		db, _ := dst.(*types.Basic)
		switch v := a.(type) {
		case sInt:
			if db != nil && db.Info()&types.IsFloat != 0 {
				f, _ := new(big.Float).SetInt(v.v).Float64()
				st.vals[x] = sFloat{f}
			} else {
				st.vals[x] = sInt{wrapInt(v.v, x.Type())}
			}
		case sFloat:
			if db != nil && db.Info()&types.IsInteger != 0 {
				st.vals[x] = sInt{big.NewInt(int64(v.f))}
			} else {
				st.vals[x] = v
			}
		case *sSym:
			w, _ := typeBits(x.Type())
			if v.bits != nil && w > 0 {
				nb := make([]string, w)
				copy(nb, v.bits)
				n := symFromBits(nb)
				st.vals[x] = n
			} else {
				st.vals[x] = v // value-preserving on the ranges that occur (digits, indices)
			}
		default:
			st.vals[x] = a
		}
	case *ssa.ChangeType:
		st.vals[x] = e.get(st, x.X)
	case *ssa.MakeInterface:
		st.vals[x] = sOpaque{"interface"}
	case *ssa.ChangeInterface:
		st.vals[x] = sOpaque{"interface"}
	case *ssa.Slice:
		a := e.get(st, x.X)
		lo, hi := -1, -1
		if x.Low != nil {
			if c, ok := constOf(e.get(st, x.Low)); ok {
				lo = int(c.Int64())
			} else {
				e.fail("symbolic slice bound at %s", e.p.InstrPos(x))
			}
		}
		if x.High != nil {
			if c, ok := constOf(e.get(st, x.High)); ok {
				hi = int(c.Int64())
			} else {
				e.fail("symbolic slice bound at %s", e.p.InstrPos(x))
			}
		}
		switch v := a.(type) {
		case sPtr:
			if arr, ok := st.heap[v.id].(*hArray); ok && v.idx == -1 {
				if lo < 0 {
					lo = 0
				}
				if hi < 0 {
					hi = len(arr.elems)
				}
				st.vals[x] = sSlice{v.id, lo, hi}
				return
			}
		case sSlice:
			if lo < 0 {
				lo = 0
			}
			if hi < 0 {
				hi = v.hi - v.lo
			}
			st.vals[x] = sSlice{v.id, v.lo + lo, v.lo + hi}
			return
		case sBytes:
			if lo <= 0 && hi < 0 {
				st.vals[x] = v
				return
			}
		}
		st.vals[x] = sOpaque{fmt.Sprintf("slice of %T", a)}
	case *ssa.IndexAddr:
		a := e.get(st, x.X)
		iv := e.get(st, x.Index)
		ic, iconst := constOf(iv)
		switch v := a.(type) {
		case sPtr: // pointer to array
			if iconst {
				st.vals[x] = sPtr{v.id, int(ic.Int64())}
			} else if s, ok := iv.(*sSym); ok {
				st.vals[x] = sSymElem{v.id, s}
			} else {
				st.vals[x] = sOpaque{"index"}
			}
		case sSlice:
			if iconst {
				st.vals[x] = sPtr{v.id, v.lo + int(ic.Int64())}
			} else if s, ok := iv.(*sSym); ok && v.lo == 0 {
				st.vals[x] = sSymElem{v.id, s}
			} else {
				st.vals[x] = sOpaque{"index"}
			}
		case sBytes:
			if !iconst {
				e.fail("scalar byte read at a symbolic index at %s", e.p.InstrPos(x))
				st.vals[x] = sOpaque{"index"}
				return
			}
			st.vals[x] = sTab{name: "\x00bytes:" + v.name, path: []int{int(ic.Int64()), v.n}, ptr: true}
		case sTab:
			if v.ptr {
				e.fail("index of a table pointer at %s", e.p.InstrPos(x))
				return
			}
			q := sTab{name: v.name, path: append(append([]int(nil), v.path...), 0), ptr: true}
			if iconst {
				q.path[len(q.path)-1] = int(ic.Int64())
				if n, ok := e.tabLen(v); !ok || q.path[len(q.path)-1] >= n || ic.Sign() < 0 {
					e.fail("table index %s out of range at %s", ic, e.p.InstrPos(x))
				}
			} else if s, ok := iv.(*sSym); ok && s.pred != nil {
				q.path[len(q.path)-1] = -1
				q.sym = s.pred
			} else {
				e.fail("table indexed by a symbolic value that is not of the form v-1 at %s", e.p.InstrPos(x))
			}
			st.vals[x] = q
		case sPTable:
			st.vals[x] = sOpaque{"ptable index"}
		default:
			st.vals[x] = sOpaque{fmt.Sprintf("index of %T", a)}
		}
	case *ssa.Index:
		st.vals[x] = sOpaque{"index value"}
	case *ssa.FieldAddr, *ssa.Field:
		st.vals[x.(ssa.Value)] = sOpaque{"field"}
	case *ssa.MakeSlice:
		st.vals[x] = sOpaque{"make"}
	case *ssa.Extract:
		t := e.get(st, x.Tuple)
		if tv, ok := t.([]sVal); ok && x.Index < len(tv) {
			st.vals[x] = tv[x.Index]
		} else {
			st.vals[x] = sOpaque{"extract"}
		}
	case *ssa.DebugRef:
	default:
		if v, ok := in.(ssa.Value); ok {
			st.vals[v] = sOpaque{fmt.Sprintf("%T", in)}
		}
	}
}

// byte load: special table name for scalar bytes
func (e *sched) loadByte(t sTab) sVal {
	name := strings.TrimPrefix(t.name, "\x00bytes:")
	i, n := t.path[0], t.path[1]
	bits := make([]string, 8)
	for b := 0; b < 8; b++ {
		if n >= 0 {
			if i >= n || i < 0 {
				e.fail("byte %d of %s read but its length is %d", i, name, n)
			}
			bits[b] = fmt.Sprintf("%s:%d", name, (n-1-i)*8+b)
		} else {
			bits[b] = fmt.Sprintf("%s[%d].%d", name, i, b)
		}
	}
	return symFromBits(bits)
}

// ---------- calls ----------

func (e *sched) setForm(st *sState, recv sVal, f pform) bool {
	p, ok := recv.(sPoint)
	if !ok {
		return false
	}
	st.heap[p.id] = &hPoint{form: f}
	return true
}

func (e *sched) pointArg(st *sState, v sVal, what string) (pform, bool) {
	switch x := v.(type) {
	case sPoint:
		return st.form(x)
	case sSymElem:
		arr, ok := st.heap[x.id].(*hArray)
		if !ok {
			return nil, false
		}
		return e.affineLookup(st, arr, x.idx, what)
	}
	return nil, false
}

// summary returns (result, handled)
func (e *sched) summary(st *sState, call *ssa.Call, cal *ssa.Function, args []sVal) (sVal, bool) {
	name := e.p.FuncName(cal)
	pos := e.p.InstrPos(call)
	switch name {
	case "sm2/internal.NewSM2Point":
		id := e.newID()
		st.heap[id] = &hPoint{form: pform{}}
		return sPoint{id}, true
	case "sm2/internal.(*SM2Point).Double":
		f, ok := e.pointArg(st, args[1], "Double at "+pos)
		if !ok || !e.setForm(st, args[0], pfScale(f, big.NewInt(2))) {
			e.fail("Double on a non-point at %s", pos)
		}
		return args[0], true
	case "sm2/internal.(*SM2Point).Add":
		f1, ok1 := e.pointArg(st, args[1], "Add at "+pos)
		f2, ok2 := e.pointArg(st, args[2], "Add at "+pos)
		if !ok1 || !ok2 || !e.setForm(st, args[0], pfAdd(f1, f2)) {
			e.fail("Add on a non-point at %s (%T %v, %v %v)", pos, args[1], ok1, args[2], ok2)
		}
		return args[0], true
	case "sm2/internal.(*SM2Point).Set":
		f, ok := e.pointArg(st, args[1], "Set at "+pos)
		if !ok || !e.setForm(st, args[0], f) {
			e.fail("Set on a non-point at %s", pos)
		}
		return args[0], true
	case "sm2/internal.(*SM2Point).Negate":
		f, ok := e.pointArg(st, args[1], "Negate at "+pos)
		if !ok || !e.setForm(st, args[0], pfScale(f, big.NewInt(-1))) {
			e.fail("Negate on a non-point at %s", pos)
		}
		return args[0], true
	case "sm2/internal.(*SM2Point).MultiSelectXY", "sm2/internal.(*SM2Point).MultiSelectXYZ":
		old, ok := st.form(args[0])
		if !ok {
			e.fail("table selection into a non-point at %s", pos)
			return args[0], true
		}
		if len(old) != 0 {
			e.fail("table selection at %s into a point that is not the fresh point at infinity (index 0 keeps the old value)", pos)
			return args[0], true
		}
		var entries []pform
		switch t := args[1].(type) {
		case sTab:
			q := t
			q.ptr = false
			es, ok := e.tabEntries(q)
			if !ok {
				e.fail("table selection at %s from %s%v: not a row set of a known table", pos, t.name, t.path)
				return args[0], true
			}
			entries = es
			if strings.HasSuffix(name, "XYZ") {
				e.fail("MultiSelectXYZ at %s on an affine package-level table", pos)
			}
		case sPtr:
			if arr, ok := st.heap[t.id].(*hArray); ok && t.idx >= 0 {
				switch pt := arr.elems[t.idx].(type) {
				case sPTable:
					entries = pt.forms
				case sTab:
					if es, ok := e.tabEntries(pt); ok && !pt.ptr {
						entries = es
					}
				}
			}
		}
		if entries == nil {
			e.fail("table selection at %s from an unknown table (%T)", pos, args[1])
			return args[0], true
		}
		w, ok := constOf(args[2])
		if !ok || int(w.Int64()) != len(entries) {
			e.panics = append(e.panics, fmt.Sprintf("table selection at %s: width argument %v does not match the table's %d entries (the routine panics)", pos, args[2], len(entries)))
			return args[0], true
		}
		f, ok := e.lookup(entries, args[3], "table selection at "+pos)
		if ok {
			e.setForm(st, args[0], f)
		}
		return args[0], true
	case "sm2/internal.(*SM2Point).IsInfinity":
		f, ok := e.pointArg(st, args[0], "IsInfinity at "+pos)
		if !ok {
			return sOpaque{"IsInfinity of a non-point"}, true
		}
		return sCondInf{form: f}, true
	case "sm2/internal.NewFromXY":
		x, okx := args[0].(sTab)
		y, oky := args[1].(sTab)
		if !okx || !oky || x.name != y.name || x.sym == nil || x.sym != y.sym {
			e.fail("NewFromXY at %s: coordinates are not the x and y of one table entry", pos)
			return sOpaque{"point"}, true
		}
		sem := e.tables[x.name]
		var row sTab
		okc := false
		if sem != nil && sem.comb && len(x.path) == 3 && len(y.path) == 3 && x.path[0] == y.path[0] && x.path[1] == 0 && y.path[1] == 1 {
			row, okc = sTab{name: x.name, path: []int{x.path[0]}}, true
		}
		if sem != nil && !sem.comb && len(x.path) == 2 && len(y.path) == 2 && x.path[0] == 0 && y.path[0] == 1 {
			row, okc = sTab{name: x.name}, true
		}
		if !okc {
			e.fail("NewFromXY at %s: coordinates are not the x and y rows of one sub-table", pos)
			return sOpaque{"point"}, true
		}
		entries, _ := e.tabEntries(row)
		f, ok := e.lookup(entries, x.sym, "direct table access at "+pos)
		id := e.newID()
		if !ok {
			f = pform{}
		}
		st.heap[id] = &hPoint{form: f}
		return sPoint{id}, true
	case "sm2/internal.TransformPrecomputed":
		var forms []pform
		w, okw := constOf(args[1])
		if p, ok := args[0].(sPtr); ok && okw {
			if cell, ok := st.heap[p.id].(*hArray); ok && p.idx >= 0 {
				if sl, ok := cell.elems[p.idx].(sSlice); ok {
					if arr, ok := st.heap[sl.id].(*hArray); ok {
						for i := 0; i < int(w.Int64()); i++ {
							if sl.lo+i >= sl.hi || sl.lo+i >= len(arr.elems) {
								e.fail("TransformPrecomputed at %s reads past the slice", pos)
								break
							}
							f, ok := st.form(arr.elems[sl.lo+i])
							if !ok {
								e.fail("TransformPrecomputed at %s: element %d is not a point", pos, i)
								break
							}
							forms = append(forms, f)
						}
					}
				}
			}
		}
		if forms == nil {
			e.fail("TransformPrecomputed at %s: argument not understood", pos)
		}
		return sPTable{forms}, true
	case "utils.DecomposeNAF":
		sl, ok := args[0].(sSlice)
		n, okn := constOf(args[2])
		w, okw := constOf(args[3])
		sb, oks := args[1].(sBytes)
		if !ok || !okn || !okw || !oks || int(n.Int64()) != sl.hi-sl.lo {
			e.fail("DecomposeNAF at %s: arguments not understood (out must be a local array of n digits)", pos)
			return sNil{}, true
		}
		arr := st.heap[sl.id].(*hArray)
		for i := 0; i < int(n.Int64()); i++ {
			a := fmt.Sprintf("d:%s:%d", sb.name, i)
			arr.elems[sl.lo+i] = symLin(map[string]*big.Rat{a: big.NewRat(1, 1)})
		}
		e.assume[fmt.Sprintf("utils.DecomposeNAF(out, %s, %d, %d) writes digits d_i, zero or odd, with sum d_i 2^i = the integer %s (recoding clause of C20, not decided statically)", sb.name, n.Int64(), w.Int64(), sb.name)] = true
		return sNil{}, true
	case "math.Pow":
		a, ok1 := args[0].(sFloat)
		b, ok2 := args[1].(sFloat)
		if ok1 && ok2 {
			return sFloat{math.Pow(a.f, b.f)}, true
		}
		return sOpaque{"pow"}, true
	}
	if cal.Pkg != nil {
		switch cal.Pkg.Pkg.Path() {
		case "fmt", "errors":
			return sOpaque{"error value"}, true
		}
	}
	return nil, false
}

// ---------- execution of state sets ----------

type sFrame struct {
	fn   *ssa.Function
	rets []schedRet
}

func (e *sched) evalPhis(st *sState, b, pred *ssa.BasicBlock) {
	pi := -1
	for i, p := range b.Preds {
		if p == pred {
			pi = i
		}
	}
	if pi < 0 {
		return
	}
	nv := map[ssa.Value]sVal{}
	for _, in := range b.Instrs {
		ph, ok := in.(*ssa.Phi)
		if !ok {
			break
		}
		nv[ph] = e.get(st, ph.Edges[pi])
	}
	for k, v := range nv {
		st.vals[k] = v
	}
}

// decide evaluates a branch condition in a state: (value, concrete)
func (e *sched) decide(st *sState, c sVal) (bool, bool, *sCond) {
	switch x := c.(type) {
	case sBool:
		return x.b, true, nil
	case sCond:
		if v, ok := e.condKnown(st, x); ok {
			return v, true, nil
		}
		return false, false, &x
	case sCondInf:
		var at []string
		for k := range x.form {
			at = append(at, k[:strings.Index(k, "|")])
		}
		if len(x.form) == 0 || st.allZero(at) {
			return !x.neg, true, nil
		}
	}
	return false, false, nil
}

func cmpHolds(sign int, op token.Token) bool { // sign of (value - c)
	switch op {
	case token.EQL:
		return sign == 0
	case token.NEQ:
		return sign != 0
	case token.LSS:
		return sign < 0
	case token.LEQ:
		return sign <= 0
	case token.GTR:
		return sign > 0
	case token.GEQ:
		return sign >= 0
	}
	return false
}

// possible signs of the symbolic value relative to 0: subset of {neg 1, zero 2, pos 4}
func (e *sched) signSet(st *sState, s *sSym) (uint8, bool) {
	if s.bits != nil {
		one := false
		free := false
		for _, b := range s.bits {
			switch {
			case b == "":
			case b == "1":
				one = true
			case !st.zeros[b]:
				free = true
			}
		}
		switch {
		case one:
			return 4, true
		case free:
			return 2 | 4, true
		default:
			return 2, true
		}
	}
	at := s.atoms()
	if len(at) == 1 && isDigitAtom(at[0]) && len(s.lin) == 1 && s.lin[at[0]].Cmp(big.NewRat(1, 1)) == 0 {
		if st.zeros[at[0]] {
			return 2, true
		}
		if m, ok := st.sign[at[0]]; ok {
			return m, true
		}
		return 7, true
	}
	return 0, false
}

func (e *sched) condKnown(st *sState, c sCond) (bool, bool) {
	if c.len || c.c.Sign() != 0 && !(c.c.Cmp(big.NewInt(1)) == 0 && (c.op == token.LSS || c.op == token.GEQ)) {
		return false, false
	}
	op := c.op
	if c.c.Sign() != 0 { // v < 1  <=> v <= 0 ; v >= 1 <=> v > 0 (integers)
		if op == token.LSS {
			op = token.LEQ
		} else {
			op = token.GTR
		}
	}
	m, ok := e.signSet(st, c.sym)
	if !ok {
		return false, false
	}
	canT, canF := false, false
	for _, sg := range []struct {
		bit  uint8
		sign int
	}{{1, -1}, {2, 0}, {4, 1}} {
		if m&sg.bit != 0 {
			if cmpHolds(sg.sign, op) {
				canT = true
			} else {
				canF = true
			}
		}
	}
	if canT && !canF {
		return true, true
	}
	if canF && !canT {
		return false, true
	}
	return false, false
}

// assume refines the state with the outcome of a symbolic condition; false = infeasible
func (e *sched) assumeCond(st *sState, c *sCond, outcome bool) bool {
	if c.len {
		return true
	}
	op := c.op
	if c.c.Sign() != 0 {
		if c.c.Cmp(big.NewInt(1)) != 0 || (op != token.LSS && op != token.GEQ) {
			e.fail("branch on a symbolic comparison with %s", c.c)
			return true
		}
		if op == token.LSS {
			op = token.LEQ
		} else {
			op = token.GTR
		}
	}
	m, ok := e.signSet(st, c.sym)
	if !ok {
		e.fail("branch on a symbolic value that is neither a bit vector nor a recoded digit")
		return true
	}
	var keep uint8
	for _, sg := range []struct {
		bit  uint8
		sign int
	}{{1, -1}, {2, 0}, {4, 1}} {
		if m&sg.bit != 0 && cmpHolds(sg.sign, op) == outcome {
			keep |= sg.bit
		}
	}
	if keep == 0 {
		return false
	}
	if c.sym.bits != nil {
		if keep == 2 {
			for _, b := range c.sym.bits {
				if b != "" && b != "1" {
					st.zeros[b] = true
				}
			}
		}
		return true
	}
	a := c.sym.atoms()[0]
	st.sign[a] = keep
	if keep == 2 {
		st.zeros[a] = true
	}
	return true
}

func (e *sched) execFrom(fr *sFrame, states []*sState, b, pred, stop *ssa.BasicBlock, phisDone bool) []*sState {
	for {
		if len(states) == 0 || len(e.errs) > 0 {
			return nil
		}
		if e.steps > 40_000_000 {
			e.fail("step budget exhausted")
			return nil
		}
		if !phisDone && pred != nil {
			for _, st := range states {
				e.evalPhis(st, b, pred)
			}
		}
		phisDone = false
		if b == stop {
			return states
		}
		if b == e.stopAt && len(e.forced) == 0 && pred != nil && b.Dominates(pred) {
			e.stopped = append(e.stopped, states...)
			return nil
		}
		var term ssa.Instruction
		for _, in := range b.Instrs {
			switch x := in.(type) {
			case *ssa.Phi:
				continue
			case *ssa.If, *ssa.Jump, *ssa.Return, *ssa.Panic:
				term = in
			case *ssa.Call:
				states = e.execCall(states, x)
				if len(states) == 0 {
					return nil
				}
			default:
				// states run in lockstep: the same instruction allocates the same object identity in each of them
				base, maxID := e.nextID, e.nextID
				for _, st := range states {
					e.nextID = base
					e.step(st, in)
					if e.nextID > maxID {
						maxID = e.nextID
					}
				}
				e.nextID = maxID
			}
			if term != nil {
				break
			}
		}
		switch x := term.(type) {
		case *ssa.Jump:
			pred, b = b, b.Succs[0]
			continue
		case *ssa.Return:
			for _, st := range states {
				var vs []sVal
				for _, rv := range x.Results {
					vs = append(vs, e.get(st, rv))
				}
				fr.rets = append(fr.rets, schedRet{st, vs})
			}
			return nil
		case *ssa.Panic:
			e.panics = append(e.panics, "panic reached at "+e.p.InstrPos(x))
			return nil
		case *ssa.If:
			var tS, fS []*sState
			for _, st := range states {
				cv := e.get(st, x.Cond)
				v, known, sc := e.decide(st, cv)
				switch {
				case known:
					if v {
						tS = append(tS, st)
					} else {
						fS = append(fS, st)
					}
				case sc != nil && sc.len:
					if len(e.forced) == 0 {
						e.fail("loop over an unknown length at %s needs an inductive argument", e.p.InstrPos(x))
						return nil
					}
					if e.forced[0] {
						tS = append(tS, st)
					} else {
						fS = append(fS, st)
					}
				case isCondInf(cv):
					ci := cv.(sCondInf)
					c2 := st.clone()
					// the branch where the point IS infinity learns that its form is null
					if ci.neg {
						c2.nulls = append(c2.nulls, ci.form)
					} else {
						st.nulls = append(st.nulls, ci.form)
					}
					// the condition is decided on each side: every copy of it becomes concrete there
					for _, pr := range []struct {
						s   *sState
						out bool
					}{{st, true}, {c2, false}} {
						for k, v := range pr.s.vals {
							if o, ok := v.(sCondInf); ok && pfEqual(o.form, ci.form) {
								pr.s.vals[k] = sBool{pr.out == (o.neg == ci.neg)}
							}
						}
					}
					tS = append(tS, st)
					fS = append(fS, c2)
				case sc != nil:
					c2 := st.clone()
					if e.assumeCond(st, sc, true) {
						tS = append(tS, st)
					}
					if e.assumeCond(c2, sc, false) {
						fS = append(fS, c2)
					}
				default:
					e.fail("branch in block %d (%s) on a value the domain does not model (%v; operands %v)", b.Index, b.Comment, cv, e.dbgOperands(st, x.Cond))
					return nil
				}
			}
			if cvl, ok := e.get(states[0], x.Cond).(sCond); ok && cvl.len && len(e.forced) > 0 {
				e.forced = e.forced[1:]
			}
			if len(fS) == 0 {
				pred, b, states = b, b.Succs[0], tS
				continue
			}
			if len(tS) == 0 {
				pred, b, states = b, b.Succs[1], fS
				continue
			}
			ipd := e.ipdom(fr.fn)[b]
			rt := e.execFrom(fr, tS, b.Succs[0], b, ipd, false)
			rf := e.execFrom(fr, fS, b.Succs[1], b, ipd, false)
			all := e.merge(append(rt, rf...))
			if ipd == nil || len(all) == 0 {
				return nil
			}
			states, b, pred, phisDone = all, ipd, nil, true
			if b == stop {
				return states
			}
			continue
		default:
			e.fail("block without terminator in %s", fr.fn.Name())
			return nil
		}
	}
}

func isCondInf(v sVal) bool { _, ok := v.(sCondInf); return ok }

func (e *sched) execCall(states []*sState, call *ssa.Call) []*sState {
	cal := call.Call.StaticCallee()
	if cal == nil {
		if b, ok := call.Call.Value.(*ssa.Builtin); ok {
			for _, st := range states {
				st.vals[call] = e.builtin(st, b, call)
			}
			return states
		}
		for _, st := range states {
			st.vals[call] = sOpaque{"dynamic call"}
		}
		return states
	}
	handledAll := true
	base, maxID := e.nextID, e.nextID
	defer func() {
		if maxID > e.nextID {
			e.nextID = maxID
		}
	}()
	for _, st := range states {
		e.nextID = base
		var args []sVal
		for _, a := range call.Call.Args {
			v := e.get(st, a)
			if t, ok := v.(sTab); ok && t.ptr && strings.HasPrefix(t.name, "\x00bytes:") {
				v = sOpaque{"byte pointer"}
			}
			args = append(args, v)
		}
		res, ok := e.summary(st, call, cal, args)
		if e.nextID > maxID {
			maxID = e.nextID
		}
		if !ok {
			handledAll = false
			break
		}
		st.vals[call] = res
	}
	e.nextID = maxID
	if handledAll {
		return states
	}
	if !isRepoFunc(cal) || len(cal.Blocks) == 0 {
		for _, st := range states {
			st.vals[call] = sOpaque{"call of " + cal.Name()}
		}
		return states
	}
	// inline
	for _, st := range states {
		for i, prm := range cal.Params {
			st.vals[prm] = e.get(st, call.Call.Args[i])
		}
	}
	fr := &sFrame{fn: cal}
	e.execFrom(fr, states, cal.Blocks[0], nil, nil, false)
	var out []*sState
	for _, r := range fr.rets {
		switch len(r.vals) {
		case 0:
			r.st.vals[call] = sNil{}
		case 1:
			r.st.vals[call] = r.vals[0]
		default:
			r.st.vals[call] = r.vals
		}
		out = append(out, r.st)
	}
	return e.merge(out)
}

func (e *sched) builtin(st *sState, b *ssa.Builtin, call *ssa.Call) sVal {
	switch b.Name() {
	case "len":
		a := e.get(st, call.Call.Args[0])
		switch v := a.(type) {
		case sSlice:
			return sInt{big.NewInt(int64(v.hi - v.lo))}
		case sBytes:
			if v.n >= 0 {
				return sInt{big.NewInt(int64(v.n))}
			}
			return symLin(map[string]*big.Rat{"len(" + v.name + ")": big.NewRat(1, 1)})
		case sTab:
			if n, ok := e.tabLen(v); ok && !v.ptr {
				return sInt{big.NewInt(int64(n))}
			}
		case sPtr:
			if arr, ok := st.heap[v.id].(*hArray); ok && v.idx == -1 {
				return sInt{big.NewInt(int64(len(arr.elems)))}
			}
		}
		return sOpaque{"len"}
	}
	return sOpaque{"builtin " + b.Name()}
}

// ---------- merging ----------

func sameConcrete(a, b sVal) (differ bool) {
	switch x := a.(type) {
	case sBool:
		if y, ok := b.(sBool); ok {
			return x.b != y.b
		}
	case sInt:
		if y, ok := b.(sInt); ok {
			return x.v.Cmp(y.v) != 0
		}
	case sCondInf:
		switch y := b.(type) {
		case sBool:
			return true
		case sCondInf:
			return x.neg != y.neg || !pfEqual(x.form, y.form)
		}
	}
	if _, ok := b.(sCondInf); ok {
		if _, ok := a.(sBool); ok {
			return true
		}
	}
	return false
}

func (e *sched) mergeVal(s1, s2 *sState, a, b sVal) sVal {
	switch x := a.(type) {
	case *sSym:
		if y, ok := b.(*sSym); ok && symEqual(x, y) {
			return a
		}
		return sOpaque{"joined symbolic value"}
	case sCond:
		if y, ok := b.(sCond); ok && symEqual(x.sym, y.sym) && x.op == y.op && x.c.Cmp(y.c) == 0 && x.len == y.len {
			return a
		}
		return sOpaque{"joined condition"}
	case sTab:
		if y, ok := b.(sTab); ok && x.name == y.name && symEqual(x.sym, y.sym) && fmt.Sprint(x.path) == fmt.Sprint(y.path) && x.ptr == y.ptr {
			return a
		}
		return sOpaque{"joined table reference"}
	case sCondInf:
		if y, ok := b.(sCondInf); ok && x.neg == y.neg && pfEqual(x.form, y.form) {
			return a
		}
		return sOpaque{"joined condition"}
	case sSymElem:
		if y, ok := b.(sSymElem); ok && x.id == y.id && symEqual(x.idx, y.idx) {
			return a
		}
		return sOpaque{"joined element"}
	case sOpaque:
		return a
	case []sVal:
		return a
	case sPTable:
		return a
	case sInt:
		if y, ok := b.(sInt); ok && x.v.Cmp(y.v) == 0 {
			return a
		}
		return sOpaque{"joined integers"}
	}
	if _, ok := b.([]sVal); ok {
		return sOpaque{"joined value"}
	}
	if _, ok := b.(sPTable); ok {
		return sOpaque{"joined value"}
	}
	if a == b {
		return a
	}
	return sOpaque{"joined value"}
}

func (e *sched) merge(states []*sState) []*sState {
	var out []*sState
	for _, s := range states {
		merged := false
		for _, t := range out {
			if e.tryMerge(t, s) {
				merged = true
				break
			}
		}
		if !merged {
			out = append(out, s)
		}
	}
	if len(out) > 16 {
		e.fail("more than 16 abstract states after a join")
	}
	return out
}

// tryMerge merges s into t when no live concrete value separates them
func (e *sched) tryMerge(t, s *sState) bool {
	for k, a := range t.vals {
		if b, ok := s.vals[k]; ok && sameConcrete(a, b) {
			return false
		}
	}
	// heap forms
	newForms := map[int]pform{}
	for id, h := range t.heap {
		hp, ok := h.(*hPoint)
		if !ok {
			continue
		}
		h2, ok := s.heap[id].(*hPoint)
		if !ok || pfEqual(hp.form, h2.form) {
			continue
		}
		at := pfDiffAtoms(hp.form, h2.form)
		switch {
		case s.allZero(at):
			newForms[id] = hp.form
		case t.allZero(at):
			newForms[id] = h2.form
		case t.nullDiff(hp.form, h2.form):
			newForms[id] = h2.form
		case s.nullDiff(hp.form, h2.form):
			newForms[id] = hp.form
		default:
			e.fail("cannot join two point values that differ in %v (neither side knows these symbols to be zero)", firstN(at, 4))
			return false
		}
	}
	for id, f := range newForms {
		t.heap[id] = &hPoint{form: f}
	}
	for id, h := range s.heap {
		if _, ok := t.heap[id]; !ok {
			t.heap[id] = h
		}
	}
	for id, h := range t.heap {
		a1, ok := h.(*hArray)
		if !ok {
			continue
		}
		a2, ok := s.heap[id].(*hArray)
		if !ok {
			continue
		}
		for i := range a1.elems {
			if i < len(a2.elems) {
				a1.elems[i] = e.mergeVal(t, s, a1.elems[i], a2.elems[i])
			}
		}
	}
	for k, a := range t.vals {
		if b, ok := s.vals[k]; ok {
			t.vals[k] = e.mergeVal(t, s, a, b)
		}
	}
	for k, b := range s.vals {
		if _, ok := t.vals[k]; !ok {
			t.vals[k] = b
		}
	}
	for k := range t.zeros {
		if !s.zeros[k] {
			delete(t.zeros, k)
		}
	}
	var nn []pform
	for _, a := range t.nulls {
		for _, b := range s.nulls {
			if pfEqual(a, b) {
				nn = append(nn, a)
				break
			}
		}
	}
	t.nulls = nn
	for k, m := range t.sign {
		if m2, ok := s.sign[k]; ok {
			t.sign[k] = m | m2
		} else {
			delete(t.sign, k)
		}
	}
	return true
}

func firstN(s []string, n int) []string {
	if len(s) > n {
		return s[:n]
	}
	return s
}

func (e *sched) dbgOperands(st *sState, v ssa.Value) string {
	if bo, ok := v.(*ssa.BinOp); ok {
		return fmt.Sprintf("%s=%v %s %s=%v", bo.X.Name(), e.get(st, bo.X), bo.Op, bo.Y.Name(), e.get(st, bo.Y))
	}
	return v.Name()
}

func symEqual(a, b *sSym) bool {
	if a == b {
		return true
	}
	if a == nil || b == nil {
		return false
	}
	if (a.bits == nil) != (b.bits == nil) || len(a.bits) != len(b.bits) || len(a.lin) != len(b.lin) {
		return false
	}
	for i := range a.bits {
		if a.bits[i] != b.bits[i] {
			return false
		}
	}
	for k, v := range a.lin {
		if w, ok := b.lin[k]; !ok || w.Cmp(v) != 0 {
			return false
		}
	}
	return symEqual(a.pred, b.pred)
}
