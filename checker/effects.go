package main

// Engine G5: effects — which roots (parameters, receiver, package-level variables) a function may store into,
// directly or through callees (Go and assembler), and which parameters it retains.

import (
	"fmt"
	"go/token"
	"go/types"
	"sort"
	"strings"

	"golang.org/x/tools/go/ssa"
)

type writeSite struct {
	fn    *ssa.Function
	instr ssa.Instruction
	via   string // "" direct store, or the callee through which the write happens
}

type effSummary struct {
	fn          *ssa.Function
	writesParam []bool
	writesDeep  []bool // the write goes through a pointer loaded from the parameter's object (its contents' pointees)
	paramSites  [][]writeSite
	globals     map[*ssa.Global][]writeSite
	retAlias    []int         // result aliases parameter (or -1)
	retGlobal   []*ssa.Global // result may alias (contain pointers into) this package-level variable
	retFresh    []bool        // result is a fresh allocation on every path
	retains     []bool        // parameter's memory is stored into another object (heap/global/returned)
	retainSites [][]writeSite
}

type Effects struct {
	p        *Prog
	sum      map[*ssa.Function]*effSummary
	asmWrite map[string]map[int]bool // body-less function -> written parameter indices (from A3)
	changed  bool
}

func NewEffects(p *Prog, asmWrite map[string]map[int]bool) *Effects {
	e := &Effects{p: p, sum: map[*ssa.Function]*effSummary{}, asmWrite: asmWrite}
	for _, f := range p.RepoFuncs() {
		n := len(f.Params)
		nr := f.Signature.Results().Len()
		e.sum[f] = &effSummary{fn: f, writesParam: make([]bool, n), writesDeep: make([]bool, n), paramSites: make([][]writeSite, n), globals: map[*ssa.Global][]writeSite{}, retAlias: fillInts(nr, -1), retGlobal: make([]*ssa.Global, nr), retFresh: make([]bool, nr), retains: make([]bool, n), retainSites: make([][]writeSite, n)}
	}
	return e
}

type effState struct {
	uf        map[ssa.Value]ssa.Value
	tupleRoot map[ssa.Value][]ssa.Value
	dirty     bool
}

func (s *effState) find(v ssa.Value) ssa.Value {
	for {
		p, ok := s.uf[v]
		if !ok || p == v {
			return v
		}
		v = p
	}
}
func (s *effState) union(a, b ssa.Value) {
	ra, rb := s.find(a), s.find(b)
	if ra != rb {
		// keep parameters and globals as representatives
		if isParamOrGlobal(ra) && !isParamOrGlobal(rb) {
			ra, rb = rb, ra
		}
		s.uf[ra] = rb
		s.dirty = true
	}
}
func isParamOrGlobal(v ssa.Value) bool {
	switch v.(type) {
	case *ssa.Parameter, *ssa.Global:
		return true
	}
	return false
}
func (s *effState) root(v ssa.Value) ssa.Value {
	for i := 0; i < 100; i++ {
		switch x := v.(type) {
		case *ssa.FieldAddr:
			v = x.X
		case *ssa.IndexAddr:
			v = x.X
		case *ssa.Slice:
			v = x.X
		case *ssa.ChangeType:
			v = x.X
		case *ssa.Convert:
			v = x.X
		case *ssa.SliceToArrayPointer:
			v = x.X
		case *ssa.MakeInterface:
			v = x.X
		case *ssa.ChangeInterface:
			v = x.X
		case *ssa.TypeAssert:
			v = x.X
		case *ssa.UnOp:
			if x.Op == token.MUL && hasContent(x.Type()) {
				v = x.X
				continue
			}
			return s.find(v)
		case *ssa.Field:
			v = x.X
		case *ssa.Index:
			v = x.X
		case *ssa.Extract:
			if rs, ok := s.tupleRoot[x.Tuple]; ok && x.Index < len(rs) && rs[x.Index] != nil {
				v = rs[x.Index]
				continue
			}
			return s.find(v)
		default:
			return s.find(v)
		}
	}
	return s.find(v)
}

func (e *Effects) Run() {
	fns := e.p.RepoFuncs()
	for iter := 0; iter < 50; iter++ {
		e.changed = false
		for _, f := range fns {
			if len(f.Blocks) > 0 {
				e.analyze(f)
			}
		}
		if !e.changed {
			break
		}
	}
}

// externalWrites: which argument indices (including receiver at 0) an external function may write.
func externalWrites(callee *ssa.Function, nargs int) []int {
	name := callee.String()
	switch {
	case strings.HasPrefix(name, "math/bits."), strings.HasPrefix(name, "crypto/subtle.ConstantTimeCompare"), strings.HasPrefix(name, "crypto/subtle.ConstantTimeByteEq"),
		strings.HasPrefix(name, "crypto/subtle.ConstantTimeEq"), strings.HasPrefix(name, "crypto/subtle.ConstantTimeSelect"), strings.HasPrefix(name, "crypto/subtle.ConstantTimeLessOrEq"),
		name == "errors.New", strings.HasPrefix(name, "fmt."), strings.HasPrefix(name, "strconv."), strings.HasPrefix(name, "math."), name == "encoding/hex.DecodeString", name == "encoding/hex.EncodeToString",
		name == "bytes.Equal", name == "bytes.Compare", name == "bytes.HasPrefix", name == "bytes.HasSuffix", name == "bytes.IndexByte":
		return nil
	case strings.Contains(name, "Endian).Uint"):
		return nil
	case strings.Contains(name, "Endian).PutUint"), strings.Contains(name, "Endian).AppendUint"):
		return []int{1}
	case name == "io.ReadFull", name == "io.ReadAtLeast":
		return []int{1}
	case name == "crypto/subtle.ConstantTimeCopy", name == "crypto/subtle.XORBytes":
		return []int{1}
	}
	if callee.Signature.Recv() != nil {
		rt := callee.Signature.Recv().Type()
		if isNamed(rt, "math/big", "Int") {
			switch callee.Name() {
			case "Cmp", "CmpAbs", "Sign", "Bytes", "BitLen", "Bit", "Int64", "Uint64", "IsInt64", "IsUint64", "String", "Text", "Append", "ProbablyPrime", "TrailingZeroBits", "Bits":
				return nil
			case "FillBytes":
				return []int{1}
			}
			return []int{0}
		}
		if isNamed(rt, "github.com/klauspost/cpuid/v2", "CPUInfo") {
			return nil
		}
		// unknown external method: receiver and every pointer-like argument
	}
	out := make([]int, nargs)
	for i := range out {
		out[i] = i
	}
	return out
}

func (e *Effects) analyze(fn *ssa.Function) {
	sum := e.sum[fn]
	s := &effState{uf: map[ssa.Value]ssa.Value{}, tupleRoot: map[ssa.Value][]ssa.Value{}}
	type wr struct {
		root ssa.Value
		site writeSite
		deep bool // callee writes through pointers stored in the argument's object
	}
	var writes []wr
	type rt struct {
		val  ssa.Value // pointer-like value stored
		into ssa.Value // address
		site writeSite
	}
	var retainsL []rt
	for iter := 0; iter < 20; iter++ {
		s.dirty = false
		writes = writes[:0]
		retainsL = retainsL[:0]
		for _, b := range fn.Blocks {
			for _, in := range b.Instrs {
				switch x := in.(type) {
				case *ssa.Phi:
					if hasContent(x.Type()) {
						for _, ed := range x.Edges {
							if !isConst(ed) {
								s.union(s.root(ed), x)
							}
						}
					}
				case *ssa.Store:
					writes = append(writes, wr{x.Addr, writeSite{fn, in, ""}, false})
					if (isPtrLike(x.Val.Type()) || containsPointers(x.Val.Type(), 0)) && !isConst(x.Val) {
						retainsL = append(retainsL, rt{x.Val, x.Addr, writeSite{fn, in, ""}})
						s.union(s.root(x.Val), s.root(x.Addr))
					}
				case *ssa.MapUpdate:
					writes = append(writes, wr{x.Map, writeSite{fn, in, ""}, false})
				case *ssa.Send:
					writes = append(writes, wr{x.Chan, writeSite{fn, in, ""}, false})
				case ssa.CallInstruction:
					c := x.Common()
					val, isVal := in.(ssa.Value)
					args := c.Args
					if c.IsInvoke() {
						args = append([]ssa.Value{c.Value}, c.Args...)
					}
					if b, ok := c.Value.(*ssa.Builtin); ok {
						switch b.Name() {
						case "copy":
							writes = append(writes, wr{args[0], writeSite{fn, in, "copy"}, false})
						case "append":
							writes = append(writes, wr{args[0], writeSite{fn, in, "append"}, false})
							if isVal {
								s.union(val, s.root(args[0]))
							}
						case "clear":
							writes = append(writes, wr{args[0], writeSite{fn, in, "clear"}, false})
						}
						continue
					}
					var callees []*ssa.Function
					if cal := c.StaticCallee(); cal != nil {
						callees = []*ssa.Function{cal}
					} else if c.IsInvoke() {
						t := &Taint{p: e.p}
						callees = t.implementations(c)
					}
					if len(callees) == 0 {
						// unknown dynamic call: every pointer-like argument may be written
						for _, a := range args {
							if hasContent(a.Type()) {
								writes = append(writes, wr{a, writeSite{fn, in, "dynamic call"}, false})
							}
						}
						continue
					}
					for _, cal := range callees {
						if cs, ok := e.sum[cal]; ok && len(cal.Blocks) > 0 {
							for j, a := range args {
								if j < len(cs.writesParam) && cs.writesParam[j] {
									writes = append(writes, wr{a, writeSite{fn, in, e.p.FuncName(cal)}, j < len(cs.writesDeep) && cs.writesDeep[j]})
								}
								if j < len(cs.retains) && cs.retains[j] && isPtrLike(a.Type()) {
									retainsL = append(retainsL, rt{a, nil, writeSite{fn, in, e.p.FuncName(cal)}})
								}
							}
							for g, sites := range cs.globals {
								if len(sum.globals[g]) == 0 {
									sum.globals[g] = append(sum.globals[g], writeSite{fn, in, e.p.FuncName(cal) + " → " + siteChain(e.p, sites[0])})
									e.changed = true
								}
							}
							if isVal {
								if len(cs.retAlias) == 1 {
									if k := cs.retAlias[0]; k >= 0 && k < len(args) {
										s.union(val, s.root(args[k]))
									}
									if g := cs.retGlobal[0]; g != nil {
										s.union(val, g)
									}
								} else if len(cs.retAlias) > 1 {
									roots := make([]ssa.Value, len(cs.retAlias))
									for i, k := range cs.retAlias {
										if k >= 0 && k < len(args) {
											roots[i] = args[k]
										}
									}
									s.tupleRoot[val] = roots
								}
							}
							continue
						}
						if cal.Pkg != nil && strings.HasPrefix(cal.Pkg.Pkg.Path(), modPath) && len(cal.Blocks) == 0 {
							w, known := e.asmWrite[cal.Name()]
							for j, a := range args {
								if hasContent(a.Type()) && (!known || w[j]) {
									writes = append(writes, wr{a, writeSite{fn, in, "asm " + cal.Name()}, false})
								}
							}
							continue
						}
						for _, j := range externalWrites(cal, len(args)) {
							if j < len(args) && hasContent(args[j].Type()) {
								writes = append(writes, wr{args[j], writeSite{fn, in, cal.String()}, false})
							}
						}
						// external methods returning their receiver
						if isVal && cal.Signature.Recv() != nil && len(args) > 0 && c.Signature().Results().Len() == 1 && types.Identical(c.Signature().Results().At(0).Type(), args[0].Type()) {
							s.union(val, s.root(args[0]))
						}
					}
				}
			}
		}
		if !s.dirty {
			break
		}
	}
	paramIdx := map[ssa.Value]int{}
	for i, p := range fn.Params {
		paramIdx[p] = i
	}
	classify := func(v ssa.Value) (int, *ssa.Global) {
		r := s.root(v)
		// a root merged with a parameter/global by union-find
		if i, ok := paramIdx[r]; ok {
			return i, nil
		}
		if g, ok := r.(*ssa.Global); ok {
			return -1, g
		}
		for p, i := range paramIdx {
			if s.find(p) == r {
				return i, nil
			}
		}
		return -1, nil
	}
	for _, w := range writes {
		if directLocal(w.root) && !w.deep {
			continue // a store into a local variable (or fresh object) of this invocation itself
		}
		i, g := classify(w.root)
		if i >= 0 {
			if !sum.writesParam[i] {
				sum.writesParam[i] = true
				e.changed = true
			}
			if (w.deep || crossesLoad(w.root)) && !sum.writesDeep[i] {
				sum.writesDeep[i] = true
				e.changed = true
			}
			if len(sum.paramSites[i]) < 4 {
				sum.paramSites[i] = append(sum.paramSites[i], w.site)
			}
		}
		if g != nil && len(sum.globals[g]) < 4 {
			dup := false
			for _, o := range sum.globals[g] {
				if o.instr == w.site.instr {
					dup = true
				}
			}
			if !dup {
				if len(sum.globals[g]) == 0 {
					e.changed = true
				}
				sum.globals[g] = append(sum.globals[g], w.site)
			}
		}
	}
	// retention: a parameter's memory stored into something that is not a purely local object, or passed to a retaining callee
	for _, x := range retainsL {
		// which parameter does the stored value belong to *syntactically* (before unification)?
		src := x.val
		for i, p := range fn.Params {
			if !isPtrLike(p.Type()) {
				continue
			}
			if derivedFrom(src, p) {
				if !sum.retains[i] {
					sum.retains[i] = true
					e.changed = true
				}
				if len(sum.retainSites[i]) < 4 {
					sum.retainSites[i] = append(sum.retainSites[i], x.site)
				}
			}
		}
	}
	// results
	for _, b := range fn.Blocks {
		for _, in := range b.Instrs {
			ret, ok := in.(*ssa.Return)
			if !ok {
				continue
			}
			for k, rv := range retVals(ret) {
				if !hasContent(rv.Type()) || isConst(rv) {
					continue
				}
				i, g := classify(rv)
				if i >= 0 && sum.retAlias[k] != i {
					sum.retAlias[k] = i
					e.changed = true
				}
				if g != nil && sum.retGlobal[k] == nil {
					sum.retGlobal[k] = g
					e.changed = true
				}
			}
		}
	}
}

// derivedFrom: v is p or an address/slice/conversion derived from p without a load.
func derivedFrom(v ssa.Value, p *ssa.Parameter) bool {
	for i := 0; i < 50; i++ {
		if v == ssa.Value(p) {
			return true
		}
		switch x := v.(type) {
		case *ssa.Slice:
			v = x.X
		case *ssa.IndexAddr:
			v = x.X
		case *ssa.FieldAddr:
			v = x.X
		case *ssa.ChangeType:
			v = x.X
		case *ssa.Convert:
			v = x.X
		case *ssa.SliceToArrayPointer:
			v = x.X
		case *ssa.MakeInterface:
			v = x.X
		case *ssa.Phi:
			for _, e := range x.Edges {
				if e == ssa.Value(p) {
					return true
				}
			}
			return false
		default:
			return false
		}
	}
	return false
}

func siteChain(p *Prog, s writeSite) string {
	if s.via != "" {
		return p.FuncName(s.fn) + " (" + p.InstrPos(s.instr) + ") via " + s.via
	}
	return p.FuncName(s.fn) + " (" + p.InstrPos(s.instr) + ")"
}

// AsmMayWrite computes, per body-less function name, the parameter indices its assembler implementation may store into (engine A3).
func AsmMayWrite(u *AsmUnit, p *Prog) (map[string]map[int]bool, []string) {
	out := map[string]map[int]bool{}
	var problems []string
	pk := p.Pkgs[u.PkgRel()]
	for _, rt := range u.Routines {
		if !rt.HasDecl {
			continue
		}
		f := AnalyzeFlow(rt)
		if len(f.Errors) > 0 {
			problems = append(problems, f.Errors...)
			continue
		}
		objs, undecided := f.MayWrite()
		for _, a := range undecided {
			problems = append(problems, rt.Name+": store with undecidable target: "+a.Instr.Raw+" ("+a.Instr.Pos+") provenance "+a.Prov.String())
		}
		fn, _ := pk.Types.Scope().Lookup(rt.Name).(*types.Func)
		if fn == nil {
			continue
		}
		sig := fn.Type().(*types.Signature)
		w := map[int]bool{}
		var names []string
		for o := range objs {
			names = append(names, o)
		}
		sort.Strings(names)
		for _, o := range names {
			if !strings.HasPrefix(o, "p:") {
				if strings.HasPrefix(o, "s:") {
					problems = append(problems, rt.Name+": store into data symbol "+o[2:])
				}
				continue
			}
			pname := strings.TrimSuffix(o[2:], ".ptr")
			for i := 0; i < sig.Params().Len(); i++ {
				if sig.Params().At(i).Name() == pname {
					w[i] = true
				}
			}
		}
		out[rt.Name] = w
	}
	return out, problems
}

// directLocal: the address lies inside a local Alloc / fresh allocation itself (not behind a pointer loaded from it).
// crossesLoad: the written address is reached through a pointer-like value loaded from memory (so the write lands in an
// object that was stored into the root, not in the root object itself)
func crossesLoad(v ssa.Value) bool {
	for i := 0; i < 100; i++ {
		switch x := v.(type) {
		case *ssa.FieldAddr:
			v = x.X
		case *ssa.IndexAddr:
			v = x.X
		case *ssa.Slice:
			v = x.X
		case *ssa.ChangeType:
			v = x.X
		case *ssa.Convert:
			v = x.X
		case *ssa.SliceToArrayPointer:
			v = x.X
		case *ssa.Phi:
			for _, ed := range x.Edges {
				if ed != v && crossesLoadShallow(ed) {
					return true
				}
			}
			return false
		case *ssa.UnOp:
			if x.Op == token.MUL && hasContent(x.Type()) {
				return true
			}
			return false
		case *ssa.Field, *ssa.Index:
			return hasContent(v.Type())
		default:
			return false
		}
	}
	return false
}

func crossesLoadShallow(v ssa.Value) bool {
	for i := 0; i < 20; i++ {
		switch x := v.(type) {
		case *ssa.FieldAddr:
			v = x.X
		case *ssa.IndexAddr:
			v = x.X
		case *ssa.Slice:
			v = x.X
		case *ssa.UnOp:
			return x.Op == token.MUL && hasContent(x.Type())
		case *ssa.Call:
			// append result: look at its first argument
			if b, ok := x.Call.Value.(*ssa.Builtin); ok && b.Name() == "append" {
				v = x.Call.Args[0]
				continue
			}
			return false
		default:
			return false
		}
	}
	return false
}

// containsPointers: a struct or array value that carries pointer-like fields (copying it shares their pointees)
func containsPointers(t types.Type, depth int) bool {
	if depth > 6 {
		return false
	}
	switch tt := t.Underlying().(type) {
	case *types.Struct:
		for i := 0; i < tt.NumFields(); i++ {
			ft := tt.Field(i).Type()
			if isPtrLike(ft) || containsPointers(ft, depth+1) {
				return true
			}
		}
	case *types.Array:
		return isPtrLike(tt.Elem()) || containsPointers(tt.Elem(), depth+1)
	}
	return false
}

func directLocal(v ssa.Value) bool {
	for i := 0; i < 50; i++ {
		switch x := v.(type) {
		case *ssa.Alloc, *ssa.MakeSlice, *ssa.MakeMap, *ssa.MakeChan:
			return true
		case *ssa.FieldAddr:
			v = x.X
		case *ssa.IndexAddr:
			// indexing a slice value goes through the slice's pointer: only array pointers stay inside the object
			if _, isSlice := x.X.Type().Underlying().(*types.Slice); isSlice {
				if sl, ok := x.X.(*ssa.Slice); ok {
					v = sl.X
					continue
				}
				if ms, ok := x.X.(*ssa.MakeSlice); ok {
					_ = ms
					return true
				}
				return false
			}
			v = x.X
		case *ssa.Slice:
			v = x.X
		default:
			return false
		}
	}
	return false
}

// freshResultObligations: a function that hands out one of the mutable arithmetic objects (*SM2Point, *SM2Element,
// *SM2ScalarElement) must return either its own receiver or storage no package-level variable and no other parameter
// can reach: otherwise an in-place operation on the result silently changes shared state (or the caller's operand).
func freshResultObligations(r *Report, p *Prog, e *Effects) {
	isArith := func(t types.Type) bool {
		pt, ok := t.Underlying().(*types.Pointer)
		if !ok {
			return false
		}
		n, ok := pt.Elem().(*types.Named)
		if !ok {
			return false
		}
		switch n.Obj().Name() {
		case "SM2Point", "SM2Element", "SM2ScalarElement":
			return true
		}
		return false
	}
	for _, fn := range p.RepoFuncs() {
		sum := e.sum[fn]
		if sum == nil || len(fn.Blocks) == 0 || fn.Parent() != nil {
			continue
		}
		res := fn.Signature.Results()
		for k := 0; k < res.Len(); k++ {
			if !isArith(res.At(k).Type()) {
				continue
			}
			key := fmt.Sprintf("%s result#%d", p.FuncName(fn), k)
			pos := p.Pos(fn.Pos())
			r.Count("fresh_result_obligations", 1)
			if g := sum.retGlobal[k]; g != nil {
				r.Viol("FRESH-RESULT", key, pos, "the returned object shares storage with the package-level variable "+g.Name()+": an in-place operation on the result changes it for every other user")
				continue
			}
			if i := sum.retAlias[k]; i >= 0 && !(i == 0 && fn.Signature.Recv() != nil) && !sum.writesParam[i] {
				r.Viol("FRESH-RESULT", key, pos, "the returned object shares storage with the input parameter "+fn.Params[i].Name()+" (only the receiver or a destination the function itself fills may be returned)")
				continue
			}
			r.Ok("FRESH-RESULT", key, pos, "returns its receiver, a destination parameter it fills, or freshly allocated storage")
		}
	}
}
