package main

// Opcode semantics table for the assembler engines (A2, A3, A4). One row per opcode:
// which operands are read / written, memory operands with width and direction, flags, timing class.
// An opcode (or operand shape) without a row makes the run fail; nothing is skipped silently.

import (
	"fmt"
	"strings"
)

type MemAcc struct {
	Arg      int
	Base     string // base register ("" for a symbol-direct access)
	Sym      string
	Off      int64
	Width    int // bytes touched (for masked accesses: the unmasked width; see MaskReg/LaneSize)
	Load     bool
	Store    bool
	MaskReg  string
	LaneSize int
	PostInc  int64
	Aligned  bool   // aligned-only opcode with a memory operand
	FPSlot   bool   // access to the routine's own argument/result frame
	Index    string // index register (indexed addressing)
}

type Effect struct {
	Reads      []string
	Writes     []string
	Mem        []MemAcc
	SetsFlags  bool
	UsesFlags  bool
	Br         brKind
	ZeroIdiom  bool
	Timing     string // "" = data-independent; "operand-dependent" otherwise
	IsVec      bool
	RegOnlyTbl bool // S-box style instruction (affine / shuffle / permute / table lookup in registers)
}

var amd64VecALU3 = map[string]bool{ // (a, b, dst) or with $imm first, or merge-masked with K
	"VPXORD": true, "VPXORQ": true, "VPXOR": true, "VPANDD": true, "VPANDQ": true, "VPAND": true, "VPORD": true, "VPORQ": true, "VPOR": true, "VPANDND": true,
	"VPUNPCKLDQ": true, "VPUNPCKHDQ": true, "VPUNPCKLQDQ": true, "VPUNPCKHQDQ": true,
	"VPADDD": true, "VPADDQ": true, "VPSUBD": true, "VPSHUFB": true, "VPERMQ": true, "VPERMD": true,
	"VPROLD": true, "VPRORD": true, "VPSRLDQ": true, "VPSLLDQ": true, "VPSRLW": true, "VPSLLW": true, "VPSRLD": true, "VPSLLD": true, "VPSLLQ": true, "VPSRLQ": true,
	"VGF2P8AFFINEQB": true, "VGF2P8AFFINEINVQB": true, "VGF2P8MULB": true, "VPCLMULQDQ": true, "VALIGND": true, "VALIGNQ": true, "VPALIGNR": true,
	"VMOVDQA64": true, "VMOVDQA32": true, "VMOVAPD": true, "VMOVAPS": true, "VMOVDQA": true,
	"VPBROADCASTD": true, "VPBROADCASTQ": true, "VPBROADCASTB": true, "VBROADCASTI32X2": true, "VBROADCASTI32X4": true, "VBROADCASTI64X2": true,
	"PSHUFD": true, "PSHUFL": true, "PSHUFHW": true, "PSHUFLW": true,
	"VPTERNLOGD": true, "VPSHUFD": true, "VSHUFI32X4": true, "VSHUFI64X2": true, "VINSERTI32X4": true, "VEXTRACTI32X4": true,
}

// legacy SSE: unaligned 16-byte moves, and two-operand ALU instructions (dst = dst op src)
var amd64SSEMove = map[string]bool{"MOVOU": true, "MOVUPS": true, "MOVUPD": true}
var amd64SSE2op = map[string]bool{
	"PAND": true, "POR": true, "PANDN": true, "PADDL": true, "PADDQ": true, "PADDB": true, "PADDW": true, "PSUBL": true, "PSUBQ": true, "PSUBB": true, "PSUBW": true,
	"PSLLL": true, "PSRLL": true, "PSLLQ": true, "PSRLQ": true, "PSLLW": true, "PSRLW": true, "PSRAL": true, "PSRAW": true,
	"PUNPCKLLQ": true, "PUNPCKHLQ": true, "PUNPCKLQDQ": true, "PUNPCKHQDQ": true, "PUNPCKLBW": true, "PUNPCKHBW": true, "PUNPCKLWL": true, "PUNPCKHWL": true,
	"PCMPEQB": true, "PCMPEQL": true, "PCMPEQW": true, "PCMPGTB": true, "PCMPGTL": true, "PCMPGTW": true, "PMINUB": true, "PMAXUB": true,
	"XORPS": true, "XORPD": true, "ANDPS": true, "ANDPD": true, "ORPS": true, "ORPD": true, "ANDNPS": true, "ANDNPD": true,
	"PCLMULQDQ": true, "PALIGNR": true, "PBLENDW": true, "PSHUFB": true,
}

var amd64AlignedOnly = map[string]bool{"VMOVDQA64": true, "VMOVDQA32": true, "VMOVAPD": true, "VMOVAPS": true, "VMOVDQA": true, "MOVAPS": true, "MOVAPD": true, "MOVDQA": true, "MOVO": true}
var amd64RegOnlyTbl = map[string]bool{"PSHUFB": true, "VGF2P8AFFINEQB": true, "VGF2P8AFFINEINVQB": true, "VPSHUFB": true, "VPERMQ": true, "VPERMD": true, "VTBL": true, "TBX": true, "TBL": true}

func vecMemWidth(op string, dstWidth int) int {
	switch op {
	case "VBROADCASTI32X2":
		return 8
	case "VBROADCASTI32X4", "VBROADCASTI64X2":
		return 16
	case "VPBROADCASTD":
		return 4
	case "VPBROADCASTQ":
		return 8
	case "VPBROADCASTB":
		return 1
	}
	return dstWidth
}

func gprWidth(op string) int {
	switch op[len(op)-1] {
	case 'Q':
		return 8
	case 'L':
		return 4
	case 'W':
		return 2
	case 'B':
		return 1
	}
	return 8
}

func memOf(i int, o Operand, w int, load, store bool) MemAcc {
	m := MemAcc{Arg: i, Width: w, Load: load, Store: store}
	switch o.Kind {
	case OMem:
		m.Base, m.Off, m.Index = o.Reg, o.Off, o.Index
	case OSym:
		m.Sym, m.Off = o.Sym, o.Off
	case OFP:
		m.FPSlot = true
		m.Off = o.Off
	}
	return m
}

func isMemOp(o Operand) bool { return o.Kind == OMem || o.Kind == OSym || o.Kind == OFP }

func effectOf(arch string, in *Instr) (*Effect, error) {
	if arch == "amd64" {
		return effectAMD64(in)
	}
	return effectARM64(in)
}

func effectAMD64(in *Instr) (*Effect, error) {
	e := &Effect{}
	op := in.Op
	a := in.Args
	bad := func() (*Effect, error) {
		return nil, fmt.Errorf("no semantics row for %q (%s)", in.Raw, in.Pos)
	}
	switch op {
	case "TEXT", "FUNCDATA", "PCDATA", "NOP":
		return e, nil
	case "RET":
		e.Br = brRet
		return e, nil
	case "JMP":
		e.Br = brJmp
		return e, nil
	}
	if k := branchKind("amd64", op); k == brCond {
		e.Br = brCond
		e.UsesFlags = true
		return e, nil
	}
	// ---- vector moves with memory
	if strings.HasPrefix(op, "VMOVDQU") || amd64SSEMove[op] || (amd64AlignedOnly[op] && len(a) >= 2 && (isMemOp(a[0]) || isMemOp(a[len(a)-1]))) {
		e.IsVec = true
		lane := 4
		switch {
		case strings.HasSuffix(op, "64"), op == "VMOVAPD":
			lane = 8
		case strings.HasSuffix(op, "16"):
			lane = 2
		case strings.HasSuffix(op, "8"):
			lane = 1
		}
		if len(a) != 2 && len(a) != 3 {
			return bad()
		}
		src, dst := a[0], a[len(a)-1]
		mask := ""
		if len(a) == 3 {
			if a[1].Kind != OReg || !strings.HasPrefix(a[1].Reg, "K") {
				return bad()
			}
			mask = a[1].Reg
			e.Reads = append(e.Reads, mask)
		}
		switch {
		case isMemOp(src) && dst.Kind == OReg:
			m := memOf(0, src, dst.Width, true, false)
			m.MaskReg, m.LaneSize, m.Aligned = mask, lane, amd64AlignedOnly[op]
			e.Mem = append(e.Mem, m)
			e.Writes = append(e.Writes, dst.Reg)
			if mask != "" {
				e.Reads = append(e.Reads, dst.Reg)
			}
		case src.Kind == OReg && isMemOp(dst):
			m := memOf(len(a)-1, dst, src.Width, false, true)
			m.MaskReg, m.LaneSize, m.Aligned = mask, lane, amd64AlignedOnly[op]
			e.Mem = append(e.Mem, m)
			e.Reads = append(e.Reads, src.Reg)
		case src.Kind == OReg && dst.Kind == OReg:
			e.Reads = append(e.Reads, src.Reg)
			e.Writes = append(e.Writes, dst.Reg)
			if mask != "" {
				e.Reads = append(e.Reads, dst.Reg)
			}
		default:
			return bad()
		}
		return e, nil
	}
	if amd64VecALU3[op] || amd64SSE2op[op] || op == "PSLLO" || op == "PSRLO" || op == "PXOR" {
		e.IsVec = true
		e.RegOnlyTbl = amd64RegOnlyTbl[op]
		if len(a) < 2 {
			return bad()
		}
		dst := a[len(a)-1]
		if dst.Kind != OReg {
			return bad()
		}
		e.Writes = append(e.Writes, dst.Reg)
		merge := false
		allSame := true
		nsrc := 0
		for i, o := range a[:len(a)-1] {
			switch o.Kind {
			case OImm:
			case OReg:
				e.Reads = append(e.Reads, o.Reg)
				if strings.HasPrefix(o.Reg, "K") {
					merge = true
				} else {
					nsrc++
					if o.Reg != dst.Reg {
						allSame = false
					}
				}
			case OMem, OSym:
				m := memOf(i, o, vecMemWidth(op, dst.Width), true, false)
				m.Aligned = amd64AlignedOnly[op]
				e.Mem = append(e.Mem, m)
				allSame = false
			default:
				return bad()
			}
		}
		if merge || amd64SSE2op[op] || op == "PSLLO" || op == "PSRLO" || op == "PXOR" || op == "VPTERNLOGD" {
			e.Reads = append(e.Reads, dst.Reg)
		}
		if (op == "VPXORD" || op == "VPXORQ" || op == "VPXOR" || op == "PXOR" || op == "VPSUBD" || op == "XORPS" || op == "XORPD" || op == "PSUBL" || op == "PSUBQ") && allSame && nsrc >= 1 && !merge {
			e.ZeroIdiom = true
		}
		return e, nil
	}
	switch op {
	case "VPEXTRD", "VPEXTRQ", "VPEXTRB", "VPEXTRW", "PEXTRD", "PEXTRQ", "PEXTRB", "PEXTRW", "VMOVQ", "VMOVD", "VPINSRD", "VPINSRQ", "VPINSRB", "VPINSRW", "PINSRD", "PINSRQ", "VPMOVMSKB", "PMOVMSKB", "VMOVMSKPS", "VMOVMSKPD":
		// lane moves between vector and general registers / memory
		e.IsVec = true
		if len(a) < 2 {
			return bad()
		}
		dst := a[len(a)-1]
		w := map[byte]int{'D': 4, 'Q': 8, 'B': 1, 'W': 2}[op[len(op)-1]]
		if w == 0 {
			w = 8
		}
		for i, o := range a[:len(a)-1] {
			switch o.Kind {
			case OImm:
			case OReg:
				e.Reads = append(e.Reads, o.Reg)
			case OMem, OSym:
				e.Mem = append(e.Mem, memOf(i, o, w, true, false))
			default:
				return bad()
			}
		}
		switch dst.Kind {
		case OReg:
			e.Writes = append(e.Writes, dst.Reg)
			// the legacy two-operand insert keeps the other lanes of its destination; the VEX form with a separate source
			// vector (VPINSRQ $i, r, Vsrc, Vdst) takes them from Vsrc and only writes Vdst
			if strings.Contains(op, "INSR") && !(strings.HasPrefix(op, "V") && len(a) == 4) {
				e.Reads = append(e.Reads, dst.Reg)
			}
		case OMem, OSym:
			e.Mem = append(e.Mem, memOf(len(a)-1, dst, w, false, true))
		default:
			return bad()
		}
		return e, nil
	case "VPTEST", "PTEST", "VTESTPS", "VTESTPD", "KORTESTW", "KORTESTB", "KORTESTQ", "KORTESTD", "KTESTW", "KTESTB", "KTESTQ", "KTESTD", "VCOMISD", "VCOMISS", "VUCOMISD", "VUCOMISS":
		e.IsVec = true
		e.SetsFlags = true
		for i, o := range a {
			switch o.Kind {
			case OReg:
				e.Reads = append(e.Reads, o.Reg)
			case OMem, OSym:
				e.Mem = append(e.Mem, memOf(i, o, 16, true, false))
			default:
				return bad()
			}
		}
		return e, nil
	case "VPCMPEQB", "VPCMPEQD", "VPCMPEQQ", "VPCMPEQW", "VPCMPUB", "VPCMPUD", "VPCMPD", "VPCMPB", "VPTESTMB", "VPTESTMD", "VPTESTNMB", "VPTESTNMD":
		e.IsVec = true
		if len(a) < 3 || a[len(a)-1].Kind != OReg {
			return bad()
		}
		for i, o := range a[:len(a)-1] {
			switch o.Kind {
			case OImm:
			case OReg:
				e.Reads = append(e.Reads, o.Reg)
			case OMem, OSym:
				e.Mem = append(e.Mem, memOf(i, o, 16, true, false))
			default:
				return bad()
			}
		}
		e.Writes = append(e.Writes, a[len(a)-1].Reg)
		return e, nil
	case "SETEQ", "SETNE", "SETLT", "SETGT", "SETLE", "SETGE", "SETCS", "SETCC", "SETHI", "SETLS", "SETMI", "SETPL":
		e.UsesFlags = true
		if len(a) != 1 {
			return bad()
		}
		if a[0].Kind == OReg {
			e.Writes = append(e.Writes, a[0].Reg)
		} else if isMemOp(a[0]) {
			e.Mem = append(e.Mem, memOf(0, a[0], 1, false, true))
		} else {
			return bad()
		}
		return e, nil
	case "CMOVQEQ", "CMOVQNE", "CMOVQLT", "CMOVQGT", "CMOVQLE", "CMOVQGE", "CMOVQCS", "CMOVQCC", "CMOVQHI", "CMOVQLS", "CMOVLEQ", "CMOVLNE", "CMOVLLT", "CMOVLGT", "CMOVLCS", "CMOVLCC", "CMOVLHI", "CMOVLLS":
		e.UsesFlags = true
		if len(a) != 2 || a[1].Kind != OReg {
			return bad()
		}
		switch a[0].Kind {
		case OReg:
			e.Reads = append(e.Reads, a[0].Reg)
		case OMem, OSym, OFP:
			e.Mem = append(e.Mem, memOf(0, a[0], 8, true, false))
		default:
			return bad()
		}
		e.Reads = append(e.Reads, a[1].Reg)
		e.Writes = append(e.Writes, a[1].Reg)
		return e, nil
	case "ADCQ", "SBBQ", "ADCL", "SBBL":
		e.UsesFlags, e.SetsFlags = true, true
		if len(a) != 2 || a[1].Kind != OReg {
			return bad()
		}
		switch a[0].Kind {
		case OImm:
		case OReg:
			e.Reads = append(e.Reads, a[0].Reg)
		case OMem, OSym, OFP:
			e.Mem = append(e.Mem, memOf(0, a[0], gprWidth(op), true, false))
		default:
			return bad()
		}
		e.Reads = append(e.Reads, a[1].Reg)
		e.Writes = append(e.Writes, a[1].Reg)
		return e, nil
	case "BTQ", "BTL":
		e.SetsFlags = true
		for _, o := range a {
			if o.Kind == OReg {
				e.Reads = append(e.Reads, o.Reg)
			} else if o.Kind != OImm {
				return bad()
			}
		}
		return e, nil
	case "VZEROUPPER", "VZEROALL":
		return e, nil
	case "KMOVW", "KMOVQ", "KMOVD", "KMOVB":
		if len(a) != 2 || a[0].Kind != OReg || a[1].Kind != OReg {
			return bad()
		}
		e.Reads, e.Writes = []string{a[0].Reg}, []string{a[1].Reg}
		return e, nil
	case "MOVQ", "MOVL", "MOVW", "MOVB", "MOVD", "MOVBQZX", "MOVWQZX", "MOVLQZX", "MOVBLZX", "MOVWLZX", "MOVBWZX", "MOVBQSX", "MOVWQSX", "MOVLQSX", "MOVBLSX", "MOVWLSX", "MOVBWSX":
		if len(a) != 2 {
			return bad()
		}
		w := gprWidth(op)
		if op == "MOVD" {
			w = 8
		}
		if strings.HasSuffix(op, "ZX") || strings.HasSuffix(op, "SX") {
			w = map[byte]int{'B': 1, 'W': 2, 'L': 4}[op[3]] // the source width; the whole destination register is written
		}
		src, dst := a[0], a[1]
		switch src.Kind {
		case OImm, OSymAddr:
		case OReg:
			e.Reads = append(e.Reads, src.Reg)
		case OMem, OSym, OFP:
			e.Mem = append(e.Mem, memOf(0, src, w, true, false))
		default:
			return bad()
		}
		switch dst.Kind {
		case OReg:
			e.Writes = append(e.Writes, dst.Reg)
			if w < 4 && !strings.HasSuffix(op, "ZX") && !strings.HasSuffix(op, "SX") && !strings.HasPrefix(dst.Reg, "V") {
				e.Reads = append(e.Reads, dst.Reg) // partial register write keeps the upper bits
			}
		case OMem, OSym, OFP:
			if isMemOp(src) {
				return bad()
			}
			e.Mem = append(e.Mem, memOf(1, dst, w, false, true))
		default:
			return bad()
		}
		return e, nil
	case "LEAQ", "LEAL":
		if len(a) != 2 || a[1].Kind != OReg {
			return bad()
		}
		if a[0].Kind == OMem {
			e.Reads = append(e.Reads, a[0].Reg)
			if a[0].Index != "" {
				e.Reads = append(e.Reads, a[0].Index)
			}
		} else if a[0].Kind != OSym {
			return bad()
		}
		e.Writes = append(e.Writes, a[1].Reg)
		return e, nil
	case "ADDQ", "SUBQ", "ANDQ", "ORQ", "XORQ", "SHLQ", "SHRQ", "SARQ", "ADDL", "SUBL", "ANDL", "ORL", "XORL", "SHLL", "SHRL", "ORB", "XORB", "ANDB", "ADDB", "SUBB", "ORW", "XORW", "ANDW", "INCQ", "DECQ", "NEGQ", "NOTQ", "ROLQ", "RORQ", "ROLL", "RORL", "BSWAPQ", "BSWAPL", "IMULQ":
		e.SetsFlags = op != "NOTQ" && op != "BSWAPQ" && op != "BSWAPL"
		w := gprWidth(op)
		if len(a) == 1 {
			a = []Operand{{Kind: OImm}, a[0]}
		}
		if len(a) != 2 {
			return bad()
		}
		src, dst := a[0], a[1]
		switch src.Kind {
		case OImm:
		case OReg:
			e.Reads = append(e.Reads, src.Reg)
		case OMem, OSym, OFP:
			e.Mem = append(e.Mem, memOf(0, src, w, true, false))
		default:
			return bad()
		}
		switch dst.Kind {
		case OReg:
			e.Reads = append(e.Reads, dst.Reg)
			e.Writes = append(e.Writes, dst.Reg)
			if (op == "XORQ" || op == "XORL" || op == "SUBQ" || op == "SUBL") && src.Kind == OReg && src.Reg == dst.Reg {
				e.ZeroIdiom = true
			}
		case OMem, OSym, OFP:
			if isMemOp(src) {
				return bad()
			}
			e.Mem = append(e.Mem, memOf(1, dst, w, true, true)) // read-modify-write
		default:
			return bad()
		}
		return e, nil
	case "CMPQ", "CMPL", "CMPW", "CMPB", "TESTQ", "TESTL", "TESTB", "TESTW":
		e.SetsFlags = true
		w := gprWidth(op)
		if len(a) != 2 {
			return bad()
		}
		for i, o := range a {
			switch o.Kind {
			case OImm:
			case OReg:
				e.Reads = append(e.Reads, o.Reg)
			case OMem, OSym, OFP:
				e.Mem = append(e.Mem, memOf(i, o, w, true, false))
			default:
				return bad()
			}
		}
		return e, nil
	case "DIVQ", "IDIVQ", "DIVL", "IDIVL":
		e.Timing = "operand-dependent"
		e.SetsFlags = true
		e.Reads = []string{"AX", "DX"}
		e.Writes = []string{"AX", "DX"}
		for i, o := range a {
			if o.Kind == OReg {
				e.Reads = append(e.Reads, o.Reg)
			} else if isMemOp(o) {
				e.Mem = append(e.Mem, memOf(i, o, gprWidth(op), true, false))
			}
		}
		return e, nil
	}
	// register-only AVX/AVX-512 instructions not named above: sources first, destination last, no implicit operands
	if strings.HasPrefix(op, "V") && len(a) >= 2 && a[len(a)-1].Kind == OReg {
		e.IsVec = true
		regOnly := true
		for _, o := range a {
			if o.Kind != OReg && o.Kind != OImm {
				regOnly = false
			}
		}
		if regOnly {
			for _, o := range a[:len(a)-1] {
				if o.Kind == OReg {
					e.Reads = append(e.Reads, o.Reg)
				}
			}
			d := a[len(a)-1].Reg
			e.Reads = append(e.Reads, d)
			e.Writes = append(e.Writes, d)
			return e, nil
		}
	}
	return bad()
}

// decodeTBX decodes a hand-encoded arm64 TBL/TBX word.
func decodeTBX(w uint32) (isTbx bool, q bool, rd, rn, rm, nregs int, ok bool) {
	if w&0xBFE08C00 != 0x0E000000 {
		return
	}
	q = w&(1<<30) != 0
	isTbx = w&(1<<12) != 0
	rm = int(w>>16) & 31
	nregs = int(w>>13)&3 + 1
	rn = int(w>>5) & 31
	rd = int(w) & 31
	ok = true
	return
}

var arm64VecALU = map[string]bool{
	"VEOR": true, "VAND": true, "VORR": true, "VADD": true, "VSUB": true, "VSHL": true, "VSRI": true, "VSLI": true, "VUSHR": true, "VTBL": true, "VTBX": true, "VDUP": true,
	"VREV32": true, "VREV64": true, "VREV16": true, "VEXT": true, "VMOV": true, "VPMULL": true, "VPMULL2": true, "VRBIT": true, "VMOVI": true, "VZIP1": true, "VZIP2": true,
	"VUZP1": true, "VUZP2": true, "VTRN1": true, "VTRN2": true, "VBIT": true, "VBSL": true, "VCNT": true,
}

func effectARM64(in *Instr) (*Effect, error) {
	e := &Effect{}
	op := in.Op
	a := in.Args
	bad := func() (*Effect, error) {
		return nil, fmt.Errorf("no semantics row for %q (%s)", in.Raw, in.Pos)
	}
	switch op {
	case "TEXT", "FUNCDATA", "PCDATA", "NOP", "NOOP":
		return e, nil
	case "RET":
		e.Br = brRet
		return e, nil
	case "JMP", "B":
		e.Br = brJmp
		return e, nil
	case "WORD":
		if len(a) != 1 || a[0].Kind != OImm {
			return bad()
		}
		isTbx, q, rd, rn, rm, n, ok := decodeTBX(uint32(a[0].Imm))
		if !ok || !q {
			return nil, fmt.Errorf("WORD $%#x at %s does not decode as a 128-bit TBL/TBX (the only hand-encoded instruction accepted)", a[0].Imm, in.Pos)
		}
		e.IsVec, e.RegOnlyTbl = true, true
		for i := 0; i < n; i++ {
			e.Reads = append(e.Reads, fmt.Sprintf("V%d", (rn+i)%32))
		}
		e.Reads = append(e.Reads, fmt.Sprintf("V%d", rm))
		d := fmt.Sprintf("V%d", rd)
		if isTbx {
			e.Reads = append(e.Reads, d)
		}
		e.Writes = append(e.Writes, d)
		return e, nil
	}
	if k := branchKind("arm64", op); k == brCond {
		e.Br = brCond
		e.UsesFlags = true
		if op == "CBZ" || op == "CBNZ" || op == "TBZ" || op == "TBNZ" {
			e.UsesFlags = false
			for _, o := range a {
				if o.Kind == OReg {
					e.Reads = append(e.Reads, o.Reg)
				}
			}
		}
		return e, nil
	}
	base := strings.TrimSuffix(op, ".P")
	post := strings.HasSuffix(op, ".P")
	switch base {
	case "VLD1", "VLD2", "VLD3", "VLD4", "VLD1R":
		e.IsVec = true
		if len(a) != 2 || a[0].Kind != OMem {
			return bad()
		}
		var w int
		switch a[1].Kind {
		case ORegList:
			w = a[1].Width
			e.Writes = append(e.Writes, a[1].Regs...)
		case OReg:
			w = a[1].Width
			e.Writes = append(e.Writes, a[1].Reg)
			if strings.Contains(a[1].Arr, "[") {
				e.Reads = append(e.Reads, a[1].Reg)
			}
		default:
			return bad()
		}
		m := MemAcc{Arg: 0, Base: a[0].Reg, Width: w, Load: true}
		if post {
			m.PostInc = a[0].Off
			e.Reads = append(e.Reads, a[0].Reg)
			e.Writes = append(e.Writes, a[0].Reg)
		} else {
			m.Off = a[0].Off
		}
		e.Mem = append(e.Mem, m)
		return e, nil
	case "VST1", "VST2", "VST3", "VST4":
		e.IsVec = true
		if len(a) != 2 || a[1].Kind != OMem {
			return bad()
		}
		var w int
		switch a[0].Kind {
		case ORegList:
			w = a[0].Width
			e.Reads = append(e.Reads, a[0].Regs...)
		case OReg:
			w = a[0].Width
			e.Reads = append(e.Reads, a[0].Reg)
		default:
			return bad()
		}
		m := MemAcc{Arg: 1, Base: a[1].Reg, Width: w, Store: true}
		if post {
			m.PostInc = a[1].Off
			e.Reads = append(e.Reads, a[1].Reg)
			e.Writes = append(e.Writes, a[1].Reg)
		} else {
			m.Off = a[1].Off
		}
		e.Mem = append(e.Mem, m)
		return e, nil
	}
	if arm64VecALU[op] {
		e.IsVec = true
		e.RegOnlyTbl = op == "VTBL" || op == "VTBX"
		if len(a) < 2 {
			return bad()
		}
		dst := a[len(a)-1]
		if dst.Kind != OReg {
			return bad()
		}
		e.Writes = append(e.Writes, dst.Reg)
		allSame := true
		for _, o := range a[:len(a)-1] {
			switch o.Kind {
			case OImm:
			case OReg:
				e.Reads = append(e.Reads, o.Reg)
				if o.Reg != dst.Reg {
					allSame = false
				}
			case ORegList:
				e.Reads = append(e.Reads, o.Regs...)
				allSame = false
			default:
				return bad() // no memory operands on NEON ALU instructions
			}
		}
		if op == "VSRI" || op == "VSLI" || op == "VTBX" || op == "VBIT" || op == "VBSL" || strings.Contains(dst.Arr, "[") {
			e.Reads = append(e.Reads, dst.Reg)
		}
		if op == "VEOR" && allSame && len(a) == 3 {
			e.ZeroIdiom = true
		}
		return e, nil
	}
	switch op {
	case "MOVD", "MOVW", "MOVWU", "MOVH", "MOVHU", "MOVB", "MOVBU":
		if len(a) != 2 {
			return bad()
		}
		w := map[string]int{"MOVD": 8, "MOVW": 4, "MOVWU": 4, "MOVH": 2, "MOVHU": 2, "MOVB": 1, "MOVBU": 1}[op]
		src, dst := a[0], a[1]
		switch src.Kind {
		case OImm, OSymAddr:
		case OReg:
			e.Reads = append(e.Reads, src.Reg)
		case OMem, OSym, OFP:
			e.Mem = append(e.Mem, memOf(0, src, w, true, false))
		default:
			return bad()
		}
		switch dst.Kind {
		case OReg:
			e.Writes = append(e.Writes, dst.Reg)
		case OMem, OSym, OFP:
			if isMemOp(src) {
				return bad()
			}
			e.Mem = append(e.Mem, memOf(1, dst, w, false, true))
		default:
			return bad()
		}
		return e, nil
	case "ADD", "SUB", "AND", "ORR", "EOR", "LSL", "LSR", "ASR", "ADDS", "SUBS", "ANDS", "MUL", "NEG":
		e.SetsFlags = strings.HasSuffix(op, "S") && op != "LSL"
		if len(a) < 2 || len(a) > 3 {
			return bad()
		}
		dst := a[len(a)-1]
		if dst.Kind != OReg {
			return bad()
		}
		for _, o := range a[:len(a)-1] {
			switch o.Kind {
			case OImm:
			case OReg:
				e.Reads = append(e.Reads, o.Reg)
			default:
				return bad()
			}
		}
		if len(a) == 2 {
			e.Reads = append(e.Reads, dst.Reg)
		}
		e.Writes = append(e.Writes, dst.Reg)
		return e, nil
	case "CMP", "CMN", "TST", "CMPW":
		e.SetsFlags = true
		for _, o := range a {
			switch o.Kind {
			case OImm:
			case OReg:
				e.Reads = append(e.Reads, o.Reg)
			default:
				return bad()
			}
		}
		return e, nil
	case "UDIV", "SDIV":
		e.Timing = "operand-dependent"
		for _, o := range a {
			if o.Kind == OReg {
				e.Reads = append(e.Reads, o.Reg)
			}
		}
		e.Writes = append(e.Writes, a[len(a)-1].Reg)
		return e, nil
	}
	return bad()
}
