package main

// Constant propagation through input-free initialisers: a package-level table that is not written as a literal but as a
// call of a function without parameters (var ck = makeCK()) has exactly one value; it is obtained by interpreting the
// function in the state-set interpreter of sched.go with every operand concrete (constants, loop counters with constant
// bounds, elements of package-level literal tables). Anything that is not concrete makes the evaluation fail, and the
// table is then reported as not decidable.

import (
	"fmt"
	"go/types"
	"math/big"
	"strings"

	"golang.org/x/tools/go/ssa"
)

// litToHeap builds the heap object for a literal tree; returns the id of the array
func litToHeap(e *sched, st *sState, n *litNode) (int, error) {
	id := e.newID()
	arr := &hArray{elems: make([]sVal, len(n.kids))}
	for i, k := range n.kids {
		if k.leaf != nil {
			arr.elems[i] = sInt{new(big.Int).Set(k.leaf)}
			continue
		}
		return 0, fmt.Errorf("nested literal tables are not supported as operands of an initialiser")
	}
	st.heap[id] = arr
	return id, nil
}

// heapToLit reads an array value back as a literal tree
func heapToLit(st *sState, v sVal, depth int) (*litNode, error) {
	if depth > 4 {
		return nil, fmt.Errorf("value too deeply nested")
	}
	switch x := v.(type) {
	case sInt:
		return &litNode{leaf: new(big.Int).Set(x.v)}, nil
	case sPtr:
		if x.idx != -1 {
			return nil, fmt.Errorf("pointer into an array, not an array")
		}
		arr, ok := st.heap[x.id].(*hArray)
		if !ok {
			return nil, fmt.Errorf("not an array")
		}
		n := &litNode{}
		for _, el := range arr.elems {
			k, err := heapToLit(st, el, depth+1)
			if err != nil {
				return nil, err
			}
			n.kids = append(n.kids, k)
		}
		return n, nil
	case sStruct:
		n := &litNode{}
		for _, el := range x.f {
			k, err := heapToLit(st, el, depth+1)
			if err != nil {
				return nil, err
			}
			n.kids = append(n.kids, k)
		}
		return n, nil
	case *hArray:
		n := &litNode{}
		for _, el := range x.elems {
			k, err := heapToLit(st, el, depth+1)
			if err != nil {
				return nil, err
			}
			n.kids = append(n.kids, k)
		}
		return n, nil
	}
	return nil, fmt.Errorf("initialiser yields %T (%v), not a concrete integer or array", v, v)
}

// constEvalCall evaluates fn() (no parameters); one literal tree per result
func constEvalCall(p *Prog, f *Folder, fn *ssa.Function) ([]*litNode, error) {
	if len(fn.Params) != 0 || len(fn.Blocks) == 0 {
		return nil, fmt.Errorf("%s is not an input-free function with a body", fn.Name())
	}
	e := newSched(p, map[string]*tabSem{})
	e.globals = map[string]sVal{}
	st := newSState()
	// literal package-level tables the function (or what it calls) reads
	seen := map[*ssa.Function]bool{}
	var visit func(g *ssa.Function) error
	visit = func(g *ssa.Function) error {
		if seen[g] || len(g.Blocks) == 0 {
			return nil
		}
		seen[g] = true
		for _, b := range g.Blocks {
			for _, in := range b.Instrs {
				for _, op := range in.Operands(nil) {
					if op == nil || *op == nil {
						continue
					}
					switch x := (*op).(type) {
					case *ssa.Global:
						if _, done := e.globals[x.Name()]; done || x.Pkg == nil || !strings.HasPrefix(x.Pkg.Pkg.Path(), modPath) {
							continue
						}
						tree, err := f.TableByName(shortPkg(x.Pkg.Pkg.Path()), x.Name())
						if err != nil {
							return fmt.Errorf("%s reads %s, which is not a literal table (%v)", g.Name(), x.Name(), err)
						}
						id, err := litToHeap(e, st, tree)
						if err != nil {
							return err
						}
						e.globals[x.Name()] = sPtr{id, -1}
					case *ssa.Function:
						if isRepoFunc(x) {
							if err := visit(x); err != nil {
								return err
							}
						}
					}
				}
			}
		}
		return nil
	}
	if err := visit(fn); err != nil {
		return nil, err
	}
	var rets []schedRet
	func() {
		defer func() {
			if x := recover(); x != nil {
				e.fail("analysis panic: %v", x)
			}
		}()
		rets = e.runFunc(fn, st, nil)
	}()
	if len(e.errs) > 0 || len(e.panics) > 0 {
		return nil, fmt.Errorf("%s cannot be evaluated as a constant: %s", fn.Name(), strings.Join(append(append([]string{}, e.errs...), e.panics...), "; "))
	}
	if len(rets) != 1 {
		return nil, fmt.Errorf("%s: %d return states (the value is not a single constant)", fn.Name(), len(rets))
	}
	var out []*litNode
	nres := fn.Signature.Results().Len()
	vals := rets[0].vals
	if nres > 1 && len(vals) == 1 {
		if tup, ok := vals[0].([]sVal); ok {
			vals = tup
		}
	}
	if len(vals) != nres {
		return nil, fmt.Errorf("%s: %d values for %d results", fn.Name(), len(vals), nres)
	}
	for i, v := range vals {
		n, err := heapToLit(rets[0].st, v, 0)
		if err != nil {
			return nil, fmt.Errorf("%s result %d: %v", fn.Name(), i, err)
		}
		n.pos = fn.Pos()
		out = append(out, n)
		_ = types.Typ
	}
	return out, nil
}

func debugConstEval(args []string) {
	repo := "/repo"
	if v := osGetenv("SMGO_REPO"); v != "" {
		repo = v
	}
	p, err := LoadRepo(repo, "amd64")
	if err != nil {
		fmt.Println(err)
		return
	}
	f := NewFolder(p)
	for _, name := range args {
		fn := p.Func(name)
		if fn == nil {
			fmt.Println("no function", name)
			continue
		}
		trees, err := constEvalCall(p, f, fn)
		if err != nil {
			fmt.Println("ERR", err)
			continue
		}
		for i, t := range trees {
			fmt.Printf("%s result %d: %d elements", name, i, len(t.kids))
			for j := 0; j < 4 && j < len(t.kids); j++ {
				if t.kids[j].leaf != nil {
					fmt.Printf(" %#x", t.kids[j].leaf)
				}
			}
			fmt.Println()
		}
	}
}
