package main

func checkC09Glue(c *Ctx, r *Report)        {}
func asmPositiveControls(c *Ctx, r *Report) {}

func c16More(c *Ctx, r *Report, p *Prog, f *Folder, P, N interface{}) {}

func c15More(c *Ctx, r *Report, p *Prog, f *Folder) {}

func taintPositiveControls(c *Ctx, r *Report) {}
