package main

func checkC09Glue(c *Ctx, r *Report)        {}
func asmPositiveControls(c *Ctx, r *Report) {}
