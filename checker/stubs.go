package main

import "math/big"

func c16More(c *Ctx, r *Report, p *Prog, f *Folder, P, N interface{}) {
	// (b) canonical decode: inventories of both SetBytes (bound folded to p-1 resp. n-1) and of the point decoder
	protoDecoders(r, p)
	// (g) range and algebra of the generated Montgomery primitives
	c16NoWrap(r, p)
	c16Algebra(r, p, P.(*big.Int), N.(*big.Int))
}

func c15More(c *Ctx, r *Report, p *Prog, f *Folder) {
	// (b) strict decoding: inventory of (*SM2Point).SetBytes and of the coordinate decoder
	protoDecoders(r, p)
}
