package main

import (
	"fmt"
	"go/token"
	"go/types"
	"math/big"
	"strings"

	"golang.org/x/tools/go/ssa"
)

type pByteRef struct {
	t   *pt
	idx int
}

// byteTerm: byte idx of a byte string as an integer term (constant when the string is a literal / concatenation)
func byteTerm(t *pt, idx int) *pt {
	switch t.op {
	case "lit":
		if idx < t.k {
			var b byte
			fmt.Sscanf(t.s[2*idx:2*idx+2], "%02x", &b)
			return pC(int64(b))
		}
	case "sub":
		return byteTerm(t.args[0], t.k+idx)
	case "cat":
		at := 0
		for _, a := range t.args {
			l := pLen(a)
			if l < 0 {
				break
			}
			if idx < at+l {
				return byteTerm(a, idx-at)
			}
			at += l
		}
	}
	return &pt{op: "byte", args: []*pt{t}, k: idx}
}

// sPadSlice: buf[K-len(minbe(v)):] of a zeroed K-byte local array (the left-padding idiom)
type sPadSlice struct {
	id  int
	k   int
	v   *pt
	src *pt // the byte string whose length positions the window (nil: minbe(v))
}

// nilCompare: error values, objects and the random source compared with nil
func (d *protoDom) nilCompare(x *ssa.BinOp, a, b sVal) (sVal, bool) {
	if x.Op != token.EQL && x.Op != token.NEQ {
		return nil, false
	}
	other := a
	if _, ok := a.(sNil); ok {
		other = b
	} else if _, ok := b.(sNil); !ok {
		return nil, false
	}
	switch v := other.(type) {
	case pErr:
		return sBool{v.nonnil == (x.Op == token.NEQ)}, true
	case pObj, pBytes, sPadSlice, gPtr, gArr, gRecv, gCipher:
		return sBool{x.Op == token.NEQ}, true
	case pReader:
		c := pCond{raw: "rand==nil"}
		if x.Op == token.NEQ {
			c.neg = true
		}
		return c, true
	case sNil:
		return sBool{x.Op == token.EQL}, true
	}
	return nil, false
}

// sliceTerm: t[lo:hi] of a byte-string term
func (d *protoDom) sliceTerm(st *sState, t *pt, lo, hi int) (*pt, bool) {
	n := d.lenOf(st, t)
	if hi < 0 {
		if n < 0 {
			return nil, false
		}
		hi = n
	}
	if lo == 0 && hi == n {
		return t, true
	}
	if t.op == "cat" {
		// select whole parts when the bounds fall on part boundaries
		at := 0
		var parts []*pt
		for _, a := range t.args {
			l := d.lenOf(st, a)
			if l < 0 {
				return pSub(t, lo, hi), true
			}
			if at >= lo && at+l <= hi {
				parts = append(parts, a)
			} else if at < hi && at+l > lo {
				// partial overlap
				s, e := lo-at, hi-at
				if s < 0 {
					s = 0
				}
				if e > l {
					e = l
				}
				parts = append(parts, pSub(a, s, e))
			}
			at += l
		}
		if len(parts) == 1 {
			return parts[0], true
		}
		return pOp("cat", parts...), true
	}
	return pSub(t, lo, hi), true
}

// protoStep handles the instructions whose operands are protocol values; returns true when handled
func (d *protoDom) step(st *sState, in ssa.Instruction) bool {
	e := d.e
	if d.glue && d.glueStep(st, in) {
		return true
	}
	switch x := in.(type) {
	case *ssa.Store:
		// a field element held by value (returned by a helper, or assigned): the destination object takes the content
		if dst, ok := e.get(st, x.Addr).(pObj); ok {
			if src, ok := e.get(st, x.Val).(pObj); ok {
				hd, hs := d.obj(st, dst), d.obj(st, src)
				if hd != nil && hs != nil && hd.kind == hs.kind && (hd.kind == "elem" || hd.kind == "scalar") {
					cp := *hs
					d.setObj(st, dst, &cp)
					return true
				}
			}
		}
	case *ssa.Alloc:
		elemT := x.Type().Underlying().(*types.Pointer).Elem()
		// a local array of field elements / scalars / big integers: one object per element
		if at, ok := elemT.Underlying().(*types.Array); ok && at.Len() <= 64 && !isPointerType(at.Elem()) {
			if k := allocKind(at.Elem()); k == "elem" || k == "scalar" || k == "big" {
				id := e.newID()
				arr := &hArray{elems: make([]sVal, at.Len())}
				for i := range arr.elems {
					arr.elems[i] = d.newObj(st, k, pC(0))
				}
				st.heap[id] = arr
				st.vals[x] = sPtr{id, -1}
				return true
			}
		}
		if k := allocKind(elemT); k != "" && !(k == "point" && d.structPoints) {
			var t *pt
			if k == "big" || k == "elem" || k == "scalar" {
				t = pC(0)
			}
			st.vals[x] = d.newObj(st, k, t)
			return true
		}
	case *ssa.MakeSlice:
		if n, ok := constOf(e.get(st, x.Len)); ok && n.IsInt64() && n.Int64() >= 0 && n.Int64() <= 4096 {
			id := e.newID()
			arr := &hArray{elems: make([]sVal, n.Int64())}
			for i := range arr.elems {
				arr.elems[i] = sInt{big.NewInt(0)}
			}
			st.heap[id] = arr
			st.vals[x] = sSlice{id, 0, int(n.Int64())}
			return true
		}
	case *ssa.Slice:
		a := e.get(st, x.X)
		bound := func(v ssa.Value) (int, *pt, bool) {
			if v == nil {
				return -1, nil, true
			}
			val := e.get(st, v)
			if c, ok := constOf(val); ok {
				return int(c.Int64()), nil, true
			}
			if p, ok := val.(pInt); ok {
				return 0, p.t, true
			}
			return 0, nil, false
		}
		lo, loT, ok1 := bound(x.Low)
		hi, hiT, ok2 := bound(x.High)
		if !ok1 || !ok2 {
			return false
		}
		if pb, ok := a.(pBytes); ok && loT == nil && hiT == nil {
			if lo < 0 {
				lo = 0
			}
			if t, ok := d.sliceTerm(st, pb.t, lo, hi); ok {
				st.vals[x] = pBytes{t}
				return true
			}
			e.fail("slice of a byte string of unknown length at %s", e.p.InstrPos(x))
			st.vals[x] = sOpaque{"slice"}
			return true
		}
		// local array with a symbolic bound
		if p, ok := a.(sPtr); ok && p.idx == -1 && (loT != nil || hiT != nil) {
			arr, ok := st.heap[p.id].(*hArray)
			if !ok {
				return false
			}
			allZero := true
			for _, c := range arr.elems {
				if ci, ok := c.(sInt); !ok || ci.v.Sign() != 0 {
					allZero = false
				}
			}
			if loT != nil && hiT == nil && hi < 0 {
				// buf[K-len(minbe(v)):]
				if v := padPattern(loT, len(arr.elems)); v != nil && allZero {
					st.vals[x] = sPadSlice{p.id, len(arr.elems), v, nil}
					return true
				}
				// buf[K-len(x):] for any byte string x of at most K bytes (longer: the slice expression panics)
				if src := padPatternBytes(loT, len(arr.elems)); src != nil && allZero {
					d.need(st, pOp("len", src), token.LEQ, pC(int64(len(arr.elems))), fmt.Sprintf("buf[%d-len(x):] needs len(x) <= %d", len(arr.elems), len(arr.elems)), e.p.InstrPos(x))
					st.vals[x] = sPadSlice{p.id, len(arr.elems), pVal(src), src}
					return true
				}
			}
			if loT == nil && lo <= 0 && hiT != nil && allZero {
				// zero[:len(x)]
				st.vals[x] = pBytes{pOp("zeros", hiT)}
				return true
			}
			e.fail("slice with a symbolic bound at %s that is not a recognised idiom", e.p.InstrPos(x))
			st.vals[x] = sOpaque{"slice"}
			return true
		}
	case *ssa.Convert:
		a := e.get(st, x.X)
		if bc, ok := a.(byteCell); ok {
			// a byte widened to an integer type: its value as an integer term
			if w, _ := typeBits(x.Type()); w > 8 {
				if bc.src.op == "lsb" {
					st.vals[x] = pInt{&pt{op: "trunc", args: []*pt{&pt{op: "shr", args: []*pt{bc.src.args[0]}, n: big.NewInt(int64(8 * bc.idx))}}, k: 8}}
				} else {
					st.vals[x] = pInt{byteTerm(bc.src, bc.idx)}
				}
				return true
			}
		}
		if p, ok := a.(pInt); ok {
			w, signed := typeBits(x.Type())
			if w == 8 && !signed {
				// byte(v >> 8j): byte j (from the least significant end) of v
				v, j := p.t, 0
				if p.t.op == "shr" {
					v, j = p.t.args[0], int(p.t.n.Int64())/8
				}
				st.vals[x] = byteCell{src: pOp("lsb", v), idx: j}
				return true
			}
			if w > 0 && w < 64 {
				lim := &pt{op: "c", n: new(big.Int).Lsh(big.NewInt(1), uint(w))}
				if !signed && proveP(st.pfacts, p.t, token.GEQ, pC(0)) && proveP(st.pfacts, p.t, token.LSS, lim) {
					st.vals[x] = p // the conversion cannot truncate on this path
					return true
				}
				st.vals[x] = pInt{&pt{op: "trunc", args: []*pt{p.t}, k: w}}
				return true
			}
			st.vals[x] = p
			return true
		}
		if _, ok := a.(pBytes); ok {
			st.vals[x] = a
			return true
		}
	case *ssa.UnOp:
		a := e.get(st, x.X)
		if x.Op == token.NOT {
			if c, ok := a.(pCond); ok {
				c.neg = !c.neg
				st.vals[x] = c
				return true
			}
		}
		if x.Op == token.SUB {
			if p, ok := a.(pInt); ok {
				st.vals[x] = pInt{pNeg(p.t)}
				return true
			}
		}
		if x.Op == token.MUL {
			if _, ok := a.(pObj); ok {
				st.vals[x] = a
				return true
			}
			if br, ok := a.(pByteRef); ok {
				st.vals[x] = pInt{byteTerm(br.t, br.idx)}
				return true
			}
		}
	case *ssa.IndexAddr:
		a := e.get(st, x.X)
		// the address of an element of an array of protocol objects denotes that object
		if ap, ok := a.(sPtr); ok && ap.idx == -1 {
			if arr, ok := st.heap[ap.id].(*hArray); ok {
				if c, ok := constOf(e.get(st, x.Index)); ok && c.IsInt64() && c.Int64() >= 0 && int(c.Int64()) < len(arr.elems) {
					if po, isObj := arr.elems[c.Int64()].(pObj); isObj && !isPointerType(x.Type().Underlying().(*types.Pointer).Elem()) {
						st.vals[x] = po
						return true
					}
				}
			}
		}
		if pb, ok := a.(pBytes); ok {
			if c, ok := constOf(e.get(st, x.Index)); ok {
				st.vals[x] = pByteRef{pb.t, int(c.Int64())}
				return true
			}
			// an index the guards of the path pin (len(b)-1 after len(b) == 32)
			if pi, ok := e.get(st, x.Index).(pInt); ok {
				if c, ok := d.pinTerm(st, pi.t); ok {
					st.vals[x] = pByteRef{pb.t, int(c)}
					return true
				}
			}
		}
		// fields of protocol objects that stand for their limb arrays
		if o, ok := a.(pObj); ok {
			st.vals[x] = o
			return true
		}
	case *ssa.FieldAddr:
		if o, ok := e.get(st, x.X).(pObj); ok {
			if h := d.obj(st, o); h != nil && (h.kind == "elem" || h.kind == "scalar") {
				st.vals[x] = o // &e.x: the element's limbs
				return true
			}
		}
	case *ssa.BinOp:
		a, b := e.get(st, x.X), e.get(st, x.Y)
		if x.Op == token.EQL || x.Op == token.NEQ {
			// the leading byte of a fixed-width encoding compared with zero: the value fits one byte less
			bc, isB := a.(byteCell)
			cv, isC := constOf(b)
			if !isB {
				bc, isB = b.(byteCell)
				cv, isC = constOf(a)
			}
			if isB && isC {
				if bc.idx == 0 && bc.src.op == "be" && bc.src.k > 1 && cv.Sign() == 0 {
					op := token.LSS
					if x.Op == token.NEQ {
						op = token.GEQ
					}
					st.vals[x] = pCond{a: bc.src.args[0], op: op, b: widthBound(bc.src.k - 1)}
					return true
				}
				st.vals[x] = pCond{a: byteTerm(bc.src, bc.idx), op: x.Op, b: &pt{op: "c", n: new(big.Int).Set(cv)}}
				return true
			}
		}
		if x.Op == token.SHR {
			if p, ok := a.(pInt); ok {
				if c, ok := constOf(b); ok {
					st.vals[x] = pInt{&pt{op: "shr", args: []*pt{p.t}, n: new(big.Int).Set(c)}}
					return true
				}
			}
		}
		// short-circuit results combined with && / || arrive as phis; nothing to do here
		_ = a
	}
	return false
}

// padPattern: term is K - len(minbe(v)); returns v
func padPattern(t *pt, k int) *pt {
	if t.op != "add" {
		return nil
	}
	c, rest := t.args[0], t.args[1]
	if c.op != "c" {
		c, rest = rest, c
	}
	if c.op != "c" || !c.n.IsInt64() || int(c.n.Int64()) != k {
		return nil
	}
	if rest.op == "mul" && rest.args[0].op == "c" && rest.args[0].n.Cmp(big.NewInt(-1)) == 0 && rest.args[1].op == "len" && rest.args[1].args[0].op == "minbe" {
		return rest.args[1].args[0].args[0]
	}
	return nil
}

// padPatternBytes: term is K - len(x) for any byte string x; returns x
func padPatternBytes(t *pt, k int) *pt {
	if t.op != "add" {
		return nil
	}
	c, rest := t.args[0], t.args[1]
	if c.op != "c" {
		c, rest = rest, c
	}
	if c.op != "c" || !c.n.IsInt64() || int(c.n.Int64()) != k {
		return nil
	}
	if rest.op == "mul" && rest.args[0].op == "c" && rest.args[0].n.Cmp(big.NewInt(-1)) == 0 && rest.args[1].op == "len" {
		return rest.args[1].args[0]
	}
	return nil
}

// builtin functions on protocol values
func (d *protoDom) builtin(st *sState, name string, call *ssa.Call, args []sVal) (sVal, bool) {
	e := d.e
	if d.glue {
		if r, ok := d.glueBuiltin(st, name, call, args); ok {
			return r, true
		}
	}
	pos := e.p.InstrPos(call)
	switch name {
	case "len":
		switch v := args[0].(type) {
		case pBytes:
			if n := d.lenOf(st, v.t); n >= 0 {
				return sInt{big.NewInt(int64(n))}, true
			}
			return pInt{pOp("len", v.t)}, true
		}
	case "copy":
		src, ok := d.bytesOf(st, args[1])
		if !ok {
			e.fail("copy from an unknown byte string at %s", pos)
			return sOpaque{"copy"}, true
		}
		switch dst := args[0].(type) {
		case sPadSlice:
			if (src.op == "minbe" && src.args[0].String() == dst.v.String()) || (dst.src != nil && src.String() == dst.src.String()) {
				arr := st.heap[dst.id].(*hArray)
				d.need(st, dst.v, token.LSS, widthBound(dst.k), fmt.Sprintf("left-padding into %d bytes needs the value to fit", dst.k), pos)
				d.writeBytes(st, arr, 0, pBe(dst.v, dst.k), dst.k)
				return pInt{pOp("len", src)}, true
			}
			e.fail("copy into a left-padded window at %s from a different value", pos)
			return sOpaque{"copy"}, true
		case sSlice:
			arr, ok := st.heap[dst.id].(*hArray)
			n := d.lenOf(st, src)
			room := dst.hi - dst.lo
			if ok && n < 0 && proveP(st.pfacts, pOp("len", src), token.GEQ, pC(int64(room))) {
				n = room + 1 // at least the room: only the first room bytes are copied
			}
			if !ok || n < 0 {
				e.fail("copy of a byte string of unknown length at %s", pos)
				return sOpaque{"copy"}, true
			}
			if n > room {
				t, _ := d.sliceTerm(st, src, 0, room)
				src, n = t, room
			}
			if !d.writeBytes(st, arr, dst.lo, src, n) {
				e.fail("copy at %s could not be followed", pos)
			}
			return sInt{big.NewInt(int64(n))}, true
		}
	case "append":
		if len(args) < 2 {
			return args[0], true
		}
		add, ok := d.bytesOf(st, args[1])
		if !ok {
			e.fail("append of an unknown byte string at %s", pos)
			return sOpaque{"append"}, true
		}
		switch dst := args[0].(type) {
		case sSlice:
			arr, ok := st.heap[dst.id].(*hArray)
			n := d.lenOf(st, add)
			if ok && n >= 0 && dst.hi+n <= len(arr.elems) {
				d.writeBytes(st, arr, dst.hi, add, n)
				return sSlice{dst.id, dst.lo, dst.hi + n}, true
			}
			// reallocation: a new byte string
			if cur, ok := d.bytesOf(st, dst); ok {
				return pBytes{flatCat([]*pt{cur, add})}, true
			}
		case pBytes:
			return pBytes{flatCat([]*pt{dst.t, add})}, true
		case sNil:
			return pBytes{add}, true
		}
	}
	return nil, false
}

// decideCond: the truth of a symbolic condition on this path (value, known)
func (d *protoDom) decideCond(st *sState, c pCond) (bool, bool) {
	if c.a == nil {
		for _, f := range st.pfacts {
			if f.a == nil && f.raw == c.raw {
				return f.val != c.neg, true
			}
		}
		return false, false
	}
	a, b, op := c.a, c.b, c.op
	if c.raw == "bytes" {
		x, y, ok := bytesEqFacts(d.normBytes(st, c.a), d.normBytes(st, c.b))
		if !ok {
			x, y, ok = d.bytesEqZero(st, c.a, c.b)
		}
		if !ok {
			// different known lengths are never equal
			la, lb := d.lenOf(st, c.a), d.lenOf(st, c.b)
			if la >= 0 && lb >= 0 && la != lb {
				return (op == token.NEQ) != c.neg, true
			}
			return false, false
		}
		a, b = x, y
	}
	if c.neg {
		op = negOp[op]
	}
	if proveP(st.pfacts, a, op, b) {
		return true, true
	}
	if proveP(st.pfacts, a, negOp[op], b) {
		return false, true
	}
	return false, false
}

// bytesEqZero: comparison of x with zeros(len(x))
func (d *protoDom) bytesEqZero(st *sState, x, y *pt) (*pt, *pt, bool) {
	if y.op == "zeros" && y.args[0].op == "len" && y.args[0].args[0].String() == x.String() {
		return pVal(x), pC(0), true
	}
	if x.op == "zeros" && x.args[0].op == "len" && x.args[0].args[0].String() == y.String() {
		return pVal(y), pC(0), true
	}
	return nil, nil, false
}

// assumeCond adds the outcome of a condition to the path
func (d *protoDom) assumeCond(st *sState, c pCond, outcome bool) {
	if c.a == nil {
		st.addFact(pFact{raw: c.raw, val: outcome != c.neg})
		return
	}
	a, b, op := c.a, c.b, c.op
	if c.raw == "bytes" {
		x, y, ok := bytesEqFacts(d.normBytes(st, c.a), d.normBytes(st, c.b))
		if !ok {
			x, y, ok = d.bytesEqZero(st, c.a, c.b)
		}
		if !ok {
			st.addFact(pFact{raw: "eq(" + c.a.String() + "," + c.b.String() + ")", val: (op == token.EQL) == (outcome != c.neg)})
			return
		}
		a, b = x, y
	}
	if c.neg {
		op = negOp[op]
	}
	if !outcome {
		op = negOp[op]
	}
	// values that the path so far lets simplify (truncations that cannot truncate, low bytes that carry the whole value)
	a, b = d.normInt(st, a), d.normInt(st, b)
	st.addFact(pFact{a: a, op: op, b: b})
	// needExpand(array, asked) is 0 exactly when the spare capacity suffices (NEED-EXPAND rule of the assembler side)
	for _, pr := range [][2]*pt{{a, b}, {b, a}} {
		x, k := pr[0], pr[1]
		if x.op == "needexp" && k.op == "c" {
			spare := pAdd(x.args[1], pNeg(x.args[0]))
			isZero := (op == token.EQL && k.n.Sign() == 0) || (op == token.NEQ && k.n.Cmp(big.NewInt(1)) == 0) || (op == token.LSS && k.n.Cmp(big.NewInt(1)) == 0) || (op == token.LEQ && k.n.Sign() == 0)
			isOne := (op == token.NEQ && k.n.Sign() == 0) || (op == token.EQL && k.n.Cmp(big.NewInt(1)) == 0) || (op == token.GTR && k.n.Sign() == 0) || (op == token.GEQ && k.n.Cmp(big.NewInt(1)) == 0)
			if isZero {
				st.addFact(pFact{a: spare, op: token.GEQ, b: x.args[2]})
			}
			if isOne {
				st.addFact(pFact{a: spare, op: token.LSS, b: x.args[2]})
			}
		}
	}
}

func protoCallName(p *Prog, call *ssa.Call) (string, []ssa.Value) {
	c := call.Call
	if c.IsInvoke() {
		tn := types.TypeString(c.Value.Type(), func(pk *types.Package) string { return pk.Name() })
		return "(" + tn + ")." + c.Method.Name(), append([]ssa.Value{c.Value}, c.Args...)
	}
	cal := c.StaticCallee()
	if cal == nil {
		return "", c.Args
	}
	if isRepoFunc(cal) {
		return p.FuncName(cal), c.Args
	}
	s := cal.String()
	s = strings.TrimPrefix(s, "(")
	if i := strings.Index(s, ")"); strings.HasPrefix(cal.String(), "(") && i >= 0 {
		return cal.String(), c.Args
	}
	return cal.String(), c.Args
}

// infeasible: the facts of the path contradict each other
// splitCopy: copy(local[:], s) with s of unknown length copies min(len(s), room) bytes: the state is split into the lengths
// below the room (one state each) and "at least the room"
func (d *protoDom) splitCopy(e *sched, st *sState, call *ssa.Call) []*sState {
	if len(call.Call.Args) != 2 {
		return nil
	}
	dst, ok := e.get(st, call.Call.Args[0]).(sSlice)
	if !ok {
		return nil
	}
	src, ok := e.get(st, call.Call.Args[1]).(pBytes)
	if !ok || d.lenOf(st, src.t) >= 0 {
		return nil
	}
	room := dst.hi - dst.lo
	if room <= 0 {
		return nil
	}
	lt := pOp("len", src.t)
	if proveP(st.pfacts, lt, token.GEQ, pC(int64(room))) {
		return nil
	}
	// a large window (a preimage assembled in a stack buffer) is split only when the path bounds the length itself
	top := room
	if room > 128 {
		if !proveP(st.pfacts, lt, token.LEQ, pC(128)) {
			return nil
		}
		top = 128
	}
	var cases []*sState
	for c := 0; c <= top; c++ {
		cs := st.clone()
		if c < room {
			cs.addFact(pFact{a: lt, op: token.EQL, b: pC(int64(c))})
		} else {
			cs.addFact(pFact{a: lt, op: token.GEQ, b: pC(int64(room))})
		}
		if !d.infeasible(cs) {
			cases = append(cases, cs)
		}
	}
	if len(cases) == 0 {
		return nil
	}
	*st = *cases[0]
	return cases[1:]
}

// split: a byte of a string addressed by an index that depends on a length the path bounds but does not pin
// (priv[len(priv)-1] after len(priv) <= 32) is decided per length: the state becomes the first feasible length and the
// other lengths are returned as new states
func (d *protoDom) split(e *sched, st *sState, in ssa.Instruction) []*sState {
	if bo, ok := in.(*ssa.BinOp); ok {
		return d.splitVerdictBits(e, st, bo)
	}
	x, ok := in.(*ssa.IndexAddr)
	if !ok {
		return nil
	}
	if _, ok := e.get(st, x.X).(pBytes); !ok {
		return nil
	}
	pi, ok := e.get(st, x.Index).(pInt)
	if !ok {
		return nil
	}
	if _, ok := d.pinTerm(st, pi.t); ok {
		return nil
	}
	var lt *pt
	var find func(t *pt)
	find = func(t *pt) {
		if t.op == "len" && lt == nil {
			lt = t
		}
		if t.op == "add" || t.op == "neg" {
			for _, a := range t.args {
				find(a)
			}
		}
	}
	find(pi.t)
	const maxLen = 64
	if lt == nil || !proveP(st.pfacts, lt, token.LEQ, pC(maxLen)) {
		return nil
	}
	var cases []*sState
	for c := int64(0); c <= maxLen; c++ {
		if proveP(st.pfacts, lt, token.NEQ, pC(c)) {
			continue
		}
		cs := st.clone()
		cs.addFact(pFact{a: lt, op: token.EQL, b: pC(c)})
		if !d.infeasible(cs) {
			cases = append(cases, cs)
		}
	}
	if len(cases) == 0 {
		return nil
	}
	*st = *cases[0]
	return cases[1:]
}

func (d *protoDom) infeasible(st *sState) bool {
	return proveP(st.pfacts, pC(0), token.GEQ, pC(1))
}

// normInt removes truncations that the path makes the identity
func (d *protoDom) normInt(st *sState, t *pt) *pt {
	if t == nil {
		return nil
	}
	if t.op == "trunc" {
		inner := d.normInt(st, t.args[0])
		bound := &pt{op: "c", n: new(big.Int).Lsh(big.NewInt(1), uint(t.k))}
		if t.k%8 == 0 {
			bound = widthBound(t.k / 8)
		}
		// intervals first (bytes, carries, shifts): no facts needed, and the LP knows nothing about shifts
		if lo, hi := ptRange(inner); lo != nil && hi != nil {
			if lo.Sign() >= 0 && hi.Cmp(bound.n) < 0 {
				return inner
			}
			return &pt{op: "trunc", args: []*pt{inner}, k: t.k}
		}
		if proveP(st.pfacts, inner, token.GEQ, pC(0)) && proveP(st.pfacts, inner, token.LSS, bound) {
			return inner
		}
		return &pt{op: "trunc", args: []*pt{inner}, k: t.k}
	}
	if t.op == "mod" && len(t.args) == 1 {
		// a residue whose argument the path confines to one window of width n is that argument shifted
		inner := d.normInt(st, t.args[0])
		N := pSym("N")
		// the residue of -y is n minus the residue of y, unless that is zero
		if inner.op == "mul" && len(inner.args) == 2 && inner.args[0].op == "c" && inner.args[0].n.Cmp(big.NewInt(-1)) == 0 {
			ry := d.normInt(st, &pt{op: "mod", args: []*pt{inner.args[1]}})
			if proveP(st.pfacts, ry, token.GEQ, pC(1)) {
				return pAdd(N, pNeg(ry))
			}
			if proveP(st.pfacts, ry, token.EQL, pC(0)) {
				return pC(0)
			}
		}
		switch {
		case proveP(st.pfacts, inner, token.GEQ, pC(0)) && proveP(st.pfacts, inner, token.LSS, N):
			return inner
		case proveP(st.pfacts, inner, token.LSS, pC(0)) && proveP(st.pfacts, pAdd(inner, N), token.GEQ, pC(0)):
			return pAdd(inner, N)
		case proveP(st.pfacts, inner, token.GEQ, N) && proveP(st.pfacts, inner, token.LSS, pMul(pC(2), N)):
			return pAdd(inner, pNeg(N))
		}
		return &pt{op: "mod", args: []*pt{inner}}
	}
	if t.op == "val" && len(t.args) == 1 && t.args[0].op == "sub" && t.args[0].args[0].op == "be" {
		// the low bytes of a fixed-width encoding carry the whole value when it fits them
		sb := t.args[0]
		be := sb.args[0]
		if int(sb.n.Int64()) == be.k && sb.k > 0 {
			inner := d.normInt(st, be.args[0])
			if proveP(st.pfacts, inner, token.GEQ, pC(0)) && proveP(st.pfacts, inner, token.LSS, widthBound(be.k-sb.k)) {
				return inner
			}
		}
	}
	if len(t.args) == 0 {
		return t
	}
	n := *t
	n.args = make([]*pt, len(t.args))
	for i, a := range t.args {
		n.args[i] = d.normInt(st, a)
	}
	return &n
}

// decideCmp: does the path decide a OP b?
func (d *protoDom) decideCmp(st *sState, a *pt, op token.Token, b *pt) (bool, bool) {
	if proveP(st.pfacts, a, op, b) {
		return true, true
	}
	if proveP(st.pfacts, a, negOp[op], b) {
		return false, true
	}
	return false, false
}

// ptRange: the interval of an integer term from its shape alone (nil: unbounded or unknown on that side)
func ptRange(t *pt) (lo, hi *big.Int) {
	switch t.op {
	case "c":
		return t.n, t.n
	case "byte":
		return big.NewInt(0), big.NewInt(255)
	case "brw", "needexp", "asmret":
		return big.NewInt(0), big.NewInt(1)
	case "nzw":
		return big.NewInt(0), new(big.Int).Sub(new(big.Int).Lsh(big.NewInt(1), 64), big.NewInt(1))
	case "len", "cap", "val":
		return big.NewInt(0), nil
	case "rem":
		return big.NewInt(0), new(big.Int).Sub(new(big.Int).Lsh(big.NewInt(1), uint(t.k)), big.NewInt(1))
	case "trunc":
		max := new(big.Int).Sub(new(big.Int).Lsh(big.NewInt(1), uint(t.k)), big.NewInt(1))
		l, h := ptRange(t.args[0])
		if l != nil && h != nil && l.Sign() >= 0 && h.Cmp(max) <= 0 {
			return l, h
		}
		return big.NewInt(0), max
	case "shr", "quo":
		sh := uint(t.k)
		if t.op == "shr" {
			if t.n == nil || !t.n.IsInt64() {
				return nil, nil
			}
			sh = uint(t.n.Int64())
		}
		l, h := ptRange(t.args[0])
		if l == nil || l.Sign() < 0 {
			return nil, nil
		}
		lo = new(big.Int).Rsh(l, sh)
		if h != nil {
			hi = new(big.Int).Rsh(h, sh)
		}
		return lo, hi
	case "or":
		// of non-negative operands: between the largest lower bound and the sum of the upper bounds
		lo, hi = big.NewInt(0), big.NewInt(0)
		for _, a := range t.args {
			l, h := ptRange(a)
			if l == nil || l.Sign() < 0 {
				return nil, nil
			}
			if l.Cmp(lo) > 0 {
				lo = l
			}
			if hi != nil && h != nil {
				hi = new(big.Int).Add(hi, h)
			} else {
				hi = nil
			}
		}
		return lo, hi
	case "add":
		lo, hi = big.NewInt(0), big.NewInt(0)
		for _, a := range t.args {
			l, h := ptRange(a)
			if lo != nil && l != nil {
				lo = new(big.Int).Add(lo, l)
			} else {
				lo = nil
			}
			if hi != nil && h != nil {
				hi = new(big.Int).Add(hi, h)
			} else {
				hi = nil
			}
		}
		return lo, hi
	case "neg":
		l, h := ptRange(t.args[0])
		if h != nil {
			lo = new(big.Int).Neg(h)
		}
		if l != nil {
			hi = new(big.Int).Neg(l)
		}
		return lo, hi
	case "mul":
		for i := 0; i < 2 && len(t.args) == 2; i++ {
			if c := t.args[i]; c.op == "c" {
				l, h := ptRange(t.args[1-i])
				if c.n.Sign() < 0 {
					l, h = h, l
				}
				if l != nil {
					lo = new(big.Int).Mul(l, c.n)
				}
				if h != nil {
					hi = new(big.Int).Mul(h, c.n)
				}
				return lo, hi
			}
		}
	}
	return nil, nil
}

// rangeProves: a OP b follows from the shapes of the two terms alone
func rangeProves(a *pt, op token.Token, b *pt) bool {
	al, ah := ptRange(a)
	bl, bh := ptRange(b)
	switch op {
	case token.GEQ:
		return al != nil && bh != nil && al.Cmp(bh) >= 0
	case token.GTR:
		return al != nil && bh != nil && al.Cmp(bh) > 0
	case token.LEQ:
		return ah != nil && bl != nil && ah.Cmp(bl) <= 0
	case token.LSS:
		return ah != nil && bl != nil && ah.Cmp(bl) < 0
	case token.NEQ:
		return (al != nil && bh != nil && al.Cmp(bh) > 0) || (ah != nil && bl != nil && ah.Cmp(bl) < 0)
	}
	return false
}

// splitVerdictBits: 0/1 results of equality predicates (IsZero, Equal, ConstantTimeCompare) combined with | & ^ (a
// non-short-circuit "any of these" test): each predicate is decided first, one state per outcome, so that the combination is
// a concrete 0/1 and the facts of the path say which predicate held
func (d *protoDom) splitVerdictBits(e *sched, st *sState, bo *ssa.BinOp) []*sState {
	if bo.Op != token.OR && bo.Op != token.AND && bo.Op != token.XOR {
		return nil
	}
	states := []*sState{st}
	for _, opnd := range []ssa.Value{bo.X, bo.Y} {
		if _, isConst := opnd.(*ssa.Const); isConst {
			continue
		}
		var next []*sState
		for _, cur := range states {
			pi, ok := e.get(cur, opnd).(pInt)
			if !ok || pi.t.op != "eqb" || len(pi.t.args) != 2 {
				next = append(next, cur)
				continue
			}
			cond := pCond{a: pi.t.args[0], b: pi.t.args[1], op: token.EQL, raw: "bytes"}
			no := cur.clone()
			d.assumeCond(cur, cond, true)
			cur.vals[opnd] = sInt{big.NewInt(1)}
			d.assumeCond(no, cond, false)
			no.vals[opnd] = sInt{big.NewInt(0)}
			for _, c := range []*sState{cur, no} {
				if c == cur || !d.infeasible(c) {
					next = append(next, c)
				}
			}
		}
		states = next
	}
	// st must stay the first state (it is modified in place); an infeasible st is marked dead
	if d.infeasible(st) {
		st.dead = true
	}
	return states[1:]
}
