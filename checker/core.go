package main

import (
	"encoding/json"
	"fmt"
	"os"
	"path/filepath"
	"sort"
	"strings"
	"time"
)

// Status of one obligation.
const (
	OK        = "discharged"
	VIOLATED  = "violated"
	UNDECIDED = "undecided"
)

// Obligation is one rule instance. It is keyed by rule|construct, never by line.
type Obligation struct {
	Rule   string `json:"rule"`
	Key    string `json:"construct"`
	Pos    string `json:"pos,omitempty"`
	Status string `json:"status"`
	Detail string `json:"detail,omitempty"`
}

func (o Obligation) ID() string { return o.Rule + " | " + o.Key }

// Report collects what one check analysed.
type Report struct {
	ID          string
	Tier        string
	Level       string
	Obls        []Obligation
	Counters    map[string]int
	Floors      map[string]int
	Notes       []string
	Assumptions []string
	Trusted     []string
	Explanation string
	Fatal       []string // undecidable situations: unresolved anchors, unknown opcodes, ...
	start       time.Time
}

func NewReport(id, tier, level string) *Report {
	return &Report{ID: id, Tier: tier, Level: level, Counters: map[string]int{}, Floors: map[string]int{}, start: time.Now()}
}

func (r *Report) add(rule, key, pos, status, detail string) {
	r.Obls = append(r.Obls, Obligation{Rule: rule, Key: key, Pos: pos, Status: status, Detail: detail})
}
func (r *Report) Ok(rule, key, pos, detail string)   { r.add(rule, key, pos, OK, detail) }
func (r *Report) Viol(rule, key, pos, detail string) { r.add(rule, key, pos, VIOLATED, detail) }
func (r *Report) Undecided(rule, key, pos, detail string) {
	r.add(rule, key, pos, UNDECIDED, detail)
}

// Check records an obligation from a boolean.
func (r *Report) Check(cond bool, rule, key, pos, detail string) bool {
	if cond {
		r.Ok(rule, key, pos, detail)
	} else {
		r.Viol(rule, key, pos, detail)
	}
	return cond
}
func (r *Report) Fatalf(format string, a ...interface{}) {
	r.Fatal = append(r.Fatal, fmt.Sprintf(format, a...))
}
func (r *Report) Count(name string, n int) { r.Counters[name] += n }

// Floor declares the minimum instance count confirmed by hand; falling below fails the run.
func (r *Report) Floor(name string, min int) { r.Floors[name] = min }
func (r *Report) Note(format string, a ...interface{}) {
	r.Notes = append(r.Notes, fmt.Sprintf(format, a...))
}

// ---------------------------------------------------------------------------

type knownEntry struct {
	Status   string `json:"status"` // "known" | "fixed"
	Property string `json:"property"`
	Key      string `json:"key"`
	What     string `json:"what"`
	Commit   string `json:"commit,omitempty"`
}

func loadKnown(verifDir string) []knownEntry {
	b, err := os.ReadFile(filepath.Join(verifDir, "known_findings.json"))
	if err != nil {
		return nil
	}
	var ks struct {
		Findings []knownEntry `json:"findings"`
	}
	if json.Unmarshal(b, &ks) != nil {
		return nil
	}
	return ks.Findings
}

// Finish writes evidence, prints the verdict lines and returns the exit code.
func (r *Report) Finish(verifDir, evidencePath string) int {
	for name, min := range r.Floors {
		if r.Counters[name] < min {
			r.Fatalf("instance count %q = %d fell below the floor %d confirmed by hand: the rule would pass vacuously", name, r.Counters[name], min)
		}
	}
	known := map[string]knownEntry{}
	for _, k := range loadKnown(verifDir) {
		if k.Property == r.ID && k.Status == "known" {
			known[k.Key] = k
		}
	}
	var viol, knownHit, undec []Obligation
	disch := 0
	for _, o := range r.Obls {
		switch o.Status {
		case OK:
			disch++
		case VIOLATED:
			if _, ok := known[o.ID()]; ok {
				knownHit = append(knownHit, o)
			} else {
				viol = append(viol, o)
			}
		default:
			undec = append(undec, o)
		}
	}
	for _, o := range undec {
		r.Fatalf("undecided obligation %s at %s: %s", o.ID(), o.Pos, o.Detail)
	}

	// samples: violations first, then a spread of discharged obligations by rule
	var samples []Obligation
	samples = append(samples, viol...)
	samples = append(samples, knownHit...)
	seen := map[string]int{}
	for _, o := range r.Obls {
		if o.Status == OK && seen[o.Rule] < 3 && len(samples) < 60 {
			seen[o.Rule]++
			samples = append(samples, o)
		}
	}
	rules := map[string]int{}
	for _, o := range r.Obls {
		rules[o.Rule]++
	}
	cov := map[string]interface{}{
		"obligations":             len(r.Obls),
		"discharged":              disch,
		"checker_cmd":             fmt.Sprintf("/verif/bin/smgocheck %s --tier %s", r.ID, r.Tier),
		"trusted_base":            r.Trusted,
		"explanation":             r.Explanation,
		"samples":                 samples,
		"counters":                r.Counters,
		"floors":                  r.Floors,
		"rules":                   rules,
		"notes":                   r.Notes,
		"known_findings_reported": len(knownHit),
	}
	if r.Trusted == nil {
		cov["trusted_base"] = []string{}
	}
	ev := map[string]interface{}{
		"property_id": r.ID,
		"tier":        r.Tier,
		"seed":        0,
		"level":       r.Level,
		"coverage":    cov,
		"assumptions": r.Assumptions,
		"wall_s":      time.Since(r.start).Seconds(),
		"violations":  len(viol),
	}
	if r.Assumptions == nil {
		ev["assumptions"] = []string{}
	}
	if len(r.Fatal) > 0 {
		ev["undecided"] = r.Fatal
	}
	os.MkdirAll(filepath.Dir(evidencePath), 0o755)
	b, _ := json.MarshalIndent(ev, "", " ")
	if err := os.WriteFile(evidencePath, b, 0o644); err != nil {
		fmt.Fprintln(os.Stderr, "cannot write evidence:", err)
		return 2
	}

	fmt.Printf("[%s] tier=%s obligations=%d discharged=%d violated=%d known=%d undecided=%d wall=%.1fs\n",
		r.ID, r.Tier, len(r.Obls), disch, len(viol), len(knownHit), len(r.Fatal), time.Since(r.start).Seconds())
	var cn []string
	for k := range r.Counters {
		cn = append(cn, k)
	}
	sort.Strings(cn)
	var cs []string
	for _, k := range cn {
		cs = append(cs, fmt.Sprintf("%s=%d", k, r.Counters[k]))
	}
	fmt.Printf("[%s] analysed: %s\n", r.ID, strings.Join(cs, " "))
	for _, o := range knownHit {
		fmt.Printf("KNOWN-FINDING: property=%s %s (%s) %s\n", r.ID, o.ID(), o.Pos, known[o.ID()].What)
	}
	for _, f := range r.Fatal {
		fmt.Printf("UNDECIDED: property=%s %s\n", r.ID, f)
	}
	if len(viol) == 0 && len(r.Fatal) > 0 {
		return 2
	}
	if len(viol) > 0 {
		replay := strings.TrimSuffix(evidencePath, ".json") + ".violations.json"
		vb, _ := json.MarshalIndent(viol, "", " ")
		os.WriteFile(replay, vb, 0o644)
		for _, o := range viol {
			fmt.Printf("  violated: %s at %s: %s\n", o.ID(), o.Pos, o.Detail)
		}
		fmt.Printf("VIOLATION property=%s replay=%s\n", r.ID, replay)
		return 1
	}
	return 0
}

// filterReplay keeps only the obligations named in a replay (violations) file.
func (r *Report) filterReplay(path string) {
	b, err := os.ReadFile(path)
	if err != nil {
		r.Fatalf("cannot read replay file %s: %v", path, err)
		return
	}
	var want []Obligation
	if err := json.Unmarshal(b, &want); err != nil {
		r.Fatalf("bad replay file %s: %v", path, err)
		return
	}
	keep := map[string]bool{}
	for _, o := range want {
		keep[o.ID()] = true
	}
	var out []Obligation
	for _, o := range r.Obls {
		if keep[o.ID()] {
			out = append(out, o)
		}
	}
	for k := range keep {
		found := false
		for _, o := range out {
			if o.ID() == k {
				found = true
			}
		}
		if !found {
			r.Fatalf("replayed obligation %q no longer exists in the analysed program", k)
		}
	}
	r.Obls = out
	r.Floors = map[string]int{}
}
