package main

// Stream domain (an extension of the glue domain used for package sm3): mutable receiver fields, struct copies, byte
// contents of objects resolved from the effect log, and acceleration of loops whose state advances affinely.

import (
	"fmt"
	"go/token"
	"go/types"
	"math/big"
	"sort"
	"strings"

	"golang.org/x/tools/go/ssa"
)

// gStructVal: a struct value loaded from a receiver-like object (copied on store)
type gStructVal struct {
	from  string // name of the object it was loaded from
	at    int    // length of the effect log at the load
	t     *types.Struct
	sname string // name of the struct type (fields are canonicalised by role)
}

// gArrVal: an array value loaded from an array object
type gArrVal struct {
	obj  int
	at   int
	n    int
	esz  int
	base int64
}

type gRep struct {
	k    *pt       // number of iterations
	body []gEffect // effects of iteration 0
	dOff []int64   // per-effect advance of off per iteration
	dSrc []int64   // per-effect advance of srcOff per iteration
}

// ---------- loop acceleration ----------

type loopKey struct {
	fr *sFrame
	b  *ssa.BasicBlock
}

type loopSnap struct {
	phis   map[*ssa.Phi]sVal
	fields map[string]sVal
	neff   int
	nfacts int
}

type loopGen struct {
	k      *pt
	phis   map[*ssa.Phi]sVal // value after k iterations
	fields map[string]sVal
	dPhi   map[*ssa.Phi]sVal // per-iteration advance (as a constant-shaped value), nil when invariant
	neff   int               // length of the effect log including the rep effect
	nfacts int
	fact   *pFact // the per-iteration condition fact at iteration 0
	dFact  int64  // advance of (a - b) per iteration
	body   []gEffect
	dOff   []int64
	dSrc   []int64
}

type loopHist struct {
	snaps    []loopSnap
	symbolic bool
	gen      *loopGen
}

func (h *loopHist) clone() *loopHist {
	n := *h
	n.snaps = append([]loopSnap(nil), h.snaps...)
	return &n
}

func isLoopHeader(b *ssa.BasicBlock) bool {
	for _, p := range b.Preds {
		if b.Dominates(p) {
			return true
		}
	}
	return false
}

func (d *protoDom) snapshot(st *sState, b *ssa.BasicBlock) loopSnap {
	s := loopSnap{phis: map[*ssa.Phi]sVal{}, fields: map[string]sVal{}, neff: len(st.geff), nfacts: len(st.pfacts)}
	for _, in := range b.Instrs {
		phi, ok := in.(*ssa.Phi)
		if !ok {
			break
		}
		s.phis[phi] = d.e.get(st, phi)
	}
	for k, v := range st.gfields {
		s.fields[k] = v
	}
	return s
}

func constDiff(a, b *pt) (int64, bool) {
	p := polyOfPlain(a).add(polyOfPlain(b), -1)
	if len(p) == 0 {
		return 0, true
	}
	if len(p) == 1 {
		if c, ok := p[""]; ok && c.IsInt64() {
			return c.Int64(), true
		}
	}
	return 0, false
}

func gValEqual(a, b sVal) bool {
	ta, oka := isProtoInt(a)
	tb, okb := isProtoInt(b)
	if oka && okb {
		return samePoly(ta, tb)
	}
	if oka != okb {
		return false
	}
	switch x := a.(type) {
	case gSlice:
		y, ok := b.(gSlice)
		return ok && x.obj == y.obj && x.esz == y.esz && samePoly(x.off, y.off) && samePoly(x.ln, y.ln) && samePoly(x.cp, y.cp)
	case gPtr:
		y, ok := b.(gPtr)
		return ok && x.obj == y.obj && x.esz == y.esz && samePoly(x.off, y.off)
	}
	return fmt.Sprintf("%#v", a) == fmt.Sprintf("%#v", b)
}

// affine3: v0, v1, v2 advance by the same constant; returns the value after k iterations
func affine3(v0, v1, v2 sVal, k *pt) (sVal, bool) {
	if gValEqual(v0, v1) && gValEqual(v1, v2) {
		return v0, true
	}
	lin := func(t0, t1, t2 *pt) (*pt, bool) {
		d1, ok1 := constDiff(t1, t0)
		d2, ok2 := constDiff(t2, t1)
		if !ok1 || !ok2 || d1 != d2 {
			return nil, false
		}
		if d1 == 0 {
			return t0, true
		}
		return pAdd(t0, pMul(pC(d1), k)), true
	}
	t0, ok0 := isProtoInt(v0)
	t1, ok1 := isProtoInt(v1)
	t2, ok2 := isProtoInt(v2)
	if ok0 && ok1 && ok2 {
		t, ok := lin(t0, t1, t2)
		if !ok {
			return nil, false
		}
		return pInt{t}, true
	}
	s0, ok0 := v0.(gSlice)
	s1, ok1 := v1.(gSlice)
	s2, ok2 := v2.(gSlice)
	if ok0 && ok1 && ok2 && s0.obj == s1.obj && s1.obj == s2.obj && s0.esz == s1.esz {
		off, oka := lin(s0.off, s1.off, s2.off)
		ln, okb := lin(s0.ln, s1.ln, s2.ln)
		cp, okc := lin(s0.cp, s1.cp, s2.cp)
		if oka && okb && okc {
			return gSlice{s0.obj, off, ln, cp, s0.esz}, true
		}
	}
	return nil, false
}

func substK(v sVal, k, k1 *pt) sVal {
	var sub func(t *pt) *pt
	sub = func(t *pt) *pt {
		if t == k {
			return k1
		}
		if len(t.args) == 0 {
			return t
		}
		switch t.op {
		case "add":
			return pAdd(sub(t.args[0]), sub(t.args[1]))
		case "mul":
			return pMul(sub(t.args[0]), sub(t.args[1]))
		}
		n := *t
		n.args = nil
		for _, a := range t.args {
			n.args = append(n.args, sub(a))
		}
		return &n
	}
	switch x := v.(type) {
	case pInt:
		return pInt{sub(x.t)}
	case gSlice:
		return gSlice{x.obj, sub(x.off), sub(x.ln), sub(x.cp), x.esz}
	}
	return v
}

func effShapeEqual(a, b gEffect) (dOff, dSrc int64, ok bool) {
	if a.kind != b.kind || a.obj != b.obj || a.srcObj != b.srcObj || a.what != b.what || a.rep != nil || b.rep != nil {
		return 0, 0, false
	}
	if (a.n == nil) != (b.n == nil) || (a.n != nil && !samePoly(a.n, b.n)) {
		return 0, 0, false
	}
	if (a.val == nil) != (b.val == nil) || (a.val != nil && !samePoly(a.val, b.val)) {
		return 0, 0, false
	}
	if a.off != nil && b.off != nil {
		if dOff, ok = constDiff(b.off, a.off); !ok {
			return 0, 0, false
		}
	}
	if a.srcOff != nil && b.srcOff != nil {
		if dSrc, ok = constDiff(b.srcOff, a.srcOff); !ok {
			return 0, 0, false
		}
	}
	return dOff, dSrc, true
}

// loopArrive is called for every state that reaches a loop header (after its phis were evaluated). It returns false
// when the state is covered by an accelerated state and must be dropped.
func (d *protoDom) loopArrive(fr *sFrame, st *sState, b, pred *ssa.BasicBlock) bool {
	e := d.e
	key := loopKey{fr, b}
	if st.loops == nil {
		st.loops = map[loopKey]*loopHist{}
	}
	back := pred != nil && b.Dominates(pred)
	h := st.loops[key]
	if h == nil || !back {
		h = &loopHist{}
	} else {
		h = h.clone()
	}
	st.loops[key] = h
	pos := fmt.Sprintf("%s block %d", fr.fn.Name(), b.Index)
	if h.gen != nil {
		// inductive step: the state after one more iteration is the accelerated state at k+1
		g := h.gen
		k1 := pAdd(g.k, pC(1))
		cur := d.snapshot(st, b)
		for phi, gv := range g.phis {
			if !gValEqual(cur.phis[phi], substK(gv, g.k, k1)) {
				e.fail("loop at %s: %s does not advance affinely (inductive step)", pos, phi.Name())
				return false
			}
		}
		for f, gv := range g.fields {
			if !gValEqual(cur.fields[f], substK(gv, g.k, k1)) {
				e.fail("loop at %s: field %s does not advance affinely (inductive step)", pos, f)
				return false
			}
		}
		if len(st.geff)-g.neff != len(g.body) {
			e.fail("loop at %s: the effects of an iteration change (inductive step)", pos)
			return false
		}
		for i, be := range g.body {
			want := be
			if be.off != nil {
				want.off = pAdd(be.off, pMul(pC(g.dOff[i]), g.k))
			}
			if be.srcOff != nil {
				want.srcOff = pAdd(be.srcOff, pMul(pC(g.dSrc[i]), g.k))
			}
			got := st.geff[g.neff+i]
			do, ds, ok := effShapeEqual(want, got)
			if !ok || do != 0 || ds != 0 {
				e.fail("loop at %s: the effects of an iteration change (inductive step)", pos)
				return false
			}
		}
		if len(st.pfacts)-g.nfacts != 1 {
			e.fail("loop at %s: an iteration adds %d path facts; only the loop condition may fork", pos, len(st.pfacts)-g.nfacts)
			return false
		}
		nf := st.pfacts[g.nfacts]
		if nf.a == nil || g.fact == nil || nf.op != g.fact.op {
			e.fail("loop at %s: the loop condition changes shape (inductive step)", pos)
			return false
		}
		wantD := pAdd(pAdd(g.fact.a, pNeg(g.fact.b)), pMul(pC(g.dFact), g.k))
		if !samePoly(pAdd(nf.a, pNeg(nf.b)), wantD) {
			e.fail("loop at %s: the loop condition does not advance affinely (inductive step)", pos)
			return false
		}
		return false // covered by the accelerated state with k+1
	}
	h.snaps = append(h.snaps, d.snapshot(st, b))
	if !h.symbolic || len(h.snaps) < 3 {
		return true
	}
	// when the loop cannot be generalised it is unrolled further: the path conditions may end it after a few iterations
	// (a driver loop that runs a top-up step, a whole-blocks step and a tail step); only a loop that neither generalises
	// nor ends is given up
	giveUp := func(reason string) bool {
		if len(h.snaps) >= 10 {
			e.fail("%s", reason)
			return false
		}
		return true
	}
	// generalise from the entry state and two iterations
	s0, s1, s2 := h.snaps[len(h.snaps)-3], h.snaps[len(h.snaps)-2], h.snaps[len(h.snaps)-1]
	d.loopVars++
	k := &pt{op: "param", s: fmt.Sprintf("k%d", d.loopVars)}
	g := &loopGen{k: k, phis: map[*ssa.Phi]sVal{}, fields: map[string]sVal{}}
	for phi, v0 := range s0.phis {
		gv, ok := affine3(v0, s1.phis[phi], s2.phis[phi], k)
		if !ok {
			return giveUp(fmt.Sprintf("loop at %s: %s does not advance by a constant per iteration (%s, %s, %s)", pos, phi.Name(), d.show(st, v0), d.show(st, s1.phis[phi]), d.show(st, s2.phis[phi])))
		}
		g.phis[phi] = gv
	}
	for f, v2 := range s2.fields {
		v0, ok0 := s0.fields[f]
		v1, ok1 := s1.fields[f]
		if !ok0 || !ok1 {
			if ok0 != ok1 {
				return giveUp(fmt.Sprintf("loop at %s: field %s appears during the loop", pos, f))
			}
			// first touched inside the loop and created lazily: its value must not change between iterations
			continue
		}
		gv, ok := affine3(v0, v1, v2, k)
		if !ok {
			return giveUp(fmt.Sprintf("loop at %s: field %s does not advance by a constant per iteration", pos, f))
		}
		g.fields[f] = gv
	}
	e1, e2 := st.geff[s0.neff:s1.neff], st.geff[s1.neff:s2.neff]
	if len(e1) != len(e2) {
		return giveUp(fmt.Sprintf("loop at %s: iterations have different effects", pos))
	}
	for i := range e1 {
		do, ds, ok := effShapeEqual(e1[i], e2[i])
		if !ok {
			return giveUp(fmt.Sprintf("loop at %s: iterations have different effects", pos))
		}
		g.body = append(g.body, e1[i])
		g.dOff = append(g.dOff, do)
		g.dSrc = append(g.dSrc, ds)
	}
	f1, f2 := st.pfacts[s0.nfacts:s1.nfacts], st.pfacts[s1.nfacts:s2.nfacts]
	if len(f1) != 1 || len(f2) != 1 || f1[0].a == nil || f2[0].a == nil || f1[0].op != f2[0].op {
		return giveUp(fmt.Sprintf("loop at %s: an iteration adds %d/%d path facts; only the loop condition may fork", pos, len(f1), len(f2)))
	}
	df, ok := constDiff(pAdd(f2[0].a, pNeg(f2[0].b)), pAdd(f1[0].a, pNeg(f1[0].b)))
	if !ok {
		return giveUp(fmt.Sprintf("loop at %s: the loop condition does not advance by a constant per iteration", pos))
	}
	fa := f1[0]
	g.fact, g.dFact = &fa, df
	// install the accelerated state: k >= 2 iterations done
	for phi, gv := range g.phis {
		st.vals[phi] = gv
	}
	for f, gv := range g.fields {
		st.gfields[f] = gv
	}
	st.geff = append(append([]gEffect(nil), st.geff[:s0.neff]...), gEffect{kind: "rep", rep: &gRep{k: k, body: g.body, dOff: g.dOff, dSrc: g.dSrc}})
	facts := append([]pFact(nil), st.pfacts[:s0.nfacts]...)
	facts = append(facts, fa)
	km1 := pAdd(k, pC(-1))
	if fa.op == token.NEQ {
		// D_j = D0 + df*j != 0 for all j in [0,k): when D0 is a multiple of df, the zero of D lies at the integer m = -D0/df;
		// m >= 0 (provable at the loop entry) and m outside [0,k) give m >= k
		d0 := polyOfPlain(pAdd(fa.a, pNeg(fa.b)))
		m, okDiv := spDivNeg(d0, df, pAdd(fa.a, pNeg(fa.b)))
		if df == 0 || !okDiv || !proveP(facts, m, token.GEQ, pC(0)) {
			e.fail("loop at %s: the condition %s != %s advances by %d per iteration and cannot be turned into a bound", pos, fa.a, fa.b, df)
			return false
		}
		facts = append(facts, pFact{a: m, op: token.GEQ, b: k})
	} else {
		// the condition held in iteration k-1 (and, being affine in the iteration number, in all between)
		facts = append(facts, pFact{a: pAdd(fa.a, pMul(pC(df), km1)), op: fa.op, b: fa.b})
	}
	facts = append(facts, pFact{a: k, op: token.GEQ, b: pC(2)})
	st.pfacts = facts
	g.neff, g.nfacts = len(st.geff), len(st.pfacts)
	h.gen = g
	h.snaps = nil
	return true
}

// markLoopFork: the branch of a loop header could not be decided: the loop is a candidate for acceleration
func (d *protoDom) markLoopFork(fr *sFrame, st *sState, b *ssa.BasicBlock) {
	if !d.glue || !isLoopHeader(b) || st.loops == nil {
		return
	}
	if h := st.loops[loopKey{fr, b}]; h != nil && !h.symbolic {
		h2 := h.clone()
		h2.symbolic = true
		// the iterations decided by the path condition are behind: the base state is the one of this visit
		if len(h2.snaps) > 1 {
			h2.snaps = h2.snaps[len(h2.snaps)-1:]
		}
		st.loops[loopKey{fr, b}] = h2
	}
}

// ---------- values of the stream domain ----------

func (d *protoDom) structFieldKeys(name string, t *types.Struct, sname string) []struct {
	key string
	typ types.Type
} {
	var out []struct {
		key string
		typ types.Type
	}
	for i := 0; i < t.NumFields(); i++ {
		f := t.Field(i)
		if st2, ok := f.Type().Underlying().(*types.Struct); ok {
			out = append(out, d.structFieldKeys(name+"."+f.Name(), st2, structNameOf(f.Type()))...)
			continue
		}
		out = append(out, struct {
			key string
			typ types.Type
		}{name + "." + d.e.p.canonField(sname, f.Name(), f.Type()), f.Type()})
	}
	return out
}

// storeStruct: *dst = value (deep copy: arrays become new objects whose initial content is the source's at load time)
func (d *protoDom) storeStruct(st *sState, dst string, v gStructVal) {
	if st.gfields == nil {
		st.gfields = map[string]sVal{}
	}
	if sw, ok := st.gfields[v.from+".#"].(gArr); ok {
		if dw, ok := st.gfields[dst+".#"].(gArr); ok && dw.n == sw.n {
			// both are single-allocation byte structs: one copy of the whole
			st.geff = append(st.geff, gEffect{kind: "copy", obj: dw.obj, off: pC(0), n: pC(int64(sw.n)), srcObj: sw.obj, srcOff: pC(0), srcIdx: v.at, hasSrcIdx: true})
			return
		}
	}
	for _, f := range d.structFieldKeys("", v.t, v.sname) {
		srcKey, dstKey := v.from+f.key, dst+f.key
		i := strings.LastIndex(srcKey, ".")
		sv := d.fieldValue(st, gField{srcKey[:i], srcKey[i+1:]}, f.typ)
		switch x := sv.(type) {
		case gArr:
			id := d.newGObj(st, dstKey, pC(int64(x.n*x.esz)), true)
			h := d.gobj(st, id)
			h.snapObj, h.snapIdx, h.hasSnap = x.obj, v.at, true
			st.gfields[dstKey] = gArr{id, x.n, x.esz, 0}
		default:
			st.gfields[dstKey] = sv
		}
	}
}

// streamStep: instructions specific to the stream domain (tried before the generic glue step)
func (d *protoDom) streamStep(st *sState, in ssa.Instruction) bool {
	e := d.e
	pos := e.p.InstrPos(in)
	if !d.stream {
		// the glue domain proper only needs array values (arrays returned from helpers and assigned to locals)
		switch x := in.(type) {
		case *ssa.UnOp:
			if v, ok := e.get(st, x.X).(gArr); ok && x.Op == token.MUL {
				if _, ok := x.Type().Underlying().(*types.Array); ok {
					st.vals[x] = gArrVal{v.obj, len(st.geff), v.n, v.esz, v.base}
					return true
				}
			}
			if rv, ok := e.get(st, x.X).(gRecv); ok && x.Op == token.MUL {
				if stt, ok := x.Type().Underlying().(*types.Struct); ok {
					st.vals[x] = gStructVal{from: rv.name, at: len(st.geff), t: stt, sname: structNameOf(x.Type())}
					return true
				}
			}
		case *ssa.Store:
			if sv, ok := e.get(st, x.Val).(gStructVal); ok {
				switch a := e.get(st, x.Addr).(type) {
				case gRecv:
					d.storeStruct(st, a.name, sv)
					return true
				case gField:
					d.storeStruct(st, a.recv+"."+a.field, sv)
					return true
				}
			}
			if a, ok := e.get(st, x.Addr).(gArr); ok {
				if av, ok := e.get(st, x.Val).(gArrVal); ok {
					st.geff = append(st.geff, gEffect{kind: "copy", obj: a.obj, off: pC(a.base), n: pC(int64(av.n * av.esz)), srcObj: av.obj, srcOff: pC(av.base), srcIdx: av.at, hasSrcIdx: true, pos: pos})
					return true
				}
			}
		}
		return false
	}
	switch x := in.(type) {
	case *ssa.UnOp:
		if x.Op != token.MUL {
			return false
		}
		switch v := e.get(st, x.X).(type) {
		case gRecv:
			if stt, ok := x.Type().Underlying().(*types.Struct); ok {
				st.vals[x] = gStructVal{from: v.name, at: len(st.geff), t: stt, sname: structNameOf(x.Type())}
				return true
			}
		case gArr:
			if _, ok := x.Type().Underlying().(*types.Array); ok {
				st.vals[x] = gArrVal{v.obj, len(st.geff), v.n, v.esz, v.base}
				return true
			}
		case gField:
			if at, ok := x.Type().Underlying().(*types.Array); ok {
				if a, ok := d.fieldValue(st, v, at).(gArr); ok {
					st.vals[x] = gArrVal{a.obj, len(st.geff), a.n, a.esz, a.base}
					return true
				}
			}
		case gPtr:
			// a data word: identified by object, offset and the point of the load
			st.vals[x] = pInt{&pt{op: "ld", args: []*pt{v.off}, k: v.obj, n: big.NewInt(int64(len(st.geff)))}}
			return true
		}
	case *ssa.Store:
		v := e.get(st, x.Val)
		switch a := e.get(st, x.Addr).(type) {
		case gField:
			if st.gfields == nil {
				st.gfields = map[string]sVal{}
			}
			if sv, ok := v.(gStructVal); ok {
				d.storeStruct(st, a.recv+"."+a.field, sv)
				return true
			}
			if av, ok := v.(gArrVal); ok {
				if at, ok := x.Val.Type().Underlying().(*types.Array); ok {
					if dst, ok := d.fieldValue(st, a, at).(gArr); ok {
						st.geff = append(st.geff, gEffect{kind: "copy", obj: dst.obj, off: pC(dst.base), n: pC(int64(av.n * av.esz)), srcObj: av.obj, srcOff: pC(av.base), srcIdx: av.at, hasSrcIdx: true, pos: pos})
						return true
					}
				}
				return false
			}
			st.gfields[a.recv+"."+a.field] = v
			return true
		case gRecv:
			if sv, ok := v.(gStructVal); ok {
				d.storeStruct(st, a.name, sv)
				return true
			}
		case gArr:
			if av, ok := v.(gArrVal); ok {
				st.geff = append(st.geff, gEffect{kind: "copy", obj: a.obj, off: pC(a.base), n: pC(int64(av.n * av.esz)), srcObj: av.obj, srcOff: pC(av.base), srcIdx: av.at, hasSrcIdx: true, pos: pos})
				return true
			}
		case gPtr:
			ef := gEffect{kind: "write", obj: a.obj, off: a.off, n: pC(int64(a.esz)), pos: pos}
			if t, ok := termOf(v); ok {
				ef.val = t
			}
			st.geff = append(st.geff, ef)
			return true
		}
	case *ssa.Index:
		// element of an array value
		if av, ok := e.get(st, x.X).(gArrVal); ok {
			if idx, ok := termOf(e.get(st, x.Index)); ok {
				st.vals[x] = pInt{&pt{op: "ld", args: []*pt{pAdd(pC(av.base), pMul(pC(int64(av.esz)), idx))}, k: av.obj, n: big.NewInt(int64(av.at))}}
				return true
			}
		}
	}
	return false
}

// streamCall: summaries of the stream domain. Returns handled.
func (d *protoDom) streamCall(st *sState, call *ssa.Call, name string, args []sVal) bool {
	e := d.e
	pos := e.p.InstrPos(call)
	set := func(v sVal) { st.vals[call] = v }
	if cal := call.Call.StaticCallee(); cal != nil && cal == sm3CompressFn(e.p) {
		name = "sm3.compress"
	}
	switch name {
	case "sm3.compress":
		recv, ok1 := args[0].(gRecv)
		msg, ok2 := args[1].(gSlice)
		if !ok2 {
			// the block handed over as a pointer to a 64-byte array: a local array, or the buffer field of the receiver
			blk := args[1]
			if gf, isF := blk.(gField); isF {
				if cal := call.Call.StaticCallee(); cal != nil && cal.Signature.Params().Len() == 1 {
					if pa, isP := cal.Signature.Params().At(0).Type().Underlying().(*types.Pointer); isP {
						if at, isA := pa.Elem().Underlying().(*types.Array); isA {
							blk = d.fieldValue(st, gf, at)
						}
					}
				}
			}
			if a, isA := blk.(gArr); isA && a.n*a.esz == 64 {
				msg, ok2 = gSlice{a.obj, pC(a.base), pC(64), pC(64), 1}, true
			}
		}
		if !ok1 || !ok2 {
			e.fail("cf called at %s with a receiver or a block the domain does not model", pos)
			set(sNil{})
			return true
		}
		d.gOblige(st, "SLICE-BOUNDS", msg.cp, token.GEQ, pC(64), "the compression function reslices its argument to 64 bytes", pos)
		d.gOblige(st, "CALLSITE", msg.ln, token.GEQ, pC(64), "the compression function consumes one 64-byte block", pos)
		st.geff = append(st.geff, gEffect{kind: "cf", obj: msg.obj, off: msg.off, n: pC(64), what: recv.name, pos: pos})
		set(sNil{})
		return true
	case "(encoding/binary.bigEndian).PutUint64", "(encoding/binary.bigEndian).PutUint32", "encoding/binary.bigEndian.PutUint64", "encoding/binary.bigEndian.PutUint32":
		w := int64(8)
		if strings.HasSuffix(name, "32") {
			w = 4
		}
		na := len(args)
		b, ok := args[na-2].(gSlice)
		v, okv := termOf(args[na-1])
		if !ok || !okv {
			e.fail("PutUint at %s with an argument the domain does not model", pos)
			set(sNil{})
			return true
		}
		d.gOblige(st, "INDEX-BOUNDS", b.ln, token.GEQ, pC(w), fmt.Sprintf("PutUint%d needs %d bytes", 8*w, w), pos)
		st.geff = append(st.geff, gEffect{kind: "put", obj: b.obj, off: b.off, n: pC(w), val: v, pos: pos})
		set(sNil{})
		return true
	}
	return false
}

// streamBinop: masks and shifts by constants as quotient / remainder terms
func (d *protoDom) streamBinop(x *ssa.BinOp, a, b sVal) (sVal, bool) {
	ta, oka := isProtoInt(a)
	tb, okb := isProtoInt(b)
	if !oka || !okb || tb.op != "c" || !tb.n.IsInt64() {
		return nil, false
	}
	if _, isP := a.(pInt); !isP {
		return nil, false
	}
	c := tb.n.Int64()
	if av, isConst := constDiff(ta, pC(0)); isConst && av >= 0 {
		// the operand is a constant once simplified
		switch x.Op {
		case token.AND_NOT:
			return sInt{big.NewInt(av &^ c)}, true
		case token.AND:
			return sInt{big.NewInt(av & c)}, true
		case token.SHR:
			if c >= 0 && c < 63 {
				return sInt{big.NewInt(av >> uint(c))}, true
			}
		case token.REM:
			if c > 0 {
				return sInt{big.NewInt(av % c)}, true
			}
		case token.QUO:
			if c > 0 {
				return sInt{big.NewInt(av / c)}, true
			}
		}
	}
	pow := func(v int64) (int, bool) { // v == 2^m
		for m := 1; m < 40; m++ {
			if v == 1<<uint(m) {
				return m, true
			}
		}
		return 0, false
	}
	quo := func(m int) *pt { return &pt{op: "quo", args: []*pt{ta}, k: m} }
	rem := func(m int) *pt { return &pt{op: "rem", args: []*pt{ta}, k: m} }
	switch x.Op {
	case token.AND_NOT:
		if m, ok := pow(c + 1); ok {
			return pInt{pMul(pC(1<<uint(m)), quo(m))}, true
		}
	case token.AND:
		if m, ok := pow(c + 1); ok {
			return pInt{rem(m)}, true
		}
	case token.SHR:
		if c > 0 && c < 40 {
			return pInt{quo(int(c))}, true
		}
	case token.REM:
		if m, ok := pow(c); ok {
			return pInt{rem(m)}, true
		}
	case token.QUO:
		if m, ok := pow(c); ok {
			return pInt{quo(m)}, true
		}
	}
	return nil, false
}

// sm3CompressFn: the compression function of package sm3, identified by its shape rather than its name: the one unexported
// method of *SM3 that takes a byte slice, returns nothing, and touches no field of the state but the chaining value h.
var sm3CompressCache = map[*Prog]*ssa.Function{}

func sm3CompressFn(p *Prog) *ssa.Function {
	if f, ok := sm3CompressCache[p]; ok {
		return f
	}
	var found []*ssa.Function
	for _, fn := range p.RepoFuncs() {
		if fn.Pkg == nil || shortPkg(fn.Pkg.Pkg.Path()) != "sm3" || len(fn.Blocks) == 0 || token.IsExported(fn.Name()) {
			continue
		}
		sig := fn.Signature
		if sig.Recv() == nil || sig.Results().Len() != 0 || sig.Params().Len() != 1 || len(fn.Params) != 2 {
			continue
		}
		// the block: a byte slice, or a pointer to a 64-byte array
		if sl, ok := sig.Params().At(0).Type().Underlying().(*types.Slice); ok {
			if elemSize(sl.Elem()) != 1 {
				continue
			}
		} else if pa, ok := sig.Params().At(0).Type().Underlying().(*types.Pointer); ok {
			at, ok := pa.Elem().Underlying().(*types.Array)
			if !ok || at.Len() != 64 || elemSize(at.Elem()) != 1 {
				continue
			}
		} else {
			continue
		}
		pt0, ok := sig.Recv().Type().Underlying().(*types.Pointer)
		if !ok {
			continue
		}
		if nt, ok := pt0.Elem().(*types.Named); !ok || nt.Obj().Name() != "SM3" {
			continue
		}
		// fields touched directly
		onlyH, touchesH := true, false
		for _, b := range fn.Blocks {
			for _, in := range b.Instrs {
				if fa, ok := in.(*ssa.FieldAddr); ok && fa.X == ssa.Value(fn.Params[0]) {
					nm := pt0.Elem().Underlying().(*types.Struct).Field(fa.Field).Name()
					if p.canonField("SM3", nm, nil) == "h" {
						touchesH = true
					} else {
						onlyH = false
					}
				}
			}
		}
		// the compression function updates the chaining value (a helper that only reads h, such as a serialiser of the
		// digest, does not qualify)
		writesH := false
		for _, b := range fn.Blocks {
			for _, in := range b.Instrs {
				st, ok := in.(*ssa.Store)
				if !ok {
					continue
				}
				addr := st.Addr
				for {
					if ia, ok := addr.(*ssa.IndexAddr); ok {
						addr = ia.X
						continue
					}
					break
				}
				if fa, ok := addr.(*ssa.FieldAddr); ok && fa.X == ssa.Value(fn.Params[0]) {
					writesH = true
				}
			}
		}
		if onlyH && touchesH && writesH {
			found = append(found, fn)
		}
	}
	var f *ssa.Function
	if len(found) == 1 {
		f = found[0]
	}
	sm3CompressCache[p] = f
	return f
}

// spDivNeg: the term -p/c when every coefficient of the polynomial p (of the term src) is divisible by c
func spDivNeg(p spoly, c int64, src *pt) (*pt, bool) {
	if c == 0 {
		return nil, false
	}
	atoms := map[string]*pt{}
	var walk func(t *pt)
	walk = func(t *pt) {
		atoms[strings.ReplaceAll(t.String(), "*", "x")] = t
		for _, a := range t.args {
			walk(a)
		}
	}
	walk(src)
	out := pC(0)
	var keys []string
	for k := range p {
		keys = append(keys, k)
	}
	sort.Strings(keys)
	for _, mono := range keys {
		co := p[mono]
		if !co.IsInt64() || co.Int64()%c != 0 {
			return nil, false
		}
		q := -co.Int64() / c
		if mono == "" {
			out = pAdd(out, pC(q))
			continue
		}
		at, ok := atoms[mono]
		if !ok {
			return nil, false // a product of atoms: not needed for lengths
		}
		out = pAdd(out, pMul(pC(q), at))
	}
	return out, true
}
