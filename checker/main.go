package main

import (
	"flag"
	"fmt"
	"os"
	"path/filepath"
	"runtime/pprof"
	"sort"
	"strconv"
	"time"
)

type checkFn func(c *Ctx, r *Report)

type Ctx struct {
	Repo  string
	Verif string
	Tier  string
}

type checkDef struct {
	level string
	run   checkFn
}

var checks = map[string]checkDef{}

func register(id, level string, fn checkFn) { checks[id] = checkDef{level, fn} }

func main() {
	if len(os.Args) < 2 {
		usage()
	}
	id := os.Args[1]
	if pf := os.Getenv("SMGO_CPUPROFILE"); pf != "" {
		// development aid: CPU profile of a run, written when the run ends or after SMGO_CPUPROFILE_SECONDS
		if f, err := os.Create(pf); err == nil {
			pprof.StartCPUProfile(f)
			defer pprof.StopCPUProfile()
			if secs, err := strconv.Atoi(os.Getenv("SMGO_CPUPROFILE_SECONDS")); err == nil && secs > 0 {
				go func() {
					time.Sleep(time.Duration(secs) * time.Second)
					pprof.StopCPUProfile()
					f.Close()
					os.Exit(3)
				}()
			}
		}
	}
	if id == "extents" && len(os.Args) > 3 {
		debugExtents(os.Args[2:])
		return
	}
	if id == "glue" && len(os.Args) > 2 {
		debugGlue(os.Args[2:])
		return
	}
	if id == "stream" && len(os.Args) > 2 {
		debugStream(os.Args[2:])
		return
	}
	if id == "streamrules" {
		debugStreamRules(os.Args[2:])
		return
	}
	if id == "gluerules" {
		debugGlueRules(os.Args[2:])
		return
	}
	if id == "protospec" {
		debugProtoSpec(os.Args[2:])
		return
	}
	if id == "consteval" && len(os.Args) > 2 {
		debugConstEval(os.Args[2:])
		return
	}
	if id == "proto" && len(os.Args) > 2 {
		debugProto(os.Args[2:])
		return
	}
	if id == "retglobals" {
		debugRetGlobals(os.Args[2:])
		return
	}
	if id == "effects" && len(os.Args) > 2 {
		debugEffects(os.Args[2:])
		return
	}
	if id == "guards" && len(os.Args) > 2 {
		debugGuards(os.Args[2:])
		return
	}
	fs := flag.NewFlagSet("smgocheck", flag.ExitOnError)
	tier := fs.String("tier", envOr("VERIF_TIER", "quick"), "quick|thorough")
	repo := fs.String("repo", "/repo", "repository root")
	verif := fs.String("verif", "/verif", "verif root (known_findings.json, evidence/)")
	evidence := fs.String("evidence", "", "evidence file (default <verif>/evidence/<id>.json)")
	replay := fs.String("replay", "", "replay file: re-evaluate the check and report only the obligations listed there")
	fs.Parse(os.Args[2:])
	def, ok := checks[id]
	if !ok {
		usage()
	}
	if *tier != "quick" && *tier != "thorough" {
		*tier = "quick"
	}
	abs, err := filepath.Abs(*repo)
	if err == nil {
		*repo = abs
	}
	if *evidence == "" {
		*evidence = filepath.Join(*verif, "evidence", id+".json")
	}
	c := &Ctx{Repo: *repo, Verif: *verif, Tier: *tier}
	r := NewReport(id, *tier, def.level)
	func() {
		defer func() {
			if e := recover(); e != nil {
				r.Fatalf("analysis panic: %v", e)
				if os.Getenv("SMGOCHECK_DEBUG") != "" {
					panic(e)
				}
			}
		}()
		def.run(c, r)
	}()
	if *replay != "" {
		r.filterReplay(*replay)
	}
	os.Exit(r.Finish(*verif, *evidence))
}

func envOr(k, d string) string {
	if v := os.Getenv(k); v != "" {
		return v
	}
	return d
}

func usage() {
	var ids []string
	for k := range checks {
		ids = append(ids, k)
	}
	sort.Strings(ids)
	fmt.Fprintf(os.Stderr, "usage: smgocheck <id> [--tier quick|thorough] [--repo DIR] [--evidence FILE] [--replay FILE]\nids: %v\n", ids)
	os.Exit(2)
}
