package main

// C16 (g): algebraic and range rules for the Fiat-generated Montgomery primitives (straight-line SSA, one block).
//  NO-WRAP     interval analysis: every plain +, -, *, << on machine words stays inside the word (only bits.Add64/Sub64/Mul64
//              may carry), so the integer equations below are exact.
//  FINAL-REDUCTION  the last stage is the standard conditional subtraction of the modulus selected by the final borrow
//              (Add, Mul, Square, To/FromMontgomery) resp. conditional add-back selected by the borrow (Sub, Opp).
//  CONGRUENCE  every bits.Mul64/Add64/Sub64 yields one exact integer equation; the value before the final reduction V
//              satisfies the Montgomery congruence (e.g. 2^256*V = A*B mod m) iff the target linear form lies in the span
//              of the equations over the field F_m (Gaussian elimination; results the code drops are zero by construction
//              and are generators). Products of two input limbs are atomic symbols, so everything is linear.

import (
	"fmt"
	"go/token"
	"math/big"
	"sort"
	"strings"

	"golang.org/x/tools/go/ssa"
)

type linF map[int]*big.Int // symbol id -> coefficient mod m ; id 0 is the constant 1

type fiatAlg struct {
	p     *Prog
	fn    *ssa.Function
	m     *big.Int
	syms  map[string]int
	names []string
	valOf map[ssa.Value]linF
	eqs   []linF
	// cmov bookkeeping: alloc -> (sel, z, nz)
	cmov                     map[*ssa.Alloc][3]ssa.Value
	undec                    []string
	calls                    []*ssa.Call
	rng                      map[ssa.Value]ival
	carryRng                 map[*ssa.Call]ival
	v64memo                  map[ssa.Value]map[int]uint64
	droppedZero, droppedFree int
}

func (a *fiatAlg) sym(name string) int {
	if id, ok := a.syms[name]; ok {
		return id
	}
	id := len(a.names)
	a.syms[name] = id
	a.names = append(a.names, name)
	return id
}

func (a *fiatAlg) norm(x *big.Int) *big.Int {
	r := new(big.Int).Mod(x, a.m)
	return r
}

func (a *fiatAlg) lconst(c *big.Int) linF {
	v := a.norm(c)
	if v.Sign() == 0 {
		return linF{}
	}
	return linF{0: v}
}
func (a *fiatAlg) lsym(id int) linF { return linF{id: big.NewInt(1)} }
func (a *fiatAlg) addScaled(x, y linF, s *big.Int) linF {
	out := linF{}
	for k, v := range x {
		out[k] = new(big.Int).Set(v)
	}
	for k, v := range y {
		t := new(big.Int).Mul(v, s)
		if o, ok := out[k]; ok {
			t.Add(t, o)
		}
		t = a.norm(t)
		if t.Sign() == 0 {
			delete(out, k)
		} else {
			out[k] = t
		}
	}
	return out
}

func pow2(k uint) *big.Int { return new(big.Int).Lsh(big.NewInt(1), k) }

// inputLimb: v is a load of param[i] with constant i -> (param name, i)
func inputLimb(v ssa.Value) (string, int64, bool) {
	ld, ok := v.(*ssa.UnOp)
	if !ok || ld.Op != token.MUL {
		return "", 0, false
	}
	ia, ok := ld.X.(*ssa.IndexAddr)
	if !ok {
		return "", 0, false
	}
	prm, ok := ia.X.(*ssa.Parameter)
	if !ok {
		return "", 0, false
	}
	c, ok := constU64(ia.Index)
	if !ok {
		return "", 0, false
	}
	return prm.Name(), int64(c), true
}

func (a *fiatAlg) val(v ssa.Value) linF {
	if l, ok := a.valOf[v]; ok {
		return l
	}
	var out linF
	switch x := v.(type) {
	case *ssa.Const:
		u, ok := constU64(x)
		if !ok {
			a.undec = append(a.undec, "non-integer constant")
			return linF{}
		}
		out = a.lconst(new(big.Int).SetUint64(u))
	case *ssa.Convert:
		if iv, ok := a.rng[x]; ok {
			if in, ok2 := a.rng[x.X]; ok2 && in.hi.Cmp(iv.hi) > 0 {
				a.undec = append(a.undec, "narrowing conversion at "+a.p.InstrPos(x))
			}
		}
		out = a.val(x.X)
	case *ssa.ChangeType:
		out = a.val(x.X)
	case *ssa.UnOp:
		if name, i, ok := inputLimb(x); ok {
			out = a.lsym(a.sym(fmt.Sprintf("%s[%d]", name, i)))
		} else if al, ok := x.X.(*ssa.Alloc); ok && x.Op == token.MUL {
			out = a.lsym(a.sym(fmt.Sprintf("cmov@%p", al)))
		} else {
			out = a.lsym(a.sym(fmt.Sprintf("opaque@%p", v)))
		}
	case *ssa.BinOp:
		switch x.Op {
		case token.ADD:
			out = a.addScaled(a.val(x.X), a.val(x.Y), big.NewInt(1))
		case token.SUB:
			out = a.addScaled(a.val(x.X), a.val(x.Y), big.NewInt(-1))
		default:
			out = a.lsym(a.sym(fmt.Sprintf("nonlinear@%p", v)))
		}
	case *ssa.Extract:
		out = a.lsym(a.sym(fmt.Sprintf("r%d@%p", x.Index, x.Tuple)))
	default:
		out = a.lsym(a.sym(fmt.Sprintf("opaque@%p", v)))
	}
	a.valOf[v] = out
	return out
}

// v64: exact linear form of a value modulo 2^64 (symbol id -> coefficient; id 0 the constant). Low halves of products by a
// constant and sums/differences are exact modulo 2^64; everything else is an atomic symbol.
func (a *fiatAlg) v64(v ssa.Value) map[int]uint64 {
	if a.v64memo == nil {
		a.v64memo = map[ssa.Value]map[int]uint64{}
	}
	if m, ok := a.v64memo[v]; ok {
		return m
	}
	add := func(dst, src map[int]uint64, c uint64) {
		for k, x := range src {
			dst[k] += x * c
			if dst[k] == 0 {
				delete(dst, k)
			}
		}
	}
	out := map[int]uint64{}
	atom := func() { out[a.sym(fmt.Sprintf("v64@%p", v))] = 1 }
	switch x := v.(type) {
	case *ssa.Const:
		if u, ok := constU64(x); ok {
			if u != 0 {
				out[0] = u
			}
		} else {
			atom()
		}
	case *ssa.Convert:
		if x.Type().Underlying().String() == "uint64" && x.X.Type().Underlying().String() == "uint64" {
			out = a.v64(x.X)
		} else if iv, ok := a.rng[x.X]; ok && iv.hi.Cmp(big.NewInt(1)) <= 0 {
			out = a.v64(x.X) // carries pass through sm2Uint1/uint64 conversions unchanged
		} else {
			atom()
		}
	case *ssa.ChangeType:
		out = a.v64(x.X)
	case *ssa.UnOp:
		if name, i, ok := inputLimb(x); ok {
			out[a.sym(fmt.Sprintf("%s[%d]", name, i))] = 1
		} else {
			atom()
		}
	case *ssa.BinOp:
		switch x.Op {
		case token.ADD:
			add(out, a.v64(x.X), 1)
			add(out, a.v64(x.Y), 1)
		case token.SUB:
			add(out, a.v64(x.X), 1)
			add(out, a.v64(x.Y), ^uint64(0))
		default:
			atom()
		}
	case *ssa.Extract:
		call, ok := x.Tuple.(*ssa.Call)
		if !ok || call.Call.StaticCallee() == nil {
			atom()
			break
		}
		args := call.Call.Args
		switch call.Call.StaticCallee().Name() {
		case "Mul64":
			if x.Index == 1 {
				if c, ok := constU64(args[1]); ok {
					add(out, a.v64(args[0]), c)
				} else if c, ok := constU64(args[0]); ok {
					add(out, a.v64(args[1]), c)
				} else {
					atom()
				}
			} else {
				atom()
			}
		case "Add64":
			if x.Index == 0 {
				for _, ar := range args {
					add(out, a.v64(ar), 1)
				}
			} else {
				atom()
			}
		case "Sub64":
			if x.Index == 0 {
				add(out, a.v64(args[0]), 1)
				add(out, a.v64(args[1]), ^uint64(0))
				add(out, a.v64(args[2]), ^uint64(0))
			} else {
				atom()
			}
		default:
			atom()
		}
	default:
		atom()
	}
	a.v64memo[v] = out
	return out
}

// zero64: is the sum / difference / low half produced by this call identically zero modulo 2^64?
func (a *fiatAlg) zero64(call *ssa.Call, name string) bool {
	args := call.Call.Args
	tot := map[int]uint64{}
	add := func(src map[int]uint64, c uint64) {
		for k, x := range src {
			tot[k] += x * c
			if tot[k] == 0 {
				delete(tot, k)
			}
		}
	}
	switch name {
	case "Add64":
		for _, ar := range args {
			add(a.v64(ar), 1)
		}
	case "Sub64":
		add(a.v64(args[0]), 1)
		add(a.v64(args[1]), ^uint64(0))
		add(a.v64(args[2]), ^uint64(0))
	case "Mul64":
		if c, ok := constU64(args[1]); ok {
			add(a.v64(args[0]), c)
		} else if c, ok := constU64(args[0]); ok {
			add(a.v64(args[1]), c)
		} else {
			return false
		}
	}
	return len(tot) == 0
}

// product of two values: constant*linear, or an atomic symbol for input limb * input limb
func (a *fiatAlg) product(x, y ssa.Value) (linF, bool) {
	if c, ok := constU64(x); ok {
		return a.addScaled(linF{}, a.val(y), new(big.Int).SetUint64(c)), true
	}
	if c, ok := constU64(y); ok {
		return a.addScaled(linF{}, a.val(x), new(big.Int).SetUint64(c)), true
	}
	n1, i1, ok1 := inputLimb(stripConv(x))
	n2, i2, ok2 := inputLimb(stripConv(y))
	if ok1 && ok2 {
		k1, k2 := fmt.Sprintf("%s[%d]", n1, i1), fmt.Sprintf("%s[%d]", n2, i2)
		if k2 < k1 {
			k1, k2 = k2, k1
		}
		return a.lsym(a.sym(k1 + "*" + k2)), true
	}
	return nil, false
}

func stripConv(v ssa.Value) ssa.Value {
	for {
		switch x := v.(type) {
		case *ssa.Convert:
			v = x.X
		case *ssa.ChangeType:
			v = x.X
		default:
			return v
		}
	}
}

func (a *fiatAlg) build() {
	w64 := pow2(64)
	for _, b := range a.fn.Blocks {
		for _, in := range b.Instrs {
			call, ok := in.(*ssa.Call)
			if !ok {
				continue
			}
			cal := call.Call.StaticCallee()
			if cal == nil {
				continue
			}
			if cal.Pkg != nil && cal.Pkg.Pkg.Path() == "math/bits" {
				a.calls = append(a.calls, call)
				r0 := a.lsym(a.sym(fmt.Sprintf("r0@%p", call)))
				r1 := a.lsym(a.sym(fmt.Sprintf("r1@%p", call)))
				args := call.Call.Args
				switch cal.Name() {
				case "Mul64": // hi, lo: 2^64*hi + lo - x*y = 0
					pr, ok := a.product(args[0], args[1])
					if !ok {
						a.undec = append(a.undec, "Mul64 of two non-input values at "+a.p.InstrPos(call))
						continue
					}
					e := a.addScaled(a.addScaled(linF{}, r0, w64), r1, big.NewInt(1))
					a.eqs = append(a.eqs, a.addScaled(e, pr, big.NewInt(-1)))
				case "Add64": // sum, carry: sum + 2^64*carry - x - y - c = 0
					e := a.addScaled(a.addScaled(linF{}, r0, big.NewInt(1)), r1, w64)
					for _, ar := range args {
						e = a.addScaled(e, a.val(ar), big.NewInt(-1))
					}
					a.eqs = append(a.eqs, e)
				case "Sub64": // diff, borrow: diff - 2^64*borrow - x + y + b = 0
					e := a.addScaled(a.addScaled(linF{}, r0, big.NewInt(1)), r1, new(big.Int).Neg(w64))
					e = a.addScaled(e, a.val(args[0]), big.NewInt(-1))
					e = a.addScaled(e, a.val(args[1]), big.NewInt(1))
					e = a.addScaled(e, a.val(args[2]), big.NewInt(1))
					a.eqs = append(a.eqs, e)
				default:
					a.undec = append(a.undec, "unsupported math/bits call "+cal.Name())
				}
				// a result the code drops is a generator only when it is proven zero: a carry/borrow by the interval analysis,
				// a sum/difference/low half by its exact linear form modulo 2^64. Otherwise it stays a free symbol.
				used := map[int]bool{}
				exOf := map[int]*ssa.Extract{}
				if call.Referrers() != nil {
					for _, ref := range *call.Referrers() {
						if ex, ok := ref.(*ssa.Extract); ok {
							exOf[ex.Index] = ex
							if ex.Referrers() != nil && len(*ex.Referrers()) > 0 {
								used[ex.Index] = true
							}
						}
					}
				}
				for i := 0; i < 2; i++ {
					if used[i] {
						continue
					}
					zero := false
					switch {
					case cal.Name() == "Mul64" && i == 1, cal.Name() != "Mul64" && i == 0:
						zero = a.zero64(call, cal.Name())
					case cal.Name() != "Mul64" && i == 1:
						if ex := exOf[1]; ex != nil {
							if iv, ok := a.rng[ex]; ok && iv.hi.Sign() == 0 {
								zero = true
							}
						} else if iv, ok := a.carryRng[call]; ok && iv.hi.Sign() == 0 {
							zero = true
						}
					}
					if zero {
						a.eqs = append(a.eqs, a.lsym(a.sym(fmt.Sprintf("r%d@%p", i, call))))
						a.droppedZero++
					} else {
						a.droppedFree++
					}
				}
				continue
			}
			if strings.HasSuffix(cal.Name(), "CmovznzU64") && len(call.Call.Args) == 4 {
				if al, ok := call.Call.Args[0].(*ssa.Alloc); ok {
					a.cmov[al] = [3]ssa.Value{call.Call.Args[1], call.Call.Args[2], call.Call.Args[3]}
				}
			}
		}
	}
}

// inSpan: does t lie in the span of the equations over F_m?
func (a *fiatAlg) inSpan(t linF) bool {
	rows := make([]linF, len(a.eqs))
	for i, e := range a.eqs {
		rows[i] = e
	}
	// Gaussian elimination: pivot per symbol
	pivots := map[int]linF{}
	var order []int
	for _, r := range rows {
		r = a.reduce(r, pivots, order)
		if len(r) == 0 {
			continue
		}
		// choose pivot: largest symbol id (not the constant if avoidable)
		pv := -1
		for k := range r {
			if k > pv {
				pv = k
			}
		}
		inv := new(big.Int).ModInverse(r[pv], a.m)
		nr := linF{}
		for k, v := range r {
			nr[k] = a.norm(new(big.Int).Mul(v, inv))
		}
		pivots[pv] = nr
		order = append(order, pv)
	}
	rem := a.reduce(t, pivots, order)
	return len(rem) == 0
}

func (a *fiatAlg) reduce(r linF, pivots map[int]linF, order []int) linF {
	out := linF{}
	for k, v := range r {
		out[k] = v
	}
	// eliminate pivot symbols repeatedly (pivot rows may reintroduce smaller ones)
	for iter := 0; iter < 100000; iter++ {
		pv := -1
		for k := range out {
			if _, ok := pivots[k]; ok && k > pv {
				pv = k
			}
		}
		if pv < 0 {
			break
		}
		out = a.addScaled(out, pivots[pv], new(big.Int).Neg(out[pv]))
	}
	return out
}

func limbsValue(a *fiatAlg, limbs []ssa.Value) linF {
	t := linF{}
	for i, l := range limbs {
		t = a.addScaled(t, a.val(l), pow2(uint(64*i)))
	}
	return t
}

func (a *fiatAlg) inputValue(name string, n int) linF {
	t := linF{}
	for i := 0; i < n; i++ {
		t = a.addScaled(t, a.lsym(a.sym(fmt.Sprintf("%s[%d]", name, i))), pow2(uint(64*i)))
	}
	return t
}

func (a *fiatAlg) inputProduct(n1, n2 string) linF {
	t := linF{}
	for i := 0; i < 4; i++ {
		for j := 0; j < 4; j++ {
			k1, k2 := fmt.Sprintf("%s[%d]", n1, i), fmt.Sprintf("%s[%d]", n2, j)
			if k2 < k1 {
				k1, k2 = k2, k1
			}
			t = a.addScaled(t, a.lsym(a.sym(k1+"*"+k2)), pow2(uint(64*(i+j))))
		}
	}
	return t
}

// finalCondSub recognises: z_i, b_i = Sub64(nz_i, m_i, b_{i-1}) (i=0..3); _, sel = Sub64(top, 0, b_3); out1[i] = cmov(sel, z_i, nz_i).
// Returns the pre-reduction limbs (nz_0..nz_3, top).
func finalCondSub(a *fiatAlg, mod *big.Int) ([]ssa.Value, string) {
	fn := a.fn
	want := limbsLE(mod)
	// stores to out1[i]
	outVals := map[int64]ssa.Value{}
	for _, b := range fn.Blocks {
		for _, in := range b.Instrs {
			st, ok := in.(*ssa.Store)
			if !ok {
				continue
			}
			ia, ok := st.Addr.(*ssa.IndexAddr)
			if !ok {
				continue
			}
			if prm, ok := ia.X.(*ssa.Parameter); ok && strings.HasPrefix(prm.Name(), "out") {
				if c, ok := constU64(ia.Index); ok {
					outVals[int64(c)] = st.Val
				}
			}
		}
	}
	if len(outVals) != 4 {
		return nil, fmt.Sprintf("%d stores to out1 (4 expected)", len(outVals))
	}
	var pre []ssa.Value
	var sel ssa.Value
	var lastBorrow ssa.Value
	for i := int64(0); i < 4; i++ {
		ld, ok := outVals[i].(*ssa.UnOp)
		if !ok {
			return nil, "out1 limb is not a conditional-move result"
		}
		al, ok := ld.X.(*ssa.Alloc)
		if !ok {
			return nil, "out1 limb is not a conditional-move result"
		}
		cm, ok := a.cmov[al]
		if !ok {
			return nil, "out1 limb is not produced by CmovznzU64"
		}
		if sel == nil {
			sel = stripConv(cm[0])
		} else if stripConv(cm[0]) != sel {
			return nil, "conditional moves use different selectors"
		}
		z, nz := stripConv(cm[1]), stripConv(cm[2])
		ex, ok := z.(*ssa.Extract)
		if !ok || ex.Index != 0 {
			return nil, "selected-when-zero operand is not the difference of a Sub64"
		}
		call, ok := ex.Tuple.(*ssa.Call)
		if !ok || call.Call.StaticCallee() == nil || call.Call.StaticCallee().Name() != "Sub64" {
			return nil, "selected-when-zero operand is not the difference of a Sub64"
		}
		if stripConv(call.Call.Args[0]) != nz {
			return nil, fmt.Sprintf("limb %d: the subtraction's minuend is not the value kept on borrow", i)
		}
		u, ok := constU64(call.Call.Args[1])
		if !ok || u != want[i] {
			return nil, fmt.Sprintf("limb %d: subtrahend %#x is not the modulus limb %#x", i, u, want[i])
		}
		// borrow chain
		bi := stripConv(call.Call.Args[2])
		if i == 0 {
			if c, ok := constU64(bi); !ok || c != 0 {
				return nil, "first subtraction has a borrow-in"
			}
		} else if bi != lastBorrow {
			return nil, fmt.Sprintf("limb %d: borrow chain broken", i)
		}
		lastBorrow = nil
		if call.Referrers() != nil {
			for _, ref := range *call.Referrers() {
				if e2, ok := ref.(*ssa.Extract); ok && e2.Index == 1 {
					lastBorrow = e2
				}
			}
		}
		pre = append(pre, nz)
	}
	// selector: _, sel = Sub64(top, 0, b_3)
	se, ok := sel.(*ssa.Extract)
	if !ok || se.Index != 1 {
		return nil, "selector is not a borrow"
	}
	sc, ok := se.Tuple.(*ssa.Call)
	if !ok || sc.Call.StaticCallee() == nil || sc.Call.StaticCallee().Name() != "Sub64" {
		return nil, "selector is not the borrow of a Sub64"
	}
	if c, ok := constU64(sc.Call.Args[1]); !ok || c != 0 {
		return nil, "top-limb subtraction does not subtract 0"
	}
	if stripConv(sc.Call.Args[2]) != lastBorrow {
		return nil, "top-limb subtraction does not consume the last borrow"
	}
	pre = append(pre, stripConv(sc.Call.Args[0]))
	return pre, ""
}

// maskSelector: v is (sel ? all-ones : 0) for a 0/1 value sel; returns sel
func maskSelector(a *fiatAlg, v ssa.Value) (ssa.Value, string) {
	v = stripConv(v)
	switch x := v.(type) {
	case *ssa.UnOp:
		if x.Op == token.MUL {
			if al, ok := x.X.(*ssa.Alloc); ok {
				cm, ok := a.cmov[al]
				if !ok {
					return nil, "mask is not produced by CmovznzU64"
				}
				z, okz := constU64(cm[1])
				nz, oknz := constU64(cm[2])
				if !okz || !oknz || z != 0 || nz != ^uint64(0) {
					return nil, "mask is not (borrow ? all-ones : 0)"
				}
				return stripConv(cm[0]), ""
			}
		}
		if x.Op == token.SUB { // -sel
			return stripConv(x.X), ""
		}
	case *ssa.BinOp:
		if x.Op == token.MUL {
			if k, ok := constU64(x.Y); ok && k == ^uint64(0) {
				return stripConv(x.X), ""
			}
			if k, ok := constU64(x.X); ok && k == ^uint64(0) {
				return stripConv(x.Y), ""
			}
		}
		if x.Op == token.SUB {
			if k, ok := constU64(x.X); ok && k == 0 {
				return stripConv(x.Y), ""
			}
		}
	}
	return nil, "addend mask is not (borrow ? all-ones : 0) in a recognised spelling (conditional move, negation, multiplication by all-ones)"
}

// finalAddBack recognises: mask = cmov(sel, 0, all-ones); s_i, c_i = Add64(D_i, mask [& m_i], c_{i-1}); out1[i] = s_i.
// Returns the limbs D and the selector (the borrow of the subtraction).
func finalAddBack(a *fiatAlg, mod *big.Int) ([]ssa.Value, ssa.Value, string) {
	want := limbsLE(mod)
	outVals := map[int64]ssa.Value{}
	for _, b := range a.fn.Blocks {
		for _, in := range b.Instrs {
			st, ok := in.(*ssa.Store)
			if !ok {
				continue
			}
			if ia, ok := st.Addr.(*ssa.IndexAddr); ok {
				if prm, ok := ia.X.(*ssa.Parameter); ok && strings.HasPrefix(prm.Name(), "out") {
					if c, ok := constU64(ia.Index); ok {
						outVals[int64(c)] = st.Val
					}
				}
			}
		}
	}
	if len(outVals) != 4 {
		return nil, nil, fmt.Sprintf("%d stores to out1 (4 expected)", len(outVals))
	}
	var D []ssa.Value
	var sel, lastCarry ssa.Value
	for i := int64(0); i < 4; i++ {
		ex, ok := stripConv(outVals[i]).(*ssa.Extract)
		if !ok || ex.Index != 0 {
			return nil, nil, "out1 limb is not the sum of an Add64"
		}
		call, ok := ex.Tuple.(*ssa.Call)
		if !ok || call.Call.StaticCallee() == nil || call.Call.StaticCallee().Name() != "Add64" {
			return nil, nil, "out1 limb is not the sum of an Add64"
		}
		args := call.Call.Args
		// second operand: mask or mask & const
		var mv ssa.Value = stripConv(args[1])
		limb := ^uint64(0)
		if bo, isB := mv.(*ssa.BinOp); isB && bo.Op == token.AND {
			if u, okc := constU64(bo.Y); okc {
				limb, mv = u, stripConv(bo.X)
			} else if u, okc := constU64(bo.X); okc {
				limb, mv = u, stripConv(bo.Y)
			} else {
				return nil, nil, "addend is not mask & constant"
			}
		}
		if limb != want[i] {
			return nil, nil, fmt.Sprintf("limb %d: masked constant %#x is not the modulus limb %#x", i, limb, want[i])
		}
		// the mask: (borrow ? all-ones : 0), written as a conditional move, as -borrow, or as borrow * all-ones
		ms, why := maskSelector(a, mv)
		if ms == nil {
			return nil, nil, why
		}
		if sel != nil && ms != sel {
			return nil, nil, "the limbs are masked by different selectors"
		}
		sel = ms
		ci := stripConv(args[2])
		if i == 0 {
			if c, ok := constU64(ci); !ok || c != 0 {
				return nil, nil, "first addition has a carry-in"
			}
		} else if ci != lastCarry {
			return nil, nil, fmt.Sprintf("limb %d: carry chain broken", i)
		}
		lastCarry = nil
		if call.Referrers() != nil {
			for _, ref := range *call.Referrers() {
				if e2, ok := ref.(*ssa.Extract); ok && e2.Index == 1 {
					lastCarry = e2
				}
			}
		}
		D = append(D, stripConv(args[0]))
	}
	se, ok := sel.(*ssa.Extract)
	if !ok || se.Index != 1 {
		return nil, nil, "mask selector is not a borrow"
	}
	if sc, ok := se.Tuple.(*ssa.Call); !ok || sc.Call.StaticCallee() == nil || sc.Call.StaticCallee().Name() != "Sub64" {
		return nil, nil, "mask selector is not the borrow of a Sub64"
	}
	return D, sel, ""
}

func c16Algebra(r *Report, p *Prog, P, N *big.Int) {
	type spec struct {
		name, kind string
		mod        *big.Int
	}
	var specs []spec
	for _, pre := range []struct {
		p string
		m *big.Int
	}{{"sm2", P}, {"sm2Scalar", N}} {
		for _, k := range []string{"Mul", "Square", "Add", "Sub", "Opp", "FromMontgomery", "ToMontgomery"} {
			specs = append(specs, spec{pre.p + k, k, pre.m})
		}
	}
	for _, sp := range specs {
		fn := p.MustFunc(r, "sm2/internal/fiat."+sp.name)
		if fn == nil {
			continue
		}
		key := "sm2/internal/fiat." + sp.name
		pos := p.Pos(fn.Pos())
		if to := fiatDelegates(fn, strings.TrimSuffix(sp.name, sp.kind), sp.kind); to != "" {
			// the callee's own obligations are decided in this loop; the identity is 0 - a resp. a * a
			r.Ok("FINAL-REDUCTION", key, pos, "delegates to "+strings.TrimSuffix(sp.name, sp.kind)+to+" (decided on its own), whose last stage is the reduction")
			r.Ok("CONGRUENCE", key, pos, map[string]string{"Sub": "0 - arg1 through Sub with a zero minuend that is never written", "Mul": "arg1 * arg1 through Mul"}[to])
			continue
		}
		a := &fiatAlg{p: p, fn: fn, m: sp.mod, syms: map[string]int{"1": 0}, names: []string{"1"}, valOf: map[ssa.Value]linF{}, cmov: map[*ssa.Alloc][3]ssa.Value{}}
		if len(fn.Blocks) != 1 {
			r.Undecided("CONGRUENCE", key, pos, "generated primitive is no longer straight-line")
			continue
		}
		a.rng, a.carryRng, _, _ = fiatIntervals(p, fn)
		a.build()
		if len(a.undec) > 0 {
			r.Undecided("CONGRUENCE", key, pos, strings.Join(a.undec, "; "))
			continue
		}
		if sp.kind == "Sub" || sp.kind == "Opp" {
			D, sel, why := finalAddBack(a, sp.mod)
			r.Check(why == "", "FINAL-REDUCTION", key, pos, "last stage adds back (borrow ? m : 0) limb by limb with one carry chain"+ifs(why != "", ": "+why))
			if why != "" {
				continue
			}
			// D - 2^256*borrow = arg1 - arg2 (Opp: 0 - arg1), exactly
			T := a.addScaled(limbsValue(a, D), a.val(sel), new(big.Int).Neg(pow2(256)))
			what := "D - 2^256*borrow = arg1 - arg2"
			if sp.kind == "Sub" {
				T = a.addScaled(T, a.inputValue(fn.Params[1].Name(), 4), big.NewInt(-1))
				T = a.addScaled(T, a.inputValue(fn.Params[2].Name(), 4), big.NewInt(1))
			} else {
				T = a.addScaled(T, a.inputValue(fn.Params[1].Name(), 4), big.NewInt(1))
				what = "D - 2^256*borrow = -arg1"
			}
			r.Count("fiat_equations", len(a.eqs))
			r.Check(a.inSpan(T), "CONGRUENCE", key, pos, fmt.Sprintf("%s follows from the %d instruction equations; D = difference before the add-back", what, len(a.eqs)))
			continue
		}
		pre, why := finalCondSub(a, sp.mod)
		r.Check(why == "", "FINAL-REDUCTION", key, pos, "last stage is the conditional subtraction of the modulus selected by the final borrow"+ifs(why != "", ": "+why))
		if why != "" {
			continue
		}
		V := limbsValue(a, pre)
		R := pow2(256)
		var T linF
		var what string
		a1 := fn.Params[1].Name()
		switch sp.kind {
		case "Mul":
			a2 := fn.Params[2].Name()
			T = a.addScaled(a.addScaled(linF{}, V, R), a.inputProduct(a1, a2), big.NewInt(-1))
			what = "2^256 * V = arg1 * arg2 (mod m)"
		case "Square":
			T = a.addScaled(a.addScaled(linF{}, V, R), a.inputProduct(a1, a1), big.NewInt(-1))
			what = "2^256 * V = arg1^2 (mod m)"
		case "Add":
			a2 := fn.Params[2].Name()
			T = a.addScaled(a.addScaled(V, a.inputValue(a1, 4), big.NewInt(-1)), a.inputValue(a2, 4), big.NewInt(-1))
			what = "V = arg1 + arg2"
		case "FromMontgomery":
			T = a.addScaled(a.addScaled(linF{}, V, R), a.inputValue(a1, 4), big.NewInt(-1))
			what = "2^256 * V = arg1 (mod m)"
		case "ToMontgomery":
			T = a.addScaled(V, a.inputValue(a1, 4), new(big.Int).Neg(R))
			what = "V = 2^256 * arg1 (mod m)"
		}
		r.Count("fiat_equations", len(a.eqs))
		ok := a.inSpan(T)
		r.Check(ok, "CONGRUENCE", key, pos, fmt.Sprintf("%s follows from the %d instruction equations (span over F_m, %d symbols); V = value before the final conditional subtraction", what, len(a.eqs), len(a.names)))
	}
}

// fiatDelegates: the primitive does nothing but call another primitive of its family in a way that realises its own
// contract: Opp(out, a) = Sub(out, &zero, a) with zero a local that is never written, Square(out, a) = Mul(out, a, a).
// Returns the callee's short name ("Sub", "Mul") or "".
func fiatDelegates(fn *ssa.Function, prefix, kind string) string {
	if len(fn.Blocks) != 1 || len(fn.Params) < 2 {
		return ""
	}
	var call *ssa.Call
	var allocs []*ssa.Alloc
	for _, in := range fn.Blocks[0].Instrs {
		switch x := in.(type) {
		case *ssa.Alloc:
			allocs = append(allocs, x)
		case *ssa.Call:
			if call != nil {
				return ""
			}
			call = x
		case *ssa.Return, *ssa.DebugRef:
		default:
			return ""
		}
	}
	if call == nil {
		return ""
	}
	cal := call.Call.StaticCallee()
	if cal == nil || cal.Pkg != fn.Pkg || len(call.Call.Args) != 3 || call.Call.Args[0] != ssa.Value(fn.Params[0]) {
		return ""
	}
	switch {
	case kind == "Opp" && cal.Name() == prefix+"Sub" && len(allocs) == 1:
		al := allocs[0]
		// the zero minuend: a local whose only use is this call
		if call.Call.Args[1] != ssa.Value(al) || call.Call.Args[2] != ssa.Value(fn.Params[1]) || al.Referrers() == nil {
			return ""
		}
		for _, u := range *al.Referrers() {
			if u != ssa.Instruction(call) {
				if _, dbg := u.(*ssa.DebugRef); !dbg {
					return ""
				}
			}
		}
		return "Sub"
	case kind == "Square" && cal.Name() == prefix+"Mul" && len(allocs) == 0:
		if call.Call.Args[1] == ssa.Value(fn.Params[1]) && call.Call.Args[2] == ssa.Value(fn.Params[1]) {
			return "Mul"
		}
	}
	return ""
}

// ---------------- NO-WRAP ----------------

type ival struct{ lo, hi *big.Int }

var noWrapPrims = []string{"Mul", "Square", "Add", "Sub", "Opp", "FromMontgomery", "ToMontgomery", "Nonzero", "Selectznz", "ToBytes", "FromBytes", "CmovznzU64", "SetOne"}

func c16NoWrap(r *Report, p *Prog) {
	for _, pre := range []string{"sm2", "sm2Scalar"} {
		for _, k := range noWrapPrims {
			fn := p.MustFunc(r, "sm2/internal/fiat."+pre+k)
			if fn == nil {
				continue
			}
			if len(fn.Blocks) != 1 {
				switch k {
				case "Mul", "Square", "Add", "Sub", "Opp", "FromMontgomery", "ToMontgomery":
					r.Undecided("NO-WRAP", p.FuncName(fn), p.Pos(fn.Pos()), "generated primitive is no longer straight-line")
				default:
					r.Ok("NO-WRAP", p.FuncName(fn), p.Pos(fn.Pos()), "not straight-line any more; it is a selection / conversion helper and not part of the congruence argument")
				}
				continue
			}
			_, _, bad, nplain := fiatIntervals(p, fn)
			sort.Strings(bad)
			r.Count("fiat_plain_ops", nplain)
			r.Check(len(bad) == 0, "NO-WRAP", p.FuncName(fn), p.Pos(fn.Pos()), fmt.Sprintf("%d plain word operations (+, -, *, <<) stay inside the machine word by interval analysis; carries exist only through math/bits", nplain)+ifs(len(bad) > 0, ": "+strings.Join(bad, "; ")))
		}
	}
}

// fiatIntervals: forward interval analysis of a straight-line generated primitive.
func fiatIntervals(p *Prog, fn *ssa.Function) (map[ssa.Value]ival, map[*ssa.Call]ival, []string, int) {
	max64 := new(big.Int).Sub(pow2(64), big.NewInt(1))
	carryRng := map[*ssa.Call]ival{}
	{
		rng := map[ssa.Value]ival{}
		allocRng := map[*ssa.Alloc]ival{}
		typeMax := func(v ssa.Value) *big.Int {
			if strings.HasSuffix(v.Type().String(), "Uint1") {
				return big.NewInt(1) // the generator's 1-bit type; conversions to it are checked below
			}
			switch v.Type().Underlying().String() {
			case "uint8":
				return big.NewInt(255)
			case "uint32":
				return new(big.Int).Sub(pow2(32), big.NewInt(1))
			}
			return max64
		}
		var get func(v ssa.Value) ival
		get = func(v ssa.Value) ival {
			if iv, ok := rng[v]; ok {
				return iv
			}
			var out ival
			switch x := v.(type) {
			case *ssa.Const:
				if u, ok := constU64(x); ok {
					b := new(big.Int).SetUint64(u)
					out = ival{b, b}
				} else {
					out = ival{big.NewInt(0), typeMax(v)}
				}
			case *ssa.Convert:
				in := get(x.X)
				tm := typeMax(v)
				if in.hi.Cmp(tm) <= 0 {
					out = in
				} else {
					out = ival{big.NewInt(0), tm}
				}
			case *ssa.ChangeType:
				out = get(x.X)
			case *ssa.UnOp:
				if al, ok := x.X.(*ssa.Alloc); ok && x.Op == token.MUL {
					if iv, ok := allocRng[al]; ok {
						out = iv
						break
					}
				}
				out = ival{big.NewInt(0), typeMax(v)}
			default:
				out = ival{big.NewInt(0), typeMax(v)}
			}
			rng[v] = out
			return out
		}
		bad := []string{}
		nplain := 0
		for _, in := range fn.Blocks[0].Instrs {
			switch x := in.(type) {
			case *ssa.Call:
				cal := x.Call.StaticCallee()
				if cal == nil {
					continue
				}
				if cal.Pkg != nil && cal.Pkg.Pkg.Path() == "math/bits" && x.Referrers() != nil {
					args := x.Call.Args
					var r0, r1 ival
					switch cal.Name() {
					case "Mul64":
						a1, a2 := get(args[0]), get(args[1])
						prod := new(big.Int).Mul(a1.hi, a2.hi)
						r0 = ival{big.NewInt(0), new(big.Int).Rsh(prod, 64)}
						r1 = ival{big.NewInt(0), max64}
					case "Add64":
						s := new(big.Int).Add(get(args[0]).hi, get(args[1]).hi)
						s.Add(s, get(args[2]).hi)
						if s.Cmp(max64) <= 0 {
							lo := new(big.Int).Add(get(args[0]).lo, get(args[1]).lo)
							lo.Add(lo, get(args[2]).lo)
							r0, r1 = ival{lo, s}, ival{big.NewInt(0), big.NewInt(0)}
						} else {
							r0, r1 = ival{big.NewInt(0), max64}, ival{big.NewInt(0), big.NewInt(1)}
						}
					case "Sub64":
						r0, r1 = ival{big.NewInt(0), max64}, ival{big.NewInt(0), big.NewInt(1)}
					default:
						continue
					}
					carryRng[x] = r1
					for _, ref := range *x.Referrers() {
						if ex, ok := ref.(*ssa.Extract); ok {
							if ex.Index == 0 {
								rng[ex] = r0
							} else {
								rng[ex] = r1
							}
						}
					}
					continue
				}
				if strings.HasSuffix(cal.Name(), "CmovznzU64") && len(x.Call.Args) == 4 {
					if al, ok := x.Call.Args[0].(*ssa.Alloc); ok {
						z, nz := get(x.Call.Args[2]), get(x.Call.Args[3])
						lo, hi := z.lo, z.hi
						if nz.lo.Cmp(lo) < 0 {
							lo = nz.lo
						}
						if nz.hi.Cmp(hi) > 0 {
							hi = nz.hi
						}
						allocRng[al] = ival{lo, hi}
					}
				}
			case *ssa.Convert:
				if strings.HasSuffix(x.Type().String(), "Uint1") && get(x.X).hi.Cmp(big.NewInt(1)) > 0 {
					bad = append(bad, fmt.Sprintf("conversion to the 1-bit type at %s truncates a value in [%s,%s]", p.InstrPos(x), get(x.X).lo, get(x.X).hi))
				}
				get(x)
			case *ssa.BinOp:
				a1, a2 := get(x.X), get(x.Y)
				tm := typeMax(x)
				var out ival
				wrap := false
				switch x.Op {
				case token.ADD:
					nplain++
					out = ival{new(big.Int).Add(a1.lo, a2.lo), new(big.Int).Add(a1.hi, a2.hi)}
					wrap = out.hi.Cmp(tm) > 0
				case token.SUB:
					nplain++
					out = ival{new(big.Int).Sub(a1.lo, a2.hi), new(big.Int).Sub(a1.hi, a2.lo)}
					wrap = out.lo.Sign() < 0
				case token.MUL:
					nplain++
					out = ival{new(big.Int).Mul(a1.lo, a2.lo), new(big.Int).Mul(a1.hi, a2.hi)}
					wrap = out.hi.Cmp(tm) > 0
				case token.SHL:
					nplain++
					if a2.lo.Cmp(a2.hi) == 0 && a2.hi.IsUint64() && a2.hi.Uint64() < 64 {
						k := uint(a2.hi.Uint64())
						out = ival{new(big.Int).Lsh(a1.lo, k), new(big.Int).Lsh(a1.hi, k)}
						wrap = out.hi.Cmp(tm) > 0
					} else {
						out = ival{big.NewInt(0), tm}
					}
				case token.SHR:
					if a2.lo.Cmp(a2.hi) == 0 && a2.hi.IsUint64() && a2.hi.Uint64() < 64 {
						k := uint(a2.hi.Uint64())
						out = ival{new(big.Int).Rsh(a1.lo, k), new(big.Int).Rsh(a1.hi, k)}
					} else {
						out = ival{big.NewInt(0), a1.hi}
					}
				case token.AND:
					hi := a1.hi
					if a2.hi.Cmp(hi) < 0 {
						hi = a2.hi
					}
					out = ival{big.NewInt(0), hi}
				case token.OR, token.XOR:
					hi := a1.hi
					if a2.hi.Cmp(hi) > 0 {
						hi = a2.hi
					}
					// round up to all-ones of the same bit length
					out = ival{big.NewInt(0), new(big.Int).Sub(pow2(uint(hi.BitLen())), big.NewInt(1))}
				default:
					out = ival{big.NewInt(0), tm}
				}
				if wrap {
					bad = append(bad, fmt.Sprintf("%s at %s can leave the machine word: operands in [%s,%s] and [%s,%s]", x.Op, p.InstrPos(x), a1.lo, a1.hi, a2.lo, a2.hi))
					out = ival{big.NewInt(0), tm}
				}
				if out.lo.Sign() < 0 {
					out.lo = big.NewInt(0)
				}
				rng[x] = out
			}
		}
		return rng, carryRng, bad, nplain
	}
}
