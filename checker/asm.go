package main

// Engine A1: assembler front end. Runs `go tool asm -S` (the assembler, not the program) on every
// .s file of package sm4 and parses the macro-expanded Prog listing and the data symbol dumps (A5).

import (
	"bufio"
	"bytes"
	"fmt"
	"go/types"
	"os"
	"os/exec"
	"path/filepath"
	"regexp"
	"sort"
	"strconv"
	"strings"
)

type OpKind int

const (
	OImm OpKind = iota
	OReg
	OMem     // off(base)
	OFP      // name+off(FP)
	OSym     // Sym<>(SB)   (memory operand / LEA source)
	OSymAddr // $Sym<>(SB)
	ORegList // [V1.B16,...]
	OTarget  // branch target PC
	OOther
)

type Operand struct {
	Kind  OpKind
	Reg   string // canonical register: AX..R15, V0..V31, K0..K7, R0..R30 (arm64)
	Width int    // register width in bytes as written (amd64: X=16,Y=32,Z=64, AL=1, EAX n/a; arm64 arrangement total)
	Arr   string // arm64 arrangement: "B16","S4","D2","S[2]","Q1",...
	Regs  []string
	Off   int64
	Imm   int64
	Sym   string
	Name  string // FP name
	Raw   string
	Index string // index register of an indexed memory operand off(base)(index*scale)
	Scale int64
}

type Instr struct {
	Idx  int
	PC   int
	Pos  string
	Op   string
	Args []Operand
	Raw  string
	Succ []int // instruction indices
	Pred []int
}

type ParamSlot struct {
	Off   int64
	Param string // Go parameter name
	Part  string // "ptr","len","cap","val","ret"
	Type  string
}

func (s ParamSlot) String() string {
	if s.Part == "val" || s.Part == "ret" {
		return s.Param
	}
	return s.Param + "." + s.Part
}

type Routine struct {
	Arch     string
	File     string
	Name     string // Go name without package
	ArgSize  int64
	Instrs   []*Instr
	pcIndex  map[int]int
	Slots    []ParamSlot // from the Go declaration; nil if no Go declaration
	HasDecl  bool
	Called   bool
	InCycle  []bool
	Reach    []bool
	Dominate [][]bool // lazily
}

type DataSym struct {
	Name  string
	Size  int
	Bytes []byte
	File  string
	Refs  int
}

type AsmUnit struct {
	Rel      string // module-relative package path (defaults to Pkg)
	Pkg      string
	Arch     string
	Routines []*Routine
	Data     map[string]*DataSym // by name; identical redefinitions across files are merged and checked
	Files    []string
}

var asmCache = map[string]*AsmUnit{}

var reInstr = regexp.MustCompile(`^\t0x[0-9a-f]+ (\d+) \(([^)]*)\)\t(\S+)(?:\t(.*))?$`)
var reSymHdr = regexp.MustCompile(`^(\S+) (STEXT|SRODATA|SNOPTRDATA|SDATA|SNOPTRBSS|SBSS)\b(.*)$`)
var reHex = regexp.MustCompile(`^\t0x[0-9a-f]+((?: [0-9a-f]{2})+) `)

// LoadAsm assembles and parses all .s files of <repo>/sm4 for arch.
func LoadAsm(repo, arch string) (*AsmUnit, error) {
	return LoadAsmDir(filepath.Join(repo, "sm4"), "sm4", arch)
}

// LoadAsmDir assembles and parses all .s files of one package directory.
func LoadAsmDir(dir, pkgName, arch string) (*AsmUnit, error) {
	key := dir + "|" + arch
	if u, ok := asmCache[key]; ok {
		return u, nil
	}
	ents, err := os.ReadDir(dir)
	if err != nil {
		return nil, err
	}
	goroot, err := exec.Command("go", "env", "GOROOT").Output()
	if err != nil {
		return nil, fmt.Errorf("go env GOROOT: %v", err)
	}
	inc := filepath.Join(strings.TrimSpace(string(goroot)), "pkg", "include")
	u := &AsmUnit{Arch: arch, Data: map[string]*DataSym{}, Pkg: pkgName}
	included := map[string]bool{}
	var files []string
	for _, e := range ents {
		n := e.Name()
		if !strings.HasSuffix(n, ".s") {
			continue
		}
		b, _ := os.ReadFile(filepath.Join(dir, n))
		for _, m := range regexp.MustCompile(`(?m)^#include "([^"]+)"`).FindAllSubmatch(b, -1) {
			included[string(m[1])] = true
		}
		files = append(files, n)
	}
	sort.Strings(files)
	tmp, err := os.MkdirTemp("", "smgocheck-asm")
	if err != nil {
		return nil, err
	}
	defer os.RemoveAll(tmp)
	for _, n := range files {
		if !strings.HasSuffix(n, "_"+arch+".s") {
			continue
		}
		if included[n] {
			continue // assembled as part of the files that include it
		}
		cmd := exec.Command("go", "tool", "asm", "-S", "-p", pkgName, "-I", inc, "-o", filepath.Join(tmp, "x.o"), n)
		cmd.Dir = dir
		cmd.Env = append(os.Environ(), "GOARCH="+arch, "GOOS=linux")
		var out, errb bytes.Buffer
		cmd.Stdout = &out
		cmd.Stderr = &errb
		if err := cmd.Run(); err != nil {
			return nil, fmt.Errorf("go tool asm %s (GOARCH=%s): %v: %s", n, arch, err, errb.String())
		}
		if err := u.parseListing(n, out.String()); err != nil {
			return nil, fmt.Errorf("%s: %v", n, err)
		}
		u.Files = append(u.Files, n)
	}
	if len(u.Routines) == 0 {
		return nil, fmt.Errorf("no TEXT symbols found for GOARCH=%s", arch)
	}
	for _, r := range u.Routines {
		if err := r.buildCFG(); err != nil {
			return nil, err
		}
	}
	asmCache[key] = u
	return u, nil
}

func (u *AsmUnit) parseListing(file, text string) error {
	sc := bufio.NewScanner(strings.NewReader(text))
	sc.Buffer(make([]byte, 1<<20), 1<<24)
	var cur *Routine
	var curData *DataSym
	for sc.Scan() {
		line := sc.Text()
		if m := reSymHdr.FindStringSubmatch(line); m != nil {
			cur, curData = nil, nil
			name := m[1]
			if m[2] == "STEXT" {
				cur = &Routine{Arch: u.Arch, File: file, Name: strings.TrimPrefix(name, u.Pkg+"."), pcIndex: map[int]int{}}
				if am := regexp.MustCompile(`args=0x([0-9a-f]+)`).FindStringSubmatch(m[3]); am != nil {
					v, _ := strconv.ParseInt(am[1], 16, 64)
					cur.ArgSize = v
				}
				u.Routines = append(u.Routines, cur)
			} else {
				sz := 0
				if sm := regexp.MustCompile(`size=(\d+)`).FindStringSubmatch(m[3]); sm != nil {
					sz, _ = strconv.Atoi(sm[1])
				}
				curData = &DataSym{Name: name, Size: sz, File: file}
				if old, ok := u.Data[name]; ok {
					// the same static symbol assembled into several objects (com_amd64.s is included thrice): must agree
					_ = old
					u.Data[name+"@"+file] = curData
				} else {
					u.Data[name] = curData
				}
			}
			continue
		}
		if cur != nil {
			if m := reInstr.FindStringSubmatch(line); m != nil {
				pc, _ := strconv.Atoi(m[1])
				in := &Instr{Idx: len(cur.Instrs), PC: pc, Pos: m[2], Op: m[3], Raw: strings.TrimSpace(m[3] + "\t" + m[4])}
				if m[3] != "TEXT" && m[3] != "FUNCDATA" && m[3] != "PCDATA" {
					args, err := parseOperands(u.Arch, m[3], m[4])
					if err != nil {
						return fmt.Errorf("%s %s: %v", m[2], in.Raw, err)
					}
					in.Args = args
				}
				cur.Instrs = append(cur.Instrs, in)
				continue
			}
			if strings.HasPrefix(line, "\trel ") || reHex.MatchString(line) {
				continue
			}
			return fmt.Errorf("unparsed listing line in %s: %q", cur.Name, line)
		}
		if curData != nil {
			if m := reHex.FindStringSubmatch(line); m != nil {
				for _, h := range strings.Fields(m[1]) {
					v, _ := strconv.ParseUint(h, 16, 8)
					curData.Bytes = append(curData.Bytes, byte(v))
				}
				continue
			}
			if strings.HasPrefix(line, "\trel ") {
				continue
			}
			return fmt.Errorf("unparsed data line for %s: %q", curData.Name, line)
		}
		if strings.TrimSpace(line) == "" {
			continue
		}
		return fmt.Errorf("unparsed listing line: %q", line)
	}
	return nil
}

// CheckDataConsistent verifies merged duplicates and sizes.
func (u *AsmUnit) CheckDataConsistent() error {
	for k, d := range u.Data {
		if len(d.Bytes) != d.Size {
			return fmt.Errorf("data symbol %s: dump has %d bytes, size=%d", k, len(d.Bytes), d.Size)
		}
		if i := strings.Index(k, "@"); i >= 0 {
			base := u.Data[k[:i]]
			if base == nil || !bytes.Equal(base.Bytes, d.Bytes) {
				return fmt.Errorf("data symbol %s differs between %s and %s", k[:i], base.File, d.File)
			}
		}
	}
	return nil
}

// DataSyms returns the distinct symbols (without the per-file duplicates), sorted.
func (u *AsmUnit) DataSyms() []*DataSym {
	var names []string
	for k := range u.Data {
		if !strings.Contains(k, "@") {
			names = append(names, k)
		}
	}
	sort.Strings(names)
	var out []*DataSym
	for _, n := range names {
		out = append(out, u.Data[n])
	}
	return out
}

func splitArgs(s string) []string {
	var out []string
	depth := 0
	cur := strings.Builder{}
	for _, c := range s {
		switch c {
		case '[', '(':
			depth++
		case ']', ')':
			depth--
		case ',':
			if depth == 0 {
				out = append(out, strings.TrimSpace(cur.String()))
				cur.Reset()
				continue
			}
		}
		cur.WriteRune(c)
	}
	if strings.TrimSpace(cur.String()) != "" {
		out = append(out, strings.TrimSpace(cur.String()))
	}
	return out
}

var amd64GPR = map[string]string{}
var amd64GPRWidth = map[string]int{}

func init() {
	base := []string{"AX", "BX", "CX", "DX", "SI", "DI", "BP", "SP"}
	for _, b := range base {
		amd64GPR[b] = b
		amd64GPRWidth[b] = 8
	}
	for _, p := range [][2]string{{"AL", "AX"}, {"BL", "BX"}, {"CL", "CX"}, {"DL", "DX"}, {"SIB", "SI"}, {"DIB", "DI"}, {"BPB", "BP"}, {"SPB", "SP"}} {
		amd64GPR[p[0]] = p[1]
		amd64GPRWidth[p[0]] = 1
	}
	for i := 8; i <= 15; i++ {
		r := fmt.Sprintf("R%d", i)
		amd64GPR[r] = r
		amd64GPRWidth[r] = 8
		amd64GPR[r+"B"] = r
		amd64GPRWidth[r+"B"] = 1
	}
}

var reVecAmd = regexp.MustCompile(`^([XYZ])(\d+)$`)
var reMask = regexp.MustCompile(`^K(\d)$`)
var reMem = regexp.MustCompile(`^(-?\d+)?\(([A-Z0-9]+)\)$`)
var reMemIdx = regexp.MustCompile(`^(-?\d+)?\(([A-Z0-9]+)\)\(([A-Z0-9]+)\*(\d)\)$`)
var reFP = regexp.MustCompile(`^([A-Za-z_0-9]+)(?:\+(-?\d+))?\(FP\)$`)
var reSym = regexp.MustCompile(`^(\$)?([A-Za-z_0-9.]+)(<>)?(?:\+(\d+))?\(SB\)$`)
var reArmVec = regexp.MustCompile(`^V(\d+)\.([BHSDQ])(\d+)$`)
var reArmLane = regexp.MustCompile(`^V(\d+)\.([BHSD])\[(\d+)\]$`)
var reArmGPR = regexp.MustCompile(`^R(\d+)$`)

func arrBytes(kind string, n int) int {
	sz := map[string]int{"B": 1, "H": 2, "S": 4, "D": 8, "Q": 16}[kind]
	return sz * n
}

func parseReg(arch, s string) (Operand, bool) {
	if arch == "amd64" {
		if r, ok := amd64GPR[s]; ok {
			return Operand{Kind: OReg, Reg: r, Width: amd64GPRWidth[s], Raw: s}, true
		}
		if m := reVecAmd.FindStringSubmatch(s); m != nil {
			w := map[string]int{"X": 16, "Y": 32, "Z": 64}[m[1]]
			return Operand{Kind: OReg, Reg: "V" + m[2], Width: w, Raw: s}, true
		}
		if m := reMask.FindStringSubmatch(s); m != nil {
			return Operand{Kind: OReg, Reg: "K" + m[1], Width: 8, Raw: s}, true
		}
		return Operand{}, false
	}
	if m := reArmGPR.FindStringSubmatch(s); m != nil {
		return Operand{Kind: OReg, Reg: "R" + m[1], Width: 8, Raw: s}, true
	}
	if s == "RSP" || s == "ZR" {
		return Operand{Kind: OReg, Reg: s, Width: 8, Raw: s}, true
	}
	if m := reArmVec.FindStringSubmatch(s); m != nil {
		n, _ := strconv.Atoi(m[3])
		return Operand{Kind: OReg, Reg: "V" + m[1], Width: arrBytes(m[2], n), Arr: m[2] + m[3], Raw: s}, true
	}
	if m := reArmLane.FindStringSubmatch(s); m != nil {
		return Operand{Kind: OReg, Reg: "V" + m[1], Width: arrBytes(m[2], 1), Arr: m[2] + "[" + m[3] + "]", Raw: s}, true
	}
	return Operand{}, false
}

func parseOperands(arch, op, s string) ([]Operand, error) {
	var out []Operand
	isBranch := false
	if arch == "amd64" {
		isBranch = op == "JMP" || (strings.HasPrefix(op, "J") && op != "JMP")
		isBranch = isBranch || op == "JMP"
	} else {
		isBranch = op == "JMP" || op == "B" || (strings.HasPrefix(op, "B") && len(op) <= 4 && op != "BIC") || op == "CBZ" || op == "CBNZ"
	}
	for _, a := range splitArgs(s) {
		if isBranch {
			if n, err := strconv.Atoi(a); err == nil {
				out = append(out, Operand{Kind: OTarget, Imm: int64(n), Raw: a})
				continue
			}
		}
		if strings.HasPrefix(a, "$") && !strings.Contains(a, "(SB)") {
			v, err := strconv.ParseInt(a[1:], 0, 64)
			if err != nil {
				uv, err2 := strconv.ParseUint(a[1:], 0, 64)
				if err2 != nil {
					return nil, fmt.Errorf("bad immediate %q", a)
				}
				v = int64(uv)
			}
			out = append(out, Operand{Kind: OImm, Imm: v, Raw: a})
			continue
		}
		if r, ok := parseReg(arch, a); ok {
			out = append(out, r)
			continue
		}
		if m := reFP.FindStringSubmatch(a); m != nil {
			off := int64(0)
			if m[2] != "" {
				off, _ = strconv.ParseInt(m[2], 10, 64)
			}
			out = append(out, Operand{Kind: OFP, Name: m[1], Off: off, Raw: a})
			continue
		}
		if m := reSym.FindStringSubmatch(a); m != nil {
			k := OSym
			if m[1] == "$" {
				k = OSymAddr
			}
			off := int64(0)
			if m[4] != "" {
				off, _ = strconv.ParseInt(m[4], 10, 64)
			}
			out = append(out, Operand{Kind: k, Sym: m[2], Off: off, Raw: a})
			continue
		}
		if m := reMemIdx.FindStringSubmatch(a); m != nil {
			off := int64(0)
			if m[1] != "" {
				off, _ = strconv.ParseInt(m[1], 10, 64)
			}
			rb, ok1 := parseReg(arch, m[2])
			ri, ok2 := parseReg(arch, m[3])
			if !ok1 || !ok2 {
				return nil, fmt.Errorf("bad indexed operand %q", a)
			}
			sc, _ := strconv.ParseInt(m[4], 10, 64)
			out = append(out, Operand{Kind: OMem, Reg: rb.Reg, Off: off, Index: ri.Reg, Scale: sc, Raw: a})
			continue
		}
		if m := reMem.FindStringSubmatch(a); m != nil {
			off := int64(0)
			if m[1] != "" {
				off, _ = strconv.ParseInt(m[1], 10, 64)
			}
			r, ok := parseReg(arch, m[2])
			if !ok || strings.HasPrefix(r.Reg, "V") || strings.HasPrefix(r.Reg, "K") {
				return nil, fmt.Errorf("bad base register in %q", a)
			}
			out = append(out, Operand{Kind: OMem, Reg: r.Reg, Off: off, Raw: a})
			continue
		}
		if strings.HasPrefix(a, "[") && strings.HasSuffix(a, "]") {
			var regs []string
			w := 0
			arr := ""
			for _, e := range splitArgs(a[1 : len(a)-1]) {
				r, ok := parseReg(arch, e)
				if !ok {
					return nil, fmt.Errorf("bad register list %q", a)
				}
				regs = append(regs, r.Reg)
				w += r.Width
				arr = r.Arr
			}
			out = append(out, Operand{Kind: ORegList, Regs: regs, Width: w, Arr: arr, Raw: a})
			continue
		}
		return nil, fmt.Errorf("unknown operand syntax %q (addressing mode not in the table)", a)
	}
	return out, nil
}

func (r *Routine) buildCFG() error {
	for i, in := range r.Instrs {
		if _, dup := r.pcIndex[in.PC]; !dup {
			r.pcIndex[in.PC] = i
		}
	}
	// pcIndex must map a PC to the FIRST real instruction at that PC (TEXT/FUNCDATA share PC 0)
	for i, in := range r.Instrs {
		if in.Op == "TEXT" || in.Op == "FUNCDATA" || in.Op == "PCDATA" {
			continue
		}
		if j, ok := r.pcIndex[in.PC]; ok {
			jo := r.Instrs[j].Op
			if jo == "TEXT" || jo == "FUNCDATA" || jo == "PCDATA" {
				r.pcIndex[in.PC] = i
			}
		}
	}
	for i, in := range r.Instrs {
		k := branchKind(r.Arch, in.Op)
		var succ []int
		switch k {
		case brRet:
		case brJmp, brCond:
			if len(in.Args) == 0 || in.Args[len(in.Args)-1].Kind != OTarget {
				return fmt.Errorf("%s: branch without resolved target: %s (%s)", r.Name, in.Raw, in.Pos)
			}
			t, ok := r.pcIndex[int(in.Args[len(in.Args)-1].Imm)]
			if !ok {
				return fmt.Errorf("%s: branch target %d not an instruction: %s", r.Name, in.Args[len(in.Args)-1].Imm, in.Raw)
			}
			succ = append(succ, t)
			if k == brCond && i+1 < len(r.Instrs) {
				succ = append(succ, i+1)
			}
		case brCall:
			return fmt.Errorf("%s: CALL in assembler routine not supported: %s", r.Name, in.Raw)
		default:
			if i+1 < len(r.Instrs) {
				succ = append(succ, i+1)
			}
		}
		in.Succ = succ
	}
	for i, in := range r.Instrs {
		for _, s := range in.Succ {
			r.Instrs[s].Pred = append(r.Instrs[s].Pred, i)
		}
	}
	// a reachable last instruction must not fall off the end (unreachable trailers, e.g. a stray NOP after RET, are ignored)
	reach := make([]bool, len(r.Instrs))
	stack := []int{0}
	reach[0] = true
	for len(stack) > 0 {
		i := stack[len(stack)-1]
		stack = stack[:len(stack)-1]
		for _, s := range r.Instrs[i].Succ {
			if !reach[s] {
				reach[s] = true
				stack = append(stack, s)
			}
		}
	}
	r.Reach = reach
	last := r.Instrs[len(r.Instrs)-1]
	if k := branchKind(r.Arch, last.Op); reach[last.Idx] && k != brRet && k != brJmp {
		return fmt.Errorf("%s: control falls off the end of the routine", r.Name)
	}
	r.computeCycles()
	return nil
}

type brKind int

const (
	brNone brKind = iota
	brCond
	brJmp
	brRet
	brCall
)

func branchKind(arch, op string) brKind {
	switch op {
	case "RET":
		return brRet
	case "JMP", "B":
		return brJmp
	case "CALL", "BL":
		return brCall
	}
	if arch == "amd64" {
		switch op {
		case "JLT", "JLE", "JGT", "JGE", "JEQ", "JNE", "JCS", "JCC", "JHI", "JLS", "JMI", "JPL", "JOS", "JOC", "JPS", "JPC":
			return brCond
		}
		if strings.HasPrefix(op, "J") {
			return brCond
		}
		return brNone
	}
	switch op {
	case "BLT", "BGT", "BEQ", "BNE", "BLE", "BGE", "BHI", "BLS", "BLO", "BHS", "BMI", "BPL", "BCC", "BCS", "CBZ", "CBNZ", "TBZ", "TBNZ":
		return brCond
	}
	return brNone
}

// computeCycles marks instructions that lie on a CFG cycle (Tarjan SCC).
func (r *Routine) computeCycles() {
	n := len(r.Instrs)
	index := make([]int, n)
	low := make([]int, n)
	on := make([]bool, n)
	for i := range index {
		index[i] = -1
	}
	r.InCycle = make([]bool, n)
	var stack []int
	idx := 0
	// iterative Tarjan
	type frame struct{ v, ci int }
	for s := 0; s < n; s++ {
		if index[s] != -1 {
			continue
		}
		fr := []frame{{s, 0}}
		index[s], low[s] = idx, idx
		idx++
		stack = append(stack, s)
		on[s] = true
		for len(fr) > 0 {
			f := &fr[len(fr)-1]
			v := f.v
			if f.ci < len(r.Instrs[v].Succ) {
				w := r.Instrs[v].Succ[f.ci]
				f.ci++
				if index[w] == -1 {
					index[w], low[w] = idx, idx
					idx++
					stack = append(stack, w)
					on[w] = true
					fr = append(fr, frame{w, 0})
				} else if on[w] {
					if index[w] < low[v] {
						low[v] = index[w]
					}
				}
				continue
			}
			if low[v] == index[v] {
				var comp []int
				for {
					w := stack[len(stack)-1]
					stack = stack[:len(stack)-1]
					on[w] = false
					comp = append(comp, w)
					if w == v {
						break
					}
				}
				if len(comp) > 1 {
					for _, w := range comp {
						r.InCycle[w] = true
					}
				} else {
					for _, s2 := range r.Instrs[v].Succ {
						if s2 == v {
							r.InCycle[v] = true
						}
					}
				}
			}
			fr = fr[:len(fr)-1]
			if len(fr) > 0 {
				p := fr[len(fr)-1].v
				if low[v] < low[p] {
					low[p] = low[v]
				}
			}
		}
	}
}

// BindDecls attaches Go declarations (parameter slots by frame offset) to the routines.
func (u *AsmUnit) BindDecls(p *Prog) error {
	sizes := types.SizesFor("gc", u.Arch)
	if sizes == nil {
		return fmt.Errorf("no sizes for %s", u.Arch)
	}
	pk := p.Pkgs[u.PkgRel()]
	if pk == nil {
		return fmt.Errorf("package %s not loaded", u.PkgRel())
	}
	for _, r := range u.Routines {
		obj := pk.Types.Scope().Lookup(r.Name)
		fn, ok := obj.(*types.Func)
		if !ok {
			continue
		}
		sfn := p.Func(u.PkgRel() + "." + r.Name)
		if sfn != nil && len(sfn.Blocks) > 0 {
			return fmt.Errorf("%s.%s has both a Go body and an assembler TEXT symbol", u.PkgRel(), r.Name)
		}
		r.HasDecl = true
		sig := fn.Type().(*types.Signature)
		var off int64
		add := func(name string, t types.Type, isRet bool) {
			a := sizes.Alignof(t)
			off = (off + a - 1) / a * a
			switch tt := t.Underlying().(type) {
			case *types.Slice:
				r.Slots = append(r.Slots, ParamSlot{off, name, "ptr", t.String()}, ParamSlot{off + 8, name, "len", "int"}, ParamSlot{off + 16, name, "cap", "int"})
			case *types.Pointer:
				r.Slots = append(r.Slots, ParamSlot{off, name, "ptr", t.String()})
			default:
				_ = tt
				part := "val"
				if isRet {
					part = "ret"
				}
				r.Slots = append(r.Slots, ParamSlot{off, name, part, t.String()})
			}
			off += sizes.Sizeof(t)
		}
		for i := 0; i < sig.Params().Len(); i++ {
			v := sig.Params().At(i)
			add(asmCanonName(r.Name, i, v.Name()), v.Type(), false)
		}
		if sig.Results().Len() > 0 {
			off = (off + 7) / 8 * 8
			for i := 0; i < sig.Results().Len(); i++ {
				v := sig.Results().At(i)
				n := v.Name()
				if n == "" {
					n = fmt.Sprintf("ret%d", i)
				}
				add(n, v.Type(), true)
			}
		}
		total := (off + 7) / 8 * 8
		if total != r.ArgSize {
			return fmt.Errorf("sm4.%s: Go declaration needs %d argument bytes, TEXT symbol declares %d", r.Name, total, r.ArgSize)
		}
	}
	// a body-less Go function without a TEXT symbol for this arch is a link error; report it
	for _, fn := range p.RepoFuncs() {
		if fn.Pkg != nil && shortPkg(fn.Pkg.Pkg.Path()) == u.PkgRel() && len(fn.Blocks) == 0 && fn.Synthetic == "" && fn.Parent() == nil {
			found := false
			for _, r := range u.Routines {
				if r.Name == fn.Name() {
					found = true
				}
			}
			if !found {
				return fmt.Errorf("sm4.%s is declared without body and has no TEXT symbol for %s", fn.Name(), u.Arch)
			}
		}
	}
	return nil
}

// Slot resolves an FP operand to a parameter slot. amd64 listings print offsets +8 (return address).
func (r *Routine) Slot(o Operand) (ParamSlot, bool) {
	off := o.Off
	if r.Arch == "amd64" {
		off -= 8
	}
	for _, s := range r.Slots {
		if s.Off == off {
			return s, true
		}
	}
	return ParamSlot{}, false
}

func (u *AsmUnit) Routine(name string) *Routine {
	for _, r := range u.Routines {
		if r.Name == name {
			return r
		}
	}
	return nil
}

// PkgRel is the module-relative package path the routines belong to.
func (u *AsmUnit) PkgRel() string {
	if u.Rel != "" {
		return u.Rel
	}
	return u.Pkg
}

// asmCanon: the parameter names of the assembler routines as the contract table (check_c11.go) spells them, by position.
// A routine whose Go declaration (and FP names) were renamed keeps its contract.
var asmCanon = map[string][]string{
	"expandKeyAsm":              {"key", "enc", "dec"},
	"cryptoBlockAsm":            {"rk", "dst", "src"},
	"cryptoBlockAsmX2":          {"rk", "dst", "src"},
	"cryptoBlockAsmX4":          {"rk", "dst", "src"},
	"cryptoBlockAsmX8":          {"rk", "dst", "src"},
	"cryptoBlockAsmX16":         {"rk", "dst", "src"},
	"cryptoBlockAsmX16Internal": {"rk", "dst", "src", "tmp"},
	"gHashBlocks":               {"H", "tag", "data", "count"},
	"copyAsm":                   {"dst", "src", "len"},
	"needExpand":                {"array", "asked"},
	"transpose4x4":              {"dst", "src"},
	"transpose1x4":              {"dst", "src"},
	"concatenateY":              {"Y1", "Y2"},
	"concatenateX":              {"X1", "X2", "X3", "X4"},
	"sealAsm":                   {"roundKeys", "tagSize", "dst", "nonce", "plaintext", "additionalData", "temp"},
	"openAsm":                   {"roundKeys", "tagSize", "dst", "nonce", "ciphertext", "additionalData", "temp"},
	"xor256":                    {"dst", "src1", "src2"},
	"xor128":                    {"dst", "src1", "src2"},
	"xor64":                     {"dst", "src1", "src2"},
	"xor32":                     {"dst", "src1", "src2"},
	"xor16":                     {"dst", "src1", "src2"},
}

func asmCanonName(routine string, i int, declared string) string {
	if c := asmCanon[routine]; i < len(c) {
		return c[i]
	}
	return declared
}

// UnrollConstLoops returns a copy of the routine in which every counted loop with a constant trip count
//
//	MOV $K, R ; header: body ; DEC R (or SUB $1, R) ; JNE header
//
// (R used for nothing else, no other branch into or out of the body, 1 <= K <= 64) is replaced by K copies of its body.
// The analyses written for straight-line kernels then see the same instruction sequence the processor executes. When no
// such loop exists the receiver itself is returned.
func (r *Routine) UnrollConstLoops() *Routine {
	if r.Arch != "amd64" {
		return r
	}
	cur := r
	for iter := 0; iter < 8; iter++ {
		next := cur.unrollOne()
		if next == nil {
			return cur
		}
		cur = next
	}
	return cur
}

func (r *Routine) unrollOne() *Routine {
	mentions := func(in *Instr, reg string) bool {
		for _, o := range in.Args {
			if o.Reg == reg || o.Index == reg {
				return true
			}
			for _, x := range o.Regs {
				if x == reg {
					return true
				}
			}
		}
		return false
	}
	for j, br := range r.Instrs {
		if br.Op != "JNE" || len(br.Args) == 0 || br.Args[len(br.Args)-1].Kind != OTarget || j < 2 {
			continue
		}
		h, ok := r.pcIndex[int(br.Args[len(br.Args)-1].Imm)]
		if !ok || h >= j {
			continue
		}
		dec := r.Instrs[j-1]
		reg := ""
		switch {
		case dec.Op == "DECQ" && len(dec.Args) == 1 && dec.Args[0].Kind == OReg:
			reg = dec.Args[0].Reg
		case dec.Op == "SUBQ" && len(dec.Args) == 2 && dec.Args[0].Kind == OImm && dec.Args[0].Imm == 1 && dec.Args[1].Kind == OReg:
			reg = dec.Args[1].Reg
		}
		if reg == "" {
			continue
		}
		// the counter is set by the nearest earlier instruction that mentions it: MOV $K, reg, before the header
		init := -1
		for i := h - 1; i >= 0; i-- {
			if mentions(r.Instrs[i], reg) {
				init = i
				break
			}
			if k := branchKind(r.Arch, r.Instrs[i].Op); k != brNone {
				break
			}
		}
		if init < 0 {
			continue
		}
		mi := r.Instrs[init]
		if !(strings.HasPrefix(mi.Op, "MOV") && len(mi.Args) == 2 && mi.Args[0].Kind == OImm && mi.Args[1].Kind == OReg && mi.Args[1].Reg == reg) {
			continue
		}
		K := mi.Args[0].Imm
		if K < 1 || K > 64 {
			continue
		}
		okBody := true
		for i := h; i < j-1; i++ {
			if mentions(r.Instrs[i], reg) || branchKind(r.Arch, r.Instrs[i].Op) != brNone {
				okBody = false
			}
		}
		// no other branch of the routine enters the loop behind its header
		for i, in := range r.Instrs {
			if i == j || len(in.Args) == 0 || in.Args[len(in.Args)-1].Kind != OTarget {
				continue
			}
			if t, ok := r.pcIndex[int(in.Args[len(in.Args)-1].Imm)]; ok && t >= h && t <= j {
				okBody = false
			}
		}
		// the counter is dead after the loop (not read before it is written again): conservatively, not mentioned at all
		for i := j + 1; i < len(r.Instrs); i++ {
			if mentions(r.Instrs[i], reg) {
				okBody = false
			}
		}
		if !okBody {
			continue
		}
		var seq []*Instr
		oldToNew := map[int]int{}
		emit := func(in *Instr, first bool) {
			c := *in
			c.Args = append([]Operand(nil), in.Args...)
			c.Succ, c.Pred = nil, nil
			if first {
				oldToNew[in.Idx] = len(seq)
			}
			seq = append(seq, &c)
		}
		for i := 0; i < len(r.Instrs); i++ {
			switch {
			case i == init || i == j-1 || i == j:
			case i >= h && i < j-1:
				if i == h {
					for k := int64(0); k < K; k++ {
						for b := h; b < j-1; b++ {
							emit(r.Instrs[b], k == 0)
						}
					}
				}
			default:
				emit(r.Instrs[i], true)
			}
		}
		// what followed a removed instruction is the target of a branch to it
		resolve := func(old int) int {
			for o := old; o < len(r.Instrs); o++ {
				if n, ok := oldToNew[o]; ok {
					return n
				}
			}
			return len(seq) - 1
		}
		nr := &Routine{Arch: r.Arch, File: r.File, Name: r.Name, ArgSize: r.ArgSize, pcIndex: map[int]int{}, Slots: r.Slots, HasDecl: r.HasDecl, Called: r.Called}
		for i, in := range seq {
			in.Idx = i
			if len(in.Args) > 0 && in.Args[len(in.Args)-1].Kind == OTarget {
				if t, ok := r.pcIndex[int(in.Args[len(in.Args)-1].Imm)]; ok {
					in.Args[len(in.Args)-1].Imm = int64(1000000 + resolve(t))
				}
			}
		}
		for i, in := range seq {
			in.PC = 1000000 + i
			_ = i
		}
		nr.Instrs = seq
		if err := nr.buildCFG(); err != nil {
			return nil
		}
		return nr
	}
	return nil
}
