package main

import (
	"fmt"
	"go/token"
	"go/types"
	"sort"
	"strings"

	"golang.org/x/tools/go/ssa"
)

func init() { register("C08", "proof", checkC08) }

// verdictSites: functions in which a branch on the result of a declassifying comparison is an accept/reject verdict
// (closed table, one line of reason each; DESIGN 3/C08).
var verdictSites = map[string]string{
	"sm2.TestPrivateKey":                             "key validity verdict (zero test, < n-1 test)",
	"sm2/internal/fiat.(*SM2Element).SetBytes":       "canonical-encoding verdict: error return",
	"sm2/internal/fiat.(*SM2ScalarElement).SetBytes": "canonical-encoding verdict: error return",
	"sm2/internal.(*SM2Point).bytes":                 "infinity has a different (1-byte) encoding by definition of SEC1",
	"sm2/internal.(*SM2Point).GetAffineX":            "infinity has no affine x: documented 0 result",
	"sm2/internal.(*SM2Point).GetAffineX_Unsafe":     "infinity has no affine x: documented 0 result",
	"sm2/internal.Sm2CheckOnCurve":                   "on-curve verdict: error return",
	"sm2/internal.(*SM2Point).SetBytes":              "decoding verdicts: error return",
}

func c08Seeds(p *Prog, r *Report, t *Taint) map[*ssa.Function]lbl {
	seeds := map[*ssa.Function]lbl{}
	add := func(fn string, params ...string) {
		f := p.MustFunc(r, fn)
		if f == nil {
			return
		}
		for _, pn := range params {
			// "name#i": the parameter called name, or - when it has been renamed - the one at position i (receiver = 0)
			pos := -1
			if k := strings.Index(pn, "#"); k >= 0 {
				fmt.Sscanf(pn[k+1:], "%d", &pos)
				pn = pn[:k]
			}
			found := false
			for i, sp := range f.Params {
				if sp.Name() == pn || (pn == "<recv>" && i == 0 && f.Signature.Recv() != nil) {
					seeds[f] |= paramBit(i)
					found = true
				}
			}
			if !found && pos >= 0 && pos < len(f.Params) {
				seeds[f] |= paramBit(pos)
				found = true
			}
			if !found {
				r.Fatalf("unresolved anchor: parameter %s of %s", pn, fn)
			}
		}
	}
	// (i) from the API
	add("sm2.SignHashed", "priv#1")
	add("sm2.DerivePublic", "priv#0")
	add("sm2.TestPrivateKey", "priv#0")
	t.srcReadFull["sm2.SignHashed"] = true
	t.srcReadFull["sm2.GenerateKey"] = true
	// (ii) the primitives by themselves
	add("sm2/internal.ScalarBaseMult", "k#0")
	add("sm2/internal.ScalarMult", "scalar#1")
	add("sm2/internal/fiat.(*SM2Element).Invert", "x#1")
	add("sm2/internal/fiat.(*SM2ScalarElement).Invert", "x#1")
	add("sm2/internal/fiat.(*SM2Element).MultiSelect", "bits#3", "fallbackCond#5")
	add("sm2/internal.(*SM2Point).MultiSelectXY", "bits#3")
	add("sm2/internal.(*SM2Point).MultiSelectXYZ", "bits#3")
	add("sm2/internal/fiat.(*SM2Element).Select", "cond#3", "a#1", "b#2")
	add("sm2/internal/fiat.(*SM2ScalarElement).Select", "cond#3", "a#1", "b#2")
	add("sm2/internal.(*SM2Point).Select", "cond#3", "p1#1", "p2#2")
	add("utils.ConstantTimeCmp", "a#0", "b#1")
	add("sm2/internal.(*SM2Point).Add", "p1#1", "p2#2")
	add("sm2/internal.(*SM2Point).Double", "p#1")
	add("sm2/internal.(*SM2Point).Negate", "p#1")
	add("sm2/internal.(*SM2Point).Bytes", "<recv>")
	add("sm2/internal.(*SM2Point).GetAffineX", "<recv>")
	add("sm2/internal/fiat.(*SM2ScalarElement).SetBytes", "v#1")
	add("sm2/internal/fiat.(*SM2Element).SetBytes", "v#1")
	add("sm2/internal/fiat.(*SM2Element).Bytes", "<recv>")
	add("sm2/internal/fiat.(*SM2ScalarElement).Bytes", "<recv>")
	add("sm2/internal/fiat.(*SM2Element).Mul", "t1#1", "t2#2")
	add("sm2/internal/fiat.(*SM2Element).Square", "t#1")
	add("sm2/internal/fiat.(*SM2Element).Add", "t1#1", "t2#2")
	add("sm2/internal/fiat.(*SM2Element).Sub", "t1#1", "t2#2")
	add("sm2/internal/fiat.(*SM2Element).Opp", "t#1")
	add("sm2/internal/fiat.(*SM2ScalarElement).Mul", "t1#1", "t2#2")
	add("sm2/internal/fiat.(*SM2ScalarElement).Add", "t1#1", "t2#2")
	add("sm2/internal/fiat.(*SM2ScalarElement).Sub", "t1#1", "t2#2")
	return seeds
}

// c08ByteHelper: an unexported function of package sm2 that handles byte strings without math/big (zero tests, range tests
// and draws of nonces and keys factored out of the API functions): part of the constant-time layer like TestPrivateKey.
// The API functions themselves and every helper that touches *big.Int are the math/big glue, which the statement leaves out.
func c08ByteHelper(p *Prog, fn *ssa.Function) bool {
	if fn == nil || fn.Pkg == nil || shortPkg(fn.Pkg.Pkg.Path()) != "sm2" || len(fn.Blocks) == 0 || token.IsExported(fn.Name()) || fn.Name() == "init" || fn.Signature.Recv() != nil {
		return false
	}
	isBig := func(t types.Type) bool { return strings.Contains(t.String(), "math/big.") }
	for _, prm := range fn.Params {
		if isBig(prm.Type()) {
			return false
		}
	}
	res := fn.Signature.Results()
	for i := 0; i < res.Len(); i++ {
		if isBig(res.At(i).Type()) {
			return false
		}
	}
	for _, b := range fn.Blocks {
		for _, in := range b.Instrs {
			if v, ok := in.(ssa.Value); ok && isBig(v.Type()) {
				return false
			}
			if c, ok := in.(ssa.CallInstruction); ok {
				if cal := c.Common().StaticCallee(); cal != nil && cal.Pkg != nil && cal.Pkg.Pkg.Path() == "math/big" {
					return false
				}
			}
		}
	}
	return true
}

func c08InScopeFn(p *Prog, fn *ssa.Function) bool {
	return c08InScope(p.FuncName(fn)) || c08ByteHelper(p, fn)
}

func c08InScope(name string) bool {
	if name == "sm2.TestPrivateKey" {
		return true
	}
	if !(strings.HasPrefix(name, "sm2/internal.") || strings.HasPrefix(name, "sm2/internal/fiat.") || strings.HasPrefix(name, "utils.")) {
		return false
	}
	base := name
	if i := strings.Index(base, "$"); i >= 0 {
		base = base[:i]
	}
	if strings.HasSuffix(base, "_Unsafe") || strings.Contains(base, "_Unsafe_") {
		return false
	}
	if strings.HasSuffix(base, ").ToBigInt") {
		return false
	}
	return true
}

func newC08Taint(p *Prog) *Taint {
	t := NewTaint(p)
	return t
}

func checkC08(c *Ctx, r *Report) {
	r.Explanation = "G2: interprocedural may-taint analysis over go/ssa (function summaries with symbolic labels, then activation from the sources). Sources: contents of priv in SignHashed/DerivePublic/TestPrivateKey, the buffers filled by io.ReadFull in SignHashed/GenerateKey, and the secret operands of every primitive the statement names. Sinks: If on a tainted condition, tainted index/slice bound/make size, tainted callee value, / % and shift by a tainted amount, tainted data passed to a function outside the constant-time allow-list. Reported in sm2/internal, sm2/internal/fiat, utils and sm2.TestPrivateKey (the constant-time layer); not in *_Unsafe functions (instead: no secret []byte may reach one) and not in ToBigInt (declared exit into math/big). Branches on the result of a declassifying comparison are tolerated only in the closed table of verdict sites."
	r.Trusted = []string{"go/ssa construction", "allow-list of constant-time standard-library leaves (math/bits, crypto/subtle, encoding/binary)", "integer add/sub/mul/logic/constant-shift compile to data-independent instructions on amd64/arm64"}
	r.Assumptions = []string{"compiler back end and micro-architecture are outside the claim", "memory model: content taint per root object, field-insensitive; pointers loaded from a container belong to the container"}
	archs := []string{"amd64"}
	if c.Tier == "thorough" {
		archs = []string{"amd64", "arm64", "386"}
	}
	for _, arch := range archs {
		p, err := LoadRepo(c.Repo, arch)
		if err != nil {
			r.Fatalf("%v", err)
			return
		}
		c08Run(r, p, arch)
	}
	taintPositiveControls(c, r)
	r.Floor("positive_controls", 5)
	r.Floor("tainted_functions_amd64", 30)
	r.Floor("branches_examined_amd64", 20)
	r.Floor("index_exprs_examined_amd64", 250)
}

func c08Run(r *Report, p *Prog, arch string) {
	// no unsafe / reflect in non-test code
	for rel, pk := range p.Pkgs {
		for imp := range pk.Imports {
			if imp == "unsafe" || imp == "reflect" {
				r.Viol("NO-UNSAFE", rel+" imports "+imp, rel, "the memory model of the analysis does not cover unsafe/reflect")
			}
		}
	}
	t := newC08Taint(p)
	seeds := c08Seeds(p, r, t)
	t.declass = map[string]bool{"sm2/internal/fiat.(*SM2Element).ToBigInt": true, "sm2/internal/fiat.(*SM2ScalarElement).ToBigInt": true}
	act := t.Solve(seeds)
	reached := act.Reached()
	inScope := 0
	nBranch, nIndex := 0, 0
	for _, fn := range p.RepoFuncs() {
		if !c08InScopeFn(p, fn) || len(fn.Blocks) == 0 {
			continue
		}
		for _, b := range fn.Blocks {
			for _, in := range b.Instrs {
				switch in.(type) {
				case *ssa.If:
					nBranch++
				case *ssa.IndexAddr, *ssa.Index, *ssa.Slice, *ssa.Lookup:
					nIndex++
				}
			}
		}
	}
	for _, fn := range reached {
		if c08InScopeFn(p, fn) {
			inScope++
		}
	}
	r.Count("tainted_functions_"+arch, inScope)
	r.Count("branches_examined_"+arch, nBranch)
	r.Count("index_exprs_examined_"+arch, nIndex)
	ordinal := map[string]int{}
	for _, fn := range reached {
		name := p.FuncName(fn)
		sinks := act.ActiveSinks(fn)
		if !c08InScopeFn(p, fn) {
			continue
		}
		clean := true
		for _, s := range sinks {
			k := name + "|" + string(s.kind) + "|" + shortInstr(s.instr)
			ordinal[k]++
			key := fmt.Sprintf("[%s] %s %s#%d", arch, name, shortInstr(s.instr), ordinal[k])
			pos := p.InstrPos(s.instr)
			via := t.describeLabels(fn, s.labels&(act.active[fn]|lblSRC))
			if s.kind == skBranch {
				if s.verdictValue {
					if why, ok := verdictSites[c08SiteName(p, fn, name)]; ok {
						r.Ok("VERDICT-SITE", key, pos, "branch on a declassified comparison result; verdict site: "+why)
						continue
					}
					if c08ByteHelper(p, fn) && (s.verdictShape || earlyVerdictReturn(s.instr)) {
						r.Ok("VERDICT-ENCODING", key, pos, "branch on a declassified comparison result in a byte-level helper of package sm2 that only selects a constant verdict (one arm returns constants at once, or everything behind it does)")
						continue
					}
					r.Viol(string(s.kind), key, pos, "branch on a comparison of secret data (via "+via+") outside the table of accept/reject verdict sites: control flow depends on the secret")
					clean = false
					continue
				}
				if name == "utils.ConstantTimeCmp" && s.verdictShape {
					r.Ok("VERDICT-ENCODING", key, pos, "loop-free branch that only selects the constant result of the comparison routine")
					continue
				}
			}
			r.Viol(string(s.kind), key, pos, s.detail+" (secret reaches it via "+via+")")
			clean = false
		}
		if clean {
			r.Ok("NO-SECRET-DEPENDENT-CONTROL-OR-ADDRESS", "["+arch+"] "+name, p.Pos(fn.Pos()), "receives secret data; no active sink")
		}
	}
	// who-may-call: no secret []byte reaches a *_Unsafe function
	nUnsafeCalls := 0
	for fn, sum := range t.sum {
		actMask := act.active[fn] | lblSRC
		for _, cl := range sum.calls {
			if cl.callee == nil || !strings.Contains(cl.callee.Name(), "_Unsafe") {
				continue
			}
			if strings.Contains(p.FuncName(fn), "_Unsafe") {
				continue
			}
			nUnsafeCalls++
			args := cl.instr.Common().Args
			bad := ""
			for i, a := range args {
				if sl, ok := a.Type().Underlying().(*types.Slice); ok {
					if b, ok := sl.Elem().Underlying().(*types.Basic); ok && b.Kind() == types.Byte || ok && b.Kind() == types.Uint8 {
						idx := i
						if cl.callee.Signature.Recv() != nil {
							idx = i
						}
						if idx < len(cl.args) && cl.args[idx]&actMask != 0 {
							bad += fmt.Sprintf(" arg%d", i)
						}
					}
				}
			}
			r.Check(bad == "", string(skUnsafe), fmt.Sprintf("[%s] %s -> %s", arch, p.FuncName(fn), cl.callee.Name()), p.InstrPos(cl.instr), "no secret byte string is handed to a variable-time (*_Unsafe) routine"+ifs(bad != "", ": secret in"+bad))
		}
	}
	r.Count("unsafe_call_sites_"+arch, nUnsafeCalls)
	if arch == "amd64" {
		c16InvertCallees(r, p)
	}
	var names []string
	for _, fn := range reached {
		if c08InScopeFn(p, fn) {
			names = append(names, p.FuncName(fn))
		}
	}
	sort.Strings(names)
	r.Note("[%s] functions in the tainted call tree (%d): %s", arch, len(names), strings.Join(names, ", "))
}

// earlyVerdictReturn: one arm of the branch is a block that does nothing but return constants (an early reject/accept)
func earlyVerdictReturn(in ssa.Instruction) bool {
	iff, ok := in.(*ssa.If)
	if !ok {
		return false
	}
	for _, s := range iff.Block().Succs {
		if len(s.Preds) != 1 {
			continue
		}
		only := true
		for _, i2 := range s.Instrs {
			switch y := i2.(type) {
			case *ssa.DebugRef:
			case *ssa.Return:
				for _, rv := range retVals(y) {
					if !isConst(rv) {
						only = false
					}
				}
			default:
				only = false
			}
		}
		if only {
			return true
		}
	}
	return false
}

// c08SiteName: the verdict-site table names the unexported encoder that Bytes and Bytes_Unsafe of SM2Point share by the name it
// has on the pinned tree; under another name it is recognised by that role (an unexported method of *SM2Point whose callers
// are exactly those two exported methods)
func c08SiteName(p *Prog, fn *ssa.Function, name string) string {
	if _, ok := verdictSites[name]; ok {
		return name
	}
	if fn == nil || fn.Pkg == nil || shortPkg(fn.Pkg.Pkg.Path()) != "sm2/internal" || fn.Signature.Recv() == nil || token.IsExported(fn.Name()) {
		return name
	}
	if !strings.Contains(fn.Signature.Recv().Type().String(), "SM2Point") {
		return name
	}
	callers := map[string]bool{}
	for _, g := range p.RepoFuncs() {
		for _, b := range g.Blocks {
			for _, in := range b.Instrs {
				if c, ok := in.(ssa.CallInstruction); ok && c.Common().StaticCallee() == fn {
					callers[p.FuncName(g)] = true
				}
			}
		}
	}
	if len(callers) == 2 && callers["sm2/internal.(*SM2Point).Bytes"] && callers["sm2/internal.(*SM2Point).Bytes_Unsafe"] {
		return "sm2/internal.(*SM2Point).bytes"
	}
	return name
}
