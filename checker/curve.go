package main

// The checker's own elliptic-curve arithmetic (affine, math/big). Independent of the repository's code.

import "math/big"

type affPoint struct {
	x, y *big.Int
	inf  bool
}

type curveT struct {
	p, n, b, gx, gy *big.Int
}

func (c *curveT) onCurve(pt affPoint) bool {
	if pt.inf {
		return true
	}
	l := new(big.Int).Mul(pt.y, pt.y)
	l.Mod(l, c.p)
	r := new(big.Int).Mul(pt.x, pt.x)
	r.Mul(r, pt.x)
	t := new(big.Int).Mul(big.NewInt(3), pt.x)
	r.Sub(r, t)
	r.Add(r, c.b)
	r.Mod(r, c.p)
	return l.Cmp(r) == 0
}

func (c *curveT) add(a, b affPoint) affPoint {
	if a.inf {
		return b
	}
	if b.inf {
		return a
	}
	var lam *big.Int
	if a.x.Cmp(b.x) == 0 {
		s := new(big.Int).Add(a.y, b.y)
		s.Mod(s, c.p)
		if s.Sign() == 0 {
			return affPoint{inf: true}
		}
		// doubling: (3x^2 - 3) / 2y
		num := new(big.Int).Mul(a.x, a.x)
		num.Mul(num, big.NewInt(3))
		num.Sub(num, big.NewInt(3))
		den := new(big.Int).Lsh(a.y, 1)
		den.ModInverse(den.Mod(den, c.p), c.p)
		lam = num.Mul(num, den)
	} else {
		num := new(big.Int).Sub(b.y, a.y)
		den := new(big.Int).Sub(b.x, a.x)
		den.Mod(den, c.p)
		den.ModInverse(den, c.p)
		lam = num.Mul(num, den)
	}
	lam.Mod(lam, c.p)
	x3 := new(big.Int).Mul(lam, lam)
	x3.Sub(x3, a.x)
	x3.Sub(x3, b.x)
	x3.Mod(x3, c.p)
	y3 := new(big.Int).Sub(a.x, x3)
	y3.Mul(y3, lam)
	y3.Sub(y3, a.y)
	y3.Mod(y3, c.p)
	return affPoint{x: x3, y: y3}
}

// pow2G returns [2^k]G for k = 0..255.
func (c *curveT) pow2G() []affPoint {
	out := make([]affPoint, 256)
	out[0] = affPoint{x: c.gx, y: c.gy}
	for i := 1; i < 256; i++ {
		out[i] = c.add(out[i-1], out[i-1])
	}
	return out
}

// montLimbs returns v * 2^256 mod p as four little-endian 64-bit limbs.
func montLimbs(v, p *big.Int) [4]uint64 {
	t := new(big.Int).Lsh(v, 256)
	t.Mod(t, p)
	var out [4]uint64
	mask := new(big.Int).SetUint64(^uint64(0))
	for i := 0; i < 4; i++ {
		out[i] = new(big.Int).And(new(big.Int).Rsh(t, uint(64*i)), mask).Uint64()
	}
	return out
}
