package main

// Value naming along a dominator path (engine G4): every SSA value on the path from the entry to a given block gets a
// canonical expression string (global value numbering style), with mutable math/big, field-element and point objects
// renamed at each mutating method call. Branch conditions on that path become canonical guard strings.
// No path conditions are solved; only blocks that dominate the target are visited, in order.

import (
	"fmt"
	"go/constant"
	"go/token"
	"go/types"
	"sort"
	"strings"

	"golang.org/x/tools/go/ssa"
)

type Guard struct {
	Text   string // canonical condition that holds on the path (already oriented by the branch direction)
	If     *ssa.If
	Truth  bool
	Reject *ssa.BasicBlock // the successor NOT taken by the path
	Kind   string          // precomputed reject kind for guards imported from a draw helper
}

type pathSym struct {
	p       *Prog
	fn      *ssa.Function
	f       *Folder
	sym     map[ssa.Value]string // current expression of mutable objects (by root value)
	cache   map[ssa.Value]string
	consts  map[string]string       // hex value -> name
	backing map[ssa.Value]ssa.Value // append result -> backing local array
	draws   int
	Guards  []Guard
}

func newPathSym(p *Prog, fn *ssa.Function, f *Folder) *pathSym {
	ps := &pathSym{p: p, fn: fn, f: f, sym: map[ssa.Value]string{}, cache: map[ssa.Value]string{}, consts: map[string]string{}, backing: map[ssa.Value]ssa.Value{}}
	if P, err := f.CurveInt("P"); err == nil {
		N, _ := f.CurveInt("N")
		ps.consts[P.Text(16)] = "P"
		ps.consts[N.Text(16)] = "N"
		ps.consts[new(bigInt).Sub(P, bigOne).Text(16)] = "P-1"
		ps.consts[new(bigInt).Sub(N, bigOne).Text(16)] = "N-1"
		ps.consts["1"] = "1"
		ps.consts["0"] = "0"
	}
	return ps
}

func (ps *pathSym) rootOf(v ssa.Value) ssa.Value {
	for i := 0; i < 20; i++ {
		switch x := v.(type) {
		case *ssa.ChangeType:
			v = x.X
		case *ssa.Convert:
			v = x.X
		case *ssa.MakeInterface:
			v = x.X
		case *ssa.Slice:
			if x.Low == nil && x.High == nil {
				v = x.X
				continue
			}
			return v
		default:
			return v
		}
	}
	return v
}

func (ps *pathSym) foldGlobal(g *ssa.Global) string {
	obj := g.Object()
	if obj == nil {
		return shortPkg(g.Pkg.Pkg.Path()) + "." + g.Name()
	}
	v, err := ps.f.Object(obj)
	if err != nil {
		return shortPkg(g.Pkg.Pkg.Path()) + "." + g.Name()
	}
	switch v.k {
	case fBig, fElem, fScalar, fInt:
		h := v.big.Text(16)
		if n, ok := ps.consts[h]; ok {
			return n
		}
		return "#" + h
	case fBytes:
		// byte strings: name by value and width
		b := new(bigInt).SetBytes(v.bytes)
		if n, ok := ps.consts[b.Text(16)]; ok {
			return fmt.Sprintf("bytes%d(%s)", len(v.bytes), n)
		}
		return fmt.Sprintf("bytes%d(#%s)", len(v.bytes), b.Text(16))
	}
	return shortPkg(g.Pkg.Pkg.Path()) + "." + g.Name()
}

func typeShort(t types.Type) string {
	if pt, ok := t.(*types.Pointer); ok {
		t = pt.Elem()
	}
	if nt, ok := t.(*types.Named); ok {
		return nt.Obj().Name()
	}
	return t.String()
}

// S names a value.
func (ps *pathSym) S(v ssa.Value) string {
	if v == nil {
		return "_"
	}
	r := ps.rootOf(v)
	if s, ok := ps.sym[r]; ok {
		return s
	}
	if s, ok := ps.cache[v]; ok {
		return s
	}
	s := ps.name(v)
	ps.cache[v] = s
	return s
}

func (ps *pathSym) name(v ssa.Value) string {
	switch x := v.(type) {
	case *ssa.Const:
		if x.Value == nil {
			return "nil"
		}
		if x.Value.Kind() == constant.String {
			return "str"
		}
		return x.Value.ExactString()
	case *ssa.Parameter:
		return x.Name()
	case *ssa.Alloc:
		if arr, ok := x.Type().Underlying().(*types.Pointer).Elem().Underlying().(*types.Array); ok {
			if allocNeverWritten(x) {
				return fmt.Sprintf("zeros(%d)", arr.Len())
			}
			return "local[" + x.Comment + "]"
		}
		return "new(" + typeShort(x.Type()) + ")"
	case *ssa.Global:
		return "&" + shortPkg(x.Pkg.Pkg.Path()) + "." + x.Name()
	case *ssa.UnOp:
		switch x.Op {
		case token.MUL:
			if g, ok := x.X.(*ssa.Global); ok {
				return ps.foldGlobal(g)
			}
			return "*" + ps.addr(x.X)
		case token.NOT:
			return "!" + ps.S(x.X)
		case token.SUB:
			return "-" + ps.S(x.X)
		}
		return x.Op.String() + ps.S(x.X)
	case *ssa.BinOp:
		return "(" + ps.S(x.X) + " " + x.Op.String() + " " + ps.S(x.Y) + ")"
	case *ssa.Convert:
		return ps.S(x.X)
	case *ssa.ChangeType:
		return ps.S(x.X)
	case *ssa.MakeInterface:
		return ps.S(x.X)
	case *ssa.Slice:
		s := ps.S(x.X)
		if x.Low == nil && x.High == nil {
			return s
		}
		lo, hi := "", ""
		if x.Low != nil {
			lo = ps.S(x.Low)
		}
		if x.High != nil {
			hi = ps.S(x.High)
		}
		return s + "[" + lo + ":" + hi + "]"
	case *ssa.Extract:
		if isErrorType(x.Type()) {
			return "err(" + ps.S(x.Tuple) + ")"
		}
		if x.Index == 0 {
			return ps.S(x.Tuple)
		}
		return fmt.Sprintf("%s#%d", ps.S(x.Tuple), x.Index)
	case *ssa.Call:
		return ps.callName(x)
	case *ssa.Phi:
		if s, ok := ps.boolPhi(x); ok {
			return s
		}
		return "phi@" + ps.p.InstrPos(x)
	case *ssa.FieldAddr, *ssa.IndexAddr:
		return "&" + ps.addr(v)
	case *ssa.MakeSlice:
		return "make(" + ps.S(x.Len) + ")"
	}
	return fmt.Sprintf("%T@%s", v, ps.p.Pos(v.Pos()))
}

func (ps *pathSym) addr(v ssa.Value) string {
	switch x := v.(type) {
	case *ssa.FieldAddr:
		st := x.X.Type().Underlying().(*types.Pointer).Elem().Underlying().(*types.Struct)
		return ps.addr(x.X) + "." + st.Field(x.Field).Name()
	case *ssa.IndexAddr:
		return ps.S(x.X) + "[" + ps.S(x.Index) + "]"
	case *ssa.Parameter:
		return x.Name()
	case *ssa.Global:
		return shortPkg(x.Pkg.Pkg.Path()) + "." + x.Name()
	}
	return ps.S(v)
}

func (ps *pathSym) callName(c *ssa.Call) string {
	if b, ok := c.Call.Value.(*ssa.Builtin); ok {
		var as []string
		for _, a := range c.Call.Args {
			as = append(as, ps.S(a))
		}
		return b.Name() + "(" + strings.Join(as, ",") + ")"
	}
	cal := c.Call.StaticCallee()
	if cal == nil {
		if c.Call.IsInvoke() {
			return "invoke." + c.Call.Method.Name() + "(" + ps.S(c.Call.Value) + ")"
		}
		return "dyncall@" + ps.p.InstrPos(c)
	}
	name := cal.Name()
	if recv := cal.Signature.Recv(); recv != nil {
		name = typeShort(recv.Type()) + "." + name
	}
	var as []string
	for _, a := range c.Call.Args {
		as = append(as, ps.S(a))
	}
	return name + "(" + strings.Join(as, ",") + ")"
}

// mutatesReceiver: a method that returns its receiver type (Add, SetBytes, Mod, ...) renames the receiver object.
func mutatesReceiver(cal *ssa.Function) bool {
	recv := cal.Signature.Recv()
	if recv == nil {
		return false
	}
	res := cal.Signature.Results()
	if res.Len() == 0 {
		return false
	}
	return types.Identical(res.At(0).Type(), recv.Type())
}

var commutative = map[string]bool{"Int.Add": true, "Int.Mul": true, "SM2Element.Add": true, "SM2Element.Mul": true, "SM2ScalarElement.Add": true, "SM2ScalarElement.Mul": true}

// step applies one instruction of the path to the symbolic state.
func (ps *pathSym) step(in ssa.Instruction) {
	switch x := in.(type) {
	case *ssa.Call:
		if b, ok := x.Call.Value.(*ssa.Builtin); ok {
			switch b.Name() {
			case "append":
				base := ps.rootOf(x.Call.Args[0])
				if bk, ok := ps.backing[base]; ok {
					base = bk
				}
				var content string
				if sl, ok := x.Call.Args[0].(*ssa.Slice); ok && sl.High != nil && ps.S(sl.High) == "0" {
					content = ""
					base = ps.rootOf(sl.X)
				} else {
					content = ps.S(x.Call.Args[0])
				}
				add := ps.S(x.Call.Args[1])
				if content == "" {
					content = add
				} else {
					content = content + "||" + add
				}
				ps.sym[ssa.Value(x)] = content
				if _, isAlloc := base.(*ssa.Alloc); isAlloc {
					ps.sym[base] = content
					ps.backing[ssa.Value(x)] = base
				}
				// earlier append results in the chain share the backing array
				if prev, ok := x.Call.Args[0].(*ssa.Call); ok {
					_ = prev
				}
			case "copy":
				dst := x.Call.Args[0]
				if sl, ok := dst.(*ssa.Slice); ok {
					if al, ok := sl.X.(*ssa.Alloc); ok {
						arr, isArr := al.Type().Underlying().(*types.Pointer).Elem().Underlying().(*types.Array)
						if isArr && sl.Low != nil {
							// left-pad idiom: copy(buf[N-len(b):], b)
							lo := ps.S(sl.Low)
							src := ps.S(x.Call.Args[1])
							if lo == fmt.Sprintf("(%d - len(%s))", arr.Len(), src) {
								ps.sym[al] = fmt.Sprintf("pad%d(%s)", arr.Len(), src)
								return
							}
						}
						if isArr && sl.Low == nil {
							ps.sym[al] = "copyof(" + ps.S(x.Call.Args[1]) + ")"
							return
						}
						ps.sym[al] = "written@" + ps.p.InstrPos(x)
					}
				}
			}
			return
		}
		cal := x.Call.StaticCallee()
		if cal == nil {
			return
		}
		if strings.HasSuffix(cal.String(), "Endian).PutUint16") || strings.HasSuffix(cal.String(), "Endian).PutUint32") || strings.HasSuffix(cal.String(), "Endian).PutUint64") {
			if len(x.Call.Args) == 3 {
				order := "be"
				if strings.Contains(cal.String(), "littleEndian") {
					order = "le"
				}
				bits := cal.Name()[len("PutUint"):]
				dst := x.Call.Args[1]
				if sl, ok := dst.(*ssa.Slice); ok && sl.Low == nil && sl.High == nil {
					ps.sym[ps.rootOf(sl.X)] = order + bits + "(" + ps.S(x.Call.Args[2]) + ")"
				} else {
					ps.sym[ps.rootOf(dst)] = "written@" + ps.p.InstrPos(x)
				}
			}
			return
		}
		if cal.String() == "io.ReadFull" && len(x.Call.Args) == 2 {
			ps.draws++
			ps.cache[ssa.Value(x)] = "ReadFull(" + ps.S(x.Call.Args[0]) + ")"
			ps.sym[ps.rootOf(x.Call.Args[1])] = "draw(" + ps.S(x.Call.Args[0]) + ")"
			return
		}
		if isRepoFunc(cal) && len(cal.Blocks) > 0 {
			rdIdx := -1
			for i, prm := range cal.Params {
				if isNamed(prm.Type(), "io", "Reader") {
					rdIdx = i
				}
			}
			if rdIdx >= 0 {
				if bufIdx, probs := drawHelperInfo(ps.p, cal, rdIdx); len(probs) == 0 && bufIdx >= 0 && bufIdx < len(x.Call.Args) {
					ps.draws++
					ps.cache[ssa.Value(x)] = "ReadFull(" + ps.S(x.Call.Args[rdIdx]) + ")"
					ps.sym[ps.rootOf(x.Call.Args[bufIdx])] = "draw(" + ps.S(x.Call.Args[rdIdx]) + ")"
					ps.importHelperGuards(cal, x.Call.Args[rdIdx])
					return
				}
			}
		}
		if mutatesReceiver(cal) && len(x.Call.Args) > 0 {
			recv := ps.rootOf(x.Call.Args[0])
			name := typeShort(cal.Signature.Recv().Type()) + "." + cal.Name()
			var as []string
			for _, a := range x.Call.Args[1:] {
				as = append(as, ps.S(a))
			}
			if commutative[name] {
				sort.Strings(as)
			}
			expr := name + "(" + strings.Join(as, ",") + ")"
			if cal.Name() == "Set" && len(as) == 1 {
				expr = as[0]
			}
			ps.sym[recv] = expr
			if x.Type() != nil {
				if tup, ok := x.Type().(*types.Tuple); ok && tup.Len() > 1 {
					// (recv, error) results: extracts resolve through S(tuple)
					ps.sym[ssa.Value(x)] = expr
				} else {
					ps.sym[ssa.Value(x)] = expr
				}
			}
			return
		}
		// repo helpers with a length summary of the form pad32: keep the call name
	case *ssa.Store:
		// a store into a local array element invalidates its symbolic content
		if ia, ok := x.Addr.(*ssa.IndexAddr); ok {
			if al, ok := ia.X.(*ssa.Alloc); ok {
				arr, isArr := al.Type().Underlying().(*types.Pointer).Elem().Underlying().(*types.Array)
				if isArr && arr.Len() == 1 && isConst(x.Val) {
					ps.sym[al] = ps.S(x.Val)
				} else {
					ps.sym[al] = "written@" + ps.p.InstrPos(x)
				}
			}
		}
	}
}

// WalkTo processes the dominator chain of target and records the guards of the path.
func (ps *pathSym) WalkTo(target *ssa.BasicBlock) {
	var chain []*ssa.BasicBlock
	for b := target; b != nil; b = b.Idom() {
		chain = append([]*ssa.BasicBlock{b}, chain...)
	}
	for i, b := range chain {
		for _, in := range b.Instrs {
			ps.step(in)
		}
		if i+1 >= len(chain) {
			break
		}
		next := chain[i+1]
		iff, ok := b.Instrs[len(b.Instrs)-1].(*ssa.If)
		if !ok {
			continue
		}
		matched := false
		for k, s := range b.Succs {
			if s == next && onlyForwardPred(s, b) && b.Succs[1-k] != s {
				ps.Guards = append(ps.Guards, Guard{Text: ps.condText(iff.Cond, k == 0), If: iff, Truth: k == 0, Reject: b.Succs[1-k]})
				matched = true
			}
		}
		if !matched {
			// short-circuit region: `if A && B { reject }` / `if A || B { reject }` whose continuation `next` has two predecessors
			for k, mid := range b.Succs {
				other := b.Succs[1-k]
				if other != next || mid == next || len(mid.Preds) != 1 {
					continue
				}
				iff2, ok := mid.Instrs[len(mid.Instrs)-1].(*ssa.If)
				if !ok || len(mid.Instrs) > 8 {
					continue
				}
				for k2, s2 := range mid.Succs {
					if s2 == next && mid.Succs[1-k2] != next {
						// path reaches next either directly from b (A has truth k!=0 ... ) or through mid with B's truth k2
						for _, in := range mid.Instrs {
							ps.step(in)
						}
						a := ps.condText(iff.Cond, k == 0)    // condition under which control enters mid
						bb := ps.condText(iff2.Cond, k2 != 0) // condition under which mid leaves to the reject block
						ps.Guards = append(ps.Guards, Guard{Text: "!(" + a + " && " + bb + ")", If: iff2, Truth: k2 == 0, Reject: mid.Succs[1-k2]})
						matched = true
					}
				}
			}
		}
	}
}

var negOp = map[token.Token]token.Token{token.EQL: token.NEQ, token.NEQ: token.EQL, token.LSS: token.GEQ, token.GEQ: token.LSS, token.GTR: token.LEQ, token.LEQ: token.GTR}

func (ps *pathSym) condText(c ssa.Value, truth bool) string {
	switch x := c.(type) {
	case *ssa.UnOp:
		if x.Op == token.NOT {
			return ps.condText(x.X, !truth)
		}
	case *ssa.BinOp:
		if n, ok := negOp[x.Op]; ok {
			op := x.Op
			if !truth {
				op = n
			}
			return ps.S(x.X) + " " + op.String() + " " + ps.S(x.Y)
		}
	}
	if truth {
		return ps.S(c)
	}
	return "!" + ps.S(c)
}

func (ps *pathSym) GuardTexts() []string {
	var out []string
	for _, g := range ps.Guards {
		out = append(out, g.Text)
	}
	return out
}

// FindGuard returns the first guard whose text is one of the accepted spellings.
func (ps *pathSym) FindGuard(spellings ...string) *Guard {
	for i := range ps.Guards {
		for _, s := range spellings {
			if ps.Guards[i].Text == s {
				return &ps.Guards[i]
			}
		}
	}
	return nil
}

// allocNeverWritten: a local array that is only ever sliced and handed to read-only comparison routines (an all-zero constant).
func allocNeverWritten(al *ssa.Alloc) bool {
	if al.Referrers() == nil {
		return true
	}
	for _, ref := range *al.Referrers() {
		sl, ok := ref.(*ssa.Slice)
		if !ok {
			if _, isDbg := ref.(*ssa.DebugRef); isDbg {
				continue
			}
			return false
		}
		if sl.Referrers() == nil {
			continue
		}
		for _, r2 := range *sl.Referrers() {
			call, ok := r2.(*ssa.Call)
			if !ok {
				if _, isDbg := r2.(*ssa.DebugRef); isDbg {
					continue
				}
				return false
			}
			cal := call.Call.StaticCallee()
			if cal == nil {
				return false
			}
			n := cal.String()
			if n != "crypto/subtle.ConstantTimeCompare" && n != modPath+"/utils.ConstantTimeCmp" {
				return false
			}
		}
	}
	return true
}

// boolPhi names the Phi produced by a short-circuit && / || expression.
func (ps *pathSym) boolPhi(x *ssa.Phi) (string, bool) {
	b, ok := x.Type().Underlying().(*types.Basic)
	if !ok || b.Kind() != types.Bool || len(x.Edges) < 2 {
		return "", false
	}
	// a && b && c ...: all edges but the last are the constant false (&&) or true (||), coming from blocks that end in an If
	blk := x.Block()
	var parts []string
	var isAnd, isOr bool
	for i, e := range x.Edges {
		c, isC := e.(*ssa.Const)
		pred := blk.Preds[i]
		if isC && i < len(x.Edges)-1 {
			v := constant.BoolVal(c.Value)
			iff, ok := pred.Instrs[len(pred.Instrs)-1].(*ssa.If)
			if !ok {
				return "", false
			}
			if !v {
				isAnd = true
				// pred jumps to the phi block when its condition is false (or true, depending on successor order)
				parts = append(parts, ps.condText(iff.Cond, pred.Succs[0] != blk))
			} else {
				isOr = true
				parts = append(parts, ps.condText(iff.Cond, pred.Succs[0] == blk))
			}
			continue
		}
		if i != len(x.Edges)-1 {
			return "", false
		}
		parts = append(parts, ps.condText(e, true))
	}
	if isAnd == isOr {
		return "", false
	}
	op := " && "
	if isOr {
		op = " || "
	}
	return "(" + strings.Join(parts, op) + ")", true
}

// onlyForwardPred: every predecessor of s other than b is a back edge (dominated by s).
func onlyForwardPred(s, b *ssa.BasicBlock) bool {
	for _, p := range s.Preds {
		if p != b && !s.Dominates(p) {
			return false
		}
	}
	return true
}

// importHelperGuards adds the guards that dominate the nil-error return of a draw helper (with its own restart loop).
func (ps *pathSym) importHelperGuards(h *ssa.Function, callerReader ssa.Value) {
	var accept *ssa.Return
	n := 0
	for _, b := range h.Blocks {
		if ret, ok := b.Instrs[len(b.Instrs)-1].(*ssa.Return); ok && isNilConst(retVals(ret)[len(retVals(ret))-1]) {
			accept = ret
			n++
		}
	}
	if n != 1 {
		return
	}
	hs := newPathSym(ps.p, h, ps.f)
	// the helper's reader parameter is the caller's reader
	for _, prm := range h.Params {
		if isNamed(prm.Type(), "io", "Reader") {
			hs.cache[prm] = ps.S(callerReader)
		}
	}
	hs.WalkTo(accept.Block())
	var draw *ssa.BasicBlock
	for _, b := range h.Blocks {
		for _, in := range b.Instrs {
			if call, ok := in.(*ssa.Call); ok && call.Call.StaticCallee() != nil && call.Call.StaticCallee().String() == "io.ReadFull" {
				draw = b
			}
		}
	}
	for _, g := range hs.Guards {
		k, _ := rejectKind(&g, draw)
		g.Kind = k
		ps.Guards = append(ps.Guards, g)
	}
}
