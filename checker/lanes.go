package main

// Lane dependency analysis for the amd64 block kernels (C05 d'): for every 32-bit lane of every vector register the set of
// input blocks it depends on, through loads, unpack/transposes, lane-wise round operations and stores.

import (
	"fmt"
	"strings"
)

type laneVec [16]uint32 // per dword lane: bitmask of input block indices

func laneUnion(vs ...laneVec) uint32 {
	var m uint32
	for _, v := range vs {
		for _, x := range v {
			m |= x
		}
	}
	return m
}

// dwordPreserving: a VPSHUFB mask (16 bytes) that keeps every byte inside its own dword.
func dwordPreserving(mask []byte) bool {
	if len(mask) < 16 {
		return false
	}
	for i := 0; i < 16; i++ {
		if mask[i]&0x80 != 0 || int(mask[i]&15)/4 != i/4 {
			return false
		}
	}
	return true
}

func c05Lanes(r *Report, u *AsmUnit) {
	for _, rt := range u.Routines {
		if !rt.HasDecl || !strings.HasPrefix(rt.Name, "cryptoBlockAsm") {
			continue
		}
		rt = rt.UnrollConstLoops() // a round loop with a constant trip count is the same instruction sequence
		flow := AnalyzeFlow(rt)
		if len(flow.Errors) > 0 {
			r.Fatalf("%s: %s", rt.Name, flow.Errors[0])
			continue
		}
		key := "amd64/" + rt.Name
		if undef := VecDefBeforeUse(rt, flow); len(undef) > 0 {
			r.Viol("REGISTER-DEFINED", key, "sm4/"+rt.File, undef[0])
		} else {
			r.Ok("REGISTER-DEFINED", key, "sm4/"+rt.File, "every vector register is written before it is read on every path")
		}
		// straight-line kernels only
		straight := true
		for _, in := range rt.Instrs {
			if k := branchKind("amd64", in.Op); k == brCond || k == brJmp {
				straight = false
			}
		}
		if !straight {
			r.Undecided("LANE-DEPENDENCY", key, "sm4/"+rt.File, "kernel is not straight-line code")
			continue
		}
		accBy := map[int]Access{}
		for _, a := range flow.Accesses {
			accBy[a.Instr.Idx] = a
		}
		// pointer registers: constant displacement from parameter base (straight-line: ADDQ $c advances are folded)
		ptrOff := map[string]int64{}
		ptrObj := map[string]string{}
		regs := map[string]laneVec{}
		symOf := map[string]string{} // vector register -> RODATA symbol it was loaded from (for shuffle masks)
		outDeps := map[int]uint32{}
		outSeen := map[int]int{}
		problems := []string{}
		nblocks := 0
		for idx, in := range rt.Instrs {
			e := flow.Effects[idx]
			a := in.Args
			switch in.Op {
			case "TEXT", "FUNCDATA", "PCDATA", "NOP", "RET":
				continue
			case "MOVQ", "MOVD", "LEAQ":
				if len(a) == 2 && a[1].Kind == OReg && isGPR(a[1].Reg) {
					switch a[0].Kind {
					case OFP:
						if sl, ok := rt.Slot(a[0]); ok && sl.Part == "ptr" {
							ptrObj[a[1].Reg], ptrOff[a[1].Reg] = sl.Param, 0
							continue
						}
					case OSym, OSymAddr:
						ptrObj[a[1].Reg], ptrOff[a[1].Reg] = "sym:"+a[0].Sym, 0
						continue
					}
					delete(ptrObj, a[1].Reg)
					continue
				}
			case "ADDQ", "SUBQ":
				if len(a) == 2 && a[0].Kind == OImm && a[1].Kind == OReg {
					if _, ok := ptrObj[a[1].Reg]; ok {
						if in.Op == "ADDQ" {
							ptrOff[a[1].Reg] += a[0].Imm
						} else {
							ptrOff[a[1].Reg] -= a[0].Imm
						}
					}
					continue
				}
			}
			if !e.IsVec && len(e.Mem) == 0 {
				for _, w := range e.Writes {
					delete(ptrObj, w)
				}
				continue
			}
			// memory forms
			if len(e.Mem) == 1 {
				m := e.Mem[0]
				obj, off := "", int64(0)
				if m.Sym != "" {
					obj = "sym:" + m.Sym
				} else if o, ok := ptrObj[m.Base]; ok {
					obj, off = o, ptrOff[m.Base]+m.Off
				}
				if m.Load {
					var v laneVec
					if obj == "src" {
						for j := 0; j < m.Width/4 && j < 16; j++ {
							blk := int(off+int64(4*j)) / 16
							if blk >= 0 && blk < 32 {
								v[j] = 1 << uint(blk)
								if blk+1 > nblocks {
									nblocks = blk + 1
								}
							}
						}
					} else if obj == "" {
						problems = append(problems, "load through an unidentified pointer: "+in.Raw)
					}
					for _, w := range e.Writes {
						if strings.HasPrefix(w, "V") {
							if strings.HasPrefix(in.Op, "VBROADCAST") || in.Op == "VPBROADCASTD" {
								var z laneVec
								regs[w] = z
							} else {
								regs[w] = v
							}
							if strings.HasPrefix(obj, "sym:") {
								symOf[w] = obj[4:]
							} else {
								delete(symOf, w)
							}
						} else {
							delete(ptrObj, w)
						}
					}
					continue
				}
				if m.Store {
					var src laneVec
					for _, o := range a {
						if o.Kind == OReg && strings.HasPrefix(o.Reg, "V") {
							src = regs[o.Reg]
						}
					}
					if obj == "dst" {
						for j := 0; j < m.Width/4 && j < 16; j++ {
							blk := int(off+int64(4*j)) / 16
							outDeps[blk] |= src[j]
							outSeen[blk]++
						}
					} else {
						problems = append(problems, "store through a pointer other than dst: "+in.Raw)
					}
					continue
				}
			}
			// register forms
			if len(a) < 2 || a[len(a)-1].Kind != OReg {
				continue
			}
			dst := a[len(a)-1].Reg
			if !strings.HasPrefix(dst, "V") {
				continue
			}
			lanes := a[len(a)-1].Width / 4
			get := func(o Operand) laneVec {
				if o.Kind == OReg {
					return regs[o.Reg]
				}
				return laneVec{}
			}
			var out laneVec
			switch in.Op {
			case "VPUNPCKLDQ", "VPUNPCKHDQ", "VPUNPCKLQDQ", "VPUNPCKHQDQ":
				s2, s1 := get(a[0]), get(a[1]) // Go order: src2, src1, dst
				for g := 0; g < lanes; g += 4 {
					switch in.Op {
					case "VPUNPCKLDQ":
						out[g], out[g+1], out[g+2], out[g+3] = s1[g], s2[g], s1[g+1], s2[g+1]
					case "VPUNPCKHDQ":
						out[g], out[g+1], out[g+2], out[g+3] = s1[g+2], s2[g+2], s1[g+3], s2[g+3]
					case "VPUNPCKLQDQ":
						out[g], out[g+1], out[g+2], out[g+3] = s1[g], s1[g+1], s2[g], s2[g+1]
					case "VPUNPCKHQDQ":
						out[g], out[g+1], out[g+2], out[g+3] = s1[g+2], s1[g+3], s2[g+2], s2[g+3]
					}
				}
			case "VPSHUFB":
				mask, data := a[0], a[1]
				sym := symOf[mask.Reg]
				d := u.Data[sym]
				if sym != "" && d != nil && dwordPreserving(d.Bytes) && laneUnion(regs[mask.Reg]) == 0 {
					out = get(data)
				} else {
					dv := get(data)
					for g := 0; g < lanes; g += 4 {
						m := dv[g] | dv[g+1] | dv[g+2] | dv[g+3] | laneUnion(regs[mask.Reg])
						out[g], out[g+1], out[g+2], out[g+3] = m, m, m, m
					}
				}
			case "VPXORD", "VPXORQ", "VPANDD", "VPADDD", "VPROLD", "VPRORD", "VPSRLD", "VPSLLD", "VGF2P8AFFINEQB", "VGF2P8AFFINEINVQB", "VMOVDQA64", "VMOVDQA32", "VMOVAPD", "VMOVDQU32":
				// lane-wise: result lane j depends on lane j of every register source
				if e.ZeroIdiom {
					break
				}
				for _, o := range a[:len(a)-1] {
					if o.Kind != OReg || !strings.HasPrefix(o.Reg, "V") {
						continue
					}
					if (in.Op == "VGF2P8AFFINEQB" || in.Op == "VGF2P8AFFINEINVQB") && o.Reg == a[1].Reg && laneUnion(regs[o.Reg]) == 0 {
						continue // constant matrix
					}
					sv := regs[o.Reg]
					for j := 0; j < lanes; j++ {
						out[j] |= sv[j]
					}
				}
			case "VPBROADCASTD":
				src := get(a[0])
				for j := 0; j < lanes; j++ {
					out[j] = src[0]
				}
			default:
				// unknown vector operation: every result lane may depend on every source lane
				var m uint32
				for _, o := range a[:len(a)-1] {
					if o.Kind == OReg {
						m |= laneUnion(regs[o.Reg])
					}
				}
				for j := 0; j < lanes; j++ {
					out[j] = m
				}
			}
			regs[dst] = out
			delete(symOf, dst)
		}
		if len(problems) > 0 {
			r.Undecided("LANE-DEPENDENCY", key, "sm4/"+rt.File, strings.Join(problems, "; "))
			continue
		}
		if nblocks == 0 {
			r.Undecided("LANE-DEPENDENCY", key, "sm4/"+rt.File, "no load from src found")
			continue
		}
		for k := 0; k < nblocks; k++ {
			r.Count("kernel_output_blocks", 1)
			want := uint32(1) << uint(k)
			got := outDeps[k]
			ok := got == want && outSeen[k] == 4
			r.Check(ok, "LANE-DEPENDENCY", fmt.Sprintf("%s output block %d", key, k), "sm4/"+rt.File, fmt.Sprintf("stored output block %d depends on input blocks %s (must be exactly block %d; %d of 4 words stored)", k, maskBlocks(got), k, outSeen[k]))
		}
	}
}

func maskBlocks(m uint32) string {
	var bs []string
	for i := 0; i < 32; i++ {
		if m&(1<<uint(i)) != 0 {
			bs = append(bs, fmt.Sprint(i))
		}
	}
	return "{" + strings.Join(bs, ",") + "}"
}
