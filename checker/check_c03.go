package main

import (
	"fmt"
	"strings"

	"golang.org/x/tools/go/ssa"
)

func init() { register("C03", "other", checkC03) }

const (
	xR = "Int.SetBytes(r)"
	xS = "Int.SetBytes(s)"
	xE = "Int.SetBytes(e)"
)

func bigGE1(x string) []string {
	return []string{xf("Int.Cmp", x, "1") + " >= 0", xf("Int.Sign", x) + " > 0", xf("Int.Sign", x) + " == 1", xf("Int.Cmp", x, "0") + " > 0", xf("Int.Cmp", x, "1") + " != -1"}
}
func bigLT(x, k string) []string {
	return []string{xf("Int.Cmp", x, k) + " < 0", xf("Int.Cmp", x, k) + " == -1", xf("Int.Cmp", k, x) + " > 0", xf("Int.Cmp", k, x) + " == 1"}
}
func bigNZ(x string) []string {
	return []string{xf("Int.Sign", x) + " != 0", xf("Int.Cmp", x, "0") + " != 0", xf("Int.Sign", x) + " > 0", xf("Int.Cmp", x, "0") + " > 0"}
}

func checkC03(c *Ctx, r *Report) {
	r.Explanation = "Decided on the outcomes of a path-by-path interpretation of sm2.VerifyHashed in the protocol domain (checker/proto*.go): on every outcome that can return true, VERIFY-LENGTHS (all five inputs are 32 bytes), VERIFY-RANGE (1 <= r, s <= n-1 follow from the path condition by the LP), VERIFY-T (the point scalar is the non-zero canonical residue of r+s), VERIFY-PUBKEY (P is the successfully decoded 04 || pubx || puby), VERIFY-POINT (x1 comes from [s]G + [t]P with base-point scalar s), VERIFY-FINITE (infinity excluded before its x is used), VERIFY-VERDICT (the returned boolean is ((e + x1) mod n) == r with a canonical left side), VERIFY-ERROR-NIL; plus the decoder inventories (canonical on-curve decoding, infinity predicate) shared with C12/C15/C16. The statements are about values and path conditions, not about the spelling of guards or the split into helpers. NOT decided: the values of the scalar multiplication (C14) and the group law (C15)."
	r.Trusted = []string{"go/ssa", "contracts of math/big as summarised in checker/proto2.go", "internal.ScalarMixedMult_Unsafe returns [g]G + [t]P for 32-byte scalars (C14)"}
	p, err := LoadRepo(c.Repo, "amd64")
	if err != nil {
		r.Fatalf("%v", err)
		return
	}
	protoVerifyHashed(r, p)
	protoDecoders(r, p)
	r.Floor("protocol_paths", 5)
}

// checkPredicateDefs: the inventory accepts guards spelled through repository predicates (IsInfinity, IsZero); their own
// definitions are checked here: one return whose canonical expression is the projective definition.
func checkPredicateDefs(r *Report, p *Prog, f *Folder) {
	for _, d := range []struct {
		fn     string
		accept []string
		means  string
	}{
		{"sm2/internal.(*SM2Point).IsInfinity", []string{"(SM2Element.IsZero(*p.z) == 1)", "(SM2Element.IsZero(*p.z) != 0)", "(1 == SM2Element.IsZero(*p.z))"}, "Z == 0 (every projective representative (X:Y:0) of the point at infinity)"},
		{"sm2/internal/fiat.(*SM2Element).IsZero", []string{"ConstantTimeCompare(SM2Element.Bytes(e),bytes32(0))", "ConstantTimeCompare(bytes32(0),SM2Element.Bytes(e))"}, "the canonical encoding equals 32 zero bytes"},
	} {
		fn := p.MustFunc(r, d.fn)
		if fn == nil {
			continue
		}
		var rets []*ssa.Return
		for _, b := range fn.Blocks {
			if ret, ok := b.Instrs[len(b.Instrs)-1].(*ssa.Return); ok {
				rets = append(rets, ret)
			}
		}
		if len(rets) != 1 {
			r.Viol("PREDICATE-DEF", d.fn, p.Pos(fn.Pos()), fmt.Sprintf("%d returns; the definition is expected to be one expression", len(rets)))
			continue
		}
		ps := newPathSym(p, fn, f)
		ps.WalkTo(rets[0].Block())
		got := normText(ps.S(retVals(rets[0])[0]))
		ok := false
		for _, a := range d.accept {
			if got == normText(a) {
				ok = true
			}
		}
		r.Check(ok, "PREDICATE-DEF", d.fn, p.InstrPos(rets[0]), "returns "+got+"; required meaning: "+d.means)
	}
}

// c03Decoders: inventories of the point and element decoders (shared with C12, C15, C16).
func c03Decoders(r *Report, p *Prog, f *Folder) {
	for _, d := range []struct{ fn, bound string }{
		{"sm2/internal/fiat.(*SM2Element).SetBytes", "bytes32(P-1)"},
		{"sm2/internal/fiat.(*SM2ScalarElement).SetBytes", "bytes32(N-1)"},
	} {
		fn := p.MustFunc(r, d.fn)
		if fn == nil {
			continue
		}
		n := 0
		for _, b := range fn.Blocks {
			ret, ok := b.Instrs[len(b.Instrs)-1].(*ssa.Return)
			if !ok {
				continue
			}
			if !isNilConst(retVals(ret)[1]) {
				r.Check(isNilConst(retVals(ret)[0]), "DECODE-REJECT", fmt.Sprintf("%s error return#%d", d.fn, n), p.InstrPos(ret), "an error return carries a nil element")
				n++
				continue
			}
			ps := newPathSym(p, fn, f)
			ps.WalkTo(b)
			cmp := xf("ConstantTimeCmp", "v", d.bound, "32")
			reqs := []guardReq{
				{"(len(v), =, 32)", []string{"len(v) == 32"}, "error"},
				{"(v, <=, " + d.bound + ")", []string{cmp + " <= 0", cmp + " < 1", cmp + " != 1"}, "error"},
			}
			checkInventory(r, p, ps, d.fn, p.InstrPos(ret), reqs, nil)
		}
	}
	// point decoder
	fn := p.MustFunc(r, "sm2/internal.(*SM2Point).SetBytes")
	if fn == nil {
		return
	}
	name := "sm2/internal.(*SM2Point).SetBytes"
	X := xf("SM2Element.SetBytes", "b[1:33]")
	Y := xf("SM2Element.SetBytes", "b[33:]")
	accepts := 0
	var acceptBlocks []*ssa.BasicBlock
	for _, b := range fn.Blocks {
		ret, ok := b.Instrs[len(b.Instrs)-1].(*ssa.Return)
		if !ok {
			continue
		}
		if !isNilConst(retVals(ret)[1]) {
			r.Check(isNilConst(retVals(ret)[0]), "DECODE-REJECT", name+" error return at "+p.InstrPos(ret), p.InstrPos(ret), "an error return carries a nil point")
			continue
		}
		accepts++
		acceptBlocks = append(acceptBlocks, b)
		ps := newPathSym(p, fn, f)
		ps.WalkTo(b)
		texts := strings.Join(ps.GuardTexts(), " ; ")
		switch {
		case ps.FindGuard("(len(b) == 65 && *b[0] == 4)", "(*b[0] == 4 && len(b) == 65)") != nil:
			reqs := []guardReq{
				{"(len, tag) = (65, 4)", []string{"(len(b) == 65 && *b[0] == 4)"}, "any"},
				{"(x canonical, error)", []string{"err(" + X + ") == nil"}, "error"},
				{"(y canonical, error)", []string{"err(" + Y + ") == nil"}, "error"},
				{"(on curve, error)", []string{xf("Sm2CheckOnCurve", X, Y) + " == nil"}, "error"},
			}
			checkInventory(r, p, ps, name+" [uncompressed]", p.InstrPos(ret), reqs, nil)
			wr := receiverFieldWrites(p, fn, ps, b)
			ok := wr["x"] == X && wr["y"] == Y && (wr["z"] == "SM2Element.One()" || wr["z"] == "1")
			r.Check(ok, "DECODE-COMPLETE", name+" [uncompressed] sets (x, y, 1)", p.InstrPos(ret), fmt.Sprintf("receiver coordinates written on the accepting path: %v", wr))
		case ps.FindGuard("(len(b) == 1 && *b[0] == 0)", "(*b[0] == 0 && len(b) == 1)") != nil:
			// infinity: all three coordinates must be (re)set — through a whole-point Set of a fresh infinity, or field-wise
			wr := receiverFieldWrites(p, fn, ps, b)
			whole := false
			for _, in := range b.Instrs {
				if call, ok := in.(*ssa.Call); ok {
					if cal := call.Call.StaticCallee(); cal != nil && cal.Name() == "Set" && len(call.Call.Args) == 2 && call.Call.Args[0] == ssa.Value(fn.Params[0]) {
						if ps.S(call.Call.Args[1]) == "NewSM2Point()" {
							whole = true
						}
					}
				}
			}
			r.Check(whole || (wr["x"] != "" && wr["y"] != "" && wr["z"] != ""), "DECODE-COMPLETE", name+" [infinity] sets all three coordinates", p.InstrPos(ret), fmt.Sprintf("whole-point Set(NewSM2Point())=%v, field writes %v: a receiver that held a finite point must not keep its X and Y", whole, wr))
		default:
			r.Viol("DECODE-STRICT", name+" accepting return at "+p.InstrPos(ret), p.InstrPos(ret), "an encoding other than the 1-byte infinity or the 65-byte uncompressed form is accepted; guards on the path: "+texts)
		}
	}
	r.Check(accepts == 2, "DECODE-STRICT", name+" accepting returns", p.Pos(fn.Pos()), fmt.Sprintf("%d accepting returns (infinity and uncompressed expected)", accepts))
	// receiver unchanged on error: every mutation of the receiver lies in a block dominated by an accepting path's last guard,
	// i.e. no mutation of p.x/p.y/p.z (or p.Set) is reachable from which an error return is reachable
	bad := ""
	for _, b := range fn.Blocks {
		for _, in := range b.Instrs {
			call, ok := in.(*ssa.Call)
			if !ok {
				continue
			}
			cal := call.Call.StaticCallee()
			if cal == nil || !mutatesReceiver(cal) || len(call.Call.Args) == 0 {
				continue
			}
			if !rootedAtParam(call.Call.Args[0], fn.Params[0]) {
				continue
			}
			for rb := range reachableBlocks(b) {
				if ret, ok := rb.Instrs[len(rb.Instrs)-1].(*ssa.Return); ok && !isNilConst(retVals(ret)[1]) {
					bad = "receiver mutated at " + p.InstrPos(in) + " on a path that can still return an error at " + p.InstrPos(ret)
				}
			}
		}
	}
	r.Check(bad == "", "RECEIVER-UNCHANGED-ON-ERROR", name, p.Pos(fn.Pos()), "all stores to the receiver are after every guard"+ifs(bad != "", ": "+bad))
}

func rootedAtParam(v ssa.Value, prm *ssa.Parameter) bool {
	for i := 0; i < 20; i++ {
		switch x := v.(type) {
		case *ssa.Parameter:
			return x == prm
		case *ssa.UnOp:
			v = x.X
		case *ssa.FieldAddr:
			v = x.X
		case *ssa.IndexAddr:
			v = x.X
		default:
			return false
		}
	}
	return false
}

// receiverFieldWrites: mutating method calls on *recv.<field> in the blocks of the dominator chain of b, as field -> expression.
func receiverFieldWrites(p *Prog, fn *ssa.Function, ps *pathSym, b *ssa.BasicBlock) map[string]string {
	out := map[string]string{}
	recv := fn.Params[0]
	for d := b; d != nil; d = d.Idom() {
		for _, in := range d.Instrs {
			call, ok := in.(*ssa.Call)
			if !ok {
				continue
			}
			cal := call.Call.StaticCallee()
			if cal == nil || !mutatesReceiver(cal) || len(call.Call.Args) == 0 {
				continue
			}
			ld, ok := call.Call.Args[0].(*ssa.UnOp)
			if !ok {
				continue
			}
			fa, ok := ld.X.(*ssa.FieldAddr)
			if !ok || fa.X != ssa.Value(recv) {
				continue
			}
			fname := ps.addr(fa)
			fname = fname[strings.LastIndex(fname, ".")+1:]
			var as []string
			for _, a := range call.Call.Args[1:] {
				as = append(as, ps.S(a))
			}
			expr := typeShort(cal.Signature.Recv().Type()) + "." + cal.Name() + "(" + strings.Join(as, ",") + ")"
			if cal.Name() == "Set" && len(as) == 1 {
				expr = as[0]
			}
			out[fname] = expr
		}
	}
	return out
}
