package main

import (
	"fmt"
	"strings"

	"golang.org/x/tools/go/ssa"
)

func init() { register("C03", "other", checkC03) }

const (
	xR = "Int.SetBytes(r)"
	xS = "Int.SetBytes(s)"
	xE = "Int.SetBytes(e)"
)

func bigGE1(x string) []string {
	return []string{xf("Int.Cmp", x, "1") + " >= 0", xf("Int.Sign", x) + " > 0", xf("Int.Sign", x) + " == 1", xf("Int.Cmp", x, "0") + " > 0", xf("Int.Cmp", x, "1") + " != -1"}
}
func bigLT(x, k string) []string {
	return []string{xf("Int.Cmp", x, k) + " < 0", xf("Int.Cmp", x, k) + " == -1", xf("Int.Cmp", k, x) + " > 0", xf("Int.Cmp", k, x) + " == 1"}
}
func bigNZ(x string) []string {
	return []string{xf("Int.Sign", x) + " != 0", xf("Int.Cmp", x, "0") + " != 0", xf("Int.Sign", x) + " > 0", xf("Int.Cmp", x, "0") + " > 0"}
}

func checkC03(c *Ctx, r *Report) {
	r.Explanation = "Guard inventory (G4) with canonical value naming on the dominator path: every side condition the statement lists is a rejecting guard that dominates the only true-capable return of VerifyHashed (five length guards; r,s >= 1; r,s < n with n the resolved curve order; t = (r+s) mod n non-zero; the public key decoded exclusively through the canonical on-curve decoder fed by 0x04||pubx||puby; the scalar multiplication wired as [s]G + [t]P with t padded to 32 bytes; the result rejected when it is the point at infinity), every failing arm returns false, and the returned verdict is the expression ((e + x1) mod n == r). The decoders' own inventories ((*SM2Point).SetBytes: length+tag, both coordinates canonical, on curve, receiver written only after all guards; SM2Element.SetBytes: length and <= p-1) are part of the claim. NOT decided: the values of the group operations (C14-C16)."
	r.Trusted = []string{"go/ssa", "math/big method semantics (Cmp, Sign, Add, Mod, SetBytes)"}
	p, err := LoadRepo(c.Repo, "amd64")
	if err != nil {
		r.Fatalf("%v", err)
		return
	}
	f := NewFolder(p)
	fn := p.MustFunc(r, "sm2.VerifyHashed")
	if fn == nil {
		return
	}
	// the only return whose first result is not the constant false
	var accept []*ssa.Return
	for _, b := range fn.Blocks {
		if ret, ok := b.Instrs[len(b.Instrs)-1].(*ssa.Return); ok {
			if !isFalseConst(retVals(ret)[0]) {
				accept = append(accept, ret)
			} else {
				r.Count("reject_returns", 1)
			}
		}
	}
	if len(accept) != 1 {
		r.Viol("SINGLE-ACCEPT", "sm2.VerifyHashed", p.Pos(fn.Pos()), fmt.Sprintf("%d returns can yield true; exactly one is expected", len(accept)))
		return
	}
	ret := accept[0]
	ps := newPathSym(p, fn, f)
	ps.WalkTo(ret.Block())
	T := xf("Int.Mod", xc("Int.Add", xR, xS), "N")
	PUB := xf("SM2Point.SetBytes", "4||pubx||puby")
	RES := xf("ScalarMixedMult_Unsafe", "s", PUB, xf("ensure32Bytes", T))
	reqs := []guardReq{
		{"(len(pubx), =, 32)", []string{"len(pubx) == 32"}, "false"},
		{"(len(puby), =, 32)", []string{"len(puby) == 32"}, "false"},
		{"(len(e), =, 32)", []string{"len(e) == 32"}, "false"},
		{"(len(r), =, 32)", []string{"len(r) == 32"}, "false"},
		{"(len(s), =, 32)", []string{"len(s) == 32"}, "false"},
		{"(r, >=, 1)", bigGE1(xR), "false"},
		{"(s, >=, 1)", bigGE1(xS), "false"},
		{"(r, <, N)", bigLT(xR, "N"), "false"},
		{"(s, <, N)", bigLT(xS, "N"), "false"},
		{"(t = (r+s) mod n, !=, 0)", bigNZ(T), "false"},
		{"(pub, canonical on-curve decoder, error)", []string{"err(" + PUB + ") == nil"}, "false"},
		{"([s]G+[t]P, error)", []string{"err(" + RES + ") == nil"}, "false"},
		{"([s]G+[t]P, infinity, reject)", []string{"!" + xf("SM2Point.IsInfinity", RES), xf("SM2Element.IsZero", "*"+RES+".z") + " != 1", "len(" + xf("SM2Point.Bytes", RES) + ") != 1"}, "false"},
	}
	checkInventory(r, p, ps, "sm2.VerifyHashed", p.InstrPos(ret), reqs, nil)
	// the verdict expression
	X1 := xf("SM2Point.GetAffineX", RES)
	lhs := xf("Int.Mod", xc("Int.Add", X1, xE), "N")
	wantV := []string{"(" + xf("Int.Cmp", lhs, xR) + " == 0)", "(" + xf("Int.Cmp", xR, lhs) + " == 0)"}
	got := normText(ps.S(retVals(ret)[0]))
	okV := false
	for _, w := range wantV {
		if got == w {
			okV = true
		}
	}
	r.Check(okV, "VERDICT-EXPRESSION", "sm2.VerifyHashed", p.InstrPos(ret), "returned verdict is "+got+"; the standard's equation is (e + x1) mod n == r with x1 the affine x of [s]G+[t]P")
	r.Check(isNilConst(retVals(ret)[1]), "VERDICT-EXPRESSION", "sm2.VerifyHashed error on accept", p.InstrPos(ret), "the accepting return carries a nil error")
	// wrappers: decided under C13 (referenced)
	c03Decoders(r, p, f)
	// the named predicates the accepted guard spellings rely on must mean what their names say
	checkPredicateDefs(r, p, f)
	r.Floor("required_guards", 13)
}

// checkPredicateDefs: the inventory accepts guards spelled through repository predicates (IsInfinity, IsZero); their own
// definitions are checked here: one return whose canonical expression is the projective definition.
func checkPredicateDefs(r *Report, p *Prog, f *Folder) {
	for _, d := range []struct {
		fn     string
		accept []string
		means  string
	}{
		{"sm2/internal.(*SM2Point).IsInfinity", []string{"(SM2Element.IsZero(*p.z) == 1)", "(SM2Element.IsZero(*p.z) != 0)", "(1 == SM2Element.IsZero(*p.z))"}, "Z == 0 (every projective representative (X:Y:0) of the point at infinity)"},
		{"sm2/internal/fiat.(*SM2Element).IsZero", []string{"ConstantTimeCompare(SM2Element.Bytes(e),bytes32(0))", "ConstantTimeCompare(bytes32(0),SM2Element.Bytes(e))"}, "the canonical encoding equals 32 zero bytes"},
	} {
		fn := p.MustFunc(r, d.fn)
		if fn == nil {
			continue
		}
		var rets []*ssa.Return
		for _, b := range fn.Blocks {
			if ret, ok := b.Instrs[len(b.Instrs)-1].(*ssa.Return); ok {
				rets = append(rets, ret)
			}
		}
		if len(rets) != 1 {
			r.Viol("PREDICATE-DEF", d.fn, p.Pos(fn.Pos()), fmt.Sprintf("%d returns; the definition is expected to be one expression", len(rets)))
			continue
		}
		ps := newPathSym(p, fn, f)
		ps.WalkTo(rets[0].Block())
		got := normText(ps.S(retVals(rets[0])[0]))
		ok := false
		for _, a := range d.accept {
			if got == normText(a) {
				ok = true
			}
		}
		r.Check(ok, "PREDICATE-DEF", d.fn, p.InstrPos(rets[0]), "returns "+got+"; required meaning: "+d.means)
	}
}

// c03Decoders: inventories of the point and element decoders (shared with C12, C15, C16).
func c03Decoders(r *Report, p *Prog, f *Folder) {
	for _, d := range []struct{ fn, bound string }{
		{"sm2/internal/fiat.(*SM2Element).SetBytes", "bytes32(P-1)"},
		{"sm2/internal/fiat.(*SM2ScalarElement).SetBytes", "bytes32(N-1)"},
	} {
		fn := p.MustFunc(r, d.fn)
		if fn == nil {
			continue
		}
		n := 0
		for _, b := range fn.Blocks {
			ret, ok := b.Instrs[len(b.Instrs)-1].(*ssa.Return)
			if !ok {
				continue
			}
			if !isNilConst(retVals(ret)[1]) {
				r.Check(isNilConst(retVals(ret)[0]), "DECODE-REJECT", fmt.Sprintf("%s error return#%d", d.fn, n), p.InstrPos(ret), "an error return carries a nil element")
				n++
				continue
			}
			ps := newPathSym(p, fn, f)
			ps.WalkTo(b)
			cmp := xf("ConstantTimeCmp", "v", d.bound, "32")
			reqs := []guardReq{
				{"(len(v), =, 32)", []string{"len(v) == 32"}, "error"},
				{"(v, <=, " + d.bound + ")", []string{cmp + " <= 0", cmp + " < 1", cmp + " != 1"}, "error"},
			}
			checkInventory(r, p, ps, d.fn, p.InstrPos(ret), reqs, nil)
		}
	}
	// point decoder
	fn := p.MustFunc(r, "sm2/internal.(*SM2Point).SetBytes")
	if fn == nil {
		return
	}
	name := "sm2/internal.(*SM2Point).SetBytes"
	X := xf("SM2Element.SetBytes", "b[1:33]")
	Y := xf("SM2Element.SetBytes", "b[33:]")
	accepts := 0
	var acceptBlocks []*ssa.BasicBlock
	for _, b := range fn.Blocks {
		ret, ok := b.Instrs[len(b.Instrs)-1].(*ssa.Return)
		if !ok {
			continue
		}
		if !isNilConst(retVals(ret)[1]) {
			r.Check(isNilConst(retVals(ret)[0]), "DECODE-REJECT", name+" error return at "+p.InstrPos(ret), p.InstrPos(ret), "an error return carries a nil point")
			continue
		}
		accepts++
		acceptBlocks = append(acceptBlocks, b)
		ps := newPathSym(p, fn, f)
		ps.WalkTo(b)
		texts := strings.Join(ps.GuardTexts(), " ; ")
		switch {
		case ps.FindGuard("(len(b) == 65 && *b[0] == 4)", "(*b[0] == 4 && len(b) == 65)") != nil:
			reqs := []guardReq{
				{"(len, tag) = (65, 4)", []string{"(len(b) == 65 && *b[0] == 4)"}, "any"},
				{"(x canonical, error)", []string{"err(" + X + ") == nil"}, "error"},
				{"(y canonical, error)", []string{"err(" + Y + ") == nil"}, "error"},
				{"(on curve, error)", []string{xf("Sm2CheckOnCurve", X, Y) + " == nil"}, "error"},
			}
			checkInventory(r, p, ps, name+" [uncompressed]", p.InstrPos(ret), reqs, nil)
			wr := receiverFieldWrites(p, fn, ps, b)
			ok := wr["x"] == X && wr["y"] == Y && (wr["z"] == "SM2Element.One()" || wr["z"] == "1")
			r.Check(ok, "DECODE-COMPLETE", name+" [uncompressed] sets (x, y, 1)", p.InstrPos(ret), fmt.Sprintf("receiver coordinates written on the accepting path: %v", wr))
		case ps.FindGuard("(len(b) == 1 && *b[0] == 0)", "(*b[0] == 0 && len(b) == 1)") != nil:
			// infinity: all three coordinates must be (re)set — through a whole-point Set of a fresh infinity, or field-wise
			wr := receiverFieldWrites(p, fn, ps, b)
			whole := false
			for _, in := range b.Instrs {
				if call, ok := in.(*ssa.Call); ok {
					if cal := call.Call.StaticCallee(); cal != nil && cal.Name() == "Set" && len(call.Call.Args) == 2 && call.Call.Args[0] == ssa.Value(fn.Params[0]) {
						if ps.S(call.Call.Args[1]) == "NewSM2Point()" {
							whole = true
						}
					}
				}
			}
			r.Check(whole || (wr["x"] != "" && wr["y"] != "" && wr["z"] != ""), "DECODE-COMPLETE", name+" [infinity] sets all three coordinates", p.InstrPos(ret), fmt.Sprintf("whole-point Set(NewSM2Point())=%v, field writes %v: a receiver that held a finite point must not keep its X and Y", whole, wr))
		default:
			r.Viol("DECODE-STRICT", name+" accepting return at "+p.InstrPos(ret), p.InstrPos(ret), "an encoding other than the 1-byte infinity or the 65-byte uncompressed form is accepted; guards on the path: "+texts)
		}
	}
	r.Check(accepts == 2, "DECODE-STRICT", name+" accepting returns", p.Pos(fn.Pos()), fmt.Sprintf("%d accepting returns (infinity and uncompressed expected)", accepts))
	// receiver unchanged on error: every mutation of the receiver lies in a block dominated by an accepting path's last guard,
	// i.e. no mutation of p.x/p.y/p.z (or p.Set) is reachable from which an error return is reachable
	bad := ""
	for _, b := range fn.Blocks {
		for _, in := range b.Instrs {
			call, ok := in.(*ssa.Call)
			if !ok {
				continue
			}
			cal := call.Call.StaticCallee()
			if cal == nil || !mutatesReceiver(cal) || len(call.Call.Args) == 0 {
				continue
			}
			if !rootedAtParam(call.Call.Args[0], fn.Params[0]) {
				continue
			}
			for rb := range reachableBlocks(b) {
				if ret, ok := rb.Instrs[len(rb.Instrs)-1].(*ssa.Return); ok && !isNilConst(retVals(ret)[1]) {
					bad = "receiver mutated at " + p.InstrPos(in) + " on a path that can still return an error at " + p.InstrPos(ret)
				}
			}
		}
	}
	r.Check(bad == "", "RECEIVER-UNCHANGED-ON-ERROR", name, p.Pos(fn.Pos()), "all stores to the receiver are after every guard"+ifs(bad != "", ": "+bad))
}

func rootedAtParam(v ssa.Value, prm *ssa.Parameter) bool {
	for i := 0; i < 20; i++ {
		switch x := v.(type) {
		case *ssa.Parameter:
			return x == prm
		case *ssa.UnOp:
			v = x.X
		case *ssa.FieldAddr:
			v = x.X
		case *ssa.IndexAddr:
			v = x.X
		default:
			return false
		}
	}
	return false
}

// receiverFieldWrites: mutating method calls on *recv.<field> in the blocks of the dominator chain of b, as field -> expression.
func receiverFieldWrites(p *Prog, fn *ssa.Function, ps *pathSym, b *ssa.BasicBlock) map[string]string {
	out := map[string]string{}
	recv := fn.Params[0]
	for d := b; d != nil; d = d.Idom() {
		for _, in := range d.Instrs {
			call, ok := in.(*ssa.Call)
			if !ok {
				continue
			}
			cal := call.Call.StaticCallee()
			if cal == nil || !mutatesReceiver(cal) || len(call.Call.Args) == 0 {
				continue
			}
			ld, ok := call.Call.Args[0].(*ssa.UnOp)
			if !ok {
				continue
			}
			fa, ok := ld.X.(*ssa.FieldAddr)
			if !ok || fa.X != ssa.Value(recv) {
				continue
			}
			fname := ps.addr(fa)
			fname = fname[strings.LastIndex(fname, ".")+1:]
			var as []string
			for _, a := range call.Call.Args[1:] {
				as = append(as, ps.S(a))
			}
			expr := typeShort(cal.Signature.Recv().Type()) + "." + cal.Name() + "(" + strings.Join(as, ",") + ")"
			if cal.Name() == "Set" && len(as) == 1 {
				expr = as[0]
			}
			out[fname] = expr
		}
	}
	return out
}
