package main

// Lane dependency for the portable two-block routine (C05 d''): cryptoBlockX2 packs two blocks into 64-bit words. A bit-level
// dependency analysis of its straight-line SSA (with the single-block helpers inlined) shows that every stored output word
// depends only on the input block at the same position.

import (
	"fmt"
	"go/token"
	"go/types"

	"golang.org/x/tools/go/ssa"
)

type bitDeps []uint8 // per bit (LSB first): bitmask of input blocks

func newDeps(w int) bitDeps { return make(bitDeps, w) }

func (d bitDeps) union() uint8 {
	var m uint8
	for _, x := range d {
		m |= x
	}
	return m
}

type goLanes struct {
	p     *Prog
	val   map[ssa.Value]bitDeps
	param *ssa.Parameter // input slice
	out   *ssa.Parameter // output slice
	bad   []string
	outs  []struct {
		lo   int64
		deps uint8
		pos  string
	}
	depth int
}

func widthOf(t types.Type) int {
	w, _ := typeBits(t)
	if w == 0 {
		return 64
	}
	return w
}

func (g *goLanes) get(v ssa.Value) bitDeps {
	if d, ok := g.val[v]; ok {
		return d
	}
	return newDeps(widthOf(v.Type()))
}

func resize(d bitDeps, w int) bitDeps {
	out := newDeps(w)
	copy(out, d)
	return out
}

// sliceOf: v is param[lo:hi] with constant bounds
func (g *goLanes) sliceOf(v ssa.Value) (*ssa.Parameter, int64, int64, bool) {
	sl, ok := v.(*ssa.Slice)
	if !ok {
		return nil, 0, 0, false
	}
	base := sl.X
	// allow a re-slice of a slice of the parameter with constant bounds
	off := int64(0)
	for {
		if inner, ok := base.(*ssa.Slice); ok {
			lo := int64(0)
			if inner.Low != nil {
				c, ok := constU64(inner.Low)
				if !ok {
					return nil, 0, 0, false
				}
				lo = int64(c)
			}
			off += lo
			base = inner.X
			continue
		}
		break
	}
	prm, ok := base.(*ssa.Parameter)
	if !ok {
		return nil, 0, 0, false
	}
	lo, hi := int64(0), int64(-1)
	if sl.Low != nil {
		c, ok := constU64(sl.Low)
		if !ok {
			return nil, 0, 0, false
		}
		lo = int64(c)
	}
	if sl.High != nil {
		c, ok := constU64(sl.High)
		if !ok {
			return nil, 0, 0, false
		}
		hi = int64(c)
	}
	return prm, lo + off, hi + off, true
}

func (g *goLanes) run(fn *ssa.Function, args []bitDeps) bitDeps {
	g.depth++
	defer func() { g.depth-- }()
	if len(fn.Blocks) != 1 || g.depth > 4 {
		g.bad = append(g.bad, "helper "+fn.Name()+" is not straight-line")
		return newDeps(64)
	}
	for i, prm := range fn.Params {
		if i < len(args) && args[i] != nil {
			g.val[prm] = args[i]
		}
	}
	var ret bitDeps
	for _, in := range fn.Blocks[0].Instrs {
		switch x := in.(type) {
		case *ssa.Convert:
			g.val[x] = resize(g.get(x.X), widthOf(x.Type()))
		case *ssa.ChangeType:
			g.val[x] = g.get(x.X)
		case *ssa.UnOp:
			switch x.Op {
			case token.XOR, token.SUB:
				g.val[x] = g.get(x.X)
			case token.MUL:
				// load: table lookup or key word
				w := widthOf(x.Type())
				d := newDeps(w)
				if ia, ok := x.X.(*ssa.IndexAddr); ok {
					m := g.get(ia.Index).union()
					for i := range d {
						d[i] = m
					}
				}
				g.val[x] = d
			}
		case *ssa.Index:
			w := widthOf(x.Type())
			d := newDeps(w)
			m := g.get(x.Index).union()
			for i := range d {
				d[i] = m
			}
			g.val[x] = d
		case *ssa.BinOp:
			a, b := g.get(x.X), g.get(x.Y)
			w := widthOf(x.Type())
			d := newDeps(w)
			switch x.Op {
			case token.AND, token.OR, token.XOR, token.AND_NOT:
				ca, oka := constU64(x.X)
				cb, okb := constU64(x.Y)
				for i := 0; i < w; i++ {
					var m uint8
					if i < len(a) {
						m |= a[i]
					}
					if i < len(b) {
						m |= b[i]
					}
					if x.Op == token.AND {
						if (oka && ca>>uint(i)&1 == 0) || (okb && cb>>uint(i)&1 == 0) {
							m = 0
						}
					}
					if x.Op == token.AND_NOT && okb && cb>>uint(i)&1 == 1 {
						m = 0
					}
					d[i] = m
				}
			case token.SHL, token.SHR:
				k, ok := constU64(x.Y)
				if !ok {
					m := a.union() | b.union()
					for i := range d {
						d[i] = m
					}
					break
				}
				for i := 0; i < w; i++ {
					var src int
					if x.Op == token.SHL {
						src = i - int(k)
					} else {
						src = i + int(k)
					}
					if src >= 0 && src < len(a) {
						d[i] = a[src]
					}
				}
			case token.ADD, token.SUB:
				var m uint8
				for i := 0; i < w; i++ {
					if i < len(a) {
						m |= a[i]
					}
					if i < len(b) {
						m |= b[i]
					}
					d[i] = m
				}
			default:
				m := a.union() | b.union()
				for i := range d {
					d[i] = m
				}
			}
			g.val[x] = d
		case *ssa.Call:
			cal := x.Call.StaticCallee()
			if cal == nil || cal.Pkg == nil {
				g.bad = append(g.bad, "dynamic call at "+g.p.InstrPos(x))
				continue
			}
			path, name := cal.Pkg.Pkg.Path(), cal.Name()
			switch {
			case path == "encoding/binary" && name == "Uint32":
				prm, lo, hi, ok := g.sliceOf(x.Call.Args[len(x.Call.Args)-1])
				d := newDeps(32)
				if ok && prm == g.param && hi >= 0 && lo/16 == (hi-1)/16 {
					for i := range d {
						d[i] = 1 << uint(lo/16)
					}
				} else if ok && prm != g.param {
					// not the data input (e.g. key material)
				} else {
					g.bad = append(g.bad, "input word read with non-constant or block-straddling bounds at "+g.p.InstrPos(x))
				}
				g.val[x] = d
			case path == "encoding/binary" && name == "PutUint32":
				na := len(x.Call.Args)
				prm, lo, hi, ok := g.sliceOf(x.Call.Args[na-2])
				if !ok || prm != g.out || hi < 0 || lo/16 != (hi-1)/16 {
					g.bad = append(g.bad, "output word written with non-constant or block-straddling bounds at "+g.p.InstrPos(x))
					continue
				}
				g.outs = append(g.outs, struct {
					lo   int64
					deps uint8
					pos  string
				}{lo, resize(g.get(x.Call.Args[na-1]), 32).union(), g.p.InstrPos(x)})
			case path == "math/bits" && (name == "RotateLeft64" || name == "RotateLeft32" || name == "RotateLeft"):
				a := g.get(x.Call.Args[0])
				w := len(a)
				d := newDeps(w)
				kc, ok := x.Call.Args[1].(*ssa.Const)
				if !ok || kc.Value == nil {
					m := a.union()
					for i := range d {
						d[i] = m
					}
				} else {
					k := int(kc.Int64())
					for i := 0; i < w; i++ {
						d[((i+k)%w+w)%w] = a[i]
					}
				}
				g.val[x] = d
			case isRepoFunc(cal):
				var as []bitDeps
				for _, a := range x.Call.Args {
					as = append(as, g.get(a))
				}
				g.val[x] = g.run(cal, as)
			default:
				var m uint8
				for _, a := range x.Call.Args {
					m |= g.get(a).union()
				}
				d := newDeps(widthOf(x.Type()))
				for i := range d {
					d[i] = m
				}
				g.val[x] = d
			}
		case *ssa.Return:
			if len(retVals(x)) == 1 {
				ret = g.get(retVals(x)[0])
			}
		}
	}
	if ret == nil {
		ret = newDeps(64)
	}
	return ret
}

func c05GoLanes(r *Report, p *Prog) {
	fn := p.MustFunc(r, "sm4.cryptoBlockX2")
	if fn == nil {
		return
	}
	key := "sm4.cryptoBlockX2"
	pos := p.Pos(fn.Pos())
	if len(fn.Params) != 3 {
		r.Undecided("LANE-DEPENDENCY", key, pos, "unexpected signature")
		return
	}
	g := &goLanes{p: p, val: map[ssa.Value]bitDeps{}, param: fn.Params[0], out: fn.Params[1]}
	g.run(fn, nil)
	if len(g.bad) > 0 {
		r.Undecided("LANE-DEPENDENCY", key, pos, g.bad[0])
		return
	}
	seen := map[int64]int{}
	for _, o := range g.outs {
		k := o.lo / 16
		seen[k]++
		r.Check(o.deps == 1<<uint(k), "LANE-DEPENDENCY", fmt.Sprintf("%s output bytes %d..%d", key, o.lo, o.lo+3), o.pos, fmt.Sprintf("stored word of output block %d depends on input blocks %s (must be exactly block %d)", k, maskBlocks(uint32(o.deps)), k))
	}
	r.Check(seen[0] == 4 && seen[1] == 4, "LANE-DEPENDENCY", key+" stores", pos, fmt.Sprintf("%d + %d words stored (4 per block)", seen[0], seen[1]))
	r.Count("go_lane_words", len(g.outs))
}
