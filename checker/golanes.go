package main

// Lane dependency for the portable two-block routine (C05 d''): cryptoBlockX2 packs two blocks into 64-bit words. A bit-level
// dependency analysis of its SSA (helpers analysed per call, in the caller's context) shows that every stored output word
// depends only on the input block at the same position.
//
// The analysis is a forward data-flow fixpoint over the control-flow graph of each function:
//   - every integer value carries, per bit, the set of input blocks it may depend on;
//   - small integers (loop counters, word offsets, shift amounts) also carry the finite set of values they can take, refined
//     by the comparison that guards a block (for j := range z, for off := 0; off < 16; off += 4, i&3, 4*j, 16+4*j);
//   - a slice of the input or output carries the set of its possible start offsets (encoding/binary reads and writes four
//     bytes from the start, so the start decides the block);
//   - a local array is one cell: the union of everything stored into it (all elements of the state arrays have the same lane
//     layout, so nothing is lost that the property needs).
// Nothing is executed; loops are handled by iterating the transfer functions until nothing changes.

import (
	"fmt"
	"go/constant"
	"go/token"
	"go/types"
	"sort"

	"golang.org/x/tools/go/ssa"
)

type bitDeps []uint8 // per bit (LSB first): bitmask of input blocks

func newDeps(w int) bitDeps { return make(bitDeps, w) }

func (d bitDeps) union() uint8 {
	var m uint8
	for _, x := range d {
		m |= x
	}
	return m
}

func widthOf(t types.Type) int {
	w, _ := typeBits(t)
	if w == 0 {
		return 64
	}
	return w
}

func resize(d bitDeps, w int) bitDeps {
	out := newDeps(w)
	copy(out, d)
	return out
}

const laneSetCap = 80

type laneCell struct{ deps bitDeps }

type laneVal struct {
	set       bool    // false: not computed yet (bottom)
	deps      bitDeps // integers
	ints      []int64 // possible values, sorted; nil with known == false: any value
	known     bool
	root      int     // slices: 1 the data input, 2 the output, 3 something else
	offs      []int64 // possible start offsets into the root (nil: unknown)
	offsKnown bool
	cell      *laneCell // address into (or slice of) a local array
}

func setOf(vs ...int64) []int64 {
	sort.Slice(vs, func(i, j int) bool { return vs[i] < vs[j] })
	out := vs[:0]
	for i, v := range vs {
		if i == 0 || v != vs[i-1] {
			out = append(out, v)
		}
	}
	return out
}

func sameInts(a, b []int64) bool {
	if len(a) != len(b) {
		return false
	}
	for i := range a {
		if a[i] != b[i] {
			return false
		}
	}
	return true
}

func sameDeps(a, b bitDeps) bool {
	if len(a) != len(b) {
		return false
	}
	for i := range a {
		if a[i] != b[i] {
			return false
		}
	}
	return true
}

func (a laneVal) equal(b laneVal) bool {
	return a.set == b.set && sameDeps(a.deps, b.deps) && a.known == b.known && sameInts(a.ints, b.ints) && a.root == b.root && a.offsKnown == b.offsKnown && sameInts(a.offs, b.offs) && a.cell == b.cell
}

// join of two abstract values (b may be bottom)
func (a laneVal) join(b laneVal) laneVal {
	if !a.set {
		return b
	}
	if !b.set {
		return a
	}
	out := laneVal{set: true}
	w := len(a.deps)
	if len(b.deps) > w {
		w = len(b.deps)
	}
	out.deps = newDeps(w)
	for i := 0; i < w; i++ {
		if i < len(a.deps) {
			out.deps[i] |= a.deps[i]
		}
		if i < len(b.deps) {
			out.deps[i] |= b.deps[i]
		}
	}
	if a.known && b.known {
		s := setOf(append(append([]int64(nil), a.ints...), b.ints...)...)
		if len(s) <= laneSetCap {
			out.ints, out.known = s, true
		}
	}
	if a.root == b.root {
		out.root = a.root
		if a.offsKnown && b.offsKnown {
			s := setOf(append(append([]int64(nil), a.offs...), b.offs...)...)
			if len(s) <= laneSetCap {
				out.offs, out.offsKnown = s, true
			}
		}
	} else if a.root != 0 || b.root != 0 {
		out.root = 3
	}
	if a.cell == b.cell {
		out.cell = a.cell
	}
	return out
}

type goLanes struct {
	p    *Prog
	bad  []string
	outs []struct {
		off  int64
		deps uint8
		pos  string
	}
	depth  int
	record bool
}

func (g *goLanes) badf(format string, a ...interface{}) {
	msg := fmt.Sprintf(format, a...)
	for _, b := range g.bad {
		if b == msg {
			return
		}
	}
	g.bad = append(g.bad, msg)
}

// one invocation of a function
type laneFrame struct {
	g     *goLanes
	fn    *ssa.Function
	val   map[ssa.Value]laneVal
	cells map[*ssa.Alloc]*laneCell
	ref   map[*ssa.BasicBlock]map[ssa.Value][]int64 // refinement of integer sets by the guard of a block
	chg   bool
}

func laneConstInt(v ssa.Value) (int64, bool) {
	c, ok := v.(*ssa.Const)
	if !ok || c.Value == nil || c.Value.Kind() != constant.Int {
		return 0, false
	}
	if i, ok := constant.Int64Val(c.Value); ok {
		return i, true
	}
	if u, ok := constant.Uint64Val(c.Value); ok {
		return int64(u), true
	}
	return 0, false
}

func (f *laneFrame) get(v ssa.Value, at *ssa.BasicBlock) laneVal {
	if c, ok := v.(*ssa.Const); ok {
		out := laneVal{set: true, deps: newDeps(widthOf(c.Type()))}
		if i, ok := laneConstInt(c); ok {
			out.ints, out.known = []int64{i}, true
		}
		return out
	}
	lv, ok := f.val[v]
	if !ok {
		if _, isGlobal := v.(*ssa.Global); isGlobal {
			return laneVal{set: true, deps: newDeps(64), root: 3}
		}
		return laneVal{}
	}
	if lv.known && at != nil {
		for d := at; d != nil; d = d.Idom() {
			if r, ok := f.ref[d][v]; ok {
				var keep []int64
				for _, x := range lv.ints {
					for _, y := range r {
						if x == y {
							keep = append(keep, x)
							break
						}
					}
				}
				lv.ints = keep
			}
		}
	}
	return lv
}

func (f *laneFrame) put(v ssa.Value, lv laneVal) {
	lv.set = true
	if lv.deps == nil {
		lv.deps = newDeps(widthOf(v.Type()))
	}
	old, ok := f.val[v]
	if ok {
		lv = old.join(lv) // monotone
	}
	if !ok || !old.equal(lv) {
		f.val[v] = lv
		f.chg = true
	}
}

func laneWrap(v int64, t types.Type) int64 {
	w, signed := typeBits(t)
	if w == 0 || w >= 64 {
		return v
	}
	m := int64(1)<<uint(w) - 1
	v &= m
	if signed && v>>(uint(w)-1) == 1 {
		v -= int64(1) << uint(w)
	}
	return v
}

func intBin(op token.Token, a, b int64) (int64, bool) {
	switch op {
	case token.ADD:
		return a + b, true
	case token.SUB:
		return a - b, true
	case token.MUL:
		return a * b, true
	case token.AND:
		return a & b, true
	case token.OR:
		return a | b, true
	case token.XOR:
		return a ^ b, true
	case token.AND_NOT:
		return a &^ b, true
	case token.SHL:
		if b >= 0 && b < 63 {
			return a << uint(b), true
		}
	case token.SHR:
		if b >= 0 && b < 64 {
			return a >> uint(b), true
		}
	case token.QUO:
		if b != 0 {
			return a / b, true
		}
	case token.REM:
		if b != 0 {
			return a % b, true
		}
	}
	return 0, false
}

func cmpHoldsInt(op token.Token, a, b int64) bool {
	switch op {
	case token.LSS:
		return a < b
	case token.LEQ:
		return a <= b
	case token.GTR:
		return a > b
	case token.GEQ:
		return a >= b
	case token.EQL:
		return a == b
	case token.NEQ:
		return a != b
	}
	return true
}

// refine: the guard of a block with a single predecessor restricts the integer sets of the compared values there
func (f *laneFrame) refine(b *ssa.BasicBlock) {
	if len(b.Preds) != 1 {
		return
	}
	pred := b.Preds[0]
	iff, ok := pred.Instrs[len(pred.Instrs)-1].(*ssa.If)
	if !ok || pred.Succs[0] == pred.Succs[1] {
		return
	}
	truth := pred.Succs[0] == b
	cond, ok := iff.Cond.(*ssa.BinOp)
	if !ok {
		return
	}
	op := cond.Op
	if !truth {
		neg := map[token.Token]token.Token{token.LSS: token.GEQ, token.GEQ: token.LSS, token.GTR: token.LEQ, token.LEQ: token.GTR, token.EQL: token.NEQ, token.NEQ: token.EQL}
		n, ok := neg[op]
		if !ok {
			return
		}
		op = n
	}
	x, y := f.get(cond.X, pred), f.get(cond.Y, pred)
	if !x.known || !y.known {
		return
	}
	filter := func(v ssa.Value, mine, other []int64, flip bool) {
		if _, isConst := v.(*ssa.Const); isConst {
			return
		}
		var keep []int64
		for _, a := range mine {
			for _, c := range other {
				var h bool
				if flip {
					h = cmpHoldsInt(op, c, a)
				} else {
					h = cmpHoldsInt(op, a, c)
				}
				if h {
					keep = append(keep, a)
					break
				}
			}
		}
		if f.ref[b] == nil {
			f.ref[b] = map[ssa.Value][]int64{}
		}
		if !sameInts(f.ref[b][v], keep) || f.ref[b][v] == nil {
			f.ref[b][v] = keep
			if keep == nil {
				f.ref[b][v] = []int64{}
			}
		}
	}
	filter(cond.X, x.ints, y.ints, false)
	filter(cond.Y, y.ints, x.ints, true)
}

func (g *goLanes) run(fn *ssa.Function, args []laneVal) laneVal {
	g.depth++
	defer func() { g.depth-- }()
	if g.depth > 6 || len(fn.Blocks) == 0 {
		g.badf("helper %s is too deeply nested or has no body", fn.Name())
		return laneVal{set: true, deps: newDeps(64)}
	}
	f := &laneFrame{g: g, fn: fn, val: map[ssa.Value]laneVal{}, cells: map[*ssa.Alloc]*laneCell{}, ref: map[*ssa.BasicBlock]map[ssa.Value][]int64{}}
	for i, prm := range fn.Params {
		if i < len(args) && args[i].set {
			f.val[prm] = args[i]
		} else {
			f.val[prm] = laneVal{set: true, deps: newDeps(widthOf(prm.Type())), root: 3}
		}
	}
	blocks := fn.DomPreorder()
	record := g.record
	g.record = false
	var ret laneVal
	for round := 0; ; round++ {
		f.chg = false
		ret = laneVal{}
		for _, b := range blocks {
			f.refine(b)
			for _, in := range b.Instrs {
				if r := f.transfer(in, b); r.set {
					ret = ret.join(r)
				}
			}
		}
		if !f.chg {
			break
		}
		if round > 400 {
			g.badf("the data-flow iteration of %s does not settle", fn.Name())
			break
		}
	}
	g.record = record
	if record {
		// one more pass over the settled state, now recording the stores to the output
		for _, b := range blocks {
			for _, in := range b.Instrs {
				f.transfer(in, b)
			}
		}
	}
	if !ret.set {
		ret = laneVal{set: true, deps: newDeps(64)}
	}
	return ret
}

// cellOf: the local array behind an address or slice value
func (f *laneFrame) cellOf(v ssa.Value, at *ssa.BasicBlock) *laneCell {
	return f.get(v, at).cell
}

func (f *laneFrame) transfer(in ssa.Instruction, b *ssa.BasicBlock) (ret laneVal) {
	g := f.g
	switch x := in.(type) {
	case *ssa.Alloc:
		c := f.cells[x]
		if c == nil {
			c = &laneCell{}
			f.cells[x] = c
		}
		f.put(x, laneVal{cell: c, deps: newDeps(64)})
	case *ssa.Phi:
		var j laneVal
		for i, e := range x.Edges {
			j = j.join(f.get(e, b.Preds[i]))
		}
		if j.set {
			j.deps = resize(j.deps, widthOf(x.Type()))
			f.put(x, j)
		}
	case *ssa.Convert:
		a := f.get(x.X, b)
		if !a.set {
			return
		}
		out := laneVal{deps: resize(a.deps, widthOf(x.Type()))}
		if a.known {
			var vs []int64
			for _, v := range a.ints {
				vs = append(vs, laneWrap(v, x.Type()))
			}
			out.ints, out.known = setOf(vs...), true
		}
		f.put(x, out)
	case *ssa.ChangeType:
		if a := f.get(x.X, b); a.set {
			f.put(x, a)
		}
	case *ssa.MakeInterface, *ssa.ChangeInterface:
		// not data
	case *ssa.Slice:
		a := f.get(x.X, b)
		if !a.set {
			return
		}
		out := laneVal{deps: newDeps(64), root: a.root, cell: a.cell}
		if a.root != 0 {
			base, baseKnown := a.offs, a.offsKnown
			if x.Low == nil {
				out.offs, out.offsKnown = base, baseKnown
			} else if lo := f.get(x.Low, b); lo.known && baseKnown {
				var vs []int64
				for _, o := range base {
					for _, l := range lo.ints {
						vs = append(vs, o+l)
					}
				}
				if s := setOf(vs...); len(s) <= laneSetCap {
					out.offs, out.offsKnown = s, true
				}
			}
		}
		f.put(x, out)
	case *ssa.IndexAddr:
		a := f.get(x.X, b)
		idx := f.get(x.Index, b)
		if !a.set || !idx.set {
			return
		}
		out := laneVal{deps: newDeps(64), cell: a.cell}
		m := idx.deps.union()
		for i := range out.deps {
			out.deps[i] = m // the address depends on the index (table lookups)
		}
		f.put(x, out)
	case *ssa.FieldAddr:
		if a := f.get(x.X, b); a.set {
			f.put(x, laneVal{deps: newDeps(64), root: 3})
		}
	case *ssa.Index:
		a, idx := f.get(x.X, b), f.get(x.Index, b)
		if !a.set || !idx.set {
			return
		}
		w := widthOf(x.Type())
		d := newDeps(w)
		m := idx.deps.union() | a.deps.union()
		for i := range d {
			d[i] = m
		}
		f.put(x, laneVal{deps: d})
	case *ssa.Store:
		addr, v := f.get(x.Addr, b), f.get(x.Val, b)
		if !addr.set || !v.set {
			return
		}
		if addr.cell != nil {
			w := len(v.deps)
			if len(addr.cell.deps) < w {
				addr.cell.deps = resize(addr.cell.deps, w)
				f.chg = true
			}
			am := addr.deps.union()
			for i := 0; i < w; i++ {
				if n := addr.cell.deps[i] | v.deps[i] | am; n != addr.cell.deps[i] {
					addr.cell.deps[i] = n
					f.chg = true
				}
			}
		}
	case *ssa.UnOp:
		a := f.get(x.X, b)
		if !a.set {
			return
		}
		switch x.Op {
		case token.XOR, token.SUB, token.NOT:
			out := laneVal{deps: resize(a.deps, widthOf(x.Type()))}
			if x.Op == token.SUB {
				// carries move upwards
				var m uint8
				for i := range out.deps {
					m |= out.deps[i]
					out.deps[i] = m
				}
			}
			if a.known && x.Op != token.NOT {
				var vs []int64
				for _, v := range a.ints {
					if x.Op == token.SUB {
						vs = append(vs, laneWrap(-v, x.Type()))
					} else {
						vs = append(vs, laneWrap(^v, x.Type()))
					}
				}
				out.ints, out.known = setOf(vs...), true
			}
			f.put(x, out)
		case token.MUL:
			w := widthOf(x.Type())
			d := newDeps(w)
			m := a.deps.union() // a table lookup depends on its index
			for i := range d {
				d[i] = m
			}
			if a.cell != nil {
				for i := range d {
					if i < len(a.cell.deps) {
						d[i] |= a.cell.deps[i]
					}
				}
			}
			out := laneVal{deps: d}
			if _, isArr := x.Type().Underlying().(*types.Array); isArr {
				out.cell = a.cell
			}
			f.put(x, out)
		}
	case *ssa.BinOp:
		a, c := f.get(x.X, b), f.get(x.Y, b)
		if !a.set || !c.set {
			return
		}
		w := widthOf(x.Type())
		d := newDeps(w)
		out := laneVal{}
		switch x.Op {
		case token.AND, token.OR, token.XOR, token.AND_NOT:
			for i := 0; i < w; i++ {
				var m uint8
				if i < len(a.deps) {
					m |= a.deps[i]
				}
				if i < len(c.deps) {
					m |= c.deps[i]
				}
				bitIs := func(v laneVal, want int64) bool { // every possible value has this bit equal to want
					if !v.known || len(v.ints) == 0 {
						return false
					}
					for _, k := range v.ints {
						if (k>>uint(i))&1 != want {
							return false
						}
					}
					return true
				}
				if x.Op == token.AND && (bitIs(a, 0) || bitIs(c, 0)) {
					m = 0
				}
				if x.Op == token.AND_NOT && bitIs(c, 1) {
					m = 0
				}
				d[i] = m
			}
		case token.SHL, token.SHR:
			if !c.known || len(c.ints) == 0 {
				m := a.deps.union() | c.deps.union()
				for i := range d {
					d[i] = m
				}
				break
			}
			cm := c.deps.union()
			for _, k := range c.ints {
				for i := 0; i < w; i++ {
					var src int
					if x.Op == token.SHL {
						src = i - int(k)
					} else {
						src = i + int(k)
					}
					if src >= 0 && src < len(a.deps) {
						d[i] |= a.deps[src]
					}
					d[i] |= cm
				}
			}
			// an arithmetic shift copies the sign bit downwards
			if _, signed := typeBits(x.X.Type()); signed && x.Op == token.SHR && len(a.deps) > 0 {
				top := a.deps[len(a.deps)-1]
				for i := range d {
					d[i] |= top
				}
			}
		case token.ADD, token.SUB:
			var m uint8
			for i := 0; i < w; i++ {
				if i < len(a.deps) {
					m |= a.deps[i]
				}
				if i < len(c.deps) {
					m |= c.deps[i]
				}
				d[i] = m
			}
		case token.MUL:
			// multiplication by a constant: bit i of the product depends on bits j <= i of the operand where the
			// constant has bit i-j set
			other, kv := a, c
			if a.known && len(a.ints) == 1 {
				other, kv = c, a
			}
			if kv.known && len(kv.ints) == 1 {
				k := uint64(kv.ints[0])
				for i := 0; i < w; i++ {
					var m uint8
					for j := 0; j <= i && j < len(other.deps); j++ {
						if (k>>uint(i-j))&1 == 1 {
							m |= other.deps[j]
						}
					}
					d[i] = m
				}
				// two partial products overlap only if two set bits of the constant are closer than the width of
				// the dependent part of the operand; then carries spread: be conservative in that case
				lowest, highest := -1, -1
				for j := 0; j < len(other.deps); j++ {
					if other.deps[j] != 0 {
						if lowest < 0 {
							lowest = j
						}
						highest = j
					}
				}
				if lowest >= 0 {
					span := highest - lowest + 1
					prev := -1
					overlap := false
					for i := 0; i < 64; i++ {
						if (k>>uint(i))&1 == 1 {
							if prev >= 0 && i-prev < span {
								overlap = true
							}
							prev = i
						}
					}
					if overlap {
						var m uint8
						for i := 0; i < w; i++ {
							m |= d[i]
							d[i] = m
						}
					}
				}
				break
			}
			m := a.deps.union() | c.deps.union()
			for i := range d {
				d[i] = m
			}
		case token.EQL, token.NEQ, token.LSS, token.LEQ, token.GTR, token.GEQ:
			m := a.deps.union() | c.deps.union()
			d = newDeps(1)
			d[0] = m
		default:
			m := a.deps.union() | c.deps.union()
			for i := range d {
				d[i] = m
			}
		}
		out.deps = d
		if a.known && c.known && len(a.ints)*len(c.ints) <= 4096 {
			var vs []int64
			ok := true
			for _, p := range a.ints {
				for _, q := range c.ints {
					r, o := intBin(x.Op, p, q)
					if !o {
						ok = false
					}
					vs = append(vs, laneWrap(r, x.Type()))
				}
			}
			if s := setOf(vs...); ok && len(s) <= laneSetCap {
				out.ints, out.known = s, true
			}
		}
		f.put(x, out)
	case *ssa.Extract:
		if a := f.get(x.Tuple, b); a.set {
			m := a.deps.union()
			d := newDeps(widthOf(x.Type()))
			for i := range d {
				d[i] = m
			}
			f.put(x, laneVal{deps: d})
		}
	case *ssa.Call:
		cal := x.Call.StaticCallee()
		if cal == nil {
			if bi, ok := x.Call.Value.(*ssa.Builtin); ok {
				switch bi.Name() {
				case "len", "cap":
					out := laneVal{deps: newDeps(64)}
					if len(x.Call.Args) == 1 {
						if at, ok := x.Call.Args[0].Type().Underlying().(*types.Array); ok {
							out.ints, out.known = []int64{at.Len()}, true
						}
						if pt, ok := x.Call.Args[0].Type().Underlying().(*types.Pointer); ok {
							if at, ok := pt.Elem().Underlying().(*types.Array); ok {
								out.ints, out.known = []int64{at.Len()}, true
							}
						}
					}
					f.put(x, out)
				case "copy":
					dst, src := f.get(x.Call.Args[0], b), f.get(x.Call.Args[1], b)
					if dst.root == 2 || src.root == 1 {
						g.badf("copy from the input or into the output at %s (not modelled)", g.p.InstrPos(x))
					}
					if dst.cell != nil && src.cell != nil {
						dst.cell.deps = laneVal{set: true, deps: dst.cell.deps}.join(laneVal{set: true, deps: src.cell.deps}).deps
					}
					f.put(x, laneVal{deps: newDeps(64)})
				default:
					f.put(x, laneVal{deps: newDeps(widthOf(x.Type()))})
				}
				return
			}
			g.badf("dynamic call at %s", g.p.InstrPos(x))
			return
		}
		var args []laneVal
		for _, a := range x.Call.Args {
			av := f.get(a, b)
			if !av.set {
				return // an operand is not computed yet on this round
			}
			args = append(args, av)
		}
		path, name := "", cal.Name()
		if cal.Pkg != nil {
			path = cal.Pkg.Pkg.Path()
		}
		switch {
		case path == "encoding/binary" && name == "Uint32":
			s := args[len(args)-1]
			d := newDeps(32)
			switch {
			case s.root == 1 && s.offsKnown && len(s.offs) > 0:
				for _, o := range s.offs {
					if o < 0 || o/16 != (o+3)/16 || o/16 > 7 {
						g.badf("input word read at offset %d straddles two blocks at %s", o, g.p.InstrPos(x))
						continue
					}
					for i := range d {
						d[i] |= 1 << uint(o/16)
					}
				}
			case s.root == 1:
				g.badf("input word read with bounds the analysis cannot enumerate at %s", g.p.InstrPos(x))
			case s.cell != nil:
				m := s.cell.deps.union()
				for i := range d {
					d[i] = m
				}
			}
			f.put(x, laneVal{deps: d})
		case path == "encoding/binary" && name == "PutUint32":
			s, v := args[len(args)-2], args[len(args)-1]
			switch {
			case s.root == 2 && s.offsKnown && len(s.offs) > 0:
				if g.record {
					for _, o := range s.offs {
						if o < 0 || o/16 != (o+3)/16 {
							g.badf("output word written at offset %d straddles two blocks at %s", o, g.p.InstrPos(x))
							continue
						}
						g.outs = append(g.outs, struct {
							off  int64
							deps uint8
							pos  string
						}{o, resize(v.deps, 32).union(), g.p.InstrPos(x)})
					}
				}
			case s.root == 2:
				g.badf("output word written with bounds the analysis cannot enumerate at %s", g.p.InstrPos(x))
			case s.cell != nil:
				s.cell.deps = laneVal{set: true, deps: s.cell.deps}.join(laneVal{set: true, deps: resize(v.deps, 32)}).deps
			}
		case path == "math/bits" && (name == "RotateLeft64" || name == "RotateLeft32" || name == "RotateLeft"):
			a, k := args[0], args[1]
			w := len(a.deps)
			d := newDeps(w)
			if !k.known || len(k.ints) == 0 {
				m := a.deps.union() | k.deps.union()
				for i := range d {
					d[i] = m
				}
			} else {
				for _, kk := range k.ints {
					for i := 0; i < w; i++ {
						d[((i+int(kk))%w+w)%w] |= a.deps[i]
					}
				}
			}
			f.put(x, laneVal{deps: d})
		case isRepoFunc(cal):
			saved := g.record
			r := g.run(cal, args)
			g.record = saved
			if x.Type() != nil {
				if _, isTuple := x.Type().(*types.Tuple); !isTuple || x.Type().(*types.Tuple).Len() > 0 {
					r.deps = resize(r.deps, widthOf(x.Type()))
					f.put(x, r)
				}
			}
		default:
			var m uint8
			for _, a := range args {
				m |= a.deps.union()
			}
			d := newDeps(widthOf(x.Type()))
			for i := range d {
				d[i] = m
			}
			f.put(x, laneVal{deps: d})
		}
	case *ssa.Return:
		rv := retVals(x)
		if len(rv) == 1 {
			return f.get(rv[0], b)
		}
		if len(rv) > 1 {
			var j laneVal
			for _, v := range rv {
				a := f.get(v, b)
				j = j.join(laneVal{set: a.set, deps: a.deps})
			}
			return j
		}
	}
	return
}

func c05GoLanes(r *Report, p *Prog) {
	fn := p.MustFunc(r, "sm4.cryptoBlockX2")
	if fn == nil {
		return
	}
	key := "sm4.cryptoBlockX2"
	pos := p.Pos(fn.Pos())
	if len(fn.Params) != 3 {
		r.Undecided("LANE-DEPENDENCY", key, pos, "unexpected signature")
		return
	}
	g := &goLanes{p: p, record: true}
	in := laneVal{set: true, deps: newDeps(64), root: 1, offs: []int64{0}, offsKnown: true}
	out := laneVal{set: true, deps: newDeps(64), root: 2, offs: []int64{0}, offsKnown: true}
	other := laneVal{set: true, deps: newDeps(64), root: 3}
	g.run(fn, []laneVal{in, out, other})
	if len(g.bad) > 0 {
		r.Undecided("LANE-DEPENDENCY", key, pos, g.bad[0])
		return
	}
	// one obligation per output word; several stores to the same word are joined
	words := map[int64]uint8{}
	wpos := map[int64]string{}
	for _, o := range g.outs {
		words[o.off] |= o.deps
		if wpos[o.off] == "" {
			wpos[o.off] = o.pos
		}
	}
	var offs []int64
	for o := range words {
		offs = append(offs, o)
	}
	sort.Slice(offs, func(i, j int) bool { return offs[i] < offs[j] })
	seen := map[int64]int{}
	for _, o := range offs {
		k := o / 16
		seen[k]++
		r.Check(words[o] == 1<<uint(k), "LANE-DEPENDENCY", fmt.Sprintf("%s output bytes %d..%d", key, o, o+3), wpos[o], fmt.Sprintf("stored word of output block %d depends on input blocks %s (must be exactly block %d)", k, maskBlocks(uint32(words[o])), k))
	}
	r.Check(seen[0] == 4 && seen[1] == 4 && len(offs) == 8, "LANE-DEPENDENCY", key+" stores", pos, fmt.Sprintf("%d + %d words stored (4 per block)", seen[0], seen[1]))
	r.Count("go_lane_words", len(offs))
}
