package main

import (
	"fmt"
	"go/types"
	"strings"
)

func init() { register("C15", "other", checkC15) }

type polyDomain struct{}

func (polyDomain) Mul(a, b interface{}) interface{} { return a.(*Poly).Mul(b.(*Poly)) }
func (polyDomain) Add(a, b interface{}) (interface{}, error) {
	return a.(*Poly).Add(b.(*Poly)), nil
}
func (polyDomain) Sub(a, b interface{}) (interface{}, error) {
	return a.(*Poly).Sub(b.(*Poly)), nil
}
func (polyDomain) Neg(a interface{}) (interface{}, error) { return a.(*Poly).Neg(), nil }
func (polyDomain) One() (interface{}, error)              { return polyConst(1), nil }
func (polyDomain) Zero() (interface{}, error)             { return polyZero(), nil }

// rcbLaw returns the complete addition law for a = -3 (Renes-Costello-Batina / Bosma-Lenstra) in closed form.
func rcbLaw(X1, Y1, Z1, X2, Y2, Z2, b *Poly) (X3, Y3, Z3 *Poly) {
	three := polyConst(3)
	XZ := X1.Mul(Z2).Add(X2.Mul(Z1))                                       // X1Z2+X2Z1
	XY := X1.Mul(Y2).Add(X2.Mul(Y1))                                       // X1Y2+X2Y1
	YZ := Y1.Mul(Z2).Add(Y2.Mul(Z1))                                       // Y1Z2+Y2Z1
	YY := Y1.Mul(Y2)                                                       // Y1Y2
	ZZ := Z1.Mul(Z2)                                                       // Z1Z2
	XX := X1.Mul(X2)                                                       // X1X2
	A := YY.Add(three.Mul(XZ)).Sub(three.Mul(b).Mul(ZZ))                   // Y1Y2 + 3(X1Z2+X2Z1) - 3bZ1Z2
	Bm := YY.Sub(three.Mul(XZ)).Add(three.Mul(b).Mul(ZZ))                  // Y1Y2 - 3(..) + 3bZ1Z2
	C := three.Mul(b).Mul(XZ).Sub(three.Mul(XX)).Sub(polyConst(9).Mul(ZZ)) // -3X1X2 + 3b(X1Z2+X2Z1) - 9Z1Z2
	D := three.Mul(XX).Sub(three.Mul(ZZ))                                  // 3X1X2 - 3Z1Z2
	X3 = XY.Mul(A).Sub(YZ.Mul(C))
	Y3 = D.Mul(C).Add(Bm.Mul(A))
	Z3 = YZ.Mul(Bm).Add(XY.Mul(D))
	return
}

func checkC15(c *Ctx, r *Report) {
	r.Explanation = "Decided: (a) [proof-strength] the straight-line bodies of (*SM2Point).Add and Double, evaluated in Z[b][X1,Y1,Z1,X2,Y2,Z2] by following the receiver objects of the fiat.SM2Element method calls, equal the complete addition law for a=-3 (Renes-Costello-Batina) as polynomials (Double: the law at P2=P1 for X,Y and Z3=8Y^3Z, which agrees with it on the curve); no receiver field is written before the last read of an operand field (alias safety); Negate is (X,-Y,Z); sm2B resolves to the curve's b. (b) strict decoding: guard inventory of (*SM2Point).SetBytes and SM2Element.SetBytes; (c) encoding lengths; (d) sibling agreement of the safe and fast affine conversions; (e) FRESH-RESULT: every function returning a *SM2Point/*SM2Element/*SM2ScalarElement returns its receiver or storage that no package-level variable and no other parameter reaches (effect analysis), so in-place arithmetic on a result cannot change the generator, the tables or another point. NOT decided: round-trip identity and safe/fast agreement as statements about values; correctness of the field arithmetic underneath (C16)."
	r.Trusted = []string{"go/parser, go/types", "Renes-Costello-Batina 2015/1060 Theorem: the a=-3 law is complete on prime-order curves", "fiat.SM2Element methods compute the named field operation (C16)"}
	p, err := LoadRepo(c.Repo, "amd64")
	if err != nil {
		r.Fatalf("%v", err)
		return
	}
	f := NewFolder(p)
	pk := p.Pkgs["sm2/internal"]
	{
		// (e) every point / element a caller can obtain is its own storage (in-place operations stay local)
		eff := NewEffects(p, map[string]map[int]bool{})
		eff.Run()
		freshResultObligations(r, p, eff)
		r.Floor("fresh_result_obligations", 30)
	}
	X1, Y1, Z1, X2, Y2, Z2, B := polyVar(0), polyVar(1), polyVar(2), polyVar(3), polyVar(4), polyVar(5), polyVar(6)

	// sm2B must be the curve's b
	bObj := pk.Types.Scope().Lookup("sm2B")
	if bObj == nil {
		r.Fatalf("unresolved anchor: sm2/internal.sm2B")
		return
	}
	bv, err := f.Object(bObj)
	bcurve, err2 := f.CurveInt("B")
	if err != nil || err2 != nil {
		r.Fatalf("unresolved anchor: sm2B / curve B: %v %v", err, err2)
		return
	}
	r.Check(bv.k == fElem && bv.big.Cmp(bcurve) == 0, "FORMULA-CONSTANT", "sm2/internal.sm2B is the curve parameter b", "sm2/internal/sm2_point.go", "folded initialiser = "+bv.String())

	eval := func(name string, nIn int) (*slEval, map[string]*Poly, string) {
		fd := findFuncDecl(pk, "SM2Point", name)
		if fd == nil || fd.Body == nil {
			r.Fatalf("unresolved anchor: (*SM2Point).%s", name)
			return nil, nil, ""
		}
		recv := pk.TypesInfo.Defs[fd.Recv.List[0].Names[0]]
		var params []types.Object
		for _, fl := range fd.Type.Params.List {
			for _, n := range fl.Names {
				params = append(params, pk.TypesInfo.Defs[n])
			}
		}
		if len(params) != nIn {
			r.Fatalf("(*SM2Point).%s: expected %d point parameters, found %d", name, nIn, len(params))
			return nil, nil, ""
		}
		ev := &slEval{p: p, pk: pk, dom: polyDomain{}, vars: map[types.Object]*slCell{}, fields: map[string]*slCell{}, globals: map[types.Object]*slCell{}, outFields: map[string]bool{}, inputRecvs: map[types.Object]bool{}, outRecv: recv}
		inVars := [][3]*Poly{{X1, Y1, Z1}, {X2, Y2, Z2}}
		for _, pr := range params {
			ev.inputRecvs[pr] = true
		}
		ev.fieldInit = func(obj types.Object, field string) (interface{}, bool) {
			idx := map[string]int{"x": 0, "y": 1, "z": 2}
			k, ok := idx[field]
			if !ok {
				return nil, false
			}
			for i, pr := range params {
				if obj == pr {
					return inVars[i][k], true
				}
			}
			if obj == recv {
				// receiver field: an output cell; its prior content must never be read (it may alias an operand, whose reads go through the operand)
				return polyZero(), true
			}
			return nil, false
		}
		ev.globalInit = func(obj types.Object) (interface{}, bool) {
			if obj == bObj {
				return B, true
			}
			return nil, false
		}
		ev.run(fd.Body)
		out := map[string]*Poly{}
		for _, fld := range []string{"x", "y", "z"} {
			key := fd.Recv.List[0].Names[0].Name + "." + fld
			if c, ok := ev.fields[key]; ok && ev.outFields[fld] {
				out[fld], _ = c.val.(*Poly)
			}
		}
		return ev, out, p.Pos(fd.Pos())
	}

	// ---- Add
	if ev, out, pos := eval("Add", 2); ev != nil {
		key := "sm2/internal.(*SM2Point).Add"
		r.Count("field_ops", ev.ops)
		if len(ev.undecided) > 0 {
			r.Undecided("FORMULA-IDENTITY", key, pos, strings.Join(ev.undecided, "; "))
		} else {
			wx, wy, wz := rcbLaw(X1, Y1, Z1, X2, Y2, Z2, B)
			for _, t := range []struct {
				n string
				w *Poly
			}{{"x", wx}, {"y", wy}, {"z", wz}} {
				g := out[t.n]
				r.Check(g != nil && g.Equal(t.w), "FORMULA-IDENTITY", key+" "+strings.ToUpper(t.n)+"3", pos, fmt.Sprintf("computed polynomial equals the complete a=-3 addition law (difference: %s)", diffStr(g, t.w)))
			}
			r.Check(len(ev.lateInputRead) == 0, "ALIAS-SAFETY", key, pos, "no operand coordinate is read after the same receiver coordinate was written"+ifs(len(ev.lateInputRead) > 0, ": "+strings.Join(ev.lateInputRead, "; ")))
		}
	}
	// ---- Double
	if ev, out, pos := eval("Double", 1); ev != nil {
		key := "sm2/internal.(*SM2Point).Double"
		r.Count("field_ops", ev.ops)
		if len(ev.undecided) > 0 {
			r.Undecided("FORMULA-IDENTITY", key, pos, strings.Join(ev.undecided, "; "))
		} else {
			wx, wy, wz := rcbLaw(X1, Y1, Z1, X1, Y1, Z1, B)
			z8 := polyConst(8).Mul(Y1).Mul(Y1).Mul(Y1).Mul(Z1)
			r.Check(out["x"] != nil && out["x"].Equal(wx), "FORMULA-IDENTITY", key+" X3", pos, "equals the addition law at P2=P1 (difference: "+diffStr(out["x"], wx)+")")
			r.Check(out["y"] != nil && out["y"].Equal(wy), "FORMULA-IDENTITY", key+" Y3", pos, "equals the addition law at P2=P1 (difference: "+diffStr(out["y"], wy)+")")
			r.Check(out["z"] != nil && out["z"].Equal(z8), "FORMULA-IDENTITY", key+" Z3", pos, "equals 8*Y^3*Z (difference: "+diffStr(out["z"], z8)+")")
			// checker-side identity: Z_add(P,P) - 8Y^3Z = 6Y (X^3 - 3XZ^2 + bZ^3 - Y^2 Z): zero on the curve
			curve := X1.Mul(X1).Mul(X1).Sub(polyConst(3).Mul(X1).Mul(Z1).Mul(Z1)).Add(B.Mul(Z1).Mul(Z1).Mul(Z1)).Sub(Y1.Mul(Y1).Mul(Z1))
			r.Check(wz.Sub(z8).Equal(polyConst(6).Mul(Y1).Mul(curve)), "FORMULA-IDENTITY", "Z_add(P,P) - 8Y^3Z is a multiple of the curve equation", pos, "checker-side identity: the doubling Z agrees with the addition law on the curve")
			r.Check(len(ev.lateInputRead) == 0, "ALIAS-SAFETY", key, pos, "no operand coordinate is read after the same receiver coordinate was written"+ifs(len(ev.lateInputRead) > 0, ": "+strings.Join(ev.lateInputRead, "; ")))
		}
	}
	// ---- Negate
	if ev, out, pos := eval("Negate", 1); ev != nil {
		key := "sm2/internal.(*SM2Point).Negate"
		if len(ev.undecided) > 0 {
			r.Undecided("FORMULA-IDENTITY", key, pos, strings.Join(ev.undecided, "; "))
		} else {
			ok := out["x"] != nil && out["y"] != nil && out["z"] != nil && out["x"].Equal(X1) && out["y"].Equal(Y1.Neg()) && out["z"].Equal(Z1)
			r.Check(ok, "FORMULA-IDENTITY", key, pos, "(X, -Y, Z)")
			// Negate(q, q): coordinate-wise, each written field is read before (same coordinate) - safe; other orders are not
			r.Check(len(ev.lateInputRead) == 0, "ALIAS-SAFETY", key, pos, "no operand coordinate is read after the same receiver coordinate was written"+ifs(len(ev.lateInputRead) > 0, ": "+strings.Join(ev.lateInputRead, "; ")))
		}
	}
	// ---- Set / Select are field-wise
	if ev, out, pos := eval("Set", 1); ev != nil {
		key := "sm2/internal.(*SM2Point).Set"
		if len(ev.undecided) > 0 {
			r.Undecided("FORMULA-IDENTITY", key, pos, strings.Join(ev.undecided, "; "))
		} else {
			ok := out["x"] != nil && out["y"] != nil && out["z"] != nil && out["x"].Equal(X1) && out["y"].Equal(Y1) && out["z"].Equal(Z1)
			r.Check(ok, "FORMULA-IDENTITY", key, pos, "(X, Y, Z)")
		}
	}
	c15More(c, r, p, f)
	r.Floor("field_ops", 80)
}

func diffStr(g, w *Poly) string {
	if g == nil {
		return "coordinate never written"
	}
	return g.Sub(w).String()
}
