package main

import (
	"fmt"
	"strings"
)

func init() { register("C15", "other", checkC15) }

type polyDomain struct{}

func (polyDomain) Mul(a, b interface{}) interface{} { return a.(*Poly).Mul(b.(*Poly)) }
func (polyDomain) Add(a, b interface{}) (interface{}, error) {
	return a.(*Poly).Add(b.(*Poly)), nil
}
func (polyDomain) Sub(a, b interface{}) (interface{}, error) {
	return a.(*Poly).Sub(b.(*Poly)), nil
}
func (polyDomain) Neg(a interface{}) (interface{}, error) { return a.(*Poly).Neg(), nil }
func (polyDomain) One() (interface{}, error)              { return polyConst(1), nil }
func (polyDomain) Zero() (interface{}, error)             { return polyZero(), nil }

// rcbLaw returns the complete addition law for a = -3 (Renes-Costello-Batina / Bosma-Lenstra) in closed form.
func rcbLaw(X1, Y1, Z1, X2, Y2, Z2, b *Poly) (X3, Y3, Z3 *Poly) {
	three := polyConst(3)
	XZ := X1.Mul(Z2).Add(X2.Mul(Z1))                                       // X1Z2+X2Z1
	XY := X1.Mul(Y2).Add(X2.Mul(Y1))                                       // X1Y2+X2Y1
	YZ := Y1.Mul(Z2).Add(Y2.Mul(Z1))                                       // Y1Z2+Y2Z1
	YY := Y1.Mul(Y2)                                                       // Y1Y2
	ZZ := Z1.Mul(Z2)                                                       // Z1Z2
	XX := X1.Mul(X2)                                                       // X1X2
	A := YY.Add(three.Mul(XZ)).Sub(three.Mul(b).Mul(ZZ))                   // Y1Y2 + 3(X1Z2+X2Z1) - 3bZ1Z2
	Bm := YY.Sub(three.Mul(XZ)).Add(three.Mul(b).Mul(ZZ))                  // Y1Y2 - 3(..) + 3bZ1Z2
	C := three.Mul(b).Mul(XZ).Sub(three.Mul(XX)).Sub(polyConst(9).Mul(ZZ)) // -3X1X2 + 3b(X1Z2+X2Z1) - 9Z1Z2
	D := three.Mul(XX).Sub(three.Mul(ZZ))                                  // 3X1X2 - 3Z1Z2
	X3 = XY.Mul(A).Sub(YZ.Mul(C))
	Y3 = D.Mul(C).Add(Bm.Mul(A))
	Z3 = YZ.Mul(Bm).Add(XY.Mul(D))
	return
}

func checkC15(c *Ctx, r *Report) {
	r.Explanation = "Decided: (a) [proof-strength] the straight-line bodies of (*SM2Point).Add and Double, evaluated in Z[b][X1,Y1,Z1,X2,Y2,Z2] by following the receiver objects of the fiat.SM2Element method calls, equal the complete addition law for a=-3 (Renes-Costello-Batina) as polynomials (Double: the law at P2=P1 for X,Y and Z3=8Y^3Z, which agrees with it on the curve); no receiver field is written before the last read of an operand field (alias safety); Negate is (X,-Y,Z); sm2B resolves to the curve's b. (b) strict decoding: guard inventory of (*SM2Point).SetBytes and SM2Element.SetBytes; (c) encoding lengths; (d) sibling agreement of the safe and fast affine conversions; (e) FRESH-RESULT: every function returning a *SM2Point/*SM2Element/*SM2ScalarElement returns its receiver or storage that no package-level variable and no other parameter reaches (effect analysis), so in-place arithmetic on a result cannot change the generator, the tables or another point. NOT decided: round-trip identity and safe/fast agreement as statements about values; correctness of the field arithmetic underneath (C16)."
	r.Trusted = []string{"go/parser, go/types", "Renes-Costello-Batina 2015/1060 Theorem: the a=-3 law is complete on prime-order curves", "fiat.SM2Element methods compute the named field operation (C16)"}
	p, err := LoadRepo(c.Repo, "amd64")
	if err != nil {
		r.Fatalf("%v", err)
		return
	}
	f := NewFolder(p)
	pk := p.Pkgs["sm2/internal"]
	{
		// (e) every point / element a caller can obtain is its own storage (in-place operations stay local)
		eff := NewEffects(p, map[string]map[int]bool{})
		eff.Run()
		freshResultObligations(r, p, eff)
		r.Floor("fresh_result_obligations", 15)
	}

	// sm2B must be the curve's b
	bObj := pk.Types.Scope().Lookup("sm2B")
	if bObj == nil {
		r.Fatalf("unresolved anchor: sm2/internal.sm2B")
		return
	}
	bv, err := f.Object(bObj)
	bcurve, err2 := f.CurveInt("B")
	if err != nil || err2 != nil {
		r.Fatalf("unresolved anchor: sm2B / curve B: %v %v", err, err2)
		return
	}
	r.Check(bv.k == fElem && bv.big.Cmp(bcurve) == 0, "FORMULA-CONSTANT", "sm2/internal.sm2B is the curve parameter b", "sm2/internal/sm2_point.go", "folded initialiser = "+bv.String())

	c15Formulas(r, p)
	c15More(c, r, p, f)
	r.Floor("formula_runs", 11)
}

func diffStr(g, w *Poly) string {
	if g == nil {
		return "coordinate never written"
	}
	return g.Sub(w).String()
}

// ptToPoly: a field-element term of the protocol domain as a polynomial in the operands' coordinates and b
func ptToPoly(t *pt, vars map[string]*Poly) (*Poly, error) {
	switch t.op {
	case "c":
		if !t.n.IsInt64() {
			return nil, fmt.Errorf("constant %s", t.n)
		}
		return polyConst(t.n.Int64()), nil
	case "param":
		if v, ok := vars[t.s]; ok {
			return v, nil
		}
		return nil, fmt.Errorf("the result depends on %s, which is not a coordinate of an operand", t.s)
	case "B":
		return vars["B"], nil
	case "modP":
		return ptToPoly(t.args[0], vars)
	case "add", "mul":
		a, err := ptToPoly(t.args[0], vars)
		if err != nil {
			return nil, err
		}
		b, err := ptToPoly(t.args[1], vars)
		if err != nil {
			return nil, err
		}
		if t.op == "add" {
			return a.Add(b), nil
		}
		return a.Mul(b), nil
	}
	return nil, fmt.Errorf("the result contains %s, which is not field arithmetic on the operands", trunc(t.String(), 60))
}

// c15Formulas: (*SM2Point).Add, Double, Negate and Set are interpreted in the protocol domain (SSA, calls followed, the
// fiat element methods by contract) for every way the receiver and the operands can be the same object; the
// coordinates the receiver holds afterwards must be the required polynomials in the operands' coordinates.
func c15Formulas(r *Report, p *Prog) {
	B := polyVar(6)
	type cfg struct {
		name  string
		alias map[int]int
	}
	run := func(name string, nOps int, a cfg, want func(in [][3]*Poly) ([3]*Poly, [3]string)) {
		key := "sm2/internal.(*SM2Point)." + name
		fn := p.MustFunc(r, key)
		if fn == nil {
			return
		}
		pos := p.Pos(fn.Pos())
		ikey := key + " [" + a.name + "]"
		if len(fn.Params) != nOps+1 {
			r.Viol("FORMULA-IDENTITY", ikey, pos, fmt.Sprintf("expected a receiver and %d point operands", nOps))
			return
		}
		e, outs := protoRunFull(p, fn, true, nil, nil, a.alias)
		r.Count("formula_runs", 1)
		if len(e.errs) > 0 || len(e.panics) > 0 || len(e.precond) > 0 || len(outs) != 1 {
			r.Viol("FOLLOWED", ikey, pos, fmt.Sprintf("the function cannot be followed in the protocol domain (%d outcomes): %s", len(outs), strings.Join(append(append(append([]string{}, e.errs...), e.panics...), e.precond...), "; ")))
			return
		}
		o := outs[0]
		rep := func(i int) int {
			for {
				j, ok := a.alias[i]
				if !ok {
					return i
				}
				i = j
			}
		}
		// variables: object of operand k (k = 1..nOps) holds (X_k, Y_k, Z_k)
		vars := map[string]*Poly{"B": B}
		var in [][3]*Poly
		objVars := map[int][3]*Poly{}
		next := 0
		for k := 1; k <= nOps; k++ {
			ri := rep(k)
			v, ok := objVars[ri]
			if !ok {
				v = [3]*Poly{polyVar(next), polyVar(next + 1), polyVar(next + 2)}
				next += 3
				objVars[ri] = v
				for ci, cn := range []string{"x", "y", "z"} {
					vars[fn.Params[ri].Name()+"0."+cn] = v[ci]
				}
			}
			in = append(in, v)
		}
		recv, ok := e.rootArgs[0].(sPtr)
		var got [3]*Poly
		var why string
		if ok {
			if obj, ok := o.st.heap[recv.id].(*hArray); ok && len(obj.elems) == 3 {
				for i := range got {
					h := e.proto.obj(o.st, obj.elems[i])
					if h == nil || h.t == nil {
						why = "a coordinate of the receiver has no known value"
						break
					}
					g, err := ptToPoly(h.t, vars)
					if err != nil {
						why = err.Error()
						break
					}
					got[i] = g
				}
			} else {
				why = "the receiver is not a point object"
			}
		} else {
			why = "the receiver is not a point object"
		}
		// the result is the receiver
		retOK := len(o.vals) == 1
		if retOK {
			rp, isP := o.vals[0].(sPtr)
			retOK = isP && ok && rp.id == recv.id
		}
		w, desc := want(in)
		for i, cn := range []string{"X3", "Y3", "Z3"} {
			if why != "" {
				r.Viol("FORMULA-IDENTITY", ikey+" "+cn, pos, desc[i]+": "+why)
				continue
			}
			r.Check(got[i].Equal(w[i]), "FORMULA-IDENTITY", ikey+" "+cn, pos, desc[i]+" (difference: "+trunc(got[i].Sub(w[i]).String(), 200)+")")
		}
		r.Check(retOK, "FORMULA-RESULT", ikey, pos, "the method returns its receiver")
	}
	addLaw := func(in [][3]*Poly) ([3]*Poly, [3]string) {
		x, y, z := rcbLaw(in[0][0], in[0][1], in[0][2], in[1][0], in[1][1], in[1][2], B)
		d := "the receiver's coordinate equals the complete a=-3 addition law of the operands"
		return [3]*Poly{x, y, z}, [3]string{d, d, d}
	}
	dblLaw := func(in [][3]*Poly) ([3]*Poly, [3]string) {
		X1, Y1, Z1 := in[0][0], in[0][1], in[0][2]
		x, y, _ := rcbLaw(X1, Y1, Z1, X1, Y1, Z1, B)
		z8 := polyConst(8).Mul(Y1).Mul(Y1).Mul(Y1).Mul(Z1)
		return [3]*Poly{x, y, z8}, [3]string{"equals the addition law at P2=P1", "equals the addition law at P2=P1", "equals 8*Y^3*Z"}
	}
	negLaw := func(in [][3]*Poly) ([3]*Poly, [3]string) {
		return [3]*Poly{in[0][0], in[0][1].Neg(), in[0][2]}, [3]string{"X", "-Y", "Z"}
	}
	setLaw := func(in [][3]*Poly) ([3]*Poly, [3]string) {
		return [3]*Poly{in[0][0], in[0][1], in[0][2]}, [3]string{"X", "Y", "Z"}
	}
	for _, a := range []cfg{{"q, p1, p2 distinct", nil}, {"q is p1", map[int]int{1: 0}}, {"q is p2", map[int]int{2: 0}}, {"p1 is p2", map[int]int{2: 1}}, {"q, p1, p2 the same", map[int]int{1: 0, 2: 0}}} {
		run("Add", 2, a, addLaw)
	}
	for _, a := range []cfg{{"q, p distinct", nil}, {"q is p", map[int]int{1: 0}}} {
		run("Double", 1, a, dblLaw)
		run("Negate", 1, a, negLaw)
		run("Set", 1, a, setLaw)
	}
	// checker-side identity: Z_add(P,P) - 8Y^3Z = 6Y (X^3 - 3XZ^2 + bZ^3 - Y^2 Z): zero on the curve
	X1, Y1, Z1 := polyVar(0), polyVar(1), polyVar(2)
	_, _, wz := rcbLaw(X1, Y1, Z1, X1, Y1, Z1, B)
	z8 := polyConst(8).Mul(Y1).Mul(Y1).Mul(Y1).Mul(Z1)
	curve := X1.Mul(X1).Mul(X1).Sub(polyConst(3).Mul(X1).Mul(Z1).Mul(Z1)).Add(B.Mul(Z1).Mul(Z1).Mul(Z1)).Sub(Y1.Mul(Y1).Mul(Z1))
	r.Check(wz.Sub(z8).Equal(polyConst(6).Mul(Y1).Mul(curve)), "FORMULA-IDENTITY", "Z_add(P,P) - 8Y^3Z is a multiple of the curve equation", "sm2/internal/sm2_point.go", "checker-side identity: the doubling Z agrees with the addition law on the curve")
}
