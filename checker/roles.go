package main

// Role-based resolution of unexported anchors: when an unexported function the checker names has been renamed, it is found
// again by what it is (package, receiver, parameter types, who calls it). Exported names are API and stay name-based.

import (
	"go/types"
	"sort"
	"strings"

	"golang.org/x/tools/go/ssa"
)

func sigShape(fn *ssa.Function) string {
	var ps []string
	if r := fn.Signature.Recv(); r != nil {
		ps = append(ps, "recv "+types.TypeString(r.Type(), func(*types.Package) string { return "" }))
	}
	for i := 0; i < fn.Signature.Params().Len(); i++ {
		ps = append(ps, types.TypeString(fn.Signature.Params().At(i).Type(), func(*types.Package) string { return "" }))
	}
	var rs []string
	for i := 0; i < fn.Signature.Results().Len(); i++ {
		rs = append(rs, types.TypeString(fn.Signature.Results().At(i).Type(), func(*types.Package) string { return "" }))
	}
	return "(" + strings.Join(ps, ", ") + ") (" + strings.Join(rs, ", ") + ")"
}

func (p *Prog) funcsWithShape(pkg, shape string) []*ssa.Function {
	var out []*ssa.Function
	for _, fn := range p.RepoFuncs() {
		if fn.Pkg == nil || shortPkg(fn.Pkg.Pkg.Path()) != pkg || len(fn.Blocks) == 0 || fn.Parent() != nil {
			continue
		}
		if sigShape(fn) == shape {
			out = append(out, fn)
		}
	}
	sort.Slice(out, func(i, j int) bool { return out[i].Name() < out[j].Name() })
	return out
}

func staticCallees(fn *ssa.Function) []*ssa.Function {
	var out []*ssa.Function
	if fn == nil {
		return nil
	}
	for _, b := range fn.Blocks {
		for _, in := range b.Instrs {
			if c, ok := in.(*ssa.Call); ok {
				if cal := c.Call.StaticCallee(); cal != nil {
					out = append(out, cal)
				}
			}
		}
	}
	return out
}

const kernelShape = "([]byte, []byte, *[32]uint32) ()"

// roleResolvers: anchor name -> how to find the function when the name is gone
var roleResolvers = map[string]func(p *Prog) *ssa.Function{
	"sm4.expandKey": func(p *Prog) *ssa.Function {
		if fs := p.funcsWithShape("sm4", "([]byte, *[32]uint32, *[32]uint32) ()"); len(fs) == 1 {
			return fs[0]
		}
		return nil
	},
	// the one-block portable kernel is the kernel (*sm4Cipher).Encrypt calls; the two-block one is the other function of that shape
	"sm4.cryptoBlock": func(p *Prog) *ssa.Function {
		for _, c := range staticCallees(p.funcs["sm4.(*sm4Cipher).Encrypt"]) {
			if len(c.Blocks) > 0 && sigShape(c) == kernelShape {
				return c
			}
		}
		return nil
	},
	"sm4.cryptoBlockX2": func(p *Prog) *ssa.Function {
		var one *ssa.Function
		for _, c := range staticCallees(p.funcs["sm4.(*sm4Cipher).Encrypt"]) {
			if len(c.Blocks) > 0 && sigShape(c) == kernelShape {
				one = c
			}
		}
		var rest []*ssa.Function
		for _, f := range p.funcsWithShape("sm4", kernelShape) {
			if f != one {
				rest = append(rest, f)
			}
		}
		if len(rest) == 1 {
			return rest[0]
		}
		return nil
	},
	"sm2/internal.(*SM2Point).multiSelectConditioned": func(p *Prog) *ssa.Function {
		if fs := p.funcsWithShape("sm2/internal", "(recv *SM2Point, *[][]*[4]uint64, bool, int, byte) (*SM2Point)"); len(fs) == 1 {
			return fs[0]
		}
		return nil
	},
}

const hashUpdShape = "(recv *sm4GcmAsm, []byte, []byte, []byte) ()"

func init() {
	roleResolvers["sm4.(*sm4GcmAsm).cryptoBlocks"] = func(p *Prog) *ssa.Function {
		if fs := p.funcsWithShape("sm4", "(recv *sm4GcmAsm, []uint32, []byte, []byte, []byte) ()"); len(fs) == 1 {
			return fs[0]
		}
		return nil
	}
	roleResolvers["sm4.(*sm4GcmAsm).gHashFinish"] = func(p *Prog) *ssa.Function {
		if fs := p.funcsWithShape("sm4", "(recv *sm4GcmAsm, []byte, []byte, uint64, uint64) ()"); len(fs) == 1 {
			return fs[0]
		}
		return nil
	}
	// gHashUpdate and calculateFirstCounter have the same shape: the first counter is derived by calling the hash update
	pair := func(p *Prog) (upd, first *ssa.Function) {
		fs := p.funcsWithShape("sm4", hashUpdShape)
		if len(fs) != 2 {
			return nil, nil
		}
		calls := func(a, b *ssa.Function) bool {
			for _, c := range staticCallees(a) {
				if c == b {
					return true
				}
			}
			return false
		}
		switch {
		case calls(fs[0], fs[1]) && !calls(fs[1], fs[0]):
			return fs[1], fs[0]
		case calls(fs[1], fs[0]) && !calls(fs[0], fs[1]):
			return fs[0], fs[1]
		}
		return nil, nil
	}
	roleResolvers["sm4.(*sm4GcmAsm).gHashUpdate"] = func(p *Prog) *ssa.Function { u, _ := pair(p); return u }
	roleResolvers["sm4.(*sm4GcmAsm).calculateFirstCounter"] = func(p *Prog) *ssa.Function { _, f := pair(p); return f }
}

func (p *Prog) resolveByRole(name string) *ssa.Function {
	if f, ok := roleResolvers[name]; ok {
		return f(p)
	}
	return nil
}

// ---- struct fields by role ----
//
// The specifications name a few unexported struct fields (tagSize, nonceSize, roundKeys of the AEAD object; h, x, nx, len
// of the hash state; enc, dec of the cipher). A renamed field keeps its role: it is recognised by its type where that is
// unique in the struct, and otherwise by how the constructor fills it.

var fieldRoleCache = map[*Prog]map[string]string{} // "TypeName.actualField" -> canonical field name

func (p *Prog) canonField(structName, field string, ft types.Type) string {
	m := fieldRoleCache[p]
	if m == nil {
		m = p.buildFieldRoles()
		fieldRoleCache[p] = m
	}
	if c, ok := m[structName+"."+field]; ok {
		return c
	}
	return field
}

func (p *Prog) buildFieldRoles() map[string]string {
	m := map[string]string{}
	// by type
	byType := map[string]map[string]string{
		"SM3":       {"[8]uint32": "h", "[64]byte": "x", "[64]uint8": "x", "int": "nx", "uint64": "len"},
		"sm4GcmAsm": {"[]uint32": "roundKeys"},
	}
	for _, pk := range p.Pkgs {
		if pk == nil || pk.Types == nil {
			continue
		}
		for sn, roles := range byType {
			obj := pk.Types.Scope().Lookup(sn)
			if obj == nil {
				continue
			}
			st, ok := obj.Type().Underlying().(*types.Struct)
			if !ok {
				continue
			}
			seen := map[string]int{}
			for i := 0; i < st.NumFields(); i++ {
				seen[types.TypeString(st.Field(i).Type(), func(*types.Package) string { return "" })]++
			}
			for i := 0; i < st.NumFields(); i++ {
				ts := types.TypeString(st.Field(i).Type(), func(*types.Package) string { return "" })
				if c, ok := roles[ts]; ok && seen[ts] == 1 {
					m[sn+"."+st.Field(i).Name()] = c
				}
			}
		}
	}
	// by how the constructor fills them: NewGCM(nonceSize, tagSize) stores its two parameters into the AEAD object
	if fn := p.funcs["sm4.(*sm4CipherAsm).NewGCM"]; fn != nil && len(fn.Params) == 3 {
		for _, b := range fn.Blocks {
			for _, in := range b.Instrs {
				st, ok := in.(*ssa.Store)
				if !ok {
					continue
				}
				fa, ok := st.Addr.(*ssa.FieldAddr)
				if !ok {
					continue
				}
				stt, ok := fa.X.Type().Underlying().(*types.Pointer).Elem().Underlying().(*types.Struct)
				if !ok {
					continue
				}
				switch st.Val {
				case ssa.Value(fn.Params[1]):
					m["sm4GcmAsm."+stt.Field(fa.Field).Name()] = "nonceSize"
				case ssa.Value(fn.Params[2]):
					m["sm4GcmAsm."+stt.Field(fa.Field).Name()] = "tagSize"
				}
			}
		}
	}
	// the key schedule fills the encryption schedule first, the decryption schedule second
	if fn := p.Func("sm4.expandKey"); fn != nil {
		for _, caller := range p.RepoFuncs() {
			for _, b := range caller.Blocks {
				for _, in := range b.Instrs {
					call, ok := in.(*ssa.Call)
					if !ok || call.Call.StaticCallee() != fn || len(call.Call.Args) != 3 {
						continue
					}
					for i, canon := range []string{"enc", "dec"} {
						if fa, ok := call.Call.Args[1+i].(*ssa.FieldAddr); ok {
							if stt, ok := fa.X.Type().Underlying().(*types.Pointer).Elem().Underlying().(*types.Struct); ok {
								m["sm4Cipher."+stt.Field(fa.Field).Name()] = canon
							}
						}
					}
				}
			}
		}
	}
	return m
}

func structNameOf(t types.Type) string {
	if pt0, ok := t.Underlying().(*types.Pointer); ok {
		t = pt0.Elem()
	}
	if nt, ok := t.(*types.Named); ok {
		return nt.Obj().Name()
	}
	return ""
}

// isTagSizeTerm: a term key of the guard-fact analysis that is a load of the AEAD object's tag-size field (whatever it is called)
func isTagSizeTerm(p *Prog, k string) bool {
	i := strings.LastIndex(k, ".")
	if i < 0 {
		return false
	}
	f := strings.TrimRight(k[i+1:], ")")
	return f == "tagSize" || p.canonField("sm4GcmAsm", f, nil) == "tagSize"
}
