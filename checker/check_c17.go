package main

import (
	"fmt"
	"go/token"
	"go/types"
	"sort"
	"strings"

	"golang.org/x/tools/go/ssa"
)

func init() { register("C17", "proof", checkC17) }

// apiEntries enumerates the entry points a user can reach: exported functions of sm2/sm3/sm4 and every
// exported-name method of types of those packages (these are what crypto/cipher and hash call through interfaces).
func apiEntries(p *Prog) []*ssa.Function {
	var out []*ssa.Function
	for _, fn := range p.RepoFuncs() {
		if fn.Pkg == nil || fn.Parent() != nil || fn.Synthetic != "" {
			continue
		}
		rel := shortPkg(fn.Pkg.Pkg.Path())
		if rel != "sm2" && rel != "sm3" && rel != "sm4" {
			continue
		}
		if !token.IsExported(fn.Name()) {
			continue
		}
		out = append(out, fn)
	}
	return out
}

// destination parameters: the only caller-supplied memory an entry point may write.
func isDestination(fn *ssa.Function, i int) (bool, string) {
	name := fn.Name()
	pn := fn.Params[i].Name()
	recv := fn.Signature.Recv() != nil
	if recv && i == 0 {
		// receivers: hash state belongs to the hash value itself
		if isNamed(fn.Signature.Recv().Type(), "/sm3", "SM3") && (name == "Write" || name == "Reset") {
			return true, "the hash state is the receiver's own state (independent hash values)"
		}
		return false, ""
	}
	_ = pn
	// the destination is the first parameter after the receiver in the cipher.AEAD / cipher.Block / hash.Hash contracts
	// (by position: parameter names are not part of an interface contract)
	first := 0
	if recv {
		first = 1
	}
	switch name {
	case "Seal", "Open", "Encrypt", "Decrypt":
		if recv && i == first {
			return true, "destination of the AEAD/Block contract"
		}
	case "Sum":
		if recv && i == first {
			return true, "append contract of hash.Hash.Sum"
		}
	}
	return false, ""
}

func loadEffects(c *Ctx, r *Report, arch string) (*Prog, *Effects, *AsmUnit) {
	p, err := LoadRepo(c.Repo, arch)
	if err != nil {
		r.Fatalf("%v", err)
		return nil, nil, nil
	}
	asmW := map[string]map[int]bool{}
	var u *AsmUnit
	if arch == "amd64" || arch == "arm64" {
		var pp *Prog
		u, pp = loadAsmBound(c, r, arch)
		if u == nil {
			return nil, nil, nil
		}
		_ = pp
		var probs []string
		asmW, probs = AsmMayWrite(u, p)
		for _, pr := range probs {
			r.Fatalf("[%s] assembler may-write set undecidable: %s", arch, pr)
		}
	}
	e := NewEffects(p, asmW)
	e.Run()
	return p, e, u
}

// inputWriteObligations: for every API entry point, no parameter other than the destination is in a may-write position.
func inputWriteObligations(r *Report, p *Prog, e *Effects, arch string) {
	for _, fn := range apiEntries(p) {
		sum := e.sum[fn]
		if sum == nil || len(fn.Blocks) == 0 {
			continue
		}
		r.Count("api_entry_points_"+arch, 1)
		for i, prm := range fn.Params {
			if !hasContent(prm.Type()) {
				continue
			}
			if _, isIface := prm.Type().Underlying().(*types.Interface); isIface {
				continue // io.Reader etc.: the reader's own state
			}
			key := fmt.Sprintf("[%s] %s: %s", arch, p.FuncName(fn), prm.Name())
			if i == 0 && fn.Signature.Recv() != nil {
				key = fmt.Sprintf("[%s] %s: receiver", arch, p.FuncName(fn))
			}
			r.Count("param_obligations_"+arch, 1)
			if ok, why := isDestination(fn, i); ok {
				r.Ok("INPUT-WRITE", key, p.Pos(fn.Pos()), "destination: "+why)
				continue
			}
			if sum.writesParam[i] {
				var chain []string
				for _, s := range sum.paramSites[i] {
					chain = append(chain, siteChain(p, s))
				}
				r.Viol("INPUT-WRITE", key, p.Pos(fn.Pos()), "input (or shared object) reaches a may-write position: "+strings.Join(chain, "; "))
			} else {
				r.Ok("INPUT-WRITE", key, p.Pos(fn.Pos()), "never in a may-write position of any callee (Go or assembler)")
			}
		}
	}
}

func checkC17(c *Ctx, r *Report) {
	r.Explanation = "G5+A3 effect analysis over all build configurations: (1) every store whose root is a package-level variable (directly, through a pointer loaded from one, or as the receiver of a mutating math/big method) lies in code reachable only from package initialisation; (2) no method of the shared cipher/AEAD objects writes its receiver; (3) no API parameter other than the destination is in a may-write position of any callee, Go or assembler (assembler may-write sets are computed from the listing); (4) every scratch/temp argument of an assembler routine is a local allocation of the calling invocation; (6) sm3.New returns a fresh value. If no call can write anything but its own locals, fresh allocations and the caller's destination, every interleaving behaves like a sequential run and there is no race on package state."
	r.Trusted = []string{"Go memory model", "math/big, crypto/subtle, encoding/binary, io keep no hidden mutable state", "opcode table of the assembler front end", "go/ssa"}
	archs := []string{"amd64", "arm64"}
	if c.Tier == "thorough" {
		archs = append(archs, "386")
	}
	for _, arch := range archs {
		p, e, u := loadEffects(c, r, arch)
		if p == nil {
			return
		}
		c17Globals(r, p, e, arch)
		c17Receivers(r, p, e, arch)
		inputWriteObligations(r, p, e, arch)
		c17Scratch(r, p, e, arch)
		c17Fresh(r, p, arch)
		if arch == "amd64" {
			freshResultObligations(r, p, e) // no API hands out a mutable object that shares storage with package-level state
		}
		if u != nil {
			for _, rt := range u.Routines {
				if !rt.HasDecl {
					continue
				}
				var ws []string
				fnT, _ := p.Pkgs["sm4"].Types.Scope().Lookup(rt.Name).(*types.Func)
				if fnT != nil {
					sig := fnT.Type().(*types.Signature)
					for i := 0; i < sig.Params().Len(); i++ {
						if e.asmWrite[rt.Name][i] {
							ws = append(ws, sig.Params().At(i).Name())
						}
					}
				}
				r.Count("asm_routines_"+arch, 1)
				r.Ok("ASM-MAY-WRITE", fmt.Sprintf("[%s] %s", arch, rt.Name), "sm4/"+rt.File, "may-write set computed from the listing: {"+strings.Join(ws, ", ")+"}")
			}
		}
	}
	effectsPositiveControls(c, r)
	r.Floor("positive_controls", 5)
	r.Floor("package_vars_amd64", 12)
	r.Floor("api_entry_points_amd64", 15)
	r.Floor("asm_routines_amd64", 8)
	r.Floor("asm_routines_arm64", 6)
	r.Floor("asm_call_sites_amd64", 3)
}

// reachableFromAPI: functions reachable from API entry points through static calls and repo interface implementations.
func reachableFromAPI(p *Prog) map[*ssa.Function]bool {
	seen := map[*ssa.Function]bool{}
	t := &Taint{p: p}
	var stack []*ssa.Function
	for _, f := range apiEntries(p) {
		stack = append(stack, f)
	}
	for len(stack) > 0 {
		f := stack[len(stack)-1]
		stack = stack[:len(stack)-1]
		if seen[f] {
			continue
		}
		seen[f] = true
		for _, b := range f.Blocks {
			for _, in := range b.Instrs {
				if mc, ok := in.(*ssa.MakeClosure); ok {
					if cf, ok := mc.Fn.(*ssa.Function); ok {
						stack = append(stack, cf)
					}
				}
				ci, ok := in.(ssa.CallInstruction)
				if !ok {
					continue
				}
				c := ci.Common()
				if cal := c.StaticCallee(); cal != nil {
					if cal.Pkg != nil && strings.HasPrefix(cal.Pkg.Pkg.Path(), modPath) {
						stack = append(stack, cal)
					}
				} else if c.IsInvoke() {
					stack = append(stack, t.implementations(c)...)
				}
			}
		}
	}
	return seen
}

func c17Globals(r *Report, p *Prog, e *Effects, arch string) {
	reach := reachableFromAPI(p)
	// every package-level variable of the repository
	var globals []*ssa.Global
	for _, sp := range p.SSAPkgs {
		for _, m := range sp.Members {
			if g, ok := m.(*ssa.Global); ok && !strings.HasPrefix(g.Name(), "init$") {
				globals = append(globals, g)
			}
		}
	}
	sort.Slice(globals, func(i, j int) bool { return globals[i].String() < globals[j].String() })
	writers := map[*ssa.Global][]writeSite{}
	for fn, sum := range e.sum {
		if !reach[fn] {
			continue
		}
		for g, sites := range sum.globals {
			for _, s := range sites {
				if s.fn == fn { // report at the function that contains the store / the call
					writers[g] = append(writers[g], s)
				}
			}
		}
	}
	for _, g := range globals {
		r.Count("package_vars_"+arch, 1)
		key := fmt.Sprintf("[%s] %s.%s", arch, shortPkg(g.Pkg.Pkg.Path()), g.Name())
		ws := writers[g]
		if len(ws) == 0 {
			r.Ok("GLOBAL-WRITE", key, p.Pos(g.Pos()), "written only by package initialisation; only read by code reachable from the API")
			continue
		}
		sort.Slice(ws, func(i, j int) bool { return siteChain(p, ws[i]) < siteChain(p, ws[j]) })
		var chain []string
		for _, s := range ws {
			chain = append(chain, siteChain(p, s))
			if len(chain) >= 3 {
				break
			}
		}
		r.Viol("GLOBAL-WRITE", key, p.Pos(g.Pos()), "package-level state is written by code reachable from the API: "+strings.Join(chain, "; "))
	}
}

func c17Receivers(r *Report, p *Prog, e *Effects, arch string) {
	shared := map[string]bool{"sm4Cipher": true, "sm4CipherAsm": true, "sm4GcmAsm": true}
	n := 0
	for fn, sum := range e.sum {
		recv := fn.Signature.Recv()
		if recv == nil || len(fn.Blocks) == 0 || fn.Synthetic != "" {
			continue
		}
		t := recv.Type()
		if pt, ok := t.(*types.Pointer); ok {
			t = pt.Elem()
		}
		nt, ok := t.(*types.Named)
		if !ok || !shared[nt.Obj().Name()] || shortPkg(nt.Obj().Pkg().Path()) != "sm4" {
			continue
		}
		n++
		key := fmt.Sprintf("[%s] %s", arch, p.FuncName(fn))
		if sum.writesParam[0] {
			var chain []string
			for _, s := range sum.paramSites[0] {
				chain = append(chain, siteChain(p, s))
			}
			r.Viol("RECEIVER-WRITE", key, p.Pos(fn.Pos()), "method of a shared cipher/AEAD object writes the object (or memory it owns): "+strings.Join(chain, "; "))
		} else {
			r.Ok("RECEIVER-WRITE", key, p.Pos(fn.Pos()), "receiver and the memory it owns are never in a may-write position")
		}
	}
	r.Count("shared_object_methods_"+arch, n)
	if n == 0 {
		r.Fatalf("[%s] unresolved anchor: no methods of sm4Cipher/sm4CipherAsm/sm4GcmAsm found", arch)
	}
}

// c17Scratch: every argument bound to a written parameter of an assembler routine is a local allocation of the caller
// or (part of) the caller's destination parameter.
func c17Scratch(r *Report, p *Prog, e *Effects, arch string) {
	for _, fn := range p.RepoFuncs() {
		if len(fn.Blocks) == 0 {
			continue
		}
		s := &effState{uf: map[ssa.Value]ssa.Value{}, tupleRoot: map[ssa.Value][]ssa.Value{}}
		for _, b := range fn.Blocks {
			for _, in := range b.Instrs {
				ci, ok := in.(ssa.CallInstruction)
				if !ok {
					continue
				}
				cal := ci.Common().StaticCallee()
				if cal == nil || cal.Pkg == nil || shortPkg(cal.Pkg.Pkg.Path()) != "sm4" || len(cal.Blocks) != 0 {
					continue
				}
				w, known := e.asmWrite[cal.Name()]
				if !known {
					continue
				}
				r.Count("asm_call_sites_"+arch, 1)
				for j, a := range ci.Common().Args {
					if !w[j] {
						continue
					}
					root := s.root(a)
					pname := cal.Signature.Params().At(j).Name()
					key := fmt.Sprintf("[%s] %s -> %s#%s", arch, p.FuncName(fn), cal.Name(), pname)
					isScratch := strings.HasPrefix(pname, "tmp") || strings.HasPrefix(pname, "temp")
					switch x := root.(type) {
					case *ssa.Alloc:
						r.Ok("ASM-WRITE-TARGET", key, p.InstrPos(in), "written argument is a local variable of this invocation ("+x.Comment+")")
					case *ssa.MakeSlice, *ssa.Call:
						r.Ok("ASM-WRITE-TARGET", key, p.InstrPos(in), "written argument is a fresh allocation / call result of this invocation")
					case *ssa.Parameter:
						sharedRecv := false
						if fn.Signature.Recv() != nil && len(fn.Params) > 0 && x == fn.Params[0] {
							sharedRecv = isNamed(x.Type(), "/sm4", "sm4GcmAsm") || isNamed(x.Type(), "/sm4", "sm4CipherAsm") || isNamed(x.Type(), "/sm4", "sm4Cipher")
						}
						if isScratch && sharedRecv {
							r.Viol("SCRATCH-PER-CALL", key, p.InstrPos(in), "scratch block handed to the assembler is not a local of the call but lives in the shared object "+x.Name()+" (shared between concurrent calls)")
						} else {
							r.Ok("ASM-WRITE-TARGET", key, p.InstrPos(in), "written argument belongs to parameter "+x.Name()+" (accounted for by INPUT-WRITE / RECEIVER-WRITE)")
						}
					case *ssa.Global:
						r.Viol("SCRATCH-PER-CALL", key, p.InstrPos(in), "assembler routine writes package-level variable "+x.Name())
					default:
						r.Ok("ASM-WRITE-TARGET", key, p.InstrPos(in), fmt.Sprintf("written argument rooted at %T of this invocation", root))
					}
				}
			}
		}
	}
}

func c17Fresh(r *Report, p *Prog, arch string) {
	fn := p.MustFunc(r, "sm3.New")
	if fn == nil {
		return
	}
	ok := true
	for _, b := range fn.Blocks {
		for _, in := range b.Instrs {
			if ret, isRet := in.(*ssa.Return); isRet {
				v := retVals(ret)[0]
				if mi, isMI := v.(*ssa.MakeInterface); isMI {
					v = mi.X
				}
				if al, isA := v.(*ssa.Alloc); !isA || !al.Heap {
					ok = false
				}
			}
		}
	}
	r.Check(ok, "FRESH-VALUE", "["+arch+"] sm3.New", p.Pos(fn.Pos()), "returns a value allocated by this call (independent hash values share nothing)")
}
