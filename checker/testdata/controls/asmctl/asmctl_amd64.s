#include "textflag.h"

DATA ctlTable<>+0x00(SB)/8, $0x0706050403020100
DATA ctlTable<>+0x08(SB)/8, $0x0f0e0d0c0b0a0908
GLOBL ctlTable<>(SB), (NOPTR+RODATA), $16

// control: TAINTED-ADDRESS (table lookup in memory by a data byte)
TEXT ·lookupBySecret(SB),NOSPLIT,$0-16
	MOVQ src+0(FP), AX
	MOVQ out+8(FP), BX
	MOVQ $0, CX
	MOVB (AX), CX
	ANDQ $15, CX
	LEAQ ctlTable<>(SB), DX
	ADDQ CX, DX
	MOVB (DX), CX
	MOVB CX, (BX)
	RET

// control: TAINTED-BRANCH inside a loop (early exit), not a verdict branch
TEXT ·earlyExitCompare(SB),NOSPLIT,$0-32
	MOVQ x+0(FP), DI
	MOVQ y+8(FP), SI
	MOVQ l+16(FP), AX
loop:
	CMPQ AX, $1
	JL equal
	MOVB (DI), BX
	MOVB (SI), CX
	CMPB BX, CX
	JNE differ
	ADDQ $1, DI
	ADDQ $1, SI
	SUBQ $1, AX
	JMP loop
equal:
	MOVQ $1, ret+24(FP)
	RET
differ:
	MOVQ $0, ret+24(FP)
	RET

// control: store through the input pointer (INPUT may-write)
TEXT ·storesThroughInput(SB),NOSPLIT,$0-16
	MOVQ dst+0(FP), AX
	MOVQ src+8(FP), BX
	MOVQ (BX), CX
	XORQ CX, (BX)
	MOVQ CX, (AX)
	RET

// control: EXTENT (16-byte load although only n >= 1 bytes are guaranteed)
TEXT ·wideLoadAfterShortCheck(SB),NOSPLIT,$0-24
	MOVQ dst+0(FP), AX
	MOVQ src+8(FP), BX
	MOVQ n+16(FP), CX
	CMPQ CX, $1
	JL done
	VMOVDQU (BX), X0
	VMOVDQU X0, (AX)
done:
	RET

// control: none
TEXT ·cleanCopy16(SB),NOSPLIT,$0-16
	MOVQ dst+0(FP), AX
	MOVQ src+8(FP), BX
	VMOVDQU (BX), X0
	VMOVDQU X0, (AX)
	RET

// control: REGISTER-DEFINED (X0 and X1 are read although nothing has written them: the result is whatever an earlier
// call left there)
TEXT ·staleRegisterRead(SB),NOSPLIT,$0-8
	MOVQ dst+0(FP), AX
	VPXORD X1, X0, X2
	VMOVDQU X2, (AX)
	RET
