// Package asmctl holds positive controls for the assembler engines (A2 taint, A3 store provenance, A4 extents).
package asmctl

//go:noescape
func lookupBySecret(src *byte, out *byte)

//go:noescape
func earlyExitCompare(x *byte, y *byte, l int) int

//go:noescape
func storesThroughInput(dst *byte, src *byte)

//go:noescape
func wideLoadAfterShortCheck(dst *byte, src *byte, n int)

//go:noescape
func cleanCopy16(dst *byte, src *byte)

//go:noescape
func staleRegisterRead(dst *byte)
