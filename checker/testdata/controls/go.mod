module github.com/bilibili/smgo/zzctl

go 1.17
