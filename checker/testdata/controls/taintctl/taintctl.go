// Package taintctl holds positive controls for the secret-taint engine (G2): each function contains exactly the
// construct named in its comment, and the checker fails if a control is NOT reported.
package taintctl

import "math/big"

var table [256]byte

// control: TAINTED-INDEX
func LookupBySecret(k []byte) byte { return table[k[0]] }

// control: TAINTED-BRANCH (early exit inside the loop)
func EarlyExitCompare(a, b []byte) bool {
	for i := range a {
		if a[i] != b[i] {
			return false
		}
	}
	return true
}

// control: VARIABLE-TIME-OP
func DivBySecret(k []byte) int { return 1000 / (int(k[0]) + 1) }

// control: TAINTED-TO-EXTERNAL
func ToBig(k []byte) *big.Int { return new(big.Int).SetBytes(k) }

// control: no sink (OR-accumulation over all bytes, no exit)
func Clean(k []byte) byte {
	var acc byte
	for _, b := range k {
		acc |= b
	}
	return acc
}
