// Package effctl holds positive controls for the effect engine (G5).
package effctl

var scratch [16]byte
var counter int

type Obj struct {
	buf   [16]byte
	cache []byte
}

// control: GLOBAL-WRITE
func UsesGlobalScratch(in []byte) byte {
	copy(scratch[:], in)
	counter++
	return scratch[0]
}

// control: INPUT-WRITE (writes its input through append into spare capacity)
func AppendsToInput(id, extra []byte) []byte { return append(id, extra...) }

// control: RECEIVER-WRITE
func (o *Obj) Caches(in []byte) { o.cache = in; o.buf[0] = in[0] }

// control: none (writes only its destination and locals)
func Pure(dst, src []byte) {
	var tmp [16]byte
	copy(tmp[:], src)
	copy(dst, tmp[:])
}
