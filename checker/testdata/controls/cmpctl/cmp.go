// Package cmpctl holds positive controls for the comparison analysis (C20).
package cmpctl

import "math/bits"

// DiffOverwritten is the borrow-chain comparison with the difference accumulator overwritten instead of OR-ed:
// a > b is reported as equal when the most significant bytes agree.
func DiffOverwritten(a, b []byte, l int) int {
	var borrow, diff, d uint32
	for i := l - 1; i >= 0; i-- {
		d, borrow = bits.Sub32(uint32(a[i]), uint32(b[i]), borrow)
		diff = d
	}
	if borrow == 0 {
		if diff != 0 {
			return 1
		}
		return 0
	}
	return -1
}

// MaskCompare is a correct comparison in another idiom (most significant byte first, gt/lt/eq masks).
func MaskCompare(a, b []byte, l int) int {
	var gt, lt uint32
	var eq uint32 = 1
	for i := 0; i < l; i++ {
		A := uint32(a[i])
		B := uint32(b[i])
		g := ((B - A) >> 31) & 1
		s := ((A - B) >> 31) & 1
		gt |= g & eq
		lt |= s & eq
		eq &^= g | s
	}
	return int(gt) - int(lt)
}
