package main

import (
	"fmt"
	"go/token"
	"strings"

	"golang.org/x/tools/go/ssa"
)

func init() { register("C19", "proof", checkC19) }

func checkC19(c *Ctx, r *Report) {
	r.Explanation = "Decided on the outcomes of a path-by-path interpretation in the protocol domain (checker/proto*.go) of GenerateKey, SignHashed, Sign and SignZa. Every read of the random source forks into a successful full read (the buffer becomes a fresh symbolic draw) and a failed read (the buffer becomes unusable: any later use of its bytes stops the interpretation, rule FOLLOWED, and an error is pending); the source may only be used through io.ReadFull (or io.ReadAtLeast with min = len(buf)) - any other use is not modelled and reported. Rules: SIGN-ERROR-RESULTS / KEYGEN-ERROR-RESULTS (every outcome with an error returns nil signature parts resp. coordinates), the converse (no outcome returns a signature or key after a failed read: SIGN-NONCE / KEYGEN-DRAW require the last draw to be a full successful one), SIGN-REDRAW / KEYGEN-REDRAW (a rejected candidate leads to a new full draw), KEYGEN-SOURCE (nil source). This covers every position of the first failure at once because the fork happens at every read. NOT decided: io.ReadFull's own contract."
	r.Trusted = []string{"io.ReadFull contract: err != nil iff fewer than len(buf) bytes were read; short reads are retried", "go/ssa"}
	p, err := LoadRepo(c.Repo, "amd64")
	if err != nil {
		r.Fatalf("%v", err)
		return
	}
	own := map[string]bool{"SIGN-ERROR-RESULTS": true, "SIGN-REDRAW": true, "SIGN-NONCE": true, "KEYGEN-ERROR-RESULTS": true, "KEYGEN-REDRAW": true, "KEYGEN-SOURCE": true, "KEYGEN-DRAW": true}
	if ps := newProtoSpec(r, p, "sm2.GenerateKey"); ps != nil {
		ps.only = own
		ps.specGenerateKey()
		c19FailedReads(r, ps)
	}
	za := zaTerm(pParam("id"), pParam("pubx"), pParam("puby"))
	for _, w := range []struct {
		fn string
		e  *pt
	}{{"sm2.SignHashed", pParam("e")}, {"sm2.SignZa", pOp("sm3", pOp("cat", pParam("za"), pParam("msg")))}, {"sm2.Sign", pOp("sm3", pOp("cat", za, pParam("msg")))}} {
		if ps := newProtoSpec(r, p, w.fn); ps != nil {
			ps.only = own
			ps.specSign(w.e, pParam("priv"))
			c19FailedReads(r, ps)
		}
	}
	r.Floor("failed_read_outcomes", 2)
}

// c19FailedReads: every outcome after a failed read is an error outcome
func c19FailedReads(r *Report, ps *protoSpec) {
	n, bad := 0, 0
	for _, o := range ps.outs {
		if o.st.readErrs == 0 || o.restart {
			continue
		}
		n++
		if len(o.vals) == 0 || !isErrVal(o.vals[len(o.vals)-1]) {
			bad++
		}
	}
	r.Count("failed_read_outcomes", n)
	r.Check(n > 0 && bad == 0, "FAILED-READ-IS-ERROR", ps.name, ps.p.Pos(ps.fn.Pos()), fmt.Sprintf("%d outcomes follow a failed read of the random source; each returns a non-nil error", n)+ifs(bad > 0, fmt.Sprintf(": %d of them do not", bad)))
}

// c19Func checks one drawing function. nilResults are the indices of the results that must be nil on the error arm.
func c19Func(r *Report, p *Prog, name string, nilResults []int, needNilTest bool) {
	fn := p.MustFunc(r, name)
	if fn == nil {
		return
	}
	var rd *ssa.Parameter
	for _, prm := range fn.Params {
		if prm.Name() == "rand" {
			rd = prm
		}
	}
	if rd == nil {
		r.Fatalf("unresolved anchor: reader parameter of %s", name)
		return
	}
	st := &effState{uf: map[ssa.Value]ssa.Value{}, tupleRoot: map[ssa.Value][]ssa.Value{}}
	var draws []*ssa.Call
	helperBuf := map[*ssa.Call]ssa.Value{}
	nilTests := 0
	// (1) only-ReadFull
	for _, ref := range *rd.Referrers() {
		switch x := ref.(type) {
		case *ssa.Call:
			cal := x.Call.StaticCallee()
			switch {
			case cal != nil && cal.String() == "io.ReadFull" && x.Call.Args[0] == ssa.Value(rd):
				draws = append(draws, x)
				r.Ok("ONLY-READFULL", fmt.Sprintf("%s: use#%d of the reader", name, len(draws)), p.InstrPos(x), "io.ReadFull(rand, buf)")
			case cal != nil && isRepoFunc(cal) && len(cal.Blocks) > 0:
				// pass-through to a repository helper: accepted iff the helper itself is a draw helper (same rules inside it)
				bufIdx, probs := c19Helper(r, p, cal, x)
				if len(probs) == 0 && bufIdx >= 0 {
					draws = append(draws, x)
					helperBuf[x] = x.Call.Args[bufIdx]
					r.Ok("ONLY-READFULL", fmt.Sprintf("%s: use#%d of the reader", name, len(draws)), p.InstrPos(x), "handed to the draw helper "+cal.Name()+", which satisfies the draw rules itself")
				} else {
					r.Viol("ONLY-READFULL", name+": reader passed to "+cal.Name(), p.InstrPos(x), "the randomness source is handed to "+cal.String()+", which is not a sound draw helper: "+strings.Join(probs, "; "))
				}
			default:
				r.Viol("ONLY-READFULL", name+": reader used by "+calleeName(x), p.InstrPos(x), "the randomness source is used other than as the first argument of io.ReadFull")
			}
		case *ssa.BinOp:
			if (x.Op == token.EQL || x.Op == token.NEQ) && (isNilConst(x.X) || isNilConst(x.Y)) {
				nilTests++
				continue
			}
			r.Viol("ONLY-READFULL", name+": reader in expression", p.InstrPos(x), "unexpected use of the randomness source")
		case *ssa.DebugRef:
		default:
			r.Viol("ONLY-READFULL", fmt.Sprintf("%s: reader used by %T", name, ref), p.InstrPos(ref), "the randomness source is used other than as the first argument of io.ReadFull (e.g. rand.Read, storing it, handing it to a helper)")
		}
	}
	if len(draws) == 0 {
		r.Viol("ONLY-READFULL", name+": no draw", p.Pos(fn.Pos()), "no sound draw (io.ReadFull(rand, ·) or a draw helper) found")
		return
	}
	env := NewLinEnv(p, fn)
	for i, d := range draws {
		r.Count("draw_sites", 1)
		key := fmt.Sprintf("%s draw#%d", name, i+1)
		pos := p.InstrPos(d)
		buf := d.Call.Args[1]
		if hb, ok := helperBuf[d]; ok {
			buf = hb
		}
		// (2) full width
		ls, ok := env.Len(buf)
		r.Check(ok && len(ls) == 1 && ls[0].IsConst() && ls[0].C == 32, "DRAW-UNIT", key, pos, fmt.Sprintf("buffer length %v, the draw unit is 32 bytes", linStrs(ls)))
		// (3) error before use
		g := findErrGuard(d)
		if g == nil {
			r.Viol("ERROR-BEFORE-USE", key, pos, "the error result of io.ReadFull is not tested by an `err != nil` branch")
			continue
		}
		blk := d.Block()
		bad := ""
		// every read of the buffer anywhere must be dominated by the success edge of a draw's error test
		var okSuccs []*ssa.BasicBlock
		for _, d2 := range draws {
			if g2 := findErrGuard(d2); g2 != nil {
				okSuccs = append(okSuccs, g2.OkSucc)
			}
		}
		for _, b := range fn.Blocks {
			for _, in := range b.Instrs {
				if _, isDraw := helperBuf[asCall(in)]; isDraw {
					continue
				}
				isD := false
				for _, d2 := range draws {
					if in == ssa.Instruction(d2) {
						isD = true
					}
				}
				if isD || !usesBuffer(in, buf, st) {
					continue
				}
				dom := false
				for _, os := range okSuccs {
					if os.Dominates(b) {
						dom = true
					}
				}
				if !dom {
					bad = "buffer is read without a dominating successful error test: " + in.String() + " at " + p.InstrPos(in)
				}
			}
		}
		r.Check(bad == "", "ERROR-BEFORE-USE", key, pos, "every read of the drawn buffer is dominated by the `err == nil` edge of a draw"+ifs(bad != "", ": "+bad))
		// (4) failing arm
		reach := reachableBlocks(g.FailSucc)
		problems := []string{}
		if reach[blk] {
			problems = append(problems, "the failing arm can reach the draw again (retry on error)")
		}
		nRet := 0
		for b := range reach {
			for _, in := range b.Instrs {
				if usesBuffer(in, buf, st) {
					problems = append(problems, "failing arm uses the (partially filled) buffer: "+in.String()+" at "+p.InstrPos(in))
				}
				ret, ok := in.(*ssa.Return)
				if !ok {
					continue
				}
				nRet++
				eres := retVals(ret)[len(retVals(ret))-1]
				if !provablyNonNilError(eres, g.Err) {
					problems = append(problems, "return at "+p.InstrPos(ret)+" does not carry a provably non-nil error ("+valName(eres)+")")
				}
				for _, k := range nilResults {
					if !isNilConst(retVals(ret)[k]) {
						problems = append(problems, fmt.Sprintf("return at %s yields a non-nil result #%d next to the error", p.InstrPos(ret), k))
					}
				}
			}
		}
		if nRet == 0 {
			problems = append(problems, "failing arm never returns")
		}
		r.Check(len(problems) == 0, "ERROR-ARM", key, p.InstrPos(g.If), "on failure every path returns a non-nil error and nil key/signature results, without redrawing"+ifs(len(problems) > 0, ": "+strings.Join(problems, "; ")))
		// (6) redraw into the whole buffer: every back edge into the loop re-executes this call (the call's block dominates all blocks that can reach it again)
		okRedraw := true
		for b := range reachableBlocks(g.OkSucc) {
			for _, s := range b.Succs {
				if reachableBlocks(s)[blk] && !s.Dominates(blk) && s != blk {
					// a path re-enters the loop below the draw
					if !blk.Dominates(s) {
						okRedraw = false
					}
				}
			}
		}
		// uses of the buffer as key/nonce must be dominated by the ok successor of the error test
		for _, b := range fn.Blocks {
			for _, in := range b.Instrs {
				if in == ssa.Instruction(d) {
					continue
				}
				if usesBuffer(in, buf, st) && !g.OkSucc.Dominates(b) {
					okRedraw = false
					problems = append(problems, "use of the buffer not dominated by a successful draw: "+in.String())
				}
			}
		}
		r.Check(okRedraw, "REDRAW-WHOLE-BUFFER", key, pos, "every use of the buffer is dominated by a successful full draw; a rejected candidate re-executes the same ReadFull")
	}
	if needNilTest {
		// (5) rand == nil -> error dominates the first draw
		ok := false
		for _, ec := range edgeConds(draws[0].Block()) {
			bo, isB := ec.If.Cond.(*ssa.BinOp)
			if !isB || !(bo.X == ssa.Value(rd) || bo.Y == ssa.Value(rd)) {
				continue
			}
			// draw is on the "rand != nil" side; the other side must return a non-nil error
			other := ec.If.Block().Succs[0]
			if ec.Truth {
				other = ec.If.Block().Succs[1]
			}
			good := true
			nret := 0
			for b := range reachableBlocks(other) {
				if b == draws[0].Block() {
					good = false
				}
				for _, in := range b.Instrs {
					if ret, isR := in.(*ssa.Return); isR {
						nret++
						if !provablyNonNilError(retVals(ret)[len(retVals(ret))-1], nil) {
							good = false
						}
					}
				}
			}
			if good && nret > 0 && ((bo.Op == token.EQL && !ec.Truth) || (bo.Op == token.NEQ && ec.Truth)) {
				ok = true
			}
		}
		r.Check(ok, "NIL-READER", name, p.Pos(fn.Pos()), "`rand == nil` is rejected with an error before the first draw")
	}
}

func linStrs(ls []*Lin) []string {
	var out []string
	for _, l := range ls {
		out = append(out, l.String())
	}
	return out
}

// c19Helper decides whether callee (called at site with the reader among its arguments) is a draw helper:
// it draws only through io.ReadFull into one of its own slice parameters as a whole, tests the error before any use,
// returns a provably non-nil error on the failing arm without redrawing, and returns a nil error only after a successful draw.
func c19Helper(r *Report, p *Prog, cal *ssa.Function, site *ssa.Call) (bufIdx int, problems []string) {
	rdIdx := -1
	for i, a := range site.Call.Args {
		if prm, ok := a.(*ssa.Parameter); ok && prm.Name() == "rand" {
			rdIdx = i
		}
	}
	return drawHelperInfo(p, cal, rdIdx)
}

// drawHelperInfo: is cal, whose parameter rdIdx is the reader, a sound draw helper? Returns the index of its buffer parameter.
func drawHelperInfo(p *Prog, cal *ssa.Function, rdIdx int) (bufIdx int, problems []string) {
	bufIdx = -1
	if rdIdx < 0 || rdIdx >= len(cal.Params) {
		return -1, []string{"cannot identify the reader parameter of the helper"}
	}
	nres := cal.Signature.Results().Len()
	if nres == 0 || !isErrorType(cal.Signature.Results().At(nres-1).Type()) {
		return -1, []string{"helper has no error result"}
	}
	rd := cal.Params[rdIdx]
	st := &effState{uf: map[ssa.Value]ssa.Value{}, tupleRoot: map[ssa.Value][]ssa.Value{}}
	var draws []*ssa.Call
	for _, ref := range *rd.Referrers() {
		switch x := ref.(type) {
		case *ssa.Call:
			c2 := x.Call.StaticCallee()
			if c2 != nil && c2.String() == "io.ReadFull" && x.Call.Args[0] == ssa.Value(rd) {
				draws = append(draws, x)
				continue
			}
			problems = append(problems, "reader used by "+calleeName(x)+" at "+p.InstrPos(x))
		case *ssa.DebugRef:
		default:
			problems = append(problems, fmt.Sprintf("reader used by %T at %s", ref, p.InstrPos(ref)))
		}
	}
	if len(draws) != 1 {
		problems = append(problems, fmt.Sprintf("%d io.ReadFull calls in the helper (exactly one expected)", len(draws)))
		return -1, problems
	}
	d := draws[0]
	bp, ok := d.Call.Args[1].(*ssa.Parameter)
	if !ok {
		problems = append(problems, "the helper does not read into one of its own slice parameters as a whole")
		return -1, problems
	}
	for i, prm := range cal.Params {
		if prm == bp {
			bufIdx = i
		}
	}
	g := findErrGuard(d)
	if g == nil || g.If.Block() != d.Block() {
		problems = append(problems, "the error of io.ReadFull is not tested right after the call")
		return bufIdx, problems
	}
	seen := false
	for _, in := range d.Block().Instrs {
		if in == ssa.Instruction(d) {
			seen = true
			continue
		}
		if seen && usesBuffer(in, bp, st) {
			problems = append(problems, "buffer read before the error test")
		}
	}
	fail := reachableBlocks(g.FailSucc)
	if fail[d.Block()] {
		problems = append(problems, "helper redraws after an error")
	}
	for _, b := range cal.Blocks {
		for _, in := range b.Instrs {
			ret, ok := in.(*ssa.Return)
			if !ok {
				continue
			}
			ev := retVals(ret)[nres-1]
			switch {
			case fail[b] && !g.OkSucc.Dominates(b):
				if !provablyNonNilError(ev, g.Err) {
					problems = append(problems, "failing arm returns an error that is not provably non-nil at "+p.InstrPos(ret))
				}
			case isNilConst(ev):
				if !g.OkSucc.Dominates(b) {
					problems = append(problems, "nil error returned without a successful draw at "+p.InstrPos(ret))
				}
			default:
				if !provablyNonNilError(ev, g.Err) {
					problems = append(problems, "return with an undetermined error at "+p.InstrPos(ret))
				}
			}
		}
		for _, in := range b.Instrs {
			if in != ssa.Instruction(d) && usesBuffer(in, bp, st) && !g.OkSucc.Dominates(b) {
				problems = append(problems, "use of the buffer not dominated by a successful draw at "+p.InstrPos(in))
			}
		}
	}
	return bufIdx, problems
}

func asCall(in ssa.Instruction) *ssa.Call {
	c, _ := in.(*ssa.Call)
	return c
}
