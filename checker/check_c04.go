package main

import (
	"fmt"
	"go/token"
	"go/types"
	"sort"
	"strings"

	"golang.org/x/tools/go/ssa"
)

func init() { register("C04", "other", checkC04) }

func isNilConst(v ssa.Value) bool {
	c, ok := v.(*ssa.Const)
	return ok && c.IsNil()
}

func checkC04(c *Ctx, r *Report) {
	r.Explanation = "Decided (contract clauses of io.Writer/hash.Hash, by shape): (1) L-RET: every return of (*SM3).Write yields (len(data), nil) as symbolic values; (2) Sum never has its receiver in a may-write position (effect analysis) and returns a slice of length len(in)+32; (3) Reset stores every field that Write/checkSum/cf read (x excepted: its stale content is masked by nx); (4) SumSM3 performs Reset; Write; checkSum like New+Write+Sum; (5) PAD-SPLIT: in checkSum the two-block padding path is taken exactly when fewer than 8 bytes are left after the 0x80 byte, and the zero fill on each path lands the buffered count on 56 (interval evaluation of the branch condition and of the slice bounds over the invariant range of nx); (6) New returns a freshly allocated, Reset value. NOT decided: digest values (compression function), and that Write maintains 0 <= nx < 64 beyond the shape checked here."
	r.Trusted = []string{"go/ssa", "summary of Write used by PAD-SPLIT: it adds len(data) to the buffered count modulo 64 (its own code is checked for the return contract only)", "GB/T 32905 padding rule"}
	p, err := LoadRepo(c.Repo, "amd64")
	if err != nil {
		r.Fatalf("%v", err)
		return
	}
	// (1) Write
	if fn := p.MustFunc(r, "sm3.(*SM3).Write"); fn != nil {
		env := NewLinEnv(p, fn)
		want := linTerm("len("+fn.Params[1].Name()+")", true)
		nret := 0
		for _, b := range fn.Blocks {
			for _, in := range b.Instrs {
				ret, ok := in.(*ssa.Return)
				if !ok {
					continue
				}
				nret++
				key := fmt.Sprintf("sm3.(*SM3).Write return#%d", nret)
				got := env.Int(retVals(ret)[0])
				r.Check(got.Equal(want), "L-RET", key+" n", p.InstrPos(ret), "first result is "+got.String()+", contract is len(data)")
				r.Check(isNilConst(retVals(ret)[1]), "L-RET", key+" err", p.InstrPos(ret), "second result is the nil constant")
			}
		}
		r.Count("write_returns", nret)
	}
	// (2) Sum: pure + append length
	e := NewEffects(p, map[string]map[int]bool{})
	e.Run()
	if fn := p.MustFunc(r, "sm3.(*SM3).Sum"); fn != nil {
		sum := e.sum[fn]
		var chain []string
		for _, s := range sum.paramSites[0] {
			chain = append(chain, siteChain(p, s))
		}
		r.Check(!sum.writesParam[0], "RECEIVER-WRITE", "sm3.(*SM3).Sum", p.Pos(fn.Pos()), "Sum works on a copy: receiver never in a may-write position"+ifs(sum.writesParam[0], ": "+strings.Join(chain, "; ")))
		env := NewLinEnv(p, fn)
		env.lenSum = func(c2 *ssa.Function, call2 *ssa.Call, en *LinEnv) ([]*Lin, bool) {
			return retLenSummary(p, c2, 0, call2, en, 0)
		}
		want := linTerm("len("+fn.Params[1].Name()+")", true).Add(linConst(32))
		for _, b := range fn.Blocks {
			for _, in := range b.Instrs {
				ret, ok := in.(*ssa.Return)
				if !ok {
					continue
				}
				ls, ok := env.Len(retVals(ret)[0])
				good := ok && len(ls) > 0
				var ss []string
				for _, l := range ls {
					ss = append(ss, l.String())
					if !l.Equal(want) {
						good = false
					}
				}
				r.Check(good, "L-RET", "sm3.(*SM3).Sum result length", p.InstrPos(ret), "length set {"+strings.Join(ss, ", ")+"}, contract len(in)+32")
				// prefix: the result must be built by append on `in`
				isAppend := false
				if call, ok := retVals(ret)[0].(*ssa.Call); ok {
					if b, ok := call.Call.Value.(*ssa.Builtin); ok && b.Name() == "append" && call.Call.Args[0] == ssa.Value(fn.Params[1]) {
						isAppend = true
					}
				}
				r.Check(isAppend, "APPEND-PREFIX", "sm3.(*SM3).Sum", p.InstrPos(ret), "result is append(in, ...): in is the prefix of the result on both capacity paths")
			}
		}
	}
	// (3) Reset completeness
	c04Reset(r, p)
	// (4) SumSM3 sequence
	if fn := p.MustFunc(r, "sm3.SumSM3"); fn != nil {
		var seq []string
		for _, b := range fn.Blocks {
			for _, in := range b.Instrs {
				if call, ok := in.(*ssa.Call); ok {
					if cal := call.Call.StaticCallee(); cal != nil && cal.Pkg != nil && shortPkg(cal.Pkg.Pkg.Path()) == "sm3" {
						seq = append(seq, cal.Name())
					}
				}
			}
		}
		r.Check(strings.Join(seq, ",") == "Reset,Write,checkSum", "ONE-SHOT-SEQUENCE", "sm3.SumSM3", p.Pos(fn.Pos()), "calls "+strings.Join(seq, ",")+" (same as New; Write; Sum)")
	}
	// (6) New: fresh + Reset
	if fn := p.MustFunc(r, "sm3.New"); fn != nil {
		hasReset := false
		for _, b := range fn.Blocks {
			for _, in := range b.Instrs {
				if call, ok := in.(*ssa.Call); ok {
					if cal := call.Call.StaticCallee(); cal != nil && cal.Name() == "Reset" {
						if _, isAlloc := call.Call.Args[0].(*ssa.Alloc); isAlloc {
							hasReset = true
						}
					}
				}
			}
		}
		r.Check(hasReset, "ONE-SHOT-SEQUENCE", "sm3.New resets the fresh value", p.Pos(fn.Pos()), "New = new(SM3); Reset")
	}
	// (5) PAD-SPLIT
	c04PadSplit(r, p)
	r.Floor("write_returns", 1)
	r.Floor("sm3_fields", 4)
}

func c04Reset(r *Report, p *Prog) {
	fieldOf := func(v ssa.Value, recv *ssa.Parameter) (string, ssa.Value) {
		// returns the SM3 field an address belongs to, and the index value if it is an element of an array field
		var idx ssa.Value
		for i := 0; i < 10; i++ {
			switch x := v.(type) {
			case *ssa.IndexAddr:
				idx = x.Index
				v = x.X
			case *ssa.Slice:
				v = x.X
			case *ssa.FieldAddr:
				if x.X == ssa.Value(recv) {
					st := recv.Type().Underlying().(*types.Pointer).Elem().Underlying().(*types.Struct)
					return st.Field(x.Field).Name(), idx
				}
				v = x.X
			default:
				return "", nil
			}
		}
		return "", nil
	}
	reads := map[string]bool{}
	for _, name := range []string{"sm3.(*SM3).Write", "sm3.(*SM3).checkSum", "sm3.(*SM3).cf"} {
		fn := p.MustFunc(r, name)
		if fn == nil {
			return
		}
		recv := fn.Params[0]
		for _, b := range fn.Blocks {
			for _, in := range b.Instrs {
				switch x := in.(type) {
				case *ssa.UnOp:
					if x.Op == token.MUL {
						if f, _ := fieldOf(x.X, recv); f != "" {
							reads[f] = true
						}
					}
				case *ssa.Call:
					for _, a := range x.Call.Args {
						if f, _ := fieldOf(a, recv); f != "" {
							reads[f] = true
						}
					}
				case *ssa.Slice:
					if f, _ := fieldOf(x, recv); f != "" {
						reads[f] = true
					}
				}
			}
		}
	}
	fn := p.MustFunc(r, "sm3.(*SM3).Reset")
	if fn == nil {
		return
	}
	recv := fn.Params[0]
	writes := map[string]map[string]bool{}
	for _, b := range fn.Blocks {
		for _, in := range b.Instrs {
			if st, ok := in.(*ssa.Store); ok {
				if f, idx := fieldOf(st.Addr, recv); f != "" {
					if writes[f] == nil {
						writes[f] = map[string]bool{}
					}
					k := "*"
					if idx != nil {
						if c, ok := idx.(*ssa.Const); ok {
							k = c.Value.String()
						} else {
							k = "?"
						}
					}
					writes[f][k] = true
				}
			}
		}
	}
	var names []string
	for f := range reads {
		names = append(names, f)
	}
	sort.Strings(names)
	for _, f := range names {
		r.Count("sm3_fields", 1)
		key := "sm3.(*SM3).Reset re-initialises field " + f
		if f == "x" {
			r.Ok("RESET-COMPLETE", key, p.Pos(fn.Pos()), "exception: stale bytes of the block buffer are unobservable because nx = 0 bounds the valid prefix")
			continue
		}
		ok := len(writes[f]) > 0
		detail := fmt.Sprintf("stores: %v", keysOf(writes[f]))
		if f == "h" {
			for i := 0; i < 8; i++ {
				if !writes[f][fmt.Sprint(i)] {
					ok = false
				}
			}
		}
		r.Check(ok, "RESET-COMPLETE", key, p.Pos(fn.Pos()), detail)
	}
}

// c04PadSplit decides the padding split of checkSum by evaluating its branch condition and fill lengths over nx in [1,64].
func c04PadSplit(r *Report, p *Prog) {
	fn := p.MustFunc(r, "sm3.(*SM3).checkSum")
	if fn == nil {
		return
	}
	env := NewLinEnv(p, fn)
	recv := fn.Params[0]
	nxKey := "*" + recv.Name() + ".nx"
	var split *ssa.If
	for _, b := range fn.Blocks {
		iff, ok := b.Instrs[len(b.Instrs)-1].(*ssa.If)
		if !ok {
			continue
		}
		bo, ok := iff.Cond.(*ssa.BinOp)
		if !ok {
			continue
		}
		l := env.Int(bo.X).Sub(env.Int(bo.Y))
		if len(l.T) == 1 && (l.T[nxKey] == 1 || l.T[nxKey] == -1) {
			split = iff
			break
		}
	}
	key := "sm3.(*SM3).checkSum"
	if split == nil {
		r.Undecided("PAD-SPLIT", key, p.Pos(fn.Pos()), "no branch comparing the buffered count with a constant found")
		return
	}
	pos := p.InstrPos(split)
	bo := split.Cond.(*ssa.BinOp)
	evalCond := func(v int64) bool {
		x := env.Int(bo.X)
		y := env.Int(bo.Y)
		xv := x.C + x.T[nxKey]*v
		yv := y.C + y.T[nxKey]*v
		switch bo.Op {
		case token.LSS:
			return xv < yv
		case token.LEQ:
			return xv <= yv
		case token.GTR:
			return xv > yv
		case token.GEQ:
			return xv >= yv
		case token.EQL:
			return xv == yv
		case token.NEQ:
			return xv != yv
		}
		return false
	}
	// fill length on each arm: the argument of the Write call in that arm
	fill := func(b *ssa.BasicBlock) *Lin {
		for _, in := range b.Instrs {
			if call, ok := in.(*ssa.Call); ok {
				if cal := call.Call.StaticCallee(); cal != nil && cal.Name() == "Write" && len(call.Call.Args) == 2 {
					if ls, ok := env.Len(call.Call.Args[1]); ok && len(ls) == 1 {
						return ls[0]
					}
				}
			}
		}
		return nil
	}
	blk := split.Block()
	fT, fF := fill(blk.Succs[0]), fill(blk.Succs[1])
	if fT == nil || fF == nil {
		r.Undecided("PAD-SPLIT", key, pos, "cannot find the zero-fill Write on both arms of the split")
		return
	}
	bad := ""
	for v := int64(1); v <= 64; v++ { // buffered count after the 0x80 byte
		takeT := evalCond(v)
		f := fF
		if takeT {
			f = fT
		}
		n := f.C + f.T[nxKey]*v
		if len(f.T) != 1 && !(len(f.T) == 0) {
			bad = "fill length is not a function of the buffered count: " + f.String()
			break
		}
		// standard: pad with zeros so that the count becomes 56 mod 64 with the least number of bytes: one block iff v <= 56
		var want int64
		if v <= 56 {
			want = 56 - v
		} else {
			want = 64 - v + 56
		}
		if n != want {
			bad = fmt.Sprintf("with %d bytes buffered after the 0x80 byte the code writes %d zero bytes, the standard padding needs %d (condition %s)", v, n, want, condString(split.Cond))
			break
		}
	}
	r.Check(bad == "", "PAD-SPLIT", key, pos, "for every buffered count 1..64 the zero fill is the minimal one landing on 56 mod 64"+ifs(bad != "", ": "+bad))
	// the length field goes to x[56:64] and one final compression follows
	okLen := false
	okCf := false
	for _, b := range fn.Blocks {
		for _, in := range b.Instrs {
			call, ok := in.(*ssa.Call)
			if !ok {
				continue
			}
			cal := call.Call.StaticCallee()
			if cal == nil {
				continue
			}
			if strings.HasSuffix(cal.String(), "bigEndian).PutUint64") {
				if sl, ok := call.Call.Args[1].(*ssa.Slice); ok && sl.Low != nil {
					lo := env.Int(sl.Low)
					if lo.IsConst() && lo.C == 56 {
						// value must be len << 3
						v := env.Int(call.Call.Args[2])
						if len(v.T) == 1 {
							for _, coef := range v.T {
								okLen = coef == 8
							}
						}
					}
				}
			}
			if cal.Name() == "cf" && okLen {
				okCf = true
			}
		}
	}
	r.Check(okLen && okCf, "PAD-LENGTH", key, p.Pos(fn.Pos()), "the 64-bit big-endian bit length (byte length * 8) is stored at x[56:64] and followed by a compression")
}
