package main

import (
	"fmt"
	"go/token"
	"go/types"
	"sort"
	"strings"

	"golang.org/x/tools/go/ssa"
)

func init() { register("C04", "other", checkC04) }

func isNilConst(v ssa.Value) bool {
	c, ok := v.(*ssa.Const)
	return ok && c.IsNil()
}

func checkC04(c *Ctx, r *Report) {
	r.Explanation = "Decided by an inductive argument over histories, each step by interpretation of the function in the stream domain (symbolic lengths, buffer contents resolved from the effect log, loops over the input accelerated with an inductive step, every comparison decided by the LP over the path condition; the compression function cf is a black box that consumes one 64-byte block and advances a chaining value). Invariant Inv(s,S): s.x[0:s.nx] are the last |S| mod 64 bytes of the stream S written since Reset, 0 <= s.nx <= 63, s.len = |S|, s.h is the chaining value after the whole blocks of S. (1) RESET-STATE: Reset (and New on a fresh value) establishes Inv(s, empty) with the standard initial value. (2) WRITE-INVARIANT / WRITE-RESULT: from Inv(s,S), on every path Write(data) compresses the 64-byte blocks of pending || data in stream order exactly once on the receiver's chaining value, keeps the unprocessed tail in x[0:nx'] with 0 <= nx' <= 63, adds len(data) to len, writes nothing else, and returns (len(data), nil): Inv(s, S || data). (3) SUM-PADDING / SUM-RESULT / SUM-RECEIVER-UNCHANGED: from Inv(s,S), Sum(in) compresses on a copy of the chaining value exactly pending || 0x80 || 0^z || be64(8*len) (one block when nx <= 55, two otherwise), returns in followed by the big-endian words of the resulting chaining value, and leaves every field of the receiver as it was, so the history can continue. (4) ONE-SHOT: SumSM3(data) compresses from the standard initial value the blocks of data in order, then tail || 0x80 || zeros || be64(8*len(data)), and returns the words of the final chaining value. Together: every Write/Sum/Reset history yields in || H(pad(S)) where H iterates cf from the standard IV. NOT decided: that cf is the GB/T 32905 compression function (round constants are checked under C18; the round function itself is not), and overflow of the 64-bit byte counter."
	r.Trusted = []string{"go/ssa", "the LP decision procedure for path conditions (exact rational simplex with integer rounding)", "cf(block) reads exactly block[0:64] and changes only the receiver's chaining value (its own slice bounds are obligations here; its round function is not decided)", "GB/T 32905 padding rule and initial value", "encoding/binary.BigEndian.PutUint32/PutUint64 store the big-endian bytes of their argument"}
	p, err := LoadRepo(c.Repo, "amd64")
	if err != nil {
		r.Fatalf("%v", err)
		return
	}
	c04ResetNew(r, p)
	c04WriteInvariant(r, p)
	c04Sum(r, p)
	c04OneShot(r, p)
	c04CfContract(r, p)
	r.Floor("write_outcomes", 4)
	r.Floor("sum_outcomes", 2)
	r.Floor("oneshot_outcomes", 4)
	r.Floor("stream_obligations", 50)
}

// c04CfContract: the compression function is used as a black box (block, chaining value) -> chaining value. That view is
// justified structurally: cf and its callees touch no field of the receiver other than h, and never write the block.
func c04CfContract(r *Report, p *Prog) {
	fn := sm3CompressFn(p)
	if fn == nil {
		r.Viol("CF-CONTRACT", "sm3 compression function", "sm3/", "no unique unexported method of *SM3 that takes one byte slice, returns nothing and touches only the chaining value h")
		return
	}
	pos := p.Pos(fn.Pos())
	e := NewEffects(p, map[string]map[int]bool{})
	e.Run()
	if sum := e.sum[fn]; sum != nil && len(fn.Params) == 2 {
		r.Check(!sum.writesParam[1], "CF-CONTRACT", "the compression function does not write its block", pos, "the block parameter is never in a may-write position (effect analysis over cf and its callees)")
	} else {
		r.Viol("CF-CONTRACT", "the compression function does not write its block", pos, "no effect summary for cf")
	}
	var bad []string
	fields := map[string]bool{}
	seen := map[*ssa.Function]bool{}
	var walk func(f *ssa.Function, recv map[ssa.Value]bool)
	walk = func(f *ssa.Function, recv map[ssa.Value]bool) {
		if seen[f] {
			return
		}
		seen[f] = true
		for _, b := range f.Blocks {
			for _, in := range b.Instrs {
				switch x := in.(type) {
				case *ssa.FieldAddr:
					if recv[x.X] {
						name := x.X.Type().Underlying().(*types.Pointer).Elem().Underlying().(*types.Struct).Field(x.Field).Name()
						name = p.canonField("SM3", name, nil) // the chaining value, whatever the field is called
						fields[name] = true
						if name != "h" {
							bad = append(bad, fmt.Sprintf("field %s of the hash state is accessed at %s", name, p.InstrPos(x)))
						}
					}
				case *ssa.Call:
					for i, a := range x.Call.Args {
						if !recv[a] {
							continue
						}
						cal := x.Call.StaticCallee()
						if cal == nil || len(cal.Blocks) == 0 || i >= len(cal.Params) {
							bad = append(bad, "the hash state is passed to an unknown callee at "+p.InstrPos(x))
							continue
						}
						walk(cal, map[ssa.Value]bool{cal.Params[i]: true})
					}
				case *ssa.Store:
					if recv[x.Val] {
						bad = append(bad, "the hash state pointer is stored at "+p.InstrPos(x))
					}
				case *ssa.UnOp:
					if recv[x.X] && x.Op == token.MUL {
						bad = append(bad, "the whole hash state is copied at "+p.InstrPos(x))
					}
				case *ssa.Phi:
					for _, ed := range x.Edges {
						if recv[ed] {
							recv[x] = true
						}
					}
				}
			}
		}
	}
	if len(fn.Params) > 0 {
		walk(fn, map[ssa.Value]bool{fn.Params[0]: true})
	}
	sort.Strings(bad)
	r.Check(len(bad) == 0 && fields["h"], "CF-CONTRACT", "the compression function depends on the chaining value only", pos, fmt.Sprintf("cf and its callees (%d functions) access no field of the hash state other than h", len(seen))+ifs(len(bad) > 0, ": "+strings.Join(firstN(bad, 3), "; ")))
}
