package main

// Protocol domain for the state-set interpreter (checker/sched.go): the SM2 entry points (sign, verify, key generation, ZA)
// are followed path by path with
//   - byte strings, integers and points as symbolic terms (parameters, big-endian values, modular residues, hash outputs,
//     scalar multiples),
//   - math/big, crypto/subtle, io.ReadFull, the SM3 hash object and the sm2/internal layer summarised by their contracts,
//   - the path condition as linear facts over integer-valued terms, decided by the exact LP of checker/lp.go.
// The rules of C01/C02/C03/C12/C13/C19 are stated on the outcomes (return values + path condition) instead of on the
// spelling of the source, so that helper extraction, reordered guards and equivalent idioms do not matter.

import (
	"fmt"
	"go/token"
	"go/types"
	"math/big"
	"sort"
	"strings"

	"crypto/sha256"
	"golang.org/x/tools/go/ssa"
	"io"
	"sync"
)

// ---------- terms ----------

type pt struct {
	op string // int: "c" const, "N", "P", "B256", "val", "len", "add", "mul", "mod", "inv", "affx", "affy", "cmp", "ctcmp", "eqb", "drawn"
	// bytes: "param", "be", "minbe", "cat", "sm3", "draw", "lit", "sub"
	// point: "decode", "base", "mixed"
	args []*pt
	n    *big.Int
	s    string
	k    int // byte length for "be"/"lit"/"draw", slice start for "sub" (end in n)
}

func (t *pt) String() string {
	if t == nil {
		return "<nil>"
	}
	switch t.op {
	case "c":
		return t.n.String()
	case "N", "P", "B", "B256", "B248", "Gx", "Gy":
		return t.op
	case "param", "draw", "asmret":
		return t.s
	case "needexp":
		return "needExpand" + t.s
	case "lit":
		return "lit(" + t.s + ")"
	}
	var as []string
	for _, a := range t.args {
		as = append(as, a.String())
	}
	extra := ""
	if t.op == "be" {
		extra = fmt.Sprintf(",%d", t.k)
	}
	if t.op == "sub" {
		extra = fmt.Sprintf(",%d,%d", t.k, t.n.Int64())
	}
	if t.op == "byte" || t.op == "trunc" || t.op == "quo" || t.op == "rem" || t.op == "brw" || t.op == "nzw" {
		extra = fmt.Sprintf(",%d", t.k)
	}
	if t.op == "ld" {
		extra = fmt.Sprintf(",obj%d,@%s", t.k, t.n)
	}
	return t.op + "(" + strings.Join(as, ",") + extra + ")"
}

func pC(v int64) *pt              { return &pt{op: "c", n: big.NewInt(v)} }
func pSym(op string) *pt          { return &pt{op: op} }
func pOp(op string, a ...*pt) *pt { return &pt{op: op, args: a} }
func pParam(name string) *pt      { return &pt{op: "param", s: name} }
func pBe(v *pt, n int) *pt {
	// the fixed-width encoding of the value of an n-byte string is that string
	if v.op == "val" && len(v.args) == 1 {
		if b := v.args[0]; b.op == "sub" && b.n != nil && int(b.n.Int64())-b.k == n {
			return b
		}
	}
	return &pt{op: "be", args: []*pt{v}, k: n}
}
func pSub(b *pt, lo, hi int) *pt {
	if b.op == "sub" {
		return pSub(b.args[0], b.k+lo, b.k+hi) // a slice of a slice is a slice of the original
	}
	return &pt{op: "sub", args: []*pt{b}, k: lo, n: big.NewInt(int64(hi))}
}
func pLit(bytes []byte) *pt { return &pt{op: "lit", s: fmt.Sprintf("%x", bytes), k: len(bytes)} }
func pAdd(a, b *pt) *pt {
	if a.op == "c" && b.op == "c" {
		return &pt{op: "c", n: new(big.Int).Add(a.n, b.n)}
	}
	if a.op == "c" && a.n.Sign() == 0 {
		return b
	}
	if b.op == "c" && b.n.Sign() == 0 {
		return a
	}
	if b.op != "c" && (a.op == "c" || a.String() > b.String()) {
		a, b = b, a // canonical order: constants last, otherwise by text
	}
	return pOp("add", a, b)
}
func pNeg(a *pt) *pt { return pMul(pC(-1), a) }
func pMul(a, b *pt) *pt {
	if a.op == "c" && b.op == "c" {
		return &pt{op: "c", n: new(big.Int).Mul(a.n, b.n)}
	}
	if a.op == "c" && a.n.Cmp(big.NewInt(1)) == 0 {
		return b
	}
	if b.op == "c" && b.n.Cmp(big.NewInt(1)) == 0 {
		return a
	}
	if a.op != "c" && (b.op == "c" || a.String() > b.String()) {
		a, b = b, a // canonical order: constants first, otherwise by text
	}
	return pOp("mul", a, b)
}

// value of a byte string as a big-endian integer
func pVal(b *pt) *pt {
	switch b.op {
	case "be", "minbe":
		return b.args[0]
	case "lit":
		v, _ := new(big.Int).SetString("0"+b.s, 16)
		if t := symbolise(v); t != nil {
			return t
		}
		return &pt{op: "c", n: v}
	case "zeros":
		return pC(0)
	}
	return pOp("val", b)
}

// known byte length of a byte-string term (-1 unknown)
func pLen(b *pt) int {
	switch b.op {
	case "be", "lit", "draw":
		return b.k
	case "sm3":
		return 32
	case "param":
		if b.s == "zBytes" {
			return 128 // the parameter block a || b || Gx || Gy of internal.GetZBytes (decided by C13 PARAMETER-BLOCK)
		}
	case "minbe":
		if isFullWidth(b.args[0], 32) {
			return 32
		}
	case "sub":
		return int(b.n.Int64()) - b.k
	case "cat":
		n := 0
		for _, a := range b.args {
			l := pLen(a)
			if l < 0 {
				return -1
			}
			n += l
		}
		return n
	}
	return -1
}

// ---------- protocol values in the interpreter ----------

type pInt struct{ t *pt } // symbolic integer
type pBytes struct {      // byte string value (slice or array contents)
	t *pt
}
type pCond struct { // symbolic boolean: a OP b
	a, b *pt
	op   token.Token
	neg  bool
	raw  string // opaque predicate name when a == nil
}
type pErr struct{ nonnil bool }
type pObj struct{ id int } // *big.Int, hash object, point, element (heap objects of kind hProto)

type hProto struct {
	kind  string // "big", "hash", "point", "elem", "scalar"
	t     *pt    // big: integer term; point: point term; elem/scalar: integer term
	parts []*pt  // hash: written byte strings
	set   bool
}

type byteCell struct { // one byte of a local buffer
	src *pt // byte string term it comes from (nil: constant)
	idx int
	c   byte
}

type pFact struct {
	a, b *pt
	op   token.Token // a OP b
	raw  string      // opaque predicate (a == nil): name
	val  bool        // truth of the opaque predicate
}

func (f pFact) String() string {
	if f.a == nil {
		return fmt.Sprintf("%s=%v", f.raw, f.val)
	}
	return f.a.String() + " " + f.op.String() + " " + f.b.String()
}

// ---------- linearisation ----------

type protoLin struct{ atoms map[string]bool }

func (pl *protoLin) lin(t *pt) *Lin {
	switch t.op {
	case "c":
		if t.n.IsInt64() {
			return linConst(t.n.Int64())
		}
	case "add":
		return pl.lin(t.args[0]).Add(pl.lin(t.args[1]))
	case "mul":
		if t.args[0].op == "c" && t.args[0].n.IsInt64() {
			return pl.lin(t.args[1]).Scale(t.args[0].n.Int64())
		}
		if t.args[1].op == "c" && t.args[1].n.IsInt64() {
			return pl.lin(t.args[0]).Scale(t.args[1].n.Int64())
		}
	}
	k := t.String()
	return linTerm(k, false)
}

// domain facts about the atoms that occur: non-negativity, residues below N, lengths, constants
func domainFacts(terms []*pt) []Fact {
	var out []Fact
	seen := map[string]bool{}
	pl := &protoLin{}
	var visit func(t *pt)
	visit = func(t *pt) {
		if t == nil {
			return
		}
		for _, a := range t.args {
			visit(a)
		}
		k := t.String()
		if seen[k] {
			return
		}
		seen[k] = true
		self := linTerm(k, false)
		N := linTerm("N", false)
		switch t.op {
		case "val":
			out = append(out, Fact{E: self})
			if n := pLen(t.args[0]); n >= 0 && n <= 32 {
				if n == 32 {
					out = append(out, Fact{E: linTerm("B256", false).Sub(self).Sub(linConst(1))})
				}
			}
		case "len":
			out = append(out, Fact{E: self})
		case "cap":
			out = append(out, Fact{E: self}, Fact{E: self.Sub(linTerm(pOp("len", t.args[0]).String(), false))})
		case "needexp", "asmret":
			out = append(out, Fact{E: self}, Fact{E: linConst(1).Sub(self)})
		case "or":
			// at least each operand; at most 255 when every operand is a byte
			out = append(out, Fact{E: self})
			allBytes := true
			for _, a := range t.args {
				out = append(out, Fact{E: self.Sub(pl.lin(a))})
				if a.op != "byte" {
					allBytes = false
				}
			}
			if allBytes {
				out = append(out, Fact{E: linConst(255).Sub(self)})
			}
			// at most the sum of the operands (they are non-negative)
			sum := linConst(0)
			for _, a := range t.args {
				sum = sum.Add(pl.lin(a))
			}
			out = append(out, Fact{E: sum.Sub(self)})
		case "brw":
			out = append(out, Fact{E: self}, Fact{E: linConst(1).Sub(self)})
		case "nzw":
			out = append(out, Fact{E: self})
		case "rem":
			out = append(out, Fact{E: self}, Fact{E: linConst(int64(1)<<uint(t.k) - 1).Sub(self)})
		case "quo":
			// x == 2^m * quo + rem
			r := linTerm((&pt{op: "rem", args: t.args, k: t.k}).String(), false)
			x := pl.lin(t.args[0])
			e := x.Sub(self.Scale(int64(1) << uint(t.k))).Sub(r)
			out = append(out, Fact{E: e}, Fact{E: e.Scale(-1)}, Fact{E: r}, Fact{E: linConst(int64(1)<<uint(t.k) - 1).Sub(r)})
		case "byte":
			out = append(out, Fact{E: self}, Fact{E: linConst(255).Sub(self)})
			// the value of a string is at least each of its bytes
			out = append(out, Fact{E: pl.lin(pVal(t.args[0])).Sub(self)})
		case "mod", "inv":
			out = append(out, Fact{E: self}, Fact{E: N.Sub(self).Sub(linConst(1))})
		case "modP":
			out = append(out, Fact{E: self}, Fact{E: linTerm("P", false).Sub(self).Sub(linConst(1))})
		case "affx", "affy":
			out = append(out, Fact{E: self}, Fact{E: linTerm("P", false).Sub(self).Sub(linConst(1))})
		case "B", "Gx", "Gy":
			// parameters of the curve literal are field elements (checked numerically where the symbols are introduced)
			out = append(out, Fact{E: self}, Fact{E: linTerm("P", false).Sub(self).Sub(linConst(1))})
		case "N":
			// 2^255 < N < P < 2^256 ; N has 32 bytes
			out = append(out, Fact{E: self.Sub(linTerm("B248", false).Scale(2))}, Fact{E: linTerm("P", false).Sub(self).Sub(linConst(1))}, Fact{E: linTerm("B256", false).Sub(linTerm("P", false)).Sub(linConst(1))}, Fact{E: linTerm("B248", false).Sub(linConst(1 << 40))})
		}
		_ = pl
	}
	for _, t := range terms {
		visit(t)
	}
	visit(pSym("N"))
	return out
}

// proveFacts: do the path facts imply goal (a OP b)? Integer reasoning: strict inequalities are +-1, disequalities combine
// with a one-sided bound.
// proveP answers are memoised per (set of facts, goal): the interpreter asks the same question many times while it
// normalises nested terms, and every answer costs several exact LP runs.
var provePMemo sync.Map

func proveP(facts []pFact, a *pt, op token.Token, b *pt) bool {
	if rangeProves(a, op, b) {
		return true
	}
	h := sha256.New()
	for _, f := range facts {
		if f.a == nil {
			continue
		}
		io.WriteString(h, f.String())
		h.Write([]byte{0})
	}
	io.WriteString(h, "|"+a.String()+" "+op.String()+" "+b.String())
	var key [32]byte
	copy(key[:], h.Sum(nil))
	if v, ok := provePMemo.Load(key); ok {
		return v.(bool)
	}
	r := provePUncached(facts, a, op, b)
	provePMemo.Store(key, r)
	return r
}

func provePUncached(facts []pFact, a *pt, op token.Token, b *pt) bool {
	pl := &protoLin{}
	var lf []Fact
	terms := []*pt{a, b}
	type ne struct{ e *Lin }
	var nes []ne
	for _, f := range facts {
		if f.a == nil {
			continue
		}
		terms = append(terms, f.a, f.b)
		d := pl.lin(f.a).Sub(pl.lin(f.b)) // a - b
		switch f.op {
		case token.GEQ:
			lf = append(lf, Fact{E: d})
		case token.GTR:
			lf = append(lf, Fact{E: d.Sub(linConst(1))})
		case token.LEQ:
			lf = append(lf, Fact{E: d.Scale(-1)})
		case token.LSS:
			lf = append(lf, Fact{E: d.Scale(-1).Sub(linConst(1))})
		case token.EQL:
			lf = append(lf, Fact{E: d}, Fact{E: d.Scale(-1)})
		case token.NEQ:
			nes = append(nes, ne{d})
		}
	}
	lf = append(lf, domainFacts(terms)...)
	// every atom is an integer: a constraint whose coefficients share a factor g is tightened to the integer hull
	// (sum a_i t_i + C >= 0 with g | a_i  =>  sum (a_i/g) t_i + floor(C/g) >= 0)
	for i, f := range lf {
		lf[i] = Fact{E: intTighten(f.E)}
	}
	// a quotient of a non-negative value is non-negative
	{
		seen := map[string]bool{}
		var visit func(t *pt)
		visit = func(t *pt) {
			if t == nil {
				return
			}
			for _, x := range t.args {
				visit(x)
			}
			isCounter := t.op == "param" && len(t.s) > 1 && t.s[0] == 'k' && t.s[1] >= '0' && t.s[1] <= '9'
			if (t.op == "quo" || isCounter) && !seen[t.String()] {
				seen[t.String()] = true
				self := linTerm(t.String(), false)
				if t.op == "quo" && ProveNonNeg(pl.lin(t.args[0]), lf) {
					lf = append(lf, Fact{E: self})
				}
				// integer rounding of derived bounds on quotients and loop counters: t > c - 1 implies t >= c
				for c := int64(1); c <= 2; c++ {
					if ProveNonNeg(self.Scale(64).Sub(linConst(64*c-63)), lf) {
						lf = append(lf, Fact{E: self.Sub(linConst(c))})
					}
				}
				for c := int64(0); c <= 2; c++ {
					if ProveNonNeg(linConst(64*c+63).Sub(self.Scale(64)), lf) {
						lf = append(lf, Fact{E: linConst(c).Sub(self)})
					}
				}
			}
		}
		for _, t := range terms {
			visit(t)
		}
	}
	for outer := 0; outer < 2; outer++ {
		// disequalities: x != 0 and x >= 0  =>  x >= 1
		for round := 0; round < 2; round++ {
			for _, x := range nes {
				if ProveNonNeg(x.e, lf) {
					lf = append(lf, Fact{E: intTighten(x.e.Sub(linConst(1)))})
				} else if ProveNonNeg(x.e.Scale(-1), lf) {
					lf = append(lf, Fact{E: intTighten(x.e.Scale(-1).Sub(linConst(1)))})
				}
			}
		}
		// a string of at most 31 bytes has a value below 2^248
		{
			seen := map[string]bool{}
			var visit func(t *pt)
			visit = func(t *pt) {
				if t == nil {
					return
				}
				for _, x := range t.args {
					visit(x)
				}
				if t.op == "val" && !seen[t.String()] {
					seen[t.String()] = true
					if ProveNonNeg(linTerm(pOp("len", t.args[0]).String(), false).Scale(-1), lf) {
						// the empty string has value 0
						lf = append(lf, Fact{E: linTerm(t.String(), false).Scale(-1)})
					}
					// a string all of whose bytes are zero has value 0 (a byte-by-byte zero test)
					{
						X := t.args[0].String()
						idx := map[int]*pt{}
						max := -1
						var collect func(u *pt)
						collect = func(u *pt) {
							if u == nil {
								return
							}
							if u.op == "byte" && len(u.args) == 1 && u.args[0].String() == X {
								idx[u.k] = u
								if u.k > max {
									max = u.k
								}
							}
							for _, x := range u.args {
								collect(x)
							}
						}
						for _, u := range terms {
							collect(u)
						}
						if max >= 0 && len(idx) == max+1 {
							// the zero bytes are read off the facts (byte == 0, byte <= 0, byte < 1), no LP needed
							isZero := func(u *pt) bool {
								us := u.String()
								for _, f := range facts {
									if f.a == nil {
										continue
									}
									x, y, op := f.a, f.b, f.op
									if y.String() == us {
										x, y = y, x
										op = map[token.Token]token.Token{token.EQL: token.EQL, token.GEQ: token.LEQ, token.GTR: token.LSS, token.LEQ: token.GEQ, token.LSS: token.GTR, token.NEQ: token.NEQ}[op]
									}
									if x.String() != us || y.op != "c" {
										continue
									}
									if (op == token.EQL || op == token.LEQ) && y.n.Sign() == 0 {
										return true
									}
									if op == token.LSS && y.n.Cmp(big.NewInt(1)) == 0 {
										return true
									}
								}
								return false
							}
							all := true
							for i := 0; i <= max && all; i++ {
								all = isZero(idx[i])
							}
							if all {
								short := false
								if n := pLen(t.args[0]); n >= 0 {
									short = n <= max+1
								} else {
									short = ProveNonNeg(linConst(int64(max+1)).Sub(linTerm(pOp("len", t.args[0]).String(), false)), lf)
								}
								if short {
									lf = append(lf, Fact{E: linTerm(t.String(), false).Scale(-1)})
								}
							}
						}
					}
					if ProveNonNeg(linConst(31).Sub(linTerm(pOp("len", t.args[0]).String(), false)), lf) {
						lf = append(lf, Fact{E: linTerm("B248", false).Sub(linTerm(t.String(), false)).Sub(linConst(1))})
					} else if ProveNonNeg(linConst(32).Sub(linTerm(pOp("len", t.args[0]).String(), false)), lf) {
						lf = append(lf, Fact{E: linTerm("B256", false).Sub(linTerm(t.String(), false)).Sub(linConst(1))})
					}
				}
			}
			for _, t := range terms {
				visit(t)
			}
		}
	}
	d := pl.lin(a).Sub(pl.lin(b))
	switch op {
	case token.GEQ:
		return ProveNonNeg(d, lf)
	case token.GTR:
		return ProveNonNeg(d.Sub(linConst(1)), lf)
	case token.LEQ:
		return ProveNonNeg(d.Scale(-1), lf)
	case token.LSS:
		return ProveNonNeg(d.Scale(-1).Sub(linConst(1)), lf)
	case token.EQL:
		return ProveNonNeg(d, lf) && ProveNonNeg(d.Scale(-1), lf)
	case token.NEQ:
		if ProveNonNeg(d.Sub(linConst(1)), lf) || ProveNonNeg(d.Scale(-1).Sub(linConst(1)), lf) {
			return true
		}
		for _, x := range nes {
			if x.e.Equal(d) || x.e.Equal(d.Scale(-1)) {
				return true
			}
		}
	}
	return false
}

// ---------- sparse polynomials over term atoms (for the signature equation) ----------

type spoly map[string]*big.Int // monomial "a*b*c" (sorted atoms) -> coefficient ; "" constant

func spConst(c int64) spoly { return spoly{"": big.NewInt(c)} }
func spAtom(a string) spoly { return spoly{a: big.NewInt(1)} }
func (p spoly) add(q spoly, k int64) spoly {
	out := spoly{}
	for m, c := range p {
		out[m] = new(big.Int).Set(c)
	}
	for m, c := range q {
		v := new(big.Int).Mul(c, big.NewInt(k))
		if o, ok := out[m]; ok {
			v.Add(v, o)
		}
		if v.Sign() == 0 {
			delete(out, m)
		} else {
			out[m] = v
		}
	}
	return out
}
func (p spoly) mul(q spoly) spoly {
	out := spoly{}
	for m1, c1 := range p {
		for m2, c2 := range q {
			var as []string
			if m1 != "" {
				as = append(as, strings.Split(m1, "*")...)
			}
			if m2 != "" {
				as = append(as, strings.Split(m2, "*")...)
			}
			sort.Strings(as)
			m := strings.Join(as, "*")
			v := new(big.Int).Mul(c1, c2)
			if o, ok := out[m]; ok {
				v.Add(v, o)
			}
			if v.Sign() == 0 {
				delete(out, m)
			} else {
				out[m] = v
			}
		}
	}
	return out
}

// polyOf: polynomial of an integer term modulo N: residues ("mod") are transparent, N is zero
func polyOf(t *pt) spoly {
	switch t.op {
	case "c":
		return spoly{"": new(big.Int).Set(t.n)}.add(spoly{}, 1)
	case "N":
		return spoly{}
	case "add":
		return polyOf(t.args[0]).add(polyOf(t.args[1]), 1)
	case "mul":
		return polyOf(t.args[0]).mul(polyOf(t.args[1]))
	case "mod":
		return polyOf(t.args[0])
	}
	return spAtom(strings.ReplaceAll(t.String(), "*", "x"))
}

// ---------- interpreter hooks ----------

type protoDom struct {
	e               *sched
	draws           int
	globals         map[string]func(st *sState) sVal
	notes           []string
	gLocals         int
	tpkCalls        int
	stream          bool // stream domain (package sm3): mutable fields, struct copies, loop acceleration
	loopVars        int
	structPoints    bool              // decoder mode: SM2Point values are ordinary structs of three elements
	readHelpers     map[string]string // hand-written full reads of the random source that were used by contract (readhelper.go)
	readHelperShape bool
	glue            bool // glue mode: slices are symbolic shapes (checker/glue.go)
	contracts       map[string]*xContract
	gOK             map[string]int
	gBad            map[string][]string
}

func (st *sState) addFact(f pFact) { st.pfacts = append(st.pfacts, f) }

func isProtoInt(v sVal) (*pt, bool) {
	switch x := v.(type) {
	case pInt:
		return x.t, true
	case sInt:
		return &pt{op: "c", n: x.v}, true
	}
	return nil, false
}

// binop on protocol integers
func (d *protoDom) binop(st *sState, x *ssa.BinOp, a, b sVal) (sVal, bool) {
	if x.Op == token.OR {
		// bytes of a buffer folded into an accumulator
		conv := func(v sVal) sVal {
			if bc, ok := v.(byteCell); ok {
				if bc.src.op == "lsb" && bc.idx == 0 {
					return pInt{&pt{op: "trunc", args: []*pt{bc.src.args[0]}, k: 8}}
				}
				return pInt{byteTerm(bc.src, bc.idx)}
			}
			return v
		}
		a, b = conv(a), conv(b)
	}
	ta, oka := isProtoInt(a)
	tb, okb := isProtoInt(b)
	_, pa := a.(pInt)
	_, pb := b.(pInt)
	if !oka || !okb || (!pa && !pb) {
		return nil, false
	}
	if d.stream {
		if v, ok := d.streamBinop(x, a, b); ok {
			return v, true
		}
	}
	switch x.Op {
	case token.ADD:
		return pInt{pAdd(ta, tb)}, true
	case token.SUB:
		return pInt{pAdd(ta, pNeg(tb))}, true
	case token.MUL:
		return pInt{pMul(ta, tb)}, true
	case token.OR:
		// bitwise OR of byte-sized values: an n-ary term (used by zero tests that fold all bytes of a string)
		var parts []*pt
		for _, t := range []*pt{ta, tb} {
			switch {
			case t.op == "or":
				parts = append(parts, t.args...)
			case t.op == "c" && t.n.Sign() == 0:
			default:
				parts = append(parts, t)
			}
		}
		if len(parts) == 0 {
			return sInt{new(big.Int)}, true
		}
		if len(parts) == 1 {
			return pInt{parts[0]}, true
		}
		return pInt{&pt{op: "or", args: parts}}, true
	case token.SHL:
		if tb.op == "c" && tb.n.IsInt64() && tb.n.Int64() < 62 {
			return pInt{pMul(pC(1<<uint(tb.n.Int64())), ta)}, true
		}
	case token.EQL, token.NEQ, token.LSS, token.LEQ, token.GTR, token.GEQ:
		// comparison results of three-way compares are folded: cmp(x,y) OP c
		if ta.op == "cmp" || ta.op == "ctcmp" {
			if c, ok := cmp3(ta, x.Op, tb); ok {
				return c, true
			}
		}
		if tb.op == "cmp" || tb.op == "ctcmp" {
			rev := map[token.Token]token.Token{token.EQL: token.EQL, token.NEQ: token.NEQ, token.LSS: token.GTR, token.LEQ: token.GEQ, token.GTR: token.LSS, token.GEQ: token.LEQ}
			if c, ok := cmp3(tb, rev[x.Op], ta); ok {
				return c, true
			}
		}
		if ta.op == "eqb" && tb.op == "c" { // ConstantTimeCompare(...) == 1 / != 0 ...
			if c, ok := eqb2(ta, x.Op, tb); ok {
				return c, true
			}
		}
		if tb.op == "eqb" && ta.op == "c" { // 1 == x.IsZero() (switch 1 { case x.IsZero(): ... })
			rev := map[token.Token]token.Token{token.EQL: token.EQL, token.NEQ: token.NEQ, token.LSS: token.GTR, token.LEQ: token.GEQ, token.GTR: token.LSS, token.GEQ: token.LEQ}
			if c, ok := eqb2(tb, rev[x.Op], ta); ok {
				return c, true
			}
		}
		return pCond{a: ta, b: tb, op: x.Op}, true
	}
	return sOpaque{"unsupported operation on a protocol integer: " + x.Op.String()}, true
}

// cmp3: (x <=> y) OP c with c in {-1,0,1}
func cmp3(t *pt, op token.Token, c *pt) (sVal, bool) {
	if c.op != "c" || !c.n.IsInt64() {
		return nil, false
	}
	x, y := t.args[0], t.args[1]
	k := c.n.Int64()
	mk := func(o token.Token) (sVal, bool) { return pCond{a: x, b: y, op: o}, true }
	switch op {
	case token.EQL:
		switch k {
		case 0:
			return mk(token.EQL)
		case 1:
			return mk(token.GTR)
		case -1:
			return mk(token.LSS)
		}
		return sBool{false}, true
	case token.NEQ:
		switch k {
		case 0:
			return mk(token.NEQ)
		case 1:
			return mk(token.LEQ)
		case -1:
			return mk(token.GEQ)
		}
		return sBool{true}, true
	case token.LSS: // cmp < k
		switch {
		case k <= -1:
			return sBool{false}, true
		case k == 0:
			return mk(token.LSS)
		case k == 1:
			return mk(token.LEQ)
		}
		return sBool{true}, true
	case token.LEQ:
		switch {
		case k < -1:
			return sBool{false}, true
		case k == -1:
			return mk(token.LSS)
		case k == 0:
			return mk(token.LEQ)
		}
		return sBool{true}, true
	case token.GTR:
		switch {
		case k >= 1:
			return sBool{false}, true
		case k == 0:
			return mk(token.GTR)
		case k == -1:
			return mk(token.GEQ)
		}
		return sBool{true}, true
	case token.GEQ:
		switch {
		case k > 1:
			return sBool{false}, true
		case k == 1:
			return mk(token.GTR)
		case k == 0:
			return mk(token.GEQ)
		}
		return sBool{true}, true
	}
	return nil, false
}

// eqb2: eqb(x,y) in {0,1} compared with a constant
func eqb2(t *pt, op token.Token, c *pt) (sVal, bool) {
	if !c.n.IsInt64() {
		return nil, false
	}
	k := c.n.Int64()
	eq := pCond{a: t.args[0], b: t.args[1], op: token.EQL, raw: "bytes"}
	ne := pCond{a: t.args[0], b: t.args[1], op: token.NEQ, raw: "bytes"}
	switch op {
	case token.EQL:
		if k == 1 {
			return eq, true
		}
		if k == 0 {
			return ne, true
		}
		return sBool{false}, true
	case token.NEQ:
		if k == 1 {
			return ne, true
		}
		if k == 0 {
			return eq, true
		}
		return sBool{true}, true
	case token.GTR, token.GEQ:
		if (op == token.GTR && k == 0) || (op == token.GEQ && k == 1) {
			return eq, true
		}
	case token.LSS, token.LEQ:
		if (op == token.LSS && k == 1) || (op == token.LEQ && k == 0) {
			return ne, true
		}
	}
	return nil, false
}

// byte strings: equality of two byte strings as integer facts when the lengths are known to agree
func bytesEqFacts(x, y *pt) (a, b *pt, ok bool) {
	lx, ly := pLen(x), pLen(y)
	if x.op == "minbe" && y.op == "minbe" {
		return x.args[0], y.args[0], true
	}
	if lx >= 0 && lx == ly {
		return pVal(x), pVal(y), true
	}
	// minimal encoding against a fixed-width encoding of a value that fills the width (N has 32 bytes)
	if x.op == "minbe" && y.op == "be" && isFullWidth(y.args[0], y.k) {
		return x.args[0], y.args[0], true
	}
	if y.op == "minbe" && x.op == "be" && isFullWidth(x.args[0], x.k) {
		return x.args[0], y.args[0], true
	}
	return nil, nil, false
}

func isFullWidth(v *pt, n int) bool {
	if n != 32 {
		return false
	}
	switch v.op {
	case "N", "P":
		return true
	case "add": // N - 1
		if (v.args[0].op == "N" || v.args[0].op == "P") && v.args[1].op == "c" && v.args[1].n.IsInt64() && v.args[1].n.Int64() >= -2 && v.args[1].n.Int64() <= 0 {
			return true
		}
	}
	return false
}

func typeIsBigInt(t types.Type) bool {
	if p, ok := t.Underlying().(*types.Pointer); ok {
		if n, ok := p.Elem().(*types.Named); ok {
			return n.Obj().Pkg() != nil && n.Obj().Pkg().Path() == "math/big" && n.Obj().Name() == "Int"
		}
	}
	return false
}

func intTighten(l *Lin) *Lin {
	var g int64
	for _, c := range l.T {
		if c < 0 {
			c = -c
		}
		if c == 0 {
			continue
		}
		if g == 0 {
			g = c
		} else {
			for a, b := g, c; ; {
				if b == 0 {
					g = a
					break
				}
				a, b = b, a%b
			}
		}
	}
	if g <= 1 {
		return l
	}
	out := linConst(0)
	for k, c := range l.T {
		out.T[k] = c / g
		if l.NonNeg[k] {
			out.NonNeg[k] = true
		}
	}
	// floor division of the constant
	q := l.C / g
	if l.C%g != 0 && l.C < 0 {
		q--
	}
	out.C = q
	return out
}

// protoCurve: the numeric values of the resolved curve constants. A literal that spells one of them (the modulus written out
// as bytes, n-1 computed by hand) is the same symbol the specifications speak about.
var protoCurve struct {
	sync.Mutex
	P, N *big.Int
}

func setProtoCurve(P, N *big.Int) {
	protoCurve.Lock()
	protoCurve.P, protoCurve.N = P, N
	protoCurve.Unlock()
}

func symbolise(v *big.Int) *pt {
	protoCurve.Lock()
	P, N := protoCurve.P, protoCurve.N
	protoCurve.Unlock()
	if P == nil || N == nil || v.BitLen() < 200 {
		return nil
	}
	for _, c := range []struct {
		sym string
		n   *big.Int
	}{{"P", P}, {"N", N}} {
		d := new(big.Int).Sub(v, c.n)
		if d.IsInt64() && d.Int64() >= -4 && d.Int64() <= 4 {
			return pAdd(pSym(c.sym), pC(d.Int64()))
		}
	}
	return nil
}
