package main

// Engine G4 helpers: path rules on SSA blocks with dominators (error discipline, must-pass-through, guard inventory).

import (
	"go/token"
	"go/types"
	"strings"

	"golang.org/x/tools/go/ssa"
)

func isErrorType(t types.Type) bool {
	n, ok := t.(*types.Named)
	return ok && n.Obj().Pkg() == nil && n.Obj().Name() == "error"
}

// errNilTest: v is "e != nil" (neq=true) or "e == nil" (neq=false) for an error-typed e; returns e.
func errNilTest(v ssa.Value) (e ssa.Value, neq bool, ok bool) {
	bo, isB := v.(*ssa.BinOp)
	if !isB || (bo.Op != token.NEQ && bo.Op != token.EQL) {
		return nil, false, false
	}
	if isNilConst(bo.Y) && isErrorType(bo.X.Type()) {
		return bo.X, bo.Op == token.NEQ, true
	}
	if isNilConst(bo.X) && isErrorType(bo.Y.Type()) {
		return bo.Y, bo.Op == token.NEQ, true
	}
	return nil, false, false
}

// errorOf returns the error-typed result value(s) of a call (Extract of the tuple, or the call itself).
func errorResults(call ssa.Value) []ssa.Value {
	var out []ssa.Value
	if isErrorType(call.Type()) {
		out = append(out, call)
	}
	if refs := call.Referrers(); refs != nil {
		for _, ref := range *refs {
			if ex, ok := ref.(*ssa.Extract); ok && isErrorType(ex.Type()) {
				out = append(out, ex)
			}
		}
	}
	return out
}

// sameValue: a is b, possibly through a Phi whose other edges are irrelevant constants — conservative: identity only.
func sameValue(a, b ssa.Value) bool { return a == b }

// errGuard describes the test of a call's error result.
type errGuard struct {
	If       *ssa.If
	FailSucc *ssa.BasicBlock
	OkSucc   *ssa.BasicBlock
	Err      ssa.Value
}

// findErrGuard finds the If that tests the error result of call (err != nil / err == nil) in the call's block or a block it dominates directly.
func findErrGuard(call ssa.Instruction) *errGuard {
	v, ok := call.(ssa.Value)
	if !ok {
		return nil
	}
	for _, ev := range errorResults(v) {
		refs := ev.Referrers()
		if refs == nil {
			continue
		}
		for _, ref := range *refs {
			bo, ok := ref.(*ssa.BinOp)
			if !ok {
				continue
			}
			e, neq, ok := errNilTest(bo)
			if !ok || e != ev {
				continue
			}
			brefs := bo.Referrers()
			if brefs == nil {
				continue
			}
			for _, br := range *brefs {
				iff, ok := br.(*ssa.If)
				if !ok {
					continue
				}
				g := &errGuard{If: iff, Err: ev}
				if neq {
					g.FailSucc, g.OkSucc = iff.Block().Succs[0], iff.Block().Succs[1]
				} else {
					g.FailSucc, g.OkSucc = iff.Block().Succs[1], iff.Block().Succs[0]
				}
				return g
			}
		}
	}
	return nil
}

// reachableBlocks returns the blocks reachable from start (inclusive).
func reachableBlocks(start *ssa.BasicBlock) map[*ssa.BasicBlock]bool {
	seen := map[*ssa.BasicBlock]bool{}
	stack := []*ssa.BasicBlock{start}
	for len(stack) > 0 {
		b := stack[len(stack)-1]
		stack = stack[:len(stack)-1]
		if seen[b] {
			continue
		}
		seen[b] = true
		stack = append(stack, b.Succs...)
	}
	return seen
}

// provablyNonNilError: v is the tested error itself, or a fresh error from errors.New / fmt.Errorf.
func provablyNonNilError(v ssa.Value, tested ssa.Value) bool {
	if v == tested && tested != nil {
		return true
	}
	if call, ok := v.(*ssa.Call); ok {
		if cal := call.Call.StaticCallee(); cal != nil {
			n := cal.String()
			if n == "errors.New" || n == "fmt.Errorf" {
				return true
			}
		}
	}
	if ld, ok := v.(*ssa.UnOp); ok && ld.Op == token.MUL {
		if g, ok := ld.X.(*ssa.Global); ok && globalErrNonNil(g) {
			return true
		}
	}
	if mi, ok := v.(*ssa.MakeInterface); ok {
		// a concrete error value (e.g. KeySizeError(k)) boxed into the interface is non-nil
		_ = mi
		return true
	}
	if ph, ok := v.(*ssa.Phi); ok {
		for _, e := range ph.Edges {
			if !provablyNonNilError(e, tested) {
				return false
			}
		}
		return len(ph.Edges) > 0
	}
	return false
}

// readsContent: instruction in reads the memory of root object buf (load through it, or passes it to a call).
func usesBuffer(in ssa.Instruction, buf ssa.Value, s *effState) bool {
	switch x := in.(type) {
	case *ssa.UnOp:
		if x.Op == token.MUL && s.root(x.X) == s.root(buf) {
			return true
		}
	case ssa.CallInstruction:
		for _, a := range x.Common().Args {
			if hasContent(a.Type()) && s.root(a) == s.root(buf) {
				return true
			}
		}
	case *ssa.Return:
		// returning the buffer is not a read of its content
	}
	return false
}

func calleeName(in ssa.Instruction) string {
	if ci, ok := in.(ssa.CallInstruction); ok {
		if c := ci.Common().StaticCallee(); c != nil {
			return c.String()
		}
		if ci.Common().IsInvoke() {
			return "invoke " + ci.Common().Method.Name()
		}
	}
	return ""
}

func isRepoFunc(f *ssa.Function) bool {
	return f != nil && f.Pkg != nil && strings.HasPrefix(f.Pkg.Pkg.Path(), modPath)
}

func fieldName(fa *ssa.FieldAddr) string {
	st, ok := fa.X.Type().Underlying().(*types.Pointer).Elem().Underlying().(*types.Struct)
	if !ok {
		return ""
	}
	return st.Field(fa.Field).Name()
}

// globalErrNonNil: a package-level error variable whose only store is `errors.New(...)` in the package initialiser.
func globalErrNonNil(g *ssa.Global) bool {
	if g.Pkg == nil {
		return false
	}
	n, good := 0, true
	for _, m := range g.Pkg.Members {
		fn, ok := m.(*ssa.Function)
		if !ok {
			continue
		}
		for _, b := range fn.Blocks {
			for _, in := range b.Instrs {
				st, ok := in.(*ssa.Store)
				if !ok || st.Addr != ssa.Value(g) {
					continue
				}
				n++
				call, isCall := st.Val.(*ssa.Call)
				if fn.Name() != "init" || !isCall || call.Call.StaticCallee() == nil || call.Call.StaticCallee().String() != "errors.New" {
					good = false
				}
			}
		}
	}
	return n == 1 && good
}

// retVals: the values a Return yields. In a function with defers go/ssa spills every `return a, b` into the named result
// variables, runs the deferred calls and returns loads of those variables; when the result variable is only stored and
// loaded (no closure or call can change it), the load is resolved to the value stored last on the way to the Return.
func retVals(ret *ssa.Return) []ssa.Value {
	out := make([]ssa.Value, len(ret.Results))
	for i, rv := range ret.Results {
		out[i] = rv
		ld, ok := rv.(*ssa.UnOp)
		if !ok || ld.Op != token.MUL {
			continue
		}
		al, ok := ld.X.(*ssa.Alloc)
		if !ok || al.Referrers() == nil {
			continue
		}
		private := true
		for _, ref := range *al.Referrers() {
			switch r := ref.(type) {
			case *ssa.Store:
				if r.Addr != ssa.Value(al) {
					private = false
				}
			case *ssa.UnOp:
			case *ssa.DebugRef:
			default:
				private = false
			}
		}
		if !private {
			continue
		}
		b := ld.Block()
		idx := -1
		for k, in := range b.Instrs {
			if in == ssa.Instruction(ld) {
				idx = k
			}
		}
		for hops := 0; hops < 8 && b != nil; hops++ {
			found := false
			for k := idx - 1; k >= 0; k-- {
				if st, ok := b.Instrs[k].(*ssa.Store); ok && st.Addr == ssa.Value(al) {
					out[i] = st.Val
					found = true
					break
				}
			}
			if found || len(b.Preds) != 1 {
				break
			}
			b = b.Preds[0]
			idx = len(b.Instrs)
		}
	}
	return out
}
