package main

import (
	"fmt"
	"strings"
)

func init() { register("C09", "proof", checkC09) }

// asmArchs returns the assembler units to analyse.
func loadAsmBound(c *Ctx, r *Report, arch string) (*AsmUnit, *Prog) {
	p, err := LoadRepo(c.Repo, arch)
	if err != nil {
		r.Fatalf("%v", err)
		return nil, nil
	}
	u, err := LoadAsm(c.Repo, arch)
	if err != nil {
		r.Fatalf("%v", err)
		return nil, nil
	}
	if err := u.CheckDataConsistent(); err != nil {
		r.Fatalf("%v", err)
	}
	if err := u.BindDecls(p); err != nil {
		r.Fatalf("%v", err)
		return nil, nil
	}
	markCalled(u, p)
	return u, p
}

// markCalled marks TEXT symbols that have a Go declaration (callable); others are unreachable leftovers.
func markCalled(u *AsmUnit, p *Prog) {
	for _, rt := range u.Routines {
		rt.Called = rt.HasDecl
	}
}

func checkC09(c *Ctx, r *Report) {
	r.Explanation = "A2: forward may-taint over the CFG of every reachable assembler TEXT symbol (amd64 and arm64), built from the assembler's own macro-expanded listing. Every byte loaded from non-RODATA memory is secret; FP-slot values (pointers, lengths, tagSize) and RODATA are public. Sinks: conditional branch on tainted flags, memory operand with tainted base, masked memory access with tainted opmask, operand-dependent-latency opcode with tainted operand. Exactly one verdict branch (openAsm) is tolerated under conditions (i)-(iv) of DESIGN 1.2/A2. Plus G2 on the Go glue of the accelerated path."
	r.Trusted = []string{
		"go tool asm -S listing is the assembled program",
		"opcode semantics table in checker/asmsem.go (def/use/memory/timing class per opcode)",
		"listed vector, GF-affine, carry-less multiply, shift/rotate and permute instructions have operand-independent timing",
		"go/ssa construction (for the Go glue)",
	}
	r.Assumptions = []string{"micro-architectural timing of individual instructions is outside the claim"}
	totalInstr := 0
	verdicts := 0
	for _, arch := range []string{"amd64", "arm64"} {
		u, _ := loadAsmBound(c, r, arch)
		if u == nil {
			return
		}
		for _, rt := range u.Routines {
			key := fmt.Sprintf("%s/%s", arch, rt.Name)
			if !rt.Called {
				r.Note("unreachable TEXT symbol (no Go declaration, no CALL): %s in %s — excluded from obligations", key, rt.File)
				r.Count("unreachable_text", 1)
				continue
			}
			f := AnalyzeFlow(rt)
			if len(f.Errors) > 0 {
				for _, e := range f.Errors {
					r.Fatalf("%s: %s", key, e)
				}
				continue
			}
			r.Count("text_"+arch, 1)
			ninstr, nbr, nmem, ntbl := 0, 0, 0, 0
			for i, in := range rt.Instrs {
				if in.Op == "TEXT" || in.Op == "FUNCDATA" || in.Op == "PCDATA" {
					continue
				}
				if f.ProvIn[i] == nil {
					continue
				}
				ninstr++
				e := f.Effects[i]
				if e.Br == brCond {
					nbr++
				}
				nmem += len(e.Mem)
				if e.RegOnlyTbl {
					ntbl++
					if len(e.Mem) > 0 {
						r.Viol("SBOX-IN-REGISTERS", key+" "+in.Op, in.Pos, "table/affine/permute instruction with a memory operand: "+in.Raw)
					}
				}
			}
			totalInstr += ninstr
			r.Count("instructions", ninstr)
			r.Count("cond_branches", nbr)
			r.Count("mem_operands", nmem)
			r.Count("table_permute_instrs", ntbl)
			// sinks
			tb := map[int]bool{}
			for _, br := range f.TaintedBranch {
				tb[br.Idx] = true
			}
			var tolerated *Instr
			var okBr []*Instr
			whyNot := map[int]string{}
			for _, br := range f.TaintedBranch {
				if ok, why := f.VerdictCheck(br); ok {
					okBr = append(okBr, br)
				} else {
					whyNot[br.Idx] = why
				}
			}
			if len(okBr) == 1 {
				tolerated = okBr[0]
			}
			for _, br := range f.TaintedBranch {
				if br == tolerated {
					continue
				}
				why := whyNot[br.Idx]
				if why == "" {
					why = fmt.Sprintf("%d branches qualify as verdict branch; only a single one is tolerated", len(okBr))
				}
				r.Viol("TAINTED-BRANCH", fmt.Sprintf("%s %s#%d", key, br.Op, ordinalOf(rt, br)), br.Pos, "conditional branch consumes flags derived from key/data bytes: "+br.Raw+" — "+why)
			}
			if tolerated != nil {
				verdicts++
				r.Ok("VERDICT-BRANCH", key, tolerated.Pos, "single loop-free verdict branch: "+tolerated.Raw)
			}
			for _, a := range f.TaintedAddr {
				r.Viol("TAINTED-ADDRESS", fmt.Sprintf("%s %s via %s", key, a.Instr.Op, a.Mem.Base), a.Instr.Pos, "memory operand whose base register depends on key/data bytes: "+a.Instr.Raw)
			}
			for _, a := range f.TaintedMask {
				r.Viol("TAINTED-MASK", fmt.Sprintf("%s %s mask %s", key, a.Instr.Op, a.Mem.MaskReg), a.Instr.Pos, "masked memory access whose opmask depends on key/data bytes: "+a.Instr.Raw)
			}
			for _, in := range f.TimingOps {
				r.Viol("VARIABLE-TIME-OP", fmt.Sprintf("%s %s", key, in.Op), in.Pos, "operand-dependent-latency instruction on key/data: "+in.Raw)
			}
			// addresses must be decidable: every memory operand has a public, identified base
			for _, a := range f.Accesses {
				if a.Object == "" {
					r.Undecided("ADDRESS-PROVENANCE", fmt.Sprintf("%s %s via %s", key, a.Instr.Op, a.Mem.Base), a.Instr.Pos, "cannot identify the object addressed by "+a.Instr.Raw+" (provenance "+a.Prov.String()+")")
				}
			}
			// one obligation per branch and per memory operand (discharged unless reported above)
			for i, in := range rt.Instrs {
				if f.ProvIn[i] == nil {
					continue
				}
				e := f.Effects[i]
				if e.Br == brCond && !tb[in.Idx] {
					r.Ok("BRANCH-PUBLIC", fmt.Sprintf("%s %s#%d", key, in.Op, ordinalOf(rt, in)), in.Pos, in.Raw)
				}
			}
			taintedAddr := map[int]bool{}
			for _, a := range f.TaintedAddr {
				taintedAddr[a.Instr.Idx] = true
			}
			okAddr := 0
			for _, a := range f.Accesses {
				if !taintedAddr[a.Instr.Idx] && a.Object != "" {
					okAddr++
				}
			}
			r.Ok("ADDRESSES-PUBLIC", key, rt.Instrs[0].Pos, fmt.Sprintf("%d memory operands, all with a public base register of identified provenance", okAddr))
			if strings.HasSuffix(rt.Name, "penAsm") && arch == "amd64" && tolerated == nil && len(f.TaintedBranch) == 0 {
				r.Viol("VERDICT-BRANCH", key, rt.Instrs[0].Pos, "openAsm has no data-dependent verdict branch at all: the tag comparison no longer decides the result")
			}
		}
	}
	r.Count("verdict_branches", verdicts)
	r.Floor("positive_controls", 3)
	r.Floor("text_amd64", 8)
	r.Floor("text_arm64", 6)
	r.Floor("instructions", 8000)
	r.Floor("cond_branches", 40)
	r.Floor("mem_operands", 500)
	if verdicts > 1 {
		r.Viol("VERDICT-BRANCH", "count", "-", fmt.Sprintf("%d verdict branches; exactly one (Open's tag match) is allowed", verdicts))
	}
	checkC09Glue(c, r)
	asmPositiveControls(c, r)
}

func ordinalOf(rt *Routine, in *Instr) int {
	n := 0
	for _, x := range rt.Instrs {
		if x.Op == in.Op && branchKind(rt.Arch, x.Op) == brCond {
			n++
		}
		if x == in {
			return n
		}
	}
	return n
}
