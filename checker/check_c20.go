package main

// C20 (comparison clause): utils.ConstantTimeCmp is exact for all contents.
//
// Technique: predicate abstraction of the comparison loop. The abstract state of the loop is the order of the part of the two
// strings processed so far, S in {EQ, LT, GT}; one iteration reads one byte A of a and one byte B of b at the same index and
// moves S to S' according to the direction of the scan (least significant byte first: S' = case(A,B) unless A == B; most
// significant first: S' = S unless S == EQ). For every S the analysis keeps an abstract vector of the loop-carried variables
// (interval + known-non-zero flag); one iteration is evaluated abstractly for each of the three cases A<B, A=B, A>B with values
// as linear forms over B, D = A-B and the state symbols (so x-y-borrow is exact), the results are joined into Inv[S'] until a
// fixpoint. The code after the loop is then evaluated for each S: every return it can reach must be the constant -1/0/1 the
// order dictates. Nothing is executed: the deciding step is the abstract transformer of the SSA instructions.

import (
	"fmt"
	"go/constant"
	"go/token"
	"go/types"
	"math/big"
	"sort"
	"strings"
	"sync"

	"golang.org/x/tools/go/ssa"
)

func init() { register("C20", "other", checkC20) }

type av struct {
	lin    map[string]*big.Int // nil if not a known linear form; key "" is the constant
	lo, hi *big.Int
	nz     bool
}

func (a av) String() string {
	return fmt.Sprintf("[%s,%s]%s", a.lo, a.hi, ifs(a.nz, " nonzero"))
}

type cmpAbs struct {
	p           *Prog
	fn          *ssa.Function
	symRng      map[string][2]*big.Int
	nsym        int
	A, B        ssa.Value // not used as values; loads are recognised structurally
	idx         *ssa.Phi
	pa, pb, pl  *ssa.Parameter
	notes       []string
	tuples      map[ssa.Value][]av
	header      *ssa.BasicBlock
	statePhis   []*ssa.Phi
	loadOf      map[*ssa.IndexAddr]*ssa.Parameter
	preset      map[*ssa.Call][]av // results of the call to the helper that holds the loop (per order state)
	inlineDepth int
}

func bi(x int64) *big.Int { return big.NewInt(x) }

func typeBits(t types.Type) (int, bool) { // width, signed
	b, ok := t.Underlying().(*types.Basic)
	if !ok {
		return 0, false
	}
	switch b.Kind() {
	case types.Uint8:
		return 8, false
	case types.Uint16:
		return 16, false
	case types.Uint32:
		return 32, false
	case types.Uint64, types.Uint, types.Uintptr:
		return 64, false
	case types.Int8:
		return 8, true
	case types.Int16:
		return 16, true
	case types.Int32:
		return 32, true
	case types.Int64, types.Int:
		return 64, true
	case types.Bool:
		return 1, false
	}
	return 0, false
}

func typeRange(t types.Type) (*big.Int, *big.Int) {
	w, signed := typeBits(t)
	if w == 0 {
		return bi(0), new(big.Int).Sub(pow2(64), bi(1))
	}
	if signed {
		return new(big.Int).Neg(pow2(uint(w - 1))), new(big.Int).Sub(pow2(uint(w-1)), bi(1))
	}
	return bi(0), new(big.Int).Sub(pow2(uint(w)), bi(1))
}

func (c *cmpAbs) fresh(lo, hi *big.Int, nz bool) av {
	c.nsym++
	k := fmt.Sprintf("f%d", c.nsym)
	c.symRng[k] = [2]*big.Int{lo, hi}
	return av{lin: map[string]*big.Int{k: bi(1)}, lo: lo, hi: hi, nz: nz}
}

func (c *cmpAbs) top(t types.Type) av {
	lo, hi := typeRange(t)
	return c.fresh(lo, hi, false)
}

func avConst(x *big.Int) av {
	return av{lin: map[string]*big.Int{"": new(big.Int).Set(x)}, lo: x, hi: x, nz: x.Sign() != 0}
}

// rangeOf a linear form: sum of coefficient * symbol interval (symbols are independent)
func (c *cmpAbs) rangeOf(l map[string]*big.Int) (*big.Int, *big.Int) {
	lo, hi := bi(0), bi(0)
	for k, co := range l {
		if k == "" {
			lo.Add(lo, co)
			hi.Add(hi, co)
			continue
		}
		r := c.symRng[k]
		x, y := new(big.Int).Mul(co, r[0]), new(big.Int).Mul(co, r[1])
		if x.Cmp(y) > 0 {
			x, y = y, x
		}
		lo.Add(lo, x)
		hi.Add(hi, y)
	}
	return lo, hi
}

func (c *cmpAbs) fromLin(l map[string]*big.Int) av {
	for k, v := range l {
		if v.Sign() == 0 {
			delete(l, k)
		}
	}
	lo, hi := c.rangeOf(l)
	return av{lin: l, lo: lo, hi: hi, nz: lo.Sign() > 0 || hi.Sign() < 0}
}

func linComb(a av, sa int64, b av, sb int64) map[string]*big.Int {
	if a.lin == nil || b.lin == nil {
		return nil
	}
	out := map[string]*big.Int{}
	for k, v := range a.lin {
		out[k] = new(big.Int).Mul(v, bi(sa))
	}
	for k, v := range b.lin {
		t := new(big.Int).Mul(v, bi(sb))
		if o, ok := out[k]; ok {
			t.Add(t, o)
		}
		out[k] = t
	}
	return out
}

// wrap brings an exact mathematical result into the range of type t (two's complement) when its interval allows an exact answer.
func (c *cmpAbs) wrap(x av, t types.Type) av {
	lo, hi := typeRange(t)
	if x.lo.Cmp(lo) >= 0 && x.hi.Cmp(hi) <= 0 {
		return x
	}
	w, _ := typeBits(t)
	if w == 0 {
		return c.top(t)
	}
	m := pow2(uint(w))
	// entirely one period below or above
	for _, k := range []int64{1, -1} {
		sh := new(big.Int).Mul(m, bi(k))
		nlo, nhi := new(big.Int).Add(x.lo, sh), new(big.Int).Add(x.hi, sh)
		if nlo.Cmp(lo) >= 0 && nhi.Cmp(hi) <= 0 {
			out := av{lo: nlo, hi: nhi}
			if x.lin != nil {
				out.lin = linComb(x, 1, avConst(sh), 1)
			}
			// value non-zero modulo 2^w iff x not a multiple of 2^w: x in (−2^w, 0) or (0, 2^w) shifted: nonzero iff interval excludes 0 after shift
			out.nz = nlo.Sign() > 0 || nhi.Sign() < 0 || (x.nz && x.lo.CmpAbs(m) < 0 && x.hi.CmpAbs(m) < 0)
			return out
		}
	}
	out := c.top(t)
	// x non-zero and |x| < 2^w  =>  x mod 2^w non-zero
	if x.nz && x.lo.CmpAbs(m) < 0 && x.hi.CmpAbs(m) < 0 {
		out.nz = true
	}
	return out
}

type cmpPath struct {
	vals map[ssa.Value]av
}

type cmpOutcome struct {
	kind   string // "back", "return", "panic"
	state  []av   // for back: new values of the loop-carried phis
	ret    av
	rets   []av
	retPos string
}

func (c *cmpAbs) constAV(k *ssa.Const) (av, bool) {
	if k.Value == nil {
		return av{}, false
	}
	switch k.Value.Kind() {
	case constant.Int:
		if v, ok := new(big.Int).SetString(k.Value.ExactString(), 10); ok {
			return avConst(v), true
		}
	case constant.Bool:
		if constant.BoolVal(k.Value) {
			return avConst(bi(1)), true
		}
		return avConst(bi(0)), true
	}
	return av{}, false
}

// evaluation of one instruction's value
func (c *cmpAbs) eval(v ssa.Value, env map[ssa.Value]av) av {
	if x, ok := env[v]; ok {
		return x
	}
	var out av
	switch x := v.(type) {
	case *ssa.Const:
		if a, ok := c.constAV(x); ok {
			out = a
		} else {
			out = c.top(x.Type())
		}
	case *ssa.Parameter:
		out = c.top(x.Type())
	default:
		out = c.top(v.Type())
	}
	env[v] = out
	return out
}

func (c *cmpAbs) isZero(a av) (bool, bool) { // (value, known)
	if a.nz {
		return false, true
	}
	if a.lo.Sign() == 0 && a.hi.Sign() == 0 {
		return true, true
	}
	if a.lo.Sign() > 0 || a.hi.Sign() < 0 {
		return false, true
	}
	return false, false
}

func boolAV(b bool) av {
	if b {
		return avConst(bi(1))
	}
	return avConst(bi(0))
}

func (c *cmpAbs) step(in ssa.Instruction, env map[ssa.Value]av, caseD string) {
	val, ok := in.(ssa.Value)
	if !ok {
		return
	}
	var out av
	switch x := in.(type) {
	case *ssa.IndexAddr, *ssa.Slice, *ssa.FieldAddr, *ssa.Alloc, *ssa.MakeInterface:
		return
	case *ssa.UnOp:
		switch x.Op {
		case token.MUL: // load
			if ia, ok := x.X.(*ssa.IndexAddr); ok && c.loadOf[ia] != nil {
				if c.loadOf[ia] == c.pa {
					// A = B + D
					out = c.fromLin(map[string]*big.Int{"B": bi(1), "D": bi(1)})
					// keep inside byte range (B+D is a byte by construction of the cases)
					if out.lo.Sign() < 0 {
						out.lo = bi(0)
					}
					if out.hi.Cmp(bi(255)) > 0 {
						out.hi = bi(255)
					}
					out.nz = false
					break
				}
				if c.loadOf[ia] == c.pb {
					out = c.fromLin(map[string]*big.Int{"B": bi(1)})
					out.nz = false
					break
				}
			}
			out = c.top(x.Type())
		case token.XOR: // ^x = 2^w-1-x (unsigned), -1-x (signed)
			a := c.eval(x.X, env)
			w, signed := typeBits(x.Type())
			if a.lin != nil && w > 0 {
				k := bi(-1)
				if !signed {
					k = new(big.Int).Sub(pow2(uint(w)), bi(1))
				}
				out = c.fromLin(linComb(avConst(k), 1, a, -1))
			} else {
				out = c.top(x.Type())
			}
		case token.SUB: // -x
			a := c.eval(x.X, env)
			if a.lin != nil {
				out = c.wrap(c.fromLin(linComb(avConst(bi(0)), 1, a, -1)), x.Type())
				if a.nz {
					out.nz = true
				}
			} else {
				out = c.top(x.Type())
				out.nz = a.nz
			}
		case token.NOT:
			a := c.eval(x.X, env)
			if z, known := c.isZero(a); known {
				out = boolAV(z)
			} else {
				out = c.fresh(bi(0), bi(1), false)
			}
		default:
			out = c.top(x.Type())
		}
	case *ssa.Convert:
		a := c.eval(x.X, env)
		lo, hi := typeRange(x.Type())
		if a.lo.Cmp(lo) >= 0 && a.hi.Cmp(hi) <= 0 {
			out = a
		} else {
			out = c.wrap(a, x.Type())
			// narrowing may lose the non-zero property
			ws, _ := typeBits(x.X.Type())
			wd, _ := typeBits(x.Type())
			if wd < ws {
				out.nz = out.lo.Sign() > 0 || out.hi.Sign() < 0
			}
		}
	case *ssa.ChangeType:
		out = c.eval(x.X, env)
	case *ssa.BinOp:
		a, b := c.eval(x.X, env), c.eval(x.Y, env)
		if a.lo.Cmp(a.hi) == 0 && b.lo.Cmp(b.hi) == 0 {
			// both operands are known constants: exact two's-complement result
			var z *big.Int
			switch x.Op {
			case token.AND:
				z = new(big.Int).And(a.lo, b.lo)
			case token.OR:
				z = new(big.Int).Or(a.lo, b.lo)
			case token.XOR:
				z = new(big.Int).Xor(a.lo, b.lo)
			case token.AND_NOT:
				z = new(big.Int).AndNot(a.lo, b.lo)
			}
			if z != nil {
				env[val] = c.wrap(avConst(z), x.Type())
				return
			}
		}
		switch x.Op {
		case token.AND_NOT:
			za, ka := c.isZero(a)
			zb, kb := c.isZero(b)
			_, tmax := typeRange(x.Type())
			switch {
			case ka && za:
				out = avConst(bi(0))
			case kb && zb:
				out = a
			case b.lo.Cmp(b.hi) == 0 && b.lo.Cmp(tmax) == 0:
				out = avConst(bi(0))
			case a.lo.Sign() >= 0:
				out = c.fresh(bi(0), a.hi, false)
			default:
				out = c.top(x.Type())
			}
		case token.ADD:
			if l := linComb(a, 1, b, 1); l != nil {
				out = c.wrap(c.fromLin(l), x.Type())
			} else {
				out = c.wrap(av{lo: new(big.Int).Add(a.lo, b.lo), hi: new(big.Int).Add(a.hi, b.hi)}, x.Type())
			}
		case token.SUB:
			if l := linComb(a, 1, b, -1); l != nil {
				out = c.wrap(c.fromLin(l), x.Type())
			} else {
				out = c.wrap(av{lo: new(big.Int).Sub(a.lo, b.hi), hi: new(big.Int).Sub(a.hi, b.lo)}, x.Type())
			}
		case token.MUL:
			if a.lo.Cmp(a.hi) == 0 && b.lin != nil {
				l := map[string]*big.Int{}
				for k, v := range b.lin {
					l[k] = new(big.Int).Mul(v, a.lo)
				}
				out = c.wrap(c.fromLin(l), x.Type())
			} else if b.lo.Cmp(b.hi) == 0 && a.lin != nil {
				l := map[string]*big.Int{}
				for k, v := range a.lin {
					l[k] = new(big.Int).Mul(v, b.lo)
				}
				out = c.wrap(c.fromLin(l), x.Type())
			} else {
				out = c.top(x.Type())
			}
		case token.OR:
			za, ka := c.isZero(a)
			zb, kb := c.isZero(b)
			// x | -x: the sign bit is set exactly when x != 0
			negOf := func(p, q ssa.Value) bool {
				if u, ok := q.(*ssa.UnOp); ok && u.Op == token.SUB && u.X == p {
					return true
				}
				if bo, ok := q.(*ssa.BinOp); ok && bo.Op == token.SUB && bo.Y == p {
					if k, ok := constU64(bo.X); ok && k == 0 {
						return true
					}
				}
				return false
			}
			if w, signed := typeBits(x.Type()); w > 0 && (negOf(x.X, x.Y) || negOf(x.Y, x.X)) {
				src := a
				if negOf(x.Y, x.X) {
					src = b
				}
				if z, k := c.isZero(src); k {
					switch {
					case z:
						env[val] = avConst(bi(0))
					case !signed:
						env[val] = c.fresh(pow2(uint(w-1)), new(big.Int).Sub(pow2(uint(w)), bi(1)), true)
					default:
						// two's complement: x | -x is negative exactly when x != 0
						env[val] = c.fresh(new(big.Int).Neg(pow2(uint(w-1))), bi(-1), true)
					}
					return
				}
			}
			// -1 | x = -1 (all ones absorb)
			if _, signed := typeBits(x.Type()); signed {
				if (a.lo.Cmp(a.hi) == 0 && a.lo.Cmp(bi(-1)) == 0) || (b.lo.Cmp(b.hi) == 0 && b.lo.Cmp(bi(-1)) == 0) {
					env[val] = avConst(bi(-1))
					return
				}
			}
			switch {
			case ka && za:
				out = b
			case kb && zb:
				out = a
			case a.lo.Sign() >= 0 && b.lo.Sign() >= 0:
				lo := a.lo
				if b.lo.Cmp(lo) > 0 {
					lo = b.lo
				}
				hi := a.hi
				if b.hi.Cmp(hi) > 0 {
					hi = b.hi
				}
				out = c.fresh(lo, new(big.Int).Sub(pow2(uint(hi.BitLen())), bi(1)), a.nz || b.nz || (ka && !za) || (kb && !zb))
			default:
				out = c.top(x.Type())
				out.nz = a.nz || b.nz
			}
		case token.AND:
			za, ka := c.isZero(a)
			zb, kb := c.isZero(b)
			_, tmax := typeRange(x.Type())
			switch {
			case (ka && za) || (kb && zb):
				out = avConst(bi(0))
			case a.lo.Cmp(a.hi) == 0 && a.lo.Cmp(tmax) == 0:
				out = b
			case b.lo.Cmp(b.hi) == 0 && b.lo.Cmp(tmax) == 0:
				out = a
			case a.lo.Cmp(a.hi) == 0 && a.lo.Cmp(bi(1)) == 0 && b.lo.Sign() >= 0 && b.hi.Cmp(bi(1)) <= 0:
				out = b
			case b.lo.Cmp(b.hi) == 0 && b.lo.Cmp(bi(1)) == 0 && a.lo.Sign() >= 0 && a.hi.Cmp(bi(1)) <= 0:
				out = a
			case a.lo.Sign() >= 0 && b.lo.Sign() >= 0:
				hi := a.hi
				if b.hi.Cmp(hi) < 0 {
					hi = b.hi
				}
				out = c.fresh(bi(0), hi, false)
			case a.lo.Sign() >= 0:
				out = c.fresh(bi(0), a.hi, false)
			case b.lo.Sign() >= 0:
				out = c.fresh(bi(0), b.hi, false)
			default:
				out = c.top(x.Type())
			}
		case token.XOR:
			switch {
			case a.lo.Sign() >= 0 && b.lo.Sign() >= 0:
				hi := a.hi
				if b.hi.Cmp(hi) > 0 {
					hi = b.hi
				}
				// x ^ y is zero iff x == y
				nz := false
				if l := linComb(a, 1, b, -1); l != nil {
					d := c.fromLin(l)
					nz = d.nz
					if d.lo.Sign() == 0 && d.hi.Sign() == 0 {
						out = avConst(bi(0))
						break
					}
				}
				out = c.fresh(bi(0), new(big.Int).Sub(pow2(uint(hi.BitLen())), bi(1)), nz)
			default:
				out = c.top(x.Type())
			}
		case token.SHR:
			if b.lo.Cmp(b.hi) == 0 && b.lo.IsUint64() && b.lo.Uint64() < 64 && a.lo.Sign() >= 0 {
				k := uint(b.lo.Uint64())
				out = c.fresh(new(big.Int).Rsh(a.lo, k), new(big.Int).Rsh(a.hi, k), false)
				if out.lo.Cmp(out.hi) == 0 {
					out = avConst(out.lo)
				}
			} else if b.lo.Cmp(b.hi) == 0 && b.lo.IsUint64() && a.hi.Sign() < 0 {
				// arithmetic shift of a negative value stays negative
				k := uint(b.lo.Uint64())
				out = c.fresh(new(big.Int).Rsh(a.lo, k), new(big.Int).Rsh(a.hi, k), true)
				if out.lo.Cmp(out.hi) == 0 {
					out = avConst(out.lo)
				}
			} else if _, signed := typeBits(x.X.Type()); signed && b.lo.Cmp(b.hi) == 0 && b.lo.IsUint64() && b.lo.Uint64() < 64 {
				// arithmetic shift is floor division by 2^k: monotone over the whole signed range
				k := uint(b.lo.Uint64())
				out = c.fresh(new(big.Int).Rsh(a.lo, k), new(big.Int).Rsh(a.hi, k), false)
				if out.lo.Cmp(out.hi) == 0 {
					out = avConst(out.lo)
				}
			} else {
				out = c.top(x.Type())
			}
		case token.SHL:
			if b.lo.Cmp(b.hi) == 0 && b.lo.IsUint64() && b.lo.Uint64() < 64 && a.lin != nil {
				l := map[string]*big.Int{}
				for k, v := range a.lin {
					l[k] = new(big.Int).Lsh(v, uint(b.lo.Uint64()))
				}
				out = c.wrap(c.fromLin(l), x.Type())
			} else {
				out = c.top(x.Type())
			}
		case token.EQL, token.NEQ, token.LSS, token.LEQ, token.GTR, token.GEQ:
			var d av
			if l := linComb(a, 1, b, -1); l != nil {
				d = c.fromLin(l)
			} else {
				d = av{lo: new(big.Int).Sub(a.lo, b.hi), hi: new(big.Int).Sub(a.hi, b.lo)}
				// a non-zero, b == 0  (or vice versa)
				if zb, kb := c.isZero(b); kb && zb && a.nz {
					d.nz = true
				}
				if za, ka := c.isZero(a); ka && za && b.nz {
					d.nz = true
				}
			}
			known, res := false, false
			switch x.Op {
			case token.EQL, token.NEQ:
				if z, k := c.isZero(d); k {
					known, res = true, z == (x.Op == token.EQL)
				}
			case token.LSS:
				if d.hi.Sign() < 0 {
					known, res = true, true
				} else if d.lo.Sign() >= 0 {
					known, res = true, false
				}
			case token.LEQ:
				if d.hi.Sign() <= 0 {
					known, res = true, true
				} else if d.lo.Sign() > 0 {
					known, res = true, false
				}
			case token.GTR:
				if d.lo.Sign() > 0 {
					known, res = true, true
				} else if d.hi.Sign() <= 0 {
					known, res = true, false
				}
			case token.GEQ:
				if d.lo.Sign() >= 0 {
					known, res = true, true
				} else if d.hi.Sign() < 0 {
					known, res = true, false
				}
			}
			if known {
				out = boolAV(res)
			} else {
				out = c.fresh(bi(0), bi(1), false)
			}
		default:
			out = c.top(x.Type())
		}
	case *ssa.Extract:
		if tv, ok := c.tuples[x.Tuple]; ok && x.Index < len(tv) {
			out = tv[x.Index]
		} else {
			out = c.top(x.Type())
		}
	case *ssa.Call:
		out = c.call(x, env)
		if out.lo == nil { // tuple result handled through c.tuples
			return
		}
	case *ssa.Phi:
		return // handled by the path walker
	default:
		out = c.top(val.Type())
	}
	env[val] = out
}

func (c *cmpAbs) call(x *ssa.Call, env map[ssa.Value]av) av {
	if tv, ok := c.preset[x]; ok {
		if len(tv) == 1 {
			return tv[0]
		}
		c.tuples[x] = tv
		return av{}
	}
	cal := x.Call.StaticCallee()
	if cal == nil || cal.Pkg == nil {
		return c.topResult(x)
	}
	args := make([]av, len(x.Call.Args))
	for i, a := range x.Call.Args {
		args[i] = c.eval(a, env)
	}
	path := cal.Pkg.Pkg.Path()
	name := cal.Name()
	// a small straight-line helper of the repository (below(x, y) = (x-y)>>31, ...) is evaluated in place
	if isRepoFunc(cal) && len(cal.Blocks) == 1 && len(cal.Params) == len(args) && cal.Signature.Results().Len() == 1 && c.inlineDepth < 3 {
		c.inlineDepth++
		sub := map[ssa.Value]av{}
		for i, prm := range cal.Params {
			sub[prm] = args[i]
		}
		var res av
		ok := false
		for _, in := range cal.Blocks[0].Instrs {
			switch y := in.(type) {
			case *ssa.Return:
				if len(y.Results) == 1 {
					res, ok = c.eval(y.Results[0], sub), true
				}
			default:
				c.step(in, sub, "")
			}
		}
		c.inlineDepth--
		if ok && res.lo != nil {
			return res
		}
	}
	switch {
	case path == "math/bits" && (name == "Sub32" || name == "Sub64" || name == "Sub"):
		w := 64
		if name == "Sub32" {
			w = 32
		}
		m := pow2(uint(w))
		var t av
		if l := linComb(args[0], 1, args[1], -1); l != nil && args[2].lin != nil {
			t = c.fromLin(linComb(av{lin: l}, 1, args[2], -1))
		} else {
			t = av{lo: new(big.Int).Sub(new(big.Int).Sub(args[0].lo, args[1].hi), args[2].hi), hi: new(big.Int).Sub(new(big.Int).Sub(args[0].hi, args[1].lo), args[2].lo)}
		}
		var d, bo av
		switch {
		case t.lo.Sign() >= 0:
			d, bo = t, avConst(bi(0))
		case t.hi.Sign() < 0:
			bo = avConst(bi(1))
			if t.lin != nil {
				d = c.fromLin(linComb(t, 1, avConst(m), 1))
			} else {
				d = av{lo: new(big.Int).Add(t.lo, m), hi: new(big.Int).Add(t.hi, m)}
				d.nz = d.lo.Sign() > 0
			}
		default:
			d = c.fresh(bi(0), new(big.Int).Sub(m, bi(1)), false)
			bo = c.fresh(bi(0), bi(1), false)
		}
		c.tuples[x] = []av{d, bo}
		return av{}
	case path == "math/bits" && (name == "Add32" || name == "Add64" || name == "Add"):
		w := 64
		if name == "Add32" {
			w = 32
		}
		m := pow2(uint(w))
		var t av
		if l := linComb(args[0], 1, args[1], 1); l != nil && args[2].lin != nil {
			t = c.fromLin(linComb(av{lin: l}, 1, args[2], 1))
		} else {
			t = av{lo: new(big.Int).Add(new(big.Int).Add(args[0].lo, args[1].lo), args[2].lo), hi: new(big.Int).Add(new(big.Int).Add(args[0].hi, args[1].hi), args[2].hi)}
		}
		var s, ca av
		switch {
		case t.hi.Cmp(m) < 0:
			s, ca = t, avConst(bi(0))
		case t.lo.Cmp(m) >= 0:
			ca = avConst(bi(1))
			if t.lin != nil {
				s = c.fromLin(linComb(t, 1, avConst(m), -1))
			} else {
				s = av{lo: new(big.Int).Sub(t.lo, m), hi: new(big.Int).Sub(t.hi, m)}
			}
		default:
			s = c.fresh(bi(0), new(big.Int).Sub(m, bi(1)), false)
			ca = c.fresh(bi(0), bi(1), false)
		}
		c.tuples[x] = []av{s, ca}
		return av{}
	case path == "crypto/subtle" && name == "ConstantTimeSelect":
		if z, k := c.isZero(args[0]); k {
			if z {
				return args[2]
			}
			if args[0].lo.Cmp(bi(1)) == 0 && args[0].hi.Cmp(bi(1)) == 0 {
				return args[1]
			}
		}
		lo, hi := args[1].lo, args[1].hi
		if args[2].lo.Cmp(lo) < 0 {
			lo = args[2].lo
		}
		if args[2].hi.Cmp(hi) > 0 {
			hi = args[2].hi
		}
		return c.fresh(lo, hi, args[1].nz && args[2].nz)
	case path == "crypto/subtle" && (name == "ConstantTimeByteEq" || name == "ConstantTimeEq"):
		if l := linComb(args[0], 1, args[1], -1); l != nil {
			if z, k := c.isZero(c.fromLin(l)); k {
				return boolAV(z)
			}
		}
		return c.fresh(bi(0), bi(1), false)
	case path == "crypto/subtle" && name == "ConstantTimeLessOrEq":
		if l := linComb(args[0], 1, args[1], -1); l != nil {
			d := c.fromLin(l)
			if d.hi.Sign() <= 0 {
				return boolAV(true)
			}
			if d.lo.Sign() > 0 {
				return boolAV(false)
			}
		}
		return c.fresh(bi(0), bi(1), false)
	}
	return c.topResult(x)
}

func (c *cmpAbs) topResult(x *ssa.Call) av {
	if tup, ok := x.Type().(*types.Tuple); ok {
		var vs []av
		for i := 0; i < tup.Len(); i++ {
			vs = append(vs, c.top(tup.At(i).Type()))
		}
		c.tuples[x] = vs
		return av{}
	}
	return c.top(x.Type())
}

// ---------------- path walker ----------------

func (c *cmpAbs) walk(b, pred *ssa.BasicBlock, env map[ssa.Value]av, first bool, outs *[]cmpOutcome, budget *int) {
	*budget--
	if *budget < 0 {
		*outs = append(*outs, cmpOutcome{kind: "unknown"})
		return
	}
	if b == c.header && !first {
		pi := -1
		for i, p := range b.Preds {
			if p == pred {
				pi = i
			}
		}
		var st []av
		for _, ph := range c.statePhis {
			st = append(st, c.eval(ph.Edges[pi], env))
		}
		*outs = append(*outs, cmpOutcome{kind: "back", state: st})
		return
	}
	if !(b == c.header && first) {
		pi := -1
		for i, p := range b.Preds {
			if p == pred {
				pi = i
			}
		}
		// phis are parallel assignments
		newv := map[ssa.Value]av{}
		for _, in := range b.Instrs {
			ph, ok := in.(*ssa.Phi)
			if !ok {
				break
			}
			if pi >= 0 {
				newv[ph] = c.eval(ph.Edges[pi], env)
			} else {
				newv[ph] = c.top(ph.Type())
			}
		}
		for k, v := range newv {
			env[k] = v
		}
	}
	for _, in := range b.Instrs {
		switch x := in.(type) {
		case *ssa.Phi:
			continue
		case *ssa.If:
			cond := c.eval(x.Cond, env)
			z, known := c.isZero(cond)
			if known {
				if z {
					c.walk(b.Succs[1], b, env, false, outs, budget)
				} else {
					c.walk(b.Succs[0], b, env, false, outs, budget)
				}
				return
			}
			for _, s := range b.Succs {
				e2 := make(map[ssa.Value]av, len(env))
				for k, v := range env {
					e2[k] = v
				}
				c.walk(s, b, e2, false, outs, budget)
			}
			return
		case *ssa.Jump:
			c.walk(b.Succs[0], b, env, false, outs, budget)
			return
		case *ssa.Return:
			o := cmpOutcome{kind: "return", retPos: c.p.InstrPos(x)}
			for _, rv := range retVals(x) {
				o.rets = append(o.rets, c.eval(rv, env))
			}
			if len(o.rets) == 1 {
				o.ret = o.rets[0]
			}
			*outs = append(*outs, o)
			return
		case *ssa.Panic:
			*outs = append(*outs, cmpOutcome{kind: "panic"})
			return
		default:
			c.step(in, env, "")
		}
	}
}

func joinAV(a, b av) av {
	lo, hi := a.lo, a.hi
	if b.lo.Cmp(lo) < 0 {
		lo = b.lo
	}
	if b.hi.Cmp(hi) > 0 {
		hi = b.hi
	}
	return av{lo: lo, hi: hi, nz: (a.nz || a.lo.Sign() > 0 || a.hi.Sign() < 0) && (b.nz || b.lo.Sign() > 0 || b.hi.Sign() < 0)}
}

func sameAV(a, b av) bool {
	return a.lo.Cmp(b.lo) == 0 && a.hi.Cmp(b.hi) == 0 && a.nz == b.nz
}

// small linear evaluator over (phi, l): value = cp*phi + cl*l + k
type idxLin struct {
	cp, cl, k int64
	ok        bool
}

func (c *cmpAbs) idxEval(v ssa.Value) idxLin {
	switch x := v.(type) {
	case *ssa.Const:
		if u, ok := c.constAV(x); ok && u.lo.IsInt64() {
			return idxLin{0, 0, u.lo.Int64(), true}
		}
	case *ssa.Phi:
		if x == c.idx {
			return idxLin{1, 0, 0, true}
		}
	case *ssa.Parameter:
		if x == c.pl {
			return idxLin{0, 1, 0, true}
		}
	case *ssa.BinOp:
		a, b := c.idxEval(x.X), c.idxEval(x.Y)
		if a.ok && b.ok {
			switch x.Op {
			case token.ADD:
				return idxLin{a.cp + b.cp, a.cl + b.cl, a.k + b.k, true}
			case token.SUB:
				return idxLin{a.cp - b.cp, a.cl - b.cl, a.k - b.k, true}
			}
		}
	case *ssa.Convert:
		return c.idxEval(x.X)
	}
	return idxLin{}
}

func checkC20(cx *Ctx, r *Report) {
	r.Explanation = "Decided, for all inputs: (1) the comparison clause for utils.ConstantTimeCmp by predicate abstraction of its loop: the abstract state is the order (EQ/LT/GT) of the part of the strings processed so far; for each state an invariant over the loop-carried variables (interval + known-non-zero) is computed as the fixpoint of the abstract transformer of one iteration under the three cases A<B, A=B, A>B (values are linear forms over B, D=A-B and the state symbols, so the borrow arithmetic is exact); every return reachable after the loop from state S must be the constant the order dictates. Rules: CMP-LOOP (the loop visits exactly the indices l-1..0 resp. 0..l-1, one per iteration), CMP-OPERANDS (a and b are read only at the loop index, nowhere else), CMP-RESULT (three obligations). (2) the signed-window recoding clause for utils.DecomposeNAF, every 256-bit input and every width 1..7, by the state-set interpreter of checker/sched.go: input bytes are vectors of bit symbols, the output index and the carry flag are concrete and keep abstract states apart (at most 2 x 257), digits are linear forms over the input bits with bounds learned from the branches; NAF-DIGIT: every stored digit is odd, |d| < 2^w, and at least w+1 positions above the previous non-zero digit; NAF-SUM: the observed sum of digit*2^index equals sum s_i 2^i at every return (states are joined when their sums agree after substituting the bit values known on either path)."
	r.Trusted = []string{"go/ssa", "semantics of math/bits.Sub32/Sub64/Add32/Add64 and crypto/subtle selectors as modelled in the abstract transformer", "two's-complement wrap of Go integer arithmetic"}
	p, err := LoadRepo(cx.Repo, "amd64")
	if err != nil {
		r.Fatalf("%v", err)
		return
	}
	fn := p.MustFunc(r, "utils.ConstantTimeCmp")
	if fn == nil {
		return
	}
	analyzeCmp(r, p, fn, "utils.ConstantTimeCmp")
	c20NAF(r, p)
	c20Controls(cx, r)
}

// c20Controls: the comparison analysis must report a broken comparison and accept a correct one written differently
func c20Controls(cx *Ctx, r *Report) {
	p, err := LoadControls(controlsDir(cx), "amd64")
	if err != nil {
		r.Fatalf("positive controls: %v", err)
		return
	}
	for name, wantViol := range map[string]bool{"zzctl/cmpctl.DiffOverwritten": true, "zzctl/cmpctl.MaskCompare": false} {
		fn := p.Func(name)
		if fn == nil {
			r.Fatalf("positive control %s not found", name)
			return
		}
		sub := NewReport("C20", "quick", "other")
		analyzeCmp(sub, p, fn, name)
		nviol := 0
		for _, o := range sub.Obls {
			if o.Status == VIOLATED {
				nviol++
			}
		}
		r.Count("positive_controls", 1)
		if (nviol > 0) != wantViol || len(sub.Obls) == 0 {
			r.Fatalf("positive control %s: expected violation=%v, engine reported %d violated of %d obligations", name, wantViol, nviol, len(sub.Obls))
		} else {
			r.Ok("POSITIVE-CONTROL", name, "checker/testdata/controls/cmpctl", fmt.Sprintf("comparison analysis reports violation=%v as expected", wantViol))
		}
	}
}

// analyzeCmp: CMP-OPERANDS, CMP-LOOP, CMP-RESULT for one comparison function (a, b []byte, l int) int
func analyzeCmp(r *Report, p *Prog, fn *ssa.Function, key string) {
	pos := p.Pos(fn.Pos())
	if len(fn.Params) != 3 {
		r.Viol("CMP-LOOP", key, pos, "signature is not (a, b []byte, l int)")
		return
	}
	// the loop may live in a helper that receives a, b and l: analyse the loop there and the decision here
	outer := fn
	var outerCall *ssa.Call
	hasLoop := func(f *ssa.Function) bool {
		for _, b := range f.Blocks {
			for _, pr := range b.Preds {
				if b.Dominates(pr) {
					return true
				}
			}
		}
		return false
	}
	var mapped [3]*ssa.Parameter
	if !hasLoop(fn) {
		for _, b := range fn.Blocks {
			for _, in := range b.Instrs {
				call, ok := in.(*ssa.Call)
				if !ok {
					continue
				}
				g := call.Call.StaticCallee()
				if g == nil || !isRepoFunc(g) || len(g.Blocks) == 0 || !hasLoop(g) {
					continue
				}
				var m [3]*ssa.Parameter
				n := 0
				for i, a := range call.Call.Args {
					for k := 0; k < 3; k++ {
						if a == ssa.Value(fn.Params[k]) && i < len(g.Params) {
							m[k] = g.Params[i]
							n++
						}
					}
				}
				if n == 3 && outerCall == nil {
					outerCall, mapped = call, m
				}
			}
		}
	}
	if outerCall != nil {
		fn = outerCall.Call.StaticCallee()
	} else {
		mapped = [3]*ssa.Parameter{fn.Params[0], fn.Params[1], fn.Params[2]}
	}
	c := &cmpAbs{p: p, fn: fn, symRng: map[string][2]*big.Int{}, tuples: map[ssa.Value][]av{}}
	c.pa, c.pb, c.pl = mapped[0], mapped[1], mapped[2]
	// the loop: a block with phis and a predecessor it dominates
	var headers []*ssa.BasicBlock
	for _, b := range fn.Blocks {
		for _, pr := range b.Preds {
			if b.Dominates(pr) {
				headers = append(headers, b)
				break
			}
		}
	}
	if len(headers) != 1 {
		r.Viol("CMP-LOOP", key, pos, fmt.Sprintf("%d loops found; the analysis supports exactly one comparison loop", len(headers)))
		return
	}
	c.header = headers[0]
	inLoop := map[*ssa.BasicBlock]bool{}
	for _, b := range fn.Blocks {
		if c.header.Dominates(b) {
			// b is in the loop if it can reach the header again
			seen := map[*ssa.BasicBlock]bool{}
			var reach func(x *ssa.BasicBlock) bool
			reach = func(x *ssa.BasicBlock) bool {
				if x == c.header {
					return true
				}
				if seen[x] {
					return false
				}
				seen[x] = true
				for _, s := range x.Succs {
					if reach(s) {
						return true
					}
				}
				return false
			}
			for _, s := range b.Succs {
				if reach(s) {
					inLoop[b] = true
				}
			}
		}
	}
	// loads of a and b
	type ld struct {
		ia  *ssa.IndexAddr
		par *ssa.Parameter
	}
	var loads []ld
	bad := []string{}
	for _, b := range fn.Blocks {
		for _, in := range b.Instrs {
			switch x := in.(type) {
			case *ssa.IndexAddr:
				if x.X == ssa.Value(c.pa) || x.X == ssa.Value(c.pb) {
					// a read whose value nobody uses (_ = a[l-1]: a bounds probe) cannot influence the result
					unused := true
					if x.Referrers() != nil {
						for _, ref := range *x.Referrers() {
							switch y := ref.(type) {
							case *ssa.DebugRef:
							case *ssa.UnOp:
								if y.Referrers() != nil {
									for _, r2 := range *y.Referrers() {
										if _, isDbg := r2.(*ssa.DebugRef); !isDbg {
											unused = false
										}
									}
								}
							default:
								unused = false
							}
						}
					}
					if unused {
						continue
					}
					if !inLoop[b] {
						bad = append(bad, "byte read outside the loop at "+p.InstrPos(x))
					}
					loads = append(loads, ld{x, x.X.(*ssa.Parameter)})
				}
			case *ssa.Slice:
				if x.X == ssa.Value(c.pa) || x.X == ssa.Value(c.pb) {
					bad = append(bad, "argument re-sliced at "+p.InstrPos(x)+" (word-wise access is not modelled)")
				}
			case *ssa.Call:
				for _, a := range x.Call.Args {
					if a == ssa.Value(c.pa) || a == ssa.Value(c.pb) {
						bad = append(bad, "argument passed to "+x.Call.String()+" at "+p.InstrPos(x))
					}
				}
			}
		}
	}
	// induction variable: a header phi used (possibly with a constant offset) as the index of those loads
	var phis []*ssa.Phi
	for _, in := range c.header.Instrs {
		if ph, ok := in.(*ssa.Phi); ok {
			phis = append(phis, ph)
		}
	}
	var off int64
	for _, ph := range phis {
		c.idx = ph
		okAll := len(loads) > 0
		for i, l := range loads {
			e := c.idxEval(l.ia.Index)
			if !e.ok || e.cp != 1 || e.cl != 0 {
				okAll = false
				break
			}
			if i == 0 {
				off = e.k
			} else if e.k != off {
				okAll = false
				break
			}
		}
		if okAll {
			break
		}
		c.idx = nil
	}
	if c.idx == nil {
		bad = append(bad, "the byte reads of a and b do not share one loop index")
	}
	hasA, hasB := false, false
	for _, l := range loads {
		if l.par == c.pa {
			hasA = true
		} else {
			hasB = true
		}
	}
	if !hasA || !hasB {
		bad = append(bad, "a or b is never read")
	}
	sort.Strings(bad)
	r.Check(len(bad) == 0, "CMP-OPERANDS", key, pos, fmt.Sprintf("%d byte reads, all of a[i]/b[i] at the one loop index, inside the loop", len(loads))+ifs(len(bad) > 0, ": "+strings.Join(bad, "; ")))
	if len(bad) > 0 {
		return
	}
	c.loadOf = map[*ssa.IndexAddr]*ssa.Parameter{}
	for _, l := range loads {
		c.loadOf[l.ia] = l.par
	}
	// CMP-LOOP: init, step, condition
	desc, why := c.loopShape(off)
	r.Check(why == "", "CMP-LOOP", key, pos, "the loop visits every index of the first l bytes exactly once, "+ifs(desc, "from l-1 down to 0 (least significant byte first)")+ifs(!desc, "from 0 up to l-1 (most significant byte first)")+ifs(why != "", ": "+why))
	if why != "" {
		return
	}
	for _, ph := range phis {
		if ph != c.idx {
			c.statePhis = append(c.statePhis, ph)
		}
	}
	// initial state: walk from the entry to the header
	var pre []cmpOutcome
	budget := 2000
	c.preWalk(fn.Blocks[0], nil, map[ssa.Value]av{}, &pre, &budget)
	var inv [3][]av // 0 EQ, 1 LT, 2 GT
	names := []string{"EQ", "LT", "GT"}
	for _, o := range pre {
		switch o.kind {
		case "back":
			if inv[0] == nil {
				inv[0] = o.state
			} else {
				for j := range inv[0] {
					inv[0][j] = joinAV(inv[0][j], o.state[j])
				}
			}
		case "return":
			r.Viol("CMP-RESULT", key+" early return", o.retPos, "returns before the comparison loop; not provable")
			return
		case "unknown":
			r.Undecided("CMP-RESULT", key, pos, "path budget exhausted before the loop")
			return
		}
	}
	if inv[0] == nil {
		r.Viol("CMP-LOOP", key, pos, "the loop is not reachable from the entry")
		return
	}
	cases := []struct {
		name   string
		lo, hi int64
		s      int
	}{{"A<B", -255, -1, 1}, {"A=B", 0, 0, 0}, {"A>B", 1, 255, 2}}
	type retSet map[string]string // value -> position
	var rets [3]retSet
	ntrans := 0
	for round := 0; round < 40; round++ {
		changed := false
		for s := 0; s < 3; s++ {
			if inv[s] == nil {
				continue
			}
			rets[s] = retSet{}
			for _, cs := range cases {
				c.symRng = map[string][2]*big.Int{"B": {bi(0), bi(255)}, "D": {bi(cs.lo), bi(cs.hi)}}
				c.tuples = map[ssa.Value][]av{}
				env := map[ssa.Value]av{}
				for j, ph := range c.statePhis {
					k := fmt.Sprintf("s%d", j)
					c.symRng[k] = [2]*big.Int{inv[s][j].lo, inv[s][j].hi}
					env[ph] = av{lin: map[string]*big.Int{k: bi(1)}, lo: inv[s][j].lo, hi: inv[s][j].hi, nz: inv[s][j].nz}
				}
				env[c.idx] = c.top(c.idx.Type())
				var outs []cmpOutcome
				budget := 2000
				c.walk(c.header, nil, env, true, &outs, &budget)
				ntrans++
				// successor state
				ns := cs.s
				if desc {
					if cs.s == 0 {
						ns = s
					}
				} else if s != 0 {
					ns = s
				}
				for _, o := range outs {
					switch o.kind {
					case "back":
						if inv[ns] == nil {
							inv[ns] = make([]av, len(o.state))
							for j := range o.state {
								inv[ns][j] = av{lo: o.state[j].lo, hi: o.state[j].hi, nz: o.state[j].nz || o.state[j].lo.Sign() > 0 || o.state[j].hi.Sign() < 0}
							}
							changed = true
						} else {
							for j := range o.state {
								n := joinAV(inv[ns][j], o.state[j])
								if round > 6 && !sameAV(n, inv[ns][j]) { // widening
									lo, hi := typeRange(c.statePhis[j].Type())
									n = av{lo: lo, hi: hi, nz: n.nz}
								}
								if !sameAV(n, inv[ns][j]) {
									inv[ns][j] = n
									changed = true
								}
							}
						}
					case "return":
						if outerCall != nil {
							// evaluate the caller with the helper's results for this order state
							oc := &cmpAbs{p: p, fn: outer, symRng: c.symRng, tuples: map[ssa.Value][]av{}, preset: map[*ssa.Call][]av{outerCall: o.rets}, loadOf: map[*ssa.IndexAddr]*ssa.Parameter{}}
							var oouts []cmpOutcome
							ob := 2000
							oc.walk(outer.Blocks[0], nil, map[ssa.Value]av{}, false, &oouts, &ob)
							for _, oo := range oouts {
								if oo.kind != "return" {
									continue
								}
								v := "unknown"
								if oo.ret.lo != nil && oo.ret.lo.Cmp(oo.ret.hi) == 0 {
									v = oo.ret.lo.String()
								} else if oo.ret.lo != nil {
									v = "a value in " + oo.ret.String()
								}
								rets[s][v] = oo.retPos
							}
							continue
						}
						v := "unknown"
						if o.ret.lo != nil && o.ret.lo.Cmp(o.ret.hi) == 0 {
							v = o.ret.lo.String()
						} else if o.ret.lo != nil {
							v = "a value in " + o.ret.String()
						}
						rets[s][v] = o.retPos
					case "unknown":
						r.Undecided("CMP-RESULT", key, pos, "path budget exhausted inside the loop")
						return
					}
				}
			}
		}
		if !changed {
			break
		}
		if round == 39 {
			r.Undecided("CMP-RESULT", key, pos, "no fixpoint after 40 rounds")
			return
		}
	}
	r.Count("cmp_transitions", ntrans)
	r.Floor("cmp_transitions", 9)
	want := []string{"0", "-1", "1"}
	for s := 0; s < 3; s++ {
		var ivs []string
		for j, ph := range c.statePhis {
			if inv[s] != nil {
				ivs = append(ivs, fmt.Sprintf("%s in %s", ph.Comment, inv[s][j]))
			}
		}
		var got []string
		for v, ps := range rets[s] {
			got = append(got, v+" (at "+ps+")")
		}
		sort.Strings(got)
		ok := inv[s] != nil && len(rets[s]) == 1
		if ok {
			_, ok = rets[s][want[s]]
		}
		r.Check(ok, "CMP-RESULT", key+" order "+names[s], pos, fmt.Sprintf("when the first l bytes compare %s the loop invariant is {%s} and the function can return only %s; required %s", names[s], strings.Join(ivs, ", "), strings.Join(got, " or "), want[s]))
	}
}

// c20NAF: the signed-window recoding, for every 256-bit input and every window width 1..7, by the state-set interpreter of
// checker/sched.go: input bytes are vectors of bit symbols, the carry flag and the output index are concrete and keep
// abstract states apart, every store into the digit array adds digit*2^index to an observed weighted sum and is checked
// against the digit rules; states that agree on (index, carry) are joined when their sums agree after substituting the
// bit values known on either path.
func c20NAF(r *Report, p *Prog) {
	fn := p.MustFunc(r, "utils.DecomposeNAF")
	if fn == nil {
		return
	}
	pos := p.Pos(fn.Pos())
	type res struct {
		e    *sched
		rets []schedRet
	}
	results := make([]res, 8)
	var wg sync.WaitGroup
	for w := 1; w <= 7; w++ {
		wg.Add(1)
		go func(w int) {
			defer wg.Done()
			e := newSched(p, map[string]*tabSem{})
			st := newSState()
			id := e.newID()
			arr := &hArray{elems: make([]sVal, 257)}
			for i := range arr.elems {
				arr.elems[i] = sInt{big.NewInt(0)}
			}
			st.heap[id] = arr
			e.ghostArr, e.ghostW = id, w
			st.ghost = pform{}
			defer func() {
				if x := recover(); x != nil {
					e.fail("analysis panic: %v", x)
				}
				results[w].e = e
			}()
			results[w].rets = e.runFunc(fn, st, []sVal{sSlice{id, 0, 257}, sBytes{name: "s", n: 32}, sInt{big.NewInt(257)}, sInt{big.NewInt(int64(w))}})
		}(w)
	}
	wg.Wait()
	for w := 1; w <= 7; w++ {
		key := fmt.Sprintf("utils.DecomposeNAF w=%d", w)
		e, rets := results[w].e, results[w].rets
		r.Count("naf_widths", 1)
		if len(e.errs) > 0 || len(e.panics) > 0 {
			r.Viol("NAF-SUM", key, pos, "the recoding cannot be followed: "+strings.Join(append(e.errs, e.panics...), "; "))
			continue
		}
		want := bitsForm("s", 256, "")
		ok := len(rets) >= 1
		detail := fmt.Sprintf("%d final abstract states, %d digit stores followed, %d abstract steps", len(rets), e.digitStores, e.steps)
		for _, rt := range rets {
			d := pfAdd(rt.st.ghost, pfScale(want, big.NewInt(-1)))
			if !rt.st.vanishes(d) {
				ok, detail = false, "on some path the digits sum to something else: "+describeDiff(want, rt.st.ghost)
				break
			}
		}
		r.Check(ok, "NAF-SUM", key, pos, "sum of digit_i * 2^i over the 257 output positions equals the 256-bit input: "+detail)
		sort.Strings(e.digitProblems)
		r.Check(len(e.digitProblems) == 0, "NAF-DIGIT", key, pos, fmt.Sprintf("every stored digit is odd with |d| < %d and is followed by at least %d zero positions", 1<<uint(w), w)+ifs(len(e.digitProblems) > 0, ": "+strings.Join(e.digitProblems, "; ")))
	}
	r.Floor("naf_widths", 7)
}

// preWalk: from the entry to the first arrival at the header
func (c *cmpAbs) preWalk(b, pred *ssa.BasicBlock, env map[ssa.Value]av, outs *[]cmpOutcome, budget *int) {
	c.walk(b, pred, env, false, outs, budget)
}

// loopShape checks init/step/condition of the induction variable; returns (descending, reason-if-bad)
func (c *cmpAbs) loopShape(off int64) (bool, string) {
	h := c.header
	if len(c.idx.Edges) != 2 {
		return false, "the loop header has more than two predecessors"
	}
	var init, back ssa.Value
	for i, pr := range h.Preds {
		if h.Dominates(pr) {
			back = c.idx.Edges[i]
		} else {
			init = c.idx.Edges[i]
		}
	}
	if init == nil || back == nil {
		return false, "cannot separate the entry edge from the back edge"
	}
	st := c.idxEval(back)
	if !st.ok || st.cp != 1 || st.cl != 0 || (st.k != 1 && st.k != -1) {
		return false, "the index does not advance by exactly one per iteration"
	}
	saveIdx := c.idx
	in := c.idxEval(init)
	c.idx = saveIdx
	if !in.ok || in.cp != 0 {
		return false, "the initial index is not a linear expression of l"
	}
	// condition at the header
	var iff *ssa.If
	for _, x := range h.Instrs {
		if f, ok := x.(*ssa.If); ok {
			iff = f
		}
	}
	if iff == nil {
		return false, "the loop header does not test the index"
	}
	bo, ok := iff.Cond.(*ssa.BinOp)
	if !ok {
		return false, "the loop condition is not a comparison"
	}
	x, y := c.idxEval(bo.X), c.idxEval(bo.Y)
	if !x.ok || !y.ok {
		return false, "the loop condition is not linear in the index and l"
	}
	// normalise to: continue iff cp*i + cl*l + k >= 0, with the true edge entering the loop
	d := idxLin{x.cp - y.cp, x.cl - y.cl, x.k - y.k, true} // X - Y
	var g idxLin
	switch bo.Op {
	case token.GEQ:
		g = d
	case token.GTR:
		g = idxLin{d.cp, d.cl, d.k - 1, true}
	case token.LEQ:
		g = idxLin{-d.cp, -d.cl, -d.k, true}
	case token.LSS:
		g = idxLin{-d.cp, -d.cl, -d.k - 1, true}
	default:
		return false, "unsupported loop condition " + bo.Op.String()
	}
	// which successor is the loop body?
	bodyTrue := h.Dominates(h.Succs[0]) && c.reaches(h.Succs[0], h)
	if !bodyTrue {
		return false, "the true edge of the loop condition does not enter the body"
	}
	if c.reaches(h.Succs[1], h) {
		return false, "both edges of the loop condition stay in the loop"
	}
	if st.k == -1 {
		// descending: continue iff i >= m  =>  g = i - m ; first index i0 = in ; positions i+off from i0+off down to m+off
		if g.cp != 1 {
			return true, "descending index with a condition that is not a lower bound"
		}
		// m = -(cl*l + k)
		mcl, mk := -g.cl, -g.k
		if in.cl != 1 || in.k+off != -1 {
			return true, fmt.Sprintf("the first position read is %d*l%+d, not l-1", in.cl, in.k+off)
		}
		if mcl != 0 || mk+off != 0 {
			return true, fmt.Sprintf("the last position read is %d*l%+d, not 0", mcl, mk+off)
		}
		return true, ""
	}
	// ascending: continue iff i <= m => g = m - i
	if g.cp != -1 {
		return false, "ascending index with a condition that is not an upper bound"
	}
	mcl, mk := g.cl, g.k
	if in.cl != 0 || in.k+off != 0 {
		return false, fmt.Sprintf("the first position read is %d*l%+d, not 0", in.cl, in.k+off)
	}
	if mcl != 1 || mk+off != -1 {
		return false, fmt.Sprintf("the last position read is %d*l%+d, not l-1", mcl, mk+off)
	}
	return false, ""
}

func (c *cmpAbs) reaches(from, to *ssa.BasicBlock) bool {
	seen := map[*ssa.BasicBlock]bool{}
	var f func(x *ssa.BasicBlock) bool
	f = func(x *ssa.BasicBlock) bool {
		if x == to {
			return true
		}
		if seen[x] {
			return false
		}
		seen[x] = true
		for _, s := range x.Succs {
			if f(s) {
				return true
			}
		}
		return false
	}
	return f(from)
}
