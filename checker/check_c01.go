package main

import (
	"fmt"
	"go/types"
	"strings"

	"golang.org/x/tools/go/ssa"
)

func init() { register("C01", "other", checkC01) }

func isByteSlice(t types.Type) bool {
	sl, ok := t.Underlying().(*types.Slice)
	if !ok {
		return false
	}
	b, ok := sl.Elem().Underlying().(*types.Basic)
	return ok && (b.Kind() == types.Uint8 || b.Kind() == types.Byte)
}

// sameSlice: v is prm itself (through type changes), not a reslice.
func sameSlice(v ssa.Value, prm ssa.Value) bool {
	for i := 0; i < 10; i++ {
		if v == prm {
			return true
		}
		switch x := v.(type) {
		case *ssa.ChangeType:
			v = x.X
		case *ssa.Slice:
			if x.Low == nil && x.High == nil {
				v = x.X
				continue
			}
			return false
		default:
			return false
		}
	}
	return false
}

type demandInfo struct {
	why string
}

// computeDemanding: parameter p of f is fixed-width-demanding when f (or a callee it forwards p to unchanged) indexes p with an
// index that is not provably below len(p) under the dominating guards, and f does not guard len(p) itself.
func computeDemanding(p *Prog) map[*ssa.Function]map[int]demandInfo {
	out := map[*ssa.Function]map[int]demandInfo{}
	fns := p.RepoFuncs()
	for iter := 0; iter < 10; iter++ {
		changed := false
		for _, fn := range fns {
			if len(fn.Blocks) == 0 {
				continue
			}
			env := NewLinEnv(p, fn)
			for pi, prm := range fn.Params {
				if !isByteSlice(prm.Type()) {
					continue
				}
				if _, done := out[fn][pi]; done {
					continue
				}
				lenP := linTerm("len("+prm.Name()+")", true)
				why := ""
				for _, b := range fn.Blocks {
					var facts []Fact
					haveFacts := false
					getFacts := func() []Fact {
						if !haveFacts {
							facts = env.FactsAt(b)
							haveFacts = true
						}
						return facts
					}
					for _, in := range b.Instrs {
						switch x := in.(type) {
						case *ssa.IndexAddr:
							if !sameSlice(x.X, prm) {
								continue
							}
							need := lenP.Sub(env.Int(x.Index)).Add(linConst(-1))
							if !ProveNonNeg(need, getFacts()) {
								why = fmt.Sprintf("indexes %s[%s] at %s without a dominating length guard", prm.Name(), env.Int(x.Index).String(), p.InstrPos(x))
							}
						case *ssa.Slice:
							if x.X != ssa.Value(prm) || x.High == nil {
								continue
							}
							need := lenP.Sub(env.Int(x.High))
							if !ProveNonNeg(need, getFacts()) {
								// reslicing up to cap is legal Go: only a demand when the result is then used as a fixed-width block (conservative: demand)
								why = fmt.Sprintf("reslices %s[:%s] at %s without a dominating length guard", prm.Name(), env.Int(x.High).String(), p.InstrPos(x))
							}
						case ssa.CallInstruction:
							cal := x.Common().StaticCallee()
							if cal == nil {
								continue
							}
							for j, a := range x.Common().Args {
								if !sameSlice(a, prm) {
									continue
								}
								d, isDem := out[cal][j]
								if cal.String() == modPath+"/utils.ConstantTimeCmp" || isDem {
									if !lenFixedByFacts(lenP, getFacts()) {
										if isDem {
											why = fmt.Sprintf("forwards %s to %s#%s at %s (%s)", prm.Name(), cal.Name(), cal.Params[j].Name(), p.InstrPos(in), d.why)
										}
									}
								}
							}
						}
					}
				}
				if why != "" {
					if out[fn] == nil {
						out[fn] = map[int]demandInfo{}
					}
					out[fn][pi] = demandInfo{why}
					changed = true
				}
			}
		}
		if !changed {
			break
		}
	}
	return out
}

// lenFixedByFacts: the dominating guards pin len(x) to a constant (len(x) == c).
func lenFixedByFacts(lenX *Lin, facts []Fact) bool {
	for _, f := range facts {
		if !f.Eq {
			continue
		}
		d := f.E
		// d == 0 with d = ±(len(x) - c)
		if len(d.T) == 1 {
			for k, c := range d.T {
				if (c == 1 || c == -1) && lenX.T[k] == 1 {
					return true
				}
			}
		}
	}
	return false
}

func checkC01(c *Ctx, r *Report) {
	r.Explanation = "Decided on the outcomes of a path-by-path interpretation of SignHashed and VerifyHashed in the protocol domain (checker/proto*.go): PRECONDITIONS - every scalar handed to the scalar-multiplication layer or to the fixed-width comparison is exactly 32 bytes long on its path, every value written with a fixed width fits it, every point whose coordinates are used is finite (this is the 'r, s or (r+s) mod n with leading zero bytes' class: a minimal-length encoding reaching a fixed-width consumer violates it); SIGN-WIDTH - r and s are returned as 32-byte big-endian encodings; the signer's and the verifier's value rules (the same obligations as C02 / C03: s = (1+d)^-1 (k - r d) mod n on one side, ((e + x([s]G + [r+s]P)) mod n) == r on the other), which are the two halves of the round trip; L-IDX: no index or slice expression in sm2, sm2/internal, utils, fiat whose length set has a member that definitely fails the bound. NOT decided: the final algebraic step that composes the two halves ([s]G + [r+s][d]G = [k]G needs the group law, C14/C15)."
	r.Trusted = []string{"go/ssa", "contracts summarised in checker/proto2.go", "(*big.Int).Bytes() returns a minimal-length encoding (any length from 0 up)"}
	p, err := LoadRepo(c.Repo, "amd64")
	if err != nil {
		r.Fatalf("%v", err)
		return
	}
	protoSignHashed(r, p)
	protoVerifyHashed(r, p)
	// d = n-2 is a valid key: d+1 = n-1 must be accepted by the scalar decoder SignHashed uses (its error is ignored there)
	if ps := newProtoSpecMode(r, p, "sm2/internal/fiat.(*SM2ScalarElement).SetBytes", false); ps != nil {
		ps.specElemDecode("N")
	}
	lidx(r, p, []string{"sm2", "sm2/internal", "utils", "sm2/internal/fiat"})
	r.Floor("index_exprs", 150)
	r.Floor("protocol_paths", 12)
}

func isFoldedConst(s string) bool {
	switch s {
	case "N", "P", "N-1", "P-1", "1", "0":
		return true
	}
	return strings.HasPrefix(s, "#") || strings.HasPrefix(s, "CurveParams") || strings.Contains(s, "Params().")
}

// varlenUses follows the uses of a minimal-length byte string and reports the illegal ones.
func varlenUses(p *Prog, env *LinEnv, v ssa.Value, dem map[*ssa.Function]map[int]demandInfo, depth int) []string {
	var bad []string
	if v.Referrers() == nil || depth > 3 {
		return nil
	}
	lenV := linTerm("len("+env.sliceKey(v)+")", true)
	for _, ref := range *v.Referrers() {
		switch x := ref.(type) {
		case *ssa.DebugRef:
		case *ssa.Call:
			if b, ok := x.Call.Value.(*ssa.Builtin); ok {
				switch b.Name() {
				case "len", "cap", "append", "copy":
					continue
				}
			}
			cal := x.Call.StaticCallee()
			if cal == nil {
				continue // interface call (hash.Write ...): length-tolerant by contract
			}
			for j, a := range x.Call.Args {
				if a != v {
					continue
				}
				name := cal.String()
				_, isDem := dem[cal][j]
				if name == modPath+"/utils.ConstantTimeCmp" {
					isDem = true
				}
				if !isDem {
					continue
				}
				facts := env.FactsAt(x.Block())
				if lenFixedByFacts(lenV, facts) {
					continue
				}
				why := ""
				if d, ok := dem[cal][j]; ok {
					why = " (" + d.why + ")"
				}
				bad = append(bad, fmt.Sprintf("reaches fixed-width-demanding parameter %s#%s at %s without a dominating length guard%s", cal.Name(), cal.Params[j].Name(), p.InstrPos(x), why))
			}
		case *ssa.IndexAddr:
			facts := env.FactsAt(x.Block())
			need := lenV.Sub(env.Int(x.Index)).Add(linConst(-1))
			if !ProveNonNeg(need, facts) {
				bad = append(bad, fmt.Sprintf("indexed at %s without a dominating length guard", p.InstrPos(x)))
			}
		case *ssa.Slice:
			if x.Low == nil && x.High == nil {
				bad = append(bad, varlenUses(p, env, x, dem, depth+1)...)
			}
		case *ssa.Phi:
			bad = append(bad, varlenUses(p, env, x, dem, depth+1)...)
		case *ssa.Return:
			// returning a minimal-length encoding: the callers are examined through the length summaries (L-RET)
		case *ssa.Store, *ssa.MakeInterface, *ssa.ChangeType:
		}
	}
	return bad
}

// lidx: L-IDX — index/slice expressions whose length set has a member that definitely fails the bound.
func lidx(r *Report, p *Prog, pkgs []string) {
	in := map[string]bool{}
	for _, k := range pkgs {
		in[k] = true
	}
	for _, fn := range p.RepoFuncs() {
		if fn.Pkg == nil || !in[shortPkg(fn.Pkg.Pkg.Path())] || len(fn.Blocks) == 0 {
			continue
		}
		env := NewLinEnv(p, fn)
		env.lenSum = func(c2 *ssa.Function, call2 *ssa.Call, en *LinEnv) ([]*Lin, bool) {
			return retLenSummary(p, c2, 0, call2, en, 0)
		}
		n := 0
		for _, b := range fn.Blocks {
			var facts []Fact
			got := false
			for _, ins := range b.Instrs {
				var x ssa.Value
				var bound *Lin
				strict := true
				what := ""
				switch y := ins.(type) {
				case *ssa.IndexAddr:
					x, bound, what = y.X, env.Int(y.Index), "index"
				case *ssa.Slice:
					if y.High != nil {
						x, bound, strict, what = y.X, env.Int(y.High), false, "slice high bound"
					} else if y.Low != nil {
						x, bound, strict, what = y.X, env.Int(y.Low), false, "slice low bound"
					} else {
						continue
					}
				default:
					continue
				}
				r.Count("index_exprs", 1)
				ls, ok := env.Len(x)
				if !ok {
					continue
				}
				if !got {
					facts = env.FactsAt(b)
					got = true
				}
				// a definite failure: the bound is out of range for EVERY length the operand can have on this path
				// (a length set with one failing member only says that some other path condition must exclude it;
				// that is decided semantically by the PRECONDITIONS rule of the protocol domain)
				allFail := len(ls) > 0
				for _, l := range ls {
					need := l.Sub(bound)
					if strict {
						need = need.Add(linConst(-1))
					}
					if Decide(need, facts) != -1 {
						allFail = false
					}
				}
				if allFail {
					n++
					r.Viol("L-IDX", fmt.Sprintf("%s: %s %s of a value of length %s", p.FuncName(fn), what, bound.String(), strings.Join(linStrs(ls), " or ")), p.InstrPos(ins), "for every length the operand can have on this path the bound "+bound.String()+" is out of range: run-time panic")
				}
			}
		}
		if n == 0 {
			r.Ok("L-IDX", p.FuncName(fn), p.Pos(fn.Pos()), "no index or slice bound that definitely exceeds a possible operand length")
		}
	}
}
