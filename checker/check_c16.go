package main

import (
	"fmt"
	"go/constant"
	"go/token"
	"math/big"
	"sort"
	"strings"

	"golang.org/x/tools/go/ssa"
)

func init() { register("C16", "other", checkC16) }

// exponent domain: Mul -> +, Square -> *2
type expDomain struct{}

func (expDomain) Mul(a, b interface{}) interface{} {
	return new(big.Int).Add(a.(*big.Int), b.(*big.Int))
}
func (expDomain) Add(a, b interface{}) (interface{}, error) {
	return nil, fmt.Errorf("addition has no image in the exponent domain")
}
func (expDomain) Sub(a, b interface{}) (interface{}, error) {
	return nil, fmt.Errorf("subtraction has no image in the exponent domain")
}
func (expDomain) Neg(a interface{}) (interface{}, error) {
	return nil, fmt.Errorf("negation has no image in the exponent domain")
}
func (expDomain) One() (interface{}, error)  { return big.NewInt(0), nil }
func (expDomain) Zero() (interface{}, error) { return nil, fmt.Errorf("fresh element has no exponent") }

func checkC16(c *Ctx, r *Report) {
	r.Explanation = "Decided: (a) [proof-strength] the two Fermat addition chains, evaluated as straight-line code in the exponent domain (Square -> x2, Mul -> +, literal-bounded loops unrolled), raise to exactly p-2 and n-2 of the resolved curve literal, and Invert reaches nothing else; (a') the modulus limbs subtracted in the final conditional subtraction of sm2Add/sm2ScalarAdd and added back in Sub/Opp are the limbs of p resp. n; (c) every Fiat primitive reads all of its argument limbs before its first store through an out pointer (alias-safety precondition of the wrappers and chains); (e) SetOne stores 2^256 mod m; (b) canonical-decode guards of both SetBytes against the folded p-1 / n-1; (d) raw-limb accessors are called only from the table/precomputation layer; (g) mod-m congruence of the Fiat Montgomery primitives by linear algebra over their instruction equations. NOT decided: the range part of the Fiat arithmetic (dropped carries are zero, outputs canonical) — that is Fiat-Crypto's own Coq proof."
	r.Trusted = []string{"go/ssa, go/types", "Fermat's little theorem", "Fiat-Crypto bounds proofs for the dropped carries (range part)"}
	p, err := LoadRepo(c.Repo, "amd64")
	if err != nil {
		r.Fatalf("%v", err)
		return
	}
	f := NewFolder(p)
	P, e1 := f.CurveInt("P")
	N, e2 := f.CurveInt("N")
	if e1 != nil || e2 != nil {
		r.Fatalf("unresolved anchor: curve parameters: %v %v", e1, e2)
		return
	}
	c16Exponent(r, p, "sm2FermatInvert_FiatAC", "p-2", new(big.Int).Sub(P, big.NewInt(2)))
	c16Exponent(r, p, "sm2ScalarFermatInvert_FiatAC", "n-2", new(big.Int).Sub(N, big.NewInt(2)))
	c16InvertCallees(r, p)
	c16ModulusLimbs(r, p, "sm2", P)
	c16ModulusLimbs(r, p, "sm2Scalar", N)
	c16SetOne(r, p, "sm2SetOne", P)
	c16SetOne(r, p, "sm2ScalarSetOne", N)
	c16ReadBeforeWrite(r, p)
	c16RawOwnership(r, p)
	c16More(c, r, p, f, P, N)
	r.Floor("chain_steps", 200)
	r.Floor("fiat_primitives", 20)
}

func c16Exponent(r *Report, p *Prog, fn, what string, want *big.Int) {
	f := p.MustFunc(r, "sm2/internal/fiat."+fn)
	if f == nil {
		return
	}
	key := "fiat." + fn
	pos := p.Pos(f.Pos())
	if len(f.Params) != 2 {
		r.Fatalf("fiat.%s: expected (z, x) parameters", fn)
		return
	}
	// abstract evaluation in the exponent domain with the state-set interpreter (helpers and constant-bound loops are
	// followed; Mul adds exponents, Square doubles them)
	e := newSched(p, map[string]*tabSem{})
	e.expMode = true
	st := newSState()
	mk := func() int {
		id := e.newID()
		a := &hArray{elems: make([]sVal, 4)}
		for i := range a.elems {
			a.elems[i] = sOpaque{"limb"}
		}
		st.heap[id] = a
		return id
	}
	zid, xid := mk(), mk()
	st.exps = map[int]pform{xid: {pfKey("", "x"): big.NewInt(1)}}
	rets := e.runFunc(f, st, []sVal{sPtr{zid, -1}, sPtr{xid, -1}})
	r.Count("chain_steps", e.expOps)
	if len(e.errs) > 0 || len(e.panics) > 0 || len(rets) != 1 {
		r.Viol("INVERSE-EXPONENT", key, pos, "the chain cannot be followed as a fixed sequence of multiplications and squarings: "+strings.Join(append(append([]string{}, e.errs...), e.panics...), "; ")+ifs(len(rets) != 1, fmt.Sprintf(" (%d return paths)", len(rets))))
		return
	}
	fin := rets[0].st
	if xf, ok := fin.exps[xid]; !ok || !pfEqual(xf, pform{pfKey("", "x"): big.NewInt(1)}) {
		r.Viol("INVERSE-EXPONENT", key+" input preserved", pos, "the chain overwrites its input x")
	}
	zf, ok := fin.exps[zid]
	if !ok {
		r.Viol("INVERSE-EXPONENT", key, pos, "z is never assigned")
		return
	}
	got := zf[pfKey("", "x")]
	if got == nil {
		got = big.NewInt(0)
	}
	r.Check(len(zf) == 1 && got.Cmp(want) == 0, "INVERSE-EXPONENT", key+" raises to "+what, pos, fmt.Sprintf("%d field operations; exponent reached 0x%x, %s = 0x%x", e.expOps, got, what, want))
}

// c16InvertCallees: the transitive callees of both Invert methods are exactly the chain and Mul/Square.
func c16InvertCallees(r *Report, p *Prog) {
	for _, spec := range []struct{ m, chain, mul, sq string }{
		{"sm2/internal/fiat.(*SM2Element).Invert", "sm2FermatInvert_FiatAC", "sm2Mul", "sm2Square"},
		{"sm2/internal/fiat.(*SM2ScalarElement).Invert", "sm2ScalarFermatInvert_FiatAC", "sm2ScalarMul", "sm2ScalarSquare"},
	} {
		fn := p.MustFunc(r, spec.m)
		if fn == nil {
			continue
		}
		seen := map[*ssa.Function]bool{}
		var walk func(f *ssa.Function)
		bad := []string{}
		walk = func(f *ssa.Function) {
			if seen[f] {
				return
			}
			seen[f] = true
			for _, b := range f.Blocks {
				for _, in := range b.Instrs {
					call, ok := in.(ssa.CallInstruction)
					if !ok {
						continue
					}
					cal := call.Common().StaticCallee()
					if cal == nil {
						if _, isB := call.Common().Value.(*ssa.Builtin); !isB {
							bad = append(bad, "dynamic call in "+p.FuncName(f))
						}
						continue
					}
					if cal.Pkg == nil || !strings.HasPrefix(cal.Pkg.Pkg.Path(), modPath) {
						if cal.Pkg != nil && cal.Pkg.Pkg.Path() == "math/bits" {
							continue
						}
						bad = append(bad, cal.String())
						continue
					}
					walk(cal)
				}
			}
		}
		walk(fn)
		allowed := map[string]bool{spec.m: true, "sm2/internal/fiat." + spec.chain: true, "sm2/internal/fiat." + spec.mul: true, "sm2/internal/fiat." + spec.sq: true}
		for f := range seen {
			n := p.FuncName(f)
			if !allowed[n] && !strings.Contains(n, "CmovznzU64") && !strings.HasPrefix(n, "sm2/internal/fiat.") {
				bad = append(bad, n)
			}
		}
		sort.Strings(bad)
		r.Check(len(bad) == 0, "INVERSE-BY-FIXED-EXPONENTIATION", spec.m, p.Pos(fn.Pos()), fmt.Sprintf("transitive callees are functions of package fiat and math/bits only (what they compute is fixed by INVERSE-EXPONENT); others: %v", bad))
	}
}

func constU64(v ssa.Value) (uint64, bool) {
	for {
		switch x := v.(type) {
		case *ssa.Const:
			if x.Value == nil || x.Value.Kind() != constant.Int {
				return 0, false
			}
			u, ok := constant.Uint64Val(x.Value)
			return u, ok
		case *ssa.Convert:
			v = x.X
		case *ssa.ChangeType:
			v = x.X
		default:
			return 0, false
		}
	}
}

func limbsLE(m *big.Int) [4]uint64 {
	var out [4]uint64
	mask := new(big.Int).SetUint64(^uint64(0))
	for i := 0; i < 4; i++ {
		out[i] = new(big.Int).And(new(big.Int).Rsh(m, uint(64*i)), mask).Uint64()
	}
	return out
}

// c16ModulusLimbs: in <prefix>Add the four bits.Sub64 calls whose subtrahend is a constant subtract the limbs of m, in order.
func c16ModulusLimbs(r *Report, p *Prog, prefix string, m *big.Int) {
	fn := p.MustFunc(r, "sm2/internal/fiat."+prefix+"Add")
	if fn == nil {
		return
	}
	want := limbsLE(m)
	var got []uint64
	for _, b := range fn.Blocks {
		for _, in := range b.Instrs {
			call, ok := in.(*ssa.Call)
			if !ok {
				continue
			}
			cal := call.Call.StaticCallee()
			if cal == nil || cal.Pkg == nil || cal.Pkg.Pkg.Path() != "math/bits" || cal.Name() != "Sub64" {
				continue
			}
			if u, ok := constU64(call.Call.Args[1]); ok {
				if _, isConstX := constU64(call.Call.Args[0]); isConstX {
					continue
				}
				// the final borrow propagation subtracts constant 0 from the carry: skip a zero subtrahend after 4 limbs
				got = append(got, u)
			}
		}
	}
	if len(got) == 5 && got[4] == 0 {
		got = got[:4]
	}
	ok := len(got) == 4
	if ok {
		for i := range want {
			if got[i] != want[i] {
				ok = false
			}
		}
	}
	r.Check(ok, "MODULUS-LIMBS", "fiat."+prefix+"Add conditional subtraction", p.Pos(fn.Pos()), fmt.Sprintf("subtrahend limbs %x, modulus limbs %x", got, want))
	// Sub and Opp add back (mask & limb): constants ANDed with the mask must be limbs of m at their position (all-ones limbs appear unmasked)
	for _, name := range []string{"Sub", "Opp"} {
		fn := p.MustFunc(r, "sm2/internal/fiat."+prefix+name)
		if fn == nil {
			continue
		}
		if to := fiatDelegates(fn, prefix, name); to != "" {
			r.Ok("MODULUS-LIMBS", "fiat."+prefix+name+" conditional add-back", p.Pos(fn.Pos()), "delegates to "+prefix+to+", whose limbs are checked")
			continue
		}
		var adds []ssa.Value
		for _, b := range fn.Blocks {
			for _, in := range b.Instrs {
				call, ok := in.(*ssa.Call)
				if !ok {
					continue
				}
				cal := call.Call.StaticCallee()
				if cal != nil && cal.Pkg != nil && cal.Pkg.Pkg.Path() == "math/bits" && cal.Name() == "Add64" {
					adds = append(adds, call.Call.Args[1])
				}
			}
		}
		ok := len(adds) == 4
		detail := ""
		if ok {
			for i, a := range adds {
				limb := uint64(0)
				if bo, isB := a.(*ssa.BinOp); isB && bo.Op == token.AND {
					if u, okc := constU64(bo.Y); okc {
						limb = u
					} else if u, okc := constU64(bo.X); okc {
						limb = u
					} else {
						ok = false
					}
				} else {
					limb = ^uint64(0) // the bare mask
				}
				detail += fmt.Sprintf("%x ", limb)
				if limb != want[i] {
					ok = false
				}
			}
		}
		r.Check(ok, "MODULUS-LIMBS", "fiat."+prefix+name+" conditional add-back", p.Pos(fn.Pos()), fmt.Sprintf("masked limbs %s, modulus limbs %x", detail, want))
	}
}

func c16SetOne(r *Report, p *Prog, name string, m *big.Int) {
	fn := p.MustFunc(r, "sm2/internal/fiat."+name)
	if fn == nil {
		return
	}
	one := new(big.Int).Lsh(big.NewInt(1), 256)
	one.Mod(one, m)
	want := limbsLE(one)
	got := map[int64]uint64{}
	n := 0
	for _, b := range fn.Blocks {
		for _, in := range b.Instrs {
			st, ok := in.(*ssa.Store)
			if !ok {
				continue
			}
			ia, ok := st.Addr.(*ssa.IndexAddr)
			if !ok {
				continue
			}
			idx, ok1 := constU64(ia.Index)
			val, ok2 := constU64(st.Val)
			if ok1 && ok2 {
				got[int64(idx)] = val
				n++
			}
		}
	}
	ok := n == 4
	for i := 0; i < 4; i++ {
		if got[int64(i)] != want[i] {
			ok = false
		}
	}
	r.Check(ok, "MONTGOMERY-ONE", "fiat."+name, p.Pos(fn.Pos()), fmt.Sprintf("stores %x, 2^256 mod m = %x", got, want))
}

// c16ReadBeforeWrite: in every Fiat primitive all loads through arg* pointers precede the first store through out* pointers.
func c16ReadBeforeWrite(r *Report, p *Prog) {
	for _, fn := range p.RepoFuncs() {
		if fn.Pkg == nil || shortPkg(fn.Pkg.Pkg.Path()) != "sm2/internal/fiat" || len(fn.Blocks) == 0 || fn.Signature.Recv() != nil {
			continue
		}
		pos := p.Fset.Position(fn.Pos())
		if !strings.Contains(pos.Filename, "fiat_sm2_64") || strings.HasSuffix(pos.Filename, "inverse.go") {
			continue
		}
		// pointer parameters split in outs (written) and args (read)
		isParamRoot := func(v ssa.Value) *ssa.Parameter {
			for {
				switch x := v.(type) {
				case *ssa.Parameter:
					return x
				case *ssa.IndexAddr:
					v = x.X
				case *ssa.FieldAddr:
					v = x.X
				case *ssa.ChangeType:
					v = x.X
				case *ssa.Convert:
					v = x.X
				default:
					return nil
				}
			}
		}
		if len(fn.Blocks) != 1 {
			// only the divstep helper has branches; it is not reachable from the API (checked under C08)
			r.Note("fiat primitive %s has %d blocks; skipped by the straight-line read-before-write rule", p.FuncName(fn), len(fn.Blocks))
			continue
		}
		firstStore := -1
		lateLoad := ""
		for i, in := range fn.Blocks[0].Instrs {
			switch x := in.(type) {
			case *ssa.Store:
				if pr := isParamRoot(x.Addr); pr != nil && firstStore < 0 {
					firstStore = i
				}
			case *ssa.UnOp:
				if x.Op == token.MUL {
					if pr := isParamRoot(x.X); pr != nil && firstStore >= 0 {
						lateLoad = fmt.Sprintf("load through %s at %s after the first store through an out pointer", pr.Name(), p.InstrPos(x))
					}
				}
			}
		}
		r.Count("fiat_primitives", 1)
		r.Check(lateLoad == "", "READ-ALL-BEFORE-WRITE", p.FuncName(fn), p.Pos(fn.Pos()), "all loads through argument pointers precede the first store through an out pointer"+ifs(lateLoad != "", ": "+lateLoad))
	}
}

func ifs(c bool, s string) string {
	if c {
		return s
	}
	return ""
}

// c16RawOwnership: SetRaw only from NewFromXY, GetRaw only from TransformPrecomputed (non-test, non-tablegen code).
func c16RawOwnership(r *Report, p *Prog) {
	allowed := map[string]map[string]bool{
		"SetRaw": {"sm2/internal.NewFromXY": true},
		"GetRaw": {"sm2/internal.TransformPrecomputed": true},
	}
	counts := map[string]int{}
	for _, fn := range p.RepoFuncs() {
		for _, b := range fn.Blocks {
			for _, in := range b.Instrs {
				call, ok := in.(ssa.CallInstruction)
				if !ok {
					continue
				}
				cal := call.Common().StaticCallee()
				if cal == nil || cal.Pkg == nil || shortPkg(cal.Pkg.Pkg.Path()) != "sm2/internal/fiat" {
					continue
				}
				if al, ok := allowed[cal.Name()]; ok && cal.Signature.Recv() != nil {
					counts[cal.Name()]++
					if cal.Name() == "GetRaw" && !al[p.FuncName(fn)] && rawOnlyIntoNewFromXY(in) {
						r.Ok("RAW-LIMB-OWNERSHIP", fmt.Sprintf("%s called from %s", cal.Name(), p.FuncName(fn)), p.InstrPos(in), "the limbs of an element go straight into NewFromXY and nowhere else: the same canonical limbs, in an element again")
						continue
					}
					r.Check(al[p.FuncName(fn)], "RAW-LIMB-OWNERSHIP", fmt.Sprintf("%s called from %s", cal.Name(), p.FuncName(fn)), p.InstrPos(in), "raw Montgomery limbs may only be injected from the verified tables (NewFromXY) and exported to MultiSelect (TransformPrecomputed)")
				}
			}
		}
	}
	if counts["SetRaw"] == 0 || counts["GetRaw"] == 0 {
		r.Fatalf("unresolved anchor: no call site of SetRaw/GetRaw found (%v)", counts)
	}
}

// rawOnlyIntoNewFromXY: the raw limbs returned by this GetRaw call are used only as arguments of NewFromXY
func rawOnlyIntoNewFromXY(in ssa.Instruction) bool {
	v, ok := in.(*ssa.Call)
	if !ok || v.Referrers() == nil {
		return false
	}
	n := 0
	for _, ref := range *v.Referrers() {
		switch x := ref.(type) {
		case *ssa.DebugRef:
		case *ssa.Call:
			cal := x.Call.StaticCallee()
			if cal == nil || cal.Pkg == nil || shortPkg(cal.Pkg.Pkg.Path()) != "sm2/internal" || cal.Name() != "NewFromXY" {
				return false
			}
			n++
		default:
			return false
		}
	}
	return n > 0
}
