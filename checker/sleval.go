package main

// Engine G6(b): abstract evaluation of straight-line field-arithmetic code in a homomorphic image domain
// (exponents for the addition chains, polynomials for the point formulas). One path, literal-bounded
// counting loops are unrolled by the analysis, no path conditions, no solver.

import (
	"fmt"
	"go/ast"
	"go/token"
	"go/types"
	"strings"

	"golang.org/x/tools/go/packages"
)

// domain of abstract values
type slDomain interface {
	Mul(a, b interface{}) interface{}
	Add(a, b interface{}) (interface{}, error)
	Sub(a, b interface{}) (interface{}, error)
	Neg(a interface{}) (interface{}, error)
	One() (interface{}, error)
	Zero() (interface{}, error)
}

type slCell struct {
	id    string
	val   interface{}
	input bool // an operand object that may alias the receiver's fields
}

type slEval struct {
	p       *Prog
	pk      *packages.Package
	dom     slDomain
	vars    map[types.Object]*slCell // local pointer variables -> cell
	fields  map[string]*slCell       // "param.field" -> cell
	globals map[types.Object]*slCell
	// aliasing discipline
	outFields     map[string]bool // receiver fields written so far
	outRecv       types.Object
	inputRecvs    map[types.Object]bool
	problems      []string
	undecided     []string
	ops           int
	fieldInit     func(param types.Object, field string) (interface{}, bool)
	globalInit    func(obj types.Object) (interface{}, bool)
	lateInputRead []string
}

func (ev *slEval) undec(format string, a ...interface{}) {
	ev.undecided = append(ev.undecided, fmt.Sprintf(format, a...))
}

// cellOf resolves an expression denoting an element pointer to its cell (creating input cells lazily).
func (ev *slEval) cellOf(e ast.Expr, forWrite bool) *slCell {
	info := ev.pk.TypesInfo
	switch e := e.(type) {
	case *ast.ParenExpr:
		return ev.cellOf(e.X, forWrite)
	case *ast.Ident:
		obj := info.Uses[e]
		if obj == nil {
			obj = info.Defs[e]
		}
		if c, ok := ev.vars[obj]; ok {
			return c
		}
		if v, ok := obj.(*types.Var); ok && v.Parent() == v.Pkg().Scope() {
			if c, ok := ev.globals[obj]; ok {
				return c
			}
			if ev.globalInit != nil {
				if val, ok := ev.globalInit(obj); ok {
					c := &slCell{id: "global " + obj.Name(), val: val}
					ev.globals[obj] = c
					return c
				}
			}
		}
		ev.undec("cannot resolve operand %s at %s", e.Name, ev.p.Pos(e.Pos()))
		return nil
	case *ast.SelectorExpr:
		// param.field
		if id, ok := e.X.(*ast.Ident); ok {
			obj := info.Uses[id]
			key := id.Name + "." + e.Sel.Name
			if c, ok := ev.fields[key]; ok {
				if forWrite && obj == ev.outRecv {
					ev.outFields[e.Sel.Name] = true
				}
				if !forWrite && ev.inputRecvs[obj] && ev.outFields[e.Sel.Name] {
					ev.lateInputRead = append(ev.lateInputRead, fmt.Sprintf("%s read at %s after the receiver's (possibly aliasing) field %s was written", key, ev.p.Pos(e.Pos()), e.Sel.Name))
				}
				return c
			}
			if ev.fieldInit != nil {
				if val, ok := ev.fieldInit(obj, e.Sel.Name); ok {
					c := &slCell{id: key, val: val, input: true}
					ev.fields[key] = c
					if forWrite && obj == ev.outRecv {
						ev.outFields[e.Sel.Name] = true
					}
					if !forWrite && ev.inputRecvs[obj] && ev.outFields[e.Sel.Name] {
						ev.lateInputRead = append(ev.lateInputRead, fmt.Sprintf("%s read at %s after the receiver's (possibly aliasing) field %s was written", key, ev.p.Pos(e.Pos()), e.Sel.Name))
					}
					return c
				}
			}
		}
		ev.undec("cannot resolve operand %s at %s", types.ExprString(e), ev.p.Pos(e.Pos()))
		return nil
	case *ast.CallExpr:
		return ev.call(e)
	case *ast.UnaryExpr:
		if e.Op == token.AND {
			return ev.cellOf(e.X, forWrite)
		}
	}
	ev.undec("unsupported operand expression %s at %s", types.ExprString(e), ev.p.Pos(e.Pos()))
	return nil
}

func keysOf(m map[string]bool) []string {
	var out []string
	for k := range m {
		out = append(out, k)
	}
	return out
}

var slOps = map[string]string{
	"Mul": "mul", "Square": "sq", "Add": "add", "Sub": "sub", "Opp": "neg", "Set": "set", "One": "one",
	"sm2Mul": "mul", "sm2Square": "sq", "sm2ScalarMul": "mul", "sm2ScalarSquare": "sq",
	"sm2Add": "add", "sm2Sub": "sub", "sm2Opp": "neg", "sm2ScalarAdd": "add", "sm2ScalarSub": "sub", "sm2ScalarOpp": "neg",
}

// call evaluates new(T), method calls recv.Op(args...) and function calls op(out, args...); returns the written cell.
func (ev *slEval) call(e *ast.CallExpr) *slCell {
	info := ev.pk.TypesInfo
	if id, ok := e.Fun.(*ast.Ident); ok {
		if _, isB := info.Uses[id].(*types.Builtin); isB && id.Name == "new" {
			z, err := ev.dom.Zero()
			var v interface{}
			if err == nil {
				v = z
			}
			return &slCell{id: fmt.Sprintf("new@%s", ev.p.Pos(e.Pos())), val: v}
		}
	}
	var callee *types.Func
	var out *slCell
	var argExprs []ast.Expr
	switch fn := e.Fun.(type) {
	case *ast.SelectorExpr:
		if sel, ok := info.Selections[fn]; ok {
			callee, _ = sel.Obj().(*types.Func)
			argExprs = e.Args
			// evaluate args before touching the receiver as written
			defer func() {}()
			var args []*slCell
			for _, a := range argExprs {
				args = append(args, ev.cellOf(a, false))
			}
			out = ev.cellOf(fn.X, true)
			return ev.apply(callee, out, args, e)
		}
	case *ast.Ident:
		callee, _ = info.Uses[fn].(*types.Func)
		if callee != nil && len(e.Args) >= 1 {
			var args []*slCell
			for _, a := range e.Args[1:] {
				args = append(args, ev.cellOf(a, false))
			}
			out = ev.cellOf(e.Args[0], true)
			return ev.apply(callee, out, args, e)
		}
	}
	ev.undec("unsupported call %s at %s", types.ExprString(e), ev.p.Pos(e.Pos()))
	return nil
}

func (ev *slEval) apply(callee *types.Func, out *slCell, args []*slCell, e *ast.CallExpr) *slCell {
	if callee == nil || out == nil {
		ev.undec("unresolved call %s at %s", types.ExprString(e), ev.p.Pos(e.Pos()))
		return nil
	}
	for _, a := range args {
		if a == nil {
			return nil
		}
	}
	if callee.Pkg() == nil || !strings.HasSuffix(callee.Pkg().Path(), "sm2/internal/fiat") {
		ev.undec("call to %s is not a field operation (at %s)", callee.FullName(), ev.p.Pos(e.Pos()))
		return nil
	}
	op, ok := slOps[callee.Name()]
	if !ok {
		ev.undec("call to %s has no transfer function (at %s)", callee.FullName(), ev.p.Pos(e.Pos()))
		return nil
	}
	need := map[string]int{"mul": 2, "sq": 1, "add": 2, "sub": 2, "neg": 1, "set": 1, "one": 0}[op]
	if len(args) != need {
		ev.undec("%s with %d operands at %s", callee.Name(), len(args), ev.p.Pos(e.Pos()))
		return nil
	}
	for _, a := range args {
		if a.val == nil {
			ev.undec("operand %s has no value in this domain at %s", a.id, ev.p.Pos(e.Pos()))
			return nil
		}
	}
	var v interface{}
	var err error
	switch op {
	case "mul":
		v = ev.dom.Mul(args[0].val, args[1].val)
	case "sq":
		v = ev.dom.Mul(args[0].val, args[0].val)
	case "add":
		v, err = ev.dom.Add(args[0].val, args[1].val)
	case "sub":
		v, err = ev.dom.Sub(args[0].val, args[1].val)
	case "neg":
		v, err = ev.dom.Neg(args[0].val)
	case "set":
		v = args[0].val
	case "one":
		v, err = ev.dom.One()
	}
	if err != nil {
		ev.undec("%s at %s: %v", callee.Name(), ev.p.Pos(e.Pos()), err)
		return nil
	}
	out.val = v
	ev.ops++
	return out
}

// run evaluates a function body.
func (ev *slEval) run(body *ast.BlockStmt) {
	for _, st := range body.List {
		ev.stmt(st)
	}
}

func (ev *slEval) stmt(st ast.Stmt) {
	info := ev.pk.TypesInfo
	switch st := st.(type) {
	case *ast.ExprStmt:
		if c, ok := st.X.(*ast.CallExpr); ok {
			ev.call(c)
			return
		}
	case *ast.AssignStmt:
		if len(st.Lhs) == 1 && len(st.Rhs) == 1 {
			if id, ok := st.Lhs[0].(*ast.Ident); ok {
				c := ev.cellOf(st.Rhs[0], false)
				obj := info.Defs[id]
				if obj == nil {
					obj = info.Uses[id]
				}
				if c != nil && obj != nil {
					ev.vars[obj] = c
				}
				return
			}
		}
	case *ast.DeclStmt:
		if gd, ok := st.Decl.(*ast.GenDecl); ok && gd.Tok == token.VAR {
			for _, sp := range gd.Specs {
				vs := sp.(*ast.ValueSpec)
				if len(vs.Values) != len(vs.Names) {
					ev.undec("var declaration without initialiser at %s", ev.p.Pos(vs.Pos()))
					continue
				}
				for i, n := range vs.Names {
					c := ev.cellOf(vs.Values[i], false)
					if c != nil {
						ev.vars[info.Defs[n]] = c
					}
				}
			}
			return
		}
	case *ast.ReturnStmt:
		return
	case *ast.ForStmt:
		// for s := c0; s < c1; s++ { body } with literal bounds and no other use of s
		n, ok := ev.tripCount(st)
		if ok {
			for i := 0; i < n; i++ {
				ev.run(st.Body)
			}
			return
		}
	case *ast.BlockStmt:
		ev.run(st)
		return
	case *ast.EmptyStmt:
		return
	}
	ev.undec("statement not evaluable in a straight-line domain at %s", ev.p.Pos(st.Pos()))
}

func (ev *slEval) tripCount(st *ast.ForStmt) (int, bool) {
	info := ev.pk.TypesInfo
	init, ok := st.Init.(*ast.AssignStmt)
	if !ok || init.Tok != token.DEFINE || len(init.Lhs) != 1 || len(init.Rhs) != 1 {
		return 0, false
	}
	id, ok := init.Lhs[0].(*ast.Ident)
	if !ok {
		return 0, false
	}
	obj := info.Defs[id]
	lo, ok := constInt(info, init.Rhs[0])
	if !ok {
		return 0, false
	}
	cond, ok := st.Cond.(*ast.BinaryExpr)
	if !ok {
		return 0, false
	}
	cid, ok := cond.X.(*ast.Ident)
	if !ok || info.Uses[cid] != obj {
		return 0, false
	}
	hi, ok := constInt(info, cond.Y)
	if !ok {
		return 0, false
	}
	switch cond.Op {
	case token.LSS:
	case token.LEQ:
		hi++
	default:
		return 0, false
	}
	inc, ok := st.Post.(*ast.IncDecStmt)
	if !ok || inc.Tok != token.INC {
		return 0, false
	}
	iid, ok := inc.X.(*ast.Ident)
	if !ok || info.Uses[iid] != obj {
		return 0, false
	}
	// the counter must not be used in the body
	used := false
	ast.Inspect(st.Body, func(n ast.Node) bool {
		if x, ok := n.(*ast.Ident); ok && info.Uses[x] == obj {
			used = true
		}
		return true
	})
	if used {
		return 0, false
	}
	if hi < lo {
		return 0, true
	}
	return int(hi - lo), true
}

func constInt(info *types.Info, e ast.Expr) (int64, bool) {
	tv, ok := info.Types[e]
	if !ok || tv.Value == nil {
		return 0, false
	}
	v, err := constVal(tv.Value)
	if err != nil || v.big == nil || !v.big.IsInt64() {
		return 0, false
	}
	return v.big.Int64(), true
}

func findFuncDecl(pk *packages.Package, recv, name string) *ast.FuncDecl {
	for _, f := range pk.Syntax {
		for _, d := range f.Decls {
			fd, ok := d.(*ast.FuncDecl)
			if !ok || fd.Name.Name != name {
				continue
			}
			r := ""
			if fd.Recv != nil && len(fd.Recv.List) == 1 {
				t := fd.Recv.List[0].Type
				if s, ok := t.(*ast.StarExpr); ok {
					t = s.X
				}
				if id, ok := t.(*ast.Ident); ok {
					r = id.Name
				}
			}
			if r == recv {
				return fd
			}
		}
	}
	return nil
}
