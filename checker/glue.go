package main

// Glue domain: the Go code around the assembler routines of package sm4 (Seal, Open, ensureCapacity, the Block methods) is
// followed path by path in the state-set interpreter with slices as symbolic shapes (object, byte offset, length, capacity
// as integer terms), objects with a size term, and an effect log (writes, copies, assembler calls). Bounds of slice and
// index expressions and the contracts of the assembler routines become obligations decided by the LP over the path facts.
// Heavy helpers (the arm64 block loops, GHASH updates) are summarised by their own contracts and analysed separately.

import (
	"fmt"
	"go/token"
	"go/types"
	"math/big"
	"strings"

	"golang.org/x/tools/go/ssa"
)

type gSlice struct {
	obj         int
	off, ln, cp *pt // byte offset into the object, length and capacity in elements
	esz         int // element size in bytes
}
type gPtr struct {
	obj int
	off *pt
	esz int
}
type gArr struct { // pointer to an array: a local, or a field of a local struct laid out in one object (base = its offset)
	obj  int
	n    int
	esz  int
	base int64
}
type gRecv struct{ name string }         // the method receiver (its fields are symbolic)
type gField struct{ recv, field string } // address of a receiver field
type gCipher struct{}                    // the cipher.Block stored in the AEAD object
type hGObj struct {
	name  string
	size  *pt // bytes
	fresh bool
	// stream domain: the initial content is the content of another object at a point of the effect log
	hasSnap          bool
	snapObj, snapIdx int
}

type gEffect struct {
	kind   string // "write", "copy", "asm", "call"
	obj    int
	off, n *pt
	srcObj int
	srcOff *pt
	what   string
	pos    string
	args   []sVal
	// stream domain
	val       *pt // value written (put: big-endian over n bytes; write: one element)
	srcIdx    int // copy: the source content is taken at this point of the effect log
	hasSrcIdx bool
	rep       *gRep // kind "rep": k repetitions of a loop body
}

func (d *protoDom) gobj(st *sState, id int) *hGObj {
	h, _ := st.heap[id].(*hGObj)
	return h
}

func (d *protoDom) newGObj(st *sState, name string, size *pt, fresh bool) int {
	id := d.e.newID()
	st.heap[id] = &hGObj{name: name, size: size, fresh: fresh}
	return id
}

func elemSize(t types.Type) int {
	if b, ok := t.Underlying().(*types.Basic); ok {
		switch b.Kind() {
		case types.Uint8, types.Int8, types.Bool:
			return 1
		case types.Uint16, types.Int16:
			return 2
		case types.Uint32, types.Int32:
			return 4
		case types.Uint64, types.Int64, types.Int, types.Uint:
			return 8
		}
	}
	return 0
}

// gOblige: a bound the Go runtime checks (panic otherwise) or a contract of a callee; it must follow from the path
func (d *protoDom) gOblige(st *sState, rule string, a *pt, op token.Token, b *pt, what, pos string) {
	if proveP(st.pfacts, a, op, b) {
		d.gOK[rule]++
		return
	}
	msg := fmt.Sprintf("%s at %s: %s %s %s does not follow from the guards of the path", what, pos, a, op, b)
	for _, m := range d.gBad[rule] {
		if m == msg {
			return
		}
	}
	d.gBad[rule] = append(d.gBad[rule], msg)
}

func termOf(v sVal) (*pt, bool) { return isProtoInt(v) }

// glueStep: instructions on slice shapes. Returns true when handled.
func (d *protoDom) glueStep(st *sState, in ssa.Instruction) bool {
	e := d.e
	if d.streamStep(st, in) {
		return true
	}
	pos := e.p.InstrPos(in)
	switch x := in.(type) {
	case *ssa.Alloc:
		elemT := x.Type().Underlying().(*types.Pointer).Elem()
		if at, ok := elemT.Underlying().(*types.Array); ok {
			if esz := elemSize(at.Elem()); esz > 0 {
				id := d.newGObj(st, "local "+x.Comment, pC(at.Len()*int64(esz)), true)
				st.vals[x] = gArr{id, int(at.Len()), esz, 0}
				return true
			}
		}
		if stt, ok := elemT.Underlying().(*types.Struct); ok {
			// a local object with fields (the cipher a constructor fills): its array fields are objects of their own
			d.gLocals++
			name := fmt.Sprintf("local %s#%d", x.Comment, d.gLocals)
			st.vals[x] = gRecv{name}
			// a struct made of byte arrays only (a scratch buffer split into named parts) is one allocation: the fields are
			// laid out back to back and a pointer to one of them may be used for the bytes that follow
			allBytes := stt.NumFields() > 0
			var total int64
			for i := 0; i < stt.NumFields(); i++ {
				at, ok := stt.Field(i).Type().Underlying().(*types.Array)
				if !ok || elemSize(at.Elem()) != 1 {
					allBytes = false
					break
				}
				total += at.Len()
			}
			if allBytes {
				id := d.newGObj(st, name, pC(total), true)
				if st.gfields == nil {
					st.gfields = map[string]sVal{}
				}
				var off int64
				for i := 0; i < stt.NumFields(); i++ {
					at := stt.Field(i).Type().Underlying().(*types.Array)
					st.gfields[name+"."+stt.Field(i).Name()] = gArr{id, int(at.Len()), 1, off}
					off += at.Len()
				}
				st.gfields[name+".#"] = gArr{id, int(total), 1, 0}
			}
			return true
		}
	case *ssa.MakeSlice:
		st0, ok := x.Type().Underlying().(*types.Slice)
		n, okn := termOf(e.get(st, x.Len))
		if ok && okn {
			if esz := elemSize(st0.Elem()); esz > 0 {
				d.gOblige(st, "SLICE-BOUNDS", n, token.GEQ, pC(0), "make with a length", pos)
				id := d.newGObj(st, "make@"+pos, pMul(pC(int64(esz)), n), true)
				st.vals[x] = gSlice{id, pC(0), n, n, esz}
				return true
			}
		}
	case *ssa.Slice:
		a := e.get(st, x.X)
		var base gSlice
		switch v := a.(type) {
		case gSlice:
			base = v
		case gArr:
			base = gSlice{v.obj, pC(v.base), pC(int64(v.n)), pC(int64(v.n)), v.esz}
		case gField:
			fa, ok := d.fieldArray(st, v, x.X.Type())
			if !ok {
				return false
			}
			base = gSlice{fa.obj, pC(fa.base), pC(int64(fa.n)), pC(int64(fa.n)), fa.esz}
		default:
			return false
		}
		lo, hi := pC(0), base.ln
		if x.Low != nil {
			t, ok := termOf(e.get(st, x.Low))
			if !ok {
				return false
			}
			lo = t
		}
		if x.High != nil {
			t, ok := termOf(e.get(st, x.High))
			if !ok {
				return false
			}
			hi = t
		}
		d.gOblige(st, "SLICE-BOUNDS", lo, token.GEQ, pC(0), "slice low bound", pos)
		d.gOblige(st, "SLICE-BOUNDS", lo, token.LEQ, hi, "slice bounds order", pos)
		d.gOblige(st, "SLICE-BOUNDS", hi, token.LEQ, base.cp, "slice high bound against the capacity", pos)
		st.vals[x] = gSlice{base.obj, pAdd(base.off, pMul(pC(int64(base.esz)), lo)), pAdd(hi, pNeg(lo)), pAdd(base.cp, pNeg(lo)), base.esz}
		return true
	case *ssa.IndexAddr:
		a := e.get(st, x.X)
		idx, ok := termOf(e.get(st, x.Index))
		if !ok {
			return false
		}
		if f, ok := a.(gField); ok {
			if fa, ok := d.fieldArray(st, f, x.X.Type()); ok {
				a = fa
			}
		}
		switch v := a.(type) {
		case gSlice:
			d.gOblige(st, "INDEX-BOUNDS", idx, token.GEQ, pC(0), "index", pos)
			d.gOblige(st, "INDEX-BOUNDS", idx, token.LSS, v.ln, "index against the length", pos)
			st.vals[x] = gPtr{v.obj, pAdd(v.off, pMul(pC(int64(v.esz)), idx)), v.esz}
			return true
		case gArr:
			d.gOblige(st, "INDEX-BOUNDS", idx, token.GEQ, pC(0), "index", pos)
			d.gOblige(st, "INDEX-BOUNDS", idx, token.LSS, pC(int64(v.n)), "index against the array length", pos)
			st.vals[x] = gPtr{v.obj, pAdd(pC(v.base), pMul(pC(int64(v.esz)), idx)), v.esz}
			return true
		}
	case *ssa.FieldAddr:
		if f, ok := e.get(st, x.X).(gField); ok {
			// a field of an embedded struct
			if stt, ok := x.X.Type().Underlying().(*types.Pointer).Elem().Underlying().(*types.Struct); ok {
				st.vals[x] = gField{f.recv + "." + f.field, e.p.canonField(structNameOf(x.X.Type()), stt.Field(x.Field).Name(), stt.Field(x.Field).Type())}
				return true
			}
		}
		if rv, ok := e.get(st, x.X).(gRecv); ok {
			stt := x.X.Type().Underlying().(*types.Pointer).Elem().Underlying().(*types.Struct)
			st.vals[x] = gField{rv.name, e.p.canonField(structNameOf(x.X.Type()), stt.Field(x.Field).Name(), stt.Field(x.Field).Type())}
			return true
		}
	case *ssa.UnOp:
		if x.Op != token.MUL {
			return false
		}
		switch v := e.get(st, x.X).(type) {
		case gField:
			st.vals[x] = d.fieldValue(st, v, x.Type())
			return true
		case gPtr:
			st.vals[x] = sOpaque{"data byte"}
			return true
		}
	case *ssa.Store:
		if p, ok := e.get(st, x.Addr).(gPtr); ok {
			st.geff = append(st.geff, gEffect{kind: "write", obj: p.obj, off: p.off, n: pC(int64(p.esz)), pos: pos})
			return true
		}
	case *ssa.Convert:
		// uint64(len(x)) etc.: integers keep their term; pointer conversions keep the pointer
		switch v := e.get(st, x.X).(type) {
		case gPtr, gSlice, gArr:
			st.vals[x] = v
			return true
		}
	case *ssa.BinOp:
		// slice == nil / != nil: decided for freshly made slices, otherwise an unknown of the caller's argument
		if x.Op == token.EQL || x.Op == token.NEQ {
			a, b := e.get(st, x.X), e.get(st, x.Y)
			if _, isNil := a.(sNil); isNil {
				a, b = b, a
			}
			if sl, ok := a.(gSlice); ok {
				if _, isNil := b.(sNil); isNil {
					if h := d.gobj(st, sl.obj); h != nil && h.fresh {
						st.vals[x] = sBool{x.Op == token.NEQ}
					} else {
						nm := "?"
						if h != nil {
							nm = h.name
						}
						st.vals[x] = pCond{raw: "isnil(" + nm + ")", neg: x.Op == token.NEQ}
					}
					return true
				}
			}
		}
	case *ssa.SliceToArrayPointer:
		// (*[N]T)(s): panics unless len(s) >= N; the result views the first N elements
		if sl, ok := e.get(st, x.X).(gSlice); ok {
			if at, ok := x.Type().Underlying().(*types.Pointer).Elem().Underlying().(*types.Array); ok {
				n := pC(at.Len())
				d.gOblige(st, "SLICE-BOUNDS", sl.ln, token.GEQ, n, "conversion of a slice to an array pointer", pos)
				st.vals[x] = gSlice{sl.obj, sl.off, n, n, sl.esz}
				return true
			}
		}
	case *ssa.MakeInterface:
		if rv, ok := e.get(st, x.X).(gRecv); ok {
			st.vals[x] = rv // an interface holding the pointer to a modelled object: keep its identity
			return true
		}
		if types.Identical(x.Type(), types.Universe.Lookup("error").Type()) {
			st.vals[x] = pErr{true} // a concrete value boxed as an error is a non-nil error
			return true
		}
	case *ssa.ChangeType:
		switch v := e.get(st, x.X).(type) {
		case gPtr, gSlice, gArr:
			st.vals[x] = v
			return true
		}
	}
	return false
}

// fieldValue: the symbolic content of a receiver field
func (d *protoDom) fieldValue(st *sState, f gField, t types.Type) sVal {
	key := f.recv + "." + f.field
	if v, ok := st.gfields[key]; ok {
		return v
	}
	var v sVal
	switch u := t.Underlying().(type) {
	case *types.Basic:
		if strings.HasPrefix(f.recv, "local ") {
			v = sInt{new(big.Int)} // a local struct starts zeroed
		} else {
			v = pInt{pParam(key)}
		}
	case *types.Slice:
		esz := elemSize(u.Elem())
		ln := pOp("len", pParam(key))
		if f.field == "roundKeys" {
			ln = pC(32) // the expanded key: 32 round keys (established by NewGCM / the key schedule, C05)
		}
		id := d.newGObj(st, key, pMul(pC(int64(esz)), ln), false)
		v = gSlice{id, pC(0), ln, ln, esz}
	case *types.Array:
		esz := elemSize(u.Elem())
		id := d.newGObj(st, key, pC(u.Len()*int64(esz)), strings.HasPrefix(f.recv, "local ")) // a local struct starts zeroed
		v = gArr{id, int(u.Len()), esz, 0}
	case *types.Interface:
		v = gCipher{}
	case *types.Pointer:
		v = gRecv{key}
	default:
		v = sOpaque{"field " + key}
	}
	if st.gfields == nil {
		st.gfields = map[string]sVal{}
	}
	st.gfields[key] = v
	return v
}

// fieldArray: the array a pointer-to-array field address denotes
func (d *protoDom) fieldArray(st *sState, f gField, ptrT types.Type) (gArr, bool) {
	pt0, ok := ptrT.Underlying().(*types.Pointer)
	if !ok {
		return gArr{}, false
	}
	if _, ok := pt0.Elem().Underlying().(*types.Array); !ok {
		return gArr{}, false
	}
	a, ok := d.fieldValue(st, f, pt0.Elem()).(gArr)
	return a, ok
}

// bytesBehind: bytes available from a pointer-like argument, its object and offset
func (d *protoDom) bytesBehind(st *sState, v sVal) (avail *pt, obj int, off *pt, ok bool) {
	switch x := v.(type) {
	case gPtr:
		h := d.gobj(st, x.obj)
		if h == nil {
			return nil, 0, nil, false
		}
		return pAdd(h.size, pNeg(x.off)), x.obj, x.off, true
	case gSlice:
		// a slice guarantees len elements from its start
		return pMul(pC(int64(x.esz)), x.ln), x.obj, x.off, true
	case gArr:
		if h := d.gobj(st, x.obj); h != nil && x.base != 0 {
			return pAdd(h.size, pC(-x.base)), x.obj, pC(x.base), true // the rest of the enclosing struct is the same allocation
		}
		return pC(int64(x.n * x.esz)), x.obj, pC(x.base), true
	case sNil:
		return pC(0), 0, pC(0), true
	}
	return nil, 0, nil, false
}

// a pointer &s[i] guarantees the rest of the slice's *length* (not of the object): narrow the availability
func (d *protoDom) ptrAvail(st *sState, call *ssa.Call, argIdx int, v sVal) (*pt, int, *pt, bool) {
	// &x[i] : IndexAddr on a slice value -> len(x) - i elements
	if ia, ok := call.Call.Args[argIdx].(*ssa.IndexAddr); ok {
		if sl, ok := d.e.get(st, ia.X).(gSlice); ok {
			if idx, ok := termOf(d.e.get(st, ia.Index)); ok {
				p := v.(gPtr)
				return pMul(pC(int64(sl.esz)), pAdd(sl.ln, pNeg(idx))), p.obj, p.off, true
			}
		}
	}
	return d.bytesBehind(st, v)
}

func linToTerm(l *Lin, sub func(name string) (*pt, bool)) (*pt, bool) {
	t := pC(l.C)
	for k, c := range l.T {
		v, ok := sub(k)
		if !ok {
			return nil, false
		}
		t = pAdd(t, pMul(pC(c), v))
	}
	return t, true
}

// glueCall: calls in glue mode. Returns handled.
func (d *protoDom) glueCall(st *sState, call *ssa.Call, name string, args []sVal) bool {
	e := d.e
	pos := e.p.InstrPos(call)
	set := func(v sVal) { st.vals[call] = v }
	cal := call.Call.StaticCallee()
	// assembler routines (body-less functions of the repository)
	if cal != nil && isRepoFunc(cal) && len(cal.Blocks) == 0 {
		con := d.contracts[cal.Name()]
		if con == nil {
			e.fail("assembler routine %s called at %s has no contract", cal.Name(), pos)
			set(sOpaque{"asm"})
			return true
		}
		pname := func(i int) string { return asmCanonName(cal.Name(), i, cal.Params[i].Name()) }
		scalar := func(nm string) (*pt, bool) {
			for i := range cal.Params {
				if nm == pname(i) {
					return termOf(args[i])
				}
				if nm == pname(i)+".len" {
					if sl, ok := args[i].(gSlice); ok {
						return sl.ln, true
					}
				}
			}
			return nil, false
		}
		for _, pre := range con.pre {
			if t, ok := linToTerm(pre.E, scalar); ok {
				d.gOblige(st, "CALLSITE", t, token.GEQ, pC(0), "precondition of "+cal.Name(), pos)
			} else {
				e.fail("precondition %s of %s cannot be expressed at %s", factStr(pre), cal.Name(), pos)
			}
		}
		for i := range cal.Params {
			prm := namedParam{cal.Params[i], pname(i)}
			need, has := con.size[prm.Name()]
			if !has {
				continue
			}
			needT, ok := linToTerm(need, scalar)
			if !ok {
				e.fail("contract size of %s.%s cannot be expressed at %s", cal.Name(), prm.Name(), pos)
				continue
			}
			if _, isNil := args[i].(sNil); isNil && con.mayBeNil[prm.Name()] {
				continue
			}
			avail, obj, off, ok := d.ptrAvail(st, call, i, args[i])
			if !ok {
				e.fail("argument %s of %s at %s is not a pointer or slice the domain models (%T)", prm.Name(), cal.Name(), pos, args[i])
				continue
			}
			d.gOblige(st, "CALLSITE", avail, token.GEQ, needT, fmt.Sprintf("%s needs %s bytes behind %s", cal.Name(), need.String(), prm.Name()), pos)
			st.geff = append(st.geff, gEffect{kind: "asm", obj: obj, off: off, n: needT, what: cal.Name() + "#" + prm.Name(), pos: pos})
		}
		st.geff = append(st.geff, gEffect{kind: "call", what: cal.Name(), pos: pos, args: args})
		switch cal.Name() {
		case "needExpand":
			set(pInt{&pt{op: "needexp", args: []*pt{args[0].(gSlice).ln, args[0].(gSlice).cp, mustTerm(args[1])}, s: fmt.Sprintf("#%d", len(st.geff))}})
		case "openAsm":
			set(pInt{&pt{op: "asmret", s: fmt.Sprintf("openAsm#%d", len(st.geff))}})
		case "copyAsm":
			// dst, src, len
			if dp, ok := args[0].(gPtr); ok {
				if sp, ok := args[1].(gPtr); ok {
					st.geff = append(st.geff, gEffect{kind: "copy", obj: dp.obj, off: dp.off, n: mustTerm(args[2]), srcObj: sp.obj, srcOff: sp.off, pos: pos})
				}
			}
			set(sNil{})
		default:
			if call.Type() != nil && call.Call.Signature().Results().Len() > 0 {
				set(sOpaque{"asm result"})
			} else {
				set(sNil{})
			}
		}
		return true
	}
	if d.stream && d.streamCall(st, call, name, args) {
		return true
	}
	switch name {
	case "crypto/subtle.ConstantTimeCompare":
		st.geff = append(st.geff, gEffect{kind: "call", what: "ConstantTimeCompare", pos: pos, args: args})
		set(pInt{&pt{op: "asmret", s: fmt.Sprintf("ConstantTimeCompare#%d", len(st.geff))}})
		return true
	case "(cipher.Block).Encrypt", "(cipher.Block).Decrypt":
		// one block: dst and src need 16 bytes
		for i := 1; i <= 2 && i < len(args); i++ {
			if avail, obj, off, ok := d.bytesBehind(st, args[i]); ok {
				d.gOblige(st, "CALLSITE", avail, token.GEQ, pC(16), "cipher.Block."+strings.TrimPrefix(name, "(cipher.Block).")+" works on one 16-byte block", pos)
				if i == 1 {
					st.geff = append(st.geff, gEffect{kind: "write", obj: obj, off: off, n: pC(16), pos: pos})
				}
			}
		}
		set(sNil{})
		return true
	case "errors.New", "fmt.Errorf":
		set(pErr{true})
		return true
	case "strconv.Itoa":
		set(sOpaque{"string"})
		return true
	}
	if strings.HasSuffix(name, ".init") {
		set(sNil{})
		return true
	}
	// heavy helpers of the arm64 glue, summarised by the contracts their own analysis (C11 CALLSITE inside them) relies on
	if cal != nil && isRepoFunc(cal) {
		short := cal.Name()
		// the summarised helpers are recognised by role (shape and call relation), so a renamed helper keeps its summary
		for _, role := range []string{"sm4.(*sm4GcmAsm).cryptoBlocks", "sm4.(*sm4GcmAsm).gHashUpdate", "sm4.(*sm4GcmAsm).gHashFinish", "sm4.(*sm4GcmAsm).calculateFirstCounter", "sm4.expandKey", "sm4.cryptoBlock", "sm4.cryptoBlockX2"} {
			if e.p.Func(role) == cal {
				short = role[strings.LastIndex(role, ".")+1:]
			}
		}
		// a summary describes one signature; a helper that was reshaped (a result instead of an out-parameter, fewer
		// arguments) is followed through its body instead
		if want, ok := map[string]int{"cryptoBlocks": 5, "gHashUpdate": 4, "gHashFinish": 5, "calculateFirstCounter": 4}[short]; ok {
			if len(args) != want || cal.Signature.Results().Len() != 0 {
				short = ""
			}
		}
		switch short {
		case "cryptoBlocks": // (g, roundKeys, out, in, preCounter)
			out, ok1 := args[2].(gSlice)
			in, ok2 := args[3].(gSlice)
			pc, ok3 := args[4].(gSlice)
			if ok1 && ok2 && ok3 {
				d.gOblige(st, "CALLSITE", out.ln, token.GEQ, in.ln, "cryptoBlocks writes len(in) bytes of out", pos)
				d.gOblige(st, "CALLSITE", pc.ln, token.GEQ, pC(16), "cryptoBlocks reads a 16-byte counter block", pos)
				st.geff = append(st.geff, gEffect{kind: "write", obj: out.obj, off: out.off, n: in.ln, what: "cryptoBlocks", pos: pos})
				st.geff = append(st.geff, gEffect{kind: "call", what: "cryptoBlocks", pos: pos, args: args})
				set(sNil{})
				return true
			}
		case "gHashUpdate": // (g, H, tag, in)
			for i := 1; i <= 2; i++ {
				if s, ok := args[i].(gSlice); ok {
					d.gOblige(st, "CALLSITE", s.ln, token.GEQ, pC(16), "gHashUpdate uses 16-byte H and tag", pos)
				}
			}
			if s, ok := args[2].(gSlice); ok {
				st.geff = append(st.geff, gEffect{kind: "write", obj: s.obj, off: s.off, n: pC(16), what: "gHashUpdate", pos: pos})
			}
			st.geff = append(st.geff, gEffect{kind: "call", what: "gHashUpdate", pos: pos, args: args})
			set(sNil{})
			return true
		case "gHashFinish": // (g, H, tag, aadLen, plainLen)
			for i := 1; i <= 2; i++ {
				if s, ok := args[i].(gSlice); ok {
					d.gOblige(st, "CALLSITE", s.ln, token.GEQ, pC(16), "gHashFinish uses 16-byte H and tag", pos)
				}
			}
			if s, ok := args[2].(gSlice); ok {
				st.geff = append(st.geff, gEffect{kind: "write", obj: s.obj, off: s.off, n: pC(16), what: "gHashFinish", pos: pos})
			}
			st.geff = append(st.geff, gEffect{kind: "call", what: "gHashFinish", pos: pos, args: args})
			set(sNil{})
			return true
		case "calculateFirstCounter": // (g, nonce, counter, H)
			for i := 2; i <= 3; i++ {
				if s, ok := args[i].(gSlice); ok {
					d.gOblige(st, "CALLSITE", s.ln, token.GEQ, pC(16), "calculateFirstCounter uses 16-byte counter and H", pos)
				}
			}
			if s, ok := args[2].(gSlice); ok {
				st.geff = append(st.geff, gEffect{kind: "write", obj: s.obj, off: s.off, n: pC(16), what: "calculateFirstCounter", pos: pos})
			}
			st.geff = append(st.geff, gEffect{kind: "call", what: "calculateFirstCounter", pos: pos, args: args})
			set(sNil{})
			return true
		case "expandKey": // (mk []byte, enc, dec *[32]uint32): reads the first 16 bytes of mk
			if mk, ok := args[0].(gSlice); ok {
				d.gOblige(st, "CALLSITE", mk.ln, token.GEQ, pC(16), "expandKey reads a 16-byte key", pos)
				st.geff = append(st.geff, gEffect{kind: "call", what: "expandKey", pos: pos, args: args})
				set(sNil{})
				return true
			}
		case "cryptoBlock", "cryptoBlockX2": // portable kernels (x, y []byte, rk): bounds are their own business (slices re-checked by Go)
			st.geff = append(st.geff, gEffect{kind: "call", what: short, pos: pos, args: args})
			if s, ok := args[1].(gSlice); ok {
				st.geff = append(st.geff, gEffect{kind: "write", obj: s.obj, off: s.off, n: s.ln, what: short, pos: pos})
			}
			set(sNil{})
			return true
		}
	}
	return false
}

func mustTerm(v sVal) *pt {
	if t, ok := termOf(v); ok {
		return t
	}
	return pParam("?")
}

// glueBuiltin: len, cap, copy on slice shapes
func gShape(v sVal) (gSlice, bool) {
	switch x := v.(type) {
	case gSlice:
		return x, true
	case gArr:
		return gSlice{x.obj, pC(x.base), pC(int64(x.n)), pC(int64(x.n)), x.esz}, true
	}
	return gSlice{}, false
}

func (d *protoDom) glueBuiltin(st *sState, name string, call *ssa.Call, args []sVal) (sVal, bool) {
	pos := d.e.p.InstrPos(call)
	shape := gShape
	switch name {
	case "len":
		if s, ok := shape(args[0]); ok {
			if s.ln.op == "c" {
				return sInt{new(big.Int).Set(s.ln.n)}, true
			}
			return pInt{s.ln}, true
		}
	case "cap":
		if s, ok := shape(args[0]); ok {
			if s.cp.op == "c" {
				return sInt{new(big.Int).Set(s.cp.n)}, true
			}
			return pInt{s.cp}, true
		}
	case "append":
		if d.stream && len(args) == 2 {
			a, ok1 := shape(args[0])
			b, ok2 := shape(args[1])
			if _, isNil := args[0].(sNil); isNil {
				a, ok1 = gSlice{0, pC(0), pC(0), pC(0), b.esz}, true
			}
			if ok1 && ok2 && a.esz == b.esz {
				// the result as a new object holding a followed by b (writing into spare capacity gives the same bytes)
				n := pAdd(a.ln, b.ln)
				esz := pC(int64(a.esz))
				id := d.newGObj(st, "append@"+pos, pMul(esz, n), true)
				if a.obj != 0 {
					st.geff = append(st.geff, gEffect{kind: "copy", obj: id, off: pC(0), n: pMul(esz, a.ln), srcObj: a.obj, srcOff: a.off, pos: pos})
				}
				st.geff = append(st.geff, gEffect{kind: "copy", obj: id, off: pMul(esz, a.ln), n: pMul(esz, b.ln), srcObj: b.obj, srcOff: b.off, pos: pos})
				return gSlice{id, pC(0), n, n, a.esz}, true
			}
		}
	case "copy":
		dst, ok1 := shape(args[0])
		src, ok2 := shape(args[1])
		if ok1 && ok2 {
			n := src.ln
			if !proveP(st.pfacts, dst.ln, token.GEQ, src.ln) {
				if proveP(st.pfacts, src.ln, token.GEQ, dst.ln) {
					n = dst.ln
				} else {
					n = pOp("min", dst.ln, src.ln)
				}
			}
			st.geff = append(st.geff, gEffect{kind: "copy", obj: dst.obj, off: dst.off, n: pMul(pC(int64(dst.esz)), n), srcObj: src.obj, srcOff: src.off, pos: pos})
			return pInt{n}, true
		}
	}
	return nil, false
}
