package main

import (
	"fmt"
	"strings"
)

func init() { register("C06", "other", checkC06) }

// C06 (Seal's output is SP 800-38D GCM over SM4) is a statement about values; what is decided here are three structural
// necessary conditions of it on the fused amd64 routine sealAsm, each of which changes Seal's output for some inputs when
// it is broken:
//
//	CONSUMPTION     every byte of nonce, additional data and plaintext is streamed exactly once, in order, to the end of its
//	                slice on every path (all length classes: 64-byte strides, single blocks, the 1..15-byte tails), and the
//	                destination is produced up to plaintext.len (+ tagSize);
//	SCRATCH-REINIT  a partial block is staged in the scratch block only over bytes that are zero or were cleared since the
//	                last vector load consumed the block (this is GHASH's zero padding of the last block of the nonce, of
//	                the additional data and of the ciphertext);
//	REGISTER-DEFINED no vector or mask register is read before the routine has written it on every path (the output must
//	                be a function of the inputs; a register left over from an earlier call is not one);
//	EXTENT          while doing so no access leaves the slices (shared with C11; repeated here because a short read is a
//	                wrong GHASH input before it is a memory-safety problem).
//
// Not decided: the values - the GF(2^128) multiplication, the counter arithmetic, the composition of E_K, GHASH and the
// length block. Their constants are decided by C18, the shape of Open by C07.
func checkC06(c *Ctx, r *Report) {
	r.Explanation = "Structural necessary conditions of Seal's value on the fused amd64 routine sealAsm, by abstract interpretation of its general registers over affine forms (engine A4: branch facts, loop induction variables, quotient/remainder symbols, path states): CONSUMPTION - nonce, additional data and plaintext are each streamed to their end, without a gap, on every path, and the destination is produced up to plaintext.len; SCRATCH-REINIT - every partial block (1..15 bytes of nonce, additional data, plaintext) is staged over zero or freshly cleared scratch bytes, which is the zero padding GHASH requires; REGISTER-DEFINED - every vector and mask register is written on every path before it is read (definite assignment over the CFG), so the output cannot depend on what an earlier call left in a register; EXTENT - no access outside the contract. NOT decided: the values (GF(2^128) multiplication, counter arithmetic, the composition of E_K, GHASH and the length block); the constants they use are decided by C18. The arm64 path computes the same composition in Go around block kernels; its buffer shape is decided by C10/C11 and nothing of its value is claimed here."
	r.Trusted = []string{"go tool asm -S listing, opcode table (access widths)", "the scratch block is zero on entry (a fresh local array of Seal: decided by the glue domain of C10/C11)", "g.tagSize is in [12,16] when Seal runs (crypto/cipher validates it)", "exact rational simplex for path facts"}
	u, _ := loadAsmBound(c, r, "amd64")
	if u == nil {
		return
	}
	rt := u.Routine("sealAsm")
	if rt == nil {
		r.Fatalf("unresolved anchor: amd64 sealAsm")
		return
	}
	flow := AnalyzeFlow(rt)
	if len(flow.Errors) > 0 {
		r.Fatalf("sealAsm: %s", flow.Errors[0])
		return
	}
	con := asmContracts("amd64")["sealAsm"]
	dataSize := map[string]int{}
	for _, d := range u.DataSyms() {
		dataSize[d.Name] = d.Size
	}
	res := AnalyzeExtents(rt, flow, con, dataSize)
	for _, pr := range res.problems {
		r.Undecided("CONSUMPTION", "amd64/sealAsm", "sm4/"+rt.File, pr)
	}
	r.Obls = append(r.Obls, res.consumption...)
	r.Count("consumption_obligations", len(res.consumption))
	for pn := range con.consumeSet {
		found := false
		for _, o := range res.consumption {
			if strings.HasSuffix(o.Key, ": "+pn) {
				found = true
			}
		}
		if !found {
			r.Viol("CONSUMPTION", fmt.Sprintf("amd64/sealAsm: %s", pn), "sm4/"+rt.File, "streamed parameter is never advanced on any path: its bytes are not all processed")
		}
	}
	r.Obls = append(r.Obls, res.scratchObl...)
	if len(res.scratchObl) == 0 {
		r.Ok("SCRATCH-REINIT", "amd64/sealAsm", "sm4/"+rt.File, fmt.Sprintf("%d vector loads from the scratch block on all paths: none reads bytes left over from an earlier staging (zero padding of partial blocks)", res.scratchLoads))
	}
	r.Count("scratch_loads", res.scratchLoads)
	// REGISTER-DEFINED: Seal's output is a function of its inputs only if no vector register is read before the routine
	// has written it (registers carry whatever the previous call left: stale hash-key powers, a stale counter)
	if undef := VecDefBeforeUse(rt, flow); len(undef) > 0 {
		for i, u := range undef {
			if i < 6 {
				r.Viol("REGISTER-DEFINED", "amd64/sealAsm: "+u[strings.Index(u, ": ")+2:], "sm4/"+u[:strings.Index(u, ": ")], "a vector register is read before it is written on some path from the entry: the result depends on what an earlier call left in it")
			}
		}
	} else {
		r.Ok("REGISTER-DEFINED", "amd64/sealAsm", "sm4/"+rt.File, "every vector and mask register is written on every path before it is read (definite assignment over the routine's CFG; zeroing idioms are writes)")
	}
	nacc, bad := 0, 0
	for _, a := range res.accesses {
		nacc++
		if a.status != 1 {
			bad++
			st := VIOLATED
			if a.status == 0 {
				st = UNDECIDED
			}
			r.Obls = append(r.Obls, Obligation{Rule: "EXTENT", Key: fmt.Sprintf("amd64/sealAsm: %s", a.instr.Raw), Pos: a.instr.Pos, Status: st, Detail: a.detail})
		}
	}
	if bad == 0 {
		r.Ok("EXTENT", "amd64/sealAsm", "sm4/"+rt.File, fmt.Sprintf("%d memory accesses on all paths lie inside the contract of their parameter", nacc))
	}
	r.Count("accesses", nacc)
	r.Count("path_states_max", res.maxStates)
	registerPositiveControls(c, r)
	r.Floor("positive_controls", 2)
	r.Floor("consumption_obligations", 4)
	r.Floor("scratch_loads", 3)
	r.Floor("accesses", 100)
}
