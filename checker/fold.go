package main

// Engine G6(a): constant folding of package-level initialisers, done by the checker itself.
// Nothing of the repository is executed; the folder understands a closed set of
// constructors and fails ("unresolved anchor") on anything else.

import (
	"encoding/hex"
	"fmt"
	"go/ast"
	"go/constant"
	"go/token"
	"go/types"
	"golang.org/x/tools/go/ssa"
	"math/big"
	"strings"

	"golang.org/x/tools/go/packages"
)

type fkind int

const (
	fBig fkind = iota
	fBytes
	fElem   // element of GF(p) (SM2Element), canonical value
	fScalar // element of Z/n (SM2ScalarElement)
	fInt
	fString
	fCurve // the CurveParams literal
	fTuple
	fNil
)

type fval struct {
	k     fkind
	big   *big.Int
	bytes []byte
	str   string
	tuple []*fval
	curve map[string]*fval
}

func (v *fval) String() string {
	switch v.k {
	case fBig, fElem, fScalar, fInt:
		return fmt.Sprintf("0x%x", v.big)
	case fBytes:
		return hex.EncodeToString(v.bytes)
	case fString:
		return v.str
	}
	return fmt.Sprintf("<kind %d>", v.k)
}

type Folder struct {
	p      *Prog
	memo   map[types.Object]*fval
	busy   map[types.Object]bool
	curve  *fval
	curveE error
	// tables that are not literals but the result of an input-free generator (constant propagation, consteval.go)
	genCache   map[*ssa.Function][]*litNode
	generated  map[string]string // pkg.name -> generator
	tableNotes map[string]string // why a table could not be obtained
}

func NewFolder(p *Prog) *Folder {
	return &Folder{p: p, memo: map[types.Object]*fval{}, busy: map[types.Object]bool{}, tableNotes: map[string]string{}}
}

func (f *Folder) pkgOf(obj types.Object) *packages.Package {
	if obj.Pkg() == nil {
		return nil
	}
	return f.p.Pkgs[shortPkg(obj.Pkg().Path())]
}

func isNamed(t types.Type, pkgSuffix, name string) bool {
	if pt, ok := t.(*types.Pointer); ok {
		t = pt.Elem()
	}
	nt, ok := t.(*types.Named)
	if !ok || nt.Obj().Pkg() == nil {
		return false
	}
	return nt.Obj().Name() == name && strings.HasSuffix(nt.Obj().Pkg().Path(), pkgSuffix)
}

// Curve finds THE elliptic.CurveParams literal of the repository (exactly one must exist).
func (f *Folder) Curve() (*fval, error) {
	if f.curve != nil || f.curveE != nil {
		return f.curve, f.curveE
	}
	var lits []*ast.CompositeLit
	var litPkg []*packages.Package
	for _, pk := range f.p.Pkgs {
		for _, file := range pk.Syntax {
			ast.Inspect(file, func(n ast.Node) bool {
				if cl, ok := n.(*ast.CompositeLit); ok {
					if tv, ok := pk.TypesInfo.Types[cl]; ok && isNamed(tv.Type, "crypto/elliptic", "CurveParams") {
						lits = append(lits, cl)
						litPkg = append(litPkg, pk)
					}
				}
				return true
			})
		}
	}
	if len(lits) != 1 {
		f.curveE = fmt.Errorf("expected exactly one elliptic.CurveParams literal, found %d", len(lits))
		return nil, f.curveE
	}
	cv := &fval{k: fCurve, curve: map[string]*fval{}}
	for _, el := range lits[0].Elts {
		kv, ok := el.(*ast.KeyValueExpr)
		if !ok {
			f.curveE = fmt.Errorf("CurveParams literal is not keyed")
			return nil, f.curveE
		}
		name := kv.Key.(*ast.Ident).Name
		v, err := f.Expr(litPkg[0], kv.Value, nil)
		if err != nil {
			f.curveE = fmt.Errorf("CurveParams.%s: %v", name, err)
			return nil, f.curveE
		}
		cv.curve[name] = v
	}
	// parameters that the literal does not carry may be filled in by the function that builds it: plain assignments
	// (params.P = bigFromHex("...")) or a table of {&params.P, "hex"} entries walked by a loop that stores F(entry.hex)
	f.curveFromBuilder(litPkg[0], lits[0], cv)
	for _, k := range []string{"P", "N", "B", "Gx", "Gy"} {
		if cv.curve[k] == nil || cv.curve[k].k != fBig {
			f.curveE = fmt.Errorf("CurveParams.%s not resolved to an integer", k)
			return nil, f.curveE
		}
	}
	f.curve = cv
	return cv, nil
}

func (f *Folder) CurveInt(name string) (*big.Int, error) {
	c, err := f.Curve()
	if err != nil {
		return nil, err
	}
	return c.curve[name].big, nil
}

// GlobalByName folds the package-level variable pkg.name.
func (f *Folder) GlobalByName(pkg, name string) (*fval, error) {
	pk := f.p.Pkgs[pkg]
	if pk == nil {
		return nil, fmt.Errorf("no package %s", pkg)
	}
	obj := pk.Types.Scope().Lookup(name)
	if obj == nil {
		return nil, fmt.Errorf("no object %s.%s", pkg, name)
	}
	return f.Object(obj)
}

// Object folds a package-level var (by its initialiser, or by its single assignment in init code),
// or a constant.
func (f *Folder) Object(obj types.Object) (*fval, error) {
	if v, ok := f.memo[obj]; ok {
		return v, nil
	}
	if f.busy[obj] {
		return nil, fmt.Errorf("initialisation cycle through %s", obj.Name())
	}
	f.busy[obj] = true
	defer delete(f.busy, obj)
	if c, ok := obj.(*types.Const); ok {
		v, err := constVal(c.Val())
		if err == nil {
			f.memo[obj] = v
		}
		return v, err
	}
	pk := f.pkgOf(obj)
	if pk == nil {
		return nil, fmt.Errorf("%s is not a repository object", obj.Name())
	}
	if _, ok := obj.(*types.Var); !ok || obj.Parent() != obj.Pkg().Scope() {
		return nil, fmt.Errorf("%s is not a package-level variable", obj.Name())
	}
	// initialiser?
	for _, file := range pk.Syntax {
		for _, d := range file.Decls {
			gd, ok := d.(*ast.GenDecl)
			if !ok || gd.Tok != token.VAR {
				continue
			}
			for _, sp := range gd.Specs {
				vs := sp.(*ast.ValueSpec)
				for i, n := range vs.Names {
					if pk.TypesInfo.Defs[n] != obj {
						continue
					}
					if len(vs.Values) == 0 {
						goto assigned
					}
					if len(vs.Values) != len(vs.Names) {
						return nil, fmt.Errorf("%s: multi-value initialiser not supported", obj.Name())
					}
					v, err := f.Expr(pk, vs.Values[i], nil)
					if err != nil {
						return nil, fmt.Errorf("%s: %v", obj.Name(), err)
					}
					f.memo[obj] = v
					return v, nil
				}
			}
		}
	}
assigned:
	// exactly one assignment anywhere in the package
	var found []*fval
	var ferr error
	count := 0
	for _, file := range pk.Syntax {
		ast.Inspect(file, func(n ast.Node) bool {
			as, ok := n.(*ast.AssignStmt)
			if !ok {
				return true
			}
			for i, l := range as.Lhs {
				id, ok := l.(*ast.Ident)
				if !ok || pk.TypesInfo.Uses[id] != obj {
					continue
				}
				count++
				var v *fval
				var err error
				if len(as.Rhs) == len(as.Lhs) {
					v, err = f.Expr(pk, as.Rhs[i], nil)
				} else if len(as.Rhs) == 1 {
					var tv *fval
					tv, err = f.Expr(pk, as.Rhs[0], nil)
					if err == nil {
						if tv.k != fTuple || i >= len(tv.tuple) {
							err = fmt.Errorf("tuple expected")
						} else {
							v = tv.tuple[i]
						}
					}
				}
				if err != nil {
					ferr = err
				} else {
					found = append(found, v)
				}
			}
			return true
		})
	}
	if ferr != nil {
		return nil, fmt.Errorf("%s: %v", obj.Name(), ferr)
	}
	if count != 1 || len(found) != 1 {
		return nil, fmt.Errorf("%s: expected exactly one initialising assignment, found %d", obj.Name(), count)
	}
	f.memo[obj] = found[0]
	return found[0], nil
}

func constVal(c constant.Value) (*fval, error) {
	switch c.Kind() {
	case constant.Int:
		b, ok := new(big.Int).SetString(c.ExactString(), 10)
		if !ok {
			return nil, fmt.Errorf("bad int constant")
		}
		return &fval{k: fInt, big: b}, nil
	case constant.String:
		return &fval{k: fString, str: constant.StringVal(c)}, nil
	}
	return nil, fmt.Errorf("unsupported constant kind %v", c.Kind())
}

type fenv map[types.Object]*fval

func modOf(k fkind, f *Folder) (*big.Int, error) {
	if k == fElem {
		return f.CurveInt("P")
	}
	return f.CurveInt("N")
}

// Expr folds an expression.
func (f *Folder) Expr(pk *packages.Package, e ast.Expr, env fenv) (*fval, error) {
	info := pk.TypesInfo
	if tv, ok := info.Types[e]; ok && tv.Value != nil {
		return constVal(tv.Value)
	}
	switch e := e.(type) {
	case *ast.ParenExpr:
		return f.Expr(pk, e.X, env)
	case *ast.Ident:
		if e.Name == "nil" {
			return &fval{k: fNil}, nil
		}
		obj := info.Uses[e]
		if obj == nil {
			obj = info.Defs[e]
		}
		if obj == nil {
			return nil, fmt.Errorf("unresolved identifier %s", e.Name)
		}
		if env != nil {
			if v, ok := env[obj]; ok {
				return v, nil
			}
		}
		if tv, ok := info.Types[e]; ok && isNamed(tv.Type, "crypto/elliptic", "CurveParams") {
			return f.Curve()
		}
		return f.Object(obj)
	case *ast.UnaryExpr:
		if e.Op == token.AND {
			return f.Expr(pk, e.X, env)
		}
	case *ast.StarExpr:
		return f.Expr(pk, e.X, env)
	case *ast.SliceExpr:
		if e.Low == nil && e.High == nil {
			return f.Expr(pk, e.X, env)
		}
	case *ast.CompositeLit:
		if tv, ok := info.Types[e]; ok && isNamed(tv.Type, "crypto/elliptic", "CurveParams") {
			return f.Curve()
		}
		// []byte{...} / [N]byte{...} literals
		if tv, ok := info.Types[e]; ok {
			var elem types.Type
			switch tt := tv.Type.Underlying().(type) {
			case *types.Slice:
				elem = tt.Elem()
			case *types.Array:
				elem = tt.Elem()
			}
			if b, ok := elem.(*types.Basic); elem != nil && ok && (b.Kind() == types.Uint8 || b.Kind() == types.Byte) {
				var out []byte
				for _, el := range e.Elts {
					if _, isKV := el.(*ast.KeyValueExpr); isKV {
						return nil, fmt.Errorf("keyed byte literal not foldable")
					}
					v, err := f.Expr(pk, el, env)
					if err != nil || v.big == nil || !v.big.IsUint64() || v.big.Uint64() > 255 {
						return nil, fmt.Errorf("byte literal element not foldable")
					}
					out = append(out, byte(v.big.Uint64()))
				}
				return &fval{k: fBytes, bytes: out}, nil
			}
		}
	case *ast.SelectorExpr:
		// field of CurveParams
		if sel, ok := info.Selections[e]; ok && sel.Kind() == types.FieldVal {
			if isNamed(sel.Recv(), "crypto/elliptic", "CurveParams") {
				c, err := f.Curve()
				if err != nil {
					return nil, err
				}
				if v, ok := c.curve[e.Sel.Name]; ok {
					return v, nil
				}
				return nil, fmt.Errorf("CurveParams.%s not in literal", e.Sel.Name)
			}
			if tv, ok := info.Types[e]; ok && isNamed(tv.Type, "crypto/elliptic", "CurveParams") {
				return f.Curve()
			}
		}
		// qualified identifier
		if obj := info.Uses[e.Sel]; obj != nil {
			if _, isVar := obj.(*types.Var); isVar && obj.Parent() == obj.Pkg().Scope() {
				return f.Object(obj)
			}
		}
	case *ast.CallExpr:
		return f.call(pk, e, env)
	}
	if tv, ok := info.Types[e]; ok && isNamed(tv.Type, "crypto/elliptic", "CurveParams") {
		return f.Curve()
	}
	return nil, fmt.Errorf("cannot fold %s at %s", types.ExprString(e), f.p.Pos(e.Pos()))
}

func (f *Folder) call(pk *packages.Package, e *ast.CallExpr, env fenv) (*fval, error) {
	info := pk.TypesInfo
	if tv, ok := info.Types[e]; ok && isNamed(tv.Type, "crypto/elliptic", "CurveParams") {
		return f.Curve()
	}
	// conversions
	if tv, ok := info.Types[e.Fun]; ok && tv.IsType() && len(e.Args) == 1 {
		return f.Expr(pk, e.Args[0], env)
	}
	// builtin new
	if id, ok := e.Fun.(*ast.Ident); ok {
		if _, isB := info.Uses[id].(*types.Builtin); isB && id.Name == "new" {
			t := info.Types[e.Args[0]].Type
			switch {
			case isNamed(t, "math/big", "Int"):
				return &fval{k: fBig, big: new(big.Int)}, nil
			case isNamed(t, "sm2/internal/fiat", "SM2Element"):
				return &fval{k: fElem, big: new(big.Int)}, nil
			case isNamed(t, "sm2/internal/fiat", "SM2ScalarElement"):
				return &fval{k: fScalar, big: new(big.Int)}, nil
			}
			return nil, fmt.Errorf("new(%s) not foldable", t)
		}
	}
	// resolve callee
	var callee *types.Func
	var recvExpr ast.Expr
	switch fn := e.Fun.(type) {
	case *ast.Ident:
		callee, _ = info.Uses[fn].(*types.Func)
	case *ast.SelectorExpr:
		if sel, ok := info.Selections[fn]; ok {
			callee, _ = sel.Obj().(*types.Func)
			recvExpr = fn.X
		} else {
			callee, _ = info.Uses[fn.Sel].(*types.Func)
		}
	}
	if callee == nil {
		return nil, fmt.Errorf("cannot resolve callee of %s", types.ExprString(e))
	}
	args := make([]*fval, len(e.Args))
	for i, a := range e.Args {
		v, err := f.Expr(pk, a, env)
		if err != nil {
			return nil, err
		}
		args[i] = v
	}
	full := callee.FullName()
	switch full {
	case "math/big.NewInt":
		return &fval{k: fBig, big: new(big.Int).Set(args[0].big)}, nil
	case "encoding/hex.DecodeString":
		b, err := hex.DecodeString(args[0].str)
		if err != nil {
			return nil, fmt.Errorf("hex literal does not decode: %v", err)
		}
		return &fval{k: fTuple, tuple: []*fval{{k: fBytes, bytes: b}, {k: fNil}}}, nil
	}
	if recvExpr != nil {
		recv, err := f.Expr(pk, recvExpr, env)
		if err != nil {
			return nil, err
		}
		rt := info.Types[recvExpr].Type
		switch {
		case isNamed(rt, "math/big", "Int"):
			switch callee.Name() {
			case "SetString":
				if len(args) == 2 && args[0].k == fString && args[1].big.Int64() == 16 {
					b, ok := new(big.Int).SetString(args[0].str, 16)
					if !ok {
						return nil, fmt.Errorf("bad hex integer literal")
					}
					return &fval{k: fTuple, tuple: []*fval{{k: fBig, big: b}, {k: fNil}}}, nil
				}
			case "Set":
				return &fval{k: fBig, big: new(big.Int).Set(args[0].big)}, nil
			case "Sub":
				return &fval{k: fBig, big: new(big.Int).Sub(args[0].big, args[1].big)}, nil
			case "Add":
				return &fval{k: fBig, big: new(big.Int).Add(args[0].big, args[1].big)}, nil
			case "Bytes":
				return &fval{k: fBytes, bytes: recv.big.Bytes()}, nil
			case "SetBytes":
				return &fval{k: fBig, big: new(big.Int).SetBytes(args[0].bytes)}, nil
			}
			return nil, fmt.Errorf("big.Int method %s not foldable", callee.Name())
		case isNamed(rt, "sm2/internal/fiat", "SM2Element"), isNamed(rt, "sm2/internal/fiat", "SM2ScalarElement"):
			k := fElem
			if isNamed(rt, "sm2/internal/fiat", "SM2ScalarElement") {
				k = fScalar
			}
			m, err := modOf(k, f)
			if err != nil {
				return nil, err
			}
			switch callee.Name() {
			case "One":
				return &fval{k: k, big: big.NewInt(1)}, nil
			case "Sub":
				v := new(big.Int).Sub(args[0].big, args[1].big)
				return &fval{k: k, big: v.Mod(v, m)}, nil
			case "Add":
				v := new(big.Int).Add(args[0].big, args[1].big)
				return &fval{k: k, big: v.Mod(v, m)}, nil
			case "Bytes":
				b := make([]byte, 32)
				recv.big.FillBytes(b)
				return &fval{k: fBytes, bytes: b}, nil
			case "SetBytes":
				// canonical 32-byte decode; folder requires a canonical, left-padded input
				v := new(big.Int).SetBytes(args[0].bytes)
				if v.Cmp(m) >= 0 {
					return nil, fmt.Errorf("SetBytes of a non-canonical constant")
				}
				return &fval{k: fTuple, tuple: []*fval{{k: k, big: v}, {k: fNil}}}, nil
			}
			return nil, fmt.Errorf("element method %s not foldable", callee.Name())
		}
	}
	// small repository functions: straight-line bodies of define/return statements
	if callee.Pkg() != nil && strings.HasPrefix(callee.Pkg().Path(), modPath) {
		return f.inline(callee, recvExpr, pk, args, env)
	}
	return nil, fmt.Errorf("call to %s not foldable", full)
}

func (f *Folder) inline(callee *types.Func, recvExpr ast.Expr, callerPk *packages.Package, args []*fval, callerEnv fenv) (*fval, error) {
	pk := f.pkgOf(callee)
	var decl *ast.FuncDecl
	for _, file := range pk.Syntax {
		for _, d := range file.Decls {
			if fd, ok := d.(*ast.FuncDecl); ok && pk.TypesInfo.Defs[fd.Name] == callee {
				decl = fd
			}
		}
	}
	if decl == nil || decl.Body == nil {
		return nil, fmt.Errorf("no body for %s", callee.FullName())
	}
	if len(decl.Body.List) > 4 {
		return nil, fmt.Errorf("%s too complex to fold", callee.FullName())
	}
	env := fenv{}
	i := 0
	for _, fld := range decl.Type.Params.List {
		for _, n := range fld.Names {
			if i < len(args) {
				env[pk.TypesInfo.Defs[n]] = args[i]
			}
			i++
		}
	}
	if decl.Recv != nil && len(decl.Recv.List) == 1 && len(decl.Recv.List[0].Names) == 1 && recvExpr != nil {
		rv, err := f.Expr(callerPk, recvExpr, callerEnv)
		if err == nil {
			env[pk.TypesInfo.Defs[decl.Recv.List[0].Names[0]]] = rv
		}
	}
	for _, st := range decl.Body.List {
		switch st := st.(type) {
		case *ast.AssignStmt:
			if len(st.Rhs) != 1 {
				return nil, fmt.Errorf("%s: unsupported assignment", callee.Name())
			}
			v, err := f.Expr(pk, st.Rhs[0], env)
			if err != nil {
				return nil, err
			}
			vals := []*fval{v}
			if v.k == fTuple {
				vals = v.tuple
			}
			if len(vals) != len(st.Lhs) {
				return nil, fmt.Errorf("%s: arity mismatch", callee.Name())
			}
			for j, l := range st.Lhs {
				id, ok := l.(*ast.Ident)
				if !ok {
					return nil, fmt.Errorf("%s: unsupported lhs", callee.Name())
				}
				if id.Name == "_" {
					continue
				}
				obj := pk.TypesInfo.Defs[id]
				if obj == nil {
					obj = pk.TypesInfo.Uses[id]
				}
				env[obj] = vals[j]
			}
		case *ast.ReturnStmt:
			if len(st.Results) != 1 {
				return nil, fmt.Errorf("%s: multi-value return not foldable", callee.Name())
			}
			return f.Expr(pk, st.Results[0], env)
		default:
			return nil, fmt.Errorf("%s: statement not foldable", callee.Name())
		}
	}
	return nil, fmt.Errorf("%s: no return", callee.Name())
}

// ---------------------------------------------------------------------------
// literal tables

// LitInts flattens a (nested) composite literal of integer constants into a tree.
type litNode struct {
	leaf *big.Int
	kids []*litNode
	pos  token.Pos
}

func (f *Folder) LitTree(pk *packages.Package, e ast.Expr) (*litNode, error) {
	info := pk.TypesInfo
	if tv, ok := info.Types[e]; ok && tv.Value != nil && tv.Value.Kind() == constant.Int {
		b, _ := new(big.Int).SetString(tv.Value.ExactString(), 10)
		return &litNode{leaf: b, pos: e.Pos()}, nil
	}
	switch e := e.(type) {
	case *ast.ParenExpr:
		return f.LitTree(pk, e.X)
	case *ast.UnaryExpr:
		if e.Op == token.AND {
			return f.LitTree(pk, e.X)
		}
	case *ast.CompositeLit:
		n := &litNode{pos: e.Pos()}
		for _, el := range e.Elts {
			if _, ok := el.(*ast.KeyValueExpr); ok {
				return nil, fmt.Errorf("keyed element in table literal at %s", f.p.Pos(el.Pos()))
			}
			k, err := f.LitTree(pk, el)
			if err != nil {
				return nil, err
			}
			n.kids = append(n.kids, k)
		}
		return n, nil
	}
	return nil, fmt.Errorf("not a literal table element: %s at %s", types.ExprString(e), f.p.Pos(e.Pos()))
}

// VarInit returns the initialiser expression of a package-level var.
func (f *Folder) VarInit(pkg, name string) (*packages.Package, ast.Expr, error) {
	pk := f.p.Pkgs[pkg]
	if pk == nil {
		return nil, nil, fmt.Errorf("no package %s", pkg)
	}
	for _, file := range pk.Syntax {
		for _, d := range file.Decls {
			gd, ok := d.(*ast.GenDecl)
			if !ok || gd.Tok != token.VAR {
				continue
			}
			for _, sp := range gd.Specs {
				vs := sp.(*ast.ValueSpec)
				for i, n := range vs.Names {
					if n.Name == name && len(vs.Values) == len(vs.Names) {
						return pk, vs.Values[i], nil
					}
				}
			}
		}
	}
	return nil, nil, fmt.Errorf("no initialiser for %s.%s", pkg, name)
}

func (f *Folder) TableByName(pkg, name string) (*litNode, error) {
	pk, e, err := f.VarInit(pkg, name)
	if err == nil {
		if t, lerr := f.LitTree(pk, e); lerr == nil {
			return t, nil
		} else {
			err = lerr
		}
	}
	// not a literal: a table produced by an input-free generator has one value, obtained by constant propagation
	if t, cerr := f.generatedTable(pkg, name); cerr == nil {
		return t, nil
	} else if f.tableNotes != nil {
		f.tableNotes[pkg+"."+name] = cerr.Error()
	}
	return nil, err
}

// generatedTable: var name = gen() or var a, name, c = gen(), gen a repository function without parameters
func (f *Folder) generatedTable(pkg, name string) (*litNode, error) {
	pk := f.p.Pkgs[pkg]
	if pk == nil {
		return nil, fmt.Errorf("no package %s", pkg)
	}
	if f.genCache == nil {
		f.genCache = map[*ssa.Function][]*litNode{}
	}
	for _, file := range pk.Syntax {
		for _, d := range file.Decls {
			gd, ok := d.(*ast.GenDecl)
			if !ok || gd.Tok != token.VAR {
				continue
			}
			for _, sp := range gd.Specs {
				vs := sp.(*ast.ValueSpec)
				for i, n := range vs.Names {
					if n.Name != name {
						continue
					}
					var call *ast.CallExpr
					idx := 0
					switch {
					case len(vs.Values) == len(vs.Names):
						call, _ = vs.Values[i].(*ast.CallExpr)
					case len(vs.Values) == 1:
						call, _ = vs.Values[0].(*ast.CallExpr)
						idx = i
					}
					if call == nil || len(call.Args) != 0 {
						return nil, fmt.Errorf("%s.%s is not initialised by a call without arguments", pkg, name)
					}
					id, ok := call.Fun.(*ast.Ident)
					if !ok {
						return nil, fmt.Errorf("%s.%s: generator is not a plain function", pkg, name)
					}
					tf, ok := pk.TypesInfo.Uses[id].(*types.Func)
					if !ok {
						return nil, fmt.Errorf("%s.%s: generator is not a function", pkg, name)
					}
					fn := f.p.SSA.FuncValue(tf)
					if fn == nil {
						return nil, fmt.Errorf("%s.%s: generator has no body", pkg, name)
					}
					trees, ok := f.genCache[fn]
					if !ok {
						var err error
						trees, err = constEvalCall(f.p, f, fn)
						if err != nil {
							return nil, err
						}
						f.genCache[fn] = trees
					}
					if idx >= len(trees) {
						return nil, fmt.Errorf("%s.%s: generator has %d results", pkg, name, len(trees))
					}
					if f.generated == nil {
						f.generated = map[string]string{}
					}
					f.generated[pkg+"."+name] = fn.Name()
					return trees[idx], nil
				}
			}
		}
	}
	return nil, fmt.Errorf("no initialiser for %s.%s", pkg, name)
}

func (f *Folder) ConstInt(pkg, name string) (*big.Int, error) {
	pk := f.p.Pkgs[pkg]
	if pk == nil {
		return nil, fmt.Errorf("no package %s", pkg)
	}
	obj := pk.Types.Scope().Lookup(name)
	c, ok := obj.(*types.Const)
	if !ok {
		return nil, fmt.Errorf("%s.%s is not a constant", pkg, name)
	}
	v, err := constVal(c.Val())
	if err != nil {
		return nil, err
	}
	return v.big, nil
}

// curveFromBuilder: see Curve. Only fields still missing are filled; a field found twice with different values is left
// unresolved.
func (f *Folder) curveFromBuilder(pk *packages.Package, lit *ast.CompositeLit, cv *fval) {
	want := map[string]bool{"P": true, "N": true, "B": true, "Gx": true, "Gy": true}
	var fd *ast.FuncDecl
	for _, file := range pk.Syntax {
		for _, d := range file.Decls {
			if g, ok := d.(*ast.FuncDecl); ok && g.Body != nil && g.Pos() <= lit.Pos() && lit.End() <= g.End() {
				fd = g
			}
		}
	}
	if fd == nil {
		return
	}
	isParamsField := func(e ast.Expr) (string, bool) {
		sel, ok := e.(*ast.SelectorExpr)
		if !ok || !want[sel.Sel.Name] {
			return "", false
		}
		tv, ok := pk.TypesInfo.Types[sel.X]
		if !ok {
			return "", false
		}
		t := tv.Type
		if pt, isPtr := t.Underlying().(*types.Pointer); isPtr {
			t = pt.Elem()
		}
		if !isNamed(t, "crypto/elliptic", "CurveParams") {
			return "", false
		}
		return sel.Sel.Name, true
	}
	found := map[string]*fval{}
	clash := map[string]bool{}
	put := func(name string, v *fval) {
		if v == nil || v.k != fBig {
			return
		}
		if o, ok := found[name]; ok && o.big.Cmp(v.big) != 0 {
			clash[name] = true
		}
		found[name] = v
	}
	// the converter applied to the table strings: *entry.dst = F(entry.hex)
	var conv *types.Func
	ast.Inspect(fd.Body, func(n ast.Node) bool {
		as, ok := n.(*ast.AssignStmt)
		if !ok {
			return true
		}
		if len(as.Lhs) >= 1 && len(as.Rhs) == 1 {
			if name, ok := isParamsField(as.Lhs[0]); ok {
				if v, err := f.Expr(pk, as.Rhs[0], nil); err == nil {
					if v.k == fTuple && len(v.tuple) > 0 {
						v = v.tuple[0]
					}
					put(name, v)
				}
			}
			if _, isStar := as.Lhs[0].(*ast.StarExpr); isStar {
				if call, ok := as.Rhs[0].(*ast.CallExpr); ok && len(call.Args) == 1 {
					if id, ok := call.Fun.(*ast.Ident); ok {
						if tf, ok := pk.TypesInfo.Uses[id].(*types.Func); ok {
							conv = tf
						}
					}
				}
			}
		}
		return true
	})
	if conv != nil {
		ast.Inspect(fd.Body, func(n ast.Node) bool {
			cl, ok := n.(*ast.CompositeLit)
			if !ok {
				return true
			}
			var name, str string
			n1, n2 := 0, 0
			for _, el := range cl.Elts {
				if kv, ok := el.(*ast.KeyValueExpr); ok {
					el = kv.Value
				}
				if u, ok := el.(*ast.UnaryExpr); ok && u.Op == token.AND {
					if nm, ok := isParamsField(u.X); ok {
						name = nm
						n1++
					}
				}
				if bl, ok := el.(*ast.BasicLit); ok && bl.Kind == token.STRING {
					if tv, ok := pk.TypesInfo.Types[bl]; ok && tv.Value != nil {
						str = constant.StringVal(tv.Value)
						n2++
					}
				}
			}
			if n1 == 1 && n2 == 1 {
				if v, err := f.inline(conv, nil, pk, []*fval{{k: fString, str: str}}, nil); err == nil {
					if v.k == fTuple && len(v.tuple) > 0 {
						v = v.tuple[0]
					}
					put(name, v)
				}
			}
			return true
		})
	}
	for name, v := range found {
		if cv.curve[name] == nil && !clash[name] {
			cv.curve[name] = v
		}
	}
}
