package main

// Engines A2 (secret taint over the assembler CFG) and A3 (store provenance / may-write sets).

import (
	"fmt"
	"sort"
	"strings"
)

// ---------------- provenance (A3) ----------------

// Prov is the provenance of a general register: which parameter slots / symbols / constants it was
// computed from by MOV/ADD/SUB/LEA. Top means "anything" (e.g. loaded from data memory).
type Prov struct {
	Top    bool
	Labels map[string]bool // "p:<slot>" parameter slot, "s:<sym>" address of data symbol, "c" constant
	Const  *int64          // exact constant value if known
}

func provTop() Prov { return Prov{Top: true} }
func provOf(l string) Prov {
	return Prov{Labels: map[string]bool{l: true}}
}
func provConst(v int64) Prov {
	return Prov{Labels: map[string]bool{"c": true}, Const: &v}
}
func (p Prov) clone() Prov {
	q := Prov{Top: p.Top}
	if p.Labels != nil {
		q.Labels = map[string]bool{}
		for k := range p.Labels {
			q.Labels[k] = true
		}
	}
	if p.Const != nil {
		v := *p.Const
		q.Const = &v
	}
	return q
}
func (p Prov) join(o Prov) Prov {
	if p.Top || o.Top {
		return provTop()
	}
	q := p.clone()
	if q.Labels == nil {
		q.Labels = map[string]bool{}
	}
	for k := range o.Labels {
		q.Labels[k] = true
	}
	if p.Const == nil || o.Const == nil || *p.Const != *o.Const {
		q.Const = nil
	}
	return q
}
func (p Prov) equal(o Prov) bool {
	if p.Top != o.Top || len(p.Labels) != len(o.Labels) {
		return false
	}
	for k := range p.Labels {
		if !o.Labels[k] {
			return false
		}
	}
	if (p.Const == nil) != (o.Const == nil) {
		return false
	}
	if p.Const != nil && *p.Const != *o.Const {
		return false
	}
	return true
}
func (p Prov) String() string {
	if p.Top {
		return "⊤"
	}
	var ls []string
	for k := range p.Labels {
		ls = append(ls, k)
	}
	sort.Strings(ls)
	s := "{" + strings.Join(ls, ",") + "}"
	if p.Const != nil {
		s += fmt.Sprintf("=%d", *p.Const)
	}
	return s
}

// Pointers returns the pointer-kind labels (parameter pointers and symbols).
func (p Prov) Pointers() []string {
	var out []string
	for k := range p.Labels {
		if strings.HasPrefix(k, "s:") || (strings.HasPrefix(k, "p:") && strings.HasSuffix(k, ".ptr")) {
			out = append(out, k)
		}
	}
	sort.Strings(out)
	return out
}

type provState map[string]Prov // absent = undefined (bottom); reading an undefined register gives Top

func (s provState) get(r string) Prov {
	if p, ok := s[r]; ok {
		return p
	}
	return provTop()
}
func (s provState) clone() provState {
	q := provState{}
	for k, v := range s {
		q[k] = v
	}
	return q
}

func isGPR(r string) bool {
	return !strings.HasPrefix(r, "V") && !strings.HasPrefix(r, "K")
}

// Access is one memory access with the provenance of its address.
type Access struct {
	Instr  *Instr
	Mem    MemAcc
	Prov   Prov   // of the base register (or symbol)
	Object string // "p:<param>.ptr" | "s:<sym>" | "frame" | "" (undecided)
	Width  int    // effective width (masked accesses with a known constant mask are narrowed)
	MaskOK bool
}

type FlowResult struct {
	R        *Routine
	Effects  []*Effect
	ProvIn   []provState
	Accesses []Access
	Errors   []string
	// taint
	TaintIn        []map[string]bool
	TaintedBranch  []*Instr
	TaintedAddr    []Access
	TaintedMask    []Access
	TimingOps      []*Instr
	ResultTainted  map[string]bool // result slot -> tainted value stored
	VerdictBranch  *Instr
	VerdictProblem string
}

func provTransfer(r *Routine, in *Instr, e *Effect, st provState) provState {
	out := st.clone()
	a := in.Args
	setTopWrites := func() {
		for _, w := range e.Writes {
			if isGPR(w) || strings.HasPrefix(w, "K") {
				out[w] = provTop()
			}
		}
	}
	op := in.Op
	if r.Arch == "amd64" {
		switch op {
		case "MOVQ", "MOVL", "MOVD", "MOVW", "MOVB":
			if len(a) == 2 && a[1].Kind == OReg && (isGPR(a[1].Reg)) {
				switch a[0].Kind {
				case OFP:
					if sl, ok := r.Slot(a[0]); ok && (op == "MOVQ" || op == "MOVD") {
						out[a[1].Reg] = provOf("p:" + sl.String())
					} else {
						out[a[1].Reg] = provTop()
					}
				case OImm:
					out[a[1].Reg] = provConst(a[0].Imm)
				case OSymAddr:
					out[a[1].Reg] = provOf("s:" + a[0].Sym)
				case OReg:
					if isGPR(a[0].Reg) && (op == "MOVQ" || op == "MOVD") {
						out[a[1].Reg] = st.get(a[0].Reg)
					} else {
						out[a[1].Reg] = provTop()
					}
				default:
					out[a[1].Reg] = provTop()
				}
				return out
			}
		case "LEAQ":
			if a[0].Kind == OSym {
				out[a[1].Reg] = provOf("s:" + a[0].Sym)
			} else {
				p := st.get(a[0].Reg).clone()
				if a[0].Index != "" {
					p = p.join(st.get(a[0].Index)) // the index register flows into the address
				}
				p.Const = nil
				out[a[1].Reg] = p
			}
			return out
		case "INCQ", "DECQ":
			// r +- 1: the same object (pointer) or a value derived from the same inputs
			if len(a) == 1 && a[0].Kind == OReg {
				d := st.get(a[0].Reg).clone()
				if d.Const != nil {
					v := *d.Const + 1
					if op == "DECQ" {
						v = *d.Const - 1
					}
					d.Const = &v
				}
				out[a[0].Reg] = d
				return out
			}
		case "ADDQ", "SUBQ":
			if len(a) == 2 && a[1].Kind == OReg {
				d := st.get(a[1].Reg)
				var s Prov
				switch a[0].Kind {
				case OImm:
					s = provConst(a[0].Imm)
				case OReg:
					s = st.get(a[0].Reg)
				default:
					s = provTop()
				}
				if e.ZeroIdiom {
					out[a[1].Reg] = provConst(0)
					return out
				}
				j := d.join(s)
				if d.Const != nil && s.Const != nil && !j.Top {
					v := *d.Const + *s.Const
					if op == "SUBQ" {
						v = *d.Const - *s.Const
					}
					j.Const = &v
				} else {
					j.Const = nil
				}
				out[a[1].Reg] = j
				return out
			}
		case "ANDQ", "SHRQ", "SHLQ", "ORQ", "XORQ":
			// value arithmetic on lengths/constants: keeps the labels (still public, derived from the same inputs), never a pointer base afterwards
			if len(a) == 2 && a[1].Kind == OReg {
				if e.ZeroIdiom {
					out[a[1].Reg] = provConst(0)
					return out
				}
				d := st.get(a[1].Reg)
				var s Prov
				switch a[0].Kind {
				case OImm:
					s = provConst(a[0].Imm)
				case OReg:
					s = st.get(a[0].Reg)
				default:
					s = provTop()
				}
				j := d.join(s)
				j.Const = nil
				if !j.Top && len(j.Pointers()) > 0 && op != "ANDQ" {
					j = provTop()
				}
				out[a[1].Reg] = j
				return out
			}
		case "KMOVW", "KMOVQ", "KMOVD", "KMOVB":
			out[a[1].Reg] = st.get(a[0].Reg)
			return out
		}
		setTopWrites()
		return out
	}
	// arm64
	switch op {
	case "MOVD":
		if len(a) == 2 && a[1].Kind == OReg && isGPR(a[1].Reg) {
			switch a[0].Kind {
			case OFP:
				if sl, ok := r.Slot(a[0]); ok {
					out[a[1].Reg] = provOf("p:" + sl.String())
				} else {
					out[a[1].Reg] = provTop()
				}
			case OImm:
				out[a[1].Reg] = provConst(a[0].Imm)
			case OSymAddr:
				out[a[1].Reg] = provOf("s:" + a[0].Sym)
			case OReg:
				out[a[1].Reg] = st.get(a[0].Reg)
			default:
				out[a[1].Reg] = provTop()
			}
			return out
		}
	case "ADD", "SUB":
		dst := a[len(a)-1]
		var srcs []Prov
		for _, o := range a[:len(a)-1] {
			switch o.Kind {
			case OImm:
				srcs = append(srcs, provConst(o.Imm))
			case OReg:
				srcs = append(srcs, st.get(o.Reg))
			}
		}
		if len(a) == 2 {
			srcs = append(srcs, st.get(dst.Reg))
		}
		j := srcs[0]
		for _, s := range srcs[1:] {
			j = j.join(s)
		}
		j.Const = nil
		out[dst.Reg] = j
		return out
	}
	// post-increment forms write their base register: provenance unchanged
	for _, w := range e.Writes {
		if !isGPR(w) {
			continue
		}
		post := false
		for _, m := range e.Mem {
			if m.Base == w && m.PostInc != 0 {
				post = true
			}
		}
		if !post {
			out[w] = provTop()
		}
	}
	return out
}

func popcount(v int64) int {
	n := 0
	for u := uint64(v); u != 0; u &= u - 1 {
		n++
	}
	return n
}

// AnalyzeFlow runs A3 then A2 on a routine.
func AnalyzeFlow(r *Routine) *FlowResult {
	res := &FlowResult{R: r, ResultTainted: map[string]bool{}}
	n := len(r.Instrs)
	res.Effects = make([]*Effect, n)
	for i, in := range r.Instrs {
		e, err := effectOf(r.Arch, in)
		if err != nil {
			res.Errors = append(res.Errors, err.Error())
			e = &Effect{}
		}
		res.Effects[i] = e
	}
	if len(res.Errors) > 0 {
		return res
	}
	// ---- provenance fixpoint
	res.ProvIn = make([]provState, n)
	res.ProvIn[0] = provState{}
	work := []int{0}
	inWork := map[int]bool{0: true}
	for len(work) > 0 {
		i := work[0]
		work = work[1:]
		inWork[i] = false
		out := provTransfer(r, r.Instrs[i], res.Effects[i], res.ProvIn[i])
		for _, s := range r.Instrs[i].Succ {
			changed := false
			if res.ProvIn[s] == nil {
				res.ProvIn[s] = out.clone()
				changed = true
			} else {
				cur := res.ProvIn[s]
				// join: registers defined in only one predecessor become Top
				for k, v := range cur {
					var j Prov
					if ov, ok := out[k]; ok {
						j = v.join(ov)
					} else {
						j = provTop()
					}
					if !j.equal(v) {
						cur[k] = j
						changed = true
					}
				}
				for k := range out {
					if _, ok := cur[k]; !ok {
						cur[k] = provTop()
						changed = true
					}
				}
			}
			if changed && !inWork[s] {
				work = append(work, s)
				inWork[s] = true
			}
		}
	}
	// ---- accesses
	for i, in := range r.Instrs {
		if res.ProvIn[i] == nil {
			continue // unreachable instruction
		}
		for _, m := range res.Effects[i].Mem {
			acc := Access{Instr: in, Mem: m, Width: m.Width}
			switch {
			case m.FPSlot:
				acc.Object = "frame"
			case m.Sym != "":
				acc.Prov = provOf("s:" + m.Sym)
				acc.Object = "s:" + m.Sym
			default:
				acc.Prov = res.ProvIn[i].get(m.Base)
				if !acc.Prov.Top {
					if ps := acc.Prov.Pointers(); len(ps) == 1 {
						acc.Object = ps[0]
					}
				}
			}
			if m.MaskReg != "" {
				mp := res.ProvIn[i].get(m.MaskReg)
				if mp.Const != nil {
					acc.MaskOK = true
					lanes := m.Width / m.LaneSize
					mask := *mp.Const & (int64(1)<<uint(lanes) - 1)
					// contiguous-from-zero masks narrow the access; others keep the full width
					if mask&(mask+1) == 0 {
						acc.Width = popcount(mask) * m.LaneSize
					}
				}
			}
			res.Accesses = append(res.Accesses, acc)
		}
	}
	res.taint()
	return res
}

// MayWrite returns the objects (parameter pointers / symbols) the routine may store into.
func (f *FlowResult) MayWrite() (objs map[string][]Access, undecided []Access) {
	objs = map[string][]Access{}
	for _, a := range f.Accesses {
		if !a.Mem.Store {
			continue
		}
		if a.Object == "" {
			undecided = append(undecided, a)
			continue
		}
		objs[a.Object] = append(objs[a.Object], a)
	}
	return
}

func (f *FlowResult) MayRead() (objs map[string][]Access, undecided []Access) {
	objs = map[string][]Access{}
	for _, a := range f.Accesses {
		if !a.Mem.Load {
			continue
		}
		if a.Object == "" {
			undecided = append(undecided, a)
			continue
		}
		objs[a.Object] = append(objs[a.Object], a)
	}
	return
}

// ---------------- taint (A2) ----------------

const flagsReg = "FLAGS"

func (f *FlowResult) taint() {
	r := f.R
	n := len(r.Instrs)
	f.TaintIn = make([]map[string]bool, n)
	f.TaintIn[0] = map[string]bool{}
	work := []int{0}
	inWork := map[int]bool{0: true}
	accByInstr := map[int][]Access{}
	for _, a := range f.Accesses {
		accByInstr[a.Instr.Idx] = append(accByInstr[a.Instr.Idx], a)
	}
	transfer := func(i int, st map[string]bool) map[string]bool {
		e := f.Effects[i]
		out := map[string]bool{}
		for k, v := range st {
			if v {
				out[k] = true
			}
		}
		t := false
		for _, rd := range e.Reads {
			if st[rd] {
				t = true
			}
		}
		if e.UsesFlags && e.Br == brNone && st[flagsReg] {
			t = true
		}
		for _, a := range accByInstr[i] {
			if a.Mem.Load && !a.Mem.FPSlot && !strings.HasPrefix(a.Object, "s:") {
				t = true // every byte loaded from non-RODATA memory is secret
			}
			if a.Mem.Load && strings.HasPrefix(a.Object, "s:") && a.Mem.Base != "" && st[a.Mem.Base] {
				t = true
			}
		}
		if e.ZeroIdiom {
			t = false
		}
		for _, w := range e.Writes {
			// a post-incremented base register stays as it was (public pointer arithmetic)
			post := false
			for _, m := range e.Mem {
				if m.Base == w && m.PostInc != 0 {
					post = true
				}
			}
			if post {
				continue
			}
			if t {
				out[w] = true
			} else {
				delete(out, w)
			}
		}
		if e.SetsFlags {
			if t {
				out[flagsReg] = true
			} else {
				delete(out, flagsReg)
			}
		}
		return out
	}
	for len(work) > 0 {
		i := work[0]
		work = work[1:]
		inWork[i] = false
		out := transfer(i, f.TaintIn[i])
		for _, s := range r.Instrs[i].Succ {
			changed := false
			if f.TaintIn[s] == nil {
				f.TaintIn[s] = map[string]bool{}
				for k := range out {
					f.TaintIn[s][k] = true
				}
				changed = true
			} else {
				for k := range out {
					if !f.TaintIn[s][k] {
						f.TaintIn[s][k] = true
						changed = true
					}
				}
			}
			if changed && !inWork[s] {
				work = append(work, s)
				inWork[s] = true
			}
		}
	}
	// sinks
	for i, in := range r.Instrs {
		st := f.TaintIn[i]
		if st == nil {
			continue
		}
		e := f.Effects[i]
		if e.Br == brCond {
			t := false
			if e.UsesFlags && st[flagsReg] {
				t = true
			}
			for _, rd := range e.Reads {
				if st[rd] {
					t = true
				}
			}
			if t {
				f.TaintedBranch = append(f.TaintedBranch, in)
			}
		}
		if e.Timing != "" {
			for _, rd := range e.Reads {
				if st[rd] {
					f.TimingOps = append(f.TimingOps, in)
					break
				}
			}
		}
		for _, a := range accByInstr[i] {
			if (a.Mem.Base != "" && st[a.Mem.Base]) || (a.Mem.Index != "" && st[a.Mem.Index]) {
				f.TaintedAddr = append(f.TaintedAddr, a)
			}
			if a.Mem.MaskReg != "" && st[a.Mem.MaskReg] {
				f.TaintedMask = append(f.TaintedMask, a)
			}
			if a.Mem.Store && a.Mem.FPSlot {
				// result slot: tainted if a tainted register is stored
				for _, rd := range e.Reads {
					if st[rd] {
						if sl, ok := r.Slot(in.Args[a.Mem.Arg]); ok {
							f.ResultTainted[sl.String()] = true
						}
					}
				}
			}
		}
	}
}

// VerdictCheck decides whether a tainted branch is the single tolerated verdict branch (DESIGN 1.2/A2).
func (f *FlowResult) VerdictCheck(br *Instr) (ok bool, why string) {
	r := f.R
	hasResult := false
	for _, s := range r.Slots {
		if s.Part == "ret" {
			hasResult = true
		}
	}
	if !hasResult {
		return false, "routine has no result: a data-dependent branch cannot be a verdict"
	}
	if r.InCycle[br.Idx] {
		return false, "branch lies inside a loop (early exit)"
	}
	// one successor must reach RET through instructions that read no tainted register and touch no memory
	// other than storing an immediate into the result slot
	for _, s := range br.Succ {
		i := s
		good := true
		steps := 0
		for good && steps < 64 {
			steps++
			in := r.Instrs[i]
			e := f.Effects[i]
			st := f.TaintIn[i]
			if e.Br == brRet {
				return true, ""
			}
			if e.Br == brCond {
				good = false
				break
			}
			for _, rd := range e.Reads {
				if st[rd] {
					good = false
				}
			}
			for _, m := range e.Mem {
				if !(m.Store && !m.Load && m.FPSlot && in.Args[0].Kind == OImm) {
					good = false
				}
			}
			if len(in.Succ) != 1 {
				good = false
				break
			}
			i = in.Succ[0]
		}
	}
	return false, "no arm of the branch is a pure 'store constant verdict and return' path"
}

// VecDefBeforeUse: forward must-analysis over the routine's CFG. A vector or mask register is "defined" once an instruction
// has written it on every path from the entry (assembler routines get their arguments on the stack: every vector register
// holds whatever the previous caller left there). Reading a register that is not defined makes the result depend on
// state that is not an input of the call. Zeroing idioms (x XOR x) are writes. Returns one line per offending read.
func VecDefBeforeUse(rt *Routine, flow *FlowResult) []string {
	n := len(rt.Instrs)
	isVec := func(r string) bool {
		if len(r) < 2 {
			return false
		}
		if r[0] == 'V' || r[0] == 'K' {
			c := r[1]
			return c >= '0' && c <= '9'
		}
		return false
	}
	type set map[string]bool
	in := make([]set, n) // nil = not reached yet (top)
	in[0] = set{}
	work := []int{0}
	queued := map[int]bool{0: true}
	out := func(i int) set {
		o := set{}
		for k := range in[i] {
			o[k] = true
		}
		if e := flow.Effects[i]; e != nil {
			for _, w := range e.Writes {
				if isVec(w) {
					o[w] = true
				}
			}
		}
		return o
	}
	for len(work) > 0 {
		i := work[0]
		work = work[1:]
		queued[i] = false
		o := out(i)
		for _, s := range rt.Instrs[i].Succ {
			changed := false
			if in[s] == nil {
				in[s] = o
				changed = true
			} else {
				for k := range in[s] {
					if !o[k] {
						delete(in[s], k)
						changed = true
					}
				}
			}
			if changed && !queued[s] {
				queued[s] = true
				work = append(work, s)
			}
		}
	}
	var bad []string
	seen := map[string]bool{}
	for i, ins := range rt.Instrs {
		e := flow.Effects[i]
		if e == nil || in[i] == nil || e.ZeroIdiom {
			continue
		}
		for _, r := range e.Reads {
			if isVec(r) && !in[i][r] {
				key := ins.Pos + " " + r
				if !seen[key] {
					seen[key] = true
					bad = append(bad, fmt.Sprintf("%s: %s reads %s, which no instruction has written on some path from the entry", ins.Pos, strings.TrimSpace(ins.Raw), r))
				}
			}
		}
	}
	return bad
}
