package main

// A hand-written replacement of io.ReadFull is recognised by its shape, so that the protocol domain can use it through the
// same contract as io.ReadFull (a full successful read, or a failed read whose buffer is unusable):
//
//	func f(src io.Reader, buf []byte) error
//
// (1) the source is used only as the receiver of Read, and every Read gets buf[G:] where G is one loop-carried counter that
//     starts at 0 and is advanced by nothing but the count the very same Read returned (G' = G + m);
// (2) buf is used only for len(buf) and for those slices (no other write into it);
// (3) a nil error is returned only where the dominating branch conditions establish G >= len(buf) (resp. G' >= len(buf)):
//     with the Reader contract 0 <= m <= len(p) the counter never passes len(buf), so every byte was written by a Read;
// (4) every other return carries an error that is non-nil there (tested != nil on a dominating edge, a package-level
//     error value of io, or errors.New / fmt.Errorf).
//
// The rule reads the CFG; nothing is executed. A read loop that slices at the last count instead of the total, returns nil
// early, or tests the wrong variable is not recognised, and the call is then reported as an unmodelled use of the source.

import (
	"go/token"
	"go/types"
	"sync"

	"golang.org/x/tools/go/ssa"
)

type readHelper struct {
	rd, buf int
	why     string
}

var readHelperCache sync.Map // *ssa.Function -> *readHelper (nil entry: not a helper)

func isIOReader(t types.Type) bool {
	it, ok := t.Underlying().(*types.Interface)
	if !ok || it.NumMethods() != 1 {
		return false
	}
	m := it.Method(0)
	if m.Name() != "Read" {
		return false
	}
	sig := m.Type().(*types.Signature)
	return sig.Params().Len() == 1 && sig.Results().Len() == 2
}

func fullReadHelper(fn *ssa.Function) *readHelper {
	if v, ok := readHelperCache.Load(fn); ok {
		h, _ := v.(*readHelper)
		return h
	}
	h := fullReadHelper0(fn)
	if h == nil {
		readHelperCache.Store(fn, (*readHelper)(nil))
	} else {
		readHelperCache.Store(fn, h)
	}
	return h
}

func fullReadHelper0(fn *ssa.Function) *readHelper {
	if fn == nil || len(fn.Blocks) == 0 || fn.Signature.Recv() != nil {
		return nil
	}
	res := fn.Signature.Results()
	if res.Len() != 1 || !isErrorType(res.At(0).Type()) {
		return nil
	}
	rd, buf := -1, -1
	for i, p := range fn.Params {
		switch {
		case isIOReader(p.Type()):
			if rd >= 0 {
				return nil
			}
			rd = i
		default:
			if sl, ok := p.Type().Underlying().(*types.Slice); ok && elemSize(sl.Elem()) == 1 {
				if buf >= 0 {
					return nil
				}
				buf = i
			} else {
				return nil
			}
		}
	}
	if rd < 0 || buf < 0 {
		return nil
	}
	src, b := fn.Params[rd], fn.Params[buf]
	// (1) uses of the source
	var reads []*ssa.Call
	for _, ref := range *src.Referrers() {
		switch x := ref.(type) {
		case *ssa.DebugRef:
		case *ssa.Call:
			if !x.Call.IsInvoke() || x.Call.Value != ssa.Value(src) || x.Call.Method.Name() != "Read" || len(x.Call.Args) != 1 {
				return nil
			}
			reads = append(reads, x)
		default:
			return nil
		}
	}
	if len(reads) == 0 {
		return nil
	}
	isLenBuf := func(v ssa.Value) bool {
		c, ok := v.(*ssa.Call)
		if !ok {
			return false
		}
		bi, ok := c.Call.Value.(*ssa.Builtin)
		return ok && bi.Name() == "len" && len(c.Call.Args) == 1 && c.Call.Args[0] == ssa.Value(b)
	}
	// (2) uses of the buffer
	readSlice := map[*ssa.Slice]bool{}
	for _, ref := range *b.Referrers() {
		switch x := ref.(type) {
		case *ssa.DebugRef:
		case *ssa.Call:
			if !isLenBuf(x) {
				return nil
			}
		case *ssa.Slice:
			if x.X != ssa.Value(b) || x.High != nil || x.Max != nil {
				return nil
			}
			for _, r2 := range *x.Referrers() {
				if _, isDbg := r2.(*ssa.DebugRef); isDbg {
					continue
				}
				c, ok := r2.(*ssa.Call)
				if !ok {
					return nil
				}
				found := false
				for _, rc := range reads {
					if rc == c && c.Call.Args[0] == ssa.Value(x) {
						found = true
					}
				}
				if !found {
					return nil
				}
			}
			readSlice[x] = true
		default:
			return nil
		}
	}
	// the counter: one phi G with edges {0, G + m}; every Read slices at G and m is its own count
	var G *ssa.Phi
	var Gnext []ssa.Value
	for _, rc := range reads {
		sl, ok := rc.Call.Args[0].(*ssa.Slice)
		if !ok || !readSlice[sl] {
			return nil
		}
		var g *ssa.Phi
		switch lo := sl.Low.(type) {
		case nil:
			return nil // buf[0:] inside a loop would overwrite the start; a single Read is not a full read
		case *ssa.Phi:
			g = lo
		default:
			return nil
		}
		if G != nil && g != G {
			return nil
		}
		G = g
		// the count of this Read
		var m ssa.Value
		for _, r2 := range *rc.Referrers() {
			if ex, ok := r2.(*ssa.Extract); ok && ex.Index == 0 {
				m = ex
			}
		}
		if m == nil {
			return nil
		}
		// G + m
		var sum ssa.Value
		for _, r2 := range *m.Referrers() {
			if bo, ok := r2.(*ssa.BinOp); ok && bo.Op == token.ADD && ((bo.X == ssa.Value(G) && bo.Y == m) || (bo.Y == ssa.Value(G) && bo.X == m)) {
				sum = bo
			} else if _, isDbg := r2.(*ssa.DebugRef); !isDbg {
				return nil // the count is used for something else
			}
		}
		if sum == nil {
			return nil
		}
		Gnext = append(Gnext, sum)
	}
	if G == nil {
		return nil
	}
	for _, e := range G.Edges {
		if c, ok := e.(*ssa.Const); ok && c.Value != nil && c.Value.ExactString() == "0" {
			continue
		}
		ok := false
		for _, s := range Gnext {
			if e == s {
				ok = true
			}
		}
		if !ok {
			return nil
		}
	}
	isCounter := func(v ssa.Value) bool {
		if v == ssa.Value(G) {
			return true
		}
		for _, s := range Gnext {
			if v == s {
				return true
			}
		}
		return false
	}
	// (3), (4) the returns
	full := func(blk *ssa.BasicBlock) bool {
		for _, ec := range edgeConds(blk) {
			c, ok := ec.If.Cond.(*ssa.BinOp)
			if !ok {
				continue
			}
			op, x, y := c.Op, c.X, c.Y
			if isLenBuf(x) { // len(buf) OP counter  ->  counter OP' len(buf)
				x, y = y, x
				op = map[token.Token]token.Token{token.LSS: token.GTR, token.GTR: token.LSS, token.LEQ: token.GEQ, token.GEQ: token.LEQ, token.EQL: token.EQL, token.NEQ: token.NEQ}[op]
			}
			if !isCounter(x) || !isLenBuf(y) {
				continue
			}
			if (op == token.LSS && !ec.Truth) || (op == token.GEQ && ec.Truth) || (op == token.EQL && ec.Truth) || (op == token.NEQ && !ec.Truth) {
				return true
			}
		}
		return false
	}
	nonNil := func(v ssa.Value, blk *ssa.BasicBlock) bool {
		switch x := v.(type) {
		case *ssa.UnOp:
			if g, ok := x.X.(*ssa.Global); ok && x.Op == token.MUL && g.Pkg != nil && g.Pkg.Pkg.Path() == "io" {
				return true // io.EOF, io.ErrUnexpectedEOF, ...: package-level error values, never nil
			}
		case *ssa.Call:
			if cal := x.Call.StaticCallee(); cal != nil && (cal.String() == "errors.New" || cal.String() == "fmt.Errorf") {
				return true
			}
		}
		for _, ec := range edgeConds(blk) {
			c, ok := ec.If.Cond.(*ssa.BinOp)
			if !ok {
				continue
			}
			isNil := func(w ssa.Value) bool { k, ok := w.(*ssa.Const); return ok && k.Value == nil }
			if (c.X == v && isNil(c.Y)) || (c.Y == v && isNil(c.X)) {
				if (c.Op == token.NEQ && ec.Truth) || (c.Op == token.EQL && !ec.Truth) {
					return true
				}
			}
		}
		return false
	}
	nRet := 0
	for _, blk := range fn.Blocks {
		for _, in := range blk.Instrs {
			ret, ok := in.(*ssa.Return)
			if !ok {
				continue
			}
			nRet++
			rv := retVals(ret)
			if len(rv) != 1 {
				return nil
			}
			if c, isC := rv[0].(*ssa.Const); isC && c.Value == nil {
				if !full(blk) {
					return nil
				}
				continue
			}
			if !nonNil(rv[0], blk) {
				return nil
			}
		}
	}
	if nRet == 0 {
		return nil
	}
	return &readHelper{rd: rd, buf: buf, why: "the source is read only as Read(buf[got:]) with got advanced by each count; nil is returned only behind got >= len(buf); other returns carry a non-nil error"}
}
